(* Shared glue for the per-property model drivers (trusted: parsing of case lines, number
   conversion, statistics, report lines).  Numbers on the wire are hexadecimal, optionally
   signed ("-1f"); byte strings are hex pairs ("" is written "-"). *)
open BinNums

let rec pos_of_int (n : int) : positive =
  if n = 1 then Coq_xH
  else if n land 1 = 0 then Coq_xO (pos_of_int (n lsr 1))
  else Coq_xI (pos_of_int (n lsr 1))

let n_of_int (n : int) : coq_N = if n = 0 then N0 else Npos (pos_of_int n)
let z_of_int (n : int) : coq_Z = if n = 0 then Z0 else if n > 0 then Zpos (pos_of_int n) else Zneg (pos_of_int (-n))

let hexval c = match c with
  | '0'..'9' -> Char.code c - 48
  | 'a'..'f' -> Char.code c - 87
  | 'A'..'F' -> Char.code c - 55
  | _ -> failwith ("bad hex digit " ^ Stdlib.String.make 1 c)

(* arbitrary-size: builds the binary positive directly from hex digits *)
let n_of_hex (s : string) : coq_N =
  let acc = ref None in    (* positive option, most significant first *)
  let push_bit b = match !acc with
    | None -> if b then acc := Some Coq_xH
    | Some p -> acc := Some (if b then Coq_xI p else Coq_xO p) in
  Stdlib.String.iter (fun c -> let v = hexval c in
    push_bit (v land 8 <> 0); push_bit (v land 4 <> 0); push_bit (v land 2 <> 0); push_bit (v land 1 <> 0)) s;
  match !acc with None -> N0 | Some p -> Npos p

let z_of_hex (s : string) : coq_Z =
  if Stdlib.String.length s > 0 && (Stdlib.String.get s (0)) = '-' then
    (match n_of_hex (Stdlib.String.sub s 1 (Stdlib.String.length s - 1)) with N0 -> Z0 | Npos p -> Zneg p)
  else (match n_of_hex s with N0 -> Z0 | Npos p -> Zpos p)

let hex_of_pos (p : positive) : string =
  (* collect bits LSB first *)
  let rec bits p acc = match p with
    | Coq_xH -> true :: acc
    | Coq_xO q -> bits q (false :: acc)   (* wrong order fixed below *)
    | Coq_xI q -> bits q (true :: acc) in
  ignore bits;
  let rec lsb p = match p with Coq_xH -> [true] | Coq_xO q -> false :: lsb q | Coq_xI q -> true :: lsb q in
  let l = Array.of_list (lsb p) in
  let nb = Array.length l in
  let nd = (nb + 3) / 4 in
  let b = Bytes.make nd '0' in
  for d = 0 to nd - 1 do
    let v = ref 0 in
    for k = 0 to 3 do let i = d * 4 + k in if i < nb && l.(i) then v := !v lor (1 lsl k) done;
    Bytes.set b (nd - 1 - d) (Stdlib.String.get "0123456789abcdef" (!v))
  done;
  Bytes.to_string b

let hex_of_n (n : coq_N) : string = match n with N0 -> "0" | Npos p -> hex_of_pos p
let hex_of_z (z : coq_Z) : string = match z with Z0 -> "0" | Zpos p -> hex_of_pos p | Zneg p -> "-" ^ hex_of_pos p

let rec int_of_pos (p : positive) : int = match p with
  | Coq_xH -> 1 | Coq_xO q -> 2 * int_of_pos q | Coq_xI q -> 2 * int_of_pos q + 1
let int_of_n (n : coq_N) : int = match n with N0 -> 0 | Npos p -> int_of_pos p
let int_of_z (z : coq_Z) : int = match z with Z0 -> 0 | Zpos p -> int_of_pos p | Zneg p -> - (int_of_pos p)

(* byte strings: "-" or hex pairs *)
let bytes_of_hex (s : string) : coq_N list =
  if s = "-" then [] else begin
    let n = Stdlib.String.length s / 2 in
    Stdlib.List.init n (fun i -> n_of_int (hexval (Stdlib.String.get s (2*i)) * 16 + hexval (Stdlib.String.get s (2*i+1))))
  end
let hex_of_bytes (l : coq_N list) : string =
  if l = [] then "-" else Stdlib.String.concat "" (Stdlib.List.map (fun b -> Printf.sprintf "%02x" (int_of_n b)) l)

let split_ws (s : string) : string list =
  Stdlib.List.filter (fun x -> x <> "") (Stdlib.String.split_on_char ' ' s)

(* a line is "<case> => <impl result>" *)
let split_case (line : string) : string * string =
  let pat = " => " in
  let n = Stdlib.String.length line and m = Stdlib.String.length pat in
  let rec find i = if i + m > n then -1 else if Stdlib.String.sub line i m = pat then i else find (i + 1) in
  let i = find 0 in
  if i < 0 then (line, "") else (Stdlib.String.sub line 0 i, Stdlib.String.sub line (i + m) (n - i - m))

(* ---- statistics and report ---- *)
let total = ref 0
let nontrivial : (int, unit) Hashtbl.t = Hashtbl.create 100003
let counters : (string, int) Hashtbl.t = Hashtbl.create 97
let disagreements = ref 0
let specfails = ref 0
let max_report = 200

let count key = Hashtbl.replace counters key (1 + (try Hashtbl.find counters key with Not_found -> 0))
let note_nontrivial (case : string) = Hashtbl.replace nontrivial (Hashtbl.hash case) ()

let disagree (case : string) (impl : string) (model : string) =
  incr disagreements;
  if !disagreements <= max_report then Printf.printf "DISAGREE %s => impl=%s | model=%s\n%!" case impl model

let specfail (cls : string) (case : string) (impl : string) (expected : string) =
  incr specfails;
  count ("specfail." ^ cls);
  if !specfails <= max_report then Printf.printf "SPECFAIL class=%s %s => impl=%s | spec=%s\n%!" cls case impl expected

let samples : string list ref = ref []
let sample line = if Stdlib.List.length !samples < 4 || (!total land 0xFFFF) = 0 && Stdlib.List.length !samples < 12 then samples := line :: !samples

let finish () =
  Printf.printf "STATS total=%d nontrivial=%d disagree=%d specfail=%d\n" !total (Hashtbl.length nontrivial) !disagreements !specfails;
  Hashtbl.iter (fun k v -> Printf.printf "COUNT %s %d\n" k v) counters;
  Stdlib.List.iter (fun s -> Printf.printf "SAMPLE %s\n" s) (Stdlib.List.rev !samples)

(* main loop: handler gets (case, impl) *)
let run (handler : string -> string -> unit) =
  (try while true do
    let line = input_line stdin in
    if line <> "" && (Stdlib.String.get line (0)) <> '#' then begin
      incr total; sample line;
      let (c, r) = split_case line in
      (try handler c r with e -> disagree c r ("driver exception: " ^ Printexc.to_string e))
    end
  done with End_of_file -> ());
  finish ()

(* substring test *)
let contains (hay : string) (needle : string) : bool =
  let n = Stdlib.String.length hay and m = Stdlib.String.length needle in
  let rec go i = if i + m > n then false else if Stdlib.String.sub hay i m = needle then true else go (i + 1) in
  go 0
