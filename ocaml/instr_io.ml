(* Text form of Instr.instr, identical to harness/src/codec.rs (fmt_instr / parse_instr). *)
open Util
open Instr

let reg_of_int n = match Instr.reg_of_num (n_of_int n) with Some r -> r | None -> failwith "reg"
let cond_of_int n = match Instr.cond_of_num (n_of_int n) with Some r -> r | None -> failwith "cond"
let sys_of_int n = match Instr.sysreg_of_num (n_of_int n) with Some r -> r | None -> failwith "sysreg"
let r x = string_of_int (int_of_n (Instr.reg_num x))
let ir = function Imm v -> "I " ^ hex_of_z v | Reg x -> "R " ^ r x
let b x = if x then "1" else "0"
let sp = Printf.sprintf

let fmt_instr (i : instr) : string = match i with
  | Adc (d, m) -> sp "Adc %s %s" (r d) (r m)
  | Add (f, d, l, x) -> sp "Add %s %s %s %s" (b f) (r d) (r l) (ir x)
  | Adr (d, o) -> sp "Adr %s %s" (r d) (hex_of_n o)
  | And (d, m) -> sp "And %s %s" (r d) (r m)
  | Asr (d, v, x) -> sp "Asr %s %s %s" (r d) (r v) (ir x)
  | B (c, o) -> sp "B %d %s" (int_of_n (Instr.cond_num c)) (hex_of_z o)
  | Bic (d, m) -> sp "Bic %s %s" (r d) (r m)
  | Bkpt n -> sp "Bkpt %s" (hex_of_n n)
  | Bl o -> sp "Bl %s" (hex_of_z o)
  | Blx m -> sp "Blx %s" (r m)
  | Bx m -> sp "Bx %s" (r m)
  | Cmn (d, m) -> sp "Cmn %s %s" (r d) (r m)
  | Cmp (d, x) -> sp "Cmp %s %s" (r d) (ir x)
  | Cps e -> sp "Cps %s" (b e)
  | Dmb -> "Dmb" | Dsb -> "Dsb" | Isb -> "Isb"
  | Eor (d, m) -> sp "Eor %s %s" (r d) (r m)
  | Ldm (a, l) -> sp "Ldm %s %s" (r a) (hex_of_n l)
  | Ldr (d, a, x) -> sp "Ldr %s %s %s" (r d) (r a) (ir x)
  | Ldrb (d, a, x) -> sp "Ldrb %s %s %s" (r d) (r a) (ir x)
  | Ldrh (d, a, x) -> sp "Ldrh %s %s %s" (r d) (r a) (ir x)
  | Ldrsb (d, a, o) -> sp "Ldrsb %s %s %s" (r d) (r a) (r o)
  | Ldrsh (d, a, o) -> sp "Ldrsh %s %s %s" (r d) (r a) (r o)
  | Lsl (d, v, x) -> sp "Lsl %s %s %s" (r d) (r v) (ir x)
  | Lsr (d, v, x) -> sp "Lsr %s %s %s" (r d) (r v) (ir x)
  | Mov (f, d, x) -> sp "Mov %s %s %s" (b f) (r d) (ir x)
  | Mrs (d, s) -> sp "Mrs %s %d" (r d) (int_of_n (Instr.sysreg_num s))
  | Msr (s, m) -> sp "Msr %d %s" (int_of_n (Instr.sysreg_num s)) (r m)
  | Mul (d, m) -> sp "Mul %s %s" (r d) (r m)
  | Mvn (d, m) -> sp "Mvn %s %s" (r d) (r m)
  | Nop -> "Nop"
  | Orr (d, m) -> sp "Orr %s %s" (r d) (r m)
  | Pop l -> sp "Pop %s" (hex_of_n l)
  | Push l -> sp "Push %s" (hex_of_n l)
  | Rev (d, m) -> sp "Rev %s %s" (r d) (r m)
  | Rev16 (d, m) -> sp "Rev16 %s %s" (r d) (r m)
  | Revsh (d, m) -> sp "Revsh %s %s" (r d) (r m)
  | Ror (d, m) -> sp "Ror %s %s" (r d) (r m)
  | Rsb (d, m) -> sp "Rsb %s %s" (r d) (r m)
  | Sbc (d, m) -> sp "Sbc %s %s" (r d) (r m)
  | Sev -> "Sev"
  | Stm (a, l) -> sp "Stm %s %s" (r a) (hex_of_n l)
  | Str (d, a, x) -> sp "Str %s %s %s" (r d) (r a) (ir x)
  | Strb (d, a, x) -> sp "Strb %s %s %s" (r d) (r a) (ir x)
  | Strh (d, a, x) -> sp "Strh %s %s %s" (r d) (r a) (ir x)
  | Sub (f, d, l, x) -> sp "Sub %s %s %s %s" (b f) (r d) (r l) (ir x)
  | Svc n -> sp "Svc %s" (hex_of_n n)
  | Sxtb (d, m) -> sp "Sxtb %s %s" (r d) (r m)
  | Sxth (d, m) -> sp "Sxth %s %s" (r d) (r m)
  | Tst (d, m) -> sp "Tst %s %s" (r d) (r m)
  | Udf n -> sp "Udf %s" (hex_of_n n)
  | Udfw n -> sp "Udfw %s" (hex_of_n n)
  | Uxtb (d, m) -> sp "Uxtb %s %s" (r d) (r m)
  | Uxth (d, m) -> sp "Uxth %s %s" (r d) (r m)
  | Wfe -> "Wfe" | Wfi -> "Wfi" | Yield -> "Yield"

(* parse from a token list; returns (instr, remaining tokens) *)
let parse_instr (toks : string list) : instr * string list =
  let t = ref toks in
  let next () = match !t with x :: r -> t := r; x | [] -> failwith "instr: missing token" in
  let name = next () in
  let reg () = reg_of_int (int_of_string (next ())) in
  let flag () = next () = "1" in
  let z () = z_of_hex (next ()) in
  let n () = n_of_hex (next ()) in
  let irr () = match next () with "I" -> Imm (z ()) | _ -> Reg (reg ()) in
  let two k = let a = reg () in let b = reg () in k a b in
  let mem k = let a = reg () in let b = reg () in let c = irr () in k a b c in
  let i = match name with
    | "Adc" -> two (fun a b -> Adc (a, b))
    | "Add" -> let f = flag () in let d = reg () in let l = reg () in let x = irr () in Add (f, d, l, x)
    | "Adr" -> let d = reg () in let o = n () in Adr (d, o)
    | "And" -> two (fun a b -> And (a, b))
    | "Asr" -> mem (fun a b c -> Asr (a, b, c))
    | "B" -> let c = cond_of_int (int_of_string (next ())) in let o = z () in B (c, o)
    | "Bic" -> two (fun a b -> Bic (a, b))
    | "Bkpt" -> Bkpt (n ())
    | "Bl" -> Bl (z ())
    | "Blx" -> Blx (reg ())
    | "Bx" -> Bx (reg ())
    | "Cmn" -> two (fun a b -> Cmn (a, b))
    | "Cmp" -> let a = reg () in let x = irr () in Cmp (a, x)
    | "Cps" -> Cps (flag ())
    | "Dmb" -> Dmb | "Dsb" -> Dsb | "Isb" -> Isb
    | "Eor" -> two (fun a b -> Eor (a, b))
    | "Ldm" -> let a = reg () in let l = n () in Ldm (a, l)
    | "Ldr" -> mem (fun a b c -> Ldr (a, b, c))
    | "Ldrb" -> mem (fun a b c -> Ldrb (a, b, c))
    | "Ldrh" -> mem (fun a b c -> Ldrh (a, b, c))
    | "Ldrsb" -> let a = reg () in let b = reg () in let c = reg () in Ldrsb (a, b, c)
    | "Ldrsh" -> let a = reg () in let b = reg () in let c = reg () in Ldrsh (a, b, c)
    | "Lsl" -> mem (fun a b c -> Lsl (a, b, c))
    | "Lsr" -> mem (fun a b c -> Lsr (a, b, c))
    | "Mov" -> let f = flag () in let d = reg () in let x = irr () in Mov (f, d, x)
    | "Mrs" -> let d = reg () in let s = sys_of_int (int_of_string (next ())) in Mrs (d, s)
    | "Msr" -> let s = sys_of_int (int_of_string (next ())) in let m = reg () in Msr (s, m)
    | "Mul" -> two (fun a b -> Mul (a, b))
    | "Mvn" -> two (fun a b -> Mvn (a, b))
    | "Nop" -> Nop
    | "Orr" -> two (fun a b -> Orr (a, b))
    | "Pop" -> Pop (n ())
    | "Push" -> Push (n ())
    | "Rev" -> two (fun a b -> Rev (a, b))
    | "Rev16" -> two (fun a b -> Rev16 (a, b))
    | "Revsh" -> two (fun a b -> Revsh (a, b))
    | "Ror" -> two (fun a b -> Ror (a, b))
    | "Rsb" -> two (fun a b -> Rsb (a, b))
    | "Sbc" -> two (fun a b -> Sbc (a, b))
    | "Sev" -> Sev
    | "Stm" -> let a = reg () in let l = n () in Stm (a, l)
    | "Str" -> mem (fun a b c -> Str (a, b, c))
    | "Strb" -> mem (fun a b c -> Strb (a, b, c))
    | "Strh" -> mem (fun a b c -> Strh (a, b, c))
    | "Sub" -> let f = flag () in let d = reg () in let l = reg () in let x = irr () in Sub (f, d, l, x)
    | "Svc" -> Svc (n ())
    | "Sxtb" -> two (fun a b -> Sxtb (a, b))
    | "Sxth" -> two (fun a b -> Sxth (a, b))
    | "Tst" -> two (fun a b -> Tst (a, b))
    | "Udf" -> Udf (n ())
    | "Udfw" -> Udfw (n ())
    | "Uxtb" -> two (fun a b -> Uxtb (a, b))
    | "Uxth" -> two (fun a b -> Uxth (a, b))
    | "Wfe" -> Wfe | "Wfi" -> Wfi | "Yield" -> Yield
    | s -> failwith ("unknown instruction " ^ s) in
  (i, !t)

let fmt_dec (r : DecodeModel.dec_result) : string = match r with
  | DecodeModel.DecOk (n, i) -> sp "ok %d %s" (int_of_n n) (fmt_instr i)
  | DecodeModel.DecErr (DecodeModel.Underflow (a, b)) -> sp "err underflow %d %d" (int_of_n a) (int_of_n b)
  | DecodeModel.DecErr DecodeModel.Undefined -> "err undefined"
  | DecodeModel.DecErr DecodeModel.Unpredictable -> "err unpredictable"
  | DecodeModel.DecErr DecodeModel.Reserved -> "err reserved"
  | DecodeModel.DecPanic -> "panic"

let fmt_encb (r : EncodeModel.encb_result) : string = match r with
  | EncodeModel.EbOk (_, bytes) -> "ok " ^ hex_of_bytes bytes
  | EncodeModel.EbOverflow (a, b) -> sp "overflow %d %d" (int_of_n a) (int_of_n b)
  | EncodeModel.EbUnrep -> "unrep"
