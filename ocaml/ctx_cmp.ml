(* Shared by drv_C06.ml and drv_C14.ml: runs the extracted Context model (Asm/CtxModel.pipeline_gen) on a project and
   renders its outcome in the observation format of harness/src/projrun.rs:
       status=<..> diags=<class@hexfile:line:col,...|-> regions=<addr:hex,...|->
   Class names = harness/src/projrun.rs coarse_class (same table as harness/src/bin/ctx.rs / ocaml/drv_C13.ml). *)
open Util

let str_of_bytes (l : BinNums.coq_N list) : string =
  Stdlib.String.concat "" (Stdlib.List.map (fun b -> Stdlib.String.make 1 (Char.chr (int_of_n b land 255))) l)
let bytes_of_str (s : string) : BinNums.coq_N list =
  Stdlib.List.init (Stdlib.String.length s) (fun i -> n_of_int (Char.code (Stdlib.String.get s i)))
let hex_of_string (s : string) : string =
  if s = "" then "-" else Stdlib.String.concat "" (Stdlib.List.init (Stdlib.String.length s) (fun i -> Printf.sprintf "%02x" (Char.code (Stdlib.String.get s i))))
let string_of_hex (h : string) : string =
  if h = "-" then "" else Stdlib.String.init (Stdlib.String.length h / 2) (fun i -> Char.chr (hexval (Stdlib.String.get h (2*i)) * 16 + hexval (Stdlib.String.get h (2*i+1))))
let base_name (s : string) = match Stdlib.String.rindex_opt s '/' with
  | None -> s | Some i -> Stdlib.String.sub s (i + 1) (Stdlib.String.length s - i - 1)

let apply_str (a : CtxModel.apply_err) = match a with
  | CtxModel.AConstNotFound -> "const_notfound" | CtxModel.AConstReserved -> "const_reserved" | CtxModel.AEval -> "eval"
  | CtxModel.AAddrRange -> "addr_range" | CtxModel.ASegOccupied -> "seg_occupied" | CtxModel.ASegWrite -> "seg_write"
  | CtxModel.ASegOverflow -> "seg_overflow" | CtxModel.AAlignInactive -> "align_inactive" | CtxModel.AAlignRange -> "align_range"
  | CtxModel.ADataInactive -> "data_inactive" | CtxModel.ADataRange -> "data_range" | CtxModel.ADataHexChar -> "hex_char"
  | CtxModel.ADataHexEof -> "hex_eof" | CtxModel.ADataFile -> "file" | CtxModel.AConstDup -> "const_dup"
  | CtxModel.AGNotFound -> "g_notfound" | CtxModel.AGDeferred -> "g_deferred" | CtxModel.AGDuplicate -> "g_duplicate"
  | CtxModel.AIncNoFile -> "inc_nofile" | CtxModel.AIncRecursive -> "inc_recursive" | CtxModel.AIncFailed -> "inc_failed"

let class_str (c : CtxModel.dclass) = match c with
  | CtxModel.KParse -> "parse" | CtxModel.KInactive -> "inactive"
  | CtxModel.KConstReserved -> "const_reserved" | CtxModel.KConstDuplicate -> "const_duplicate"
  | CtxModel.KDirNotFound -> "dir_notfound" | CtxModel.KDirTooMany -> "dir_toomany" | CtxModel.KDirNotEnough -> "dir_notenough"
  | CtxModel.KDirArgType -> "dir_argtype"
  | CtxModel.KApply a -> "apply:" ^ apply_str a
  | CtxModel.KInstr d -> (match d with
      | AsmStmtModel.DNotFound -> "instr_notfound" | AsmStmtModel.DTooMany -> "instr_toomany" | AsmStmtModel.DNotEnough -> "instr_notenough"
      | AsmStmtModel.DArgType -> "instr_argtype" | AsmStmtModel.DValueRange -> "asm:value_range" | AsmStmtModel.DNoSuchRegister -> "asm:no_register"
      | AsmStmtModel.DEval -> "asm:eval" | AsmStmtModel.DRange -> "asm:range" | AsmStmtModel.DAlignment -> "asm:alignment"
      | AsmStmtModel.DEncode -> "asm:encode")
  | CtxModel.KInstrSegOverflow -> "asm:seg_overflow" | CtxModel.KInstrSegWrite -> "asm:seg_write"
  | CtxModel.KInstrConstNotFound -> "asm:const_notfound"

let diag_str (d : CtxModel.diag) =
  Printf.sprintf "%s@%s:%d:%d" (class_str d.CtxModel.d_class) (hex_of_string (base_name (str_of_bytes d.CtxModel.d_file)))
    (int_of_n d.CtxModel.d_line) (int_of_n d.CtxModel.d_col)

let regions_str (l : ((BinNums.coq_N * BinNums.coq_N) * BinNums.coq_N list) list) =
  let total = Stdlib.List.fold_left (fun n (_, d) -> n + Stdlib.List.length d) 0 l in
  if l = [] then "-" else if total > 8192 then Printf.sprintf "big:%d" total
  else Stdlib.String.concat "," (Stdlib.List.map (fun ((f, _), d) -> hex_of_n f ^ ":" ^ hex_of_bytes d) l)

(* fuel of the model's include recursion: more than the number of files of the project suffices (C06_no_out_of_fuel) *)
let include_fuel = ref CtxModel.include_fuel
let rec nat_of_int_ (n : int) : Datatypes.nat = if n <= 0 then Datatypes.O else Datatypes.S (nat_of_int_ (n - 1))
let set_fuel (nfiles : int) = include_fuel := nat_of_int_ (Stdlib.max 64 (nfiles + 2))

let model_text dbg fs root text =
  match CtxModel.pipeline_gen dbg fs !include_fuel root text with
  | CtxModel.PPanic _ -> "status=panic diags=- regions=-"
  | CtxModel.POutOfFuel -> "status=outoffuel diags=- regions=-"
  | CtxModel.Done (s, diags, regions) ->
      let st = (match s with CtxModel.Success -> "success" | CtxModel.Failure -> "failure" | CtxModel.CloseError -> "close-error") in
      Printf.sprintf "status=%s diags=%s regions=%s" st
        (if diags = [] then "-" else Stdlib.String.concat "," (Stdlib.List.map diag_str diags)) (regions_str regions)

let field (impl : string) (key : string) : string =
  let pre = key ^ "=" in
  match Stdlib.List.find_opt (fun t -> Stdlib.String.length t >= Stdlib.String.length pre && Stdlib.String.sub t 0 (Stdlib.String.length pre) = pre) (split_ws impl) with
  | Some t -> Stdlib.String.sub t (Stdlib.String.length pre) (Stdlib.String.length t - Stdlib.String.length pre)
  | None -> failwith ("missing field " ^ key)

let plain (n : string) : bool =
  n <> "" && n <> "." && n <> ".." &&
  Stdlib.String.for_all (fun c -> (c >= 'A' && c <= 'Z') || (c >= 'a' && c <= 'z') || (c >= '0' && c <= '9') || c = '_' || c = '.' || c = '-') n

(* a relative path of plain components (`sub/a.asm`): the harness materialises such files below its private directory,
   and the model's resolve_path (parent of the including file + name) covers them *)
let relpath_ok (n : string) : bool =
  n <> "" && Stdlib.List.for_all plain (Stdlib.String.split_on_char '/' n)
(* `n` names a directory of the project (a proper prefix of a file's path) *)
let is_dir_of (files : string list) (n : string) : bool =
  Stdlib.List.exists (fun f -> let k = Stdlib.String.length n in Stdlib.String.length f > k + 1 && Stdlib.String.sub f 0 (k + 1) = n ^ "/") files

(* does some file name a path in `.include` / `.dfile` that the model's path functions do not cover
   (anything but a plain file name: the real file system then answers for directories, `..`, absolute paths ...) *)
let special_paths_in (fnames : string list) (texts : BinNums.coq_N list list) : bool =
  Stdlib.List.exists (fun text ->
    match CtxModel.parse_source text with
    | CtxModel.Parsed (items, _) ->
        Stdlib.List.exists (fun i -> match i with
          | ParseModel.IOk e -> (match e.Types.e_val with
              | Types.EDirective (name, args) ->
                  let n = str_of_bytes name in
                  (n = "include" || n = "dfile") &&
                  Stdlib.List.exists (fun a -> match a with Types.AStr s -> let v = str_of_bytes s in not (relpath_ok v) || is_dir_of fnames v | _ -> false) args
              | _ -> false)
          | _ -> false) items
    | _ -> false) texts
let special_paths (texts : BinNums.coq_N list list) : bool = special_paths_in [] texts

(* model = implementation on one case; `on_disk` = the files the harness materialised (P form: none) *)
let compare_model (case : string) (impl : string) (files : (string * BinNums.coq_N list) list) (root : string)
                  (root_text : BinNums.coq_N list) (on_disk : bool) : unit =
  if Stdlib.List.exists (fun (n, _) -> not (relpath_ok n)) files || not (plain root) || special_paths_in (Stdlib.List.map fst files) (Stdlib.List.map snd files) then count "model.not_compared_special_path"
  else begin
    let fs (p : BinNums.coq_N list) = let s = str_of_bytes p in
      if on_disk && relpath_ok s then (try Some (Stdlib.List.assoc s files) with Not_found -> None) else None in
    let dbg = (field impl "dbg" = "1") in
    set_fuel (Stdlib.List.length files);
    let m = model_text dbg fs (bytes_of_str root) root_text in
    let impl_obs = Printf.sprintf "status=%s diags=%s regions=%s" (field impl "status") (field impl "diags") (field impl "regions") in
    count "model.compared";
    if m <> impl_obs then disagree case impl_obs m
  end
