(* C13 / C05 driver (model binary shared by both: props/C05.json has model_id C13).
   case   = <stream> F <hexname> <hexbytes> ; ... ; ROOT <hexname> [| V <verdict> | S <addr> <hexbytes> <i|d> ...]
   result = dbg=<0|1> status=<..> regions=<base:hex,...|-> diags=<class@file:line:col,...|-> [panic=...]
   (a) model: CtxModel.pipeline_gen on the same project (fs = the case's files by plain name)   -> DISAGREE
   (b) spec on the IMPLEMENTATION's result, independent of the model:
       C13: the generator's ownership oracle carried in the case (every statement placed before the first
            violation keeps its bytes; an occupied selection / an over-capacity statement is refused)
       C05: Asm/LayoutSpecExt.layout_spec_ext (= Asm/LayoutSpec.layout_spec plus file scopes: .global/.import/
            .export/.include) evaluated on the parsed project; the same position-independent statement
            twice in one file must have the same bytes (order independence)                       -> SPECFAIL *)
open Util

let str_of_bytes (l : BinNums.coq_N list) : string =
  Stdlib.String.concat "" (Stdlib.List.map (fun b -> Stdlib.String.make 1 (Char.chr (int_of_n b land 255))) l)
let bytes_of_str (s : string) : BinNums.coq_N list =
  Stdlib.List.init (Stdlib.String.length s) (fun i -> n_of_int (Char.code (Stdlib.String.get s i)))

let split_on (sep : string) (s : string) : string list =
  let n = Stdlib.String.length s and m = Stdlib.String.length sep in
  let rec go start i acc =
    if i + m > n then Stdlib.List.rev (Stdlib.String.sub s start (n - start) :: acc)
    else if Stdlib.String.sub s i m = sep then go (i + m) (i + m) (Stdlib.String.sub s start (i - start) :: acc)
    else go start (i + 1) acc in
  go 0 0 []

let field impl key =
  let n = Stdlib.String.length impl and k = Stdlib.String.length key in
  let rec find i = if i + k > n then None else if Stdlib.String.sub impl i k = key && (i = 0 || Stdlib.String.get impl (i - 1) = ' ') then Some (i + k) else find (i + 1) in
  match find 0 with
  | None -> ""
  | Some s -> let e = (try Stdlib.String.index_from impl s ' ' with Not_found -> n) in Stdlib.String.sub impl s (e - s)

(* ---- class names shared with harness/src/bin/ctx.rs (constructor chains, never message text) ---- *)
let apply_str (a : CtxModel.apply_err) = match a with
  | CtxModel.AConstNotFound -> "const_notfound" | CtxModel.AConstReserved -> "const_reserved" | CtxModel.AEval -> "eval"
  | CtxModel.AAddrRange -> "addr_range" | CtxModel.ASegOccupied -> "seg_occupied" | CtxModel.ASegWrite -> "seg_write"
  | CtxModel.ASegOverflow -> "seg_overflow" | CtxModel.AAlignInactive -> "align_inactive" | CtxModel.AAlignRange -> "align_range"
  | CtxModel.ADataInactive -> "data_inactive" | CtxModel.ADataRange -> "data_range" | CtxModel.ADataHexChar -> "hex_char"
  | CtxModel.ADataHexEof -> "hex_eof" | CtxModel.ADataFile -> "file" | CtxModel.AConstDup -> "const_dup"
  | CtxModel.AGNotFound -> "g_notfound" | CtxModel.AGDeferred -> "g_deferred" | CtxModel.AGDuplicate -> "g_duplicate"
  | CtxModel.AIncNoFile -> "inc_nofile" | CtxModel.AIncRecursive -> "inc_recursive" | CtxModel.AIncFailed -> "inc_failed"

let class_str (c : CtxModel.dclass) = match c with
  | CtxModel.KParse -> "parse" | CtxModel.KInactive -> "inactive"
  | CtxModel.KConstReserved -> "const_reserved" | CtxModel.KConstDuplicate -> "const_duplicate"
  | CtxModel.KDirNotFound -> "dir_notfound" | CtxModel.KDirTooMany -> "dir_toomany" | CtxModel.KDirNotEnough -> "dir_notenough"
  | CtxModel.KDirArgType -> "dir_argtype"
  | CtxModel.KApply a -> "apply:" ^ apply_str a
  | CtxModel.KInstr d -> (match d with
      | AsmStmtModel.DNotFound -> "instr_notfound" | AsmStmtModel.DTooMany -> "instr_toomany" | AsmStmtModel.DNotEnough -> "instr_notenough"
      | AsmStmtModel.DArgType -> "instr_argtype" | AsmStmtModel.DValueRange -> "asm:value_range" | AsmStmtModel.DNoSuchRegister -> "asm:no_register"
      | AsmStmtModel.DEval -> "asm:eval" | AsmStmtModel.DRange -> "asm:range" | AsmStmtModel.DAlignment -> "asm:alignment"
      | AsmStmtModel.DEncode -> "asm:encode")
  | CtxModel.KInstrSegOverflow -> "asm:seg_overflow" | CtxModel.KInstrSegWrite -> "asm:seg_write"
  | CtxModel.KInstrConstNotFound -> "asm:const_notfound"

let base_name (s : string) = match Stdlib.String.rindex_opt s '/' with
  | None -> s | Some i -> Stdlib.String.sub s (i + 1) (Stdlib.String.length s - i - 1)
let underscore (s : string) = Stdlib.String.map (fun c -> if c = ' ' then '_' else c) s

let diag_str (d : CtxModel.diag) =
  Printf.sprintf "%s@%s:%d:%d" (class_str d.CtxModel.d_class) (underscore (base_name (str_of_bytes d.CtxModel.d_file)))
    (int_of_n d.CtxModel.d_line) (int_of_n d.CtxModel.d_col)

let regions_str (l : ((BinNums.coq_N * BinNums.coq_N) * BinNums.coq_N list) list) =
  if l = [] then "-" else Stdlib.String.concat "," (Stdlib.List.map (fun ((f, _), d) -> hex_of_n f ^ ":" ^ hex_of_bytes d) l)

(* fuel of the model's include recursion: more than the number of files of the project suffices (C06_no_out_of_fuel) *)
let include_fuel = ref CtxModel.include_fuel
let rec nat_of_int_ (n : int) : Datatypes.nat = if n <= 0 then Datatypes.O else Datatypes.S (nat_of_int_ (n - 1))
let set_fuel (nfiles : int) = include_fuel := nat_of_int_ (Stdlib.max 64 (nfiles + 2))

let model_text dbg fs root text =
  match CtxModel.pipeline_gen dbg fs !include_fuel root text with
  | CtxModel.PPanic _ -> "status=panic regions=- diags=-"
  | CtxModel.POutOfFuel -> "status=outoffuel regions=- diags=-"
  | CtxModel.Done (s, diags, regions) ->
      let st = (match s with CtxModel.Success -> "success" | CtxModel.Failure -> "failure" | CtxModel.CloseError -> "close-error") in
      Printf.sprintf "status=%s regions=%s diags=%s" st (regions_str regions)
        (if diags = [] then "-" else Stdlib.String.concat "," (Stdlib.List.map diag_str diags))

(* ---- the implementation's image as address -> byte ---- *)
let parse_regions (s : string) : (int, int) Hashtbl.t =
  let h = Hashtbl.create 64 in
  if s <> "-" && s <> "" then
    Stdlib.List.iter (fun r -> match Stdlib.String.split_on_char ':' r with
      | [a; d] ->
          let base = int_of_string ("0x" ^ a) in
          if d <> "-" then
            for i = 0 to Stdlib.String.length d / 2 - 1 do
              Hashtbl.replace h (base + i) (int_of_string ("0x" ^ Stdlib.String.sub d (2 * i) 2))
            done
      | _ -> failwith "bad region") (Stdlib.String.split_on_char ',' s);
  h

let bytes_at h addr n = Stdlib.List.init n (fun i -> try Some (Hashtbl.find h (addr + i)) with Not_found -> None)

(* ---- C13 verdict ---- *)
let c13_spec case impl exps =
  let status = field impl "status=" in
  let diags = field impl "diags=" in
  let verdict = (match exps with v :: _ -> (match split_ws v with ["V"; x] -> x | _ -> "?") | [] -> "?") in
  let stmts = Stdlib.List.filter_map (fun e -> match split_ws e with
      | ["S"; a; b; k] -> Some (int_of_string ("0x" ^ a), Stdlib.List.map int_of_n (bytes_of_hex b), k = "d")
      | _ -> None) exps in
  count ("c13.verdict." ^ verdict);
  if status = "panic" then specfail "panic" case impl "no panic"
  else begin
    let img = parse_regions (field impl "regions=") in
    let failed = ref false in
    let sf cls exp = if not !failed then (failed := true; specfail cls case impl exp) in
    (* every statement placed before the first violation keeps its bytes (a deferred one may still show its placeholder
       when the run did not reach the end of the file) *)
    let complete = (verdict = "ok") in
    Stdlib.List.iter (fun (addr, bytes, deferred) ->
      let have = bytes_at img addr (Stdlib.List.length bytes) in
      let want = Stdlib.List.map (fun b -> Some b) bytes in
      let placeholder = Stdlib.List.map (fun _ -> Some 0xBE) bytes in
      if have <> want && not (deferred && not complete && have = placeholder) then
        sf (if deferred then "deferred_misplaced" else "overwrite")
           (Printf.sprintf "bytes %s at %x" (Stdlib.String.concat "" (Stdlib.List.map (Printf.sprintf "%02x") bytes)) addr)) stmts;
    (* nothing but the placed statements is in the image *)
    let total = Stdlib.List.fold_left (fun n (_, b, _) -> n + Stdlib.List.length b) 0 stmts in
    if Hashtbl.length img <> total then sf "overwrite" (Printf.sprintf "exactly %d occupied addresses" total);
    (match verdict with
     | "ok" -> if status <> "success" then sf "valid_history_rejected" "status=success"
     | "occupied" -> if status = "success" then sf "occupied_accepted" "a diagnostic for the occupied address"
                     else if diags = "-" && status <> "close-error" then sf "occupied_accepted" "a diagnostic"
     | "overflow" -> if status = "success" then sf "silent_overflow" "a diagnostic for the statement that does not fit"
                     else if diags = "-" && status <> "close-error" then sf "silent_overflow" "a diagnostic"
     | "undefined" -> if status = "success" then sf "undefined_accepted" "a diagnostic for the undefined symbol"
     | _ -> ())
  end

(* ---- C05 verdict ---- *)
let parse_prog (text : BinNums.coq_N list) : Types.element_value list option =
  match CtxModel.parse_source text with
  | CtxModel.Parsed (items, None) when Stdlib.List.for_all (fun i -> match i with ParseModel.IOk _ -> true | _ -> false) items ->
      Some (Stdlib.List.filter_map (fun i -> match i with ParseModel.IOk e -> Some e.Types.e_val | _ -> None) items)
  | _ -> None

(* statements whose bytes do not depend on where they stand: data values and instructions without a PC-relative operand *)
let pcrel_mnemonics = ["B"; "BL"; "ADR"; "LDR"; "BEQ"; "BNE"; "BCS"; "BHS"; "BCC"; "BLO"; "BMI"; "BPL"; "BVS"; "BVC"; "BHI"; "BLS"; "BGE"; "BLT"; "BGT"; "BLE"]
let position_independent (it : LayoutSpec.item) = match it with
  | LayoutSpec.IData (_, _) -> true
  | LayoutSpec.IInstr (name, _) -> not (Stdlib.List.mem (Stdlib.String.uppercase_ascii (str_of_bytes name)) pcrel_mnemonics)
  | _ -> false

let c05_spec case impl fs root_text =
  let status = field impl "status=" in
  match parse_prog root_text with
  | Some prog ->
      let base = LayoutSpec.layout_spec fs prog in
      (match LayoutSpecExt.layout_spec_ext fs parse_prog prog with
       | None ->
           count "c05.spec_undefined";
           if base <> None then failwith "oracle self-check: layout_spec defined where layout_spec_ext is not"
       | Some (placed, names) ->
           (* oracle self-check: without .global/.import/.export/.include the extension is LayoutSpec.layout_spec *)
           (match base with
            | Some (bp, _) ->
                if Stdlib.List.map fst bp <> Stdlib.List.map fst placed then failwith "oracle self-check: layout_spec_ext differs from layout_spec";
                count "c05.ext_equals_base"
            | None -> count "c05.ext_only");
           (* the reference layout as address -> (byte, statement index); overlapping statements: outside the domain *)
           let h = Hashtbl.create 256 in
           let overlap = ref false in
           Stdlib.List.iteri (fun k ((addr, bytes), _) ->
             Stdlib.List.iteri (fun i b -> let a = int_of_n addr + i in
               if Hashtbl.mem h a then overlap := true else Hashtbl.replace h a (int_of_n b, k)) bytes) placed;
           if !overlap then count "c05.spec_overlap"
           else if status = "panic" then specfail "panic" case impl "no panic"
           else if status <> "success" then count "c05.valid_by_spec_but_rejected"
           else begin
             count "c05.checked";
             let img = parse_regions (field impl "regions=") in
             let labels = Stdlib.List.map str_of_bytes names in
             (* order independence: the same position-independent statement of one file yields the same bytes wherever it stands *)
             let seen = Hashtbl.create 64 in
             let order_bad = ref None in
             Stdlib.List.iter (fun ((addr, bytes), key) ->
               if position_independent (snd key) then begin
                 let have = bytes_at img (int_of_n addr) (Stdlib.List.length bytes) in
                 match Hashtbl.find_opt seen key with
                 | None -> Hashtbl.add seen key (int_of_n addr, have)
                 | Some (a0, h0) -> count "c05.same_statement_twice"; if h0 <> have && !order_bad = None then order_bad := Some (a0, int_of_n addr)
               end) placed;
             let bad = ref None in
             Hashtbl.iter (fun a (b, k) -> match (try Some (Hashtbl.find img a) with Not_found -> None) with
               | Some x when x = b -> ()
               | other -> (match !bad with Some (a', _, _, _) when a' <= a -> () | _ -> bad := Some (a, b, other, k))) h;
             (match !bad, !order_bad with
              | Some (a, b, other, k), _ ->
                  let ((ad, bytes), (_, it)) = Stdlib.List.nth placed k in
                  let uses_sym = Stdlib.List.exists (fun i -> Stdlib.List.mem (str_of_bytes i) labels) (LayoutSpec.item_idents it) in
                  let all_be = (Stdlib.List.length bytes > 0) &&
                    Stdlib.List.for_all (fun x -> x = Some 0xBE) (bytes_at img (int_of_n ad) (Stdlib.List.length bytes)) in
                  let cls = if all_be && uses_sym then "placeholder_left" else if uses_sym then "label_value" else "layout_mismatch" in
                  specfail cls case impl (Printf.sprintf "byte %02x at %x (statement %d), image has %s" b a k
                                            (match other with Some x -> Printf.sprintf "%02x" x | None -> "nothing"))
              | None, Some (a0, a1) ->
                  specfail "order_dependent" case impl (Printf.sprintf "the same bytes for the same statement at %x and at %x" a0 a1)
              | None, None ->
                  if Hashtbl.length img <> Hashtbl.length h then
                    specfail "layout_mismatch" case impl (Printf.sprintf "exactly %d occupied addresses" (Hashtbl.length h)))
           end)
  | None -> count "c05.not_a_statement_sequence"

let () = run (fun case impl ->
  let parts = split_on " | " case in
  let proj, exps = (match parts with p :: e -> (p, e) | [] -> ("", [])) in
  let stream, proj = (match Stdlib.String.index_opt proj ' ' with
    | Some i -> (Stdlib.String.sub proj 0 i, Stdlib.String.sub proj (i + 1) (Stdlib.String.length proj - i - 1))
    | None -> (proj, "")) in
  let files = ref [] and root = ref "" in
  Stdlib.List.iter (fun p -> match split_ws p with
    | ["F"; n; d] -> files := (str_of_bytes (bytes_of_hex n), bytes_of_hex d) :: !files
    | ["ROOT"; n] -> root := str_of_bytes (bytes_of_hex n)
    | _ -> ()) (split_on " ; " proj);
  let files = Stdlib.List.rev !files in
  (* the harness writes only plain file names into its private directory *)
  let plain n = n <> "" && n <> "." && n <> ".." && not (Stdlib.String.contains n '/') && not (Stdlib.String.contains n '\\') && not (Stdlib.String.contains n '\000') in
  (* also relative paths of plain components (sub/a.asm): the model resolves a name against the including file *)
  let relpath n = n <> "" && Stdlib.List.for_all plain (Stdlib.String.split_on_char '/' n) in
  let subdirs = Stdlib.List.exists (fun (n, _) -> Stdlib.String.contains n '/') files in
  let fs (p : BinNums.coq_N list) = let s = str_of_bytes p in
    if relpath s then (try Some (Stdlib.List.assoc s files) with Not_found -> None) else None in
  let root_text = (try Stdlib.List.assoc !root files with Not_found -> []) in
  let dbg = (field impl "dbg=" = "1") in
  count ("stream." ^ stream); note_nontrivial case;
  (* (a) model *)
  set_fuel (Stdlib.List.length files);
  let m = model_text dbg fs (bytes_of_str !root) root_text in
  let impl_obs = Printf.sprintf "status=%s regions=%s diags=%s" (field impl "status=") (field impl "regions=") (field impl "diags=") in
  count ("status." ^ field impl "status=");
  if m <> impl_obs then disagree case impl_obs m;
  (* (b) spec *)
  (match stream with
   | "C13" -> c13_spec case impl exps
   | "C05" ->
       (* the reference layout looks files up by the name as written (all files in one directory); a project with
          sub-directories is judged against the image the generator states (IMG), and by the model comparison above *)
       if subdirs then begin
         count "c05.subdir_project";
         Stdlib.List.iter (fun e -> match split_ws e with
           | ["IMG"; want] ->
               count "c05.subdir_image_checked";
               if field impl "status=" <> "success" || field impl "regions=" <> want then specfail "layout_mismatch" case impl ("status=success regions=" ^ want)
           | _ -> ()) exps
       end else c05_spec case impl fs root_text
   | _ -> ()))
