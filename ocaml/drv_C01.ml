(* deps: instr_io.ml *)
(* Codec driver (C01, C02, C03).  argv[1] selects which spec clauses are judged:
     C01: the encoder's bytes are the ARMv6-M table's bytes / rejected iff the table has no row
     C02: the emitted bytes decode back to the instruction
     C03: decoder total, length/underflow law, canonical re-encoding
   The model = implementation comparison is always made. *)
open Util
open Instr_io
let prop = if Array.length Sys.argv > 1 then Sys.argv.(1) else "C01"
let n4 = n_of_int 4

let kind_of case = match split_ws case with _ :: name :: _ -> name | _ -> "?"

let () = run (fun case impl ->
  match split_ws case with
  | "E" :: toks ->
      let (i, _) = parse_instr toks in
      let m = match EncodeModel.enc_bytes i n4 with
        | EncodeModel.EbOk (_, bytes) -> "ok " ^ hex_of_bytes bytes ^ " | rt=" ^ fmt_dec (DecodeModel.dec bytes)
        | r -> fmt_encb r in
      count ("E." ^ kind_of case ^ (if Stdlib.String.length impl > 1 && Stdlib.String.sub impl 0 2 = "ok" then ".ok" else ".rej"));
      note_nontrivial case;
      (* C01 observes the encoder only: the decode of the emitted bytes is C02's business *)
      let cut s = if prop = "C01" then (match Stdlib.String.index_opt s '|' with Some k -> Stdlib.String.trim (Stdlib.String.sub s 0 k) | None -> s) else s in
      if cut m <> cut impl then disagree case impl m;
      (* spec verdict on the implementation's own answer *)
      let impl_enc = (match Stdlib.String.index_opt impl '|' with Some k -> Stdlib.String.trim (Stdlib.String.sub impl 0 k) | None -> impl) in
      if prop = "C01" then begin
        let expected = match Armv6mSpec.armv6m_enc i with
          | Some hws -> "ok " ^ hex_of_bytes (Armv6mSpec.spec_bytes hws)
          | None -> "unrep" in
        if impl_enc <> expected then specfail "enc_not_table" case impl expected
      end;
      if prop = "C02" && Stdlib.String.length impl_enc > 2 && Stdlib.String.sub impl_enc 0 2 = "ok" then begin
        let nbytes = (Stdlib.String.length impl_enc - 3) / 2 in
        let expected = Printf.sprintf "rt=ok %d %s" nbytes (fmt_instr i) in
        let got = (match Stdlib.String.index_opt impl '|' with Some k -> Stdlib.String.trim (Stdlib.String.sub impl (k + 1) (Stdlib.String.length impl - k - 1)) | None -> "") in
        if got <> expected then specfail "roundtrip" case impl expected
      end
  | "O" :: cap :: toks ->
      let (i, _) = parse_instr toks in
      let m = fmt_encb (EncodeModel.enc_bytes i (n_of_int (int_of_string cap))) in
      count "O"; note_nontrivial case;
      if m <> impl then disagree case impl m;
      if prop = "C01" then begin
        let capn = int_of_string cap in
        let expected = match Armv6mSpec.armv6m_enc i with
          | None -> "unrep"
          | Some hws -> let need = 2 * Stdlib.List.length hws in
              if capn < need then Printf.sprintf "overflow %d %d" need capn else "ok " ^ hex_of_bytes (Armv6mSpec.spec_bytes hws) in
        if impl <> expected then specfail "enc_buffer" case impl expected
      end
  | ["D"; hex] ->
      let bs = bytes_of_hex hex in
      let d = DecodeModel.dec bs in
      let m = match d with
        | DecodeModel.DecOk (_, i) -> fmt_dec d ^ " | re=" ^ fmt_encb (EncodeModel.enc_bytes i n4)
        | _ -> fmt_dec d in
      let len = Stdlib.List.length bs in
      count (if len < 2 then "D.short" else if len < 4 then "D.16" else "D.32");
      count ("D." ^ (match split_ws impl with a :: b :: _ when a = "err" -> b | a :: _ -> a | [] -> "?"));
      note_nontrivial case;
      if m <> impl then disagree case impl m;
      if prop = "C03" then begin
        (* judged on the implementation's answer alone *)
        let h0 = if len >= 2 then int_of_n (Stdlib.List.nth bs 0) + 256 * int_of_n (Stdlib.List.nth bs 1) else 0 in
        let explen = if len >= 2 && (h0 lsr 11) >= 29 then 4 else 2 in
        (match split_ws impl with
         | ["panic"] -> specfail "dec_panic" case impl "no panic"
         | "err" :: "underflow" :: need :: have :: _ ->
             let ok = int_of_string have = len && len < int_of_string need &&
                      ((len < 2 && need = "2") || (len >= 2 && explen = 4 && need = "4")) in
             if not ok then specfail "underflow_law" case impl "underflow only when fewer bytes than the instruction length"
         | "err" :: _ -> if len < explen then specfail "underflow_law" case impl "underflow expected"
         | "ok" :: n :: rest ->
             let n = int_of_string n in
             if n <> explen || n > len then specfail "length_law" case impl (Printf.sprintf "length %d" explen)
             else begin
               (* re-encoding: same length, and equal to the input prefix unless the T1 ADDS/SUBS imm3 alias *)
               let re = (match Stdlib.String.index_opt impl '|' with Some k -> Stdlib.String.trim (Stdlib.String.sub impl (k + 1) (Stdlib.String.length impl - k - 1)) | None -> "") in
               let prefix = Stdlib.String.sub hex 0 (2 * n) in
               let alias = (h0 lsr 10) = 7 && ((h0 lsr 3) land 7) = (h0 land 7) in
               if re = "re=ok " ^ prefix then ()
               else if alias && Stdlib.String.length re = 6 + 2 * n && Stdlib.String.sub re 0 6 = "re=ok " then begin
                 (* the alias must decode to the same instruction *)
                 let (i, _) = parse_instr (Stdlib.List.filter (fun x -> x <> "|") (Stdlib.List.filteri (fun k _ -> k >= 0) rest)) in
                 let re_bytes = bytes_of_hex (Stdlib.String.sub re 6 (2 * n)) in
                 (match DecodeModel.dec re_bytes with
                  | DecodeModel.DecOk (_, j) when j = i -> count "D.alias"
                  | _ -> specfail "reencode" case impl "alias must decode to the same instruction")
               end else specfail "reencode" case impl ("re=ok " ^ prefix)
             end
         | _ -> specfail "dec_result" case impl "a decode result")
      end
  | _ -> disagree case impl "unparsed case")
