(* C20 driver.  B <hex> => listing=<hex of tridas' stdout> | tridas=<status> trias=<status> image@0x20000000=<hex|absent>
   (a) model = impl: TridasModel.tridas gives the exact stdout bytes and the outcome class (listing / panic);
   (b) spec on the REAL outputs, for binaries with ListingSpec.wf_binary: tridas did not panic, the label lines
       of the real listing are exactly ListingSpec.labels_spec (one definition immediately before the instruction
       at each in-file branch target, none elsewhere), trias accepted the listing, and the image at 0x20000000
       equals the binary byte for byte.
   Known finding F24 (class addsub_imm3_alias): reported only when every differing instruction of the image is a
   T1 ADDS/SUBS Rd,Rd,#imm3 halfword of the binary re-encoded as its T2 equivalent (the encoder's output for the
   decoded instruction); any other difference is bytes_differ. *)
open Util

let field impl key =
  let n = Stdlib.String.length impl and k = Stdlib.String.length key in
  let rec find i = if i + k > n then None else if Stdlib.String.sub impl i k = key then Some (i + k) else find (i + 1) in
  match find 0 with
  | None -> ""
  | Some s -> let e = (try Stdlib.String.index_from impl s ' ' with Not_found -> n) in Stdlib.String.sub impl s (e - s)

let string_of_bytes (l : BinNums.coq_N list) : string =
  Stdlib.String.concat "" (Stdlib.List.map (fun b -> Stdlib.String.make 1 (Char.chr (int_of_n b))) l)

let is_label_line (s : string) : int option =
  if Stdlib.String.length s = 11 && Stdlib.String.sub s 0 2 = "l_" && Stdlib.String.get s 10 = ':' then
    (try Some (int_of_string ("0x" ^ Stdlib.String.sub s 2 8)) with _ -> None)
  else None

exception Fail of string * string

(* the label discipline on the real listing text; items = (address, carries a label) in address order *)
let check_labels (text : string) (items : (int * bool) list) (labels : int list) =
  let lines = Stdlib.String.split_on_char '\n' text in
  let pending = ref [] and rest = ref items in
  Stdlib.List.iter (fun s ->
    if s = "" then ()
    else match is_label_line s with
    | Some a -> pending := a :: !pending
    | None ->
        if Stdlib.String.get s 0 = '\t' then begin
          match !rest with
          | [] -> ()          (* more instruction lines than instructions: judged by the byte comparison *)
          | (a, want) :: tl ->
              rest := tl;
              Stdlib.List.iter (fun p -> if p <> a then
                raise (Fail ((if Stdlib.List.mem p labels then "label_misplaced" else "label_extra"),
                             Printf.sprintf "label l_%08X stands before the instruction at %08X" p a))) !pending;
              let cnt = Stdlib.List.length !pending in
              if want && cnt = 0 then begin
                let elsewhere = contains text (Printf.sprintf "\nl_%08X:\n" a) in
                raise (Fail ((if elsewhere then "label_misplaced" else "label_missing"), Printf.sprintf "no definition of l_%08X immediately before its instruction" a))
              end;
              if want && cnt > 1 then raise (Fail ("label_extra", Printf.sprintf "l_%08X defined %d times" a cnt));
              if (not want) && cnt > 0 then raise (Fail ("label_extra", Printf.sprintf "l_%08X is no branch target" a));
              pending := []
        end) lines;
  (match !pending with
   | p :: _ -> raise (Fail ((if Stdlib.List.mem p labels then "label_misplaced" else "label_extra"), Printf.sprintf "label l_%08X after the last instruction" p))
   | [] -> ())

let () = run (fun case impl ->
  match split_ws case with
  | ["B"; hex] ->
      let b = bytes_of_hex hex in
      let ilist = field impl "listing=" and itridas = field impl "tridas=" and itrias = field impl "trias=" in
      let image = field impl "image@0x20000000=" in
      (* (a) model = impl *)
      let mtxt = (match TridasModel.tridas b with
        | TridasModel.Listing t -> "listing=" ^ hex_of_bytes t ^ " | tridas=ok"
        | TridasModel.Panic -> "listing=- | tridas=panic"
        | TridasModel.OutOfFuel -> "model-out-of-fuel") in
      if mtxt <> ("listing=" ^ ilist ^ " | tridas=" ^ itridas) then disagree case impl mtxt;
      (* (b) spec on the real outputs *)
      (match ListingSpec.instructions b with
       | Some l when ListingSpec.wf_items l ->
           count "wf_binary"; note_nontrivial case;
           let nb = Stdlib.List.length b in
           count (Printf.sprintf "wf.len_%s" (if nb <= 8 then "2-8" else if nb <= 64 then "10-64" else if nb <= 200 then "66-200" else "202-400"));
           let labels = Stdlib.List.map int_of_n (ListingSpec.labels_spec b) in
           if labels <> [] then count "wf.with_labels";
           if Stdlib.List.exists (fun ((_, _), n) -> int_of_n n = 4) l then count "wf.with_32bit";
           (try
             if itridas <> "ok" then raise (Fail ((if itridas = "panic" then "tridas_panic" else "tridas_failed"), "tridas=ok"));
             let items = Stdlib.List.map (fun ((off, _), _) ->
               (int_of_n (BinNat.N.add ListingSpec.base off), ListingSpec.is_target l off)) l in
             check_labels (string_of_bytes (bytes_of_hex ilist)) items labels;
             if itrias <> "ok" then raise (Fail ("listing_rejected", "trias=ok"));
             if image <> hex then begin
               (* instruction by instruction: equal, or alias halfword re-encoded canonically *)
               let alias_only = ref (Stdlib.String.length image = Stdlib.String.length hex) in
               if !alias_only then
                 Stdlib.List.iter (fun ((off, i), n) ->
                   let o = 2 * int_of_n off and k = 2 * int_of_n n in
                   let orig = Stdlib.String.sub hex o k and got = Stdlib.String.sub image o k in
                   if orig <> got then begin
                     let h0 = int_of_string ("0x" ^ Stdlib.String.sub orig 2 2 ^ Stdlib.String.sub orig 0 2) in
                     let canon = (match EncodeModel.enc i with
                       | EncodeModel.EncOk hws -> hex_of_bytes (EncodeModel.le_bytes hws) | _ -> "") in
                     if not (k = 4 && CodecCheck.alias_addsub_imm3 (n_of_int h0) && got = canon) then alias_only := false
                   end) l;
               if !alias_only then raise (Fail ("addsub_imm3_alias", "image=" ^ hex))
               else raise (Fail ("bytes_differ", "image=" ^ hex))
             end;
             count "wf.reassembled_identically"
           with Fail (cls, expected) -> specfail cls case impl expected)
       | _ -> count ("not_wf.tridas_" ^ itridas ^ (if itridas = "ok" then ".trias_" ^ itrias else "")))
  | ["G"; _; _] ->
      (* a large binary described by the generator (well formed by construction); the byte comparison was made by the
         harness; the model is not run on it (its cost grows faster than linearly) *)
      count "wf_binary"; count "wf.large"; note_nontrivial case;
      let itridas = field impl "tridas=" and itrias = field impl "trias=" in
      if itridas <> "ok" then specfail (if itridas = "panic" then "tridas_panic" else "tridas_failed") case impl "tridas=ok"
      else if itrias <> "ok" then specfail "listing_rejected" case impl "trias=ok"
      else if field impl "image_eq=" <> "1" then specfail "bytes_differ" case impl "image_eq=1"
      else count "wf.reassembled_identically"
  | _ -> disagree case impl "unparsed case")
