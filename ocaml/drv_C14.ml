(* deps: ctx_cmp.ml *)
(* C14 driver.  Case (harness/src/bin/scope.rs):
     F <hex name> <hex bytes> ; ... ; ROOT <hex name> [CORPUS|RANDOM|BASE|MUT <what>]
   impl: status=<panic|success|failure|close-error> diags=<...> regions=<addr:hex,...|->
   The extracted Context model (Asm/CtxModel.pipeline_gen) is run on the same project and compared with the implementation
   (status, diagnostics class@file:line:col in push order, regions) -> DISAGREE.
   The files are parsed (one statement per line, the generator's spelling) into Asm/ScopeSpec.project; the oracle
   ScopeSpec.judge_project (extracted) says MustDiag / Accept / Unspecified and the value each `.du32` must emit.
   Checked on the implementation's observation:
     panic                                        -> specfail panic
     MustDiag and status = success                -> specfail scope_error_accepted
     Accept and status <> success                 -> specfail valid_project_rejected
     success and an emitted .du32 value differs   -> specfail wrong_value *)
open Util
open ScopeSpec

let str_of_string (s : string) : BinNums.coq_N list =
  Stdlib.List.init (Stdlib.String.length s) (fun i -> n_of_int (Char.code (Stdlib.String.get s i)))
let string_of_hex (h : string) : string =
  if h = "-" then "" else Stdlib.String.init (Stdlib.String.length h / 2) (fun i -> Char.chr (hexval (Stdlib.String.get h (2*i)) * 16 + hexval (Stdlib.String.get h (2*i+1))))

let is_ident (s : string) : bool =
  s <> "" && Stdlib.String.for_all (fun c -> (c >= 'A' && c <= 'Z') || (c >= 'a' && c <= 'z') || (c >= '0' && c <= '9') || c = '_') s
  && not (let c = Stdlib.String.get s 0 in c >= '0' && c <= '9')

let strip_prefix (p : string) (s : string) : string option =
  let n = Stdlib.String.length p in
  if Stdlib.String.length s >= n && Stdlib.String.sub s 0 n = p then Some (Stdlib.String.sub s n (Stdlib.String.length s - n)) else None

(* one statement per line; anything else makes the project unparsed (then only the panic clause is judged) *)
let parse_stmt (line : string) : stmt option =
  let l = Stdlib.String.trim line in
  let n = Stdlib.String.length l in
  if n = 0 then None
  else if Stdlib.String.get l (n - 1) = ':' then
    (let x = Stdlib.String.sub l 0 (n - 1) in if is_ident x then Some (SLabel (str_of_string x)) else raise Exit)
  else if Stdlib.String.get l (n - 1) <> ';' then raise Exit
  else begin
    let body = Stdlib.String.trim (Stdlib.String.sub l 0 (n - 1)) in
    let one dir mk = match strip_prefix (dir ^ " ") body with
      | Some x -> let x = Stdlib.String.trim x in if is_ident x then Some (mk (str_of_string x)) else raise Exit
      | None -> None in
    let first_some l = Stdlib.List.fold_left (fun acc f -> match acc with Some _ -> acc | None -> f ()) None l in
    match first_some [
      (fun () -> one ".global" (fun x -> SGlobal x));
      (fun () -> one ".import" (fun x -> SImport x));
      (fun () -> one ".export" (fun x -> SExport x));
      (fun () -> one ".du32" (fun x -> SUse x));
      (fun () -> match strip_prefix ".const " body with
         | Some r -> (match Stdlib.String.split_on_char ',' r with
                      | [x; v] -> let x = Stdlib.String.trim x and v = Stdlib.String.trim v in
                                  if is_ident x && v <> "" && Stdlib.String.for_all (fun c -> c >= '0' && c <= '9') v && Stdlib.String.length v < 15
                                  then Some (SConst (str_of_string x, z_of_int (int_of_string v))) else raise Exit
                      | _ -> raise Exit)
         | None -> None);
      (fun () -> match strip_prefix ".addr 0x" body with
         | Some h when h <> "" && Stdlib.String.length h <= 8 && Stdlib.String.for_all (fun c -> (c >= '0' && c <= '9') || (c >= 'A' && c <= 'F')) h -> Some (SAddr (z_of_hex h))
         | Some _ -> raise Exit
         | None -> None);
      (fun () -> match strip_prefix ".include \"" body with
         | Some r -> let m = Stdlib.String.length r in
                     if m >= 2 && Stdlib.String.get r (m - 1) = '"' && not (Stdlib.String.contains (Stdlib.String.sub r 0 (m - 1)) '"') && not (Stdlib.String.contains r '\\') && not (Stdlib.String.contains r '/')
                     then Some (SInclude (str_of_string (Stdlib.String.sub r 0 (m - 1)))) else raise Exit
         | None -> None) ] with
    | Some s -> Some s
    | None -> raise Exit
  end

let parse_file (text : string) : stmt list option =
  try Some (Stdlib.List.filter_map parse_stmt (Stdlib.String.split_on_char '\n' text)) with Exit -> None

let parse_case (case : string) : ((string * string) list * string * string list) =
  let rec go toks files = match toks with
    | "F" :: n :: b :: ";" :: rest -> go rest ((string_of_hex n, string_of_hex b) :: files)
    | "ROOT" :: r :: tags -> (Stdlib.List.rev files, string_of_hex r, tags)
    | _ -> failwith "unparsed case" in
  go (split_ws case) []

let field = Ctx_cmp.field

(* regions "addr:hex,addr:hex" -> byte lookup *)
let parse_regions (s : string) : (int * string) list =
  if s = "-" then [] else
  Stdlib.List.map (fun r -> match Stdlib.String.split_on_char ':' r with
    | [a; h] -> (int_of_string ("0x" ^ a), string_of_hex h)
    | _ -> failwith "bad region") (Stdlib.String.split_on_char ',' s)
let u32_at (regs : (int * string) list) (addr : int) : int option =
  Stdlib.List.find_map (fun (base, data) ->
    if addr >= base && addr + 4 <= base + Stdlib.String.length data then
      let b i = Char.code (Stdlib.String.get data (addr - base + i)) in Some (b 0 lor (b 1 lsl 8) lor (b 2 lsl 16) lor (b 3 lsl 24))
    else None) regs

let reason_name = function
  | RDuplicate -> "duplicate" | RImportLacks -> "import_lacks" | RExportUnvalued -> "export_unvalued"
  | RRegisterName -> "register_name" | RInvisibleUse -> "invisible_use" | RImportAndExport -> "import_and_export"

let () = run (fun case impl ->
  let (files, root, tags) = parse_case case in
  let status = field impl "status" in
  let kind = match tags with t :: _ -> t | [] -> "untagged" in
  count ("family." ^ kind);
  note_nontrivial case;
  if status = "panic" then specfail "panic" case impl "no panic";
  Ctx_cmp.compare_model case impl (Stdlib.List.map (fun (n, t) -> (n, Ctx_cmp.bytes_of_str t)) files) root
    (Ctx_cmp.bytes_of_str (try Stdlib.List.assoc root files with Not_found -> "")) true;
  let parsed = Stdlib.List.map (fun (n, t) -> (n, parse_file t)) files in
  if Stdlib.List.exists (fun (_, p) -> p = None) parsed then count "oracle.unparsed"
  else begin
    let p = { p_files = Stdlib.List.map (fun (n, b) -> (str_of_string n, match b with Some b -> b | None -> [])) parsed; p_root = str_of_string root } in
    let j = judge_project p in
    (match j.j_verdict with
     | MustDiag r ->
         count ("oracle.must_diag." ^ reason_name r);
         if status = "success" then specfail "scope_error_accepted" case impl ("a diagnostic (" ^ reason_name r ^ ")")
     | Accept ->
         count "oracle.accept";
         if status <> "success" && status <> "panic" then specfail "valid_project_rejected" case impl "success"
     | Unspecified -> count ("oracle.unspecified." ^ (if status = "success" then "impl_success" else "impl_failure")));
    if status = "success" then begin
      let regs = parse_regions (field impl "regions") in
      let base = int_of_z j.j_base in
      Stdlib.List.iter (fun (k, v) ->
        match v with
        | None -> ()
        | Some v ->
            count "use_site_checked";
            let addr = base + 4 * int_of_n k in
            (match u32_at regs addr with
             | Some got when got = int_of_z v -> ()
             | got -> specfail "wrong_value" case impl
                        (Printf.sprintf "use #%d at 0x%x must emit %d, got %s" (int_of_n k) addr (int_of_z v)
                           (match got with Some g -> string_of_int g | None -> "nothing")))) j.j_uses
    end
  end)
