(* C16 driver.  Case text (all numbers hex; see harness/src/bin/uf2.rs):
     <S cap | V prelen> <family | -> <payload> <align> { <W|A> <addr> <noflash 0|1> <data hex | -> }*
   Result text:  new=<ok|blocksize|alignment> r=<class>,... out=<destination bytes after drop | ?>
   For every case:
     (1) the model (WriteModel.session, run with debug = true AND debug = false) must print the same text;
     (2) the reader spec is evaluated on the IMPLEMENTATION's bytes and result classes:
         panic            a call or drop panicked
         config           an invalid configuration was accepted / a valid one refused
         reject_appended  bytes outside the blocks of the accepted calls changed, or blocks are missing / extra
         block_malformed  length not a multiple of 512, magic, flags, family id, payload size field
         numbering        block number / total count field
         reconstruct      reading the blocks back does not give data + zero padding at consecutive addresses *)
open Util
open WriteTypes

let fill = n_of_int 0xAA

let parse_case (t : string list) =
  match t with
  | kind :: size :: fam :: bs :: al :: rest ->
      let size = n_of_hex size in
      let d = (match kind with "S" -> WriteModel.DSlice (size, fill) | "V" -> WriteModel.DVector size | _ -> failwith "kind") in
      let c = { c_fam = (if fam = "-" then None else Some (n_of_hex fam)); c_bs = n_of_hex bs; c_align = n_of_hex al } in
      let rec ops l = match l with
        | [] -> []
        | k :: a :: nf :: data :: r ->
            { w_all = (match k with "A" -> true | "W" -> false | _ -> failwith "op"); w_addr = n_of_hex a; w_nf = (nf = "1");
              w_data = bytes_of_hex data } :: ops r
        | _ -> failwith "op arity" in
      (kind = "S", size, c, d, ops rest)
  | _ -> failwith "case"

let werr_text = function
  | WriteModel.EOverflow -> "overflow" | WriteModel.EAlignment -> "alignment"
  | WriteModel.EAddress -> "address" | WriteModel.EBlockCount -> "blockcount"

let res_text (w : wcall) = function
  | WriteModel.ROk n -> if w.w_all then "ok:" ^ hex_of_n n else "ok"
  | WriteModel.RErr e -> werr_text e
  | WriteModel.RPanic _ -> "panic"

let rec repeat_n x n = if n <= 0 then [] else x :: repeat_n x (n - 1)

let model_text debug is_slice size c d ops =
  match WriteModel.session debug c d ops with
  | WriteModel.SRejected e ->
      Printf.sprintf "new=%s r=- out=%s" (match e with WriteModel.NBlockSize -> "blocksize" | WriteModel.NAlignment -> "alignment")
        (hex_of_bytes (repeat_n fill (int_of_n size)))
  | WriteModel.SDone (rs, fin) ->
      (* a trailing RPanic without a call = panic in drop *)
      let rec texts ops rs = match ops, rs with
        | o :: ot, r :: rt -> res_text o r :: texts ot rt
        | [], _ :: _ -> ["panic"]
        | _, [] -> [] in
      let ts = texts ops rs in
      Printf.sprintf "new=ok r=%s out=%s" (if ts = [] then "-" else Stdlib.String.concat "," ts)
        (match fin with None -> "?" | Some st -> hex_of_bytes (WriteModel.dest_bytes fill st))

let field key impl =
  let pre = key ^ "=" in
  match Stdlib.List.find_opt (fun s -> Stdlib.String.length s > Stdlib.String.length pre
                                       && Stdlib.String.sub s 0 (Stdlib.String.length pre) = pre) (split_ws impl) with
  | Some s -> Stdlib.String.sub s (Stdlib.String.length pre) (Stdlib.String.length s - Stdlib.String.length pre)
  | None -> failwith ("missing " ^ key)

let rec take n l = if n <= 0 then [] else match l with [] -> [] | x :: t -> x :: take (n - 1) t
let rec drop n l = if n <= 0 then l else match l with [] -> [] | _ :: t -> drop (n - 1) t

let () = run (fun case impl ->
  let (is_slice, size, c, d, ops) = parse_case (split_ws case) in
  (* ---- (1) model = implementation, both arithmetic modes ---- *)
  let m_rel = model_text false is_slice size c d ops in
  let m_dbg = model_text true is_slice size c d ops in
  if m_rel <> impl then disagree case impl m_rel
  else if m_dbg <> impl then disagree case impl ("[overflow checks on] " ^ m_dbg);
  (* ---- (2) implementation |= reader spec ---- *)
  let inew = field "new" impl and ir = field "r" impl and iout = field "out" impl in
  count ("new." ^ inew); count (if is_slice then "dest.slice" else "dest.vector");
  count ("calls." ^ string_of_int (Stdlib.List.length ops));
  let cfg_ok = ReaderSpec.config_ok c in
  let isize = int_of_n size in
  if inew <> "ok" then begin
    if cfg_ok then specfail "config" case impl "a valid configuration must be accepted";
    if iout <> hex_of_bytes (repeat_n fill isize) then specfail "reject_appended" case impl "destination untouched"
  end else begin
    if not cfg_ok then specfail "config" case impl "an invalid configuration must be refused";
    let rs = if ir = "-" then [] else Stdlib.String.split_on_char ',' ir in
    Stdlib.List.iter (fun r -> count ("result." ^ (if Stdlib.String.length r > 2 && Stdlib.String.sub r 0 3 = "ok:" then "ok:n" else r))) rs;
    if Stdlib.List.mem "panic" rs || iout = "?" then specfail "panic" case impl "no panic"
    else if Stdlib.List.length rs <> Stdlib.List.length ops then specfail "panic" case impl "one result per call"
    else begin
      let pairs = Stdlib.List.combine ops rs in
      let accepted = Stdlib.List.filter_map (fun (o, r) ->
        if r = "ok" || (Stdlib.String.length r > 2 && Stdlib.String.sub r 0 3 = "ok:") then Some o else None) pairs in
      (* block count returned by write_all *)
      Stdlib.List.iter (fun (o, r) ->
        if Stdlib.String.length r > 2 && Stdlib.String.sub r 0 3 = "ok:" then begin
          let n = n_of_hex (Stdlib.String.sub r 3 (Stdlib.String.length r - 3)) in
          if n <> ReaderSpec.blocks_of_call c o then
            specfail "numbering" case impl ("write_all returns " ^ hex_of_n (ReaderSpec.blocks_of_call c o) ^ " blocks")
        end) pairs;
      let nblocks = Stdlib.List.fold_left (fun a o -> a + int_of_n (ReaderSpec.blocks_of_call c o)) 0 accepted in
      if nblocks > 0 then note_nontrivial case;
      count (if nblocks = 0 then "blocks.0" else if nblocks = 1 then "blocks.1" else if nblocks <= 4 then "blocks.2-4" else "blocks.5+");
      let out = bytes_of_hex iout in
      let total = Stdlib.List.length out in
      let (pre, region, post) =
        if is_slice then ([], take (512 * nblocks) out, drop (512 * nblocks) out)
        else (take isize out, drop isize out, []) in
      let untouched l = Stdlib.List.for_all (fun b -> b = fill) l in
      if (is_slice && total <> isize) || not (untouched pre) || not (untouched post)
         || Stdlib.List.length pre <> (if is_slice then 0 else isize)
         || Stdlib.List.length region <> 512 * nblocks then
        specfail "reject_appended" case impl (Printf.sprintf "%d blocks for the accepted calls, everything else untouched" nblocks)
      else begin
        (match ReaderSpec.read_uf2 region with
         | None -> specfail "block_malformed" case impl "512-byte blocks with the three magic numbers"
         | Some rbs ->
             let numbered = Stdlib.List.for_all (fun x -> x)
               (Stdlib.List.mapi (fun k rb -> rb.ReaderSpec.rb_no = n_of_int k && rb.ReaderSpec.rb_total = n_of_int nblocks) rbs) in
             if not numbered then specfail "numbering" case impl (Printf.sprintf "blockNo = index, numBlocks = %d" nblocks)
             else if not (ReaderSpec.blocks_wellformed c region) then
               specfail "block_malformed" case impl "flags / family id / payload size fields");
        if not (ReaderSpec.reconstructs c accepted region) then
          specfail "reconstruct" case impl "data then zero padding at consecutive addresses, per accepted call"
      end
    end
  end)
