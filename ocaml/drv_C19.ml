(* deps: instr_io.ml *)
(* C19 driver.  S <addr> <instr> => text=<hex> | asm=<status> bytes=<hex> diags=<...>
   model = impl on the printed text (DisplayModel.display); spec on the implementation's own result:
   for an even address with the PC-relative target inside the address space, the text must assemble
   (status success) to the canonical ARMv6-M encoding of the instruction at that address, and the printed
   label must name the architectural target. *)
open Util
open Instr_io

let field impl key =
  (* value of "key=..." up to the next space *)
  let n = Stdlib.String.length impl and k = Stdlib.String.length key in
  let rec find i = if i + k > n then None else if Stdlib.String.sub impl i k = key then Some (i + k) else find (i + 1) in
  match find 0 with
  | None -> ""
  | Some s -> let e = (try Stdlib.String.index_from impl s ' ' with Not_found -> n) in Stdlib.String.sub impl s (e - s)

let string_of_bytes (l : BinNums.coq_N list) : string =
  Stdlib.String.concat "" (Stdlib.List.map (fun b -> Stdlib.String.make 1 (Char.chr (int_of_n b))) l)

let () = run (fun case impl ->
  match split_ws case with
  | ("S" | "S1" | "S2") :: addr :: toks ->     (* S1 / S2: the label gets its value after the statement / after another region was selected *)
      let addr_n = n_of_hex addr in
      let (i, _) = parse_instr toks in
      let mtext = DisplayModel.display i addr_n in
      let itext = field impl "text=" in
      count ("S." ^ (match toks with n :: _ -> n | [] -> "?")); note_nontrivial case;
      if hex_of_bytes mtext <> itext then disagree case impl ("text=" ^ hex_of_bytes mtext);
      let even = (int_of_n (BinNat.N.coq_land addr_n (n_of_int 1))) = 0 in
      if even && DisplayModel.target_in_space i addr_n then begin
        (match Armv6mSpec.armv6m_enc i with
         | None -> ()   (* not encodable: cannot be the result of decoding *)
         | Some hws when int_of_n addr_n + 2 * Stdlib.List.length hws > 0x100000000 ->
             count "S.excluded_instruction_does_not_fit_below_2^32"   (* no such instruction can exist at that address *)
         | Some hws ->
             let expected = hex_of_bytes (Armv6mSpec.spec_bytes hws) in
             if field impl "asm=" <> "success" then specfail "text_rejected" case impl ("asm=success bytes=" ^ expected)
             else if field impl "bytes=" <> expected then specfail "reassembles_differently" case impl ("bytes=" ^ expected));
        (match DisplayModel.pc_target i addr_n with
         | None -> ()
         | Some tgt ->
             let text = string_of_bytes (bytes_of_hex itext) in
             let want = Printf.sprintf "l_%08X" (int_of_n tgt) in
             let has = contains text want in
             if not has then specfail "label_not_target" case impl want)
      end else count "S.excluded_odd_address_or_target_outside_space"
  | _ -> disagree case impl "unparsed case")
