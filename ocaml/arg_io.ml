(* Text form of Types.arg / tokens, identical to harness/src/argtext.rs.
   ( C <hex> ) ( I <hexbytes> ) ( S <hexbytes> ) ( + a b ) ( neg a ) ( - a b ) ( * a b ) ( / a b ) ( % a b )
   ( ! a ) ( & a b ) ( | a b ) ( ^ a b ) ( << a b ) ( >> a b ) ( addr a ) ( seq a ... ) ( fn <hexname> a ... )
   every parenthesis is its own whitespace-separated token. *)
open Util
open Types

let rec fmt_arg (a : arg) : string = match a with
  | AConst v -> "( C " ^ hex_of_z v ^ " )"
  | AIdent s -> "( I " ^ hex_of_bytes s ^ " )"
  | AStr s -> "( S " ^ hex_of_bytes s ^ " )"
  | AAdd (l, r) -> bin "+" l r | ASub (l, r) -> bin "-" l r | AMul (l, r) -> bin "*" l r
  | ADiv (l, r) -> bin "/" l r | AMod (l, r) -> bin "%" l r | AAnd (l, r) -> bin "&" l r
  | AOr (l, r) -> bin "|" l r | AXor (l, r) -> bin "^" l r | AShl (l, r) -> bin "<<" l r | AShr (l, r) -> bin ">>" l r
  | ANeg a -> "( neg " ^ fmt_arg a ^ " )"
  | ANot a -> "( ! " ^ fmt_arg a ^ " )"
  | AAddr a -> "( addr " ^ fmt_arg a ^ " )"
  | ASeq l -> "( seq" ^ Stdlib.String.concat "" (Stdlib.List.map (fun x -> " " ^ fmt_arg x) l) ^ " )"
  | AFun (n, l) -> "( fn " ^ hex_of_bytes n ^ Stdlib.String.concat "" (Stdlib.List.map (fun x -> " " ^ fmt_arg x) l) ^ " )"
and bin op l r = "( " ^ op ^ " " ^ fmt_arg l ^ " " ^ fmt_arg r ^ " )"

let fmt_args (l : arg list) : string = Stdlib.String.concat " " (Stdlib.List.map fmt_arg l)

(* parse one arg from a token list; returns (arg, rest) *)
let rec parse_arg (toks : string list) : arg * string list =
  match toks with
  | "(" :: op :: rest ->
      let close r = (match r with ")" :: r' -> r' | _ -> failwith "arg: expected )") in
      let one k = let (a, r) = parse_arg rest in (k a, close r) in
      let two k = let (a, r) = parse_arg rest in let (b, r2) = parse_arg r in (k a b, close r2) in
      let rec many r acc = (match r with ")" :: r' -> (Stdlib.List.rev acc, r') | _ -> let (a, r2) = parse_arg r in many r2 (a :: acc)) in
      (match op with
       | "C" -> (match rest with v :: r -> (AConst (z_of_hex v), close r) | _ -> failwith "arg C")
       | "I" -> (match rest with v :: r -> (AIdent (bytes_of_hex v), close r) | _ -> failwith "arg I")
       | "S" -> (match rest with v :: r -> (AStr (bytes_of_hex v), close r) | _ -> failwith "arg S")
       | "+" -> two (fun a b -> AAdd (a, b)) | "-" -> two (fun a b -> ASub (a, b)) | "*" -> two (fun a b -> AMul (a, b))
       | "/" -> two (fun a b -> ADiv (a, b)) | "%" -> two (fun a b -> AMod (a, b)) | "&" -> two (fun a b -> AAnd (a, b))
       | "|" -> two (fun a b -> AOr (a, b)) | "^" -> two (fun a b -> AXor (a, b))
       | "<<" -> two (fun a b -> AShl (a, b)) | ">>" -> two (fun a b -> AShr (a, b))
       | "neg" -> one (fun a -> ANeg a) | "!" -> one (fun a -> ANot a) | "addr" -> one (fun a -> AAddr a)
       | "seq" -> let (l, r) = many rest [] in (ASeq l, r)
       | "fn" -> (match rest with n :: r -> let (l, r2) = many r [] in (AFun (bytes_of_hex n, l), r2) | _ -> failwith "arg fn")
       | s -> failwith ("arg: unknown op " ^ s))
  | _ -> failwith "arg: expected ("

let rec parse_args (toks : string list) : arg list * string list =
  match toks with
  | "(" :: _ -> let (a, r) = parse_arg toks in let (l, r2) = parse_args r in (a :: l, r2)
  | _ -> ([], toks)

(* tokens:  sep term label dir + - * / % ! & | ^ << >> (num <hex>) (id <hexbytes>) (str <hexbytes>) ( ) [ ] { }
   written as single words: N:<hex> ID:<hexbytes> STR:<hexbytes> and LP RP LB RB LC RC for brackets *)
let fmt_token_value (v : token_value) : string = match v with
  | TSeparator -> "sep" | TTerminator -> "term" | TLabelMark -> "label" | TDirectiveMark -> "dir"
  | TPlus -> "+" | TMinus -> "-" | TMultiply -> "*" | TDivide -> "/" | TModulo -> "%"
  | TNot -> "!" | TBitAnd -> "&" | TBitOr -> "|" | TBitXor -> "^" | TLeftShift -> "<<" | TRightShift -> ">>"
  | TNumber z -> "N:" ^ hex_of_z z | TIdentifier s -> "ID:" ^ hex_of_bytes s | TString s -> "STR:" ^ hex_of_bytes s
  | TBeginGroup -> "LP" | TEndGroup -> "RP" | TBeginAddr -> "LB" | TEndAddr -> "RB" | TBeginSeq -> "LC" | TEndSeq -> "RC"

let parse_token_value (s : string) : token_value =
  let pre p = Stdlib.String.length s >= Stdlib.String.length p && Stdlib.String.sub s 0 (Stdlib.String.length p) = p in
  let tail p = Stdlib.String.sub s (Stdlib.String.length p) (Stdlib.String.length s - Stdlib.String.length p) in
  match s with
  | "sep" -> TSeparator | "term" -> TTerminator | "label" -> TLabelMark | "dir" -> TDirectiveMark
  | "+" -> TPlus | "-" -> TMinus | "*" -> TMultiply | "/" -> TDivide | "%" -> TModulo
  | "!" -> TNot | "&" -> TBitAnd | "|" -> TBitOr | "^" -> TBitXor | "<<" -> TLeftShift | ">>" -> TRightShift
  | "LP" -> TBeginGroup | "RP" -> TEndGroup | "LB" -> TBeginAddr | "RB" -> TEndAddr | "LC" -> TBeginSeq | "RC" -> TEndSeq
  | _ when pre "N:" -> TNumber (z_of_hex (tail "N:"))
  | _ when pre "ID:" -> TIdentifier (bytes_of_hex (tail "ID:"))
  | _ when pre "STR:" -> TString (bytes_of_hex (tail "STR:"))
  | _ -> failwith ("token: " ^ s)

(* a positioned token: <line>:<col>:<value> *)
let fmt_token (t : token) : string =
  Printf.sprintf "%d:%d:%s" (int_of_n t.t_line) (int_of_n t.t_col) (fmt_token_value t.t_val)

let fmt_tok_err_kind (k : token_error_kind) : string = match k with
  | BadUnicode -> "BadUnicode" | Invalid -> "Invalid" | BlockComment -> "BlockComment" | BadNumber -> "BadNumber"
  | BadCharacter -> "BadCharacter" | BadString -> "BadString" | Unexpected c -> "Unexpected:" ^ hex_of_n c

let fmt_element_value (v : element_value) : string = match v with
  | ELabel n -> "L " ^ hex_of_bytes n
  | EDirective (n, a) -> "D " ^ hex_of_bytes n ^ (if a = [] then "" else " " ^ fmt_args a)
  | EInstruction (n, a) -> "X " ^ hex_of_bytes n ^ (if a = [] then "" else " " ^ fmt_args a)
