(* C18 driver.  Case text (see harness/src/bin/trias.rs):
     out=<0|1|2> <files...>       0 = no output argument (sentinel present), 1 = output argument + sentinel, 2 = output argument, no file there
   Result text:
     P=<first:hexbytes,... | - | !failure | !close-error | !panic> | exit=<code> stderr=<class> file=<hex | absent | unchanged>
   where P is the program image computed by the LIBRARY pipeline on the same files and the rest is what the real
   `trias` binary did.
   (a) model = impl: P is put into a MapModel map with the model's own map_put (one put per region), TriasModel.main_model
       (= assemble = post) predicts the effects; the predicted text  exit/stderr/file  must equal the observed one.
   (b) impl |= spec: ImageSpec is evaluated on the real file against P (as a DictSpec dictionary built with d_write);
       classes: panic, file_touched_on_failure, checksum_not_refused, block_malformed, numbering, page_emitted_twice,
       checksum_wrong, image_missing_byte, padding_not_zero, outside_touched_pages. *)
open Util

let dbg = false      (* the binary is the release build *)

let split_on (sep : string) (s : string) : string list =
  let n = Stdlib.String.length s and m = Stdlib.String.length sep in
  let rec go start i acc =
    if i + m > n then Stdlib.List.rev (Stdlib.String.sub s start (n - start) :: acc)
    else if Stdlib.String.sub s i m = sep then go (i + m) (i + m) (Stdlib.String.sub s start (i - start) :: acc)
    else go start (i + 1) acc in
  go 0 0 []

let field key toks =
  let pre = key ^ "=" in
  let l = Stdlib.String.length pre in
  match Stdlib.List.find_opt (fun t -> Stdlib.String.length t >= l && Stdlib.String.sub t 0 l = pre) toks with
  | Some t -> Stdlib.String.sub t l (Stdlib.String.length t - l)
  | None -> failwith ("missing field " ^ key)

let parse_regions (s : string) : (BinNums.coq_N * BinNums.coq_N list) list =
  if s = "-" then [] else
  Stdlib.List.map (fun r -> match Stdlib.String.split_on_char ':' r with
    | [a; d] -> (n_of_hex a, bytes_of_hex d) | _ -> failwith ("bad region " ^ r)) (Stdlib.String.split_on_char ',' s)

(* the model's memory map holding P: one map_put per region, as Context::close_segment does *)
let model_map regs : MapModel.mmap =
  Stdlib.List.fold_left (fun m (a, d) ->
    match MapModel.map_put dbg m a d with
    | MapModel.Ok (m', Some _) -> m'
    | _ -> failwith "map_put refused a region of P") MapModel.map_new regs

let dict_of regs : DictSpec.dict =
  Stdlib.List.fold_left (fun d (a, data) -> DictSpec.d_write d a data) DictSpec.d_empty regs

let arg s = Stdlib.List.init (Stdlib.String.length s) (fun i -> n_of_int (Char.code (Stdlib.String.get s i)))

let clause_name = function
  | ImageSpec.Cl_block_malformed -> "block_malformed" | ImageSpec.Cl_numbering -> "numbering"
  | ImageSpec.Cl_page_emitted_twice -> "page_emitted_twice" | ImageSpec.Cl_checksum_wrong -> "checksum_wrong"
  | ImageSpec.Cl_image_missing_byte -> "image_missing_byte" | ImageSpec.Cl_padding_not_zero -> "padding_not_zero"
  | ImageSpec.Cl_outside_touched_pages -> "outside_touched_pages"

(* which arms of the padding code P exercises (evidence only): computed from the regions as the code would see them *)
let coverage (m : MapModel.mmap) =
  let page a = int_of_n a / 256 and off a = int_of_n a mod 256 in
  (match m with
   | [] -> count "layout.empty"
   | ((f, _), _) :: _ -> count (if off f = 0 then "pad.first_aligned" else "pad.first_prepad"));
  let rec pairs = function
    | ((_, l1), _) :: ((((f2, _), _) :: _) as t) ->
        (if off f2 = 0 then count "pad.next_aligned"
         else if page l1 = page f2 then count "pad.join_same_page"
         else if page l1 + 1 = page f2 then count "pad.base_adjacent_page"
         else count "pad.base_far");
        pairs t
    | _ -> () in
  pairs m;
  Stdlib.List.iter (fun ((f, l), _) ->
    if off f = 0 then count "seg.starts_on_boundary";
    if off l = 255 then count "seg.ends_on_boundary";
    if int_of_n l = 0xFFFFFFFF then count "seg.ends_at_top";
    if int_of_n f >= 0xFFFFFF00 then count "seg.in_top_page") m;
  if Stdlib.List.length m > 1 then count "layout.multi_region"

let () = run (fun case impl ->
  let ctoks = split_ws case in
  let out = int_of_string (field "out" ctoks) in
  let (ptxt, rest) = match split_on " | " impl with
    | [p; r] -> (p, r) | _ -> failwith "result shape" in
  let ptxt = (match split_ws ptxt with [t] -> field "P" [t] | _ -> failwith "P field") in
  let rtoks = split_ws rest in
  let exit_code = field "exit" rtoks and stderr_cl = field "stderr" rtoks and file = field "file" rtoks in
  let assembled = not (Stdlib.String.length ptxt > 0 && Stdlib.String.get ptxt 0 = '!') in
  let untouched = if out = 2 then "absent" else "unchanged" in
  count (Printf.sprintf "out=%d" out);
  if not assembled then count ("lib." ^ ptxt);
  (* W=<image>: the bytes the generator wrote the program down for (every region at its address; files of included
     sources resolved against the including file): the program must assemble to exactly that *)
  (match Stdlib.List.find_opt (fun t -> Stdlib.String.length t > 2 && Stdlib.String.sub t 0 2 = "W=") ctoks with
   | Some t ->
       let want = Stdlib.String.sub t 2 (Stdlib.String.length t - 2) in
       count "intended_image_checked";
       if ptxt <> "!panic" && ptxt <> want then specfail "program_bytes" case impl ("P=" ^ want)
   | None -> ());
  if ptxt = "!panic" then begin
    (* the library pipeline itself panicked (C06's subject): reported here as a panic of the executable if it did too *)
    count "lib.panic";
    if exit_code <> "0" || stderr_cl = "panic" then specfail "panic" case impl "exit=0 (no panic)"
    else disagree case impl "library pipeline panicked, executable did not"
  end else begin
    let regs = if assembled then parse_regions ptxt else [] in
    (* ---------- (a) the model ---------- *)
    let pipeline = if assembled then TriasModel.PipeOk (model_map regs) else TriasModel.PipeDiag in
    let argv = arg "trias" :: arg "main.asm" :: (if out = 0 then [] else [arg "out.uf2"]) in
    let (effects, mpanic) = TriasModel.main_model dbg argv (Some pipeline) in
    let written = Stdlib.List.fold_left (fun acc e -> match e with
      | TriasModel.E_write_all b -> Some b | _ -> acc) None effects in
    let set_len = Stdlib.List.fold_left (fun acc e -> match e with
      | TriasModel.E_set_len n -> Some (int_of_n n) | _ -> acc) None effects in
    let m_file = match written, set_len with
      | Some b, Some n when n = Stdlib.List.length b -> hex_of_bytes b
      | Some _, _ -> "set_len-mismatch"
      | None, _ -> untouched in
    let m_stderr = match TriasModel.assemble dbg pipeline with
      | TriasModel.POk _ -> "none"
      | TriasModel.Refused TriasModel.R_empty -> "none"
      | TriasModel.Refused TriasModel.R_checksum_overlap -> "checksum-refused"
      | TriasModel.Refused TriasModel.R_diagnostics -> "diagnostics"
      | TriasModel.Refused _ -> "other"
      | TriasModel.PPanic _ | TriasModel.POutOfFuel -> "panic" in
    let m_exit = match mpanic with None -> "0" | Some _ -> "101" in
    let mtxt = Printf.sprintf "exit=%s stderr=%s file=%s" m_exit m_stderr m_file in
    if mtxt <> rest then disagree case rest mtxt;
    if assembled then coverage (model_map regs);
    (* ---------- (b) the oracle on the implementation's result ---------- *)
    let p = dict_of regs in
    let refuse = assembled && ImageSpec.must_refuse p in
    let expect_file = ImageSpec.file_expected assembled p && out <> 0 in
    if assembled && regs <> [] then begin
      count (if ImageSpec.boot_occupied p then (if refuse then "boot.refuse" else "boot.checksum") else "boot.no");
    end;
    if exit_code <> "0" || stderr_cl = "panic" then specfail "panic" case impl "exit=0, no panic"
    else if not expect_file then begin
      if file <> untouched then
        specfail (if refuse then "checksum_not_refused" else "file_touched_on_failure") case impl ("file=" ^ untouched)
      else if refuse && stderr_cl = "none" then specfail "checksum_not_refused" case impl "a refusal is reported"
      else if not assembled && stderr_cl = "none" then specfail "file_touched_on_failure" case impl "diagnostics are reported"
      else count (if refuse then "ok.refused" else if not assembled then "ok.failed_untouched" else if regs = [] then "ok.empty_untouched" else "ok.noarg")
    end else begin
      note_nontrivial case;
      if file = "absent" || file = "unchanged" then specfail "image_missing_byte" case impl "an output file"
      else
        match ImageSpec.first_failure p (bytes_of_hex file) with
        | Some c -> specfail (clause_name c) case impl ("image_ok; P+ word=" ^ hex_of_n (ImageSpec.crc_word p))
        | None -> count "ok.image"
    end
  end)
