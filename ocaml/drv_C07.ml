(* deps: arg_io.ml *)
(* Expression simplifier / evaluator driver (C07, C08).  argv[1] selects which spec clauses are judged.
   Case forms (harness/src/bin/expr.rs):
     S <arg> | N <arg>            simplify / neutralize         => ok <changed> <tree> | err <class> | panic
     E <env> ; <arg>              evaluate under env            => ok <tree> <evaluation> | err <class> | panic
     T <arg>                      literal tree through source text, Parser and evaluate on an empty context
     G <env> ; <arg>              stage 1 ;; stage 2 ;; direct ;; simplify-then-evaluate
   Always: model result = implementation result.
   C07 judges E/T cases whose tree is a literal tree against Denote.ideal;
   C08 judges G cases (staged = direct, both = den64) and every panic. *)
open BinNums
open Util
open Types
open Arg_io
let prop = if Array.length Sys.argv > 1 then Sys.argv.(1) else "C07"

let fmt_kind (k : I64.ovf_kind) = match k with
  | I64.OvAdd -> "Add" | I64.OvNegate -> "Negate" | I64.OvSubtract -> "Subtract" | I64.OvMultiply -> "Multiply"
  | I64.OvDivideByZero -> "DivideByZero" | I64.OvDivide -> "Divide" | I64.OvModuloByZero -> "ModuloByZero"
  | I64.OvModulo -> "Modulo" | I64.OvShift -> "Shift"
let fmt_err (e : I64.err) = match e with
  | I64.EBadType -> "BadType" | I64.EOverflow k -> "Overflow:" ^ fmt_kind k | I64.ENoSuchVariable -> "NoSuchVariable"

let fmt_simp r = match r with
  | I64.Ok (a, c) -> "ok " ^ (if c then "1" else "0") ^ " " ^ fmt_arg a
  | I64.Err e -> "err " ^ fmt_err e
  | I64.Panic _ -> "panic"

let fmt_evaluation (e : EvalModel.evaluation) = match e with
  | EvalModel.Complete c -> if c then "C1" else "C0"
  | EvalModel.Deferred (c, cause) -> (if c then "D1:" else "D0:") ^ hex_of_bytes cause
let fmt_eval r = match r with
  | I64.Ok (a, e) -> "ok " ^ fmt_arg a ^ " " ^ fmt_evaluation e
  | I64.Err e -> "err " ^ fmt_err e
  | I64.Panic _ -> "panic"

(* Arm6M::is_register: case-insensitive, at most 8 bytes *)
let string_of_bytes (l : coq_N list) = Stdlib.String.init (Stdlib.List.length l) (fun i -> Char.chr (int_of_n (Stdlib.List.nth l i)))
let is_register (name : coq_N list) : bool =
  Stdlib.List.length name <= 8 &&
  Stdlib.List.mem (Stdlib.String.uppercase_ascii (string_of_bytes name))
    ["R0";"R1";"R2";"R3";"R4";"R5";"R6";"R7";"R8";"R9";"R10";"R11";"R12";"R13";"SP";"R14";"LR";"R15";"PC";
     "APSR";"IAPSR";"EAPSR";"XPSR";"IPSR";"EPSR";"IEPSR";"MSP";"PSP";"PRIMASK";"CONTROL"]

type bind = BFound of BinNums.coq_Z | BDeferred | BLater of BinNums.coq_Z
let parse_env (toks : string list) : (coq_N list * bind) list =
  Stdlib.List.map (fun t ->
    let k = Stdlib.String.index t '=' in
    let name = bytes_of_hex (Stdlib.String.sub t 0 k) in
    let v = Stdlib.String.sub t (k + 1) (Stdlib.String.length t - k - 1) in
    let rest = Stdlib.String.sub v 1 (Stdlib.String.length v - 1) in
    (name, (match v.[0] with 'F' -> BFound (z_of_hex rest) | 'L' -> BLater (z_of_hex rest) | _ -> BDeferred))) toks

(* the table before (stage 1) and after the later names were defined (stage 2) *)
let lookup1 env name = match Stdlib.List.assoc_opt name env with
  | Some (BFound v) -> EvalModel.Found v | Some _ -> EvalModel.LDeferred | None -> EvalModel.NotFound
let lookup2 env name = match Stdlib.List.assoc_opt name env with
  | Some (BFound v) | Some (BLater v) -> EvalModel.Found v | Some BDeferred -> EvalModel.LDeferred | None -> EvalModel.NotFound
(* the assignment den64 is asked about: every name that has a value in the end, unless it is a register *)
let rho env name = if is_register name then None else match Stdlib.List.assoc_opt name env with
  | Some (BFound v) | Some (BLater v) -> Some v | _ -> None

let rec split_semi acc toks = match toks with
  | ";" :: rest -> (Stdlib.List.rev acc, rest)
  | x :: rest -> split_semi (x :: acc) rest
  | [] -> failwith "case: missing ;"

(* the tree the harness' text rendering parses to: a negative literal is written (-n), MIN as ((-MAX) - 1) *)
let rec textify (a : arg) : arg = match a with
  | AConst v -> (match v with
      | BinNums.Zneg _ -> if v = I64.i64_min then ASub (ANeg (AConst I64.i64_max), AConst (z_of_int 1)) else ANeg (AConst (BinInt.Z.opp v))
      | _ -> a)
  | AAdd (l, r) -> AAdd (textify l, textify r) | ASub (l, r) -> ASub (textify l, textify r) | AMul (l, r) -> AMul (textify l, textify r)
  | ADiv (l, r) -> ADiv (textify l, textify r) | AMod (l, r) -> AMod (textify l, textify r) | AAnd (l, r) -> AAnd (textify l, textify r)
  | AOr (l, r) -> AOr (textify l, textify r) | AXor (l, r) -> AXor (textify l, textify r) | AShl (l, r) -> AShl (textify l, textify r)
  | AShr (l, r) -> AShr (textify l, textify r) | ANeg v -> ANeg (textify v) | ANot v -> ANot (textify v)
  | _ -> a

let starts s p = Stdlib.String.length s >= Stdlib.String.length p && Stdlib.String.sub s 0 (Stdlib.String.length p) = p
(* "ok ( C <hex> ) ..." -> Some value *)
let const_of_result (r : string) : BinNums.coq_Z option =
  match split_ws r with
  | "ok" :: "(" :: "C" :: v :: ")" :: _ -> Some (z_of_hex v)
  | _ -> None

let rec op_name (a : arg) = match a with
  | AConst _ -> "const" | AIdent _ -> "ident" | AStr _ -> "str" | AAdd _ -> "add" | ANeg _ -> "neg" | ASub _ -> "sub"
  | AMul _ -> "mul" | ADiv _ -> "div" | AMod _ -> "mod" | ANot _ -> "not" | AAnd _ -> "and" | AOr _ -> "or" | AXor _ -> "xor"
  | AShl _ -> "shl" | AShr _ -> "shr" | AAddr _ -> "addr" | ASeq _ -> "seq" | AFun _ -> "fn"

(* C07: the implementation's result on a literal tree against the unbounded-integer oracle *)
let judge_c07 case impl (t : arg) =
  if prop = "C07" && Denote.literal_tree t then begin
    match Denote.ideal t with
    | Denote.Val v ->
        count "ideal.value";
        (match const_of_result impl with
         | Some w -> if w <> v then specfail "wrong_value" case impl ("value " ^ hex_of_z v)
         | None -> if starts impl "panic" then specfail "panic" case impl ("value " ^ hex_of_z v)
                   else specfail "error_instead_of_value" case impl ("value " ^ hex_of_z v))
    | Denote.Error ->
        count "ideal.error";
        if not (starts impl "err") then
          specfail (if starts impl "panic" then "panic" else "wrapped_instead_of_error") case impl "an error"
    | Denote.Open -> count "ideal.open"
  end

(* C07 on a list node whose elements are literal trees: every element has its ideal value, or the whole is an error *)
let judge_c07_list case impl (t : arg) =
  let els = match t with ASeq l -> Some l | AFun (_, l) -> Some l | _ -> None in
  match els with
  | Some l when prop = "C07" && l <> [] && Stdlib.List.for_all Denote.literal_tree l ->
      let ideals = Stdlib.List.map Denote.ideal l in
      if Stdlib.List.exists (fun d -> d = Denote.Open) ideals then count "ideal.list_open"
      else if Stdlib.List.exists (fun d -> d = Denote.Error) ideals then begin
        count "ideal.list_error";
        if not (starts impl "err") then specfail (if starts impl "panic" then "panic" else "wrapped_instead_of_error") case impl "an error (one element leaves the range)"
      end else begin
        count "ideal.list_value";
        let vals = Stdlib.List.map (fun d -> match d with Denote.Val v -> AConst v | _ -> AConst (z_of_int 0)) ideals in
        let want = fmt_arg (match t with ASeq _ -> ASeq vals | AFun (n, _) -> AFun (n, vals) | x -> x) in
        let n = Stdlib.String.length impl and m = Stdlib.String.length want in
        let rec has i = i + m <= n && (Stdlib.String.sub impl i m = want || has (i + 1)) in
        if not (starts impl "ok" && has 0) then specfail (if starts impl "panic" then "panic" else "wrong_value") case impl ("every element evaluated: " ^ want)
      end
  | _ -> ()

let split_results (impl : string) : string list =
  (* results are separated by " ;; " *)
  let parts = ref [] and cur = Buffer.create 64 in
  let toks = Stdlib.String.split_on_char ' ' impl in
  Stdlib.List.iter (fun t -> if t = ";;" then (parts := Stdlib.String.trim (Buffer.contents cur) :: !parts; Buffer.clear cur)
                             else (Buffer.add_string cur t; Buffer.add_char cur ' ')) toks;
  parts := Stdlib.String.trim (Buffer.contents cur) :: !parts;
  Stdlib.List.rev !parts

let () = run (fun case impl ->
  let toks = split_ws case in
  match toks with
  | "S" :: rest | "N" :: rest ->
      let (a, _) = parse_arg rest in
      let simp = (Stdlib.List.hd toks = "S") in
      let m = fmt_simp (if simp then SimplifyModel.simplify a else SimplifyModel.neutralize a) in
      count ((if simp then "S." else "N.") ^ op_name a); note_nontrivial case;
      if m <> impl then disagree case impl m;
      if simp then judge_c07_list case impl a;
      if prop = "C08" && starts impl "panic" then specfail "panic" case impl "no panic"
  | "E" :: rest ->
      let (envt, at) = split_semi [] rest in
      let env = parse_env envt in
      let (a, _) = parse_arg at in
      let m = fmt_eval (EvalModel.evaluate (lookup1 env) is_register a) in
      count ("E." ^ op_name a); note_nontrivial case;
      if m <> impl then disagree case impl m;
      judge_c07 case impl a;
      judge_c07_list case impl a;
      if prop = "C08" && starts impl "panic" then specfail "panic" case impl "no panic"
  | "T" :: rest ->
      let (a, _) = parse_arg rest in
      let m = fmt_eval (EvalModel.evaluate (fun _ -> EvalModel.NotFound) is_register (textify a)) in
      count ("T." ^ op_name a); note_nontrivial case;
      if m <> impl then disagree case impl m;
      judge_c07 case impl a
  | "G" :: rest ->
      let (envt, at) = split_semi [] rest in
      let env = parse_env envt in
      let (a, _) = parse_arg at in
      let ev lk t = EvalModel.evaluate lk is_register t in
      let r1 = ev (lookup1 env) a in
      let m1 = fmt_eval r1 in
      let m2 = (match r1 with I64.Ok (t1, _) -> fmt_eval (ev (lookup2 env) t1) | _ -> "-") in
      let m3 = fmt_eval (ev (lookup2 env) a) in
      let m4 = (match SimplifyModel.simplify a with
        | I64.Ok (t4, _) -> fmt_eval (ev (lookup2 env) t4)
        | I64.Err e -> "serr " ^ fmt_err e
        | I64.Panic _ -> "panic") in
      let m = Stdlib.String.concat " ;; " [m1; m2; m3; m4] in
      count ("G." ^ op_name a); note_nontrivial case;
      if m <> impl then disagree case impl m;
      if prop = "C08" then begin
        match split_results impl with
        | [i1; i2; i3; i4] ->
            if Stdlib.List.exists (fun r -> starts r "panic") [i1; i2; i3; i4] then specfail "panic" case impl "no panic";
            let staged = const_of_result i2 and direct = const_of_result i3 and viasimp = const_of_result i4 in
            (match staged, direct with
             | Some s, Some d -> count "G.both_values"; if s <> d then specfail "staged_differs" case impl ("staged = direct = " ^ hex_of_z d)
             | _ -> ());
            (match Denote.den64 (rho env) a with
             | Some v ->
                 count "G.den64_value";
                 let chk what r = (match r with Some w when w <> v -> specfail what case impl ("value " ^ hex_of_z v) | _ -> ()) in
                 chk "simplify_changes_value" staged; chk "simplify_changes_value" viasimp; chk "wrong_value" direct
             | None -> count "G.den64_none")
        | _ -> specfail "unparsed_result" case impl "four results"
      end
  | _ -> disagree case impl "unparsed case")
