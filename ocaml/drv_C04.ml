(* deps: instr_io.ml *)
(* C04 driver.  A <addr> <variant seed> <target|-> <instr> => src=<hex> | asm=<status> bytes=<hex> diags=<...>
   Spec on the implementation's result: the statement rendered for `instr` (PC-relative operand = absolute
   target) must assemble at `addr` to StmtSpec.expected_bytes, or — when there is no encoding — be reported
   by at least one diagnostic and not assemble successfully. *)
open Util
open Instr_io

let field impl key =
  let n = Stdlib.String.length impl and k = Stdlib.String.length key in
  let rec find i = if i + k > n then None else if Stdlib.String.sub impl i k = key then Some (i + k) else find (i + 1) in
  match find 0 with
  | None -> ""
  | Some s -> let e = (try Stdlib.String.index_from impl s ' ' with Not_found -> n) in Stdlib.String.sub impl s (e - s)

let () = run (fun case impl ->
  match split_ws case with
  | "A" :: addr :: _vseed :: target :: toks ->
      let addr_n = n_of_hex addr in
      let (i, _) = parse_instr toks in
      let tgt = if target = "-" then None else Some (z_of_hex target) in
      let kind = (match toks with n :: _ -> n | [] -> "?") in
      let status = field impl "asm=" in
      (* "! <bias>": operands were written as value + bias (values the operand types cannot hold);
         when at least one operand was biased the statement has no encoding *)
      let nbiased = (try int_of_string (field impl "biased=") with _ -> 0) in
      (* "# <n>": the statement was written with one operand too many / too few: every mnemonic has exactly one
         operand count, so there is no encoding *)
      let wrong_arity = Stdlib.List.mem "#" toks in
      if wrong_arity then count "A.wrong_operand_count";
      (* "% <ident>": the identifier operand was replaced; ovr=diff: it is not the documented name in any letter case *)
      let wrong_name = Stdlib.List.mem "%" toks && field impl "ovr=" = "diff" in
      if Stdlib.List.mem "%" toks then count ("A.identifier_override." ^ field impl "ovr=");
      let expected = if wrong_name || wrong_arity || (Stdlib.List.mem "!" toks && nbiased > 0) then None else StmtSpec.expected_bytes i addr_n tgt in
      if Stdlib.List.mem "!" toks then count ("A.biased." ^ (if nbiased > 0 then "operand" else "none"));
      (match expected with
       | Some bytes ->
           count ("A." ^ kind ^ ".encodable"); note_nontrivial case;
           let expected = hex_of_bytes bytes in
           if status = "panic" then specfail "panic" case impl "no panic"
           else if status <> "success" then specfail "valid_statement_rejected" case impl ("asm=success bytes=" ^ expected)
           else if field impl "bytes=" <> expected then specfail "wrong_bytes" case impl ("bytes=" ^ expected)
       | None ->
           count ("A." ^ kind ^ ".rejected"); note_nontrivial case;
           if status = "panic" then specfail "panic" case impl "no panic"
           else if status = "success" then specfail "invalid_statement_accepted" case impl "a diagnostic"
           else if field impl "diags=" = "-" && status <> "close-error" then specfail "failure_without_diagnostic" case impl "a diagnostic")
  | _ -> disagree case impl "unparsed case")
