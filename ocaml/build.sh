#!/bin/sh
# usage: ocaml/build.sh <ID>   — extract the Coq model/spec for property <ID> and link its driver.
# Output: /verif/.build/ocaml/<ID>/model_<ID>.  Incremental via an input hash stamp.
set -e
ID="$1"
ROOT="$(cd "$(dirname "$0")/.." && pwd)"
OUT="$ROOT/.build/ocaml/$ID"
EX="$ROOT/coq/theories/Extract/Extract$ID.v"
mkdir -p "$OUT"
# two checks that share a model (e.g. C12 uses the C06 binary) may run at the same time: one build at a time per model
if [ -z "$BUILD_SH_LOCKED" ]; then BUILD_SH_LOCKED=1 exec flock "$OUT/.lock" env BUILD_SH_LOCKED=1 "$0" "$@"; fi
# extra hand-written modules: first line of the driver may read  (* deps: a.ml b.ml *)
DEPS=$(sed -n '1s/^(\* deps: \(.*\) \*)$/\1/p' "$ROOT/ocaml/drv_$ID.ml")
DEPFILES=""; for d in $DEPS; do DEPFILES="$DEPFILES $ROOT/ocaml/$d"; done
# inputs: the extraction file, the driver, util, and every compiled model/spec file
STAMP=$( { cat "$EX" "$ROOT/ocaml/util.ml" "$ROOT/ocaml/drv_$ID.ml" $DEPFILES; find "$ROOT/coq/theories" -name '*.v' -newer "$OUT/model_$ID" 2>/dev/null | head -1; } | md5sum | cut -d' ' -f1)
if [ -x "$OUT/model_$ID" ] && [ "$(cat "$OUT/stamp" 2>/dev/null)" = "$STAMP" ] && [ -z "$(find "$ROOT/coq/theories" -name '*.v' -newer "$OUT/model_$ID" | head -1)" ]; then
  exit 0
fi
cd "$OUT"
rm -f *.ml *.mli *.cm* *.o *.vo *.glob
cp "$EX" "Extract$ID.v"
timeout 900 coqc -Q "$ROOT/coq/theories" Trion "Extract$ID.v" > extract.log 2>&1 || { cat extract.log; exit 1; }
rm -f "Extract$ID.vo" "Extract$ID.glob" "Extract$ID.vos" "Extract$ID.vok" ".Extract$ID.aux"
cp "$ROOT/ocaml/util.ml" "$ROOT/ocaml/drv_$ID.ml" .
for d in $DEPS; do cp "$ROOT/ocaml/$d" .; done
FILES=$(ocamlfind ocamldep -sort *.ml *.mli)
ocamlfind ocamlopt -w -a -inline 100 $FILES -o "model_$ID" > build.log 2>&1 || { cat build.log; exit 1; }
STAMP=$( { cat "$EX" "$ROOT/ocaml/util.ml" "$ROOT/ocaml/drv_$ID.ml" $DEPFILES; find "$ROOT/coq/theories" -name '*.v' -newer "$OUT/model_$ID" 2>/dev/null | head -1; } | md5sum | cut -d' ' -f1)
echo "$STAMP" > stamp
