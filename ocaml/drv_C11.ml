(* deps: arg_io.ml *)
(* C11 / C10_tok / C12_tok driver (argv[1] = C10 | C11 | C12 selects which spec classes are evaluated; default C11).
   Case forms (harness/src/bin/tok.rs):
     T <hexbytes>                              P <hexbytes> <off,off,..|->
     LIT <int|chr|str> <expected|reject|quirk> <hexbytes> [spec rendering: I <radix> <upper> <zeros> <n> <suffixhex> | C P <c> <suffixhex> | C E <letter> <suffixhex>]
   impl result:  <item> ... / <poll> <poll> <poll>  |  panic
   Always: model text = impl text (DISAGREE otherwise).  Spec classes on the implementation's result:
     C10: tok_panic, tok_shape, tok_utf8     C11: tok_panic (literal cases), literal_value     C12: tok_pos *)
open Util
open Arg_io
open BinNums

let prop = if Array.length Sys.argv > 1 then Sys.argv.(1) else "C11"

let fmt_item (it : (Types.token, Types.token_error) Datatypes.sum) : string = match it with
  | Datatypes.Coq_inl t -> fmt_token t
  | Datatypes.Coq_inr e -> Printf.sprintf "E:%d:%d:%s" (int_of_n e.Types.te_line) (int_of_n e.Types.te_col) (fmt_tok_err_kind e.Types.te_kind)

let rec nat_of_int (n : int) : Datatypes.nat = if n <= 0 then Datatypes.O else Datatypes.S (nat_of_int (n - 1))
let rec int_of_nat (n : Datatypes.nat) : int = match n with Datatypes.O -> 0 | Datatypes.S k -> 1 + int_of_nat k

let model_text (bs : coq_N list) : string =
  match TokenModel.tokens_all bs with
  | TokenModel.Panic s -> "panic"
  | TokenModel.OutOfFuel -> "out-of-fuel"
  | TokenModel.Ok (items, polls) ->
      let ws = Stdlib.List.map fmt_item items in
      let ps = Stdlib.List.map (fun p -> match p with None -> "-" | Some it -> fmt_item it) polls in
      Stdlib.String.concat " " (ws @ ["/"] @ ps)

let is_err w = Stdlib.String.length w >= 2 && Stdlib.String.sub w 0 2 = "E:"
let rec firstn n l = if n <= 0 then [] else match l with [] -> [] | x :: r -> x :: firstn (n - 1) r

(* split "l:c:rest" *)
let split_pos (w : string) : int * int * string =
  match Stdlib.String.split_on_char ':' w with
  | l :: c :: rest -> (int_of_string l, int_of_string c, Stdlib.String.concat ":" rest)
  | _ -> failwith ("item: " ^ w)

let pos_text (bs : coq_N list) (off : int) : string =
  let (l, c) = PosSpec.pos_of (firstn off bs) in Printf.sprintf "%d:%d" (int_of_n l) (int_of_n c)

let split_items (impl : string) : string list * string list =
  let ws = split_ws impl in
  let rec go acc l = match l with [] -> (Stdlib.List.rev acc, []) | "/" :: r -> (Stdlib.List.rev acc, r) | x :: r -> go (x :: acc) r in
  go [] ws

let check_common (case : string) (bs : coq_N list) (impl : string) (is_lit : bool) : (string list * string list) option =
  let m = model_text bs in
  if m <> impl then disagree case impl m;
  if impl = "panic" then begin
    if prop = "C10" || (prop = "C11" && is_lit) then specfail "tok_panic" case impl "no panic";
    None
  end else begin
    let (items, polls) = split_items impl in
    if prop = "C10" then begin
      let n = Stdlib.List.length items in
      let bad_shape = Stdlib.List.exists (fun w -> w = "RUNAWAY") items
        || Stdlib.List.exists is_err (firstn (n - 1) items)
        || polls <> ["-"; "-"; "-"] in
      if bad_shape then specfail "tok_shape" case impl "tokens, at most one final error, then None for ever";
      let valid = int_of_nat (Utf8.valid_up_to bs) = Stdlib.List.length bs in
      let last_err = n > 0 && is_err (Stdlib.List.nth items (n - 1)) in
      let has_bu = Stdlib.List.exists (fun w -> is_err w && (let (_, _, k) = split_pos (Stdlib.String.sub w 2 (Stdlib.String.length w - 2)) in k = "BadUnicode")) items in
      if (not valid) && not last_err then specfail "tok_utf8" case impl "invalid UTF-8 must end the stream with an error";
      if valid && has_bu then specfail "tok_utf8" case impl "BadUnicode on valid UTF-8";
      if not valid then count "invalid_utf8"
    end;
    if prop = "C12" then begin
      (match TokenModel.tokens_offsets bs with
       | TokenModel.Ok offs ->
           let rec go its offs = match its, offs with
             | w :: its', (_, off) :: offs' ->
                 if not (is_err w) then begin
                   let (l, c, _) = split_pos w in
                   let want = pos_text bs (int_of_nat off) in
                   if Printf.sprintf "%d:%d" l c <> want then specfail "tok_pos" case impl ("token at byte " ^ string_of_int (int_of_nat off) ^ " is at " ^ want)
                   else count "token_positions_checked"
                 end;
                 go its' offs'
             | _ -> () in
           go items offs
       | _ -> ())
    end;
    Some (items, polls)
  end

let lit_check (case : string) (kind : string) (expected : string) (impl : string) (items : string list) =
  let want_tok = match kind with
    | "int" | "chr" -> "N:" ^ expected
    | _ -> "STR:" ^ expected in
  let want_err = match kind with "int" -> "BadNumber" | "chr" -> "BadCharacter" | _ -> "BadString" in
  if expected = "quirk" then count "quirk"
  else if expected = "reject" then begin
    count "reject";
    match items with
    | [w] when is_err w && (let (_, _, k) = split_pos (Stdlib.String.sub w 2 (Stdlib.String.length w - 2)) in k = want_err) -> ()
    | _ -> specfail "literal_value" case impl ("exactly one " ^ want_err)
  end else begin
    count "value";
    let ok = match items with
      | [w] when not (is_err w) -> let (_, _, v) = split_pos w in v = want_tok
      | [w; t] when not (is_err w) && not (is_err t) -> let (_, _, v) = split_pos w in let (_, _, tv) = split_pos t in v = want_tok && tv = "term"
      | _ -> false in
    if not ok then specfail "literal_value" case impl want_tok
  end

let bool_of s = s = "1"

let () = run (fun case impl ->
  match split_ws case with
  | ["T"; hex] ->
      let bs = bytes_of_hex hex in
      count "T"; if bs <> [] then note_nontrivial case;
      ignore (check_common case bs impl false)
  | ["P"; hex; offs] ->
      let bs = bytes_of_hex hex in
      count "P"; note_nontrivial case;
      (match check_common case bs impl false with
       | Some (items, _) when prop = "C12" ->
           let offs = if offs = "-" then [] else Stdlib.List.map (fun s -> int_of_string ("0x" ^ s)) (Stdlib.String.split_on_char ',' offs) in
           if Stdlib.List.length offs <> Stdlib.List.length items || Stdlib.List.exists is_err items then
             specfail "tok_pos" case impl "one token per generated token"
           else Stdlib.List.iter2 (fun w off ->
             let (l, c, _) = split_pos w in
             let want = pos_text bs off in
             if Printf.sprintf "%d:%d" l c <> want then specfail "tok_pos" case impl ("token at byte " ^ string_of_int off ^ " is at " ^ want)
             else count "generator_positions_checked") items offs
       | _ -> ())
  | "LIT" :: kind :: expected :: hex :: rendering ->
      let bs = bytes_of_hex hex in
      count ("LIT." ^ kind); note_nontrivial case;
      (* the spec's own rendering of the literal must be the text that was run *)
      (match rendering with
       | ["I"; radix; upper; zeros; n; suf] ->
           let r = LitSpec.show_int (n_of_hex radix) (bool_of upper) (nat_of_int (int_of_string zeros)) (n_of_hex n) @ bytes_of_hex suf in
           if r <> bs then disagree case impl ("LitSpec.show_int renders " ^ hex_of_bytes r) else count "spec_rendered"
       | ["C"; "P"; c; suf] ->
           let r = LitSpec.show_char (LitSpec.CPlain (n_of_hex c)) @ bytes_of_hex suf in
           if r <> bs then disagree case impl ("LitSpec.show_char renders " ^ hex_of_bytes r) else count "spec_rendered"
       | _ -> ());
      (match check_common case bs impl true with
       | Some (items, _) when prop = "C11" -> lit_check case kind expected impl items
       | _ -> ())
  | _ -> disagree case impl "unparsed case")
