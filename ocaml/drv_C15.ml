(* C15 driver.  A case is an operation sequence on a fresh MemoryMap:
     W <base> <n> ; put <addr> <hexbytes> ; rem <addr> ; rr <first> <last> ; clear ; ...
   (`W` only tells the harness which address window to sweep).  The implementation result is
     dbg=<0|1> | <observations after op 1> | <observations after op 2> | ...
   and the observations of one op are blank-separated tokens key=value:
     ret=ok:<n> | err | none | <f>-<l>:<bytes> | unit | badrange | panic
     iter=<f>-<l>:<bytes>,...   (`.` when empty)      len=<n>      count=<addrs>:<segments>
     fE@<a>= fB@<a>= fA@<a>=   <f>-<l> | none | panic            (find, Exact/Below/Above)
     gE@<a>= gB@<a>= gA@<a>=   <f>-<l>:<bytes> | none | panic    (get)
     cr@<f>-<l>=<addrs>:<segments>          ir@<f>-<l>=<segment list like iter>
   Every token names its own query, so the driver answers exactly the queries the harness made:
     (a) with the extracted model (MapModel) run on the same sequence   -> DISAGREE when different,
     (b) with the extracted dictionary oracle (DictSpec), which is advanced by the operations alone
         and never looks at the model                                    -> SPECFAIL class=...
   get() in Below/Above mode has no dictionary meaning (and panics when the address lies outside the
   segment found); it is compared with the model only. *)
open Util

let hx = hex_of_n
let seg_str ((f, l), d) = hx f ^ "-" ^ hx l ^ ":" ^ hex_of_bytes d
let segs_str l = if l = [] then "." else Stdlib.String.concat "," (Stdlib.List.map seg_str l)
let pair_str (a, b) = hx a ^ ":" ^ hx b
let res_str f (r : 'a MapModel.res) = match r with
  | MapModel.Ok a -> f a | MapModel.Panic _ -> "panic" | MapModel.OutOfFuel -> "outoffuel"
let opt_str f = function None -> "none" | Some x -> f x
let rng_str (f, l) = hx f ^ "-" ^ hx l

type n = BinNums.coq_N
type op = Put of n * n list | Rem of n | Rr of n * n | Clear

let parse_op (s : string) : op = match split_ws s with
  | ["put"; a; b] -> Put (n_of_hex a, bytes_of_hex b)
  | ["rem"; a] -> Rem (n_of_hex a)
  | ["rr"; f; l] -> Rr (n_of_hex f, n_of_hex l)
  | ["clear"] -> Clear
  | _ -> failwith ("bad op " ^ s)

let split_on (sep : string) (s : string) : string list =
  let n = Stdlib.String.length s and m = Stdlib.String.length sep in
  let rec go start i acc =
    if i + m > n then Stdlib.List.rev (Stdlib.String.sub s start (n - start) :: acc)
    else if Stdlib.String.sub s i m = sep then go (i + m) (i + m) (Stdlib.String.sub s start (i - start) :: acc)
    else go start (i + 1) acc in
  go 0 0 []

let key_val (tok : string) : string * string =
  match Stdlib.String.index_opt tok '=' with
  | None -> (tok, "")
  | Some i -> (Stdlib.String.sub tok 0 i, Stdlib.String.sub tok (i + 1) (Stdlib.String.length tok - i - 1))

let parse_range (s : string) = match Stdlib.String.split_on_char '-' s with
  | [f; l] -> (n_of_hex f, n_of_hex l) | _ -> failwith ("bad range " ^ s)

(* query part of a key: "fE@12" -> ("fE", "12") *)
let key_arg (k : string) = match Stdlib.String.index_opt k '@' with
  | None -> (k, "")
  | Some i -> (Stdlib.String.sub k 0 i, Stdlib.String.sub k (i + 1) (Stdlib.String.length k - i - 1))

(* answer of the model to a query token; None: not a query the model knows *)
let model_query dbg (m : MapModel.mmap) (k : string) : string option =
  let (q, arg) = key_arg k in
  let find sr = Some (res_str (opt_str rng_str) (MapModel.map_find dbg m (n_of_hex arg) sr)) in
  let get sr = Some (res_str (opt_str seg_str) (MapModel.map_get dbg m (n_of_hex arg) sr)) in
  match q with
  | "iter" -> Some (segs_str (MapModel.map_iter m))
  | "len" -> Some (hx (MapModel.map_len m))
  | "count" -> Some (res_str pair_str (MapModel.map_count dbg m))
  | "fE" -> find MapModel.Exact | "fB" -> find MapModel.Below | "fA" -> find MapModel.Above
  | "gE" -> get MapModel.Exact | "gB" -> get MapModel.Below | "gA" -> get MapModel.Above
  (* get_mut: the same expression as get in map/mod.rs, behind &mut *)
  | "mE" -> get MapModel.Exact | "mB" -> get MapModel.Below | "mA" -> get MapModel.Above
  | "cr" -> let (f, l) = parse_range arg in Some (res_str pair_str (MapModel.map_count_range dbg m f l))
  | "ir" -> let (f, l) = parse_range arg in Some (res_str segs_str (MapModel.map_iter_range dbg m f l))
  | _ -> None

(* answer of the dictionary oracle and the failure class; None: the property does not define it *)
let spec_query (d : DictSpec.dict) (k : string) : (string * string) option =
  let (q, arg) = key_arg k in
  let find md = Some (opt_str rng_str (DictSpec.d_find d (n_of_hex arg) md), "lookup_find") in
  match q with
  | "iter" -> Some (segs_str (DictSpec.d_iter d), "iter_not_runs")
  | "len" -> Some (hx (DictSpec.d_len d), "iter_not_runs")
  | "count" -> Some (pair_str (DictSpec.d_count d), "count")
  | "fE" -> find DictSpec.MExact | "fB" -> find DictSpec.MBelow | "fA" -> find DictSpec.MAbove
  | "gE" | "mE" -> Some (opt_str seg_str (DictSpec.d_get_exact d (n_of_hex arg)), "lookup_get")
  | "cr" -> let (f, l) = parse_range arg in Some (pair_str (DictSpec.d_count_range d f l), "count_range")
  | "ir" -> let (f, l) = parse_range arg in Some (segs_str (DictSpec.d_iter_range d f l), "iter_range")
  | _ -> None

let put_ret = function None -> "err" | Some n -> "ok:" ^ hx n

let () = run (fun case impl ->
  let ops = match split_on " ; " case with
    | w :: rest when Stdlib.String.length w > 0 && (Stdlib.String.get w (0)) = 'W' -> Stdlib.List.map parse_op rest
    | _ -> failwith "case must start with W" in
  let groups = split_on " | " impl in
  let dbg, groups = match groups with
    | "dbg=1" :: g -> (true, g) | "dbg=0" :: g -> (false, g) | _ -> failwith "no dbg flag" in
  count "cases"; if ops <> [] then note_nontrivial case;
  let model : MapModel.mmap option ref = ref (Some MapModel.map_new) in   (* None: model stopped (panic / disagreement) *)
  let dict = ref DictSpec.d_empty in
  let disagreed = ref false and failed = ref false in
  let dis what iv mv = if not !disagreed then begin disagreed := true; disagree case (what ^ " " ^ iv) (what ^ " " ^ mv) end in
  let sf cls what iv sv = if not !failed then begin failed := true; specfail cls case (what ^ " " ^ iv) (what ^ " " ^ sv) end in
  let rec go i ops groups = match ops, groups with
    | [], [] -> ()
    | [], _ -> dis (Printf.sprintf "op%d" i) "extra observations" "none"
    | _, [] -> dis (Printf.sprintf "op%d" i) "missing observations" "expected"
    | op :: ops', g :: groups' ->
      let toks = Stdlib.List.map key_val (split_ws g) in
      let impl_ret = try Stdlib.List.assoc "ret" toks with Not_found -> "missing" in
      let tag = Printf.sprintf "op%d" i in
      (* ---- model step ---- *)
      let model_ret = match !model with
        | None -> None
        | Some m ->
          let (m', r) = match op with
            | Put (a, data) ->
              (match MapModel.map_put dbg m a data with
               | MapModel.Ok (m', r) ->
                 if Stdlib.List.length m' + 2 <= Stdlib.List.length m then count "put.merged3plus";
                 (Some m', put_ret r)
               | MapModel.Panic _ -> (None, "panic") | MapModel.OutOfFuel -> (None, "outoffuel"))
            | Rem a ->
              (match MapModel.map_remove dbg m a with
               | MapModel.Ok (m', r) -> (Some m', opt_str seg_str r)
               | MapModel.Panic _ -> (None, "panic") | MapModel.OutOfFuel -> (None, "outoffuel"))
            | Rr (f, l) ->
              (match MapModel.range_new f l with
               | MapModel.Ok (f, l) ->
                 (match MapModel.map_remove_range dbg m f l with
                  | MapModel.Ok m' -> (Some m', "unit")
                  | MapModel.Panic _ -> (None, "panic") | MapModel.OutOfFuel -> (None, "outoffuel"))
               | _ -> (Some m, "badrange"))
            | Clear -> (Some (MapModel.map_clear m), "unit") in
          model := m'; Some r in
      (match model_ret with
       | Some r -> if r <> impl_ret then (dis (tag ^ " ret") impl_ret r; model := None)
       | None -> ());
      (* ---- dictionary step (independent of model and implementation) ---- *)
      let before = !dict in
      let (spec_ret, cls) = match op with
        | Put (a, data) ->
          let (d', r) = DictSpec.d_put !dict a data in
          dict := d';
          (match r with None -> count "put.overflow" | Some _ -> count "put.ok");
          (put_ret r, if r = None then "put_overflow" else "put_count")
        | Rem a ->
          let (d', r) = DictSpec.d_remove_run !dict a in
          dict := d'; count (if r = None then "rem.miss" else "rem.hit");
          (opt_str seg_str r, "remove_ret")
        | Rr (f, l) ->
          if BinNat.N.ltb l f then (count "rr.badrange"; ("badrange", "range_new"))
          else begin dict := DictSpec.d_remove_range !dict f l; count "rr"; ("unit", "remove_range_ret") end
        | Clear -> dict := DictSpec.d_clear !dict; count "clear"; ("unit", "clear_ret") in
      if impl_ret = "panic" then sf "panic" (tag ^ " ret") impl_ret spec_ret
      else if impl_ret <> spec_ret then sf cls (tag ^ " ret") impl_ret spec_ret;
      let overflow_op = (match op with Put _ -> spec_ret = "err" | _ -> false) in
      ignore before;
      (* ---- observations ---- *)
      if impl_ret <> "panic" then
        Stdlib.List.iter (fun (k, v) ->
          if k <> "ret" then begin
            count "observations";
            (match !model with
             | Some m -> (match model_query dbg m k with
                          | Some mv -> if mv <> v then dis (tag ^ " " ^ k) v mv
                          | None -> dis (tag ^ " " ^ k) v "unknown query")
             | None -> ());
            (match spec_query !dict k with
             | Some (sv, cls) ->
               if sv <> v then sf (if overflow_op && (k = "iter" || k = "len") then "overflow_changed_map" else cls) (tag ^ " " ^ k) v sv
             | None -> count "observations.model_only")
          end) toks;
      (* a panic ends the sequence on both sides *)
      if impl_ret = "panic" then (if groups' <> [] then dis tag "observations after panic" "none")
      else go (i + 1) ops' groups' in
  go 1 ops groups)
