(* deps: ctx_cmp.ml *)
(* C06 driver.  Case forms (harness/src/bin/pipe.rs):
     P <hex source> [tags]                                   single file named p.asm
     F <hex name> <hex bytes> ; ... ; ROOT <hex name> [tags]   project
   tags: VALID | MUT | EXPECT-DIAG | ILLTYPED | CLASS <name> | POS <hex file> <line> <col>   (line, col decimal)
         (ILLTYPED: a register inside the arithmetic of an instruction operand; no diagnostic is demanded, the generic clauses are)
   impl: status=<panic|success|failure|close-error> diags=<class@hexfile:line:col,...|-> regions=<...>
   impl: dbg=<0|1> status=... (see harness/src/projrun.rs); the extracted Context model (Asm/CtxModel.pipeline_gen) is run on the
   same project and compared (status, diagnostics class@file:line:col in push order, regions) -> DISAGREE.
   The spec (Asm/ReportSpec.judge, extracted) is evaluated on the implementation's observation:
   never a panic; success => no diagnostic; failure => a diagnostic, every diagnostic inside a file of the project;
   a known invalid construct is not accepted; a known statement position is the first diagnostic's position. *)
open Util
open ReportSpec

let str_of_string (s : string) : BinNums.coq_N list =
  Stdlib.List.init (Stdlib.String.length s) (fun i -> n_of_int (Char.code (Stdlib.String.get s i)))
let string_of_hex (h : string) : string =
  if h = "-" then "" else Stdlib.String.init (Stdlib.String.length h / 2) (fun i -> Char.chr (hexval (Stdlib.String.get h (2*i)) * 16 + hexval (Stdlib.String.get h (2*i+1))))
let basename (s : string) : string =
  match Stdlib.String.rindex_opt s '/' with Some i -> Stdlib.String.sub s (i + 1) (Stdlib.String.length s - i - 1) | None -> s

(* case -> (files as (base name, bytes), tags) *)
let parse_case (case : string) : (string * BinNums.coq_N list) list * string * bool * string list =
  let rec go toks files = match toks with
    | "P" :: h :: tags -> (Stdlib.List.rev (("p.asm", bytes_of_hex h) :: files), "p.asm", false, tags)
    | "F" :: n :: b :: ";" :: rest -> go rest ((string_of_hex n, bytes_of_hex b) :: files)
    | "ROOT" :: r :: tags -> (Stdlib.List.rev files, string_of_hex r, true, tags)
    | _ -> failwith "unparsed case" in
  go (split_ws case) []

let field = Ctx_cmp.field

let parse_diag (s : string) : diag =
  (* class@hexfile:line:col — split from the right *)
  match Stdlib.List.rev (Stdlib.String.split_on_char ':' s) with
  | col :: line :: rest ->
      let head = Stdlib.String.concat ":" (Stdlib.List.rev rest) in
      let file = match Stdlib.String.rindex_opt head '@' with Some i -> Stdlib.String.sub head (i + 1) (Stdlib.String.length head - i - 1) | None -> failwith "diag without @" in
      { d_file = str_of_string (basename (string_of_hex file)); d_line = n_of_int (int_of_string line); d_col = n_of_int (int_of_string col) }
  | _ -> failwith "bad diag"

let class_name = function
  | VPanic -> "panic" | VSuccessWithDiag -> "success_with_diagnostic" | VFailureUnreported -> "failure_unreported"
  | VDiagOutOfBounds -> "diag_position_out_of_bounds" | VInvalidAccepted -> "invalid_construct_accepted" | VWrongPosition -> "diag_wrong_position"

let rec find_pos = function
  | "POS" :: f :: l :: c :: _ -> Some { d_file = str_of_string (basename (string_of_hex f)); d_line = n_of_int (int_of_string l); d_col = n_of_int (int_of_string c) }
  | _ :: r -> find_pos r
  | [] -> None
let rec find_class = function "CLASS" :: c :: _ -> c | _ :: r -> find_class r | [] -> ""

(* argv[1] = C12: the same stream judged for C12's diagnostics clause only (position classes) *)
let prop = if Array.length Sys.argv > 1 then Sys.argv.(1) else "C06"

let () = run (fun case impl ->
  let (files, root, on_disk, tags) = parse_case case in
  let files' = Stdlib.List.map (fun (n, b) -> (str_of_string (basename n), b)) files in
  Ctx_cmp.compare_model case impl files root (try Stdlib.List.assoc root files with Not_found -> []) on_disk;
  let st = match field impl "status" with
    | "panic" -> StPanic | "success" -> StSuccess | "failure" -> StFailure | "close-error" -> StCloseError
    | s -> failwith ("bad status " ^ s) in
  let ds = match field impl "diags" with "-" -> [] | s -> Stdlib.List.map parse_diag (Stdlib.String.split_on_char ',' s) in
  let expect = Stdlib.List.mem "EXPECT-DIAG" tags in
  let pos = find_pos tags in
  let family = if expect then "invalid." ^ find_class tags else if Stdlib.List.mem "ILLTYPED" tags then "illtyped" else if Stdlib.List.mem "MUT" tags then "bytes" else if Stdlib.List.mem "VALID" tags then "valid" else "other" in
  count ("family." ^ family ^ (if Stdlib.List.length files > 1 then ".project" else ""));
  count ("status." ^ field impl "status");
  if pos <> None then count "position_checked";
  note_nontrivial case;
  match judge files' st ds expect pos with
  | None -> ()
  | Some v when prop = "C12" && v <> VWrongPosition && v <> VDiagOutOfBounds -> ()
  | Some v -> specfail (class_name v) case impl
               (match v, pos with
                | VWrongPosition, Some e -> Printf.sprintf "first diagnostic at line %d col %d" (int_of_n e.d_line) (int_of_n e.d_col)
                | _ -> "success without diagnostics, or failure with in-bounds diagnostics / close error"))
