(* C17 driver.  Case forms:
     T <i>                 => <TABLE[i]>
     V <prefix> <byte>     => <state after prefix> <state after update(byte)>
     S <bytes>             => <crc of whole string>
     P <bytes> <bytes> ... => <crc fed in those pieces>
   For every case: model result must equal impl result (correspondence) and the spec
   (bit-serial register) must equal the impl result (impl |= spec). *)
open Util
let () = run (fun case impl ->
  match split_ws case with
  | ["T"; i] ->
      let i = n_of_hex i in
      let m = Stdlib.List.nth CrcModel.table (int_of_n i) in
      let sp = CrcSpec.shift8 (BinNat.N.mul i (n_of_hex "1000000")) in
      count "table"; note_nontrivial case;
      if hex_of_n m <> impl then disagree case impl (hex_of_n m);
      if hex_of_n sp <> impl then specfail "table_entry" case impl (hex_of_n sp)
  | ["V"; prefix; b] ->
      (* impl prints "<state after prefix> <state after one update(b)>"; Crc has no constructor
         from a raw state, so arbitrary states are reached through prefixes *)
      let pre = bytes_of_hex prefix and b = n_of_hex b in
      let s = CrcModel.crc_of pre in
      let m = CrcModel.crc_update s b in
      let mres = hex_of_n s ^ " " ^ hex_of_n m in
      count "update"; note_nontrivial case;
      if mres <> impl then disagree case impl mres;
      (match split_ws impl with
       | [is; ir] ->
           let sp = CrcSpec.spec_byte (n_of_hex is) b in
           if hex_of_n sp <> ir then specfail "update_step" case impl (is ^ " " ^ hex_of_n sp)
       | _ -> specfail "update_step" case impl "two numbers")
  | ["S"; bs] | ["D"; bs] ->
      let bs = bytes_of_hex bs in
      let m = CrcModel.crc_of bs and sp = CrcSpec.spec_crc bs in
      count "whole"; if bs <> [] then note_nontrivial case;
      if hex_of_n m <> impl then disagree case impl (hex_of_n m);
      if hex_of_n sp <> impl then specfail "crc_value" case impl (hex_of_n sp)
  | "P" :: pieces ->
      let ps = Stdlib.List.map bytes_of_hex pieces in
      let m = Stdlib.List.fold_left CrcModel.crc_update_slice CrcModel.crc_new ps in
      let sp = CrcSpec.spec_crc (Stdlib.List.concat ps) in
      count "pieces"; if Stdlib.List.length ps > 1 then note_nontrivial case;
      if hex_of_n m <> impl then disagree case impl (hex_of_n m);
      if hex_of_n sp <> impl then specfail "chunking" case impl (hex_of_n sp)
  | _ -> disagree case impl "unparsed case")
