(* deps: arg_io.ml *)
(* C09 / C10 (parser half) / C12 (parser half) driver.  Case forms (harness/src/bin/parse.rs):
     P <hexbytes>                   tokens=[ <tok> ... ] eof=<l>:<c> => <items>
     R <hexbytes> <bits|-> <stmts>  tokens=[ <tok> ... ] eof=<l>:<c> => <items>
   The token list (produced by the REAL tokenizer) is the input of the parser model (abstract token source);
   <items> is what the REAL parser produced.
   correspondence:  ParseModel.parse_all on the token list  =  <items>            (DISAGREE otherwise)
   spec verdicts on the implementation's items:
     parse_tree   (R) the parsed statements are exactly the expected ones
     render_mismatch (R) Render.render_stmts_x bits expected <> the token values the tokenizer produced
                  (the generator's renderer and Render.v disagree, or the tokenizer mis-lexed the text)
     parse_panic  the parser panicked
     parse_shape  an item other than the last is an error, or something was produced after the end
     parser_accepts_rejected_text   the tokenizer ended in an error but the parser's last item is not an error
     element_pos  an Ok element does not carry the position of its first token (Render.stmt_positions) *)
open BinNums
open Util
open Types
open ParseModel

(* argv[1] = C09 | C10 | C12: only the clauses of that property are judged (the other classes belong to the
   other two properties, which run the same streams with their own argument) *)
let prop = if Array.length Sys.argv > 1 then Sys.argv.(1) else "C09"
let relevant cls = match prop, cls with
  | "C09", ("parse_tree" | "render_mismatch") -> true
  | "C10", ("parse_panic" | "parse_shape" | "parser_accepts_rejected_text") -> true
  | "C12", "element_pos" -> true
  | ("C09" | "C10" | "C12"), _ -> false
  | _, _ -> true
let specfail cls case impl expected = if relevant cls then Util.specfail cls case impl expected

let pos_of (s : string) : coq_N * coq_N =
  match Stdlib.String.split_on_char ':' s with
  | [l; c] -> (n_of_int (int_of_string l), n_of_int (int_of_string c))
  | _ -> failwith ("pos: " ^ s)

(* <line>:<col>:<rest> ; rest may itself contain ':' *)
let split_tok (w : string) : coq_N * coq_N * string =
  let i = Stdlib.String.index w ':' in
  let j = Stdlib.String.index_from w (i + 1) ':' in
  (n_of_int (int_of_string (Stdlib.String.sub w 0 i)),
   n_of_int (int_of_string (Stdlib.String.sub w (i + 1) (j - i - 1))),
   Stdlib.String.sub w (j + 1) (Stdlib.String.length w - j - 1))

let parse_err_kind (s : string) : token_error_kind = match s with
  | "BadUnicode" -> BadUnicode | "Invalid" -> Invalid | "BlockComment" -> BlockComment | "BadNumber" -> BadNumber
  | "BadCharacter" -> BadCharacter | "BadString" -> BadString
  | _ when Stdlib.String.length s > 11 && Stdlib.String.sub s 0 11 = "Unexpected:" ->
      Unexpected (n_of_hex (Stdlib.String.sub s 11 (Stdlib.String.length s - 11)))
  | _ -> failwith ("error kind: " ^ s)

let parse_item (w : string) : (token, token_error) Datatypes.sum =
  let (l, c, v) = split_tok w in
  if Stdlib.String.length v > 4 && Stdlib.String.sub v 0 4 = "ERR:" then
    Datatypes.Coq_inr { te_line = l; te_col = c; te_kind = parse_err_kind (Stdlib.String.sub v 4 (Stdlib.String.length v - 4)) }
  else Datatypes.Coq_inl { t_line = l; t_col = c; t_val = Arg_io.parse_token_value v }

let fmt_pos l c = Printf.sprintf "%d:%d" (int_of_n l) (int_of_n c)

let fmt_item (i : item) : string = match i with
  | IOk e -> "ok " ^ fmt_pos e.e_line e.e_col ^ " " ^ Arg_io.fmt_element_value e.e_val
  | IErr e ->
      (match e.pe_kind with
       | PKExpected -> "err " ^ fmt_pos e.pe_line e.pe_col ^ " expected"
       | PKToken te -> "err " ^ fmt_pos e.pe_line e.pe_col ^ " token " ^ fmt_pos te.te_line te.te_col ^ ":" ^ Arg_io.fmt_tok_err_kind te.te_kind)

let fmt_poll (p : poll) : string = match p with
  | PollNone -> "none" | PollItem _ -> "item" | PollPanic -> "PANIC" | PollOutOfFuel -> "OUT-OF-FUEL"

let fmt_run (r : run_result) : string = match r with
  | Done (items, after) ->
      Stdlib.String.concat " ; " (Stdlib.List.map fmt_item items @ ["end " ^ Stdlib.String.concat " " (Stdlib.List.map fmt_poll after)])
  | RPanic items -> Stdlib.String.concat " ; " (Stdlib.List.map fmt_item items @ ["PANIC"])
  | ROutOfFuel -> "OUT-OF-FUEL"

(* split a word list at every occurrence of sep *)
let split_at (sep : string) (ws : string list) : string list list =
  let rec go cur acc = function
    | [] -> Stdlib.List.rev (Stdlib.List.rev cur :: acc)
    | w :: r when w = sep -> go [] (Stdlib.List.rev cur :: acc) r
    | w :: r -> go (w :: cur) acc r in
  go [] [] ws

let parse_stmt (ws : string list) : element_value = match ws with
  | ["L"; n] -> ELabel (bytes_of_hex n)
  | "D" :: n :: rest -> let (a, r) = Arg_io.parse_args rest in if r <> [] then failwith "stmt: trailing words"; EDirective (bytes_of_hex n, a)
  | "X" :: n :: rest -> let (a, r) = Arg_io.parse_args rest in if r <> [] then failwith "stmt: trailing words"; EInstruction (bytes_of_hex n, a)
  | _ -> failwith "stmt"

let fmt_vals (l : token_value list) : string = Stdlib.String.concat " " (Stdlib.List.map Arg_io.fmt_token_value l)

let is_prefix p s = Stdlib.String.length s >= Stdlib.String.length p && Stdlib.String.sub s 0 (Stdlib.String.length p) = p

let () = run (fun case impl ->
  (* ---- the case text ---- *)
  let words = split_ws case in
  let rec cut acc = function
    | "tokens=[" :: r -> (Stdlib.List.rev acc, r)
    | w :: r -> cut (w :: acc) r
    | [] -> failwith "no tokens=[" in
  let (head, rest) = cut [] words in
  let rec cut2 acc = function
    | "]" :: r -> (Stdlib.List.rev acc, r)
    | w :: r -> cut2 (w :: acc) r
    | [] -> failwith "no ]" in
  let (tokws, rest) = cut2 [] rest in
  let (el, ec) = match rest with
    | [e] when is_prefix "eof=" e -> pos_of (Stdlib.String.sub e 4 (Stdlib.String.length e - 4))
    | _ -> failwith "no eof=" in
  let kind = Stdlib.List.hd head in
  if Stdlib.List.mem "PANIC" tokws || Stdlib.List.mem "RUNAWAY" tokws then begin
    (* the tokenizer itself failed: the tokenizer component's finding, the parser has no input to be judged on *)
    count "skipped.tokenizer_panic"
  end else if Stdlib.List.mem "DRIFT" tokws then
    disagree case impl "assumption A1 of the abstract token source is violated: get_line/get_column moved after a token error"
  else begin
    let items = Stdlib.List.map parse_item tokws in
    let toks = Stdlib.List.filter_map (function Datatypes.Coq_inl t -> Some t | _ -> None) items in
    let ntok = Stdlib.List.length items in
    let tok_rejects = (match Stdlib.List.rev items with Datatypes.Coq_inr _ :: _ -> true | _ -> false) in
    (* ---- correspondence: the parser model on the same token source ---- *)
    let m = fmt_run (parse_all (src_of items el ec)) in
    if m <> impl then disagree case impl m;
    (* ---- the implementation's items ---- *)
    let parts = Stdlib.List.map split_ws (Stdlib.String.split_on_char ';' impl |> fun l ->
      (* ';' only separates items: element texts are hex / argtext and never contain it *) l) in
    let parts = Stdlib.List.filter (fun p -> p <> []) parts in
    let panicked = Stdlib.List.exists (fun p -> p = ["PANIC"]) parts || Stdlib.List.exists (fun p -> p = ["RUNAWAY"]) parts in
    let its = Stdlib.List.filter (fun p -> match p with ("ok" | "err") :: _ -> true | _ -> false) parts in
    let ends = Stdlib.List.filter (fun p -> match p with "end" :: _ -> true | _ -> false) parts in
    let n_items = Stdlib.List.length its in
    let is_err p = (match p with "err" :: _ -> true | _ -> false) in
    let last_is_err = (match Stdlib.List.rev its with p :: _ -> is_err p | [] -> false) in
    if panicked then specfail "parse_panic" case impl "no panic"
    else begin
      (* shape: errors only in last place; the three extra polls all None *)
      let rec errs_before_last = function [] | [_] -> false | p :: r -> is_err p || errs_before_last r in
      let polls_ok = (match ends with [["end"; "none"; "none"; "none"]] -> true | _ -> false) in
      if errs_before_last its || not polls_ok then specfail "parse_shape" case impl "Ok* Err? then None forever";
      if tok_rejects && not last_is_err then specfail "parser_accepts_rejected_text" case impl "last item is an error";
      (* positions of the Ok elements = position of their first token *)
      let oks = Stdlib.List.filter (fun p -> not (is_err p)) its in
      let labels = Stdlib.List.map (fun p -> match p with _ :: _ :: "L" :: _ -> true | _ -> false) oks in
      let want = Render.stmt_positions labels toks in
      let have = Stdlib.List.map (fun p -> match p with _ :: pos :: _ -> Some (pos_of pos) | _ -> None) oks in
      if want <> have then
        specfail "element_pos" case impl
          (Stdlib.String.concat " " (Stdlib.List.map (function Some (l, c) -> fmt_pos l c | None -> "?") want))
    end;
    (* ---- R: expected statements ---- *)
    (match head with
     | "R" :: _hex :: bits :: stmts ->
         let bits = if bits = "-" then [] else Stdlib.List.init (Stdlib.String.length bits) (fun i -> bits.[i] = '1') in
         let groups = (match split_at "@" stmts with [] :: g -> g | _ -> failwith "stmts must start with @") in
         let expected = Stdlib.List.map parse_stmt groups in
         if not (Stdlib.List.for_all Render.printable_stmt expected) then failwith "generator produced an unprintable statement";
         let want_items = Stdlib.List.map Arg_io.fmt_element_value expected in
         let have_items = Stdlib.List.map (fun p -> match p with "ok" :: _ :: r -> Stdlib.String.concat " " r | _ -> "<error>") its in
         if want_items <> have_items then specfail "parse_tree" case impl (Stdlib.String.concat " ; " want_items);
         let rend = if bits = [] then Render.render_stmts expected else Render.render_stmts_x expected bits in
         let vals = Stdlib.List.map (fun t -> t.t_val) toks in
         if tok_rejects || rend <> vals then specfail "render_mismatch" case impl (fmt_vals rend);
         (* bits = [] must agree between the two renderers *)
         if bits = [] && Render.render_stmts_x expected [] <> rend then specfail "render_mismatch" case impl "render_stmts_x [] <> render_stmts";
         count (if bits = [] then "tree.plain" else "tree.extra_parens");
         Stdlib.List.iter (fun e -> count (match e with ELabel _ -> "stmt.label" | EDirective _ -> "stmt.directive" | EInstruction _ -> "stmt.instruction")) expected;
         note_nontrivial case
     | "P" :: _ ->
         count (if tok_rejects then "text.tokenizer_rejects" else if last_is_err then "text.parser_rejects" else "text.accepted");
         if ntok > 0 then note_nontrivial case
     | _ -> failwith "unknown case kind");
    ignore kind; ignore n_items
  end)
