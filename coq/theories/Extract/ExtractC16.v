From Coq Require Import Extraction ExtrOcamlBasic.
From Trion Require Import Uf2.WriteTypes Uf2.WriteModel Uf2.ReaderSpec.
Extraction Language OCaml.
Separate Extraction BinInt.Z.add BinNat.N.add BinNat.N.mul
  session dest_bytes blocks_wellformed reconstructs read_uf2 read_items expected_items blocks_of_call config_ok image.
