From Coq Require Import Extraction ExtrOcamlBasic.
From Trion Require Import Uf2.CrcModel Uf2.CrcSpec.
Extraction Language OCaml.
Separate Extraction BinInt.Z.add BinNat.N.add BinNat.N.mul crc_update crc_of crc_update_slice crc_new table spec_byte spec_crc spec_crc_from.
