From Coq Require Import Extraction ExtrOcamlBasic.
From Trion Require Import Base.Utf8 Text.Types Text.TokenModel Text.PosSpec Text.LitSpec.
Extraction Language OCaml.
Separate Extraction BinInt.Z.add BinNat.N.add BinNat.N.mul
  tokens_all tokens_offsets tokens_rem tok_new next_token valid_up_to utf8_valid decode_char encode_char
  pos_of show_int show_char show_string string_value char_value char_lit_ok item_ok digits_value int_digits
  arg element_value element token token_error.
