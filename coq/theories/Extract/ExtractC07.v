From Coq Require Import Extraction ExtrOcamlBasic.
From Trion Require Import Text.Types Expr.I64 Expr.SimplifyModel Expr.EvalModel Expr.Denote.
Extraction Language OCaml.
Separate Extraction BinInt.Z.add BinNat.N.add BinNat.N.mul
  neutralize_raw neutralize simplify_raw simplify evaluate ideal literal_tree den64 in_i64 i64_min i64_max
  token token_error element.
