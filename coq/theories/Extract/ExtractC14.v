From Coq Require Import Extraction ExtrOcamlBasic.
From Trion Require Import Text.Types Asm.ScopeSpec Asm.CtxModel.
Extraction Language OCaml.
Separate Extraction BinInt.Z.add BinNat.N.add BinNat.N.mul
  ScopeSpec.judge_project ScopeSpec.expand_project ScopeSpec.sources ScopeSpec.down ScopeSpec.errors ScopeSpec.top_errors
  ScopeSpec.ordered ScopeSpec.uses ScopeSpec.is_register
  CtxModel.pipeline_gen CtxModel.include_fuel CtxModel.parse_source.
