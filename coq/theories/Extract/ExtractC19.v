From Coq Require Import Extraction ExtrOcamlBasic.
From Trion Require Import Arm.Instr Arm.EncodeModel Arm.DecodeModel Arm.Armv6mSpec Arm.DisplayModel.
Extraction Language OCaml.
Separate Extraction BinInt.Z.add BinNat.N.add BinNat.N.mul BinNat.N.land reg_of_num cond_of_num sysreg_of_num reg_num cond_num sysreg_num
  enc enc_bytes dec armv6m_enc spec_bytes display pc_target target_in_space.
