From Coq Require Import Extraction ExtrOcamlBasic.
From Trion Require Import Base.Utf8 Text.Types Text.PosSpec Asm.ReportSpec Asm.CtxModel.
Extraction Language OCaml.
Separate Extraction BinInt.Z.add BinNat.N.add BinNat.N.mul
  ReportSpec.judge ReportSpec.pos_in_bounds ReportSpec.diag_ok ReportSpec.split_lines pos_of
  CtxModel.pipeline_gen CtxModel.include_fuel CtxModel.parse_source.
