From Coq Require Import Extraction ExtrOcamlBasic.
From Trion Require Import Asm.CtxModel Asm.LayoutSpec Asm.LayoutSpecExt.
Extraction Language OCaml.
Separate Extraction BinInt.Z.add BinNat.N.add BinNat.N.mul pipeline_gen include_fuel parse_source layout_spec
  layout_spec_ext item_idents.
