From Coq Require Import Extraction ExtrOcamlBasic.
From Trion Require Import Text.Types Text.ParseModel Text.Render.
Extraction Language OCaml.
Separate Extraction BinInt.Z.add BinNat.N.add BinNat.N.mul
  src_of parse_all parser_next stream
  render_tokens render_with_extra_parens render_stmts render_stmts_x printable printable_stmt stmt_positions.
