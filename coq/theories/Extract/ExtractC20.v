From Coq Require Import Extraction ExtrOcamlBasic.
From Trion Require Import Arm.Instr Arm.EncodeModel Arm.DecodeModel Arm.CodecCheck Arm.DisplayModel
  Bin.ListingTypes Bin.TridasModel Bin.ListingSpec.
Extraction Language OCaml.
Separate Extraction BinInt.Z.add BinNat.N.add BinNat.N.mul BinNat.N.land BinNat.N.lor BinNat.N.shiftl
  enc le_bytes dec alias_addsub_imm3 display
  tridas tridas_lines render render_line
  instructions wf_items wf_binary is_target labels_spec spec_lines lines_of_items nonblank.
