From Coq Require Import Extraction ExtrOcamlBasic.
From Trion Require Import Mem.MapModel Mem.DictSpec Uf2.ReaderSpec Uf2.CrcSpec Bin.TriasModel Bin.ImageSpec.
Extraction Language OCaml.
Separate Extraction BinInt.Z.add BinNat.N.add BinNat.N.mul
  map_new map_put map_iter post padded assemble main_model touches_output
  d_empty d_write d_get image_ok first_failure must_refuse file_expected boot_occupied crc_word P_plus read_uf2.
