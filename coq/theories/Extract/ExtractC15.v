From Coq Require Import Extraction ExtrOcamlBasic.
From Trion Require Import Mem.MapModel Mem.DictSpec.
Extraction Language OCaml.
Separate Extraction BinInt.Z.add BinNat.N.add BinNat.N.mul
  map_new map_len map_clear map_iter map_find map_get map_put map_count map_count_range map_iter_range
  map_remove map_remove_range range_new
  d_empty d_put d_remove_run d_remove_range d_clear d_iter d_len d_find d_get_exact d_count d_count_range
  d_iter_range d_get.
