(* C19 at the level of characters, by kernel sweep: for EVERY decodable 16-bit pattern whose instruction is not
   PC-relative, and for every MSR/MRS/barrier/UDF.W instruction, the printed text (DisplayModel.display) is
   tokenized and parsed (TokenModel, ParseModel) to exactly one instruction statement with the mnemonic and
   argument trees of DisplayArgs.  (PC-relative texts contain a label that depends on the address; they are
   covered at the parsed level by C19_statement_roundtrip and on the real code by the correspondence stream.) *)
From Coq Require Import ZArith NArith List Bool.
From Trion Require Import Base.Sweep Text.Types Text.ArgEq Text.Pipeline
  Arm.Instr Arm.EncodeModel Arm.DecodeModel Arm.DisplayModel Arm.DisplayArgs.
Import ListNotations.
Open Scope N_scope.

Definition text_ok (i : instr) (addr : N) : bool :=
  match stmt_of_text (display i addr) with
  | Some (n, a) => strN_eqb n (mnemonic i) && args_eqb a (display_args i addr)
  | None => false
  end.

Definition pcrel (i : instr) : bool :=
  match pc_target i 0 with Some _ => true | None => false end.

Definition check_halfword (h : N) : bool :=
  match dec [N.land h 0xFF; N.shiftr h 8] with
  | DecOk _ i => pcrel i || text_ok i 0
  | _ => true
  end.

Lemma sw_text16 : allN check_halfword 16 = true.
Proof. vm_compute. reflexivity. Qed.

Lemma sw_text_sys :
  forallb (fun r => forallb (fun s => text_ok (Mrs r s) 0 && text_ok (Msr s r) 0) all_sysregs) all_regs = true.
Proof. vm_compute. reflexivity. Qed.

Lemma sw_text_barriers : text_ok Dmb 0 && text_ok Dsb 0 && text_ok Isb 0 = true.
Proof. vm_compute. reflexivity. Qed.

Lemma sw_text_udfw : allN (fun n => text_ok (Udfw n) 0) 16 = true.
Proof. vm_compute. reflexivity. Qed.
