(* The ARMv6-M Thumb encodings (ARM DDI 0419, section A6.7) as data: for each Instruction value the
   unique encoding row of DESIGN.md Appendix B, as a list of (value, width) fields packed MSB first.
   Written from the manual's encoding diagrams, without reference to trion's encoder guards.
   `armv6m_enc i = None` means: this operand combination has no ARMv6-M encoding. *)
From Coq Require Import ZArith NArith List Bool.
From Trion Require Import Arm.Instr.
Import ListNotations.
Open Scope N_scope.

Definition field := (N * N)%type.      (* (value, width) *)

Definition pack (fs : list field) : N := fold_left (fun acc f => acc * 2 ^ snd f + fst f) fs 0.

Definition fits (f : field) : bool := N.ltb (fst f) (2 ^ snd f).

(* one 16-bit row / one 32-bit row; every field value must fit its width *)
Definition row16 (ok : bool) (fs : list field) : option (list N) :=
  if ok && forallb fits fs then Some [pack fs] else None.
Definition row32 (ok : bool) (fs0 fs1 : list field) : option (list N) :=
  if ok && forallb fits fs0 && forallb fits fs1 then Some [pack fs0; pack fs1] else None.

Definition rnum := reg_num.
Definition low (r : reg) : bool := N.ltb (rnum r) 8.
Definition is (r : reg) (n : N) : bool := N.eqb (rnum r) n.
Definition same (a b : reg) : bool := N.eqb (rnum a) (rnum b).

(* immediate `v` is lo, lo+step, ..., hi; its field value is v / step *)
Definition imm_in (v lo hi step : Z) : bool :=
  Z.leb lo v && Z.leb v hi && Z.eqb (v mod step) 0.
Definition immf (v step : Z) (w : N) : field := (Z.to_N (v / step), w).
(* two's complement field of a signed offset: (v / step) mod 2^w *)
Definition simmf (v step : Z) (w : N) : field := (Z.to_N ((v / step) mod 2 ^ Z.of_N w), w).

Definition bit (b : bool) : N := if b then 1 else 0.
(* bits [lo+w-1 : lo] of x *)
Definition bits (x lo w : N) : N := N.land (N.shiftr x lo) (N.ones w).

(* data processing, two low registers:  opcode(10) Rm(3) Rdn(3) *)
Definition dp (opc : N) (m d : reg) := row16 (low m && low d) [(opc, 10); (rnum m, 3); (rnum d, 3)].
(* three low registers: opcode(7) Rm(3) Rn(3) Rt(3) *)
Definition r3 (opc : N) (m n t : reg) := row16 (low m && low n && low t) [(opc, 7); (rnum m, 3); (rnum n, 3); (rnum t, 3)].
(* opcode(5) imm5 Rn Rt with scaled immediate *)
Definition ri5 (opc : N) (v step : Z) (n t : reg) :=
  row16 (low n && low t && imm_in v 0 (31 * step) step) [(opc, 5); immf v step 5; (rnum n, 3); (rnum t, 3)].
(* opcode(5) Rt(3) imm8 with scaled immediate *)
Definition ri8 (opc : N) (t : reg) (v step : Z) :=
  row16 (low t && imm_in v 0 (255 * step) step) [(opc, 5); (rnum t, 3); immf v step 8].

Definition armv6m_enc (i : instr) : option (list N) :=
  match i with
  | Adc d m => dp 0x105 m d                                            (* ADCS  0100000101 *)
  | Add true d n (Imm v) =>
      if same d n then ri8 6 d v 1                                     (* ADDS Rdn,#imm8  00110 *)
      else row16 (low d && low n && imm_in v 0 7 1) [(0xE, 7); immf v 1 3; (rnum n, 3); (rnum d, 3)]  (* ADDS Rd,Rn,#imm3 0001110 *)
  | Add false d n (Imm v) =>
      if is n 13 then
        if is d 13 then row16 (imm_in v 0 508 4) [(0x160, 9); immf v 4 7]          (* ADD SP,SP,#imm7  101100000 *)
        else ri8 0x15 d v 4                                                           (* ADD Rd,SP,#imm8  10101 *)
      else None
  | Add true d n (Reg m) => r3 0xC m n d                               (* ADDS Rd,Rn,Rm  0001100 *)
  | Add false d n (Reg m) =>                                           (* ADD Rdn,Rm  01000100 DN Rm Rdn *)
      row16 (same d n && negb (is d 15 && is m 15)) [(0x44, 8); (rnum d / 8, 1); (rnum m, 4); (rnum d mod 8, 3)]
  | Adr d off => ri8 0x14 d (Z.of_N off) 4                             (* ADR  10100 *)
  | And d m => dp 0x100 m d
  | Asr d m (Imm v) => row16 (low d && low m && imm_in v 1 32 1) [(2, 5); (Z.to_N (v mod 32), 5); (rnum m, 3); (rnum d, 3)]
  | Asr d n (Reg m) => if same d n then dp 0x104 m d else None
  | B Always off => row16 (imm_in off (-2048) 2046 2) [(0x1C, 5); simmf off 2 11]
  | B c off => row16 (imm_in off (-256) 254 2) [(0xD, 4); (cond_num c, 4); simmf off 2 8]
  | Bic d m => dp 0x10E m d
  | Bkpt info => row16 true [(0xBE, 8); (info, 8)]
  | Bl off =>
      (* S:I1:I2:imm10:imm11:0 = off (25-bit two's complement); J1 = not (I1 xor S), J2 = not (I2 xor S) *)
      let x := Z.to_N (Z.land off (Z.ones 25)) in
      let s := bits x 24 1 in
      let i1 := bits x 23 1 in
      let i2 := bits x 22 1 in
      let j1 := if N.eqb i1 s then 1 else 0 in
      let j2 := if N.eqb i2 s then 1 else 0 in
      row32 (imm_in off (-16777216) 16777214 2)
            [(0x1E, 5); (s, 1); (bits x 12 10, 10)]
            [(3, 2); (j1, 1); (1, 1); (j2, 1); (bits x 1 11, 11)]
  | Blx m => row16 (negb (is m 15)) [(0x8F, 9); (rnum m, 4); (0, 3)]
  | Bx m => row16 (negb (is m 15)) [(0x8E, 9); (rnum m, 4); (0, 3)]
  | Cmn n m => dp 0x10B m n
  | Cmp n (Imm v) => ri8 5 n v 1
  | Cmp n (Reg m) =>
      if low n && low m then dp 0x10A m n
      else row16 (negb (is n 15) && negb (is m 15)) [(0x45, 8); (rnum n / 8, 1); (rnum m, 4); (rnum n mod 8, 3)]
  | Cps enable => row16 true [(0x5B3, 11); (bit (negb enable), 1); (2, 4)]      (* im = 0: CPSIE, im = 1: CPSID *)
  | Dmb => row32 true [(0xF3BF, 16)] [(0x8F5F, 16)]
  | Dsb => row32 true [(0xF3BF, 16)] [(0x8F4F, 16)]
  | Eor d m => dp 0x101 m d
  | Isb => row32 true [(0xF3BF, 16)] [(0x8F6F, 16)]
  | Ldm n regs => row16 (low n) [(0x19, 5); (rnum n, 3); (regs, 8)]
  | Ldr t n (Imm v) =>
      if is n 15 then ri8 9 t v 4
      else if is n 13 then ri8 0x13 t v 4
      else ri5 0xD v 4 n t
  | Ldr t n (Reg m) => r3 0x2C m n t
  | Ldrb t n (Imm v) => ri5 0xF v 1 n t
  | Ldrb t n (Reg m) => r3 0x2E m n t
  | Ldrh t n (Imm v) => ri5 0x11 v 2 n t
  | Ldrh t n (Reg m) => r3 0x2D m n t
  | Ldrsb t n m => r3 0x2B m n t
  | Ldrsh t n m => r3 0x2F m n t
  | Lsl d m (Imm v) => row16 (low d && low m && imm_in v 1 31 1) [(0, 5); immf v 1 5; (rnum m, 3); (rnum d, 3)]
  | Lsl d n (Reg m) => if same d n then dp 0x102 m d else None
  | Lsr d m (Imm v) => row16 (low d && low m && imm_in v 1 32 1) [(1, 5); (Z.to_N (v mod 32), 5); (rnum m, 3); (rnum d, 3)]
  | Lsr d n (Reg m) => if same d n then dp 0x103 m d else None
  | Mov true d (Imm v) => ri8 4 d v 1
  | Mov false d (Imm v) => None
  | Mov true d (Reg m) => dp 0 m d                                     (* MOVS Rd,Rm = 0000000000 Rm Rd *)
  | Mov false d (Reg m) => row16 true [(0x46, 8); (rnum d / 8, 1); (rnum m, 4); (rnum d mod 8, 3)]
  | Mrs d s => row32 (negb (is d 13) && negb (is d 15)) [(0xF3EF, 16)] [(8, 4); (rnum d, 4); (sysreg_num s, 8)]
  | Msr s n => row32 (negb (is n 13) && negb (is n 15)) [(0xF38, 12); (rnum n, 4)] [(0x88, 8); (sysreg_num s, 8)]
  | Mul d n => dp 0x10D n d
  | Mvn d m => dp 0x10F m d
  | Nop => row16 true [(0xBF00, 16)]
  | Orr d m => dp 0x10C m d
  | Pop regs =>      (* R0-R7 and PC (bit 15 -> P) *)
      row16 (negb (N.eqb regs 0) && N.eqb (N.land regs 0x7F00) 0 && N.ltb regs 65536)
            [(0x5E, 7); (regs / 2 ^ 15, 1); (regs mod 256, 8)]
  | Push regs =>     (* R0-R7 and LR (bit 14 -> M) *)
      row16 (negb (N.eqb regs 0) && N.eqb (N.land regs 0xBF00) 0 && N.ltb regs 65536)
            [(0x5A, 7); (regs / 2 ^ 14, 1); (regs mod 256, 8)]
  | Rev d m => dp 0x2E8 m d
  | Rev16 d m => dp 0x2E9 m d
  | Revsh d m => dp 0x2EB m d
  | Ror d m => dp 0x107 m d
  | Rsb d n => dp 0x109 n d
  | Sbc d m => dp 0x106 m d
  | Sev => row16 true [(0xBF40, 16)]
  | Stm n regs => row16 (low n) [(0x18, 5); (rnum n, 3); (regs, 8)]
  | Str t n (Imm v) => if is n 13 then ri8 0x12 t v 4 else ri5 0xC v 4 n t
  | Str t n (Reg m) => r3 0x28 m n t
  | Strb t n (Imm v) => ri5 0xE v 1 n t
  | Strb t n (Reg m) => r3 0x2A m n t
  | Strh t n (Imm v) => ri5 0x10 v 2 n t
  | Strh t n (Reg m) => r3 0x29 m n t
  | Sub true d n (Imm v) =>
      if same d n then ri8 7 d v 1
      else row16 (low d && low n && imm_in v 0 7 1) [(0xF, 7); immf v 1 3; (rnum n, 3); (rnum d, 3)]
  | Sub false d n (Imm v) => row16 (is d 13 && is n 13 && imm_in v 0 508 4) [(0x161, 9); immf v 4 7]
  | Sub true d n (Reg m) => r3 0xD m n d
  | Sub false d n (Reg m) => None
  | Svc info => row16 true [(0xDF, 8); (info, 8)]
  | Sxtb d m => dp 0x2C9 m d
  | Sxth d m => dp 0x2C8 m d
  | Tst n m => dp 0x108 m n
  | Udf info => row16 true [(0xDE, 8); (info, 8)]
  | Udfw info => row32 (N.ltb info 65536) [(0xF7F, 12); (info / 2 ^ 12, 4)] [(0xA, 4); (info mod 2 ^ 12, 12)]
  | Uxtb d m => dp 0x2CB m d
  | Uxth d m => dp 0x2CA m d
  | Wfe => row16 true [(0xBF20, 16)]
  | Wfi => row16 true [(0xBF30, 16)]
  | Yield => row16 true [(0xBF10, 16)]
  end.

(* little-endian bytes of the halfwords, first halfword first *)
Definition spec_bytes (hws : list N) : list N := flat_map (fun h => [h mod 256; h / 256]) hws.
