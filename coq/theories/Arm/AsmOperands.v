(* C04: what the operands of an instruction statement ARE and how they may be WRITTEN.  Definitions only (no proofs).

   `operands i addr`   the operand VALUES of the statement for instruction i at address addr, left to right: a register, a
                       special register, a flag name, a register set, a number (PC-relative operands as the absolute target:
                       statement address + 4 (word-aligned first for ADR / literal LDR) + offset), register-or-number,
                       a memory operand (base, register or number offset).
   `reads ev p a`      the argument tree a denotes the operand p for the operand converters when `ev` is the expression
                       evaluator: names through the register tables regl / sysl (any spelling), numbers and addresses
                       through ev (any expression that evaluates to the value).
   `writes lk p a`     the same, syntactically, for the evaluator model of asm::simplify::evaluate under the constant
                       table lk: the documented ways of writing an operand.
   `mnemonic_names i`  the upper-case mnemonics the table accepts for i (BCS/BHS, BCC/BLO, BICS/BIC).
   `kinds t`, `verdict` the operand kinds a template expects and the verdict of its converter on one argument.  *)
From Coq Require Import ZArith NArith List Bool Ascii String.
From Trion Require Import Text.Types Expr.I64 Expr.EvalModel Arm.Instr Arm.DisplayModel Arm.DisplayArgs Arm.AsmStmtModel.
Import ListNotations.
Open Scope N_scope.

(* ---------------------------------------------------------------- operand values *)
Inductive opspec :=
| PReg (r : reg)
| PSys (s : sysreg)
| PFlag (lit : string)           (* the `i` of CPSIE/CPSID, the `SY` of the barriers *)
| PSet (bits : N)
| PImm (v : Z)
| PImmReg (x : immreg)
| PMem (b : reg) (x : immreg).

Definition operands (i : instr) (addr : N) : list opspec :=
  match i with
  | Adc a b | And a b | Bic a b | Cmn a b | Eor a b | Mul a b | Mvn a b | Orr a b | Rev a b | Rev16 a b | Revsh a b
  | Ror a b | Sbc a b | Sxtb a b | Sxth a b | Tst a b | Uxtb a b | Uxth a b => [PReg a; PReg b]
  | Add _ d l x | Sub _ d l x | Asr d l x | Lsl d l x | Lsr d l x => [PReg d; PReg l; PImmReg x]
  | Adr d off => [PReg d; PImm (al_pc addr + Z.of_N off)]
  | B _ off | Bl off => [PImm (Z.of_N addr + 4 + off)]
  | Bkpt n | Svc n | Udf n | Udfw n => [PImm (Z.of_N n)]
  | Blx m | Bx m => [PReg m]
  | Cmp a x | Mov _ a x => [PReg a; PImmReg x]
  | Cps _ => [PFlag "i"]
  | Dmb | Dsb | Isb => [PFlag "SY"]
  | Ldm a l | Stm a l => [PReg a; PSet l]
  | Ldr d PC (Imm off) => [PReg d; PImm (al_pc addr + off)]
  | Ldr d a x | Ldrb d a x | Ldrh d a x | Str d a x | Strb d a x | Strh d a x => [PReg d; PMem a x]
  | Ldrsb d a o | Ldrsh d a o => [PReg d; PMem a (Reg o)]
  | Mrs d s => [PReg d; PSys s]
  | Msr s r => [PSys s; PReg r]
  | Nop | Sev | Wfe | Wfi | Yield => []
  | Pop l | Push l => [PSet l]
  | Rsb d l => [PReg d; PReg l; PImm 0]
  end%Z.

(* LDR Rt, [PC + off] is a second way of stating the literal load *)
Definition operand_forms (i : instr) (addr : N) : list (list opspec) :=
  operands i addr :: match i with Ldr d PC (Imm off) => [[PReg d; PMem PC (Imm off)]] | _ => [] end.

(* ---------------------------------------------------------------- reading an operand (any evaluator) *)
Definition reads (ev : evaluator) (p : opspec) (a : arg) : Prop :=
  match p with
  | PReg r => exists s, a = AIdent s /\ regl s = Some r
  | PSys r => exists s, a = AIdent s /\ sysl s = Some r
  | PFlag lit => exists s, a = AIdent s /\ str_eq_ci s lit = true
  | PSet bits => exists items, a = ASeq items /\ regset_bits items 0 = inl (Some bits)
  | PImm v | PImmReg (Imm v) => ev a = (AConst v, SComplete)
  | PImmReg (Reg r) => exists s, ev a = (AIdent s, SComplete) /\ regl s = Some r
  | PMem b x => exists inner, ev a = (AAddr inner, SComplete) /\ addr_off inner = inl (b, Some x)
  end.

Definition stmt_reads (ev : evaluator) (i : instr) (addr : N) (args : list arg) : Prop :=
  Exists (fun ops => Forall2 (reads ev) ops args) (operand_forms i addr).

(* ---------------------------------------------------------------- writing an operand (the evaluator model) *)
Definition wreg (r : reg) (a : arg) : Prop := exists s, a = AIdent s /\ regl s = Some r.
(* any expression tree that the evaluator reduces to the constant v under the table lk *)
Definition wval (lk : str -> lookup_res) (v : Z) (e : arg) : Prop :=
  exists c, evaluate lk is_register e = Ok (AConst v, Complete c).

(* the set of the listed registers: any order, repetitions allowed *)
Definition mask_of (rs : list reg) : N := fold_right (fun r acc => N.lor (N.shiftl 1 (reg_num r)) acc) 0 rs.

Definition writes (lk : str -> lookup_res) (p : opspec) (a : arg) : Prop :=
  match p with
  | PReg r => wreg r a
  | PSys r => exists s, a = AIdent s /\ sysl s = Some r
  | PFlag lit => exists s, a = AIdent s /\ upper_str s = upper_str (bytes_of_string lit)
  | PSet bits => exists names rs, a = ASeq (map AIdent names) /\ Forall2 (fun s r => regl s = Some r) names rs /\ bits = mask_of rs
  | PImm v | PImmReg (Imm v) => wval lk v a
  | PImmReg (Reg r) => wreg r a
  | PMem b (Reg o) => exists p q, a = AAddr (AAdd p q) /\ wreg b p /\ wreg o q
  | PMem b (Imm v) =>
      (exists p e, a = AAddr (AAdd p e) /\ wreg b p /\ wval lk v e) \/            (* [b + e] *)
      (exists e p, a = AAddr (AAdd e p) /\ wval lk v e /\ wreg b p) \/            (* [e + b] *)
      (v = 0%Z /\ exists p, a = AAddr p /\ wreg b p)                              (* [b]     *)
  end.

Definition written (lk : str -> lookup_res) (i : instr) (addr : N) (args : list arg) : Prop :=
  Forall2 (writes lk) (operands i addr) args.

(* ---------------------------------------------------------------- mnemonics *)
Definition mnemonic_names (i : instr) : list str :=
  mnemonic i :: match i with
                | B CarrySet _ => [$"BHS"] | B CarryClear _ => [$"BLO"] | Bic _ _ => [$"BIC"]
                | _ => []
                end.
Definition mnemonic_spelling (i : instr) (name : str) : Prop := In (upper_str name) (mnemonic_names i).

(* ---------------------------------------------------------------- respelling of the printed arguments (names only) *)
Inductive respelled : arg -> arg -> Prop :=
| RS_same a : respelled a a
| RS_reg s s' r : regl s = Some r -> regl s' = Some r -> respelled (AIdent s) (AIdent s')
| RS_sys s s' r : sysl s = Some r -> sysl s' = Some r -> respelled (AIdent s) (AIdent s')
| RS_flag s s' : upper_str s = upper_str s' -> (upper_str s = $"I" \/ upper_str s = $"SY") ->
    respelled (AIdent s) (AIdent s')          (* the flag operands i / SY in any letter case *)
| RS_add l l' r r' : respelled l l' -> respelled r r' -> respelled (AAdd l r) (AAdd l' r')
| RS_addr a a' : respelled a a' -> respelled (AAddr a) (AAddr a')
| RS_seq l l' : Forall2 respelled l l' -> respelled (ASeq l) (ASeq l').

(* ---------------------------------------------------------------- operand kinds and converter verdicts *)
Inductive okind := KReg | KSys | KName | KSet | KImm | KOff | KImmReg | KAddr | KAddrOff.

Definition kinds (t : instr) : list okind :=
  match t with
  | Adc _ _ | And _ _ | Bic _ _ | Cmn _ _ | Eor _ _ | Mul _ _ | Mvn _ _ | Orr _ _ | Rev _ _ | Rev16 _ _ | Revsh _ _
  | Ror _ _ | Sbc _ _ | Sxtb _ _ | Sxth _ _ | Tst _ _ | Uxtb _ _ | Uxth _ _ => [KReg; KReg]
  | Add _ _ _ _ | Sub _ _ _ _ | Asr _ _ _ | Lsl _ _ _ | Lsr _ _ _ => [KReg; KReg; KImmReg]
  | Adr _ _ => [KReg; KOff]
  | B _ _ | Bl _ | Bkpt _ => [KOff]
  | Svc _ | Udf _ | Udfw _ => [KImm]
  | Blx _ | Bx _ => [KReg]
  | Cmp _ _ | Mov _ _ _ => [KReg; KImmReg]
  | Cps _ | Dmb | Dsb | Isb => [KName]
  | Ldm _ _ | Stm _ _ => [KReg; KSet]
  | Ldr _ _ _ => [KReg; KAddrOff]
  | Ldrb _ _ _ | Ldrh _ _ _ | Str _ _ _ | Strb _ _ _ | Strh _ _ _ | Ldrsb _ _ _ | Ldrsh _ _ _ => [KReg; KAddr]
  | Mrs _ _ => [KReg; KSys]
  | Msr _ _ => [KSys; KReg]
  | Nop | Sev | Wfe | Wfi | Yield => []
  | Pop _ | Push _ => [KSet]
  | Rsb _ _ => [KReg; KReg; KImm]
  end.

(* the kinds whose argument is evaluated first *)
Definition evaluated (k : okind) : bool :=
  match k with KImm | KOff | KImmReg | KAddr | KAddrOff => true | _ => false end.

(* verdict of a converter on the (evaluated, for the evaluated kinds) argument: None = accepted *)
Definition shape_verdict (k : okind) (a : arg) : option asm_diag :=
  match k, a with
  | KReg, AIdent s => match regl s with Some _ => None | None => Some DNoSuchRegister end
  | KSys, AIdent s => match sysl s with Some _ => None | None => Some DNoSuchRegister end
  | KName, AIdent _ => None
  | KSet, ASeq items => match regset_bits items 0 with inl _ => None | inr d => Some d end
  | KImm, AConst v => match i32_of v with Some _ => None | None => Some DValueRange end
  | KOff, AConst v => match u32_of v with Some _ => None | None => Some DValueRange end
  | KImmReg, AConst v => match i32_of v with Some _ => None | None => Some DValueRange end
  | KImmReg, AIdent s => match regl s with Some _ => None | None => Some DNoSuchRegister end
  | KAddr, AAddr inner => match addr_off inner with inl _ => None | inr d => Some d end
  | KAddrOff, AConst v => match u32_of v with Some _ => None | None => Some DValueRange end
  | KAddrOff, AAddr inner => match addr_off inner with inl _ => None | inr d => Some d end
  | _, _ => Some DArgType
  end.

Inductive verdict_t := VAccept | VDiag (d : asm_diag) | VDefer (cause : str).

Definition verdict (ev : evaluator) (local : bool) (k : okind) (a : arg) : verdict_t :=
  let sv a' := match shape_verdict k a' with None => VAccept | Some d => VDiag d end in
  if evaluated k then
    match ev a with
    | (a', SComplete) => sv a'
    | (_, SDeferred c) => VDefer c
    | (_, SNoSuchVar n) => if local then VDefer n else VDiag DEval
    | (_, SEvalError) => VDiag DEval
    end
  else sv a.

(* the checks an instruction makes after its operands are converted (a diagnostic when they fail) *)
Definition conv_diag {A} (c : conv A) : option asm_diag := match c with CDiag d _ => Some d | _ => None end.
