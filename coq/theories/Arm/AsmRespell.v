(* C04: the statement printed for an instruction (DisplayArgs.display_args, C19) with its NAMES respelled
   (AsmOperands.respelled: a register identifier replaced by any spelling of the same register -- letter case, R13/SP,
   R14/LR, R15/PC --, likewise special registers, the CPS flag and the barrier option in any letter case; inside memory
   operands and register lists too) is a documented way of writing that instruction (AsmOperands.written), hence
   assembles to it (AsmImmediates.written_assembles). *)
From Coq Require Import ZArith NArith List Bool Ascii String Lia.
From Trion Require Import Text.Types Expr.I64 Expr.EvalModel
  Arm.Instr Arm.EncodeModel Arm.DisplayModel Arm.DisplayArgs Arm.AsmStmtModel Arm.AsmStmtProofs
  Arm.AsmEvalLink Arm.AsmOperands Arm.AsmRejects Arm.AsmSpelling Arm.AsmImmediates.
Import ListNotations.
Open Scope N_scope.

Lemma reg_not_sys : forall r s', sysl (reg_name r) = Some s' -> False.
Proof. intros r s'. destruct r; vm_compute; discriminate. Qed.
Lemma sys_not_reg s r : regl (sysreg_name s) = Some r -> False.
Proof. destruct s; vm_compute; discriminate. Qed.

Lemma resp_reg r a' : respelled (id_reg r) a' -> wreg r a'.
Proof.
  unfold id_reg. intros H. inversion H; subst.
  - exists (reg_name r). split; [reflexivity | apply regl_reg_name].
  - rewrite regl_reg_name in H1. injection H1 as <-. exists s'. split; [reflexivity | assumption].
  - exfalso. exact (reg_not_sys _ _ H1).
  - exists s'. split; [reflexivity|]. rewrite <- (regl_same_upper _ _ H1). apply regl_reg_name.
Qed.

Lemma resp_sys s a' : respelled (AIdent (sysreg_name s)) a' -> exists s', a' = AIdent s' /\ sysl s' = Some s.
Proof.
  intros H. inversion H; subst.
  - exists (sysreg_name s). split; [reflexivity | apply sysl_sysreg_name].
  - exfalso. exact (sys_not_reg _ _ H1).
  - rewrite sysl_sysreg_name in H1. injection H1 as <-. exists s'. split; [reflexivity | assumption].
  - exists s'. split; [reflexivity|]. rewrite <- (sysl_same_upper _ _ H1). apply sysl_sysreg_name.
Qed.

Lemma resp_flag lit a' : regl (bytes_of_string lit) = None -> sysl (bytes_of_string lit) = None ->
  respelled (AIdent (bytes_of_string lit)) a' -> exists s', a' = AIdent s' /\ upper_str s' = upper_str (bytes_of_string lit).
Proof.
  intros NR NS H. inversion H; subst.
  - eexists. split; reflexivity.
  - congruence.
  - congruence.
  - exists s'. split; [reflexivity | now symmetry].
Qed.

Lemma resp_const v a' : respelled (AConst v) a' -> a' = AConst v.
Proof. intros H. inversion H. reflexivity. Qed.
Lemma resp_num v a' : respelled (num_arg v) a' -> a' = num_arg v.
Proof. destruct v; cbn [num_arg]; intros H; inversion H; reflexivity. Qed.

Lemma resp_label t a' : respelled (label_arg t) a' -> a' = label_arg t.
Proof.
  unfold label_arg. intros H. inversion H; subst.
  - reflexivity.
  - exfalso. match goal with H : regl _ = Some _ |- _ => vm_compute in H; discriminate H end.
  - exfalso. match goal with H : sysl _ = Some _ |- _ => vm_compute in H; discriminate H end.
  - exfalso. match goal with H : _ \/ _ |- _ => destruct H as [E|E] end; apply (f_equal (@List.length N)) in E; vm_compute in E; discriminate.
Qed.

Lemma resp_mem a o a' : respelled (mem_arg a o) a' ->
  exists p o', a' = AAddr (AAdd p o') /\ respelled (id_reg a) p /\ respelled o o'.
Proof.
  unfold mem_arg. intros H. inversion H; subst.
  - eexists. eexists. split; [reflexivity|]. split; apply RS_same.
  - match goal with H1 : respelled (AAdd _ _) _ |- _ => inversion H1; subst end.
    + eexists. eexists. split; [reflexivity|]. split; apply RS_same.
    + eexists. eexists. split; [reflexivity|]. split; assumption.
Qed.

(* ---------------------------------------------------------------- register lists *)
Lemma flat_map_filter (f : reg -> bool) l :
  flat_map (fun r => if f r then [id_reg r] else []) l = map id_reg (filter f l).
Proof. induction l as [|r l IH]; [reflexivity|]. cbn [flat_map filter]. destruct (f r); cbn [app map]; now rewrite IH. Qed.

Lemma mask_filter bits : bits < 65536 -> mask_of (filter (fun r => N.testbit bits (reg_num r)) all_regs) = bits.
Proof.
  intros W. apply N.bits_inj. intros n. rewrite mask_of_spec. apply eq_true_iff_eq. rewrite existsb_exists. split.
  - intros [r [Hin Hr]]. apply filter_In in Hin. destruct Hin as [_ Hf]. apply N.eqb_eq in Hr. now subst n.
  - intros Hb. assert (L : n < 16).
    { destruct (N.lt_ge_cases n 16) as [L|L]; [exact L|]. exfalso.
      destruct (N.eq_dec bits 0) as [->|NZ]; [rewrite N.bits_0 in Hb; discriminate|].
      rewrite N.bits_above_log2 in Hb; [discriminate|].
      apply N.lt_le_trans with 16; [|exact L]. apply N.log2_lt_pow2; [lia | exact W]. }
    assert (C : n = 0 \/ n = 1 \/ n = 2 \/ n = 3 \/ n = 4 \/ n = 5 \/ n = 6 \/ n = 7 \/ n = 8 \/ n = 9 \/ n = 10 \/
                n = 11 \/ n = 12 \/ n = 13 \/ n = 14 \/ n = 15) by lia.
    assert (G : forall r, reg_num r = n -> exists x, In x (filter (fun r => N.testbit bits (reg_num r)) all_regs) /\ (reg_num x =? n) = true).
    { intros r <-. exists r. split; [|apply N.eqb_refl]. apply filter_In. split; [destruct r; cbn; tauto | exact Hb]. }
    repeat (destruct C as [C|C]; [first [apply (G R0 (eq_sym C)) | apply (G R1 (eq_sym C)) | apply (G R2 (eq_sym C)) | apply (G R3 (eq_sym C))
      | apply (G R4 (eq_sym C)) | apply (G R5 (eq_sym C)) | apply (G R6 (eq_sym C)) | apply (G R7 (eq_sym C)) | apply (G R8 (eq_sym C))
      | apply (G R9 (eq_sym C)) | apply (G R10 (eq_sym C)) | apply (G R11 (eq_sym C)) | apply (G R12 (eq_sym C)) | apply (G SP (eq_sym C))
      | apply (G LR (eq_sym C))]|]).
    apply (G PC (eq_sym C)).
Qed.

Lemma resp_items rs l' : Forall2 respelled (map id_reg rs) l' ->
  exists names, l' = map AIdent names /\ Forall2 (fun s r => regl s = Some r) names rs.
Proof.
  revert l'. induction rs as [|r rs IH]; intros l' F; cbn [map] in F; inversion F; subst.
  - exists []. split; [reflexivity | constructor].
  - destruct (IH _ H3) as [names [-> Fn]]. destruct (resp_reg r _ H1) as [s [-> Hs]].
    exists (s :: names). split; [reflexivity | constructor; assumption].
Qed.

Lemma Forall2_respelled_refl l : Forall2 respelled l l.
Proof. induction l; constructor; [apply RS_same | assumption]. Qed.

Lemma resp_regset lk bits a' : bits < 65536 -> respelled (regset_arg bits) a' -> writes lk (PSet bits) a'.
Proof.
  intros W H. unfold regset_arg in H. rewrite flat_map_filter in H.
  assert (F : exists l', a' = ASeq l' /\ Forall2 respelled (map id_reg (filter (fun r => N.testbit bits (reg_num r)) all_regs)) l').
  { inversion H; subst; eexists; (split; [reflexivity|]); [apply Forall2_respelled_refl | assumption]. }
  destruct F as [l' [-> F]]. destruct (resp_items _ _ F) as [names [-> Fn]].
  cbn [writes]. exists names. eexists. split; [reflexivity|]. split; [exact Fn|]. symmetry. now apply mask_filter.
Qed.

(* ---------------------------------------------------------------- numbers and labels as printed *)
Lemma wval_num lk v : wval lk v (num_arg v).
Proof. destruct v as [|p|p]; cbn [num_arg]; try apply wval_const. exists true. reflexivity. Qed.

Section Labels.
Variable lk : str -> lookup_res.
Hypothesis LB : forall t, t < 4294967296 -> lk (label t) = Found (Z.of_N t).

Lemma wval_label z a' : (0 <= z < 4294967296)%Z -> respelled (label_arg (Z.to_N z)) a' -> wval lk z a'.
Proof.
  intros R H. rewrite (resp_label _ _ H). unfold label_arg.
  replace z with (Z.of_N (Z.to_N z)) at 1 by (apply Z2N.id; lia).
  apply wval_symbol; [apply is_register_label | apply LB; lia].
Qed.

Ltac inv_f2 := repeat match goal with
  | H : Forall2 _ (_ :: _) _ |- _ => inversion H; subst; clear H
  | H : Forall2 _ [] _ |- _ => inversion H; subst; clear H
  end.

Ltac wr1 W :=
  cbn [writes];
  match goal with
  | H : respelled (id_reg ?r) ?y |- wreg ?r ?y => exact (resp_reg r y H)
  | H : respelled (AIdent (sysreg_name ?s)) ?y |- _ => exact (resp_sys s y H)
  | H : respelled (num_arg ?v) ?y |- wval _ ?v ?y => rewrite (resp_num v y H); apply wval_num
  | H : respelled (AConst ?v) ?y |- wval _ ?v ?y => rewrite (resp_const v y H); apply wval_const
  | H : respelled (regset_arg ?b) ?y |- _ => exact (resp_regset lk b y W H)
  end.

Theorem display_respelled_written i addr hws args' :
  wf_instr i -> enc i = EncOk hws -> target_in_space i addr = true ->
  Forall2 respelled (display_args i addr) args' -> written lk i addr args'.
Proof.
  intros W E T F. unfold written.
  destruct i; try (destruct rhs as [v|o]); try (destruct shift as [v|o]); try (destruct src as [v|o]);
  try (destruct off as [v|o]; destruct addr0);
  cbn [display_args operands immreg_arg] in *; inv_f2; repeat (constructor; [try (wr1 W)|]); try constructor.
  all: cbn [writes wf_instr] in *.
  all: try (match goal with H : respelled (mem_arg ?a ?o) ?y |- _ =>
         let p := fresh "p" in let o' := fresh "o'" in let E1 := fresh in let R1 := fresh in let R2 := fresh in
         destruct (resp_mem a o y H) as [p [o' [E1 [R1 R2]]]]; subst y end).
  all: try (eexists; eexists; split; [reflexivity|]; split; [apply resp_reg; assumption|];
            match goal with H : respelled (num_arg ?v) ?y |- _ => rewrite (resp_num v y H); apply wval_num end).
  all: try (eexists; eexists; split; [reflexivity|]; split; apply resp_reg; assumption).
  all: try (apply resp_flag; [reflexivity | reflexivity | assumption]).
  - (* Adr *) cbn [target_in_space] in T. apply Z.ltb_lt in T. unfold al_pc.
    match goal with H : respelled (label_arg ?t) _ |- _ =>
      replace t with (Z.to_N (Z.of_N (N.land addr 0xFFFFFFFC) + 4 + Z.of_N off)) in H
        by (unfold align4_pc; rewrite wadd_wadd, u32w_mod, Z.mod_small by lia; reflexivity);
      apply wval_label; [lia | exact H] end.
  - (* B *) cbn [target_in_space] in T. apply andb_prop in T. destruct T as [T1 T2]. apply Z.leb_le in T1. apply Z.ltb_lt in T2.
    match goal with H : respelled (label_arg ?t) _ |- _ =>
      replace t with (Z.to_N (Z.of_N addr + 4 + off)) in H by (rewrite wadd_wadd, u32w_mod, Z.mod_small by lia; reflexivity);
      apply wval_label; [lia | exact H] end.
  - (* Bl *) cbn [target_in_space] in T. apply andb_prop in T. destruct T as [T1 T2]. apply Z.leb_le in T1. apply Z.ltb_lt in T2.
    match goal with H : respelled (label_arg ?t) _ |- _ =>
      replace t with (Z.to_N (Z.of_N addr + 4 + off)) in H by (rewrite wadd_wadd, u32w_mod, Z.mod_small by lia; reflexivity);
      apply wval_label; [lia | exact H] end.
  - (* Ldr literal *) cbn [target_in_space] in T. apply andb_prop in T. destruct T as [T1 T2]. apply Z.leb_le in T1. apply Z.ltb_lt in T2.
    unfold al_pc.
    match goal with H : respelled (label_arg ?t) _ |- _ =>
      replace t with (Z.to_N (Z.of_N (N.land addr 0xFFFFFFFC) + 4 + v)) in H
        by (unfold align4_pc; rewrite wadd_wadd, u32w_mod, Z.mod_small by lia; reflexivity);
      apply wval_label; [lia | exact H] end.
Qed.

(* C04, names: the printed statement with mnemonic and names in any spelling assembles to the instruction *)
Theorem respelled_assembles local i addr hws name args' :
  wf_instr i -> enc i = EncOk hws -> target_in_space i addr = true ->
  mnemonic_spelling i name -> Forall2 respelled (display_args i addr) args' ->
  conv_val (assemble_stmt (ev_of lk) local addr name args') = Some i.
Proof.
  intros W E T M F. apply (written_assembles lk local i addr hws name args' W E T M).
  exact (display_respelled_written i addr hws args' W E T F).
Qed.
End Labels.
