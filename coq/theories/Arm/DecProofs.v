(* C03: the decoder is total and canonical on every byte sequence. *)
From Coq Require Import ZArith NArith List Bool Lia.
From Trion Require Import Base.Sweep Arm.Instr Arm.EncodeModel Arm.DecodeModel Arm.Armv6mSpec Arm.CodecCheck
  Arm.DecSweep Arm.BlDecProofs.
Import ListNotations.
Open Scope N_scope.

Definition bytes_ok (bs : list N) : Prop := Forall (fun b => b < 256) bs.

(* ---------- byte / halfword plumbing (lifted 2^16 sweeps) ---------- *)
Lemma halfword_of_bytes b0 b1 : b0 < 256 -> b1 < 256 ->
  let h := N.lor b0 (N.shiftl b1 8) in h < 65536 /\ le16 h = [b0; b1].
Proof.
  intros H0 H1 h.
  assert (A := allN_spec _ 8 (allN_spec _ 8 sw_bytes b0 H0) b1 H1). cbv beta zeta in A. fold h in A.
  apply andb_prop in A. destruct A as [A A3]. apply andb_prop in A. destruct A as [A1 A2].
  apply N.ltb_lt in A1. apply N.eqb_eq in A2. apply N.eqb_eq in A3.
  split; [exact A1|]. unfold le16. now rewrite A2, A3.
Qed.

(* ---------- first halfwords below 0xE800: `rest` is never read ---------- *)
Lemma dec_h0_short h0 rest : top29 h0 = false -> dec_h0 h0 rest = dec_h0 h0 [].
Proof.
  unfold top29, dec_h0. destruct (N.shiftr h0 11) as [|p]; [trivial|].
  do 5 (try (destruct p as [p|p|]; trivial)); cbn; intros; try discriminate; trivial.
Qed.

Lemma dec_h0_long h0 rest : h0 < 65536 -> top29 h0 = true ->
  dec_h0 h0 rest = match rest with
                   | b2 :: b3 :: _ => dec32 h0 (N.lor b2 (N.shiftl b3 8))
                   | _ => DecErr (Underflow 4 (2 + N.of_nat (length rest)))
                   end.
Proof.
  intros Hh. assert (L : N.shiftr h0 11 < 32).
  { rewrite N.shiftr_div_pow2. apply N.div_lt_upper_bound; [discriminate|]. exact Hh. }
  revert L. unfold top29, dec_h0. destruct (N.shiftr h0 11) as [|p]; [discriminate|].
  do 5 (try (destruct p as [p|p|]; trivial)); cbn; intros; try discriminate; trivial; lia.
Qed.

Lemma expect_len_top h0 : expect_len h0 = if top29 h0 then 4 else 2.
Proof. reflexivity. Qed.

(* a verdict on exactly the needed bytes carries over to any extension of them *)
Lemma canon_of_mono bs bs' h0 r :
  expect_len h0 = N.of_nat (length bs') -> firstn_N (expect_len h0) bs = bs' ->
  N.leb (expect_len h0) (N.of_nat (length bs)) = true ->
  canon_of bs' h0 r = true -> canon_of bs h0 r = true.
Proof.
  intros HL HF HLe C. destruct r as [n i|e|]; cbn [canon_of] in *; [| |discriminate].
  - destruct (N.eqb n (expect_len h0)) eqn:En; [|discriminate]. apply N.eqb_eq in En. subst n.
    assert (X : N.leb (expect_len h0) (N.of_nat (length bs')) = true) by (rewrite HL; apply N.leb_refl).
    assert (Y : firstn_N (expect_len h0) bs' = bs').
    { rewrite HL. unfold firstn_N. rewrite Nat2N.id. apply firstn_all. }
    rewrite HLe, HF. rewrite X, Y in C. exact C.
  - destruct e as [need have| | |]; trivial.
    exfalso. apply andb_prop in C. destruct C as [C C4]. apply andb_prop in C. destruct C as [C C3].
    apply andb_prop in C. destruct C as [C1 C2].
    apply N.eqb_eq in C1, C3. apply N.ltb_lt in C4. lia.
Qed.

Lemma check16_short b0 b1 rest : b0 < 256 -> b1 < 256 ->
  top29 (N.lor b0 (N.shiftl b1 8)) = false -> dec_canonical (b0 :: b1 :: rest) = true.
Proof.
  intros H0 H1 T. destruct (halfword_of_bytes b0 b1 H0 H1) as [Hh Hle]. cbv zeta in *.
  set (h0 := N.lor b0 (N.shiftl b1 8)) in *.
  assert (A := allN_spec _ 16 sw_dec16 h0 Hh). unfold check16 in A. rewrite Hle in A.
  cbn [dec_canonical] in *. fold h0 in A |- *. cbn [dec] in *. fold h0 in A |- *.
  rewrite (dec_h0_short h0 rest T).
  apply (canon_of_mono _ [b0; b1]); [| | |exact A]; rewrite expect_len_top, T; try reflexivity; apply N.leb_le; cbn [length]; lia.
Qed.

(* ---------- 32-bit space ---------- *)
Lemma region_sys h0 h1 : h0 < 65536 -> h1 < 65536 ->
  top29 h0 && cA h0 && (cC0 h0 || cD0 h0 || cE0 h0) = true -> cB h1 && cC1 h1 = true -> check32 h0 h1 = true.
Proof.
  intros H0 H1 S0 S1. assert (A := allN_spec _ 16 sw_dec32_sys h0 H0). cbv beta in A. rewrite S0 in A.
  assert (B := allN_spec _ 16 A h1 H1). cbv beta in B. rewrite S1 in B. exact B.
Qed.
Lemma region_udf h0 h1 : h0 < 65536 -> h1 < 65536 ->
  top29 h0 && cA h0 && cF0 h0 = true -> cB h1 && cF1 h1 = true -> check32 h0 h1 = true.
Proof.
  intros H0 H1 S0 S1. assert (A := allN_spec _ 16 sw_dec32_udf h0 H0). cbv beta in A. rewrite S0 in A.
  assert (B := allN_spec _ 16 A h1 H1). cbv beta in B. rewrite S1 in B. exact B.
Qed.
Lemma region_bl h0 h1 : h0 < 65536 -> h1 < 65536 ->
  top29 h0 && cA h0 = true -> cB h1 && cG1 h1 = true -> check32 h0 h1 = true.
Proof.
  intros H0 H1 S0 S1.
  assert (A := allN_spec _ 16 sw_bl_h0 h0 H0). cbv beta in A. rewrite S0 in A. cbn [implb] in A.
  apply andb_prop in A. destruct A as [A1 A2]. apply N.leb_le in A1. apply N.ltb_lt in A2.
  assert (B := allN_spec _ 16 sw_bl_h1 h1 H1). cbv beta in B. rewrite S1 in B. cbn [implb] in B.
  apply andb_prop in B. destruct B as [B1 B2]. apply N.eqb_eq in B1. apply N.ltb_lt in B2.
  rewrite <- B1. apply sw_decbl_all; [lia | exact B2].
Qed.

Lemma dec32_skel h0 h1 : dec32 h0 h1 =
  if cA h0 && cB h1 then
    if cC0 h0 && cC1 h1 then dec32_msr h0 h1
    else if cD0 h0 && cC1 h1 then dec32_barrier h0 h1
    else if cE0 h0 && cC1 h1 then dec32_mrs h0 h1
    else if cF0 h0 && cF1 h1 then dec32_udfw h0 h1
    else if cG1 h1 then dec32_bl h0 h1
    else DecErr Undefined
  else DecErr Undefined.
Proof. reflexivity. Qed.

Theorem check32_all h0 h1 : h0 < 65536 -> h1 < 65536 -> top29 h0 = true -> check32 h0 h1 = true.
Proof.
  intros H0 H1 T.
  assert (Rs := region_sys h0 h1 H0 H1). assert (Ru := region_udf h0 h1 H0 H1). assert (Rb := region_bl h0 h1 H0 H1).
  assert (Sk := dec32_skel h0 h1). rewrite T in Rs, Ru, Rb. cbn [andb] in Rs, Ru, Rb.
  unfold check32. rewrite Sk. unfold check32 in Rs, Ru, Rb. rewrite Sk in Rs, Ru, Rb. clear Sk.
  destruct (cA h0), (cB h1); cbn [andb] in *; try reflexivity.
  destruct (cC1 h1), (cG1 h1), (cF1 h1), (cC0 h0), (cD0 h0), (cE0 h0), (cF0 h0); cbn [andb orb] in *;
    try reflexivity; try (apply Rs; reflexivity); try (apply Ru; reflexivity); try (apply Rb; reflexivity).
Qed.

Lemma check32_long b0 b1 b2 b3 rest : b0 < 256 -> b1 < 256 -> b2 < 256 -> b3 < 256 ->
  top29 (N.lor b0 (N.shiftl b1 8)) = true -> dec_canonical (b0 :: b1 :: b2 :: b3 :: rest) = true.
Proof.
  intros B0 B1 B2 B3 T.
  destruct (halfword_of_bytes b0 b1 B0 B1) as [Hh0 Hle0]. destruct (halfword_of_bytes b2 b3 B2 B3) as [Hh1 Hle1].
  cbv zeta in *. set (h0 := N.lor b0 (N.shiftl b1 8)) in *. set (h1 := N.lor b2 (N.shiftl b3 8)) in *.
  assert (A := check32_all h0 h1 Hh0 Hh1 T). unfold check32 in A. rewrite Hle0, Hle1 in A. cbn [app] in A.
  cbn [dec_canonical dec]. fold h0. rewrite (dec_h0_long h0 _ Hh0 T). fold h1.
  apply (canon_of_mono _ [b0; b1; b2; b3]); [| | |exact A]; rewrite expect_len_top, T; try reflexivity; apply N.leb_le; cbn [length]; lia.
Qed.

Theorem dec_canonical_all bs : bytes_ok bs -> dec_canonical bs = true.
Proof.
  intros Hb. destruct bs as [|b0 [|b1 rest]]; [reflexivity | reflexivity |].
  inversion Hb as [|? ? B0 Hb1]; subst. inversion Hb1 as [|? ? B1 Hr]; subst.
  destruct (top29 (N.lor b0 (N.shiftl b1 8))) eqn:T; [|apply check16_short; assumption].
  destruct (halfword_of_bytes b0 b1 B0 B1) as [Hh _]. cbv zeta in Hh.
  destruct rest as [|b2 [|b3 rest']].
  - cbn [dec_canonical dec]. rewrite (dec_h0_long _ _ Hh T). cbn. rewrite expect_len_top, T. reflexivity.
  - cbn [dec_canonical dec]. rewrite (dec_h0_long _ _ Hh T). cbn. rewrite expect_len_top, T. reflexivity.
  - inversion Hr as [|? ? B2 Hr1]; subst. inversion Hr1 as [|? ? B3 _]; subst. apply check32_long; assumption.
Qed.

(* ---------- the underflow law ---------- *)
Theorem underflow_ok_all bs : bytes_ok bs -> underflow_ok bs = true.
Proof.
  intros Hb. assert (C := dec_canonical_all bs Hb).
  destruct bs as [|b0 [|b1 rest]]; [reflexivity | reflexivity |].
  cbn [underflow_ok]. cbn [dec_canonical] in C.
  inversion Hb as [|? ? B0 Hb1]; subst. inversion Hb1 as [|? ? B1 Hr]; subst.
  destruct (halfword_of_bytes b0 b1 B0 B1) as [Hh _]. cbv zeta in Hh.
  set (h0 := N.lor b0 (N.shiftl b1 8)) in *.
  assert (D : dec (b0 :: b1 :: rest) = dec_h0 h0 rest) by reflexivity.
  destruct (dec (b0 :: b1 :: rest)) as [n i|e|] eqn:R; cbn [canon_of] in C; [| |discriminate].
  - apply andb_prop in C. destruct C as [C _]. apply andb_prop in C. destruct C as [C1 C2].
    apply N.eqb_eq in C1. subst n. exact C2.
  - destruct e as [need have| | |].
    + apply andb_prop in C. destruct C as [C C4]. apply andb_prop in C. destruct C as [C C3].
      apply andb_prop in C. destruct C as [C1 C2]. rewrite C1, C2, C3, C4. reflexivity.
    + rewrite expect_len_top. destruct (top29 h0) eqn:T; [|apply N.leb_le; cbn [length]; lia].
      rewrite (dec_h0_long h0 rest Hh T) in D. destruct rest as [|b2 [|b3 r]]; try discriminate.
      apply N.leb_le; cbn [length]; lia.
    + rewrite expect_len_top. destruct (top29 h0) eqn:T; [|apply N.leb_le; cbn [length]; lia].
      rewrite (dec_h0_long h0 rest Hh T) in D. destruct rest as [|b2 [|b3 r]]; try discriminate.
      apply N.leb_le; cbn [length]; lia.
    + rewrite expect_len_top. destruct (top29 h0) eqn:T; [|apply N.leb_le; cbn [length]; lia].
      rewrite (dec_h0_long h0 rest Hh T) in D. destruct rest as [|b2 [|b3 r]]; try discriminate.
      apply N.leb_le; cbn [length]; lia.
Qed.

(* ---------- Prop-level consequences ---------- *)
Theorem dec_no_panic bs : bytes_ok bs -> dec bs <> DecPanic.
Proof.
  intros Hb E. assert (C := dec_canonical_all bs Hb).
  destruct bs as [|b0 [|b1 rest]]; cbn [dec_canonical] in C; rewrite E in C; discriminate.
Qed.

Definition first_halfword (bs : list N) : N :=
  match bs with b0 :: b1 :: _ => N.lor b0 (N.shiftl b1 8) | _ => 0 end.

Theorem dec_ok_facts bs n i : bytes_ok bs -> dec bs = DecOk n i ->
  n = expect_len (first_halfword bs) /\ n <= N.of_nat (length bs) /\
  exists hws, enc i = EncOk hws /\ 2 * N.of_nat (length hws) = n /\
              dec (le_bytes hws) = DecOk n i /\
              (le_bytes hws = firstn_N n bs \/ alias_addsub_imm3 (first_halfword bs) = true).
Proof.
  intros Hb E. assert (C := dec_canonical_all bs Hb).
  destruct bs as [|b0 [|b1 rest]]; try (cbn in E; discriminate).
  cbn [dec_canonical] in C. rewrite E in C. cbn [canon_of] in C. cbn [first_halfword].
  set (h0 := N.lor b0 (N.shiftl b1 8)) in *.
  apply andb_prop in C. destruct C as [C C3]. apply andb_prop in C. destruct C as [C1 C2].
  apply N.eqb_eq in C1. apply N.leb_le in C2. split; [exact C1|]. split; [exact C2|].
  destruct (enc i) as [hws|]; [|discriminate]. exists hws. split; [reflexivity|].
  apply andb_prop in C3. destruct C3 as [C3 C6]. apply andb_prop in C3. destruct C3 as [C4 C5].
  apply N.eqb_eq in C4. split; [exact C4|].
  destruct (dec (le_bytes hws)) as [n' j| |]; try discriminate.
  apply andb_prop in C6. destruct C6 as [C6 C7]. apply N.eqb_eq in C6.
  unfold instr_eqb in C7. destruct (instr_eq_dec i j) as [<-|]; [|discriminate]. subst n'.
  split; [reflexivity|].
  apply orb_prop in C5. destruct C5 as [C5|C5]; [left | right; exact C5].
  clear -C5. revert C5. generalize (le_bytes hws) (firstn_N n (b0 :: b1 :: rest)).
  induction l as [|x l IH]; intros [|y l'] H; cbn in H; try discriminate; [reflexivity|].
  apply andb_prop in H. destruct H as [H1 H2]. apply N.eqb_eq in H1. subst. f_equal. apply IH. exact H2.
Qed.

Theorem dec_underflow_iff bs : bytes_ok bs ->
  forall need have, dec bs = DecErr (Underflow need have) ->
    have = N.of_nat (length bs) /\ have < need /\
    ((length bs < 2)%nat /\ need = 2 \/ (2 <= length bs)%nat /\ need = 4 /\ expect_len (first_halfword bs) = 4).
Proof.
  intros Hb need have E. assert (U := underflow_ok_all bs Hb).
  destruct bs as [|b0 [|b1 rest]].
  - cbn in E. inversion E; subst. cbn. split; [reflexivity|]. split; [lia|]. left. split; [lia|reflexivity].
  - cbn in E. inversion E; subst. cbn. split; [reflexivity|]. split; [lia|]. left. split; [lia|reflexivity].
  - cbn [underflow_ok] in U. rewrite E in U. cbn [first_halfword].
    apply andb_prop in U. destruct U as [U U4]. apply andb_prop in U. destruct U as [U U3].
    apply andb_prop in U. destruct U as [U1 U2].
    apply N.eqb_eq in U1, U2, U4. apply N.ltb_lt in U3. subst need.
    split; [exact U2|]. split; [exact U3|]. right. split; [cbn; lia|]. split; [reflexivity | exact U4].
Qed.

Theorem dec_enough_bytes bs : bytes_ok bs -> (2 <= length bs)%nat ->
  expect_len (first_halfword bs) <= N.of_nat (length bs) ->
  forall need have, dec bs <> DecErr (Underflow need have).
Proof.
  intros Hb L2 L need have E.
  destruct (dec_underflow_iff bs Hb need have E) as [H1 [H2 [[H3 _]|[_ [H4 H5]]]]]; [lia|]. lia.
Qed.
