(* Lifting of the text sweeps: C19 down to the printed characters for every non-PC-relative instruction. *)
From Coq Require Import ZArith NArith List Bool Lia.
From Trion Require Import Base.Sweep Text.Types Text.ArgEq Text.Pipeline
  Arm.Instr Arm.EncodeModel Arm.DecodeModel Arm.DisplayModel Arm.DisplayArgs Arm.CodecCheck Arm.DecProofs
  Arm.CodecSweepA Arm.TextSweep.
Import ListNotations.
Open Scope N_scope.

(* the text of an instruction without a PC-relative operand does not depend on the address *)
Lemma display_addr_indep i a : pcrel i = false -> display i a = display i 0 /\ display_args i a = display_args i 0.
Proof.
  unfold pcrel. destruct i; cbn [pc_target]; intros H; try discriminate; try (split; reflexivity).
  destruct addr; try discriminate; try (split; reflexivity); destruct off; try discriminate; split; reflexivity.
Qed.

Lemma text_ok_addr i a : pcrel i = false -> text_ok i a = text_ok i 0.
Proof. intros H. unfold text_ok. destruct (display_addr_indep i a H) as [-> ->]. reflexivity. Qed.

Theorem text_roundtrip16 bs i addr : bytes_ok bs -> dec bs = DecOk 2 i -> pcrel i = false -> text_ok i addr = true.
Proof.
  intros Hb D P. rewrite (text_ok_addr i addr P).
  destruct bs as [|b0 [|b1 rest]]; try (cbn in D; discriminate).
  inversion Hb as [|? ? B0 Hb1]; subst. inversion Hb1 as [|? ? B1 _]; subst.
  destruct (halfword_of_bytes b0 b1 B0 B1) as [Hh Hle]. cbv zeta in *.
  set (h := N.lor b0 (N.shiftl b1 8)) in *.
  assert (A := allN_spec _ 16 sw_text16 h Hh). unfold check_halfword in A.
  change [N.land h 0xFF; N.shiftr h 8] with (le16 h) in A. rewrite Hle in A.
  (* dec (b0 :: b1 :: rest) = DecOk 2 i means the first halfword is a 16-bit one, so rest is not read *)
  assert (T : top29 h = false).
  { destruct (top29 h) eqn:T; [|reflexivity]. exfalso.
    cbn [dec] in D. fold h in D. rewrite (dec_h0_long h rest Hh T) in D.
    destruct rest as [|b2 [|b3 r]]; try discriminate.
    assert (C := dec_canonical_all _ Hb). cbn [dec_canonical dec] in C. fold h in C.
    rewrite (dec_h0_long h _ Hh T), D in C. cbn [canon_of] in C. rewrite expect_len_top, T in C. discriminate. }
  cbn [dec] in D, A. fold h in D, A. rewrite (dec_h0_short h rest T) in D. rewrite D in A.
  rewrite P in A. exact A.
Qed.

Theorem text_roundtrip_sys r s addr : text_ok (Mrs r s) addr = true /\ text_ok (Msr s r) addr = true.
Proof.
  rewrite !text_ok_addr by reflexivity.
  assert (A := sysregs_spec _ (R1_spec _ sw_text_sys r) s). cbv beta in A. apply andb_prop in A. exact A.
Qed.

Theorem text_roundtrip_barriers addr : text_ok Dmb addr = true /\ text_ok Dsb addr = true /\ text_ok Isb addr = true.
Proof.
  rewrite !text_ok_addr by reflexivity. assert (A := sw_text_barriers).
  apply andb_prop in A. destruct A as [A A3]. apply andb_prop in A. tauto.
Qed.

Theorem text_roundtrip_udfw n addr : n < 65536 -> text_ok (Udfw n) addr = true.
Proof. intros H. rewrite text_ok_addr by reflexivity. exact (allN_spec _ 16 sw_text_udfw n H). Qed.

(* what text_ok says, as a Prop *)
Lemma text_ok_spec i addr : text_ok i addr = true ->
  stmt_of_text (display i addr) = Some (mnemonic i, display_args i addr).
Proof.
  unfold text_ok. destruct (stmt_of_text (display i addr)) as [[n a]|]; [|discriminate].
  intros H. apply andb_prop in H. destruct H as [H1 H2].
  apply strN_eqb_eq in H1. apply args_eqb_eq in H2. now subst.
Qed.
