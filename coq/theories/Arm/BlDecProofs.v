(* The BL region of C03 without 2^24-point sweeps: every first halfword 11110 S imm10 with every second
   halfword 11 J1 1 J2 imm11 decodes to a BL whose re-encoding is exactly the input and decodes back.

   The pair (h0, J1:J2) determines the high part of the offset, imm11 the low part; the decoder and
   encoder slices of BlEncProofs reduce the statement to three independent kernel sweeps: the index
   arithmetic of `bl_h1` (2^13), the 2^11 x 4 high parts and the 2^11 low parts. *)
From Coq Require Import ZArith NArith List Bool Lia ZifyBool ZifyNat ZifyN.
From Trion Require Import Base.Sweep Arm.Instr Arm.EncodeModel Arm.DecodeModel Arm.Armv6mSpec Arm.CodecCheck
  Arm.BlEncProofs.
Import ListNotations.
Ltac Zify.zify_post_hook ::= Z.div_mod_to_equations.
Local Open Scope N_scope.

(* high part of the second halfword: 11 J1 1 J2 0...0, j = J1:J2 *)
Definition bl_aD (j : N) : N := 0xD000 |. (N.shiftl (N.shiftr j 1) 13 |. N.shiftl (N.land j 1) 11).

Lemma sw_decbl_t : allN (fun t =>
    N.eqb (bl_h1 t) (bl_aD (N.shiftr t 11) |. N.land t 0x7FF)
    && N.ltb (N.shiftr t 11) 4 && N.ltb (N.land t 0x7FF) 2048) 13 = true.
Proof. vm_compute. reflexivity. Qed.

Lemma sw_decbl_hi : allN (fun j => allN (fun k =>
    N.eqb (N.shiftr (0xF000 + k) 11) 30
    && bl_sel (0xF000 + k) (bl_aD j)
    && N.eqb (N.land (bl_aD j) 0x7FF) 0
    && Z.eqb (Z.land (bl_dE (0xF000 + k)) 0xFFF) 0
    && Z.eqb (Z.land (bl_dH (0xF000 + k) (bl_aD j)) 0xFFF) 0
    && Z.leb (-16777216) (bl_dH (0xF000 + k) (bl_aD j)) && Z.ltb (bl_dH (0xF000 + k) (bl_aD j)) 16777216
    && N.eqb (bl_eh0 (sar (bl_dH (0xF000 + k) (bl_aD j)) 12)) (0xF000 + k)
    && N.eqb (bl_eh1a (sar (bl_dH (0xF000 + k) (bl_aD j)) 12)) (bl_aD j)) 11) 2 = true.
Proof. vm_compute. reflexivity. Qed.

Lemma sw_decbl_lo : allN (fun b =>
    Z.eqb (bl_dL b) (2 * zof b) && N.eqb (bl_eh1b (bl_dL b)) b) 11 = true.
Proof. vm_compute. reflexivity. Qed.

Lemma sw_decbl_all h0 t : 0xF000 <= h0 < 0xF800 -> t < 8192 -> check32 h0 (bl_h1 t) = true.
Proof.
  intros Hh Ht.
  assert (T := allN_spec _ 13 sw_decbl_t t Ht). cbv beta in T.
  apply andb_prop in T; destruct T as [T T3]. apply andb_prop in T; destruct T as [T1 T2].
  apply N.eqb_eq in T1. apply N.ltb_lt in T2, T3. rewrite T1.
  set (j := N.shiftr t 11) in *. set (b := N.land t 0x7FF) in *. set (a := bl_aD j).
  assert (A := allN_spec _ 11 (allN_spec _ 2 sw_decbl_hi j T2) (h0 - 0xF000)). cbv beta in A.
  replace (0xF000 + (h0 - 0xF000)) with h0 in A by lia. fold a in A.
  specialize (A ltac:(change (2 ^ N.of_nat 11) with 2048; lia)).
  apply andb_prop in A; destruct A as [A A9]. apply andb_prop in A; destruct A as [A A8].
  apply andb_prop in A; destruct A as [A A7]. apply andb_prop in A; destruct A as [A A6].
  apply andb_prop in A; destruct A as [A A5]. apply andb_prop in A; destruct A as [A A4].
  apply andb_prop in A; destruct A as [A A3]. apply andb_prop in A; destruct A as [A1 A2].
  apply N.eqb_eq in A1, A3, A8, A9. apply Z.eqb_eq in A4, A5. apply Z.leb_le in A6. apply Z.ltb_lt in A7.
  assert (B := allN_spec _ 11 sw_decbl_lo b T3). cbv beta in B.
  apply andb_prop in B; destruct B as [B1 B2]. apply Z.eqb_eq in B1. apply N.eqb_eq in B2.
  set (H := bl_dH h0 a) in *.
  assert (Hm : H = (H / 4096 * 4096)%Z).
  { change 0xFFF%Z with (Z.ones 12) in A5. rewrite Z.land_ones in A5 by lia. change (2 ^ 12)%Z with 4096%Z in A5. lia. }
  assert (Lb : (0 <= bl_dL b < 4096)%Z) by (rewrite B1; unfold zof; lia).
  assert (Lk : Z.land (bl_dL b) 0xFFF = bl_dL b).
  { change 0xFFF%Z with (Z.ones 12). rewrite Z.land_ones by lia. apply Z.mod_small. exact Lb. }
  set (v := (H / 4096 * 4096 + bl_dL b)%Z).
  assert (Dv : dec32 h0 (a |. b) = DecOk 4 (Bl v)).
  { rewrite (dec32_sel_bl _ _ _ A2 T3), (dec32_bl_split _ _ _ A3 T3), (dec_off_split _ _ _ Lk A4).
    fold H. rewrite Hm at 1. rewrite (lor_add_low _ _ Lb). reflexivity. }
  assert (Hv : (-16777216 <= v < 16777216)%Z) by (unfold v; lia).
  assert (Ev : Z.even v = true).
  { apply Z.even_spec. exists (H / 4096 * 2048 + zof b)%Z. unfold v. lia. }
  assert (Ee : enc (Bl v) = EncOk [h0; a |. b]).
  { rewrite (enc_bl_split v Hv Ev).
    replace (v / 4096)%Z with (sar H 12).
    2:{ unfold sar. rewrite Z.shiftr_div_pow2 by lia. change (2 ^ 12)%Z with 4096%Z. unfold v. lia. }
    replace (v mod 4096)%Z with (bl_dL b) by (unfold v; lia).
    rewrite A8, A9, B2. reflexivity. }
  assert (Dd : dec (le_bytes [h0; a |. b]) = DecOk 4 (Bl v)).
  { rewrite (dec_bl_bytes _ _ _ A1 A2 A3 T3), (dec_off_split _ _ _ Lk A4).
    fold H. rewrite Hm at 1. rewrite (lor_add_low _ _ Lb). reflexivity. }
  unfold check32. rewrite Dv. unfold canon_of. rewrite Ee, Dd.
  unfold expect_len. rewrite A1. rewrite instr_eqb_refl.
  unfold le_bytes, firstn_N, le16. cbn [flat_map app length].
  change (N.to_nat 4) with 4%nat. cbn [firstn listN_eqb]. rewrite !N.eqb_refl. reflexivity.
Qed.

Ltac Zify.zify_post_hook ::= idtac.
