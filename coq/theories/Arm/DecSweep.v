(* Kernel sweeps on the decoder side: every first halfword, every 32-bit pattern of the
   MSR/MRS/barrier space and of the UDF.W space, and the index arithmetic used to lift them. *)
From Coq Require Import ZArith NArith List Bool.
From Trion Require Import Base.Sweep Arm.Instr Arm.EncodeModel Arm.DecodeModel Arm.Armv6mSpec Arm.CodecCheck.
Open Scope N_scope.

(* all 2^16 first halfwords as 2-byte inputs *)
Lemma sw_dec16 : allN check16 16 = true.
Proof. vm_compute. reflexivity. Qed.

(* le16 / halfword reassembly for every halfword, and for every byte pair *)
Lemma sw_le16 : allN (fun h => N.eqb (N.lor (N.land h 0xFF) (N.shiftl (N.shiftr h 8) 8)) h
                              && N.ltb (N.land h 0xFF) 256 && N.ltb (N.shiftr h 8) 256) 16 = true.
Proof. vm_compute. reflexivity. Qed.
Lemma sw_bytes : allN (fun b0 => allN (fun b1 =>
    let h := N.lor b0 (N.shiftl b1 8) in N.ltb h 65536 && N.eqb (N.land h 0xFF) b0 && N.eqb (N.shiftr h 8) b1) 8) 8 = true.
Proof. vm_compute. reflexivity. Qed.

(* MSR / barriers / MRS: first halfword selected by the decoder's own tests, second by B and C1 *)
Lemma sw_dec32_sys :
  allN (fun h0 => if top29 h0 && cA h0 && (cC0 h0 || cD0 h0 || cE0 h0)
                  then allN (fun h1 => if cB h1 && cC1 h1 then check32 h0 h1 else true) 16 else true) 16 = true.
Proof. vm_compute. reflexivity. Qed.

Lemma sw_dec32_udf :
  allN (fun h0 => if top29 h0 && cA h0 && cF0 h0
                  then allN (fun h1 => if cB h1 && cF1 h1 then check32 h0 h1 else true) 16 else true) 16 = true.
Proof. vm_compute. reflexivity. Qed.

(* BL index arithmetic *)
Lemma sw_bl_h0 : allN (fun h0 => implb (top29 h0 && cA h0) (N.leb 0xF000 h0 && N.ltb h0 0xF800)) 16 = true.
Proof. vm_compute. reflexivity. Qed.
Lemma sw_bl_h1 : allN (fun h1 => implb (cB h1 && cG1 h1) (N.eqb (bl_h1 (bl_t h1)) h1 && N.ltb (bl_t h1) 8192)) 16 = true.
Proof. vm_compute. reflexivity. Qed.
