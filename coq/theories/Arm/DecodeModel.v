(* Model of Instruction::decode (src/arm6m/asm.rs): the same `match instr0 >> 11` tree, every
   Register/Condition::try_from(..).unwrap() and unreachable!() as a possible DecPanic. No proofs here. *)
From Coq Require Import ZArith NArith List Bool.
From Trion Require Import Arm.Instr.
Import ListNotations.
Open Scope N_scope.

Inductive dec_error := Underflow (need have : N) | Undefined | Unpredictable | Reserved.
Inductive dec_result := DecOk (len : N) (i : instr) | DecErr (e : dec_error) | DecPanic.

(* (h >> k) & m *)
Definition fld (h k m : N) : N := N.land (N.shiftr h k) m.

Definition with_reg (n : N) (k : reg -> dec_result) : dec_result :=
  match reg_of_num n with Some r => k r | None => DecPanic end.
Notation "'let*' r ':=' n 'in' k" := (with_reg n (fun r => k)) (at level 200, r name, right associativity).

(* i32 arithmetic used for sign extension *)
Definition i32_wrap (z : Z) : Z := (Z.land (z + 2147483648) 0xFFFFFFFF - 2147483648)%Z.
Definition shl32 (z : Z) (k : Z) : Z := i32_wrap (Z.shiftl z k).
Definition sar32 (z : Z) (k : Z) : Z := Z.shiftr z k.
Definition zof (n : N) : Z := Z.of_N n.

Definition ok2 (i : instr) : dec_result := DecOk 2 i.
Definition ok4 (i : instr) : dec_result := DecOk 4 i.

(* the five 32-bit leaves of the decoder, in the order of its if-chain *)
Definition dec32_msr (h0 h1 : N) : dec_result :=
  if negb (N.eqb (fld h0 4 1) 0) || negb (N.eqb (fld h1 8 47) 8) then DecErr Unpredictable
  else
    let* r := fld h0 0 15 in
    if reg_eqb r SP || reg_eqb r PC then DecErr Unpredictable
    else match sysreg_of_num (fld h1 0 255) with
         | Some sys => ok4 (Msr sys r)
         | None => DecErr Unpredictable
         end.

Definition dec32_barrier (h0 h1 : N) : dec_result :=
  let barrier (i : instr) :=
    if negb (N.eqb (fld h0 0 15) 15) || negb (N.eqb (fld h1 8 47) 15) then DecErr Unpredictable
    else if negb (N.eqb (fld h1 0 15) 15) then DecErr Reserved
    else ok4 i in
  match fld h1 4 15 with
  | 0 | 1 | 2 | 3 => DecErr Undefined
  | 4 => barrier Dsb
  | 5 => barrier Dmb
  | 6 => barrier Isb
  | 7 | 8 | 9 | 10 | 11 | 12 | 13 | 14 | 15 => DecErr Undefined
  | _ => DecPanic
  end.

Definition dec32_mrs (h0 h1 : N) : dec_result :=
  if negb (N.eqb (fld h0 0 31) 15) || negb (N.eqb (fld h1 13 1) 0) then DecErr Unpredictable
  else
    let* r := fld h1 8 15 in
    if reg_eqb r SP || reg_eqb r PC then DecErr Unpredictable
    else match sysreg_of_num (fld h1 0 255) with
         | Some sys => ok4 (Mrs r sys)
         | None => DecErr Unpredictable
         end.

Definition dec32_udfw (h0 h1 : N) : dec_result :=
  ok4 (Udfw (N.lor (N.land (N.land (N.shiftl h0 12) 0xFFFF) 0xF000) (fld h1 0 0xFFF))).

Definition dec32_bl (h0 h1 : N) : dec_result :=
  let off0 := shl32 (zof (fld h1 0 0x7FF)) 1 in
  let off1 := Z.lor off0 (shl32 (zof (fld h0 0 0x3FF)) 12) in
  (* (!(instr1 >> 11) & 1): the complement of bit 11 *)
  let nb11 := N.land (N.lxor (N.shiftr h1 11) 0xFFFF) 1 in
  let nb13 := N.land (N.lxor (N.shiftr h1 13) 0xFFFF) 1 in
  let off2 := Z.lor off1 (shl32 (zof nb11) 22) in
  let off3 := Z.lor off2 (shl32 (zof nb13) 23) in
  let off4 := Z.lxor off3 (sar32 (shl32 (zof (fld h0 10 1)) 31) 9) in
  ok4 (Bl off4).

Definition dec32 (h0 h1 : N) : dec_result :=
  if N.eqb (fld h0 11 3) 2 && N.eqb (fld h1 15 1) 1 then
    if N.eqb (fld h0 5 63) 28 && N.eqb (fld h1 12 5) 0 then dec32_msr h0 h1
    else if N.eqb (fld h0 4 127) 59 && N.eqb (fld h1 12 5) 0 then dec32_barrier h0 h1
    else if N.eqb (fld h0 5 63) 31 && N.eqb (fld h1 12 5) 0 then dec32_mrs h0 h1
    else if N.eqb (fld h0 4 127) 127 && N.eqb (fld h1 12 7) 2 then dec32_udfw h0 h1
    else if N.eqb (fld h1 12 5) 5 then dec32_bl h0 h1
    else DecErr Undefined
  else DecErr Undefined.

(* h0 is the first halfword; `rest` the bytes after it *)
Definition dec_h0 (h0 : N) (rest : list N) : dec_result :=
  match N.shiftr h0 11 with
  | 0 =>
      if N.eqb (fld h0 6 31) 0 then
        let* d := fld h0 0 7 in let* m := fld h0 3 7 in ok2 (Mov true d (Reg m))
      else
        let* d := fld h0 0 7 in let* m := fld h0 3 7 in ok2 (Lsl d m (Imm (zof (fld h0 6 31))))
  | 1 =>
      let shift := fld h0 6 31 in
      let shift := if N.eqb shift 0 then 32 else shift in
      let* d := fld h0 0 7 in let* m := fld h0 3 7 in ok2 (Lsr d m (Imm (zof shift)))
  | 2 =>
      let shift := fld h0 6 31 in
      let shift := if N.eqb shift 0 then 32 else shift in
      let* d := fld h0 0 7 in let* m := fld h0 3 7 in ok2 (Asr d m (Imm (zof shift)))
  | 3 =>
      let* d := fld h0 0 7 in
      let* l := fld h0 3 7 in
      let k (rhs : immreg) := ok2 (if N.eqb (fld h0 9 1) 0 then Add true d l rhs else Sub true d l rhs) in
      if N.eqb (fld h0 10 1) 0 then (let* m := fld h0 6 7 in k (Reg m)) else k (Imm (zof (fld h0 6 7)))
  | 4 => let* d := fld h0 8 7 in ok2 (Mov true d (Imm (zof (fld h0 0 255))))
  | 5 => let* d := fld h0 8 7 in ok2 (Cmp d (Imm (zof (fld h0 0 255))))
  | 6 => let* d := fld h0 8 7 in ok2 (Add true d d (Imm (zof (fld h0 0 255))))
  | 7 => let* d := fld h0 8 7 in ok2 (Sub true d d (Imm (zof (fld h0 0 255))))
  | 8 =>
      if N.eqb (fld h0 10 1) 0 then
        let* r0 := fld h0 0 7 in
        let* r1 := fld h0 3 7 in
        match fld h0 6 15 with
        | 0 => ok2 (And r0 r1)
        | 1 => ok2 (Eor r0 r1)
        | 2 => ok2 (Lsl r0 r0 (Reg r1))
        | 3 => ok2 (Lsr r0 r0 (Reg r1))
        | 4 => ok2 (Asr r0 r0 (Reg r1))
        | 5 => ok2 (Adc r0 r1)
        | 6 => ok2 (Sbc r0 r1)
        | 7 => ok2 (Ror r0 r1)
        | 8 => ok2 (Tst r0 r1)
        | 9 => ok2 (Rsb r0 r1)
        | 10 => ok2 (Cmp r0 (Reg r1))
        | 11 => ok2 (Cmn r0 r1)
        | 12 => ok2 (Orr r0 r1)
        | 13 => ok2 (Mul r0 r1)
        | 14 => ok2 (Bic r0 r1)
        | 15 => ok2 (Mvn r0 r1)
        | _ => DecPanic
        end
      else
        match fld h0 8 3 with
        | 0 =>
            let* d := N.lor (fld h0 0 7) (fld h0 4 8) in
            let* m := fld h0 3 15 in
            (* repaired: only Rdn = Rm = PC is UNPREDICTABLE *)
            if reg_eqb d PC && reg_eqb m PC then DecErr Unpredictable
            else ok2 (Add false d d (Reg m))
        | 1 =>
            let* l := N.lor (fld h0 0 7) (fld h0 4 8) in
            let* m := fld h0 3 15 in
            if negb (reg_ge8 l) && negb (reg_ge8 m) then DecErr Unpredictable
            else if reg_eqb l PC || reg_eqb m PC then DecErr Unpredictable
            else ok2 (Cmp l (Reg m))
        | 2 =>
            let* d := N.lor (fld h0 0 7) (fld h0 4 8) in
            let* m := fld h0 3 15 in
            ok2 (Mov false d (Reg m))
        | 3 =>
            if negb (N.eqb (fld h0 0 7) 0) then DecErr Unpredictable
            else
              let* m := fld h0 3 15 in
              if reg_eqb m PC then DecErr Unpredictable
              else ok2 (if N.eqb (fld h0 7 1) 0 then Bx m else Blx m)
        | _ => DecPanic
        end
  | 9 => let* d := fld h0 8 7 in ok2 (Ldr d PC (Imm (shl32 (zof (fld h0 0 255)) 2)))
  | 10 | 11 =>
      let* r := fld h0 0 7 in
      let* a := fld h0 3 7 in
      let* o := fld h0 6 7 in
      match fld h0 9 7 with
      | 0 => ok2 (Str r a (Reg o))
      | 1 => ok2 (Strh r a (Reg o))
      | 2 => ok2 (Strb r a (Reg o))
      | 3 => ok2 (Ldrsb r a o)
      | 4 => ok2 (Ldr r a (Reg o))
      | 5 => ok2 (Ldrh r a (Reg o))
      | 6 => ok2 (Ldrb r a (Reg o))
      | 7 => ok2 (Ldrsh r a o)
      | _ => DecPanic
      end
  | 12 | 13 =>
      let* r := fld h0 0 7 in
      let* a := fld h0 3 7 in
      let off := Imm (shl32 (zof (fld h0 6 31)) 2) in
      ok2 (if N.eqb (fld h0 11 1) 0 then Str r a off else Ldr r a off)
  | 14 | 15 =>
      let* r := fld h0 0 7 in
      let* a := fld h0 3 7 in
      let off := Imm (zof (fld h0 6 31)) in
      ok2 (if N.eqb (fld h0 11 1) 0 then Strb r a off else Ldrb r a off)
  | 16 | 17 =>
      let* r := fld h0 0 7 in
      let* a := fld h0 3 7 in
      let off := Imm (shl32 (zof (fld h0 6 31)) 1) in
      ok2 (if N.eqb (fld h0 11 1) 0 then Strh r a off else Ldrh r a off)
  | 18 | 19 =>
      let* r := fld h0 8 7 in
      let off := Imm (shl32 (zof (fld h0 0 255)) 2) in
      ok2 (if N.eqb (fld h0 11 1) 0 then Str r SP off else Ldr r SP off)
  | 20 => let* d := fld h0 8 7 in ok2 (Adr d (N.land (N.shiftl (fld h0 0 255) 2) 0xFFFF))
  | 21 => let* d := fld h0 8 7 in ok2 (Add false d SP (Imm (shl32 (zof (fld h0 0 255)) 2)))
  | 22 =>
      match fld h0 8 7 with
      | 0 =>
          let rhs := Imm (shl32 (zof (fld h0 0 127)) 2) in
          ok2 (if N.eqb (fld h0 7 1) 0 then Add false SP SP rhs else Sub false SP SP rhs)
      | 1 => DecErr Undefined
      | 2 =>
          let* d := fld h0 0 7 in
          let* v := fld h0 3 7 in
          ok2 (if N.eqb (fld h0 7 1) 0
               then (if N.eqb (fld h0 6 1) 0 then Sxth d v else Sxtb d v)
               else (if N.eqb (fld h0 6 1) 0 then Uxth d v else Uxtb d v))
      | 3 => DecErr Undefined
      | 4 | 5 =>
          let regs := fld h0 0 255 in
          let regs := if negb (N.eqb (fld h0 8 1) 0) then N.lor regs 0x4000 else regs in
          if N.eqb regs 0 then DecErr Unpredictable else ok2 (Push regs)
      | 6 =>
          if N.eqb (fld h0 5 7) 3 then
            if negb (N.eqb (fld h0 0 15) 2) then DecErr Unpredictable
            else ok2 (Cps (N.eqb (fld h0 4 1) 0))   (* repaired: im = 0 enables *)
          else DecErr Undefined
      | 7 => DecErr Undefined
      | _ => DecPanic
      end
  | 23 =>
      match fld h0 8 7 with
      | 0 | 1 => DecErr Undefined
      | 2 =>
          let* d := fld h0 0 7 in
          let* v := fld h0 3 7 in
          match fld h0 6 3 with
          | 0 => ok2 (Rev d v)
          | 1 => ok2 (Rev16 d v)
          | 2 => DecErr Undefined
          | 3 => ok2 (Revsh d v)
          | _ => DecPanic
          end
      | 3 => DecErr Undefined
      | 4 | 5 =>
          let regs := fld h0 0 255 in
          let regs := if negb (N.eqb (fld h0 8 1) 0) then N.lor regs 0x8000 else regs in
          if N.eqb regs 0 then DecErr Unpredictable else ok2 (Pop regs)
      | 6 => ok2 (Bkpt (fld h0 0 255))
      | 7 =>
          if N.eqb (fld h0 0 15) 0 then
            match fld h0 4 15 with
            | 0 => ok2 Nop
            | 1 => ok2 Yield
            | 2 => ok2 Wfe
            | 3 => ok2 Wfi
            | 4 => ok2 Sev
            | 5 | 6 | 7 | 8 | 9 | 10 | 11 | 12 | 13 | 14 | 15 => DecErr Reserved
            | _ => DecPanic
            end
          else DecErr Undefined
      | _ => DecPanic
      end
  | 24 | 25 =>
      let regs := fld h0 0 255 in
      let* a := fld h0 8 7 in
      ok2 (if N.eqb (fld h0 11 1) 0 then Stm a regs else Ldm a regs)
  | 26 | 27 =>
      match fld h0 8 15 with
      | 14 => ok2 (Udf (fld h0 0 255))
      | 15 => ok2 (Svc (fld h0 0 255))
      | c =>
          match cond_of_num c with
          | Some cc => ok2 (B cc (sar32 (shl32 (zof (fld h0 0 255)) 24) 23))
          | None => DecPanic
          end
      end
  | 28 => ok2 (B Always (sar32 (shl32 (zof (fld h0 0 0x7FF)) 21) 20))
  | 29 | 30 | 31 =>
      match rest with
      | b2 :: b3 :: _ => dec32 h0 (N.lor b2 (N.shiftl b3 8))
      | _ => DecErr (Underflow 4 (2 + N.of_nat (length rest)))
      end
  | _ => DecPanic
  end.

Definition dec (src : list N) : dec_result :=
  match src with
  | b0 :: b1 :: rest => dec_h0 (N.lor b0 (N.shiftl b1 8)) rest
  | _ => DecErr (Underflow 2 (N.of_nat (length src)))
  end.
