(* BL (32-bit branch with link) without 2^24-point sweeps: C01/C02 for every even offset in the window.

   An offset v in [-2^24, 2^24) is v = hi * 4096 + lo with hi = v / 4096 in [-4096, 4096) (S, I1, I2, imm10)
   and lo = v mod 4096 (imm11:0).  The encoder's halfwords are `bl_eh0 hi` and `bl_eh1a hi |. bl_eh1b lo`, the
   table row decomposes the same way (`spec_bl_split`, `row32_bl_tail`), and the decoder's BL leaf on a second
   halfword `a |. b` (b its low 11 bits) yields `Z.lor (bl_dL b) (bl_dH h0 a)` (`dec_bl_bytes`, `dec_off_split`).
   What remains are equalities between these small functions, checked by two independent kernel
   sweeps: 2^13 high parts (`sw_bl_hi`) and 2^11 low parts (`sw_bl_lo`). *)
From Coq Require Import ZArith NArith List Bool Lia ZifyBool ZifyNat ZifyN.
From Trion Require Import Base.Sweep Arm.Instr Arm.EncodeModel Arm.DecodeModel Arm.Armv6mSpec Arm.CodecCheck.
Import ListNotations.
Ltac Zify.zify_post_hook ::= Z.div_mod_to_equations.

(* ---------- generic bit lemmas ---------- *)
Local Open Scope Z_scope.

Lemma lxor_lor_low L M E K :
  Z.land L K = L -> Z.land E K = 0 -> Z.lxor (Z.lor L M) E = Z.lor L (Z.lxor M E).
Proof.
  intros HL HE. apply Z.bits_inj'. intros n Hn.
  rewrite Z.lxor_spec, !Z.lor_spec, Z.lxor_spec.
  assert (A : Z.testbit L n = Z.testbit L n && Z.testbit K n) by (rewrite <- Z.land_spec, HL; reflexivity).
  assert (B : Z.testbit E n && Z.testbit K n = false) by (rewrite <- Z.land_spec, HE; apply Z.bits_0).
  destruct (Z.testbit L n), (Z.testbit M n), (Z.testbit E n), (Z.testbit K n); cbn in *; congruence.
Qed.

Lemma lor_add_low lo m : 0 <= lo < 4096 -> Z.lor lo (m * 4096) = m * 4096 + lo.
Proof.
  intros H.
  assert (D : Z.land lo (m * 4096) = 0).
  { apply Z.bits_inj'. intros n Hn. rewrite Z.land_spec, Z.bits_0.
    change 4096 with (2 ^ 12). rewrite <- Z.shiftl_mul_pow2 by lia.
    destruct (Z_lt_dec n 12) as [L|L].
    - rewrite (Z.shiftl_spec_low m 12 n L). apply andb_false_r.
    - replace (Z.testbit lo n) with false; [reflexivity|].
      symmetry. destruct (Z.eq_dec lo 0) as [->|Nz]; [apply Z.bits_0|].
      apply Z.bits_above_log2; [lia|].
      apply Z.lt_le_trans with 12; [|lia]. apply Z.log2_lt_pow2; lia. }
  rewrite <- (Z.lxor_lor _ _ D), <- (Z.add_nocarry_lxor _ _ D). ring.
Qed.

Local Open Scope N_scope.

Lemma N_lor_add_low a b : N.land a 0x7FF = 0 -> b < 2048 -> N.lor a b = a + b.
Proof.
  intros Ha Hb.
  assert (D : N.land a b = 0).
  { replace b with (N.land 0x7FF b).
    - rewrite N.land_assoc, Ha. apply N.land_0_l.
    - rewrite N.land_comm. change 0x7FF with (N.ones 11). rewrite N.land_ones. apply N.mod_small. exact Hb. }
  rewrite <- (N.lxor_lor _ _ D), <- (N.add_nocarry_lxor _ _ D). reflexivity.
Qed.

Lemma shiftr_small b k : b < 2048 -> 11 <= k -> N.shiftr b k = 0.
Proof.
  intros Hb Hk. rewrite N.shiftr_div_pow2. apply N.div_small.
  apply N.lt_le_trans with (2 ^ 11); [exact Hb|]. apply N.pow_le_mono_r; [discriminate|exact Hk].
Qed.

Lemma fld_lor_hi a b k m : b < 2048 -> 11 <= k -> fld (N.lor a b) k m = fld a k m.
Proof. intros Hb Hk. unfold fld. now rewrite N.shiftr_lor, (shiftr_small b k Hb Hk), N.lor_0_r. Qed.

Lemma land_lor_low a b : N.land a 0x7FF = 0 -> b < 2048 -> N.land (N.lor a b) 0x7FF = b.
Proof.
  intros Ha Hb. rewrite N.land_lor_distr_l, Ha, N.lor_0_l.
  change 0x7FF with (N.ones 11). rewrite N.land_ones. apply N.mod_small. exact Hb.
Qed.

Lemma le16_join h : N.lor (N.land h 0xFF) (N.shiftl (N.shiftr h 8) 8) = h.
Proof.
  rewrite N.lor_comm. change 0xFF with (N.ones 8).
  rewrite <- N.ldiff_ones_r. apply N.lor_ldiff_and.
Qed.

(* ---------- the encoder's two halfwords, sliced ---------- *)
Definition bl_sii (hi : Z) : N :=
  N.lxor (N.lxor (N.land (u16z (sar hi 10)) 3) (N.land (u16z (sar hi 19)) 7)) 3.
Definition bl_eh0 (hi : Z) : N := 0xF000 |. shl (N.land (bl_sii hi) 4) 8 |. N.land (u16z hi) 0x3FF.
Definition bl_eh1a (hi : Z) : N := 0xD000 |. shl (N.land (bl_sii hi) 2) 12 |. shl (N.land (bl_sii hi) 1) 11.
Definition bl_eh1b (lo : Z) : N := N.land (u16z (sar lo 1)) 0x7FF.

Lemma eh1b_mod v : N.land (u16z (sar v 1)) 0x7FF = bl_eh1b (v mod 4096).
Proof.
  unfold bl_eh1b, u16z, sar. rewrite !Z.shiftr_div_pow2 by lia.
  change 0x7FF with (N.ones 11). rewrite !N.land_ones.
  change 0xFFFF%Z with (Z.ones 16). rewrite !Z.land_ones by lia.
  change (2 ^ 1)%Z with 2%Z. change (2 ^ 16)%Z with 65536%Z. change (2 ^ 11) with 2048.
  lia.
Qed.

Lemma enc_bl_split v : (-16777216 <= v < 16777216)%Z -> Z.even v = true ->
  enc (Bl v) = EncOk [bl_eh0 (v / 4096); bl_eh1a (v / 4096) |. bl_eh1b (v mod 4096)].
Proof.
  intros Hv Ev. unfold enc, guard.
  replace (zlt v (-16777216)) with false by (symmetry; apply Z.ltb_ge; lia).
  replace (zge v 16777216) with false by (symmetry; apply Z.leb_gt; lia).
  replace (znz (Z.land v 1)) with false.
  2:{ unfold znz. change 1%Z with (Z.ones 1). rewrite Z.land_ones by lia.
      change (2 ^ 1)%Z with 2%Z. rewrite Zmod_even, Ev. reflexivity. }
  cbn [orb]. cbv zeta. unfold d2.
  replace (sar v 22) with (sar (v / 4096) 10).
  2:{ unfold sar. change 4096%Z with (2 ^ 12)%Z. rewrite <- Z.shiftr_div_pow2 by lia.
      rewrite Z.shiftr_shiftr by lia. reflexivity. }
  replace (sar v 31) with (sar (v / 4096) 19).
  2:{ unfold sar. change 4096%Z with (2 ^ 12)%Z. rewrite <- Z.shiftr_div_pow2 by lia.
      rewrite Z.shiftr_shiftr by lia. reflexivity. }
  replace (sar v 12) with (v / 4096)%Z.
  2:{ unfold sar. rewrite Z.shiftr_div_pow2 by lia. reflexivity. }
  rewrite eh1b_mod. fold (bl_sii (v / 4096)).
  unfold bl_eh0, bl_eh1a. rewrite <- !N.lor_assoc. reflexivity.
Qed.

(* ---------- the table row, sliced ---------- *)
Definition bl_sxh (hi : Z) : N := Z.to_N (Z.land hi (Z.ones 13)).
Definition bl_ss (hi : Z) : N := bits (bl_sxh hi) 12 1.
Definition bl_sj1 (hi : Z) : N := if N.eqb (bits (bl_sxh hi) 11 1) (bl_ss hi) then 1 else 0.
Definition bl_sj2 (hi : Z) : N := if N.eqb (bits (bl_sxh hi) 10 1) (bl_ss hi) then 1 else 0.
Definition bl_sfs0 (hi : Z) : list field := [(0x1E, 5); (bl_ss hi, 1); (bits (bl_sxh hi) 0 10, 10)].
Definition bl_sb (lo : Z) : N := bits (Z.to_N lo) 1 11.

Lemma row32_bl_tail fs0 j1 j2 b :
  row32 true fs0 [(3, 2); (j1, 1); (1, 1); (j2, 1); (b, 11)] =
  if forallb fits fs0 && (N.ltb j1 2 && (N.ltb j2 2 && N.ltb b 2048))
  then Some [pack fs0; 53248 + j1 * 8192 + j2 * 2048 + b] else None.
Proof.
  unfold row32. cbn [andb forallb]. unfold fits at 2 3 4 5 6. cbn [fst snd].
  change (3 <? 2 ^ 2) with true. change (1 <? 2 ^ 1) with true. change (2 ^ 1) with 2. change (2 ^ 11) with 2048.
  rewrite andb_true_r. cbn [andb].
  replace (pack [(3, 2); (j1, 1); (1, 1); (j2, 1); (b, 11)]) with (53248 + j1 * 8192 + j2 * 2048 + b).
  2:{ unfold pack. cbn [fold_left fst snd]. change (2 ^ 2) with 4. change (2 ^ 1) with 2. change (2 ^ 11) with 2048. lia. }
  reflexivity.
Qed.

Lemma spec_bl_split v : (-16777216 <= v < 16777216)%Z -> Z.even v = true ->
  armv6m_enc (Bl v) =
  row32 true (bl_sfs0 (v / 4096)) [(3, 2); (bl_sj1 (v / 4096), 1); (1, 1); (bl_sj2 (v / 4096), 1); (bl_sb (v mod 4096), 11)].
Proof.
  intros Hv Ev. unfold armv6m_enc. cbv zeta.
  replace (imm_in v (-16777216) 16777214 2) with true.
  2:{ unfold imm_in. symmetry. rewrite !andb_true_iff, !Z.leb_le, Z.eqb_eq. rewrite Zmod_even, Ev.
      apply Z.even_spec in Ev. destruct Ev as [q Eq]. lia. }
  set (x := Z.to_N (Z.land v (Z.ones 25))).
  assert (Hx : N.shiftr x 12 = bl_sxh (v / 4096)).
  { unfold x, bl_sxh. rewrite N.shiftr_div_pow2, !Z.land_ones by lia.
    change (2 ^ 12) with 4096. change (2 ^ 25)%Z with 33554432%Z. change (2 ^ 13)%Z with 8192%Z. lia. }
  assert (Hb : forall k w, bits x (12 + k) w = bits (bl_sxh (v / 4096)) k w).
  { intros k w. unfold bits. rewrite <- Hx, N.shiftr_shiftr. reflexivity. }
  change 24 with (12 + 12). change 23 with (12 + 11). change 22 with (12 + 10).
  change (bits x 12 10) with (bits x (12 + 0) 10). rewrite !Hb.
  replace (bits x 1 11) with (bl_sb (v mod 4096)).
  2:{ unfold bl_sb, bits, x. rewrite !N.shiftr_div_pow2, !N.land_ones, !Z.land_ones by lia.
      change (2 ^ 1) with 2. change (2 ^ 11) with 2048. change (2 ^ 25)%Z with 33554432%Z. lia. }
  reflexivity.
Qed.

(* ---------- the decoder's BL leaf, sliced: second halfword = a |. b, b the low 11 bits ---------- *)
Definition bl_nb (a k : N) : N := N.land (N.lxor (N.shiftr a k) 0xFFFF) 1.
Definition bl_dL (b : N) : Z := shl32 (zof b) 1.
Definition bl_dM (h0 a : N) : Z :=
  Z.lor (Z.lor (shl32 (zof (fld h0 0 0x3FF)) 12) (shl32 (zof (bl_nb a 11)) 22)) (shl32 (zof (bl_nb a 13)) 23).
Definition bl_dE (h0 : N) : Z := sar32 (shl32 (zof (fld h0 10 1)) 31) 9.
Definition bl_dH (h0 a : N) : Z := Z.lxor (bl_dM h0 a) (bl_dE h0).
(* the tests of dec32 that select the BL leaf, on h0 and on the high part of h1 *)
Definition bl_sel (h0 a : N) : bool :=
  N.eqb (fld h0 11 3) 2 && N.eqb (fld a 15 1) 1 && N.eqb (fld a 12 5) 5 && negb (N.eqb (fld a 12 7) 2).

Lemma dec32_bl_split h0 a b : N.land a 0x7FF = 0 -> b < 2048 ->
  dec32_bl h0 (a |. b) = ok4 (Bl (Z.lxor (Z.lor (bl_dL b) (bl_dM h0 a)) (bl_dE h0))).
Proof.
  intros Ha Hb. unfold dec32_bl. cbv zeta.
  replace (fld (a |. b) 0 0x7FF) with b.
  2:{ unfold fld. rewrite N.shiftr_0_r. symmetry. apply land_lor_low; assumption. }
  rewrite !N.shiftr_lor, !(shiftr_small b) by (assumption || lia). rewrite !N.lor_0_r.
  unfold bl_dM, bl_dE, bl_dL, bl_nb. rewrite <- !Z.lor_assoc. reflexivity.
Qed.

Lemma dec32_sel_bl h0 a b : bl_sel h0 a = true -> b < 2048 -> dec32 h0 (a |. b) = dec32_bl h0 (a |. b).
Proof.
  unfold bl_sel. intros S Hb.
  apply andb_prop in S. destruct S as [S S4]. apply andb_prop in S. destruct S as [S S3].
  apply andb_prop in S. destruct S as [S1 S2].
  apply negb_true_iff in S4. apply N.eqb_eq in S3.
  unfold dec32. rewrite !(fld_lor_hi a b) by (assumption || lia).
  rewrite S1, S2, S4, S3. cbn [andb N.eqb Pos.eqb]. rewrite !andb_false_r. reflexivity.
Qed.

Lemma dec_h0_30 h0 b2 b3 rest : N.shiftr h0 11 = 30 ->
  dec_h0 h0 (b2 :: b3 :: rest) = dec32 h0 (N.lor b2 (N.shiftl b3 8)).
Proof. intros H. unfold dec_h0. rewrite H. reflexivity. Qed.

Lemma dec_bl_bytes h0 a b : N.shiftr h0 11 = 30 -> bl_sel h0 a = true -> N.land a 0x7FF = 0 -> b < 2048 ->
  dec (le_bytes [h0; a |. b]) = DecOk 4 (Bl (Z.lxor (Z.lor (bl_dL b) (bl_dM h0 a)) (bl_dE h0))).
Proof.
  intros H30 S Ha Hb. unfold le_bytes. cbn [flat_map app le16]. cbn [dec].
  rewrite le16_join. rewrite (dec_h0_30 _ _ _ _ H30). rewrite le16_join.
  rewrite (dec32_sel_bl _ _ _ S Hb). apply dec32_bl_split; assumption.
Qed.

Lemma dec_off_split h0 a b : Z.land (bl_dL b) 0xFFF = bl_dL b -> Z.land (bl_dE h0) 0xFFF = 0%Z ->
  Z.lxor (Z.lor (bl_dL b) (bl_dM h0 a)) (bl_dE h0) = Z.lor (bl_dL b) (bl_dH h0 a).
Proof. intros A B. unfold bl_dH. apply (lxor_lor_low _ _ _ 0xFFF); assumption. Qed.

Lemma instr_eqb_refl i : instr_eqb i i = true.
Proof. unfold instr_eqb. destruct (instr_eq_dec i i); congruence. Qed.

(* ---------- the two independent sweeps: 2^13 high parts, 2^11 low parts ---------- *)
Lemma sw_bl_hi : allZ (fun hi =>
    forallb fits (bl_sfs0 hi) && N.ltb (bl_sj1 hi) 2 && N.ltb (bl_sj2 hi) 2
    && N.eqb (pack (bl_sfs0 hi)) (bl_eh0 hi)
    && N.eqb (53248 + bl_sj1 hi * 8192 + bl_sj2 hi * 2048) (bl_eh1a hi)
    && N.eqb (N.land (bl_eh1a hi) 0x7FF) 0
    && N.eqb (N.shiftr (bl_eh0 hi) 11) 30
    && bl_sel (bl_eh0 hi) (bl_eh1a hi)
    && Z.eqb (Z.land (bl_dE (bl_eh0 hi)) 0xFFF) 0
    && Z.eqb (bl_dH (bl_eh0 hi) (bl_eh1a hi)) (hi * 4096)) (-4096) 1 13 = true.
Proof. vm_compute. reflexivity. Qed.

Lemma sw_bl_lo : allZ (fun lo =>
    N.ltb (bl_sb lo) 2048 && N.eqb (bl_sb lo) (bl_eh1b lo) && Z.eqb (bl_dL (bl_eh1b lo)) lo) 0 2 11 = true.
Proof. vm_compute. reflexivity. Qed.

Lemma sw_bl_all v : (-16777216 <= v < 16777216)%Z -> Z.even v = true -> codec_ok (Bl v) = true.
Proof.
  intros Hv Ev.
  set (hi := (v / 4096)%Z). set (lo := (v mod 4096)%Z).
  assert (Hhi : (-4096 <= hi < -4096 + 2 ^ Z.of_nat 13)%Z) by (change (2 ^ Z.of_nat 13)%Z with 8192%Z; unfold hi; lia).
  assert (A := allZ_window _ (-4096) 13 sw_bl_hi hi Hhi). cbv beta in A.
  assert (Hlo : exists k, (0 <= k < 2 ^ Z.of_nat 11)%Z /\ lo = (0 + k * 2)%Z).
  { exists (lo / 2)%Z. change (2 ^ Z.of_nat 11)%Z with 2048%Z. unfold lo.
    apply Z.even_spec in Ev. destruct Ev as [q Eq]. lia. }
  destruct Hlo as [k [Hk Elo]].
  assert (B := allZ_spec _ 11 0%Z 2%Z sw_bl_lo k Hk). cbv beta in B. rewrite <- Elo in B.
  apply andb_prop in A; destruct A as [A A10]. apply andb_prop in A; destruct A as [A A9].
  apply andb_prop in A; destruct A as [A A8]. apply andb_prop in A; destruct A as [A A7].
  apply andb_prop in A; destruct A as [A A6]. apply andb_prop in A; destruct A as [A A5].
  apply andb_prop in A; destruct A as [A A4]. apply andb_prop in A; destruct A as [A A3].
  apply andb_prop in A; destruct A as [A1 A2].
  apply andb_prop in B; destruct B as [B B3]. apply andb_prop in B; destruct B as [B1 B2].
  apply N.ltb_lt in B1. apply N.eqb_eq in A4, A5, A6, A7, B2. apply Z.eqb_eq in A9, A10, B3.
  assert (Hb : bl_eh1b lo < 2048) by (rewrite <- B2; exact B1).
  assert (E := enc_bl_split v Hv Ev). fold hi lo in E.
  unfold codec_ok, enc_is_spec, roundtrip_ok. rewrite E.
  apply andb_true_intro. split.
  - rewrite (spec_bl_split v Hv Ev). fold hi lo. rewrite row32_bl_tail.
    rewrite A1, A2, A3. replace (bl_sb lo <? 2048) with true by (symmetry; apply N.ltb_lt; exact B1).
    cbn [andb of_spec enc_result_eqb listN_eqb].
    rewrite A4, A5, B2, <- (N_lor_add_low _ _ A6 Hb), !N.eqb_refl. reflexivity.
  - rewrite (dec_bl_bytes _ _ _ A7 A8 A6 Hb).
    rewrite dec_off_split; [| rewrite B3; change 0xFFF%Z with (Z.ones 12); rewrite Z.land_ones by lia; unfold lo; apply Z.mod_mod; lia | exact A9].
    rewrite A10, B3. rewrite lor_add_low by (unfold lo; lia).
    replace (hi * 4096 + lo)%Z with v by (unfold hi, lo; lia).
    rewrite instr_eqb_refl. reflexivity.
Qed.

Ltac Zify.zify_post_hook ::= idtac.
