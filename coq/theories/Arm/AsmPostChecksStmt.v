(* C04: the post-conversion checks, statement by statement, for ALL operand values (unbounded Z, every register).

   Part 1 -- checks made by ArmInstr::assemble itself (src/arm6m/mod.rs) after the operand converters:
     number_checked        BKPT / SVC / UDF.N #0..255, UDF.W #0..65535
     rsbs_zero             RSBS Rd, Rn, #0 only
     flag_checked          CPSIE / CPSID i;  DMB / DSB / ISB SY  (any letter case)
     ldrs_register_offset  LDRSB / LDRSH take a register offset only
     branch_target_checked, bl_target_checked, literal_target_checked
                           PC-relative targets: outside u32 = DValueRange, outside the range = DRange, misaligned = DAlignment
   Part 2 -- checks made by the encoder (src/arm6m/asm.rs) on the converted instruction: readable instances of
   AsmPostChecks.rule_decides for the mnemonic families (shift amounts, ADDS/SUBS imm3 / imm8, ADD/SUB with SP, MOVS / CMP
   imm8, load / store offsets with scaling, register lists, register classes).
   In every theorem: the accepted case emits exactly the instruction with the operand values written and the halfwords
   of the ARMv6-M table (emits_table); every other case is a diagnostic, never an instruction. *)
From Coq Require Import ZArith NArith List Bool Ascii String Lia.
From Trion Require Import Base.Sweep Text.Types Arm.Instr Arm.EncodeModel Arm.Armv6mSpec Arm.CodecCheck Arm.CodecProofs
  Arm.DisplayModel Arm.DisplayArgs Arm.AsmStmtModel Arm.AsmStmtProofs Arm.AsmOperands Arm.AsmRejects Arm.AsmSpelling
  Arm.AsmPostChecks.
Import ListNotations.
Open Scope N_scope.

Ltac Zify.zify_post_hook ::= Z.div_mod_to_equations.

(* ---------------------------------------------------------------- helpers *)
Lemma template_by_upper name u t : u = upper_str name -> template u = Some t -> template name = Some t.
Proof. intros -> H. now rewrite <- template_upper. Qed.

Lemma reads_reg ev s r : regl s = Some r -> reads ev (PReg r) (AIdent s).
Proof. intros H. exists s. split; [reflexivity | exact H]. Qed.
Lemma reads_imm ev a v : ev a = (AConst v, SComplete) -> reads ev (PImmReg (Imm v)) a.
Proof. intros H. exact H. Qed.
Lemma reads_num ev a v : ev a = (AConst v, SComplete) -> reads ev (PImm v) a.
Proof. intros H. exact H. Qed.
Lemma reads_mem ev a inner b x : ev a = (AAddr inner, SComplete) -> addr_off inner = inl (b, Some x) -> reads ev (PMem b x) a.
Proof. intros H1 H2. exists inner. split; assumption. Qed.
Lemma reads_set ev items bits : regset_bits items 0 = inl (Some bits) -> reads ev (PSet bits) (ASeq items).
Proof. intros H. exists items. split; [reflexivity | exact H]. Qed.

(* the outcome once the operand processing has answered *)
Lemma outcome_diag ev local addr name args t d st : template name = Some t ->
  assemble_args ev local addr t (mkAst args 0) = CDiag d st -> stmt_outcome ev local addr name args = Rejects d.
Proof. intros T H. unfold stmt_outcome, assemble_stmt. now rewrite T, H. Qed.

Lemma outcome_ok ev local addr name args t i st : template name = Some t ->
  assemble_args ev local addr t (mkAst args 0) = COk i st -> wf_instr i ->
  if operand_rule i then emits_table (stmt_outcome ev local addr name args) i
  else stmt_outcome ev local addr name args = Rejects DEncode.
Proof.
  intros T H W. unfold stmt_outcome, assemble_stmt. rewrite T, H. pose proof (rule_enc i W) as E. unfold enc_okb in E.
  pose proof (enc_is_table i W) as Tb. destruct (operand_rule i).
  - destruct (enc i) as [hws|]; [|discriminate E]. exists hws. split; [|reflexivity].
    destruct (armv6m_enc i); cbn [of_spec] in Tb; [now injection Tb as -> | discriminate Tb].
  - destruct (enc i); [discriminate E | reflexivity].
Qed.

Ltac pick H := repeat (destruct H as [H|H]; [injection H as ? ? ?; subst | ]); try contradiction.
Ltac pick2 H := repeat (destruct H as [H|H]; [injection H as ? ?; subst | ]); try contradiction.

(* ================================================================ Part 1: checks of ArmInstr::assemble *)

(* ---------------------------------------------------------------- BKPT / SVC / UDF.N / UDF.W *)
Definition number_stmts : list (str * (N -> instr) * Z) :=
  [($"BKPT", Bkpt, 255); ($"SVC", Svc, 255); ($"UDF.N", Udf, 255); ($"UDF.W", Udfw, 65535)]%Z.

Ltac neg_small E :=
  cbn [assemble_args]; unfold small_imm, arity; cbn [a_args List.length Nat.ltb Nat.leb bind];
  unfold c_offset, c_immediate, eval_at; cbn [a_args a_done nth_error Nat.leb]; rewrite E; cbn [bind].

Theorem number_checked ev local addr name mk hi a v :
  In (upper_str name, mk, hi) number_stmts -> ev a = (AConst v, SComplete) ->
  if zin v 0 hi then emits_table (stmt_outcome ev local addr name [a]) (mk (Z.to_N v))
  else stmt_outcome ev local addr name [a] = Rejects DValueRange.
Proof.
  intros Hin E. unfold zin. destruct (Z.leb_spec 0 v); cbn [andb].
  - (* v >= 0: an instance of rule_decides *)
    assert (R : Forall2 (reads ev) [PImm (Z.of_N (Z.to_N v))] [a]).
    { constructor; [|constructor]. cbn [reads]. now rewrite Z2N.id by lia. }
    cbn [number_stmts In] in Hin. pick Hin;
    match goal with U : _ = upper_str name |- context [emits_table _ (?mk _)] =>
      pose proof (rule_decides ev local addr name (mk (Z.to_N v)) _ [a] (or_introl U) (or_introl eq_refl) R) as D end;
    cbn [operand_rule in_types] in D;
    match goal with |- context [Z.leb v ?hi] => destruct (Z.leb_spec v hi) end;
    match type of D with context [N.leb ?n ?b] => destruct (N.leb_spec n b); try lia end;
    try exact D;
    match type of D with context [N.ltb ?n ?b] => destruct (N.ltb_spec n b); try lia end; exact D.
  - (* v < 0 *)
    cbn [number_stmts In] in Hin. pick Hin;
    match goal with U : _ = upper_str name |- _ => pose proof (template_by_upper name _ _ U eq_refl) as T end;
    eapply (outcome_diag _ _ _ _ _ _ _ _ T); neg_small E.
    + unfold u32_of. destruct (Z.leb_spec 0 v); [lia|]. cbn [andb]. reflexivity.
    + unfold i32_of. destruct (Z.leb (-2147483648) v && Z.leb v 2147483647); cbn [bind]; [|reflexivity].
      destruct (Z.leb_spec 0 v); [lia|]. cbn [andb]. reflexivity.
    + unfold i32_of. destruct (Z.leb (-2147483648) v && Z.leb v 2147483647); cbn [bind]; [|reflexivity].
      destruct (Z.leb_spec 0 v); [lia|]. cbn [andb]. reflexivity.
    + unfold i32_of. destruct (Z.leb (-2147483648) v && Z.leb v 2147483647); cbn [bind]; [|reflexivity].
      destruct (Z.leb_spec 0 v); [lia|]. cbn [andb]. reflexivity.
  Unshelve. all: exact (mkAst [] 0).
Qed.

(* ---------------------------------------------------------------- RSBS Rd, Rn, #0 *)
Theorem rsbs_zero ev local addr name sd sn a d n v :
  upper_str name = $"RSBS" -> regl sd = Some d -> regl sn = Some n -> ev a = (AConst v, SComplete) ->
  let out := stmt_outcome ev local addr name [AIdent sd; AIdent sn; a] in
  if Z.eqb v 0 then (if low d && low n then emits_table out (Rsb d n) else out = Rejects DEncode)
  else out = Rejects DValueRange.
Proof.
  intros U Hd Hn E out. subst out. destruct (Z.eqb_spec v 0) as [->|NZ].
  - assert (R : Forall2 (reads ev) [PReg d; PReg n; PImm 0] [AIdent sd; AIdent sn; a]).
    { repeat constructor; [now apply reads_reg | now apply reads_reg | exact E]. }
    exact (rule_decides ev local addr name (Rsb d n) _ _ (or_introl (eq_sym U)) (or_introl eq_refl) R).
  - pose proof (template_by_upper name _ _ (eq_sym U) eq_refl) as T.
    eapply (outcome_diag _ _ _ _ _ _ _ _ T).
    cbn [assemble_args]; unfold arity; cbn [a_args List.length Nat.ltb Nat.leb bind].
    unfold c_register, c_immediate, eval_at; cbn [a_args a_done nth_error Nat.leb]. rewrite Hd; cbn [bind a_args nth_error]. rewrite Hn; cbn [bind a_args a_done nth_error Nat.leb].
    rewrite E; cbn [bind]. destruct (i32_of v) as [z|] eqn:I; cbn [bind]; [|reflexivity].
    apply i32_of_some in I. destruct I as [-> _]. destruct (Z.eqb_spec v 0); [contradiction | reflexivity].
  Unshelve. all: exact (mkAst [] 0).
Qed.

(* ---------------------------------------------------------------- CPSIE / CPSID i;  DMB / DSB / ISB SY *)
Definition flag_stmts : list (str * string * instr) :=
  [($"CPSIE", "i", Cps true); ($"CPSID", "i", Cps false); ($"DMB", "SY", Dmb); ($"DSB", "SY", Dsb); ($"ISB", "SY", Isb)]%string.

Theorem flag_checked ev local addr name lit i s :
  In (upper_str name, lit, i) flag_stmts ->
  (upper_str s = upper_str ($ lit) -> emits_table (stmt_outcome ev local addr name [AIdent s]) i) /\
  (upper_str s <> upper_str ($ lit) -> stmt_outcome ev local addr name [AIdent s] = Rejects DValueRange).
Proof.
  intros Hin. cbn [flag_stmts In] in Hin. split.
  - intros Es. apply str_eq_ci_iff in Es.
    assert (R : Forall2 (reads ev) [PFlag lit] [AIdent s]).
    { constructor; [|constructor]. exists s. split; [reflexivity | exact Es]. }
    pick Hin;
    match goal with U : _ = upper_str name |- emits_table _ ?i =>
      exact (rule_decides ev local addr name i _ [AIdent s] (or_introl U) (or_introl eq_refl) R) end.
  - intros Ns. assert (F : forall l, upper_str s <> upper_str ($ l) -> str_eq_ci s l = false).
    { intros l Hl. destruct (str_eq_ci s l) eqn:X; [|reflexivity]. apply str_eq_ci_iff in X. contradiction. }
    pick Hin;
    match goal with U : _ = upper_str name |- _ => pose proof (template_by_upper name _ _ U eq_refl) as T end;
    eapply (outcome_diag _ _ _ _ _ _ _ _ T);
    cbn [assemble_args]; unfold arity; cbn [a_args List.length Nat.ltb Nat.leb bind];
    unfold c_identifier; cbn [a_args nth_error bind]; rewrite (F _ Ns); reflexivity.
  Unshelve. all: exact (mkAst [] 0).
Qed.

(* ---------------------------------------------------------------- LDRSB / LDRSH Rt, [Rn + Rm] only *)
Theorem ldrs_register_offset ev local addr name mk sd d a inner b x :
  In (upper_str name, mk) [($"LDRSB", Ldrsb); ($"LDRSH", Ldrsh)] -> regl sd = Some d ->
  ev a = (AAddr inner, SComplete) -> addr_off inner = inl (b, Some x) ->
  let out := stmt_outcome ev local addr name [AIdent sd; a] in
  match x with
  | Reg o => if low d && low b && low o then emits_table out (mk d b o) else out = Rejects DEncode
  | Imm _ => out = Rejects DValueRange
  end.
Proof.
  intros Hin Hd E A out. subst out. cbn [In] in Hin. destruct x as [v|o].
  - pick2 Hin;
    match goal with U : _ = upper_str name |- _ => pose proof (template_by_upper name _ _ U eq_refl) as T end;
    eapply (outcome_diag _ _ _ _ _ _ _ _ T);
    cbn [assemble_args]; unfold r_addr_reg, arity; cbn [a_args List.length Nat.ltb Nat.leb bind];
    unfold c_register, c_address, eval_at; cbn [a_args a_done nth_error Nat.leb]; rewrite Hd; cbn [bind a_args a_done nth_error Nat.leb];
    rewrite E; cbn [bind]; rewrite A; cbn [bind snd]; reflexivity.
  - assert (R : Forall2 (reads ev) [PReg d; PMem b (Reg o)] [AIdent sd; a]).
    { repeat constructor; [now apply reads_reg | now apply (reads_mem ev a inner)]. }
    pick2 Hin;
    match goal with U : _ = upper_str name |- context [emits_table _ ?i] =>
      exact (rule_decides ev local addr name i _ _ (or_introl U) (or_introl eq_refl) R) end.
  Unshelve. all: exact (mkAst [] 0).
Qed.

(* ---------------------------------------------------------------- PC-relative targets *)
(* B -2048..2046, B<c> -256..254; BL -2^24..2^24-1 (the odd upper bound is then refused as misaligned) *)
Definition branch_range (c : cond) : Z * Z := if cond_eqb c Always then (-2048, 2046)%Z else (-256, 254)%Z.
Definition bl_range : Z * Z := (-16777216, 16777215)%Z.

Lemma c_offset_const ev local a v : ev a = (AConst v, SComplete) ->
  c_offset ev local 0 (mkAst [a] 0) =
    match u32_of v with Some x => COk x (mkAst [AConst v] 1) | None => CDiag DValueRange (mkAst [AConst v] 1) end.
Proof. intros E. unfold c_offset, eval_at. cbn [a_args a_done nth_error Nat.leb]. rewrite E. cbn [bind set_nth a_args]. reflexivity. Qed.

Lemma u32_of_zin t : u32_of t = if zin t 0 4294967295 then Some (Z.to_N t) else None.
Proof. reflexivity. Qed.

Lemma branch_offset_cases addr tgt lo hi st :
  branch_offset addr tgt lo hi st =
    let off := (Z.of_N tgt - (Z.of_N addr + 4))%Z in
    if negb (zin off lo hi) then CDiag DRange st else if negb (mult off 2) then CDiag DAlignment st else COk off st.
Proof.
  unfold branch_offset, zin, mult. cbv zeta. rewrite zland1.
  destruct (Z.ltb_spec (Z.of_N tgt - (Z.of_N addr + 4)) lo); destruct (Z.leb_spec lo (Z.of_N tgt - (Z.of_N addr + 4))); try lia; cbn [orb andb negb]; [reflexivity|].
  destruct (Z.ltb_spec hi (Z.of_N tgt - (Z.of_N addr + 4))); destruct (Z.leb_spec (Z.of_N tgt - (Z.of_N addr + 4)) hi); try lia; reflexivity.
Qed.

Lemma lit_offset_cases addr tgt st :
  lit_offset addr tgt st =
    let off := (Z.of_N tgt - (Z.of_N (N.land addr 0xFFFFFFFC) + 4))%Z in
    if negb (zin off 0 1020) then CDiag DRange st else if negb (mult off 4) then CDiag DAlignment st else COk off st.
Proof.
  unfold lit_offset, al_pc, zin, mult. cbv zeta. rewrite zland3.
  destruct (Z.ltb_spec (Z.of_N tgt - (Z.of_N (N.land addr 0xFFFFFFFC) + 4)) 0); destruct (Z.leb_spec 0 (Z.of_N tgt - (Z.of_N (N.land addr 0xFFFFFFFC) + 4))); try lia; cbn [orb andb negb]; [reflexivity|].
  destruct (Z.ltb_spec 1020 (Z.of_N tgt - (Z.of_N (N.land addr 0xFFFFFFFC) + 4))); destruct (Z.leb_spec (Z.of_N tgt - (Z.of_N (N.land addr 0xFFFFFFFC) + 4)) 1020); try lia; reflexivity.
Qed.

Theorem branch_target_checked ev local addr name c a t :
  In (upper_str name) (mnemonic_names (B c 0)) -> ev a = (AConst t, SComplete) ->
  let off := (t - (Z.of_N addr + 4))%Z in
  let out := stmt_outcome ev local addr name [a] in
  if negb (zin t 0 4294967295) then out = Rejects DValueRange
  else if negb (zin off (fst (branch_range c)) (snd (branch_range c))) then out = Rejects DRange
  else if negb (mult off 2) then out = Rejects DAlignment
  else emits_table out (B c off).
Proof.
  intros M E off out. subst out. pose proof (template_spelling (B c 0) name M) as T. cbn [kind_template] in T.
  assert (A : assemble_args ev local addr (B c 0) (mkAst [a] 0) =
    match u32_of t with
    | Some tgt => do o, st <- branch_offset addr tgt (fst (branch_range c)) (snd (branch_range c)) (mkAst [AConst t] 1); COk (B c o) st
    | None => CDiag DValueRange (mkAst [AConst t] 1)
    end).
  { cbn [assemble_args]. unfold arity. cbn [a_args List.length Nat.ltb Nat.leb bind]. rewrite (c_offset_const ev local a t E).
    unfold branch_range. destruct (u32_of t); cbn [bind]; [|reflexivity]. destruct (cond_eqb c Always); reflexivity. }
  rewrite u32_of_zin in A. destruct (zin t 0 4294967295) eqn:Zt; cbn [negb].
  - rewrite branch_offset_cases in A. cbv zeta in A. unfold zin in Zt. apply andb_prop in Zt. destruct Zt as [Z0 Z1].
    apply Z.leb_le in Z0. rewrite Z2N.id in A by exact Z0. fold off in A.
    destruct (zin off (fst (branch_range c)) (snd (branch_range c))) eqn:Zr; cbn [negb bind] in A |- *;
      [|exact (outcome_diag _ _ _ _ _ _ _ _ T A)].
    destruct (mult off 2) eqn:Zm; cbn [negb bind] in A |- *; [|exact (outcome_diag _ _ _ _ _ _ _ _ T A)].
    assert (W : wf_instr (B c off)).
    { cbn [wf_instr]. unfold i32_ok. unfold zin in Zr. apply andb_prop in Zr. destruct Zr as [R0 R1].
      apply Z.leb_le in R0. apply Z.leb_le in R1. unfold branch_range in *. destruct (cond_eqb c Always); cbn [fst snd] in *; lia. }
    pose proof (outcome_ok _ _ _ _ _ _ _ _ T A W) as O.
    assert (Ru : operand_rule (B c off) = true).
    { destruct c; first [ change (branch_range _) with (-256, 254)%Z in Zr | change (branch_range _) with (-2048, 2046)%Z in Zr ];
      cbn [fst snd] in Zr; cbn [operand_rule]; now rewrite Zr, Zm. }
    now rewrite Ru in O.
  - exact (outcome_diag _ _ _ _ _ _ _ _ T A).
Qed.

Theorem bl_target_checked ev local addr name a t :
  upper_str name = $"BL" -> ev a = (AConst t, SComplete) ->
  let off := (t - (Z.of_N addr + 4))%Z in
  let out := stmt_outcome ev local addr name [a] in
  if negb (zin t 0 4294967295) then out = Rejects DValueRange
  else if negb (zin off (fst bl_range) (snd bl_range)) then out = Rejects DRange
  else if negb (mult off 2) then out = Rejects DAlignment
  else emits_table out (Bl off).
Proof.
  intros U E off out. subst out. pose proof (template_by_upper name _ _ (eq_sym U) eq_refl) as T.
  assert (A : assemble_args ev local addr (Bl 0) (mkAst [a] 0) =
    match u32_of t with
    | Some tgt => do o, st <- branch_offset addr tgt (fst bl_range) (snd bl_range) (mkAst [AConst t] 1); COk (Bl o) st
    | None => CDiag DValueRange (mkAst [AConst t] 1)
    end).
  { cbn [assemble_args]. unfold arity. cbn [a_args List.length Nat.ltb Nat.leb bind]. rewrite (c_offset_const ev local a t E).
    destruct (u32_of t); reflexivity. }
  rewrite u32_of_zin in A. destruct (zin t 0 4294967295) eqn:Zt; cbn [negb].
  - rewrite branch_offset_cases in A. cbv zeta in A. unfold zin in Zt. apply andb_prop in Zt. destruct Zt as [Z0 Z1].
    apply Z.leb_le in Z0. rewrite Z2N.id in A by exact Z0. fold off in A.
    destruct (zin off (fst bl_range) (snd bl_range)) eqn:Zr; cbn [negb bind] in A |- *;
      [|exact (outcome_diag _ _ _ _ _ _ _ _ T A)].
    destruct (mult off 2) eqn:Zm; cbn [negb bind] in A |- *; [|exact (outcome_diag _ _ _ _ _ _ _ _ T A)].
    unfold zin, bl_range in Zr. cbn [fst snd] in Zr. apply andb_prop in Zr. destruct Zr as [R0 R1].
    apply Z.leb_le in R0. apply Z.leb_le in R1.
    assert (W : wf_instr (Bl off)) by (cbn [wf_instr]; unfold i32_ok; lia).
    pose proof (outcome_ok _ _ _ _ _ _ _ _ T A W) as O.
    assert (Ru : operand_rule (Bl off) = true).
    { cbn [operand_rule]. rewrite Zm. unfold mult in Zm. apply Z.eqb_eq in Zm. unfold zin.
      destruct (Z.leb_spec (-16777216) off); [|lia]. destruct (Z.leb_spec off 16777214); [reflexivity | lia]. }
    now rewrite Ru in O.
  - exact (outcome_diag _ _ _ _ _ _ _ _ T A).
Qed.

(* ADR Rd, target / LDR Rt, target: offset from the word-aligned statement address + 4: 0..1020, multiple of 4, Rd low *)
Theorem literal_target_checked ev local addr name mk sd d a t :
  In (upper_str name, mk) [($"ADR", fun off => Adr d (Z.to_N off)); ($"LDR", fun off => Ldr d PC (Imm off))] ->
  regl sd = Some d -> ev a = (AConst t, SComplete) ->
  let off := (t - (Z.of_N (N.land addr 0xFFFFFFFC) + 4))%Z in
  let out := stmt_outcome ev local addr name [AIdent sd; a] in
  if negb (zin t 0 4294967295) then out = Rejects DValueRange
  else if negb (zin off 0 1020) then out = Rejects DRange
  else if negb (mult off 4) then out = Rejects DAlignment
  else if low d then emits_table out (mk off) else out = Rejects DEncode.
Proof.
  intros Hin Hd E off out. subst out. cbn [In] in Hin.
  assert (exists t0, template name = Some t0 /\
    assemble_args ev local addr t0 (mkAst [AIdent sd; a] 0) =
    match u32_of t with
    | Some tgt => do o, st <- lit_offset addr tgt (mkAst [AIdent sd; AConst t] 2); COk (mk o) st
    | None => CDiag DValueRange (mkAst [AIdent sd; AConst t] 2)
    end) as [t0 [T A]].
  { pick2 Hin; match goal with U : _ = upper_str name |- _ => pose proof (template_by_upper name _ _ U eq_refl) as T end;
    eexists; (split; [exact T|]);
    cbn [assemble_args]; unfold arity; cbn [a_args List.length Nat.ltb Nat.leb bind];
    unfold c_register, c_offset, c_addr_offset, eval_at; cbn [a_args a_done nth_error Nat.leb]; rewrite Hd; cbn [bind a_args a_done nth_error Nat.leb];
    rewrite E; cbn [bind set_nth a_args]; destruct (u32_of t); cbn [bind]; try reflexivity.
    rewrite lit_offset_cases. cbv zeta. destruct (zin _ 0 1020) eqn:Zr; cbn [negb]; [|reflexivity]. destruct (negb (mult _ 4)) eqn:Mu; [reflexivity|].
    cbn [bind]. f_equal. f_equal. unfold zin in Zr. apply andb_prop in Zr. destruct Zr as [R0 R1]. apply Z.leb_le in R0. apply Z.leb_le in R1.
    change 0xFFFF%Z with (Z.ones 16). rewrite Z.land_ones by lia. rewrite Z.mod_small by lia. reflexivity. }
  rewrite u32_of_zin in A. destruct (zin t 0 4294967295) eqn:Zt; cbn [negb].
  - rewrite lit_offset_cases in A. cbv zeta in A. unfold zin in Zt. apply andb_prop in Zt. destruct Zt as [Z0 Z1].
    apply Z.leb_le in Z0. rewrite Z2N.id in A by exact Z0. fold off in A.
    destruct (zin off 0 1020) eqn:Zr; cbn [negb bind] in A |- *; [|exact (outcome_diag _ _ _ _ _ _ _ _ T A)].
    destruct (mult off 4) eqn:Zm; cbn [negb bind] in A |- *; [|exact (outcome_diag _ _ _ _ _ _ _ _ T A)].
    pose proof Zr as Zr'. unfold zin in Zr'. apply andb_prop in Zr'. destruct Zr' as [R0 R1]. apply Z.leb_le in R0. apply Z.leb_le in R1.
    pose proof Zm as Zm'. unfold mult in Zm'. apply Z.eqb_eq in Zm'.
    pick2 Hin.
    + assert (W : wf_instr (Adr d (Z.to_N off))) by (cbn [wf_instr]; lia).
      pose proof (outcome_ok _ _ _ _ _ _ _ _ T A W) as O. cbn [operand_rule] in O.
      replace (N.leb (Z.to_N off) 1020) with true in O by (symmetry; apply N.leb_le; lia).
      replace (N.eqb (Z.to_N off mod 4) 0) with true in O.
      2:{ symmetry. apply N.eqb_eq. apply N2Z.inj. rewrite N2Z.inj_mod, Z2N.id by lia. exact Zm'. }
      rewrite !andb_true_r in O. exact O.
    + assert (W : wf_instr (Ldr d PC (Imm off))) by (cbn [wf_instr immreg_ok]; unfold i32_ok; lia).
      pose proof (outcome_ok _ _ _ _ _ _ _ _ T A W) as O. cbn [operand_rule] in O.
      change (isPC PC) with true in O. cbn [orb] in O. rewrite Zm, Zr in O. rewrite !andb_true_r in O. exact O.
  - exact (outcome_diag _ _ _ _ _ _ _ _ T A).
Qed.

(* ================================================================ Part 2: checks of the encoder, by mnemonic family *)
Ltac by_rule R :=
  match goal with U : _ = upper_str ?name |- context [emits_table (stmt_outcome ?ev ?local ?addr ?name ?args) ?i] =>
    first [ exact (rule_decides ev local addr name i _ args (or_introl U) (or_introl eq_refl) R)
          | exact (rule_decides ev local addr name i _ args (or_intror (or_introl U)) (or_introl eq_refl) R) ] end.

(* ---------------------------------------------------------------- shift amounts *)
Theorem shift_amount_checked ev local addr name mk hi sd sm a d m v :
  In (upper_str name, mk, hi) [($"LSLS", Lsl, 31); ($"LSRS", Lsr, 32); ($"ASRS", Asr, 32)]%Z ->
  regl sd = Some d -> regl sm = Some m -> ev a = (AConst v, SComplete) ->
  let out := stmt_outcome ev local addr name [AIdent sd; AIdent sm; a] in
  if low d && low m && zin v 1 hi then emits_table out (mk d m (Imm v))
  else out = Rejects (if i32b v then DEncode else DValueRange).
Proof.
  intros Hin Hd Hm E out. subst out. cbn [In] in Hin.
  assert (R : Forall2 (reads ev) [PReg d; PReg m; PImmReg (Imm v)] [AIdent sd; AIdent sm; a]).
  { repeat constructor; [now apply reads_reg | now apply reads_reg | exact E]. }
  pick Hin; by_rule R.
Qed.

(* ---------------------------------------------------------------- ADDS / SUBS with an immediate: imm8 when Rd = Rn, imm3 otherwise *)
Theorem addsub_immediate_checked ev local addr name mk sd sn a d n v :
  In (upper_str name, mk) [($"ADDS", Add true); ($"SUBS", Sub true)] ->
  regl sd = Some d -> regl sn = Some n -> ev a = (AConst v, SComplete) ->
  let out := stmt_outcome ev local addr name [AIdent sd; AIdent sn; a] in
  if (if same d n then low d && zin v 0 255 else low d && low n && zin v 0 7) then emits_table out (mk d n (Imm v))
  else out = Rejects (if i32b v then DEncode else DValueRange).
Proof.
  intros Hin Hd Hn E out. subst out. cbn [In] in Hin.
  assert (R : Forall2 (reads ev) [PReg d; PReg n; PImmReg (Imm v)] [AIdent sd; AIdent sn; a]).
  { repeat constructor; [now apply reads_reg | now apply reads_reg | exact E]. }
  pick2 Hin; by_rule R.
Qed.

(* ---------------------------------------------------------------- ADD / SUB (no flags) with an immediate: SP-relative only *)
Theorem add_sp_checked ev local addr name sd sn a d n v :
  upper_str name = $"ADD" -> regl sd = Some d -> regl sn = Some n -> ev a = (AConst v, SComplete) ->
  let out := stmt_outcome ev local addr name [AIdent sd; AIdent sn; a] in
  if isSP n && mult v 4 && (if isSP d then zin v 0 508 else low d && zin v 0 1020) then emits_table out (Add false d n (Imm v))
  else out = Rejects (if i32b v then DEncode else DValueRange).
Proof.
  intros U Hd Hn E out. subst out. apply eq_sym in U.
  assert (R : Forall2 (reads ev) [PReg d; PReg n; PImmReg (Imm v)] [AIdent sd; AIdent sn; a]).
  { repeat constructor; [now apply reads_reg | now apply reads_reg | exact E]. }
  by_rule R.
Qed.

Theorem sub_sp_checked ev local addr name sd sn a d n v :
  upper_str name = $"SUB" -> regl sd = Some d -> regl sn = Some n -> ev a = (AConst v, SComplete) ->
  let out := stmt_outcome ev local addr name [AIdent sd; AIdent sn; a] in
  if isSP d && isSP n && mult v 4 && zin v 0 508 then emits_table out (Sub false d n (Imm v))
  else out = Rejects (if i32b v then DEncode else DValueRange).
Proof.
  intros U Hd Hn E out. subst out. apply eq_sym in U.
  assert (R : Forall2 (reads ev) [PReg d; PReg n; PImmReg (Imm v)] [AIdent sd; AIdent sn; a]).
  { repeat constructor; [now apply reads_reg | now apply reads_reg | exact E]. }
  by_rule R.
Qed.

(* ---------------------------------------------------------------- MOVS / CMP Rd, #0..255;  MOV has no immediate form *)
Theorem mov_cmp_immediate_checked ev local addr name mk has sd a d v :
  In (upper_str name, mk, has) [($"MOVS", Mov true, true); ($"CMP", Cmp, true); ($"MOV", Mov false, false)] ->
  regl sd = Some d -> ev a = (AConst v, SComplete) ->
  let out := stmt_outcome ev local addr name [AIdent sd; a] in
  if has && (low d && zin v 0 255) then emits_table out (mk d (Imm v))
  else out = Rejects (if i32b v then DEncode else DValueRange).
Proof.
  intros Hin Hd E out. subst out. cbn [In] in Hin.
  assert (R : Forall2 (reads ev) [PReg d; PImmReg (Imm v)] [AIdent sd; a]).
  { repeat constructor; [now apply reads_reg | exact E]. }
  pick Hin; cbn [andb];
  first [ by_rule R
        | match goal with U : _ = upper_str name |- _ =>
            exact (rule_decides ev local addr name (Mov false d (Imm v)) _ _ (or_introl U) (or_introl eq_refl) R) end ].
Qed.

(* ---------------------------------------------------------------- loads / stores with an immediate offset *)
Definition word_load_rule (t n : reg) (v : Z) : bool :=
  low t && mult v 4 && (if isPC n || isSP n then zin v 0 1020 else low n && zin v 0 124).
Definition word_store_rule (t n : reg) (v : Z) : bool :=
  low t && mult v 4 && (if isSP n then zin v 0 1020 else low n && zin v 0 124).
Definition half_rule (t n : reg) (v : Z) : bool := low t && low n && mult v 2 && zin v 0 62.
Definition byte_rule (t n : reg) (v : Z) : bool := low t && low n && zin v 0 31.

Lemma direct_ldr t n x addr : In [PReg t; PMem n x] (direct_forms (Ldr t n x) addr).
Proof. destruct x; destruct n; left; reflexivity. Qed.

Theorem offset_checked ev local addr name mk rule st a inner t n v :
  In (upper_str name, mk, rule) [($"LDR", Ldr, word_load_rule); ($"STR", Str, word_store_rule); ($"LDRH", Ldrh, half_rule);
                                 ($"STRH", Strh, half_rule); ($"LDRB", Ldrb, byte_rule); ($"STRB", Strb, byte_rule)] ->
  regl st = Some t -> ev a = (AAddr inner, SComplete) -> addr_off inner = inl (n, Some (Imm v)) ->
  let out := stmt_outcome ev local addr name [AIdent st; a] in
  if rule t n v then emits_table out (mk t n (Imm v)) else out = Rejects DEncode.
Proof.
  intros Hin Ht E A out. subst out. cbn [In] in Hin.
  assert (R : Forall2 (reads ev) [PReg t; PMem n (Imm v)] [AIdent st; a]).
  { repeat constructor; [now apply reads_reg | now apply (reads_mem ev a inner)]. }
  pose proof (addr_off_fits _ _ _ A) as F. cbn [immreg_fits] in F.
  pick Hin.
  - match goal with U : _ = upper_str name |- _ =>
      pose proof (rule_decides ev local addr name (Ldr t n (Imm v)) _ _ (or_introl U) (direct_ldr t n (Imm v) addr) R) as D end.
    cbn [operand_rule in_types immreg_fits] in D. rewrite F in D. exact D.
  - match goal with U : _ = upper_str name |- _ =>
      pose proof (rule_decides ev local addr name (Str t n (Imm v)) _ _ (or_introl U) (or_introl eq_refl) R) as D end.
    cbn [operand_rule in_types immreg_fits] in D. rewrite F in D. exact D.
  - match goal with U : _ = upper_str name |- _ =>
      pose proof (rule_decides ev local addr name (Ldrh t n (Imm v)) _ _ (or_introl U) (or_introl eq_refl) R) as D end.
    cbn [operand_rule in_types immreg_fits] in D. rewrite F in D. exact D.
  - match goal with U : _ = upper_str name |- _ =>
      pose proof (rule_decides ev local addr name (Strh t n (Imm v)) _ _ (or_introl U) (or_introl eq_refl) R) as D end.
    cbn [operand_rule in_types immreg_fits] in D. rewrite F in D. exact D.
  - match goal with U : _ = upper_str name |- _ =>
      pose proof (rule_decides ev local addr name (Ldrb t n (Imm v)) _ _ (or_introl U) (or_introl eq_refl) R) as D end.
    cbn [operand_rule in_types immreg_fits] in D. rewrite F in D. exact D.
  - match goal with U : _ = upper_str name |- _ =>
      pose proof (rule_decides ev local addr name (Strb t n (Imm v)) _ _ (or_introl U) (or_introl eq_refl) R) as D end.
    cbn [operand_rule in_types immreg_fits] in D. rewrite F in D. exact D.
Qed.

(* ---------------------------------------------------------------- register lists, by the registers named *)
Lemma only_spec l a : only l a = true <-> (forall n, N.testbit l n = true -> N.testbit a n = true).
Proof.
  unfold only. rewrite N.eqb_eq. split.
  - intros H n Hn. rewrite <- H, N.lor_spec, Hn. reflexivity.
  - intros H. apply N.bits_inj. intros n. rewrite N.lor_spec. destruct (N.testbit l n) eqn:Ln; [|reflexivity].
    now rewrite (H n Ln).
Qed.

Lemma only_mask rs a : only (mask_of rs) a = forallb (fun r => N.testbit a (reg_num r)) rs.
Proof.
  apply eq_true_iff_eq. rewrite only_spec, forallb_forall. split.
  - intros H r Hr. apply H. rewrite mask_of_spec. apply existsb_exists. exists r. split; [exact Hr | apply N.eqb_refl].
  - intros H n Hn. rewrite mask_of_spec in Hn. apply existsb_exists in Hn. destruct Hn as [r [Hr En]].
    apply N.eqb_eq in En. subst n. now apply H.
Qed.

Lemma forallb_ext' {A} (f g : A -> bool) l : (forall x, f x = g x) -> forallb f l = forallb g l.
Proof. intros H. induction l as [|x l IH]; [reflexivity|]. cbn [forallb]. now rewrite H, IH. Qed.

Definition isnil {A} (l : list A) : bool := match l with [] => true | _ => false end.

Lemma nonempty_mask rs : nonempty (mask_of rs) = negb (isnil rs).
Proof.
  destruct rs as [|r rs]; [reflexivity|]. cbn [isnil negb mask_of fold_right]. unfold nonempty.
  destruct (N.eqb_spec (N.lor (N.shiftl 1 (reg_num r)) (fold_right (fun r acc => N.lor (N.shiftl 1 (reg_num r)) acc) 0 rs)) 0) as [Z|]; [|reflexivity].
  apply N.lor_eq_0_iff in Z. destruct Z as [Z _]. destruct r; discriminate Z.
Qed.

Lemma reads_names ev names rs : Forall2 (fun s r => regl s = Some r) names rs -> reads ev (PSet (mask_of rs)) (ASeq (map AIdent names)).
Proof. intros F. apply reads_set. now rewrite (regset_bits_mask names rs 0 F). Qed.

Lemma mask_lt rs : mask_of rs < 65536.
Proof.
  induction rs as [|r rs IH]; [reflexivity|]. cbn [mask_of fold_right]. fold (mask_of rs).
  change 65536 with (2 ^ 16). destruct (N.eq_dec (N.lor (N.shiftl 1 (reg_num r)) (mask_of rs)) 0) as [->|NZ]; [reflexivity|].
  apply N.log2_lt_pow2; [lia|]. rewrite N.log2_lor. apply N.max_lub_lt.
  - destruct r; vm_compute; reflexivity.
  - destruct (N.eq_dec (mask_of rs) 0) as [->|NA]; [reflexivity|]. apply N.log2_lt_pow2; [lia | exact IH].
Qed.

(* PUSH {R0-R7, LR} / POP {R0-R7, PC}: any order, repetitions allowed, not empty *)
Theorem push_pop_list_checked ev local addr name mk extra names rs :
  In (upper_str name, mk, extra) [($"PUSH", Push, LR); ($"POP", Pop, PC)] ->
  Forall2 (fun s r => regl s = Some r) names rs ->
  let out := stmt_outcome ev local addr name [ASeq (map AIdent names)] in
  if negb (isnil rs) && forallb (fun r => low r || same r extra) rs then emits_table out (mk (mask_of rs))
  else out = Rejects DEncode.
Proof.
  intros Hin F out. subst out. cbn [In] in Hin.
  assert (R : Forall2 (reads ev) [PSet (mask_of rs)] [ASeq (map AIdent names)]).
  { repeat constructor. now apply reads_names. }
  assert (L : N.ltb (mask_of rs) 65536 = true) by (apply N.ltb_lt; apply mask_lt).
  pick Hin.
  - match goal with U : _ = upper_str name |- _ =>
      pose proof (rule_decides ev local addr name (Push (mask_of rs)) _ _ (or_introl U) (or_introl eq_refl) R) as D end.
    cbn [operand_rule in_types] in D. rewrite L, nonempty_mask, only_mask in D.
    replace (forallb (fun r => N.testbit 0x40FF (reg_num r)) rs) with (forallb (fun r => low r || same r LR) rs) in D; [exact D|].
    apply forallb_ext'. intros r. destruct r; reflexivity.
  - match goal with U : _ = upper_str name |- _ =>
      pose proof (rule_decides ev local addr name (Pop (mask_of rs)) _ _ (or_introl U) (or_introl eq_refl) R) as D end.
    cbn [operand_rule in_types] in D. rewrite L, nonempty_mask, only_mask in D.
    replace (forallb (fun r => N.testbit 0x80FF (reg_num r)) rs) with (forallb (fun r => low r || same r PC) rs) in D; [exact D|].
    apply forallb_ext'. intros r. destruct r; reflexivity.
Qed.

(* LDM / STM Rn, {R0-R7}: Rn low (the empty list is accepted, see operand_rule) *)
Theorem ldm_stm_list_checked ev local addr name mk sn n names rs :
  In (upper_str name, mk) [($"LDM", Ldm); ($"STM", Stm)] -> regl sn = Some n ->
  Forall2 (fun s r => regl s = Some r) names rs ->
  let out := stmt_outcome ev local addr name [AIdent sn; ASeq (map AIdent names)] in
  if low n && forallb low rs then emits_table out (mk n (mask_of rs)) else out = Rejects DEncode.
Proof.
  intros Hin Hn F out. subst out. cbn [In] in Hin.
  assert (R : Forall2 (reads ev) [PReg n; PSet (mask_of rs)] [AIdent sn; ASeq (map AIdent names)]).
  { repeat constructor; [now apply reads_reg | now apply reads_names]. }
  assert (L : N.ltb (mask_of rs) 65536 = true) by (apply N.ltb_lt; apply mask_lt).
  assert (X : forallb (fun r => N.testbit 0xFF (reg_num r)) rs = forallb low rs) by (apply forallb_ext'; intros r; destruct r; reflexivity).
  pick2 Hin.
  - match goal with U : _ = upper_str name |- _ =>
      pose proof (rule_decides ev local addr name (Ldm n (mask_of rs)) _ _ (or_introl U) (or_introl eq_refl) R) as D end.
    cbn [operand_rule in_types] in D. rewrite L, only_mask, X in D. exact D.
  - match goal with U : _ = upper_str name |- _ =>
      pose proof (rule_decides ev local addr name (Stm n (mask_of rs)) _ _ (or_introl U) (or_introl eq_refl) R) as D end.
    cbn [operand_rule in_types] in D. rewrite L, only_mask, X in D. exact D.
Qed.

(* ---------------------------------------------------------------- register classes *)
Definition low_pair_stmts : list (str * (reg -> reg -> instr)) :=
  [($"ADCS", Adc); ($"ANDS", And); ($"BICS", Bic); ($"BIC", Bic); ($"CMN", Cmn); ($"EORS", Eor); ($"MULS", Mul); ($"MVNS", Mvn);
   ($"ORRS", Orr); ($"REV", Rev); ($"REV16", Rev16); ($"REVSH", Revsh); ($"RORS", Ror); ($"SBCS", Sbc); ($"SXTB", Sxtb);
   ($"SXTH", Sxth); ($"TST", Tst); ($"UXTB", Uxtb); ($"UXTH", Uxth)].

(* two-register data processing: both registers R0-R7 *)
Theorem low_registers_checked ev local addr name mk sd sm d m :
  In (upper_str name, mk) low_pair_stmts -> regl sd = Some d -> regl sm = Some m ->
  let out := stmt_outcome ev local addr name [AIdent sd; AIdent sm] in
  if low d && low m then emits_table out (mk d m) else out = Rejects DEncode.
Proof.
  intros Hin Hd Hm out. subst out. cbn [low_pair_stmts In] in Hin.
  assert (R : Forall2 (reads ev) [PReg d; PReg m] [AIdent sd; AIdent sm]).
  { repeat constructor; now apply reads_reg. }
  pick2 Hin; by_rule R.
Qed.

(* BX / BLX Rm: any register but PC *)
Theorem branch_register_checked ev local addr name mk sm m :
  In (upper_str name, mk) [($"BX", Bx); ($"BLX", Blx)] -> regl sm = Some m ->
  let out := stmt_outcome ev local addr name [AIdent sm] in
  if negb (isPC m) then emits_table out (mk m) else out = Rejects DEncode.
Proof.
  intros Hin Hm out. subst out. cbn [In] in Hin.
  assert (R : Forall2 (reads ev) [PReg m] [AIdent sm]) by (repeat constructor; now apply reads_reg).
  pick2 Hin; by_rule R.
Qed.

(* MRS Rd, spec_reg / MSR spec_reg, Rn: the general register is neither SP nor PC *)
Theorem special_register_checked ev local addr name sr ss r s :
  regl sr = Some r -> sysl ss = Some s ->
  (upper_str name = $"MRS" ->
     let out := stmt_outcome ev local addr name [AIdent sr; AIdent ss] in
     if negb (isSP r) && negb (isPC r) then emits_table out (Mrs r s) else out = Rejects DEncode) /\
  (upper_str name = $"MSR" ->
     let out := stmt_outcome ev local addr name [AIdent ss; AIdent sr] in
     if negb (isSP r) && negb (isPC r) then emits_table out (Msr s r) else out = Rejects DEncode).
Proof.
  intros Hr Hs. split; intros U out; subst out; apply eq_sym in U.
  - assert (R : Forall2 (reads ev) [PReg r; PSys s] [AIdent sr; AIdent ss]).
    { repeat constructor; [now apply reads_reg | exists ss; split; [reflexivity | exact Hs]]. }
    by_rule R.
  - assert (R : Forall2 (reads ev) [PSys s; PReg r] [AIdent ss; AIdent sr]).
    { repeat constructor; [exists ss; split; [reflexivity | exact Hs] | now apply reads_reg]. }
    by_rule R.
Qed.

(* ---------------------------------------------------------------- what stmt_outcome says in the vocabulary of the model *)
Theorem outcome_meaning ev local addr name args :
  match stmt_outcome ev local addr name args with
  | Emits i hws => exists st, assemble_stmt ev local addr name args = COk i st /\ enc i = EncOk hws
  | Rejects d => (exists st, assemble_stmt ev local addr name args = CDiag d st) \/
                 (d = DEncode /\ exists i st, assemble_stmt ev local addr name args = COk i st /\ enc_bytes i 4 = EbUnrep)
  | Defers c => exists st, assemble_stmt ev local addr name args = CDefer c st
  | Panics => False
  end.
Proof.
  unfold stmt_outcome. pose proof (stmt_no_panic ev local addr name args) as NP.
  destruct (assemble_stmt ev local addr name args) as [i st|c st|d st|] eqn:A.
  - destruct (enc i) as [hws|] eqn:E.
    + exists st. split; [reflexivity | exact E].
    + right. split; [reflexivity|]. exists i, st. split; [reflexivity|]. unfold enc_bytes. now rewrite E.
  - exists st. reflexivity.
  - left. exists st. reflexivity.
  - now apply NP.
Qed.
