(* C04: names in any spelling, and the completeness half of the operand processing.
   - template_spelling: the mnemonic in any letter case, and the alias mnemonics, select the template of the instruction;
   - reads_assembles / stmt_reads_assembles: arguments that READ as the operand values of an encodable instruction i
     (AsmOperands.reads: registers / special registers / flags through the name tables in any spelling, numbers and memory
     operands through the evaluator) assemble to exactly i;
   - register lists: any order, repetitions, any spelling (regset_bits_mask, mask_of_spec);
   - flags: str_eq_ci is equality of the upper-cased names. *)
From Coq Require Import ZArith NArith List Bool Ascii String Lia.
From Trion Require Import Text.Types Arm.Instr Arm.EncodeModel Arm.DisplayModel Arm.DisplayArgs Arm.AsmStmtModel Arm.AsmStmtProofs
  Arm.AsmOperands Arm.AsmRejects.
Import ListNotations.
Open Scope N_scope.

(* ---------------------------------------------------------------- names *)
Lemma str_eqb_eq : forall a b, str_eqb a b = true -> a = b.
Proof.
  intros a b. revert b. induction a as [|x a IH]; intros [|y b]; cbn [str_eqb]; try discriminate; [reflexivity|].
  intros H. apply andb_prop in H. destruct H as [H1 H2]. apply N.eqb_eq in H1. subst y. f_equal. exact (IH _ H2).
Qed.
Lemma str_eqb_refl a : str_eqb a a = true.
Proof. induction a as [|x a IH]; cbn [str_eqb]; [reflexivity|]. now rewrite N.eqb_refl. Qed.

Lemma str_eq_ci_iff s lit : str_eq_ci s lit = true <-> upper_str s = upper_str (bytes_of_string lit).
Proof. unfold str_eq_ci. split; [apply str_eqb_eq | intros ->; apply str_eqb_refl]. Qed.

Lemma template_upper name : template (upper_str name) = template name.
Proof. unfold template. rewrite upper_str_idem. unfold upper_str at 1. now rewrite map_length. Qed.

Lemma template_names i u : In u (mnemonic_names i) -> template u = Some (kind_template i).
Proof.
  intros H. destruct i; try destruct flags; try destruct c; try destruct enable; cbn [mnemonic_names In] in H;
  repeat (destruct H as [<-|H]; [vm_compute; reflexivity|]); contradiction.
Qed.

Theorem template_spelling i name : mnemonic_spelling i name -> template name = Some (kind_template i).
Proof. intros H. rewrite <- template_upper. exact (template_names i _ H). Qed.

(* a register name is a register name in any letter case *)
Lemma regl_upper_str s : regl (upper_str s) = regl s.
Proof. exact (regl_case_insensitive s). Qed.
Lemma sysl_upper_str s : sysl (upper_str s) = sysl s.
Proof. unfold sysl. rewrite upper_str_idem. unfold upper_str at 1. now rewrite map_length. Qed.
Lemma regl_same_upper s s' : upper_str s = upper_str s' -> regl s = regl s'.
Proof. intros H. rewrite <- (regl_upper_str s), <- (regl_upper_str s'). now rewrite H. Qed.
Lemma sysl_same_upper s s' : upper_str s = upper_str s' -> sysl s = sysl s'.
Proof. intros H. rewrite <- (sysl_upper_str s), <- (sysl_upper_str s'). now rewrite H. Qed.

(* ---------------------------------------------------------------- register lists *)
Lemma regset_bits_mask names rs acc : Forall2 (fun s r => regl s = Some r) names rs ->
  regset_bits (map AIdent names) acc = inl (Some (N.lor acc (mask_of rs))).
Proof.
  intros F. revert acc. induction F as [|s r names rs H F IH]; intros acc; cbn [map regset_bits mask_of fold_right].
  - now rewrite N.lor_0_r.
  - rewrite H, IH. now rewrite N.lor_assoc.
Qed.

Lemma mask_of_spec rs n : N.testbit (mask_of rs) n = existsb (fun r => N.eqb (reg_num r) n) rs.
Proof.
  induction rs as [|r rs IH]; cbn [mask_of fold_right existsb]; [apply N.bits_0|].
  fold (mask_of rs). rewrite N.lor_spec, IH. f_equal.
  rewrite N.shiftl_1_l, N.pow2_bits_eqb. reflexivity.
Qed.

(* ---------------------------------------------------------------- completeness of the operand processing *)
Ltac inv_forall2 := repeat match goal with
  | H : Forall2 _ (_ :: _) _ |- _ => inversion H; subst; clear H
  | H : Forall2 _ [] _ |- _ => inversion H; subst; clear H
  | H : Exists _ (_ :: _) |- _ => inversion H; subst; clear H
  | H : Exists _ [] |- _ => inversion H
  end.
Ltac ex_all := repeat match goal with
  | H : exists _, _ |- _ => destruct H
  | H : _ /\ _ |- _ => destruct H
  end; subst.
Ltac rw_all := repeat (cbn [bind nth_error a_args a_done fst snd Nat.leb Nat.ltb List.length conv_val] in *;
  match goal with H : ?l = _ |- context [?l] => rewrite H end).

Lemma i32_of_ok' v : i32_ok v -> i32_of v = Some v.
Proof.
  unfold i32_ok, i32_of. intros [H1 H2].
  destruct (Z.leb_spec (-2147483648) v); [|lia]. destruct (Z.leb_spec v 2147483647); [|lia]. reflexivity.
Qed.
Lemma u32_of_ok v : (0 <= v < 4294967296)%Z -> u32_of v = Some (Z.to_N v).
Proof.
  unfold u32_of. intros [H1 H2].
  destruct (Z.leb_spec 0 v); [|lia]. destruct (Z.leb_spec v 4294967295); [|lia]. reflexivity.
Qed.

Theorem reads_assembles ev local i addr hws args :
  wf_instr i -> enc i = EncOk hws -> target_in_space i addr = true -> stmt_reads ev i addr args ->
  conv_val (assemble_args ev local addr (kind_template i) (mkAst args 0)) = Some i.
Proof.
  intros W E T R. unfold stmt_reads, operand_forms in R.
  destruct i; try (destruct rhs as [v|o]); try (destruct shift as [v|o]); try (destruct src as [v|o]);
  try (destruct off as [v|o]; destruct addr0); try (destruct flags);
  cbn [operands kind_template] in *; inv_forall2; cbn [reads] in *; ex_all.
  all: cbn [assemble_args]; unfold rr, rri, r_addr, r_addr_reg, small_imm, arity; cbn [a_args List.length Nat.ltb Nat.leb bind].
  all: unfold c_register, c_sysreg, c_identifier, c_regset, c_immreg, c_immediate, c_offset, c_address, c_addr_offset, eval_at.
  all: rw_all; cbn [bind conv_val].
  all: try reflexivity.
  all: cbn [wf_instr immreg_ok] in W.
  (* immediates in register-or-immediate positions, memory offsets *)
  all: try (rewrite (i32_of_ok' _ W); cbn [bind conv_val]; reflexivity).
  - (* Adr *)
    destruct (enc_Adr _ _ _ E) as [Hr Hal]. cbn [target_in_space] in T. apply Z.ltb_lt in T. unfold al_pc in *.
    rewrite u32_of_ok by lia. cbn [bind]. unfold lit_offset, al_pc. rewrite Z2N.id by lia.
    replace (Z.of_N (N.land addr 0xFFFFFFFC) + 4 + Z.of_N off - (Z.of_N (N.land addr 0xFFFFFFFC) + 4))%Z with (Z.of_N off) by lia.
    destruct (Z.ltb_spec (Z.of_N off) 0); [lia|]. destruct (Z.ltb_spec 1020 (Z.of_N off)); [lia|]. cbn [orb].
    assert (A3 : Z.land (Z.of_N off) 3 = 0%Z) by (change 3%Z with (Z.of_N 3); rewrite of_N_land, Hal; reflexivity).
    rewrite A3. cbn [Z.eqb negb bind conv_val]. rewrite land_small by lia. rewrite N2Z.id. reflexivity.
  - (* B *)
    cbn [target_in_space] in T. apply andb_prop in T. destruct T as [T1 T2]. apply Z.leb_le in T1. apply Z.ltb_lt in T2.
    rewrite u32_of_ok by lia. cbn [bind]. unfold branch_offset. rewrite Z2N.id by lia.
    replace (Z.of_N addr + 4 + off - (Z.of_N addr + 4))%Z with off by lia.
    destruct (cond_eqb c Always) eqn:CA.
    + assert (c = Always) by (destruct c; try discriminate; reflexivity). subst c.
      destruct (enc_B_always off hws E) as [[R1 R2] R3].
      destruct (Z.ltb_spec off (-2048)); [lia|]. destruct (Z.ltb_spec 2046 off); [lia|].
      cbn [orb]. rewrite R3. reflexivity.
    + assert (NA : c <> Always) by (intros ->; discriminate).
      destruct (enc_B_cond c off hws NA E) as [[R1 R2] R3].
      destruct (Z.ltb_spec off (-256)); [lia|]. destruct (Z.ltb_spec 254 off); [lia|].
      cbn [orb]. rewrite R3. reflexivity.
  - (* Bkpt *)
    rewrite u32_of_ok by lia. cbn [bind]. rewrite N2Z.id. destruct (N.leb_spec info 255); [|lia]. reflexivity.
  - (* Bl *)
    cbn [target_in_space] in T. apply andb_prop in T. destruct T as [T1 T2]. apply Z.leb_le in T1. apply Z.ltb_lt in T2.
    rewrite u32_of_ok by lia. cbn [bind]. unfold branch_offset. rewrite Z2N.id by lia.
    replace (Z.of_N addr + 4 + off - (Z.of_N addr + 4))%Z with off by lia.
    destruct (enc_Bl off hws E) as [[R1 R2] R3].
    destruct (Z.ltb_spec off (-16777216)); [lia|]. destruct (Z.ltb_spec 16777215 off); [lia|].
    cbn [orb]. rewrite R3. reflexivity.
  - (* Ldr literal *)
    destruct (enc_Ldr_lit _ _ _ E) as [[R1 R2] R3].
    cbn [target_in_space] in T. apply andb_prop in T. destruct T as [T1 T2]. apply Z.leb_le in T1. apply Z.ltb_lt in T2.
    unfold al_pc in *. rewrite u32_of_ok by lia. cbn [bind]. unfold lit_offset, al_pc. rewrite Z2N.id by lia.
    replace (Z.of_N (N.land addr 0xFFFFFFFC) + 4 + v - (Z.of_N (N.land addr 0xFFFFFFFC) + 4))%Z with v by lia.
    destruct (Z.ltb_spec v 0); [lia|]. destruct (Z.ltb_spec 1020 v); [lia|]. cbn [orb]. rewrite R3. reflexivity.
  - (* Svc *) rewrite i32_of_ok' by (unfold i32_ok; lia). cbn [bind].
    destruct (Z.leb_spec 0 (Z.of_N info)); [|lia]. destruct (Z.leb_spec (Z.of_N info) 255); [|lia]. cbn [andb conv_val]. rewrite N2Z.id. reflexivity.
  - (* Udf *) rewrite i32_of_ok' by (unfold i32_ok; lia). cbn [bind].
    destruct (Z.leb_spec 0 (Z.of_N info)); [|lia]. destruct (Z.leb_spec (Z.of_N info) 255); [|lia]. cbn [andb conv_val]. rewrite N2Z.id. reflexivity.
  - (* Udfw *) rewrite i32_of_ok' by (unfold i32_ok; lia). cbn [bind].
    destruct (Z.leb_spec 0 (Z.of_N info)); [|lia]. destruct (Z.leb_spec (Z.of_N info) 65535); [|lia]. cbn [andb conv_val]. rewrite N2Z.id. reflexivity.
Qed.

Theorem stmt_reads_assembles ev local i addr hws name args :
  wf_instr i -> enc i = EncOk hws -> target_in_space i addr = true ->
  mnemonic_spelling i name -> stmt_reads ev i addr args ->
  conv_val (assemble_stmt ev local addr name args) = Some i.
Proof.
  intros W E T M R. unfold assemble_stmt. rewrite (template_spelling i name M).
  exact (reads_assembles ev local i addr hws args W E T R).
Qed.

(* the converse direction at statement level: what assembled was read as the operands of the result *)
Theorem stmt_assembles_reads ev local addr name args i st' :
  assemble_stmt ev local addr name args = COk i st' ->
  template name = Some (kind_template i) /\ wf_instr i /\ stmt_reads ev i addr args.
Proof.
  unfold assemble_stmt. destruct (template name) as [t|] eqn:Tn; [|discriminate]. intros H.
  destruct (assembles_reads ev local addr t args i st' H) as [K [W R]]. split; [|split; assumption].
  f_equal. rewrite K. clear - Tn. unfold template in Tn. destruct (Nat.ltb (List.length name) 16); [|discriminate].
  repeat match type of Tn with (if ?b then _ else _) = _ => destruct b; [injection Tn as <-; reflexivity|] end. discriminate.
Qed.
