(* Model of Instruction::encode (src/arm6m/asm.rs), arm by arm: same guards in the same order, same
   bit expressions, every `as u16` and every `<<` on u16 with its truncation.  No proofs here. *)
From Coq Require Import ZArith NArith List Bool.
From Trion Require Import Arm.Instr.
Import ListNotations.
Open Scope N_scope.

Inductive enc_result := EncOk (hws : list N) | EncUnrep.

(* `x as u16` for an i32 x *)
Definition u16z (z : Z) : N := Z.to_N (Z.land z 0xFFFF).
(* `x << k` on u16 (k < 16): bits shifted out are lost *)
Definition shl (x k : N) : N := N.land (N.shiftl x k) 0xFFFF.
(* `x >> k` on i32: arithmetic *)
Definition sar (z : Z) (k : Z) : Z := Z.shiftr z k.
Definition rn (r : reg) : N := reg_num r.   (* u8::from(r) as u16 *)
Definition zlt (a b : Z) : bool := Z.ltb a b.
Definition zgt (a b : Z) : bool := Z.ltb b a.
Definition zle (a b : Z) : bool := Z.leb a b.
Definition zge (a b : Z) : bool := Z.leb b a.
Definition znz (a : Z) : bool := negb (Z.eqb a 0).
Definition b2n (b : bool) : N := if b then 1 else 0.
Definition s1 (h : N) : enc_result := EncOk [h].
Definition d2 (h0 h1 : N) : enc_result := EncOk [h0; h1].
Definition guard (bad : bool) (r : enc_result) : enc_result := if bad then EncUnrep else r.

Infix "|." := N.lor (at level 50, left associativity).

(* the common `0b..._mmm_ddd` two-low-register form *)
Definition two_low (opc : N) (r3 r0 : reg) : enc_result :=
  guard (reg_ge8 r0 || reg_ge8 r3) (s1 (opc |. shl (rn r3) 3 |. shl (rn r0) 0)).
Definition three_low (opc : N) (r6 r3 r0 : reg) : enc_result :=
  guard (reg_ge8 r0 || reg_ge8 r3 || reg_ge8 r6) (s1 (opc |. shl (rn r6) 6 |. shl (rn r3) 3 |. shl (rn r0) 0)).

Definition enc (i : instr) : enc_result :=
  match i with
  | Adc dst rhs =>   (* guard repaired: `||` *)
      guard (reg_ge8 dst || reg_ge8 rhs) (s1 (0x4140 |. shl (rn rhs) 3 |. shl (rn dst) 0))
  | Add flags dst lhs (Imm rhs) =>
      if reg_eqb lhs SP then
        if reg_eqb dst SP then
          guard (flags || zlt rhs 0 || zgt rhs 0x1FC || znz (Z.land rhs 3))
                (s1 (0xB000 |. shl (u16z (sar rhs 2)) 0))
        else
          guard (flags || reg_ge8 dst || zlt rhs 0 || zgt rhs 0x3FC || znz (Z.land rhs 3))
                (s1 (0xA800 |. shl (rn dst) 8 |. shl (u16z (sar rhs 2)) 0))
      else if negb (reg_eqb dst lhs) then
        guard (negb flags || reg_ge8 dst || reg_ge8 lhs || zlt rhs 0 || zgt rhs 7)
              (s1 (0x1C00 |. shl (u16z rhs) 6 |. shl (rn lhs) 3 |. shl (rn dst) 0))
      else
        guard (negb flags || reg_ge8 dst || zlt rhs 0 || zgt rhs 0xFF)
              (s1 (0x3000 |. shl (rn dst) 8 |. shl (u16z rhs) 0))
  | Add flags dst lhs (Reg rhs) =>
      if negb flags || reg_ge8 dst || reg_ge8 rhs then
        (* repaired: the T2 form never sets flags *)
        guard (flags || negb (reg_eqb lhs dst) || (reg_eqb lhs PC && reg_eqb rhs PC))
              (let d := rn dst in
               s1 (0x4400 |. shl (N.land d 8) 4 |. shl (rn rhs) 3 |. shl (N.land d 7) 0))
      else
        guard (negb flags || reg_ge8 dst || reg_ge8 lhs || reg_ge8 rhs)
              (s1 (0x1800 |. shl (rn rhs) 6 |. shl (rn lhs) 3 |. shl (rn dst) 0))
  | Adr dst off =>
      guard (reg_ge8 dst || N.ltb 0x3FC off || negb (N.eqb (N.land off 3) 0))
            (s1 (0xA000 |. shl (rn dst) 8 |. shl (N.shiftr off 2) 0))
  | And dst rhs => two_low 0x4000 rhs dst
  | Asr dst value (Imm shift) =>
      guard (reg_ge8 dst || reg_ge8 value || zle shift 0 || zgt shift 32)
            (s1 (0x1000 |. shl (u16z (Z.land shift 31)) 6 |. shl (rn value) 3 |. shl (rn dst) 0))
  | Asr dst value (Reg shift) =>
      guard (reg_ge8 dst || negb (reg_eqb value dst) || reg_ge8 shift)
            (s1 (0x4100 |. shl (rn shift) 3 |. shl (rn dst) 0))
  | B Always off =>
      guard (zlt off (-2048) || zge off 2048 || znz (Z.land off 1))
            (s1 (0xE000 |. shl (N.land (u16z (sar off 1)) 0x7FF) 0))
  | B c off =>
      guard (cond_eqb c Always || zlt off (-256) || zge off 256 || znz (Z.land off 1))
            (s1 (0xD000 |. shl (cond_num c) 8 |. shl (N.land (u16z (sar off 1)) 0xFF) 0))
  | Bic dst rhs => two_low 0x4380 rhs dst
  | Bkpt info => s1 (0xBE00 |. shl info 0)
  | Bl off =>
      guard (zlt off (-16777216) || zge off 16777216 || znz (Z.land off 1))
            (let sii := N.lxor (N.lxor (N.land (u16z (sar off 22)) 3) (N.land (u16z (sar off 31)) 7)) 3 in
             d2 (0xF000 |. shl (N.land sii 4) 8 |. N.land (u16z (sar off 12)) 0x3FF)
                (0xD000 |. shl (N.land sii 2) 12 |. shl (N.land sii 1) 11 |. N.land (u16z (sar off 1)) 0x7FF))
  | Blx off => guard (reg_eqb off PC) (s1 (0x4780 |. shl (rn off) 3))
  | Bx off => guard (reg_eqb off PC) (s1 (0x4700 |. shl (rn off) 3))
  | Cmn lhs rhs => two_low 0x42C0 rhs lhs
  | Cmp lhs (Imm rhs) =>
      guard (reg_ge8 lhs || zlt rhs 0 || zgt rhs 0xFF) (s1 (0x2800 |. shl (rn lhs) 8 |. shl (u16z rhs) 0))
  | Cmp lhs (Reg rhs) =>
      if reg_ge8 lhs || reg_ge8 rhs then
        (* repaired: PC is UNPREDICTABLE in the high-register form *)
        guard (reg_eqb lhs PC || reg_eqb rhs PC)
              (let l := rn lhs in
               s1 (0x4500 |. shl (N.land l 8) 4 |. shl (rn rhs) 3 |. shl (N.land l 7) 0))
      else s1 (0x4280 |. shl (rn rhs) 3 |. shl (rn lhs) 0)
  | Cps enable => s1 (0xB662 |. shl (b2n (negb enable)) 4)   (* repaired: im = 1 disables *)
  | Dmb => d2 0xF3BF (0x8F50 |. shl 0xF 0)
  | Dsb => d2 0xF3BF (0x8F40 |. shl 0xF 0)
  | Eor dst rhs => two_low 0x4040 rhs dst
  | Isb => d2 0xF3BF (0x8F60 |. shl 0xF 0)
  | Ldm addr registers =>
      guard (reg_ge8 addr || N.ltb 0xFF registers) (s1 (0xC800 |. shl (rn addr) 8 |. shl registers 0))
  | Ldr dst addr (Imm off) =>
      if reg_eqb addr PC then
        guard (reg_ge8 dst || zlt off 0 || zgt off 0x3FC || znz (Z.land off 3))
              (s1 (0x4800 |. shl (rn dst) 8 |. shl (u16z (sar off 2)) 0))
      else if reg_eqb addr SP then
        guard (reg_ge8 dst || zlt off 0 || zgt off 0x3FC || znz (Z.land off 3))
              (s1 (0x9800 |. shl (rn dst) 8 |. shl (u16z (sar off 2)) 0))
      else
        guard (reg_ge8 dst || reg_ge8 addr || zlt off 0 || zgt off 0x7C || znz (Z.land off 3))
              (s1 (0x6800 |. shl (u16z (sar off 2)) 6 |. shl (rn addr) 3 |. shl (rn dst) 0))
  | Ldr dst addr (Reg off) => three_low 0x5800 off addr dst
  | Ldrb dst addr (Imm off) =>
      guard (reg_ge8 dst || reg_ge8 addr || zlt off 0 || zgt off 0x1F)
            (s1 (0x7800 |. shl (u16z off) 6 |. shl (rn addr) 3 |. shl (rn dst) 0))
  | Ldrb dst addr (Reg off) => three_low 0x5C00 off addr dst
  | Ldrh dst addr (Imm off) =>
      guard (reg_ge8 dst || reg_ge8 addr || zlt off 0 || zgt off 0x3E || znz (Z.land off 1))
            (s1 (0x8800 |. shl (u16z (sar off 1)) 6 |. shl (rn addr) 3 |. shl (rn dst) 0))
  | Ldrh dst addr (Reg off) => three_low 0x5A00 off addr dst
  | Ldrsb dst addr off => three_low 0x5600 off addr dst
  | Ldrsh dst addr off => three_low 0x5E00 off addr dst
  | Lsl dst value (Imm shift) =>
      guard (reg_ge8 dst || reg_ge8 value || zle shift 0 || zgt shift 31)
            (s1 (0x0000 |. shl (u16z shift) 6 |. shl (rn value) 3 |. shl (rn dst) 0))
  | Lsl dst value (Reg shift) =>
      guard (reg_ge8 dst || negb (reg_eqb value dst) || reg_ge8 shift)
            (s1 (0x4080 |. shl (rn shift) 3 |. shl (rn dst) 0))
  | Lsr dst value (Imm shift) =>
      guard (reg_ge8 dst || reg_ge8 value || zle shift 0 || zgt shift 32)
            (s1 (0x0800 |. shl (u16z (Z.land shift 31)) 6 |. shl (rn value) 3 |. shl (rn dst) 0))
  | Lsr dst value (Reg shift) =>
      guard (reg_ge8 dst || negb (reg_eqb value dst) || reg_ge8 shift)
            (s1 (0x40C0 |. shl (rn shift) 3 |. shl (rn dst) 0))
  | Mov flags dst (Imm src) =>
      guard (negb flags || reg_ge8 dst || zlt src 0 || zgt src 0xFF)
            (s1 (0x2000 |. shl (rn dst) 8 |. shl (u16z src) 0))
  | Mov flags dst (Reg src) =>
      if negb flags || reg_ge8 dst || reg_ge8 src then
        guard flags (let d := rn dst in
                     s1 (0x4600 |. shl (N.land d 8) 4 |. shl (rn src) 3 |. shl (N.land d 7) 0))
      else s1 (0x0000 |. shl (rn src) 3 |. shl (rn dst) 0)
  | Mrs dst src =>
      guard (reg_eqb dst SP || reg_eqb dst PC) (d2 0xF3EF (0x8000 |. shl (rn dst) 8 |. shl (sysreg_num src) 0))
  | Msr dst src =>
      guard (reg_eqb src SP || reg_eqb src PC) (d2 (0xF380 |. shl (rn src) 0) (0x8800 |. shl (sysreg_num dst) 0))
  | Mul dst rhs => two_low 0x4340 rhs dst
  | Mvn dst value => two_low 0x43C0 value dst
  | Nop => s1 0xBF00
  | Orr dst rhs => two_low 0x4300 rhs dst
  | Pop registers =>
      guard (N.eqb registers 0 || negb (N.eqb (N.land registers 0x7F00) 0))
            (s1 (0xBC00 |. N.shiftr (N.land registers 0x8000) 7 |. shl (N.land registers 0xFF) 0))
  | Push registers =>
      guard (N.eqb registers 0 || negb (N.eqb (N.land registers 0xBF00) 0))
            (s1 (0xB400 |. N.shiftr (N.land registers 0x4000) 6 |. shl (N.land registers 0xFF) 0))
  | Rev dst value => two_low 0xBA00 value dst
  | Rev16 dst value => two_low 0xBA40 value dst
  | Revsh dst value => two_low 0xBAC0 value dst
  | Ror dst rhs => two_low 0x41C0 rhs dst
  | Rsb dst lhs => two_low 0x4240 lhs dst
  | Sbc dst rhs => two_low 0x4180 rhs dst
  | Sev => s1 0xBF40
  | Stm addr registers =>
      guard (reg_ge8 addr || N.ltb 0xFF registers) (s1 (0xC000 |. shl (rn addr) 8 |. shl registers 0))
  | Str src addr (Imm off) =>
      if reg_eqb addr SP then
        guard (reg_ge8 src || zlt off 0 || zgt off 0x3FC || znz (Z.land off 3))
              (s1 (0x9000 |. shl (rn src) 8 |. shl (u16z (sar off 2)) 0))
      else
        guard (reg_ge8 src || reg_ge8 addr || zlt off 0 || zgt off 0x7C || znz (Z.land off 3))
              (s1 (0x6000 |. shl (u16z (sar off 2)) 6 |. shl (rn addr) 3 |. shl (rn src) 0))
  | Str src addr (Reg off) => three_low 0x5000 off addr src
  | Strb src addr (Imm off) =>
      guard (reg_ge8 src || reg_ge8 addr || zlt off 0 || zgt off 0x1F)
            (s1 (0x7000 |. shl (u16z off) 6 |. shl (rn addr) 3 |. shl (rn src) 0))
  | Strb src addr (Reg off) => three_low 0x5400 off addr src
  | Strh src addr (Imm off) =>
      guard (reg_ge8 src || reg_ge8 addr || zlt off 0 || zgt off 0x3E || znz (Z.land off 1))
            (s1 (0x8000 |. shl (u16z (sar off 1)) 6 |. shl (rn addr) 3 |. shl (rn src) 0))
  | Strh src addr (Reg off) => three_low 0x5200 off addr src
  | Sub flags dst lhs (Imm rhs) =>
      if reg_eqb lhs SP then
        guard (flags || negb (reg_eqb dst SP) || zlt rhs 0 || zgt rhs 0x1FC || znz (Z.land rhs 3))
              (s1 (0xB080 |. u16z (sar rhs 2)))
      else if negb (reg_eqb dst lhs) then
        guard (negb flags || reg_ge8 dst || reg_ge8 lhs || zlt rhs 0 || zgt rhs 7)
              (s1 (0x1E00 |. shl (u16z rhs) 6 |. shl (rn lhs) 3 |. shl (rn dst) 0))
      else
        guard (negb flags || reg_ge8 dst || zlt rhs 0 || zgt rhs 0xFF)
              (s1 (0x3800 |. shl (rn dst) 8 |. shl (u16z rhs) 0))
  | Sub flags dst lhs (Reg rhs) =>
      guard (negb flags || reg_ge8 dst || reg_ge8 lhs || reg_ge8 rhs)
            (s1 (0x1A00 |. shl (rn rhs) 6 |. shl (rn lhs) 3 |. shl (rn dst) 0))
  | Svc info => s1 (0xDF00 |. shl info 0)
  | Sxtb dst value => two_low 0xB240 value dst
  | Sxth dst value => two_low 0xB200 value dst
  | Tst lhs rhs => two_low 0x4200 rhs lhs
  | Udf info => s1 (0xDE00 |. shl info 0)
  | Udfw info => d2 (0xF7F0 |. shl (N.shiftr (N.land info 0xF000) 12) 0) (0xA000 |. shl (N.land info 0xFFF) 0)
  | Uxtb dst value => two_low 0xB2C0 value dst
  | Uxth dst value => two_low 0xB280 value dst
  | Wfe => s1 0xBF20
  | Wfi => s1 0xBF30
  | Yield => s1 0xBF10
  end.

(* serialisation into `out` (only its length matters): little-endian, first halfword first *)
Inductive encb_result := EbOk (len : N) (bytes : list N) | EbOverflow (need have : N) | EbUnrep.

Definition le16 (h : N) : list N := [N.land h 0xFF; N.shiftr h 8].
Definition le_bytes (hws : list N) : list N := flat_map le16 hws.

Definition enc_bytes (i : instr) (out_len : N) : encb_result :=
  match enc i with
  | EncUnrep => EbUnrep
  | EncOk hws =>
      let need := 2 * N.of_nat (length hws) in
      if N.ltb out_len need then EbOverflow need out_len else EbOk need (le_bytes hws)
  end.
