(* Model of src/arm6m/mod.rs: mnemonic table, register name tables, the `convert!` operand converters
   and the per-instruction operand processing of ArmInstr::assemble.  Expression evaluation is a
   parameter `ev` (the model of asm::simplify::evaluate under the current constant tables): it returns
   the (possibly partially) evaluated argument together with a status.  No proofs here. *)
From Coq Require Import ZArith NArith List Bool Ascii String.
From Trion Require Import Text.Types Arm.Instr Arm.DisplayModel.
Import ListNotations.
Open Scope N_scope.

(* ---------- evaluation interface ---------- *)
Inductive ev_status :=
| SComplete
| SDeferred (cause : str)
| SNoSuchVar (name : str)
| SEvalError.                       (* BadType / Overflow *)
Definition evaluator := arg -> arg * ev_status.

(* ---------- names ---------- *)
Definition upper (b : N) : N := if N.leb 97 b && N.leb b 122 then b - 32 else b.   (* make_ascii_uppercase *)
Definition upper_str (s : str) : str := map upper s.
Fixpoint str_eqb (a b : str) : bool :=
  match a, b with
  | [], [] => true
  | x :: a', y :: b' => N.eqb x y && str_eqb a' b'
  | _, _ => false
  end.
Definition is (s : str) (lit : string) : bool := str_eqb s (bytes_of_string lit).

(* regl: names of at most 4 bytes, compared in upper case *)
Definition regl_upper (u : str) : option reg :=
  if is u "R0" then Some R0 else if is u "R1" then Some R1 else if is u "R2" then Some R2 else if is u "R3" then Some R3
  else if is u "R4" then Some R4 else if is u "R5" then Some R5 else if is u "R6" then Some R6 else if is u "R7" then Some R7
  else if is u "R8" then Some R8 else if is u "R9" then Some R9 else if is u "R10" then Some R10 else if is u "R11" then Some R11
  else if is u "R12" then Some R12 else if is u "R13" then Some SP else if is u "SP" then Some SP
  else if is u "R14" then Some LR else if is u "LR" then Some LR else if is u "R15" then Some PC else if is u "PC" then Some PC
  else None.
Definition regl (name : str) : option reg :=
  if Nat.leb (List.length name) 4 then regl_upper (upper_str name) else None.

Definition sysl (name : str) : option sysreg :=
  if Nat.leb (List.length name) 8 then
    let u := upper_str name in
    if is u "APSR" then Some APSR else if is u "IAPSR" then Some IAPSR else if is u "EAPSR" then Some EAPSR
    else if is u "XPSR" then Some XPSR else if is u "IPSR" then Some IPSR else if is u "EPSR" then Some EPSR
    else if is u "IEPSR" then Some IEPSR else if is u "MSP" then Some MSP else if is u "PSP" then Some PSP
    else if is u "PRIMASK" then Some PRIMASK else if is u "CONTROL" then Some CONTROL else None
  else None.

(* Arm6M::is_register: register and special register names (<= 8 bytes) *)
Definition is_register (name : str) : bool :=
  if Nat.leb (List.length name) 8 then
    match regl name, sysl name with
    | None, None => false
    | _, _ => true
    end
  else false.

(* ---------- mnemonic table (ArmInstr::new) ---------- *)
Definition bcond (c : cond) := Some (B c 0%Z).
Definition template (name : str) : option instr :=
  if Nat.ltb (List.length name) 16 then
    let u := upper_str name in
    if is u "ADCS" then Some (Adc R0 R0)
    else if is u "ADD" then Some (Add false SP SP (Imm 0))
    else if is u "ADDS" then Some (Add true R0 R0 (Imm 0))
    else if is u "ADR" then Some (Adr R0 0)
    else if is u "ANDS" then Some (And R0 R0)
    else if is u "ASRS" then Some (Asr R0 R0 (Imm 1))
    else if is u "B" then bcond Always
    else if is u "BCC" then bcond CarryClear else if is u "BCS" then bcond CarrySet else if is u "BEQ" then bcond Equal
    else if is u "BGE" then bcond GreaterEqual else if is u "BGT" then bcond Greater else if is u "BHI" then bcond Higher
    else if is u "BHS" then bcond CarrySet
    else if is u "BIC" then Some (Bic R0 R0) else if is u "BICS" then Some (Bic R0 R0)
    else if is u "BKPT" then Some (Bkpt 0)
    else if is u "BL" then Some (Bl 0%Z)
    else if is u "BLE" then bcond LessEqual else if is u "BLO" then bcond CarryClear else if is u "BLS" then bcond LowerEqual
    else if is u "BLT" then bcond Less
    else if is u "BLX" then Some (Blx R0)
    else if is u "BMI" then bcond Minus else if is u "BNE" then bcond NonEqual else if is u "BPL" then bcond Plus
    else if is u "BVC" then bcond NoOverflow else if is u "BVS" then bcond Overflow
    else if is u "BX" then Some (Bx R0)
    else if is u "CMN" then Some (Cmn R0 R0)
    else if is u "CMP" then Some (Cmp R0 (Imm 0))
    else if is u "CPSID" then Some (Cps false) else if is u "CPSIE" then Some (Cps true)
    else if is u "DMB" then Some Dmb else if is u "DSB" then Some Dsb
    else if is u "EORS" then Some (Eor R0 R0)
    else if is u "ISB" then Some Isb
    else if is u "LDM" then Some (Ldm R0 0)
    else if is u "LDR" then Some (Ldr R0 R0 (Imm 0)) else if is u "LDRB" then Some (Ldrb R0 R0 (Imm 0))
    else if is u "LDRH" then Some (Ldrh R0 R0 (Imm 0))
    else if is u "LDRSB" then Some (Ldrsb R0 R0 R0) else if is u "LDRSH" then Some (Ldrsh R0 R0 R0)
    else if is u "LSLS" then Some (Lsl R0 R0 (Imm 1)) else if is u "LSRS" then Some (Lsr R0 R0 (Imm 1))
    else if is u "MOV" then Some (Mov false R0 (Reg R0)) else if is u "MOVS" then Some (Mov true R0 (Reg R0))
    else if is u "MRS" then Some (Mrs R0 XPSR) else if is u "MSR" then Some (Msr XPSR R0)
    else if is u "MULS" then Some (Mul R0 R0) else if is u "MVNS" then Some (Mvn R0 R0)
    else if is u "NOP" then Some Nop
    else if is u "ORRS" then Some (Orr R0 R0)
    else if is u "POP" then Some (Pop 1) else if is u "PUSH" then Some (Push 1)
    else if is u "REV" then Some (Rev R0 R0) else if is u "REV16" then Some (Rev16 R0 R0) else if is u "REVSH" then Some (Revsh R0 R0)
    else if is u "RORS" then Some (Ror R0 R0) else if is u "RSBS" then Some (Rsb R0 R0) else if is u "SBCS" then Some (Sbc R0 R0)
    else if is u "SEV" then Some Sev
    else if is u "STM" then Some (Stm R0 0)
    else if is u "STR" then Some (Str R0 R0 (Imm 0)) else if is u "STRB" then Some (Strb R0 R0 (Imm 0))
    else if is u "STRH" then Some (Strh R0 R0 (Imm 0))
    else if is u "SUB" then Some (Sub false SP SP (Imm 0)) else if is u "SUBS" then Some (Sub true R0 R0 (Imm 0))
    else if is u "SVC" then Some (Svc 0)
    else if is u "SXTB" then Some (Sxtb R0 R0) else if is u "SXTH" then Some (Sxth R0 R0)
    else if is u "TST" then Some (Tst R0 R0)
    else if is u "UDF.N" then Some (Udf 0) else if is u "UDF.W" then Some (Udfw 0)
    else if is u "UXTB" then Some (Uxtb R0 R0) else if is u "UXTH" then Some (Uxth R0 R0)
    else if is u "WFE" then Some Wfe else if is u "WFI" then Some Wfi else if is u "YIELD" then Some Yield
    else None
  else None.   (* names of 16 bytes or more are looked up as "" *)

(* ---------- converter state and results ---------- *)
Inductive asm_diag :=
| DNotFound | DTooMany | DNotEnough | DArgType | DValueRange | DNoSuchRegister | DEval | DRange | DAlignment | DEncode.

Record ast := mkAst { a_args : list arg; a_done : nat }.

Inductive conv (A : Type) :=
| COk (v : A) (st : ast)
| CDefer (cause : str) (st : ast)
| CDiag (d : asm_diag) (st : ast)
| CPanic.
Arguments COk {A}. Arguments CDefer {A}. Arguments CDiag {A}. Arguments CPanic {A}.

Definition bind {A B} (c : conv A) (k : A -> ast -> conv B) : conv B :=
  match c with
  | COk v st => k v st
  | CDefer c st => CDefer c st
  | CDiag d st => CDiag d st
  | CPanic => CPanic
  end.
Notation "'do' x , st <- c ; k" := (bind c (fun x st => k)) (at level 200, x name, st name, c at level 100, k at level 200).

Fixpoint set_nth {A} (n : nat) (v : A) (l : list A) : list A :=
  match n, l with
  | O, _ :: r => v :: r
  | S k, x :: r => x :: set_nth k v r
  | _, [] => []
  end.

(* `if self.args_done <= arg_pos { evaluate … ; self.args_done = arg_pos + 1 }` *)
Definition eval_at (ev : evaluator) (local : bool) (pos : nat) (st : ast) : conv arg :=
  match nth_error (a_args st) pos with
  | None => CPanic                          (* index out of bounds: excluded by the arity check *)
  | Some a =>
      if Nat.leb (a_done st) pos then
        let '(a', status) := ev a in
        let st' := mkAst (set_nth pos a' (a_args st)) (a_done st) in
        match status with
        | SComplete => COk a' (mkAst (a_args st') (S pos))
        | SDeferred cause => CDefer cause st'
        | SNoSuchVar name => if local then CDefer name st' else CDiag DEval st'
        | SEvalError => CDiag DEval st'
        end
      else COk a st
  end.

Definition i32_of (v : Z) : option Z := if Z.leb (-2147483648) v && Z.leb v 2147483647 then Some v else None.
Definition u32_of (v : Z) : option N := if Z.leb 0 v && Z.leb v 4294967295 then Some (Z.to_N v) else None.

Definition c_immediate ev local pos st : conv Z :=
  do a, st <- eval_at ev local pos st;
  match a with
  | AConst v => match i32_of v with Some x => COk x st | None => CDiag DValueRange st end
  | _ => CDiag DArgType st
  end.

Definition c_offset ev local pos st : conv N :=
  do a, st <- eval_at ev local pos st;
  match a with
  | AConst v => match u32_of v with Some x => COk x st | None => CDiag DValueRange st end
  | _ => CDiag DArgType st
  end.

Definition c_identifier (pos : nat) (st : ast) : conv str :=
  match nth_error (a_args st) pos with
  | Some (AIdent s) => COk s st
  | Some _ => CDiag DArgType st
  | None => CPanic
  end.

Definition c_register (pos : nat) (st : ast) : conv reg :=
  match nth_error (a_args st) pos with
  | Some (AIdent s) => match regl s with Some r => COk r st | None => CDiag DNoSuchRegister st end
  | Some _ => CDiag DArgType st
  | None => CPanic
  end.

Definition c_sysreg (pos : nat) (st : ast) : conv sysreg :=
  match nth_error (a_args st) pos with
  | Some (AIdent s) => match sysl s with Some r => COk r st | None => CDiag DNoSuchRegister st end
  | Some _ => CDiag DArgType st
  | None => CPanic
  end.

Definition c_immreg ev local pos st : conv immreg :=
  do a, st <- eval_at ev local pos st;
  match a with
  | AConst v => match i32_of v with Some x => COk (Imm x) st | None => CDiag DValueRange st end
  | AIdent s => match regl s with Some r => COk (Reg r) st | None => CDiag DNoSuchRegister st end
  | _ => CDiag DArgType st
  end.

(* regset: every item an identifier naming a register; result = bit set *)
Fixpoint regset_bits (items : list arg) (acc : N) : option N + asm_diag :=
  match items with
  | [] => inl (Some acc)
  | AIdent s :: rest => match regl s with
                        | Some r => regset_bits rest (N.lor acc (N.shiftl 1 (reg_num r)))
                        | None => inr DNoSuchRegister
                        end
  | _ :: _ => inr DArgType
  end.

Definition c_regset (pos : nat) (st : ast) : conv N :=
  match nth_error (a_args st) pos with
  | Some (ASeq items) => match regset_bits items 0 with
                         | inl (Some b) => COk b st
                         | inl None => CPanic
                         | inr d => CDiag d st
                         end
  | Some _ => CDiag DArgType st
  | None => CPanic
  end.

(* addr_off: [reg] | [reg + reg] | [reg + const] | [const + reg] *)
Definition addr_off (a : arg) : (reg * option immreg) + asm_diag :=
  match a with
  | AIdent name => match regl name with Some r => inl (r, Some (Imm 0)) | None => inr DNoSuchRegister end
  | AAdd (AIdent a1) (AIdent o) =>
      match regl a1 with
      | None => inr DNoSuchRegister
      | Some r => match regl o with Some ro => inl (r, Some (Reg ro)) | None => inr DNoSuchRegister end
      end
  | AAdd (AIdent a1) (AConst off) | AAdd (AConst off) (AIdent a1) =>
      match i32_of off with
      | None => inr DValueRange
      | Some o => match regl a1 with Some r => inl (r, Some (Imm o)) | None => inr DNoSuchRegister end
      end
  | _ => inr DValueRange
  end.

Definition c_address ev local pos st : conv (reg * option immreg) :=
  do a, st <- eval_at ev local pos st;
  match a with
  | AAddr inner => match addr_off inner with inl v => COk v st | inr d => CDiag d st end
  | _ => CDiag DArgType st
  end.

Inductive addr_offset := AoAddress (r : reg) (o : option immreg) | AoOffset (v : N).

Definition c_addr_offset ev local pos st : conv addr_offset :=
  do a, st <- eval_at ev local pos st;
  match a with
  | AConst v => match u32_of v with Some x => COk (AoOffset x) st | None => CDiag DValueRange st end
  | AAddr inner => match addr_off inner with inl (r, o) => COk (AoAddress r o) st | inr d => CDiag d st end
  | _ => CDiag DArgType st
  end.

(* arity check of convert!: compared against the whole argument list (arg_pos = 0 at that point) *)
Definition arity (n : nat) (st : ast) : conv unit :=
  if Nat.ltb n (List.length (a_args st)) then CDiag DTooMany st
  else if Nat.ltb (List.length (a_args st)) n then CDiag DNotEnough st
  else COk tt st.

(* PC-relative helpers (offsets computed in i64 from the unwrapped statement address) *)
Definition al_pc (addr : N) : Z := Z.of_N (N.land addr 0xFFFFFFFC) + 4.
Definition lit_offset (addr tgt : N) (st : ast) : conv Z :=
  let off := (Z.of_N tgt - al_pc addr)%Z in
  if Z.ltb off 0 || Z.ltb 1020 off then CDiag DRange st
  else if negb (Z.eqb (Z.land off 3) 0) then CDiag DAlignment st
  else COk off st.
Definition branch_offset (addr tgt : N) (lo hi : Z) (st : ast) : conv Z :=
  let off := (Z.of_N tgt - (Z.of_N addr + 4))%Z in
  if Z.ltb off lo || Z.ltb hi off then CDiag DRange st
  else if negb (Z.eqb (Z.land off 1) 0) then CDiag DAlignment st
  else COk off st.

Definition str_eq_ci (s : str) (lit : string) : bool := str_eqb (upper_str s) (upper_str (bytes_of_string lit)).

Definition rr (mk : reg -> reg -> instr) (st : ast) : conv instr :=
  do _, st <- arity 2 st; do a, st <- c_register 0 st; do b, st <- c_register 1 st; COk (mk a b) st.
Definition rri ev local (mk : reg -> reg -> immreg -> instr) (st : ast) : conv instr :=
  do _, st <- arity 3 st; do a, st <- c_register 0 st; do b, st <- c_register 1 st; do c, st <- c_immreg ev local 2 st; COk (mk a b c) st.
Definition r_addr ev local (mk : reg -> reg -> immreg -> instr) (st : ast) : conv instr :=
  do _, st <- arity 2 st; do a, st <- c_register 0 st; do ad, st <- c_address ev local 1 st;
  COk (mk a (fst ad) (match snd ad with Some o => o | None => Imm 0 end)) st.
Definition r_addr_reg ev local (mk : reg -> reg -> reg -> instr) (st : ast) : conv instr :=
  do _, st <- arity 2 st; do a, st <- c_register 0 st; do ad, st <- c_address ev local 1 st;
  match snd ad with
  | Some (Reg o) => COk (mk a (fst ad) o) st
  | _ => CDiag DValueRange st
  end.
Definition small_imm ev local (bound : Z) (mk : N -> instr) (st : ast) : conv instr :=
  do _, st <- arity 1 st; do v, st <- c_immediate ev local 0 st;
  if Z.leb 0 v && Z.leb v bound then COk (mk (Z.to_N v)) st else CDiag DValueRange st.

(* ArmInstr::assemble: fill the template `t` from the arguments; `addr` is the statement's address *)
Definition assemble_args (ev : evaluator) (local : bool) (addr : N) (t : instr) (st : ast) : conv instr :=
  match t with
  | Adc _ _ => rr Adc st | And _ _ => rr And st | Bic _ _ => rr Bic st | Cmn _ _ => rr Cmn st | Eor _ _ => rr Eor st
  | Mul _ _ => rr Mul st | Mvn _ _ => rr Mvn st | Orr _ _ => rr Orr st | Rev _ _ => rr Rev st | Rev16 _ _ => rr Rev16 st
  | Revsh _ _ => rr Revsh st | Ror _ _ => rr Ror st | Sbc _ _ => rr Sbc st | Sxtb _ _ => rr Sxtb st | Sxth _ _ => rr Sxth st
  | Tst _ _ => rr Tst st | Uxtb _ _ => rr Uxtb st | Uxth _ _ => rr Uxth st
  | Add f _ _ _ => rri ev local (Add f) st
  | Sub f _ _ _ => rri ev local (Sub f) st
  | Asr _ _ _ => rri ev local Asr st | Lsl _ _ _ => rri ev local Lsl st | Lsr _ _ _ => rri ev local Lsr st
  | Adr _ _ =>
      do _, st <- arity 2 st; do d, st <- c_register 0 st; do tgt, st <- c_offset ev local 1 st;
      do off, st <- lit_offset addr tgt st; COk (Adr d (Z.to_N (Z.land off 0xFFFF))) st
  | B c _ =>
      do _, st <- arity 1 st; do tgt, st <- c_offset ev local 0 st;
      do off, st <- (if cond_eqb c Always then branch_offset addr tgt (-2048) 2046 st else branch_offset addr tgt (-256) 254 st);
      COk (B c off) st
  | Bkpt _ =>
      do _, st <- arity 1 st; do v, st <- c_offset ev local 0 st;
      if N.leb v 255 then COk (Bkpt v) st else CDiag DValueRange st
  | Bl _ =>
      do _, st <- arity 1 st; do tgt, st <- c_offset ev local 0 st;
      do off, st <- branch_offset addr tgt (-16777216) 16777215 st; COk (Bl off) st
  | Blx _ => do _, st <- arity 1 st; do r, st <- c_register 0 st; COk (Blx r) st
  | Bx _ => do _, st <- arity 1 st; do r, st <- c_register 0 st; COk (Bx r) st
  | Cmp _ _ => do _, st <- arity 2 st; do a, st <- c_register 0 st; do b, st <- c_immreg ev local 1 st; COk (Cmp a b) st
  | Mov f _ _ => do _, st <- arity 2 st; do a, st <- c_register 0 st; do b, st <- c_immreg ev local 1 st; COk (Mov f a b) st
  | Cps e => do _, st <- arity 1 st; do pm, st <- c_identifier 0 st; if str_eq_ci pm "i" then COk (Cps e) st else CDiag DValueRange st
  | Dmb | Dsb | Isb => do _, st <- arity 1 st; do o, st <- c_identifier 0 st; if str_eq_ci o "SY" then COk t st else CDiag DValueRange st
  | Ldm _ _ => do _, st <- arity 2 st; do a, st <- c_register 0 st; do l, st <- c_regset 1 st; COk (Ldm a l) st
  | Stm _ _ => do _, st <- arity 2 st; do a, st <- c_register 0 st; do l, st <- c_regset 1 st; COk (Stm a l) st
  | Pop _ => do _, st <- arity 1 st; do l, st <- c_regset 0 st; COk (Pop l) st
  | Push _ => do _, st <- arity 1 st; do l, st <- c_regset 0 st; COk (Push l) st
  | Ldr _ _ _ =>
      do _, st <- arity 2 st; do d, st <- c_register 0 st; do ao, st <- c_addr_offset ev local 1 st;
      match ao with
      | AoAddress r o => COk (Ldr d r (match o with Some x => x | None => Imm 0 end)) st
      | AoOffset tgt => do off, st <- lit_offset addr tgt st; COk (Ldr d PC (Imm off)) st
      end
  | Ldrb _ _ _ => r_addr ev local Ldrb st | Ldrh _ _ _ => r_addr ev local Ldrh st
  | Str _ _ _ => r_addr ev local Str st | Strb _ _ _ => r_addr ev local Strb st | Strh _ _ _ => r_addr ev local Strh st
  | Ldrsb _ _ _ => r_addr_reg ev local Ldrsb st | Ldrsh _ _ _ => r_addr_reg ev local Ldrsh st
  | Mrs _ _ => do _, st <- arity 2 st; do d, st <- c_register 0 st; do s, st <- c_sysreg 1 st; COk (Mrs d s) st
  | Msr _ _ => do _, st <- arity 2 st; do s, st <- c_sysreg 0 st; do r, st <- c_register 1 st; COk (Msr s r) st
  | Nop | Sev | Wfe | Wfi | Yield => do _, st <- arity 0 st; COk t st
  | Rsb _ _ =>
      do _, st <- arity 3 st; do d, st <- c_register 0 st; do l, st <- c_register 1 st; do z, st <- c_immediate ev local 2 st;
      if Z.eqb z 0 then COk (Rsb d l) st else CDiag DValueRange st
  | Svc _ => small_imm ev local 255 Svc st
  | Udf _ => small_imm ev local 255 Udf st
  | Udfw _ => small_imm ev local 65535 Udfw st
  end.

(* a whole instruction statement: mnemonic lookup, then operand processing *)
Definition assemble_stmt (ev : evaluator) (local : bool) (addr : N) (name : str) (args : list arg) : conv instr :=
  match template name with
  | None => CDiag DNotFound (mkAst args 0)
  | Some t => assemble_args ev local addr t (mkAst args 0)
  end.
