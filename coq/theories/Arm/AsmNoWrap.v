(* C04: never a wrapped, truncated or neighbouring encoding.  A statement that assembles to the instruction value i was
   read as exactly the operand values of i (AsmSpelling.stmt_assembles_reads: every field of i is the value of the
   corresponding argument, PC-relative fields are target - (statement address + 4), exactly, within the ranges of the
   Rust field types), and the encoder's answer on i is the ARMv6-M table's answer on i (C01: CodecProofs.enc_is_table):
   the table's halfwords, or Unrepresentable when the table has no row for these operand values. *)
From Coq Require Import ZArith NArith List Bool.
From Trion Require Import Text.Types Arm.Instr Arm.EncodeModel Arm.Armv6mSpec Arm.CodecCheck Arm.CodecProofs
  Arm.AsmStmtModel Arm.AsmStmtProofs Arm.AsmOperands Arm.AsmRejects Arm.AsmSpelling.
Import ListNotations.

Theorem no_wrap : forall ev local addr name args i st',
  assemble_stmt ev local addr name args = COk i st' ->
  template name = Some (kind_template i) /\ wf_instr i /\ stmt_reads ev i addr args /\ enc i = of_spec (armv6m_enc i).
Proof.
  intros ev local addr name args i st' H. destruct (stmt_assembles_reads ev local addr name args i st' H) as [T [W R]].
  repeat split; try assumption. exact (enc_is_table i W).
Qed.
