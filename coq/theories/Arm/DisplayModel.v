(* Model of `impl Display for InstrAt` (src/arm6m/asm.rs): the exact text printed for an instruction
   at an address.  Text is a list of bytes (ASCII).  No proofs here. *)
From Coq Require Import ZArith NArith List Bool Ascii String.
From Trion Require Import Arm.Instr.
Import ListNotations.
Open Scope N_scope.

Fixpoint bytes_of_string (s : string) : list N :=
  match s with
  | EmptyString => []
  | String a r => N_of_ascii a :: bytes_of_string r
  end.
Notation "$ x" := (bytes_of_string x) (at level 9, x at level 0).

(* decimal, as Rust's Display for unsigned / signed integers *)
Fixpoint dec_digits (fuel : nat) (n : N) (acc : list N) : list N :=
  match fuel with
  | O => acc
  | S f => let acc' := (48 + n mod 10) :: acc in
           if N.ltb n 10 then acc' else dec_digits f (n / 10) acc'
  end.
Definition show_N (n : N) : list N := dec_digits 40 n [].
Definition show_Z (z : Z) : list N :=
  match z with
  | Z0 => show_N 0
  | Zpos p => show_N (Npos p)
  | Zneg p => 45 :: show_N (Npos p)
  end.

Definition hex_digit (d : N) : N := if N.ltb d 10 then 48 + d else 55 + d.   (* upper case *)
(* {:08X} *)
Definition hex8 (n : N) : list N :=
  map (fun k => hex_digit (N.land (N.shiftr n (4 * k)) 15)) [7; 6; 5; 4; 3; 2; 1; 0].

Definition u32w (z : Z) : N := Z.to_N (Z.land z 0xFFFFFFFF).          (* wrap into u32 *)
Definition wadd (a : N) (b : Z) : N := u32w (Z.of_N a + b).             (* wrapping_add / wrapping_add_signed *)

Definition reg_name (r : reg) : list N :=
  match r with
  | R0 => $"R0" | R1 => $"R1" | R2 => $"R2" | R3 => $"R3" | R4 => $"R4" | R5 => $"R5" | R6 => $"R6" | R7 => $"R7"
  | R8 => $"R8" | R9 => $"R9" | R10 => $"R10" | R11 => $"R11" | R12 => $"R12" | SP => $"SP" | LR => $"LR" | PC => $"PC"
  end.
Definition sysreg_name (s : sysreg) : list N :=
  match s with
  | APSR => $"APSR" | IAPSR => $"IAPSR" | EAPSR => $"EAPSR" | XPSR => $"XPSR" | IPSR => $"IPSR" | EPSR => $"EPSR"
  | IEPSR => $"IEPSR" | MSP => $"MSP" | PSP => $"PSP" | PRIMASK => $"PRIMASK" | CONTROL => $"CONTROL"
  end.
Definition cond_suffix (c : cond) : list N :=
  match c with
  | Equal => $"EQ" | NonEqual => $"NE" | CarrySet => $"CS" | CarryClear => $"CC" | Minus => $"MI" | Plus => $"PL"
  | Overflow => $"VS" | NoOverflow => $"VC" | Higher => $"HI" | LowerEqual => $"LS" | GreaterEqual => $"GE"
  | Less => $"LT" | Greater => $"GT" | LessEqual => $"LE" | Always => []
  end.
Definition immreg_text (x : immreg) : list N := match x with Imm v => show_Z v | Reg r => reg_name r end.

(* RegisterSet: {R0, R1, ...} in ascending bit order *)
Definition regset_text (bits : N) : list N :=
  let names := flat_map (fun r => if N.testbit bits (reg_num r) then [reg_name r] else []) all_regs in
  $"{" ++ (match names with
           | [] => []
           | n :: rest => n ++ flat_map (fun x => $", " ++ x) rest
           end) ++ $"}".

Definition label (target : N) : list N := $"l_" ++ hex8 target.
Definition align4_pc (addr : N) : N := wadd (N.land addr 0xFFFFFFFC) 4.
Definition sfx (f : bool) : list N := if f then $"S" else [].

Definition two (m : string) (a b : reg) : list N := $m ++ $" " ++ reg_name a ++ $", " ++ reg_name b ++ $";".
Definition mem (m : string) (t a : reg) (o : list N) : list N :=
  $m ++ $" " ++ reg_name t ++ $", [" ++ reg_name a ++ $" + " ++ o ++ $"];".
Definition three (m : list N) (a b : reg) (c : list N) : list N :=
  m ++ $" " ++ reg_name a ++ $", " ++ reg_name b ++ $", " ++ c ++ $";".

Definition display (i : instr) (addr : N) : list N :=
  match i with
  | Adc d r => two "ADCS" d r
  | Add f d l x => three ($"ADD" ++ sfx f) d l (immreg_text x)
  | Adr d off => $"ADR " ++ reg_name d ++ $", " ++ label (wadd (align4_pc addr) (Z.of_N off)) ++ $";"
  | And d r => two "ANDS" d r
  | Asr d v x => three $"ASRS" d v (immreg_text x)
  | B c off => $"B" ++ cond_suffix c ++ $" " ++ label (wadd (wadd addr 4) off) ++ $";"
  | Bic d r => two "BICS" d r
  | Bkpt n => $"BKPT " ++ show_N n ++ $";"
  | Bl off => $"BL " ++ label (wadd (wadd addr 4) off) ++ $";"
  | Blx m => $"BLX " ++ reg_name m ++ $";"
  | Bx m => $"BX " ++ reg_name m ++ $";"
  | Cmn a b => two "CMN" a b
  | Cmp a x => $"CMP " ++ reg_name a ++ $", " ++ immreg_text x ++ $";"
  | Cps e => if e then $"CPSIE i;" else $"CPSID i;"
  | Dmb => $"DMB SY;"
  | Dsb => $"DSB SY;"
  | Eor d r => two "EORS" d r
  | Isb => $"ISB SY;"
  | Ldm a l => $"LDM " ++ reg_name a ++ $", " ++ regset_text l ++ $";"
  | Ldr d PC (Imm off) => $"LDR " ++ reg_name d ++ $", " ++ label (wadd (align4_pc addr) off) ++ $";"
  | Ldr d a x => mem "LDR" d a (immreg_text x)
  | Ldrb d a x => mem "LDRB" d a (immreg_text x)
  | Ldrh d a x => mem "LDRH" d a (immreg_text x)
  | Ldrsb d a o => mem "LDRSB" d a (reg_name o)
  | Ldrsh d a o => mem "LDRSH" d a (reg_name o)
  | Lsl d v x => three $"LSLS" d v (immreg_text x)
  | Lsr d v x => three $"LSRS" d v (immreg_text x)
  | Mov f d x => $"MOV" ++ sfx f ++ $" " ++ reg_name d ++ $", " ++ immreg_text x ++ $";"
  | Mrs d s => $"MRS " ++ reg_name d ++ $", " ++ sysreg_name s ++ $";"
  | Msr s r => $"MSR " ++ sysreg_name s ++ $", " ++ reg_name r ++ $";"
  | Mul d r => two "MULS" d r
  | Mvn d v => two "MVNS" d v
  | Nop => $"NOP;"
  | Orr d r => two "ORRS" d r
  | Pop l => $"POP " ++ regset_text l ++ $";"
  | Push l => $"PUSH " ++ regset_text l ++ $";"
  | Rev d v => two "REV" d v
  | Rev16 d v => two "REV16" d v
  | Revsh d v => two "REVSH" d v
  | Ror d r => two "RORS" d r
  | Rsb d l => $"RSBS " ++ reg_name d ++ $", " ++ reg_name l ++ $", 0;"
  | Sbc d r => two "SBCS" d r
  | Sev => $"SEV;"
  | Stm a l => $"STM " ++ reg_name a ++ $", " ++ regset_text l ++ $";"
  | Str s a x => mem "STR" s a (immreg_text x)
  | Strb s a x => mem "STRB" s a (immreg_text x)
  | Strh s a x => mem "STRH" s a (immreg_text x)
  | Sub f d l x => three ($"SUB" ++ sfx f) d l (immreg_text x)
  | Svc n => $"SVC " ++ show_N n ++ $";"
  | Sxtb d v => two "SXTB" d v
  | Sxth d v => two "SXTH" d v
  | Tst a b => two "TST" a b
  | Udf n => $"UDF.N " ++ show_N n ++ $";"
  | Udfw n => $"UDF.W " ++ show_N n ++ $";"
  | Uxtb d v => two "UXTB" d v
  | Uxth d v => two "UXTH" d v
  | Wfe => $"WFE;"
  | Wfi => $"WFI;"
  | Yield => $"YIELD;"
  end.

(* the architectural target of a PC-relative instruction at `addr` (None for the others) *)
Definition pc_target (i : instr) (addr : N) : option N :=
  match i with
  | Adr _ off => Some (wadd (align4_pc addr) (Z.of_N off))
  | B _ off | Bl off => Some (wadd (wadd addr 4) off)
  | Ldr _ PC (Imm off) => Some (wadd (align4_pc addr) off)
  | _ => None
  end.

(* no wrap-around: the property's "target lies inside the 32-bit address space" *)
Definition target_in_space (i : instr) (addr : N) : bool :=
  match i with
  | Adr _ off => Z.ltb (Z.of_N (N.land addr 0xFFFFFFFC) + 4 + Z.of_N off) 4294967296
  | B _ off | Bl off => Z.leb 0 (Z.of_N addr + 4 + off) && Z.ltb (Z.of_N addr + 4 + off) 4294967296
  | Ldr _ PC (Imm off) => Z.leb 0 (Z.of_N (N.land addr 0xFFFFFFFC) + 4 + off) && Z.ltb (Z.of_N (N.land addr 0xFFFFFFFC) + 4 + off) 4294967296
  | _ => true
  end.
