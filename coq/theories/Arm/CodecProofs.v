(* C01/C02: codec_ok for every well-formed instruction; lifting of the kernel sweeps plus the
   symbolic "outside the window both reject" lemmas. *)
From Coq Require Import ZArith NArith List Bool Lia.
From Trion Require Import Base.Sweep Arm.Instr Arm.EncodeModel Arm.DecodeModel Arm.Armv6mSpec Arm.CodecCheck
  Arm.CodecSweepA Arm.CodecSweepAdd Arm.CodecSweepSub Arm.CodecSweepMem Arm.CodecSweepList
  Arm.CodecSweepLdm Arm.CodecSweepStm Arm.CodecSweepAdr.
Import ListNotations.
Open Scope Z_scope.

(* ---------- rejected on both sides => codec_ok ---------- *)
Lemma codec_ok_rejected i : enc i = EncUnrep -> armv6m_enc i = None -> codec_ok i = true.
Proof. intros H1 H2. unfold codec_ok, enc_is_spec, roundtrip_ok. rewrite H1, H2. reflexivity. Qed.

Ltac kill_low v :=
  repeat match goal with
  | |- context [zlt v ?k] => replace (zlt v k) with true by (symmetry; apply Z.ltb_lt; lia)
  | |- context [zle v ?k] => replace (zle v k) with true by (symmetry; apply Z.leb_le; lia)
  | |- context [Z.leb ?k v] => replace (Z.leb k v) with false by (symmetry; apply Z.leb_gt; lia)
  end.
Ltac kill_high v :=
  repeat match goal with
  | |- context [zgt v ?k] => replace (zgt v k) with true by (symmetry; apply Z.ltb_lt; lia)
  | |- context [zge v ?k] => replace (zge v k) with true by (symmetry; apply Z.leb_le; lia)
  | |- context [Z.leb v ?k] => replace (Z.leb v k) with false by (symmetry; apply Z.leb_gt; lia)
  end.
Ltac finish_rej :=
  repeat rewrite ?orb_true_r, ?orb_true_l, ?andb_false_r, ?andb_false_l;
  repeat match goal with |- context [if ?b then _ else _] => destruct b end; reflexivity.

Ltac enc_out v H :=
  unfold enc, guard; destruct H as [H|H]; [kill_low v | kill_high v]; finish_rej.
Ltac spec_out v H :=
  unfold armv6m_enc, ri8, ri5, row16, imm_in; destruct H as [H|H]; [kill_low v | kill_high v]; finish_rej.

Definition outside (v lo hi : Z) : Prop := v < lo \/ hi <= v.

Lemma out_add f d l v : outside v (-1024) 1024 -> codec_ok (Add f d l (Imm v)) = true.
Proof. intros H. apply codec_ok_rejected; [enc_out v H | destruct f; spec_out v H]. Qed.
Lemma out_sub f d l v : outside v (-1024) 1024 -> codec_ok (Sub f d l (Imm v)) = true.
Proof. intros H. apply codec_ok_rejected; [enc_out v H | destruct f; spec_out v H]. Qed.
Lemma out_ldr d a v : outside v (-1024) 1024 -> codec_ok (Ldr d a (Imm v)) = true.
Proof. intros H. apply codec_ok_rejected; [enc_out v H | spec_out v H]. Qed.
Lemma out_str d a v : outside v (-1024) 1024 -> codec_ok (Str d a (Imm v)) = true.
Proof. intros H. apply codec_ok_rejected; [enc_out v H | spec_out v H]. Qed.
Lemma out_small (k : reg -> reg -> immreg -> instr) d a v :
  In k [Ldrb; Ldrh; Strb; Strh; Asr; Lsl; Lsr] -> outside v (-64) 64 -> codec_ok (k d a (Imm v)) = true.
Proof.
  intros Hk H. cbn [In] in Hk.
  repeat (destruct Hk as [<-|Hk]; [apply codec_ok_rejected; [enc_out v H | spec_out v H]|]).
  contradiction.
Qed.
Lemma out_cmp a v : outside v (-256) 256 -> codec_ok (Cmp a (Imm v)) = true.
Proof. intros H. apply codec_ok_rejected; [enc_out v H | spec_out v H]. Qed.
Lemma out_mov f a v : outside v (-256) 256 -> codec_ok (Mov f a (Imm v)) = true.
Proof. intros H. apply codec_ok_rejected; [enc_out v H | destruct f; [spec_out v H | reflexivity]]. Qed.
Lemma out_b c v : outside v (-4096) 4096 -> codec_ok (B c v) = true.
Proof. intros H. apply codec_ok_rejected; [destruct c; enc_out v H | destruct c; spec_out v H]. Qed.

(* ---------- inside the windows: lifted sweeps ---------- *)
Lemma win (f : Z -> bool) lo (depth : nat) w : w = 2 ^ Z.of_nat depth -> allZ f lo 1 depth = true ->
  forall v, ~ outside v lo (lo + w) -> f v = true.
Proof. intros -> H v Hv. apply (allZ_window f lo depth H). unfold outside in Hv. lia. Qed.

Lemma outside_dec v lo hi : {outside v lo hi} + {~ outside v lo hi}.
Proof.
  unfold outside. destruct (Z_lt_dec v lo); [left; lia|]. destruct (Z_le_dec hi v); [left; lia|]. right; lia.
Qed.

Lemma ok_add f d l v : codec_ok (Add f d l (Imm v)) = true.
Proof.
  destruct (outside_dec v (-1024) 1024) as [H|H]; [apply out_add; exact H|].
  assert (A := R2_spec _ (Bo_spec _ sw_Add_imm f) d l). cbv beta in A.
  exact (win _ (-1024) 11 2048 eq_refl A v H).
Qed.
Lemma ok_sub f d l v : codec_ok (Sub f d l (Imm v)) = true.
Proof.
  destruct (outside_dec v (-1024) 1024) as [H|H]; [apply out_sub; exact H|].
  assert (A := R2_spec _ (Bo_spec _ sw_Sub_imm f) d l). cbv beta in A.
  exact (win _ (-1024) 11 2048 eq_refl A v H).
Qed.
Lemma ok_ldr d a v : codec_ok (Ldr d a (Imm v)) = true.
Proof.
  destruct (outside_dec v (-1024) 1024) as [H|H]; [apply out_ldr; exact H|].
  assert (A := R2_spec _ sw_ldr_imm d a). cbv beta in A.
  exact (win _ (-1024) 11 2048 eq_refl A v H).
Qed.
Lemma ok_str d a v : codec_ok (Str d a (Imm v)) = true.
Proof.
  destruct (outside_dec v (-1024) 1024) as [H|H]; [apply out_str; exact H|].
  assert (A := R2_spec _ sw_str_imm d a). cbv beta in A.
  exact (win _ (-1024) 11 2048 eq_refl A v H).
Qed.
Lemma ok_small (k : reg -> reg -> immreg -> instr) d a v :
  In k [Ldrb; Ldrh; Strb; Strh; Asr; Lsl; Lsr] -> codec_ok (k d a (Imm v)) = true.
Proof.
  intros Hk. destruct (outside_dec v (-64) 64) as [H|H]; [apply out_small; assumption|].
  assert (A := R2_spec _ sw_small_imm d a). cbv beta in A.
  assert (B := win _ (-64) 7 128 eq_refl A v H). cbv beta in B.
  exact (proj1 (forallb_forall _ _) B k Hk).
Qed.
Lemma ok_cmp a v : codec_ok (Cmp a (Imm v)) = true.
Proof.
  destruct (outside_dec v (-256) 256) as [H|H]; [apply out_cmp; exact H|].
  assert (A := R1_spec _ sw_cmp_mov_imm a). cbv beta in A.
  assert (B := win _ (-256) 9 512 eq_refl A v H). cbv beta in B.
  apply andb_prop in B. destruct B as [B _]. apply andb_prop in B. tauto.
Qed.
Lemma ok_mov f a v : codec_ok (Mov f a (Imm v)) = true.
Proof.
  destruct (outside_dec v (-256) 256) as [H|H]; [apply out_mov; exact H|].
  assert (A := R1_spec _ sw_cmp_mov_imm a). cbv beta in A.
  assert (B := win _ (-256) 9 512 eq_refl A v H). cbv beta in B.
  apply andb_prop in B. destruct B as [B B3]. apply andb_prop in B. destruct B as [B1 B2].
  destruct f; assumption.
Qed.
Lemma ok_b c v : codec_ok (B c v) = true.
Proof.
  destruct (outside_dec v (-4096) 4096) as [H|H]; [apply out_b; exact H|].
  assert (A := conds_spec _ sw_b c). cbv beta in A.
  exact (win _ (-4096) 13 8192 eq_refl A v H).
Qed.

Lemma ok_two (k : reg -> reg -> instr) a b :
  In k [Adc; And; Bic; Cmn; Eor; Mul; Mvn; Orr; Rev; Rev16; Revsh; Ror; Rsb; Sbc; Sxtb; Sxth; Tst; Uxtb; Uxth] ->
  codec_ok (k a b) = true.
Proof.
  intros Hk. assert (A := R2_spec _ sw_two a b). cbv beta in A.
  exact (proj1 (forallb_forall _ _) A k Hk).
Qed.
Lemma ok_reg3 (k : reg -> reg -> immreg -> instr) a b c :
  In k [Asr; Lsl; Lsr; Ldr; Ldrb; Ldrh; Str; Strb; Strh] -> codec_ok (k a b (Reg c)) = true.
Proof.
  intros Hk. assert (A := R3_spec _ sw_reg3 a b c). cbv beta in A.
  exact (proj1 (forallb_forall _ _) A k Hk).
Qed.
Lemma ok_none i : In i [Dmb; Dsb; Isb; Nop; Sev; Wfe; Wfi; Yield; Cps true; Cps false] -> codec_ok i = true.
Proof. intros Hi. exact (proj1 (forallb_forall _ _) sw_none i Hi). Qed.

Lemma n16 n : (n < 65536)%N -> (n < 2 ^ N.of_nat 16)%N.
Proof. intros H. exact H. Qed.
Lemma n8 n : (n < 256)%N -> (n < 2 ^ N.of_nat 8)%N.
Proof. intros H. exact H. Qed.

(* ---------- BL ---------- *)
From Trion Require Import Arm.BlEncProofs.

Lemma out_bl v : outside v (-16777216) 16777216 -> codec_ok (Bl v) = true.
Proof.
  intros H. apply codec_ok_rejected.
  - enc_out v H.
  - unfold armv6m_enc, row32, imm_in. destruct H as [H|H]; [kill_low v | kill_high v]; finish_rej.
Qed.

Lemma odd_bl v : Z.even v = false -> codec_ok (Bl v) = true.
Proof.
  intros Ev. assert (Od : Z.odd v = true) by (rewrite <- Z.negb_even, Ev; reflexivity).
  apply codec_ok_rejected.
  - unfold enc, guard. replace (znz (Z.land v 1)) with true; [finish_rej|].
    unfold znz. change 1 with (Z.ones 1). rewrite Z.land_ones by lia.
    change (2 ^ 1) with 2. rewrite Zmod_odd, Od. reflexivity.
  - unfold armv6m_enc, row32, imm_in. replace (v mod 2 =? 0) with false; [finish_rej|].
    rewrite Zmod_odd, Od. reflexivity.
Qed.

Lemma ok_bl v : codec_ok (Bl v) = true.
Proof.
  destruct (outside_dec v (-16777216) 16777216) as [H|H]; [apply out_bl; exact H|].
  destruct (Z.even v) eqn:Ev; [|apply odd_bl; exact Ev].
  apply sw_bl_all; [unfold outside in H; lia | exact Ev].
Qed.

(* ---------- every well-formed instruction ---------- *)
Theorem codec_ok_all i : wf_instr i -> codec_ok i = true.
Proof.
  destruct i; cbn [wf_instr]; intros W;
  try (apply ok_two; cbn; tauto);
  try (apply ok_none; cbn; tauto);
  try match goal with x : immreg |- _ => destruct x as [v|r] end;
  try (apply ok_reg3; cbn; tauto);
  try (apply ok_small; cbn; tauto).
  - apply ok_add.
  - assert (A := R3_spec _ (Bo_spec _ sw_reg3f flags) dst lhs r). cbv beta in A. apply andb_prop in A. tauto.
  - exact (allN_spec _ 16 (R1_spec _ sw_Adr dst) off (n16 _ W)).
  - apply ok_b.
  - assert (A := allN_spec _ 8 sw_info8 info (n8 _ W)). cbv beta in A.
    apply andb_prop in A. destruct A as [A _]. apply andb_prop in A. tauto.
  - apply ok_bl.
  - assert (A := R1_spec _ sw_one off). cbv beta in A. apply andb_prop in A. tauto.
  - assert (A := R1_spec _ sw_one off). cbv beta in A. apply andb_prop in A. tauto.
  - apply ok_cmp.
  - assert (A := R2_spec _ sw_reg2 lhs r). cbv beta in A.
    apply andb_prop in A. destruct A as [A _]. apply andb_prop in A. tauto.
  - destruct enable; apply ok_none; cbn; tauto.
  - exact (allN_spec _ 16 (R1_spec _ sw_Ldm addr) registers (n16 _ W)).
  - apply ok_ldr.
  - assert (A := R3_spec _ sw_three dst addr off). cbv beta in A. apply andb_prop in A. tauto.
  - assert (A := R3_spec _ sw_three dst addr off). cbv beta in A. apply andb_prop in A. tauto.
  - apply ok_mov.
  - assert (A := R2_spec _ sw_reg2 dst r). cbv beta in A.
    apply andb_prop in A. destruct A as [A A3]. apply andb_prop in A. destruct A as [A1 A2].
    destruct flags; assumption.
  - assert (A := sysregs_spec _ (R1_spec _ sw_sys dst) src). cbv beta in A. apply andb_prop in A. tauto.
  - assert (A := sysregs_spec _ (R1_spec _ sw_sys src) dst). cbv beta in A. apply andb_prop in A. tauto.
  - assert (A := allN_spec _ 16 sw_pop_push_udfw registers (n16 _ W)). cbv beta in A.
    apply andb_prop in A. destruct A as [A _]. apply andb_prop in A. tauto.
  - assert (A := allN_spec _ 16 sw_pop_push_udfw registers (n16 _ W)). cbv beta in A.
    apply andb_prop in A. destruct A as [A _]. apply andb_prop in A. tauto.
  - exact (allN_spec _ 16 (R1_spec _ sw_Stm addr) registers (n16 _ W)).
  - apply ok_str.
  - apply ok_sub.
  - assert (A := R3_spec _ (Bo_spec _ sw_reg3f flags) dst lhs r). cbv beta in A. apply andb_prop in A. tauto.
  - assert (A := allN_spec _ 8 sw_info8 info (n8 _ W)). cbv beta in A.
    apply andb_prop in A. destruct A as [A _]. apply andb_prop in A. tauto.
  - assert (A := allN_spec _ 8 sw_info8 info (n8 _ W)). cbv beta in A. apply andb_prop in A. tauto.
  - assert (A := allN_spec _ 16 sw_pop_push_udfw info (n16 _ W)). cbv beta in A. apply andb_prop in A. tauto.
Qed.

(* ---------- consequences: C01 and C02 statements ---------- *)
Open Scope N_scope.

Lemma listN_eqb_eq a : forall b, listN_eqb a b = true -> a = b.
Proof.
  induction a as [|x a IH]; intros [|y b] H; cbn in H; try discriminate; [reflexivity|].
  apply andb_prop in H. destruct H as [H1 H2]. apply N.eqb_eq in H1. subst y. f_equal. apply IH. exact H2.
Qed.

Lemma enc_result_eqb_eq a b : enc_result_eqb a b = true -> a = b.
Proof.
  destruct a as [x|], b as [y|]; cbn; intros H; try discriminate; [|reflexivity].
  f_equal. apply listN_eqb_eq. exact H.
Qed.

Lemma instr_eqb_eq a b : instr_eqb a b = true -> a = b.
Proof. unfold instr_eqb. destruct (instr_eq_dec a b); [trivial | discriminate]. Qed.

Theorem enc_is_table i : wf_instr i -> enc i = of_spec (armv6m_enc i).
Proof.
  intros W. apply enc_result_eqb_eq. assert (A := codec_ok_all i W).
  unfold codec_ok in A. apply andb_prop in A. tauto.
Qed.

Theorem dec_enc_roundtrip i hws : wf_instr i -> enc i = EncOk hws ->
  dec (le_bytes hws) = DecOk (2 * N.of_nat (length hws)) i.
Proof.
  intros W E. assert (A := codec_ok_all i W). unfold codec_ok in A. apply andb_prop in A.
  destruct A as [_ A]. unfold roundtrip_ok in A. rewrite E in A.
  destruct (dec (le_bytes hws)) as [n j| |]; try discriminate.
  apply andb_prop in A. destruct A as [A1 A2]. apply N.eqb_eq in A1. apply instr_eqb_eq in A2. now subst.
Qed.

Theorem enc_injective i j hws : wf_instr i -> wf_instr j -> enc i = EncOk hws -> enc j = EncOk hws -> i = j.
Proof.
  intros Wi Wj Ei Ej. assert (A := dec_enc_roundtrip i hws Wi Ei). assert (B := dec_enc_roundtrip j hws Wj Ej).
  rewrite A in B. now inversion B.
Qed.

(* the encoder's output has one or two halfwords, each below 2^16 *)
Theorem enc_length i hws : wf_instr i -> enc i = EncOk hws -> length hws = 1%nat \/ length hws = 2%nat.
Proof.
  intros W E. rewrite (enc_is_table i W) in E.
  destruct (armv6m_enc i) as [h|] eqn:S; [|discriminate]. cbn in E. inversion E; subst h. clear E.
  destruct i; cbn [armv6m_enc] in S;
  repeat match type of S with
  | context [match ?x with _ => _ end] => destruct x
  end;
  unfold dp, r3, ri5, ri8, row16, row32 in S;
  repeat match type of S with context [if ?b then _ else _] => destruct b end;
  inversion S; cbn; tauto.
Qed.

(* decoding looks at the first 2 or 4 bytes only *)
Lemma dec_h0_app h0 r rest n i : dec_h0 h0 r = DecOk n i -> dec_h0 h0 (r ++ rest) = DecOk n i.
Proof.
  unfold dec_h0. destruct (N.shiftr h0 11) as [|p]; [trivial|].
  do 5 (destruct p as [p|p|]; trivial);
  destruct r as [|b2 [|b3 r']]; cbn [app]; trivial; discriminate.
Qed.

Theorem dec_app bs rest n i : dec bs = DecOk n i -> dec (bs ++ rest) = DecOk n i.
Proof.
  destruct bs as [|b0 [|b1 r]]; cbn [dec app]; try discriminate. apply dec_h0_app.
Qed.

Lemma le16_spec h : le16 h = [h mod 256; h / 256].
Proof.
  unfold le16. change 0xFF with (N.ones 8). rewrite N.land_ones, N.shiftr_div_pow2. reflexivity.
Qed.

Lemma le_bytes_spec hws : le_bytes hws = spec_bytes hws.
Proof.
  unfold le_bytes, spec_bytes. induction hws as [|h t IH]; [reflexivity|].
  cbn [flat_map]. rewrite le16_spec, IH. reflexivity.
Qed.

Theorem enc_bytes_table i n : wf_instr i ->
  enc_bytes i n = match armv6m_enc i with
                  | None => EbUnrep
                  | Some hws => let need := 2 * N.of_nat (length hws) in
                                if N.ltb n need then EbOverflow need n else EbOk need (spec_bytes hws)
                  end.
Proof.
  intros W. unfold enc_bytes. rewrite (enc_is_table i W).
  destruct (armv6m_enc i) as [hws|]; cbn [of_spec]; [|reflexivity]. now rewrite le_bytes_spec.
Qed.
