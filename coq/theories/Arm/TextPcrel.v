(* C19 down to the printed characters for the PC-relative instructions (ADR, B, B<cc>, BL, LDR literal), for ALL label
   values: the printed text `MNEMONIC [Rd, ]l_XXXXXXXX;` is tokenized and parsed to exactly the statement of DisplayArgs.
   The text is an instance of ShowSpec.show (one space after the mnemonic and after the comma), so the step from characters to
   tokens is ShowProofs.show_tokens and the step from tokens to the statement is C09. *)
From Coq Require Import ZArith NArith List Bool Lia String.
From Trion Require Import Base.Utf8 Text.Types Text.Render Text.ShowSpec Text.ShowProofs Text.Pipeline Expr.EvalModel
  Arm.Instr Arm.EncodeModel Arm.DisplayModel Arm.DisplayArgs Arm.AsmStmtModel Arm.AsmStmtProofs Arm.AsmEvalLink Arm.TextSweep Arm.TextProofs
  Bin.TextRoundtrip.
Import ListNotations.
Open Scope N_scope.

(* ---------------------------------------------------------------- the label is an identifier *)
Lemma land15 x : N.land x 15 < 16.
Proof. change 15 with (N.ones 4). rewrite N.land_ones. apply N.mod_lt. discriminate. Qed.

Lemma hex_digit_ident d : d < 16 -> ident_char (hex_digit d) = true.
Proof. intros H. unfold hex_digit, ident_char, ident_start. destruct (N.ltb d 10) eqn:E; [apply N.ltb_lt in E|apply N.ltb_ge in E]; lia. Qed.

Lemma hex8_length t : List.length (hex8 t) = 8%nat.
Proof. reflexivity. Qed.

Lemma hex8_ident t : forallb ident_char (hex8 t) = true.
Proof. unfold hex8. cbn [map forallb]. rewrite !hex_digit_ident by apply land15. reflexivity. Qed.

Lemma label_ident t : ident_ok (label t) = true.
Proof. unfold label. change (ident_ok ($"l_" ++ hex8 t)) with (forallb ident_char (95 :: hex8 t)). cbn [forallb]. now rewrite hex8_ident. Qed.

Lemma reg_ident d : ident_ok (reg_name d) = true.
Proof. destruct d; reflexivity. Qed.

Arguments label : simpl never.
Arguments reg_name : simpl never.

(* ---------------------------------------------------------------- the two text shapes *)
Lemma sep_none : separator []. Proof. apply Sep_ws. constructor. Qed.
Lemma sep_space : separator [32]. Proof. apply Sep_ws. repeat constructor. Qed.

(* MNEMONIC l_XXXXXXXX; *)
Lemma text_branch m t : ident_ok m = true ->
  stmt_of_text (m ++ $" " ++ label t ++ $";") = Some (m, [label_arg t]).
Proof.
  intros Hm. change (m ++ $" " ++ label t ++ $";") with (show (render_stmt (EInstruction m [label_arg t])) [[]; [32]; []]).
  apply stmt_of_text_show.
  - cbn [render_stmt render_list render label_arg prec Nat.ltb Nat.leb app].
    repeat constructor; [exact Hm|apply label_ident].
  - cbn [render_stmt render_list render label_arg prec Nat.ltb Nat.leb app seps_ok hd tl show show_tok follow_ok].
    repeat split; try apply sep_none; try apply sep_space; try apply (ESep _ sep_none); reflexivity.
Qed.

(* MNEMONIC Rd, l_XXXXXXXX; *)
Lemma text_reg_label m d t : ident_ok m = true ->
  stmt_of_text (m ++ $" " ++ reg_name d ++ $", " ++ label t ++ $";") = Some (m, [id_reg d; label_arg t]).
Proof.
  intros Hm.
  replace (m ++ $" " ++ reg_name d ++ $", " ++ label t ++ $";")
    with (show (render_stmt (EInstruction m [id_reg d; label_arg t])) [[]; [32]; []; [32]; []])
    by (cbn [render_stmt render_list render label_arg id_reg prec Nat.ltb Nat.leb app show show_tok hd tl]; reflexivity).
  apply stmt_of_text_show.
  - cbn [render_stmt render_list render label_arg id_reg prec Nat.ltb Nat.leb app].
    repeat constructor; [exact Hm|apply reg_ident|apply label_ident].
  - cbn [render_stmt render_list render label_arg id_reg prec Nat.ltb Nat.leb app seps_ok hd tl show show_tok follow_ok].
    repeat split; try apply sep_none; try apply sep_space; try apply (ESep _ sep_none); reflexivity.
Qed.

(* ---------------------------------------------------------------- every PC-relative instruction, every label value *)
Theorem text_roundtrip_pcrel i addr : pcrel i = true ->
  stmt_of_text (display i addr) = Some (mnemonic i, display_args i addr).
Proof.
  unfold pcrel. destruct i; cbn [pc_target]; intros H; try discriminate H.
  - (* ADR *) exact (text_reg_label $"ADR" dst _ eq_refl).
  - (* B, B<cc> *) destruct c; match goal with |- stmt_of_text _ = Some (?m, _) => exact (text_branch m _ eq_refl) end.
  - (* BL *) exact (text_branch $"BL" _ eq_refl).
  - (* LDR literal *)
    destruct addr0; try discriminate H. destruct off; try discriminate H.
    exact (text_reg_label $"LDR" dst _ eq_refl).
Qed.

Corollary text_ok_pcrel i addr : pcrel i = true -> text_ok i addr = true.
Proof.
  intros H. unfold text_ok. rewrite (text_roundtrip_pcrel i addr H).
  assert (A : forall s, ArgEq.strN_eqb s s = true) by (induction s as [|x s IH]; [reflexivity|cbn; now rewrite N.eqb_refl, IH]).
  rewrite A. cbn [andb]. unfold pcrel in H. destruct i; cbn [pc_target] in H; try discriminate H; cbn [display_args ArgEq.args_eqb ArgEq.arg_eqb label_arg id_reg]; rewrite ?A; try reflexivity.
  destruct addr0; try discriminate H. destruct off; try discriminate H. cbn [display_args ArgEq.args_eqb ArgEq.arg_eqb label_arg id_reg]. now rewrite !A.
Qed.

(* from the printed characters back to the instruction: text -> tokens -> statement -> operand converters *)
Theorem text_to_instr_pcrel lk local i addr hws :
  (forall t, t < 4294967296 -> lk (label t) = Found (Z.of_N t)) ->
  wf_instr i -> enc i = EncOk hws -> pcrel i = true -> addr < 4294967296 -> target_in_space i addr = true ->
  asm_text lk local addr (display i addr) = Some i.
Proof.
  intros LB W E P Ha T. unfold asm_text. rewrite (text_roundtrip_pcrel i addr P).
  exact (stmt_roundtrip_eval lk local i addr hws LB W E Ha T).
Qed.

(* ---------------------------------------------------------------- the 32-bit instructions without a PC-relative operand *)
(* MRS, MSR, DMB, DSB, ISB, UDF.W: their texts are covered by the kernel sweeps of TextSweep.v (all register / system register
   pairs, all 2^16 UDF.W payloads); together with text_roundtrip16 (16-bit patterns) and text_to_instr_pcrel every instruction
   kind is covered at the level of characters *)
Definition wide_plain (i : instr) : bool :=
  match i with Mrs _ _ | Msr _ _ | Dmb | Dsb | Isb | Udfw _ => true | _ => false end.

Theorem text_to_instr_wide lk local i addr hws :
  (forall t, t < 4294967296 -> lk (label t) = Found (Z.of_N t)) ->
  wf_instr i -> enc i = EncOk hws -> wide_plain i = true -> addr < 4294967296 ->
  asm_text lk local addr (display i addr) = Some i.
Proof.
  intros LB W E P Ha. unfold asm_text.
  assert (T : text_ok i addr = true).
  { destruct i; try discriminate P.
    - exact (proj1 (text_roundtrip_barriers addr)).
    - exact (proj1 (proj2 (text_roundtrip_barriers addr))).
    - exact (proj2 (proj2 (text_roundtrip_barriers addr))).
    - exact (proj1 (text_roundtrip_sys dst src addr)).
    - exact (proj2 (text_roundtrip_sys src dst addr)).
    - exact (text_roundtrip_udfw info addr W). }
  rewrite (text_ok_spec i addr T).
  apply (stmt_roundtrip_eval lk local i addr hws LB W E Ha). destruct i; try discriminate P; reflexivity.
Qed.
