(* Link between the operand converters' abstract evaluator (AsmStmtModel.evaluator) and the model of
   asm::simplify::evaluate (Expr/EvalModel.v): the hypotheses `ev_display` of C19/C04 hold for the
   real evaluator model whenever the printed labels are bound to the addresses they name. *)
From Coq Require Import ZArith NArith List Bool String Lia.
From Trion Require Import Text.Types Expr.I64 Expr.SimplifyModel Expr.EvalModel
  Arm.Instr Arm.DisplayModel Arm.DisplayArgs Arm.AsmStmtModel Arm.AsmStmtProofs.
Import ListNotations.

Definition ev_of (lk : str -> lookup_res) : evaluator := fun a =>
  match evaluate lk is_register a with
  | Ok (a', Complete _) => (a', SComplete)
  | Ok (a', Deferred _ c) => (a', SDeferred c)
  | Err ENoSuchVariable => (a, SNoSuchVar [])
  | _ => (a, SEvalError)
  end.

Lemma is_register_reg r : is_register (reg_name r) = true.
Proof. destruct r; vm_compute; reflexivity. Qed.

Lemma is_register_label t : is_register (label t) = false.
Proof. reflexivity. Qed.

Section Link.
Variable lk : str -> lookup_res.
Hypothesis labels_bound : forall t, (t < 4294967296)%N -> lk (label t) = Found (Z.of_N t).

Lemma ev_of_const v : ev_of lk (AConst v) = (AConst v, SComplete).
Proof. reflexivity. Qed.

Lemma ev_of_reg r : ev_of lk (id_reg r) = (id_reg r, SComplete).
Proof. unfold ev_of, id_reg. cbn [evaluate]. rewrite is_register_reg. reflexivity. Qed.

Lemma ev_of_label t : (t < 4294967296)%N -> ev_of lk (label_arg t) = (AConst (Z.of_N t), SComplete).
Proof. intros H. unfold ev_of, label_arg. cbn [evaluate]. rewrite is_register_label, (labels_bound t H). reflexivity. Qed.

Lemma ev_of_neg p : (Zpos p <= 2147483648)%Z -> ev_of lk (ANeg (AConst (Zpos p))) = (AConst (Zneg p), SComplete).
Proof. intros H. unfold ev_of. vm_compute. reflexivity. Qed.

Lemma ev_of_mem_reg a o : ev_of lk (mem_arg a (id_reg o)) = (mem_arg a (id_reg o), SComplete).
Proof. unfold ev_of. destruct a, o; vm_compute; reflexivity. Qed.

Lemma ev_of_mem_zero a : ev_of lk (mem_arg a (AConst 0%Z)) = (AAddr (id_reg a), SComplete).
Proof. unfold ev_of. destruct a; vm_compute; reflexivity. Qed.

Lemma ev_of_mem_pos a p : ev_of lk (mem_arg a (AConst (Zpos p))) = (mem_arg a (AConst (Zpos p)), SComplete).
Proof. unfold ev_of. destruct a; vm_compute; reflexivity. Qed.
End Link.

Theorem ev_of_display lk : (forall t, (t < 4294967296)%N -> lk (label t) = Found (Z.of_N t)) -> ev_display (ev_of lk).
Proof.
  intros LB. constructor.
  - apply ev_of_const.
  - apply ev_of_reg.
  - intros p H. apply ev_of_neg. exact H.
  - intros t H. apply ev_of_label; assumption.
  - intros a v Hv. destruct v as [|p|p]; [right; split; [reflexivity | apply ev_of_mem_zero] | left; apply ev_of_mem_pos | lia].
  - apply ev_of_mem_reg.
Qed.

(* C19 / C04 with the evaluator model plugged in: no hypothesis about evaluation is left *)
Theorem stmt_roundtrip_eval lk local i addr hws :
  (forall t, (t < 4294967296)%N -> lk (label t) = Found (Z.of_N t)) ->
  wf_instr i -> EncodeModel.enc i = EncodeModel.EncOk hws -> (addr < 4294967296)%N -> target_in_space i addr = true ->
  conv_val (assemble_stmt (ev_of lk) local addr (mnemonic i) (display_args i addr)) = Some i.
Proof. intros LB. apply stmt_roundtrip. apply ev_of_display. exact LB. Qed.
