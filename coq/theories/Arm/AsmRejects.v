(* C04: rejections and inversion of the operand processing (model: Arm/AsmStmtModel.v).
   - arity_many / arity_few: a wrong operand count is DTooMany / DNotEnough, for every template;
   - asm_no_panic: no statement reaches an out-of-bounds index or an unreachable arm;
   - first_failure: with the right count, the diagnostic is the verdict of the first operand (left to right) whose
     converter rejects it (AsmOperands.verdict: wrong kind = DArgType, unknown register = DNoSuchRegister, number outside
     i32 / u32 = DValueRange, evaluation error = DEval);
   - assembles_reads: a statement that assembles to i was READ as exactly the operand values of i (AsmOperands.reads):
     every field of i is the value of the corresponding argument, PC-relative fields are target - (address + 4), exactly. *)
From Coq Require Import ZArith NArith List Bool Ascii String Lia.
From Trion Require Import Text.Types Arm.Instr Arm.EncodeModel Arm.DisplayModel Arm.DisplayArgs Arm.AsmStmtModel Arm.AsmStmtProofs Arm.AsmOperands.
Import ListNotations.
Open Scope N_scope.

Ltac unf := cbn [assemble_args]; unfold rr, rri, r_addr, r_addr_reg, small_imm, arity; cbn [a_args].

Lemma arity_many ev local addr t args : (List.length (kinds t) < List.length args)%nat ->
  assemble_args ev local addr t (mkAst args 0) = CDiag DTooMany (mkAst args 0).
Proof.
  intros H. destruct t; cbn [kinds List.length] in H; unf; rewrite (proj2 (Nat.ltb_lt _ _) H); reflexivity.
Qed.

Lemma arity_few ev local addr t args : (List.length args < List.length (kinds t))%nat ->
  assemble_args ev local addr t (mkAst args 0) = CDiag DNotEnough (mkAst args 0).
Proof.
  intros H. destruct t; cbn [kinds List.length] in H; unf;
  (rewrite (proj2 (Nat.ltb_ge _ _)) by lia); rewrite (proj2 (Nat.ltb_lt _ _) H); reflexivity.
Qed.

Ltac brk1 :=
  match goal with
  | |- context [match ?x with _ => _ end] => is_var x; destruct x
  | |- context [match ?x with _ => _ end] => lazymatch x with context [match _ with _ => _ end] => fail | _ => destruct x eqn:? end
  end.
Ltac brk := repeat (cbn [bind nth_error a_args a_done fst snd Nat.leb Nat.ltb List.length] in *; try discriminate; try brk1).

Lemma regset_bits_nopanic items acc : regset_bits items acc <> inl None.
Proof. revert acc. induction items as [|a items IH]; intros acc; cbn [regset_bits]; [discriminate|]. destruct a; try discriminate. destruct (regl s); [apply IH | discriminate]. Qed.

Theorem asm_no_panic ev local addr t args : assemble_args ev local addr t (mkAst args 0) <> CPanic.
Proof.
  destruct (Nat.lt_trichotomy (List.length args) (List.length (kinds t))) as [H|[H|H]].
  - rewrite arity_few by exact H. discriminate.
  - destruct t; cbn [kinds List.length] in H;
    repeat (let a := fresh "a" in destruct args as [|a args]; cbn [List.length] in H; try discriminate H); clear H.
    all: cbn [assemble_args]; unfold rr, rri, r_addr, r_addr_reg, small_imm, arity; cbn [a_args List.length Nat.ltb Nat.leb bind].
    all: unfold c_register, c_sysreg, c_identifier, c_regset, c_immreg, c_immediate, c_offset, c_address, c_addr_offset, eval_at, lit_offset, branch_offset.
    all: try (brk; try discriminate; fail).
    all: brk.
    all: match goal with H : regset_bits _ _ = inl None |- _ => exfalso; exact (regset_bits_nopanic _ _ H) end.
  - rewrite arity_many by exact H. discriminate.
Qed.


Lemma i32_of_some v z : i32_of v = Some z -> z = v /\ i32_ok v.
Proof.
  unfold i32_of, i32_ok. destruct (Z.leb_spec (-2147483648) v); [|discriminate]. destruct (Z.leb_spec v 2147483647); [|discriminate].
  cbn [andb]. intros HH. inversion HH. lia.
Qed.
Lemma u32_of_some v n : u32_of v = Some n -> v = Z.of_N n /\ n < 4294967296.
Proof.
  unfold u32_of. destruct (Z.leb_spec 0 v); [|discriminate]. destruct (Z.leb_spec v 4294967295); [|discriminate].
  cbn [andb]. intros HH. inversion HH. lia.
Qed.
Lemma addr_off_some a r o : addr_off a = inl (r, o) -> exists x, o = Some x /\ immreg_ok x.
Proof.
  destruct a; cbn [addr_off]; try discriminate.
  - destruct (regl s); [|discriminate]. intros H; inversion H; subst. eexists; split; [reflexivity|]. cbn. unfold i32_ok. lia.
  - destruct a1; try discriminate; destruct a2; try discriminate.
    + destruct (i32_of v) eqn:E; [|discriminate]. destruct (regl s); [|discriminate]. intros H; inversion H; subst.
      apply i32_of_some in E. destruct E as [-> E]. eexists; split; [reflexivity|exact E].
    + destruct (i32_of v) eqn:E; [|discriminate]. destruct (regl s); [|discriminate]. intros H; inversion H; subst.
      apply i32_of_some in E. destruct E as [-> E]. eexists; split; [reflexivity|exact E].
    + destruct (regl s); [|discriminate]. destruct (regl s0); [|discriminate]. intros H; inversion H; subst.
      eexists; split; [reflexivity|exact I].
Qed.
Lemma regset_bits_bound items acc b : regset_bits items acc = inl (Some b) -> acc < 65536 -> b < 65536.
Proof.
  revert acc. induction items as [|a items IH]; intros acc; cbn [regset_bits].
  - intros H; inversion H; subst; auto.
  - destruct a; try discriminate. destruct (regl s) as [r|]; [|discriminate]. intros H Ha. apply (IH _ H).
    change 65536 with (2 ^ 16). destruct (N.eq_dec (N.lor acc (N.shiftl 1 (reg_num r))) 0) as [->|NZ]; [reflexivity|].
    apply N.log2_lt_pow2; [lia|]. rewrite N.log2_lor. apply N.max_lub_lt.
    + destruct (N.eq_dec acc 0) as [->|NA]; [reflexivity|]. apply N.log2_lt_pow2; [lia|exact Ha].
    + destruct r; vm_compute; reflexivity.
Qed.

Ltac brk1 ::=
  match goal with
  | |- context [match ?x with _ => _ end] => is_var x; destruct x
  | |- context [match ?x with _ => _ end] => lazymatch x with context [match _ with _ => _ end] => fail | _ => destruct x eqn:? end
  | |- context [bind ?c _] => destruct c eqn:?
  end.

Ltac prep :=
  repeat match goal with
  | H : i32_of _ = Some _ |- _ => apply i32_of_some in H; destruct H as [-> ?]
  | H : u32_of _ = Some _ |- _ => apply u32_of_some in H; destruct H as [-> ?]
  | H : branch_offset _ _ _ _ _ = COk _ _ |- _ => apply branch_offset_inv in H; destruct H as [? [? ?]]
  | H : lit_offset _ _ _ = COk _ _ |- _ => apply lit_offset_inv in H; destruct H as [? [? ?]]
  | p : (reg * option immreg)%type |- _ => destruct p; cbn [fst snd] in *
  | H : Some _ = Some _ |- _ => inversion H; subst; clear H
  | H : addr_off _ = inl (_, ?o) |- _ => is_var o; let x := fresh "x" in let E := fresh "E" in let W := fresh "W" in
      destruct (addr_off_some _ _ _ H) as [x [E W]]; subst o
  | H : addr_off _ = inl (_, None) |- _ => exfalso; destruct (addr_off_some _ _ _ H) as [? [? _]]; discriminate
  | H : addr_off _ = inl (_, Some ?x) |- _ => lazymatch goal with W : immreg_ok x |- _ => fail | _ =>
      let x' := fresh "x" in let E := fresh "E" in let W := fresh "W" in
      destruct (addr_off_some _ _ _ H) as [x' [E W]]; inversion E; subst x' end
  | H : andb _ _ = true |- _ => apply andb_prop in H; destruct H
  | H : Z.leb _ _ = true |- _ => apply Z.leb_le in H
  | H : N.leb _ _ = true |- _ => apply N.leb_le in H
  | H : Z.eqb _ _ = true |- _ => apply Z.eqb_eq in H
  end.

Lemma land_small off : (0 <= off <= 1020)%Z -> Z.land off 0xFFFF = off.
Proof. intros H. change 0xFFFF%Z with (Z.ones 16). rewrite Z.land_ones by lia. apply Z.mod_small. lia. Qed.

Ltac wf_fin := cbn [wf_instr immreg_ok]; unfold i32_ok in *; try exact I; try assumption; try lia;
   try (eapply regset_bits_bound; [eassumption | reflexivity]);
   try (rewrite land_small by lia; lia).
Ltac rd := cbn [reads]; first [ eexists; split; [reflexivity | eassumption] | eexists; split; [eassumption | eassumption]
    | eassumption
    | match goal with H : ?ev ?a = (AConst ?x, SComplete) |- ?ev ?a = (AConst ?y, SComplete) => let E := fresh "E" in assert (E : y = x) by (unfold al_pc; try rewrite land_small by lia; try rewrite Z2N.id by lia; lia); rewrite E; exact H end ].
Ltac ops_fin := cbn [operands]; repeat (constructor; [rd|]); try constructor.
Theorem assembles_reads ev local addr t args i st' :
  assemble_args ev local addr t (mkAst args 0) = COk i st' ->
  kind_template i = kind_template t /\ wf_instr i /\ stmt_reads ev i addr args.
Proof.
  destruct (Nat.lt_trichotomy (List.length args) (List.length (kinds t))) as [H|[H|H]].
  - rewrite arity_few by exact H. discriminate.
  - destruct t; cbn [kinds List.length] in H;
    repeat (let a := fresh "a" in destruct args as [|a args]; cbn [List.length] in H; try discriminate H); clear H.
    all: cbn [assemble_args]; unfold rr, rri, r_addr, r_addr_reg, small_imm, arity; cbn [a_args List.length Nat.ltb Nat.leb bind].
    all: unfold c_register, c_sysreg, c_identifier, c_regset, c_immreg, c_immediate, c_offset, c_address, c_addr_offset, eval_at.
    all: brk; intros HH; inversion HH; subst; clear HH.
    all: prep.
    all: (split; [reflexivity|]).
    all: (split; [wf_fin|]).
    all: try (apply Exists_cons_hd; ops_fin; fail).
    all: try (match goal with |- stmt_reads _ (Ldr _ ?b ?x) _ _ => destruct b; destruct x end;
              first [apply Exists_cons_hd; ops_fin; fail | apply Exists_cons_tl; apply Exists_cons_hd; ops_fin]; fail).
  - rewrite arity_many by exact H. discriminate.
Qed.


Section Verdicts.
Variable ev : evaluator.
Variable local : bool.

Lemma c_register_acc pos st a : nth_error (a_args st) pos = Some a -> verdict ev local KReg a = VAccept ->
  exists r, c_register pos st = COk r st.
Proof. intros H V. unfold c_register. rewrite H. unfold verdict in V. cbn in V. destruct a; try discriminate. destruct (regl s); [eexists; reflexivity | discriminate]. Qed.
Lemma c_register_rej pos st a d : nth_error (a_args st) pos = Some a -> verdict ev local KReg a = VDiag d ->
  c_register pos st = CDiag d st.
Proof. intros H V. unfold c_register. rewrite H. unfold verdict in V. cbn in V. destruct a; try (inversion V; reflexivity). destruct (regl s); [discriminate | inversion V; reflexivity]. Qed.
Lemma c_sysreg_acc pos st a : nth_error (a_args st) pos = Some a -> verdict ev local KSys a = VAccept ->
  exists r, c_sysreg pos st = COk r st.
Proof. intros H V. unfold c_sysreg. rewrite H. unfold verdict in V. cbn in V. destruct a; try discriminate. destruct (sysl s); [eexists; reflexivity | discriminate]. Qed.
Lemma c_sysreg_rej pos st a d : nth_error (a_args st) pos = Some a -> verdict ev local KSys a = VDiag d ->
  c_sysreg pos st = CDiag d st.
Proof. intros H V. unfold c_sysreg. rewrite H. unfold verdict in V. cbn in V. destruct a; try (inversion V; reflexivity). destruct (sysl s); [discriminate | inversion V; reflexivity]. Qed.
Lemma c_identifier_rej pos st a d : nth_error (a_args st) pos = Some a -> verdict ev local KName a = VDiag d ->
  c_identifier pos st = CDiag d st.
Proof. intros H V. unfold c_identifier. rewrite H. unfold verdict in V. cbn in V. destruct a; try (inversion V; reflexivity). Qed.
Lemma c_regset_rej pos st a d : nth_error (a_args st) pos = Some a -> verdict ev local KSet a = VDiag d ->
  c_regset pos st = CDiag d st.
Proof.
  intros H V. unfold c_regset. rewrite H. unfold verdict in V. cbn in V. destruct a; try (inversion V; reflexivity).
  destruct (regset_bits items 0) as [[b|]|d']; try discriminate. inversion V; reflexivity.
Qed.

Ltac evrej H V :=
  let a' := fresh "a'" in let s := fresh "s" in
  unfold eval_at; cbn [a_args a_done]; rewrite H; cbn [Nat.leb]; unfold verdict in V; cbn [evaluated] in V;
  match goal with |- context [ev ?a] => destruct (ev a) as [a' s] end; destruct s; cbn [bind];
  try (destruct local); try discriminate; try (inversion V; subst; eexists; reflexivity);
  cbn [shape_verdict] in V; destruct a'; cbn [bind]; try (inversion V; subst; eexists; reflexivity);
  repeat match goal with
  | |- context [match ?x with _ => _ end] => (destruct x as [[? ?]|?] + destruct x); try discriminate; try (inversion V; subst; eexists; reflexivity)
  end.

Lemma c_immreg_rej pos args a d : nth_error args pos = Some a -> verdict ev local KImmReg a = VDiag d ->
  exists st', c_immreg ev local pos (mkAst args 0) = CDiag d st'.
Proof. intros H V. unfold c_immreg. evrej H V. Qed.
Lemma c_immediate_rej pos args a d : nth_error args pos = Some a -> verdict ev local KImm a = VDiag d ->
  exists st', c_immediate ev local pos (mkAst args 0) = CDiag d st'.
Proof. intros H V. unfold c_immediate. evrej H V. Qed.
Lemma c_offset_rej pos args a d : nth_error args pos = Some a -> verdict ev local KOff a = VDiag d ->
  exists st', c_offset ev local pos (mkAst args 0) = CDiag d st'.
Proof. intros H V. unfold c_offset. evrej H V. Qed.
Lemma c_address_rej pos args a d : nth_error args pos = Some a -> verdict ev local KAddr a = VDiag d ->
  exists st', c_address ev local pos (mkAst args 0) = CDiag d st'.
Proof. intros H V. unfold c_address. evrej H V. Qed.
Lemma c_addr_offset_rej pos args a d : nth_error args pos = Some a -> verdict ev local KAddrOff a = VDiag d ->
  exists st', c_addr_offset ev local pos (mkAst args 0) = CDiag d st'.
Proof. intros H V. unfold c_addr_offset. evrej H V. Qed.
End Verdicts.

Ltac ff_step :=
  cbn [bind];
  match goal with
  | V : verdict _ _ KReg ?a = VDiag ?d |- context [c_register ?pos ?st] => rewrite (c_register_rej _ _ pos st a d eq_refl V)
  | V : verdict _ _ KReg ?a = VAccept |- context [c_register ?pos ?st] =>
      let r := fresh "r" in let E := fresh "E" in destruct (c_register_acc _ _ pos st a eq_refl V) as [r E]; rewrite E; clear E
  | V : verdict _ _ KSys ?a = VDiag ?d |- context [c_sysreg ?pos ?st] => rewrite (c_sysreg_rej _ _ pos st a d eq_refl V)
  | V : verdict _ _ KSys ?a = VAccept |- context [c_sysreg ?pos ?st] =>
      let r := fresh "r" in let E := fresh "E" in destruct (c_sysreg_acc _ _ pos st a eq_refl V) as [r E]; rewrite E; clear E
  | V : verdict _ _ KName ?a = VDiag ?d |- context [c_identifier ?pos ?st] => rewrite (c_identifier_rej _ _ pos st a d eq_refl V)
  | V : verdict _ _ KSet ?a = VDiag ?d |- context [c_regset ?pos ?st] => rewrite (c_regset_rej _ _ pos st a d eq_refl V)
  | V : verdict _ _ KImmReg ?a = VDiag ?d |- context [c_immreg ?ev ?local ?pos (mkAst ?args 0)] =>
      let s := fresh "st" in let E := fresh "E" in destruct (c_immreg_rej ev local pos args a d eq_refl V) as [s E]; rewrite E; clear E
  | V : verdict _ _ KImm ?a = VDiag ?d |- context [c_immediate ?ev ?local ?pos (mkAst ?args 0)] =>
      let s := fresh "st" in let E := fresh "E" in destruct (c_immediate_rej ev local pos args a d eq_refl V) as [s E]; rewrite E; clear E
  | V : verdict _ _ KOff ?a = VDiag ?d |- context [c_offset ?ev ?local ?pos (mkAst ?args 0)] =>
      let s := fresh "st" in let E := fresh "E" in destruct (c_offset_rej ev local pos args a d eq_refl V) as [s E]; rewrite E; clear E
  | V : verdict _ _ KAddr ?a = VDiag ?d |- context [c_address ?ev ?local ?pos (mkAst ?args 0)] =>
      let s := fresh "st" in let E := fresh "E" in destruct (c_address_rej ev local pos args a d eq_refl V) as [s E]; rewrite E; clear E
  | V : verdict _ _ KAddrOff ?a = VDiag ?d |- context [c_addr_offset ?ev ?local ?pos (mkAst ?args 0)] =>
      let s := fresh "st" in let E := fresh "E" in destruct (c_addr_offset_rej ev local pos args a d eq_refl V) as [s E]; rewrite E; clear E
  end.

Theorem first_failure ev local addr t args p k a d :
  List.length args = List.length (kinds t) ->
  nth_error (kinds t) p = Some k -> nth_error args p = Some a -> verdict ev local k a = VDiag d ->
  (forall q kq aq, (q < p)%nat -> nth_error (kinds t) q = Some kq -> nth_error args q = Some aq -> verdict ev local kq aq = VAccept) ->
  exists st, assemble_args ev local addr t (mkAst args 0) = CDiag d st.
Proof.
  intros L K A V P.
  destruct t; cbn [kinds List.length] in L, K, P;
  repeat (let a := fresh "a" in destruct args as [|a args]; cbn [List.length] in L; try discriminate L); clear L.
  all: destruct p as [|[|[|p]]]; cbn [nth_error] in K, A; try discriminate K; try (destruct p; discriminate K); injection K as <-; injection A as <-.
  all: try (pose proof (P 0%nat _ _ ltac:(lia) eq_refl eq_refl) as P0).
  all: try (pose proof (P 1%nat _ _ ltac:(lia) eq_refl eq_refl) as P1).
  all: clear P.
  all: cbn [assemble_args]; unfold rr, rri, r_addr, r_addr_reg, small_imm, arity; cbn [a_args List.length Nat.ltb Nat.leb bind].
  all: repeat ff_step; cbn [bind].
  all: try (eexists; reflexivity).
Qed.


(* ---------------------------------------------------------------- statement level *)
Theorem stmt_no_panic ev local addr name args : assemble_stmt ev local addr name args <> CPanic.
Proof. unfold assemble_stmt. destruct (template name); [apply asm_no_panic | discriminate]. Qed.

Theorem stmt_unknown_mnemonic ev local addr name args : template name = None ->
  assemble_stmt ev local addr name args = CDiag DNotFound (mkAst args 0).
Proof. intros H. unfold assemble_stmt. now rewrite H. Qed.

Theorem stmt_too_many ev local addr name t args : template name = Some t -> (List.length (kinds t) < List.length args)%nat ->
  assemble_stmt ev local addr name args = CDiag DTooMany (mkAst args 0).
Proof. intros H L. unfold assemble_stmt. rewrite H. now apply arity_many. Qed.

Theorem stmt_not_enough ev local addr name t args : template name = Some t -> (List.length args < List.length (kinds t))%nat ->
  assemble_stmt ev local addr name args = CDiag DNotEnough (mkAst args 0).
Proof. intros H L. unfold assemble_stmt. rewrite H. now apply arity_few. Qed.

Theorem stmt_first_failure ev local addr name t args p k a d : template name = Some t ->
  List.length args = List.length (kinds t) ->
  nth_error (kinds t) p = Some k -> nth_error args p = Some a -> verdict ev local k a = VDiag d ->
  (forall q kq aq, (q < p)%nat -> nth_error (kinds t) q = Some kq -> nth_error args q = Some aq -> verdict ev local kq aq = VAccept) ->
  exists st, assemble_stmt ev local addr name args = CDiag d st.
Proof. intros H. unfold assemble_stmt. rewrite H. apply first_failure. Qed.

(* the verdicts, spelled out: what makes an operand the wrong kind / an unknown name / out of range *)
Definition is_ident (a : arg) : bool := match a with AIdent _ => true | _ => false end.
Definition is_const_arg (a : arg) : bool := match a with AConst _ => true | _ => false end.
Definition is_addr (a : arg) : bool := match a with AAddr _ => true | _ => false end.
Definition is_seq (a : arg) : bool := match a with ASeq _ => true | _ => false end.

(* the shapes a converter accepts at all *)
Definition kind_shape (k : okind) (a : arg) : bool :=
  match k with
  | KReg | KSys | KName => is_ident a
  | KSet => is_seq a
  | KImm | KOff => is_const_arg a
  | KImmReg => is_const_arg a || is_ident a
  | KAddr => is_addr a
  | KAddrOff => is_const_arg a || is_addr a
  end.

(* the argument as the converter sees it: evaluated first for the evaluated kinds *)
Definition seen (ev : evaluator) (k : okind) (a a' : arg) : Prop :=
  if evaluated k then ev a = (a', SComplete) else a' = a.

Lemma verdict_seen ev local k a a' : seen ev k a a' ->
  verdict ev local k a = match shape_verdict k a' with None => VAccept | Some d => VDiag d end.
Proof. unfold seen, verdict. destruct (evaluated k); [intros -> | intros ->]; reflexivity. Qed.

Theorem verdict_wrong_kind ev local k a a' : seen ev k a a' -> kind_shape k a' = false -> verdict ev local k a = VDiag DArgType.
Proof.
  intros S K. rewrite (verdict_seen ev local k a a' S). destruct k, a'; cbn in K; try discriminate K; reflexivity.
Qed.

Theorem verdict_unknown_register ev local k a s : seen ev k a (AIdent s) ->
  match k with KReg | KImmReg => regl s = None | KSys => sysl s = None | _ => False end ->
  verdict ev local k a = VDiag DNoSuchRegister.
Proof.
  intros S K. rewrite (verdict_seen ev local k a _ S). destruct k; try contradiction; cbn [shape_verdict]; now rewrite K.
Qed.

Theorem verdict_out_of_range ev local k a v : seen ev k a (AConst v) ->
  match k with
  | KImm | KImmReg => (v < -2147483648 \/ 2147483647 < v)%Z
  | KOff | KAddrOff => (v < 0 \/ 4294967295 < v)%Z
  | _ => False
  end -> verdict ev local k a = VDiag DValueRange.
Proof.
  intros S K. rewrite (verdict_seen ev local k a _ S). destruct k; try contradiction; cbn [shape_verdict]; unfold i32_of, u32_of;
  match goal with |- context [Z.leb ?x ?y && Z.leb ?z ?w] => destruct (Z.leb_spec x y); destruct (Z.leb_spec z w) end;
  cbn [andb]; try reflexivity; lia.
Qed.

(* register lists: the first item that is not a register name decides *)
Theorem verdict_regset_item ev local items pre post : items = map AIdent pre ++ post ->
  Forall (fun n => regl n <> None) pre ->
  match post with
  | AIdent s :: _ => regl s = None -> verdict ev local KSet (ASeq items) = VDiag DNoSuchRegister
  | x :: _ => is_ident x = false -> verdict ev local KSet (ASeq items) = VDiag DArgType
  | [] => True
  end.
Proof.
  intros -> F. unfold verdict. cbn [evaluated shape_verdict].
  assert (G : forall acc, exists acc', regset_bits (map AIdent pre ++ post) acc = regset_bits post acc').
  { induction F as [|n pre Hn F IH]; intros acc; [eexists; reflexivity|]. cbn [map app regset_bits].
    destruct (regl n); [apply IH | contradiction]. }
  destruct (G 0) as [acc' ->]. destruct post as [|x post]; [exact I|].
  destruct x; try (intros _; reflexivity); try (intros H; discriminate H).
  intros H. cbn [regset_bits]. now rewrite H.
Qed.
