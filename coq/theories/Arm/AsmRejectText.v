(* C04 at the level of CHARACTERS for EVERY statement, accepted or rejected.
   - spells_same: a spelling (AsmSpellSpec.spells: register / special register names in any spelling, flag letter case, numbers as
     any expression tree the evaluator reduces to the number, the documented memory operand forms, register lists) is
     indistinguishable from the tree it spells for every operand converter; hence (AsmOutcomeViews.outcome_same_operand)
   - outcome_spelled: the outcome of a statement -- Emits i hws | Rejects d | Defers c -- does not depend on the spelling of
     its mnemonic and operands;
   - text_outcome_tree: the text of a statement (any rendering of the argument trees, any spelling of each token, any
     separators incl. nested block comments: C09_text_roundtrip_nested_spelled) has the outcome of its argument trees;
   - text_outcome_spelled: both together -- from the characters to the outcome of the canonical trees;
   - text_outcome_values: the same by operand VALUES (AsmSpellSpec.denotes / canon); literal_spells: every literal expression
     tree of C07 spells its value;
   - the rejection theorems at character level: operand rule violated, wrong operand count, unknown mnemonic. *)
From Coq Require Import ZArith NArith List Bool Ascii String Lia.
From Trion Require Import Text.Types Text.ParseModel Text.Render Text.ParseProofs Text.Pipeline Text.ShowSpec Text.ShowNested Text.ShowNestedProofs
  Expr.I64 Expr.SimplifyModel Expr.EvalModel
  Arm.Instr Arm.EncodeModel Arm.DisplayModel Arm.DisplayArgs Arm.AsmStmtModel Arm.AsmStmtProofs Arm.AsmEvalLink Arm.AsmOperands Arm.AsmRejects Arm.AsmSpelling
  Expr.C08NoPanic Arm.Armv6mSpec Arm.AsmImmediates Arm.AsmPostChecks Arm.AsmPostChecksStmt Arm.AsmSpellSpec Arm.AsmOutcomeViews.
From Trion Require Arm.AsmRespell.
Import ListNotations.
Open Scope N_scope.

(* ---------------------------------------------------------------- identifiers *)
Lemma regl_upper_lit u r : regl_upper u = Some r ->
  In u (map bytes_of_string ["R0";"R1";"R2";"R3";"R4";"R5";"R6";"R7";"R8";"R9";"R10";"R11";"R12";"R13";"SP";"R14";"LR";"R15";"PC"]%string).
Proof.
  unfold regl_upper, AsmStmtModel.is. intros H.
  repeat match type of H with (if str_eqb u ?l then _ else _) = _ =>
    destruct (str_eqb u l) eqn:E; [apply str_eqb_eq in E; subst u; cbn [map In]; tauto | clear E] end.
  discriminate H.
Qed.

Lemma regl_facts s r : regl s = Some r ->
  sysl s = None /\ str_eq_ci s "i" = false /\ str_eq_ci s "SY" = false /\ is_register s = true.
Proof.
  intros H. pose proof (regl_is_register s r H) as IR. split; [|split; [|split; [|exact IR]]].
  all: unfold regl in H; destruct (Nat.leb (List.length s) 4); [|discriminate H]; apply regl_upper_lit in H; cbn [map In] in H.
  - unfold sysl. destruct (Nat.leb (List.length s) 8); [|reflexivity]. cbv zeta.
    repeat (destruct H as [H|H]; [rewrite <- H; reflexivity|]). contradiction.
  - unfold str_eq_ci. repeat (destruct H as [H|H]; [rewrite <- H; reflexivity|]). contradiction.
  - unfold str_eq_ci. repeat (destruct H as [H|H]; [rewrite <- H; reflexivity|]). contradiction.
Qed.

Lemma sysl_lit s r : sysl s = Some r ->
  In (upper_str s) (map bytes_of_string ["APSR";"IAPSR";"EAPSR";"XPSR";"IPSR";"EPSR";"IEPSR";"MSP";"PSP";"PRIMASK";"CONTROL"]%string)
  /\ (List.length s <= 8)%nat.
Proof.
  unfold sysl, AsmStmtModel.is. destruct (Nat.leb_spec (List.length s) 8) as [L|L]; [|discriminate]. cbv zeta. intros H. split; [|exact L].
  repeat match type of H with (if str_eqb ?u ?l then _ else _) = _ =>
    destruct (str_eqb u l) eqn:E; [apply str_eqb_eq in E; rewrite E; cbn [map In]; tauto | clear E] end.
  discriminate H.
Qed.

Lemma sysl_facts s r : sysl s = Some r ->
  regl s = None /\ str_eq_ci s "i" = false /\ str_eq_ci s "SY" = false /\ is_register s = true.
Proof.
  intros H. destruct (sysl_lit s r H) as [U L]. cbn [map In] in U.
  split; [|split; [|split]].
  - unfold regl. destruct (Nat.leb (List.length s) 4); [|reflexivity].
    repeat (destruct U as [U|U]; [rewrite <- U; reflexivity|]). contradiction.
  - unfold str_eq_ci. repeat (destruct U as [U|U]; [rewrite <- U; reflexivity|]). contradiction.
  - unfold str_eq_ci. repeat (destruct U as [U|U]; [rewrite <- U; reflexivity|]). contradiction.
  - unfold is_register. rewrite (proj2 (Nat.leb_le _ _) L), H. destruct (regl s); reflexivity.
Qed.

Lemma upper_len s : List.length (upper_str s) = List.length s.
Proof. apply map_length. Qed.

Lemma is_register_same_upper s s' : upper_str s = upper_str s' -> is_register s = is_register s'.
Proof.
  intros H. unfold is_register. rewrite (regl_same_upper s s' H), (sysl_same_upper s s' H).
  rewrite <- (upper_len s), <- (upper_len s'), H. reflexivity.
Qed.

Lemma str_eq_ci_same_upper s s' lit : upper_str s = upper_str s' -> str_eq_ci s lit = str_eq_ci s' lit.
Proof. intros H. unfold str_eq_ci. now rewrite H. Qed.

(* the evaluator on an identifier *)
Lemma view_ev_ident lk s : view_ev (ev_of lk) (AIdent s) =
  if is_register s then EvIdent (regl s)
  else match lk s with Found v => EvConst v | LDeferred => EvDefer s | NotFound => EvNoVar [] end.
Proof. unfold view_ev, ev_of. cbn [evaluate]. destruct (is_register s); cbn [negb]; [reflexivity|]. destruct (lk s); reflexivity. Qed.

Lemma spells_name_same lk c a : spells_name lk c a -> same_operand (ev_of lk) c a.
Proof.
  intros H. destruct H as [a|s s' r H1 H2|s s' r H1 H2|s s' U L D].
  - apply same_operand_refl.
  - destruct (regl_facts s r H1) as (A1 & A2 & A3 & A4). destruct (regl_facts s' r H2) as (B1 & B2 & B3 & B4).
    split; [cbn [view_syn]; now rewrite H1, H2, A1, A2, A3, B1, B2, B3 | rewrite !view_ev_ident, A4, B4, H1, H2; reflexivity].
  - destruct (sysl_facts s r H1) as (A1 & A2 & A3 & A4). destruct (sysl_facts s' r H2) as (B1 & B2 & B3 & B4).
    split; [cbn [view_syn]; now rewrite H1, H2, A1, A2, A3, B1, B2, B3 | rewrite !view_ev_ident, A4, B4, A1, B1; reflexivity].
  - split.
    + cbn [view_syn]. now rewrite (regl_same_upper s s' U), (sysl_same_upper s s' U), (str_eq_ci_same_upper s s' "i" U), (str_eq_ci_same_upper s s' "SY" U).
    + rewrite !view_ev_ident, <- (is_register_same_upper s s' U), (regl_same_upper s s' U), <- L.
      destruct (is_register s); [reflexivity|]. destruct (lk s); try reflexivity. contradiction.
Qed.

(* ---------------------------------------------------------------- numbers *)
Lemma wval_not_seq lk v items : ~ wval lk v (ASeq items).
Proof.
  intros [c H]. cbn [evaluate] in H.
  match type of H with I64.bind ?g _ = _ => destruct g as [[? ?]| |] end; cbn [I64.bind] in H; discriminate H.
Qed.

Lemma spells_num_same lk v e : wval lk v e -> is_ident e = false -> same_operand (ev_of lk) (AConst v) e.
Proof.
  intros W NI. split.
  - destruct e; try reflexivity; [discriminate NI | exfalso; exact (wval_not_seq lk v items W)].
  - unfold view_ev. rewrite (ev_of_wval lk v e W). reflexivity.
Qed.

(* ---------------------------------------------------------------- memory operands *)
Definition mem_view (rp : reg) (v : Z) : ev_view :=
  EvAddr (if Z.eqb v 0 then inl (rp, Some (Imm 0))
          else match i32_of v with Some o => inl (rp, Some (Imm o)) | None => inr DValueRange end).

Lemma view_mem_ir lk p rp e v c : regl p = Some rp -> evaluate lk is_register e = Ok (AConst v, Complete c) ->
  view_ev (ev_of lk) (AAddr (AAdd e (AIdent p))) = mem_view rp v.
Proof.
  intros Hp He. destruct (eval_mem_ir lk p rp e v c Hp He) as [c' E]. unfold view_ev, ev_of, mem_view. rewrite E.
  destruct (Z.eqb v 0); cbn [addr_off]; rewrite Hp; [reflexivity|]. destruct (i32_of v); reflexivity.
Qed.

Lemma view_mem_ri_pos lk p rp e v c : regl p = Some rp -> evaluate lk is_register e = Ok (AConst v, Complete c) -> (0 <= v)%Z ->
  view_ev (ev_of lk) (AAddr (AAdd (AIdent p) e)) = mem_view rp v.
Proof.
  intros Hp He Hv. destruct (eval_mem_ri lk p rp e v c Hp He Hv) as [c' E]. unfold view_ev, ev_of, mem_view. rewrite E.
  destruct (Z.eqb v 0); cbn [addr_off]; rewrite Hp; [reflexivity|]. destruct (i32_of v); reflexivity.
Qed.

Lemma view_mem_ri_neg lk p rp e v c : regl p = Some rp -> evaluate lk is_register e = Ok (AConst v, Complete c) -> (v < 0)%Z ->
  view_ev (ev_of lk) (AAddr (AAdd (AIdent p) e)) = if Z.eqb v i64_min then EvErr else EvAddr (inr DValueRange).
Proof.
  intros Hp He Hv. unfold view_ev, ev_of. cbn [evaluate]. rewrite (regl_is_register _ _ Hp), He. cbn [negb]. unfold eval_un, eval_bin. cbn [I64.bind].
  unfold eval_node. cbn. destruct (Z.ltb_spec v 0); [|lia]. unfold checked_neg. destruct (Z.eqb_spec v i64_min) as [->|NE]; [reflexivity|].
  cbn. unfold opt_is. cbn. destruct (Z.eqb_spec (- v) 0); [lia|]. cbn. reflexivity.
Qed.

Lemma view_mem_ri lk p p' rp e e' v c c' : regl p = Some rp -> regl p' = Some rp ->
  evaluate lk is_register e = Ok (AConst v, Complete c) -> evaluate lk is_register e' = Ok (AConst v, Complete c') ->
  view_ev (ev_of lk) (AAddr (AAdd (AIdent p) e)) = view_ev (ev_of lk) (AAddr (AAdd (AIdent p') e')).
Proof.
  intros Hp Hp' He He'. destruct (Z.lt_ge_cases v 0) as [N|N].
  - now rewrite (view_mem_ri_neg lk p rp e v c Hp He N), (view_mem_ri_neg lk p' rp e' v c' Hp' He' N).
  - now rewrite (view_mem_ri_pos lk p rp e v c Hp He N), (view_mem_ri_pos lk p' rp e' v c' Hp' He' N).
Qed.

Lemma view_mem_r lk p rp : regl p = Some rp -> view_ev (ev_of lk) (AAddr (AIdent p)) = mem_view rp 0.
Proof. intros Hp. unfold view_ev, ev_of, mem_view. rewrite (eval_mem_r lk p rp Hp). cbn [addr_off Z.eqb]. now rewrite Hp. Qed.

Lemma view_mem_rr lk p q rp rq : regl p = Some rp -> regl q = Some rq ->
  view_ev (ev_of lk) (AAddr (AAdd (AIdent p) (AIdent q))) = EvAddr (inl (rp, Some (Reg rq))).
Proof. intros Hp Hq. unfold view_ev, ev_of. rewrite (eval_mem_rr lk p q rp rq Hp Hq). cbn [addr_off]. now rewrite Hp, Hq. Qed.

Lemma eval_const lk v : evaluate lk is_register (AConst v) = Ok (AConst v, Complete false).
Proof. reflexivity. Qed.

(* ---------------------------------------------------------------- register lists *)
Lemma regset_bits_view x rest acc : regset_bits (x :: rest) acc =
  match view_syn x with
  | SvIdent (Some r) _ _ _ => regset_bits rest (N.lor acc (N.shiftl 1 (reg_num r)))
  | SvIdent None _ _ _ => inr DNoSuchRegister
  | _ => inr DArgType
  end.
Proof. destruct x; reflexivity. Qed.

Lemma regset_bits_names lk l l' : Forall2 (spells_name lk) l l' -> forall acc, regset_bits l acc = regset_bits l' acc.
Proof.
  induction 1 as [|x y l l' Hxy F IH]; intros acc; [reflexivity|]. rewrite !regset_bits_view.
  destruct (spells_name_same lk x y Hxy) as [<- _]. destruct (view_syn x) as [[r|] ? ? ?| |]; try reflexivity. apply IH.
Qed.

(* evaluation of a name and of its spelling: the same status, the same error *)
Definition res_sim {A} (o o' : I64.outcome (A * evaluation)) : Prop :=
  match o, o' with
  | Ok (_, e), Ok (_, e') => e = e'
  | Err x, Err y => x = y
  | I64.Panic x, I64.Panic y => x = y
  | _, _ => False
  end.

Lemma res_sim_refl {A} (o : I64.outcome (A * evaluation)) : res_sim o o.
Proof. destruct o as [[? ?]| |]; reflexivity. Qed.

Lemma eval_ident lk s : evaluate lk is_register (AIdent s) =
  if is_register s then Ok (AIdent s, Complete false)
  else match lk s with NotFound => Err ENoSuchVariable | LDeferred => Ok (AIdent s, Deferred false s) | Found v => Ok (AConst v, Complete true) end.
Proof. cbn [evaluate]. destruct (is_register s); reflexivity. Qed.

Lemma spells_name_eval lk c a : spells_name lk c a -> res_sim (evaluate lk is_register c) (evaluate lk is_register a).
Proof.
  intros H. destruct H as [a|s s' r H1 H2|s s' r H1 H2|s s' U L D].
  - apply res_sim_refl.
  - rewrite !eval_ident. destruct (regl_facts s r H1) as (_ & _ & _ & ->). destruct (regl_facts s' r H2) as (_ & _ & _ & ->). reflexivity.
  - rewrite !eval_ident. destruct (sysl_facts s r H1) as (_ & _ & _ & ->). destruct (sysl_facts s' r H2) as (_ & _ & _ & ->). reflexivity.
  - rewrite !eval_ident, <- (is_register_same_upper s s' U), <- L. destruct (is_register s); [reflexivity|].
    destruct (lk s); try reflexivity. contradiction.
Qed.

Lemma eval_list_names lk l l' : Forall2 (spells_name lk) l l' -> forall acc,
  res_sim (eval_list (evaluate lk is_register) l acc) (eval_list (evaluate lk is_register) l' acc).
Proof.
  induction 1 as [|x y l l' Hxy F IH]; intros acc; cbn [eval_list]; [reflexivity|]. unfold eval_cons.
  pose proof (spells_name_eval lk x y Hxy) as S.
  destruct (evaluate lk is_register x) as [[x1 e1]|e1|p1], (evaluate lk is_register y) as [[y1 e2]|e2|p2]; cbn [res_sim] in S; try contradiction;
    cbn [I64.bind]; try exact S. subst e2. specialize (IH (ev_or acc e1)).
  destruct (eval_list (evaluate lk is_register) l (ev_or acc e1)) as [[? ?]| |],
           (eval_list (evaluate lk is_register) l' (ev_or acc e1)) as [[? ?]| |]; cbn [res_sim] in IH; try contradiction; cbn [I64.bind res_sim]; exact IH.
Qed.

Lemma view_ev_seq lk l : view_ev (ev_of lk) (ASeq l) =
  match eval_list (evaluate lk is_register) l (Complete false) with
  | Ok (_, Complete _) => EvOther
  | Ok (_, Deferred _ c) => EvDefer c
  | Err ENoSuchVariable => EvNoVar []
  | _ => EvErr
  end.
Proof.
  unfold view_ev, ev_of. rewrite evaluate_seq. destruct (eval_list _ l (Complete false)) as [[l' [c|c cause]]|[]|]; reflexivity.
Qed.

Lemma spells_seq_same lk l l' : Forall2 (spells_name lk) l l' -> same_operand (ev_of lk) (ASeq l) (ASeq l').
Proof.
  intros F. split.
  - cbn [view_syn]. now rewrite (regset_bits_names lk l l' F 0).
  - rewrite !view_ev_seq. pose proof (eval_list_names lk l l' F (Complete false)) as S.
    destruct (eval_list _ l (Complete false)) as [[? ?]| |], (eval_list _ l' (Complete false)) as [[? ?]| |]; cbn [res_sim] in S; try contradiction; now subst.
Qed.

(* a list of register names *)
Lemma eval_list_regs lk names rs : Forall2 (fun s r => regl s = Some r) names rs -> forall c,
  eval_list (evaluate lk is_register) (map AIdent names) (Complete c) = Ok (map AIdent names, Complete c).
Proof.
  induction 1 as [|s r names rs H F IH]; intros c; cbn [map eval_list]; [reflexivity|]. unfold eval_cons.
  rewrite (eval_reg lk s r H). cbn [I64.bind ev_or]. rewrite orb_false_r, IH. reflexivity.
Qed.

Lemma spells_set_same lk names names' rs rs' :
  Forall2 (fun s r => regl s = Some r) names rs -> Forall2 (fun s r => regl s = Some r) names' rs' -> mask_of rs = mask_of rs' ->
  same_operand (ev_of lk) (ASeq (map AIdent names)) (ASeq (map AIdent names')).
Proof.
  intros F F' M. split.
  - cbn [view_syn]. now rewrite (regset_bits_mask names rs 0 F), (regset_bits_mask names' rs' 0 F'), M.
  - now rewrite !view_ev_seq, (eval_list_regs lk names rs F), (eval_list_regs lk names' rs' F').
Qed.

(* ---------------------------------------------------------------- every spelling is indistinguishable from what it spells *)
Theorem spells_same lk c a : spells lk c a -> same_operand (ev_of lk) c a.
Proof.
  intros H. destruct H as [c a H|v e W NI|p p' b v e Hp Hp' [c W]|p p' b v e Hp Hp' [c W]|p p' b v e Hp Hp' [c W] NN|p p' b Hp Hp'
                          |p p' b q q' o Hp Hp' Hq Hq'|l l' F|names names' rs rs' F F' M].
  - now apply spells_name_same.
  - now apply spells_num_same.
  - split; [reflexivity|]. exact (view_mem_ri lk p p' b (AConst v) e v false c Hp Hp' (eval_const lk v) W).
  - split; [reflexivity|]. now rewrite (view_mem_ir lk p b (AConst v) v false Hp (eval_const lk v)), (view_mem_ir lk p' b e v c Hp' W).
  - split; [reflexivity|]. now rewrite (view_mem_ri_pos lk p b (AConst v) v false Hp (eval_const lk v) NN), (view_mem_ir lk p' b e v c Hp' W).
  - split; [reflexivity|]. now rewrite (view_mem_ri_pos lk p b (AConst 0) 0 false Hp (eval_const lk 0) (Z.le_refl 0)), (view_mem_r lk p' b Hp').
  - split; [reflexivity|]. now rewrite (view_mem_rr lk p q b o Hp Hq), (view_mem_rr lk p' q' b o Hp' Hq').
  - now apply spells_seq_same.
  - now apply (spells_set_same lk names names' rs rs').
Qed.

(* ---------------------------------------------------------------- the outcome does not depend on the spelling *)
Lemma template_same_upper name name' : upper_str name = upper_str name' -> template name = template name'.
Proof. intros H. now rewrite <- (template_upper name), <- (template_upper name'), H. Qed.

Lemma template_same_instr i name name' : mnemonic_spelling i name -> mnemonic_spelling i name' -> template name = template name'.
Proof. intros H H'. now rewrite (template_spelling i name H), (template_spelling i name' H'). Qed.

Theorem outcome_spelled lk local addr name cname args cargs :
  template name = template cname -> Forall2 (spells lk) cargs args ->
  stmt_outcome (ev_of lk) local addr name args = stmt_outcome (ev_of lk) local addr cname cargs.
Proof.
  intros T F. symmetry. apply outcome_same_operand; [now symmetry|].
  induction F as [|c a cs l H F IH]; constructor; [now apply spells_same | exact IH].
Qed.

(* ---------------------------------------------------------------- characters -> argument trees (any separators incl. nested comments) *)
Lemma stmt_of_text_nested name args ws seps :
  RendStmts [EInstruction name args] (map wtok_val ws) -> Forall wtok_ok ws -> nwseps_ok ws seps ->
  stmt_of_text (showw ws seps) = Some (name, args).
Proof.
  intros R OK S. destruct (textw_roundtrip_nested _ ws seps R OK S) as [els [P M]]. unfold stmt_of_text. rewrite P.
  destruct els as [|e [|e' els]]; cbn [map] in M; try discriminate M. injection M as M. cbn [map]. now rewrite M.
Qed.

Theorem text_outcome_tree lk local addr name args ws seps :
  RendStmts [EInstruction name args] (map wtok_val ws) -> Forall wtok_ok ws -> nwseps_ok ws seps ->
  text_outcome lk local addr (showw ws seps) = Some (stmt_outcome (ev_of lk) local addr name args).
Proof. intros R OK S. unfold text_outcome. now rewrite (stmt_of_text_nested name args ws seps R OK S). Qed.

(* from the characters to the outcome of the canonical statement *)
Theorem text_outcome_spelled lk local addr name cname args cargs ws seps :
  template name = template cname -> Forall2 (spells lk) cargs args ->
  RendStmts [EInstruction name args] (map wtok_val ws) -> Forall wtok_ok ws -> nwseps_ok ws seps ->
  text_outcome lk local addr (showw ws seps) = Some (stmt_outcome (ev_of lk) local addr cname cargs).
Proof.
  intros T F R OK S. rewrite (text_outcome_tree lk local addr name args ws seps R OK S). f_equal.
  now apply outcome_spelled.
Qed.

(* ---------------------------------------------------------------- the rejections, from the characters *)
Theorem text_never_panics lk local addr text : text_outcome lk local addr text <> Some Panics.
Proof.
  unfold text_outcome. destruct (stmt_of_text text) as [[name args]|]; [|discriminate]. intros H. injection H as H.
  pose proof (outcome_meaning (ev_of lk) local addr name args) as M. now rewrite H in M.
Qed.

Theorem text_operand_rule lk local addr name i ops args ws seps :
  mnemonic_spelling i name -> In ops (direct_forms i addr) -> Forall2 (reads (ev_of lk)) ops args ->
  RendStmts [EInstruction name args] (map wtok_val ws) -> Forall wtok_ok ws -> nwseps_ok ws seps ->
  if operand_rule i then exists hws, armv6m_enc i = Some hws /\ text_outcome lk local addr (showw ws seps) = Some (Emits i hws)
  else text_outcome lk local addr (showw ws seps) = Some (Rejects (if in_types i then DEncode else DValueRange)).
Proof.
  intros M D Rd R OK S. rewrite (text_outcome_tree lk local addr name args ws seps R OK S).
  pose proof (rule_decides (ev_of lk) local addr name i ops args M D Rd) as Dc. destruct (operand_rule i).
  - destruct Dc as [hws [T E]]. exists hws. split; [exact T | now rewrite E].
  - now rewrite Dc.
Qed.

Theorem text_rejects_operand_rule lk local addr name i ops args ws seps :
  mnemonic_spelling i name -> In ops (direct_forms i addr) -> Forall2 (reads (ev_of lk)) ops args ->
  RendStmts [EInstruction name args] (map wtok_val ws) -> Forall wtok_ok ws -> nwseps_ok ws seps ->
  operand_rule i = false ->
  text_outcome lk local addr (showw ws seps) = Some (Rejects (if in_types i then DEncode else DValueRange)).
Proof.
  intros M D Rd R OK S Ru. pose proof (text_operand_rule lk local addr name i ops args ws seps M D Rd R OK S) as T.
  now rewrite Ru in T.
Qed.

(* the documented ways of writing the operands (AsmOperands.writes) are read as these operands *)
Theorem text_rejects_operand_rule_written lk local addr name i ops args ws seps :
  mnemonic_spelling i name -> In ops (direct_forms i addr) -> Forall opspec_ok ops -> Forall2 (writes lk) ops args ->
  RendStmts [EInstruction name args] (map wtok_val ws) -> Forall wtok_ok ws -> nwseps_ok ws seps ->
  operand_rule i = false ->
  text_outcome lk local addr (showw ws seps) = Some (Rejects (if in_types i then DEncode else DValueRange)).
Proof.
  intros M D O W. apply (text_rejects_operand_rule lk local addr name i ops args ws seps M D).
  exact (Forall2_impl_Forall opspec_ok (writes lk) (reads (ev_of lk)) _ _ (writes_reads lk) O W).
Qed.

Theorem text_rejects_arity lk local addr name t args ws seps :
  template name = Some t -> List.length args <> List.length (kinds t) ->
  RendStmts [EInstruction name args] (map wtok_val ws) -> Forall wtok_ok ws -> nwseps_ok ws seps ->
  text_outcome lk local addr (showw ws seps) =
    Some (Rejects (if Nat.ltb (List.length (kinds t)) (List.length args) then DTooMany else DNotEnough)).
Proof.
  intros T L R OK S. rewrite (text_outcome_tree lk local addr name args ws seps R OK S). f_equal. unfold stmt_outcome.
  destruct (Nat.ltb_spec (List.length (kinds t)) (List.length args)) as [H|H].
  - now rewrite (stmt_too_many (ev_of lk) local addr name t args T H).
  - rewrite (stmt_not_enough (ev_of lk) local addr name t args T); [reflexivity | lia].
Qed.

Theorem text_rejects_unknown_mnemonic lk local addr name args ws seps :
  template name = None ->
  RendStmts [EInstruction name args] (map wtok_val ws) -> Forall wtok_ok ws -> nwseps_ok ws seps ->
  text_outcome lk local addr (showw ws seps) = Some (Rejects DNotFound).
Proof.
  intros T R OK S. rewrite (text_outcome_tree lk local addr name args ws seps R OK S). f_equal. unfold stmt_outcome.
  now rewrite (stmt_unknown_mnemonic (ev_of lk) local addr name args T).
Qed.

(* the first operand whose converter rejects it decides, from the characters *)
Theorem text_rejects_first_failure lk local addr name t args p k a d ws seps :
  template name = Some t -> List.length args = List.length (kinds t) ->
  nth_error (kinds t) p = Some k -> nth_error args p = Some a -> verdict (ev_of lk) local k a = VDiag d ->
  (forall q kq aq, (q < p)%nat -> nth_error (kinds t) q = Some kq -> nth_error args q = Some aq -> verdict (ev_of lk) local kq aq = VAccept) ->
  RendStmts [EInstruction name args] (map wtok_val ws) -> Forall wtok_ok ws -> nwseps_ok ws seps ->
  text_outcome lk local addr (showw ws seps) = Some (Rejects d).
Proof.
  intros T L K A V P R OK S. rewrite (text_outcome_tree lk local addr name args ws seps R OK S). f_equal. unfold stmt_outcome.
  destruct (stmt_first_failure (ev_of lk) local addr name t args p k a d T L K A V P) as [st ->]. reflexivity.
Qed.

(* ---------------------------------------------------------------- by operand VALUES: the canonical statement *)
Lemma regset_arg_names bits :
  regset_arg bits = ASeq (map AIdent (map reg_name (filter (fun r => N.testbit bits (reg_num r)) all_regs))).
Proof. unfold regset_arg. rewrite AsmRespell.flat_map_filter, map_map. reflexivity. Qed.

Lemma Forall2_reg_names l : Forall2 (fun s r => regl s = Some r) (map reg_name l) l.
Proof. induction l as [|r l IH]; cbn [map]; constructor; [apply regl_reg_name | exact IH]. Qed.

Theorem denotes_spells lk p a : denotes lk p a -> spells lk (canon p) a.
Proof.
  intros [W S]. destruct p as [r|r|lit|bits|v|x|b x]; cbn [writes canon canon_immreg] in *.
  - destruct W as [s [-> H]]. apply SP_name. exact (SN_reg lk _ _ r (regl_reg_name r) H).
  - destruct W as [s [-> H]]. apply SP_name. exact (SN_sys lk _ _ r (sysl_sysreg_name r) H).
  - destruct W as [s [-> H]]. destruct (S s eq_refl) as [L D]. apply SP_name. apply SN_case; [now symmetry | exact L | now rewrite L].
  - destruct W as [names [rs [-> [F ->]]]]. rewrite regset_arg_names. eapply SP_set; [apply Forall2_reg_names | exact F |].
    apply AsmRespell.mask_filter. apply AsmPostChecksStmt.mask_lt.
  - now apply SP_num.
  - destruct x as [v|r]; [now apply SP_num|]. destruct W as [s [-> H]]. apply SP_name. exact (SN_reg lk _ _ r (regl_reg_name r) H).
  - destruct x as [v|o].
    + destruct W as [[p [e [-> [[s [-> Hs]] We]]]] | [[e [p [-> [We [s [-> Hs]]]]]] | [-> [p [-> [s [-> Hs]]]]]]]; unfold id_reg.
      * exact (SP_mem_ri lk _ s b v e (regl_reg_name b) Hs We).
      * exact (SP_mem_swap lk _ s b v e (regl_reg_name b) Hs We S).
      * exact (SP_mem_zero lk _ s b (regl_reg_name b) Hs).
    + destruct W as [p [q [-> [[s [-> Hs]] [s' [-> Hs']]]]]]. unfold id_reg.
      exact (SP_mem_rr lk _ s b _ s' o (regl_reg_name b) Hs (regl_reg_name o) Hs').
Qed.

(* from the characters: the outcome is the outcome of the canonical statement for the mnemonic and the operand VALUES *)
Theorem text_outcome_values lk local addr name cname ops args ws seps :
  template name = template cname -> Forall2 (denotes lk) ops args ->
  RendStmts [EInstruction name args] (map wtok_val ws) -> Forall wtok_ok ws -> nwseps_ok ws seps ->
  text_outcome lk local addr (showw ws seps) = Some (stmt_outcome (ev_of lk) local addr cname (map canon ops)).
Proof.
  intros T F. apply text_outcome_spelled; [exact T|].
  induction F as [|p a ps l H F IH]; cbn [map]; constructor; [now apply denotes_spells | exact IH].
Qed.

(* the expressions that qualify as a spelling of the number v in every position: all literal expression trees with ideal
   value v (C07) *)
Theorem literal_spells lk t v : Denote.literal_tree t = true -> Denote.ideal t = Denote.Val v -> spells lk (AConst v) t.
Proof.
  intros L I. apply SP_num; [exact (wval_literal lk t v L I)|]. destruct t; try reflexivity. discriminate L.
Qed.
