(* C04: the outcome of an instruction statement from its CHARACTERS, and what "the same statement in another spelling" means.
   Definitions only (no proofs).

   `text_outcome lk local addr text`   tokenizer model + parser model (Pipeline.stmt_of_text: the text is exactly one
                       instruction statement) followed by AsmPostChecks.stmt_outcome with the evaluator model under the
                       constant table lk: Some (Emits i hws | Rejects d | Defers c), None when the text is not one
                       instruction statement.
   `spells lk c a`     the argument tree a is a spelling of the argument tree c: the same tree, or
                       - a register / special register identifier replaced by any name of the same register (letter case,
                         R13/SP, R14/LR, R15/PC);
                       - an identifier in another letter case (the flag `i` of CPSIE/CPSID, the option `SY` of the barriers)
                         when the constant table does not tell the two spellings apart;
                       - the number v replaced by any expression tree, not a lone identifier, that the evaluator reduces to
                         v (wval: all literal expression trees of C07 with ideal value v, C04_literal_immediates);
                       - memory operands [b + v] written [b' + e] with b' a name of the same register and e such an expression
                         for v; [v + b] written [e + b']; for v >= 0 also [b + v] written [e + b'], and [b + 0] written [b'];
                         [b + r] written [b' + r'];
                       - register lists {..} item by item, or -- when every item is a register -- as any list naming the same
                         SET of registers (order, repetitions).
   `view_syn`, `view_ev`  what the operand converters of src/arm6m/mod.rs can observe of an argument: converters that take the
                       argument as written (register, special register, name, register list) see `view_syn`; converters that
                       evaluate it first (immediate, offset, register-or-immediate, address) see `view_ev`.
   `same_operands`     two argument lists that no converter of the template t can tell apart.
   `canon p`, `denotes lk p a`  the canonical tree of an operand VALUE p (AsmOperands.opspec) and "a is a documented way of
                       writing p that may stand in every operand position" (denotes_spells: then a spells canon p). *)
From Coq Require Import ZArith NArith List Bool Ascii String.
From Trion Require Import Text.Types Text.Pipeline Expr.EvalModel Arm.Instr Arm.DisplayModel Arm.DisplayArgs Arm.AsmStmtModel
  Arm.AsmEvalLink Arm.AsmOperands Arm.AsmRejects Arm.AsmPostChecks.
Import ListNotations.
Open Scope N_scope.

(* ---------------------------------------------------------------- characters -> outcome *)
Definition text_outcome (lk : str -> lookup_res) (local : bool) (addr : N) (text : str) : option outcome :=
  match stmt_of_text text with
  | Some (name, args) => Some (stmt_outcome (ev_of lk) local addr name args)
  | None => None
  end.

(* ---------------------------------------------------------------- what the converters observe *)
Inductive syn_view :=
| SvIdent (r : option reg) (s : option sysreg) (is_i is_sy : bool)     (* regl, sysl, equal to "i" / "SY" up to letter case *)
| SvSeq (x : option N + asm_diag)                                      (* {..}: the register bits, or the first item's diagnostic *)
| SvOther.

Definition view_syn (a : arg) : syn_view :=
  match a with
  | AIdent s => SvIdent (regl s) (sysl s) (str_eq_ci s "i") (str_eq_ci s "SY")
  | ASeq items => SvSeq (regset_bits items 0)
  | _ => SvOther
  end.

Inductive ev_view :=
| EvConst (v : Z)
| EvIdent (r : option reg)
| EvAddr (x : (reg * option immreg) + asm_diag)
| EvOther
| EvDefer (cause : str)
| EvNoVar (name : str)
| EvErr.

Definition view_ev (ev : evaluator) (a : arg) : ev_view :=
  match ev a with
  | (AConst v, SComplete) => EvConst v
  | (AIdent s, SComplete) => EvIdent (regl s)
  | (AAddr inner, SComplete) => EvAddr (addr_off inner)
  | (_, SComplete) => EvOther
  | (_, SDeferred c) => EvDefer c
  | (_, SNoSuchVar n) => EvNoVar n
  | (_, SEvalError) => EvErr
  end.

(* the converter of kind k cannot tell a from a' *)
Definition same_at (ev : evaluator) (k : okind) (a a' : arg) : Prop :=
  if evaluated k then view_ev ev a = view_ev ev a' else view_syn a = view_syn a'.

(* no converter at all can *)
Definition same_operand (ev : evaluator) (a a' : arg) : Prop := view_syn a = view_syn a' /\ view_ev ev a = view_ev ev a'.

Definition same_operands (ev : evaluator) (t : instr) (args args' : list arg) : Prop :=
  List.length args = List.length args' /\
  forall p k a a', nth_error (kinds t) p = Some k -> nth_error args p = Some a -> nth_error args' p = Some a' -> same_at ev k a a'.

(* ---------------------------------------------------------------- spellings *)
(* names: a is a spelling of the identifier c *)
Inductive spells_name (lk : str -> lookup_res) : arg -> arg -> Prop :=
| SN_same a : spells_name lk a a
| SN_reg s s' r : regl s = Some r -> regl s' = Some r -> spells_name lk (AIdent s) (AIdent s')
| SN_sys s s' r : sysl s = Some r -> sysl s' = Some r -> spells_name lk (AIdent s) (AIdent s')
| SN_case s s' : upper_str s = upper_str s' -> lk s = lk s' -> lk s <> LDeferred -> spells_name lk (AIdent s) (AIdent s').

Inductive spells (lk : str -> lookup_res) : arg -> arg -> Prop :=
| SP_name c a : spells_name lk c a -> spells lk c a
| SP_num v e : wval lk v e -> is_ident e = false -> spells lk (AConst v) e
| SP_mem_ri p p' b v e : regl p = Some b -> regl p' = Some b -> wval lk v e ->
    spells lk (AAddr (AAdd (AIdent p) (AConst v))) (AAddr (AAdd (AIdent p') e))
| SP_mem_ir p p' b v e : regl p = Some b -> regl p' = Some b -> wval lk v e ->
    spells lk (AAddr (AAdd (AConst v) (AIdent p))) (AAddr (AAdd e (AIdent p')))
| SP_mem_swap p p' b v e : regl p = Some b -> regl p' = Some b -> wval lk v e -> (0 <= v)%Z ->
    spells lk (AAddr (AAdd (AIdent p) (AConst v))) (AAddr (AAdd e (AIdent p')))
| SP_mem_zero p p' b : regl p = Some b -> regl p' = Some b ->
    spells lk (AAddr (AAdd (AIdent p) (AConst 0))) (AAddr (AIdent p'))
| SP_mem_rr p p' b q q' o : regl p = Some b -> regl p' = Some b -> regl q = Some o -> regl q' = Some o ->
    spells lk (AAddr (AAdd (AIdent p) (AIdent q))) (AAddr (AAdd (AIdent p') (AIdent q')))
| SP_seq l l' : Forall2 (spells_name lk) l l' -> spells lk (ASeq l) (ASeq l')
| SP_set names names' rs rs' : Forall2 (fun s r => regl s = Some r) names rs -> Forall2 (fun s r => regl s = Some r) names' rs' ->
    mask_of rs = mask_of rs' -> spells lk (ASeq (map AIdent names)) (ASeq (map AIdent names')).

(* the canonical tree of an operand value (AsmOperands.opspec): registers by their canonical names, numbers as constants *)
Definition canon_immreg (x : immreg) : arg := match x with Imm v => AConst v | Reg r => id_reg r end.
Definition canon (p : opspec) : arg :=
  match p with
  | PReg r => id_reg r
  | PSys s => AIdent (sysreg_name s)
  | PFlag lit => AIdent (bytes_of_string lit)
  | PSet bits => regset_arg bits
  | PImm v => AConst v
  | PImmReg x => canon_immreg x
  | PMem b x => AAddr (AAdd (id_reg b) (canon_immreg x))
  end.

(* the argument a is a documented way of writing the operand value p (AsmOperands.writes) that can stand in EVERY operand
   position: a number is not written as a lone symbol (in a register position a symbol is an unknown register, a number a
   wrong kind), a flag name in another letter case is not told apart by the constant table, and [e + b] for [b + e] needs e >= 0
   ([b + e] with e < 0 is read as a subtraction and refused, [e + b] is not) *)
Definition denotes (lk : str -> lookup_res) (p : opspec) (a : arg) : Prop :=
  writes lk p a /\
  match p with
  | PFlag lit => forall s, a = AIdent s -> lk (bytes_of_string lit) = lk s /\ lk s <> LDeferred
  | PImm _ | PImmReg (Imm _) => is_ident a = false
  | PMem _ (Imm v) => (0 <= v)%Z
  | _ => True
  end.
