(* C04: the checks made AFTER the operands of a statement are converted -- definitions and the master theorem.

   Model: AsmStmtModel.assemble_stmt (src/arm6m/mod.rs: mnemonic table, operand converters, the per-instruction checks of
   ArmInstr::assemble) followed by EncodeModel.enc (src/arm6m/asm.rs Instruction::encode, called by ArmInstr::write_instr: an
   encoder error is the diagnostic AsmError::Encode = DEncode and no bytes are written).  `stmt_outcome` is that composition.

   `operand_rule i`  the operand rules of ARMv6-M for the instruction value i, one line per mnemonic form, written for
                     reading: register classes (low / SP / PC), immediate ranges and scaling, register list contents.
   `in_types i`      the operand values fit the Rust field types (i32 immediates, u8 / u16 numbers).
   `direct_forms`    the operand lists of the statements whose operands are stored as written (everything except the
                     PC-relative targets of ADR / B<c> / BL / LDR Rt, target; those are in AsmPostChecksPc.v).

   rule_decides: for EVERY instruction value i (all registers, unbounded immediates) and every statement whose arguments are
   read as the operands of i: if operand_rule i holds the statement emits exactly i with the halfwords of the ARMv6-M
   table; if not, the outcome is a diagnostic (DValueRange when a value does not fit its type, DEncode otherwise) --
   never an instruction. *)
From Coq Require Import ZArith NArith List Bool Ascii String Lia.
From Trion Require Import Base.Sweep Text.Types Arm.Instr Arm.EncodeModel Arm.Armv6mSpec Arm.CodecCheck Arm.CodecProofs
  Arm.DisplayModel Arm.DisplayArgs Arm.AsmStmtModel Arm.AsmStmtProofs Arm.AsmOperands Arm.AsmRejects Arm.AsmSpelling.
Import ListNotations.
Open Scope N_scope.

(* ---------------------------------------------------------------- outcome of a statement *)
Inductive outcome :=
| Emits (i : instr) (hws : list N)      (* operands converted, checks passed, encoder produced these halfwords *)
| Rejects (d : asm_diag)                (* a diagnostic; nothing is written *)
| Defers (cause : str)
| Panics.

Definition stmt_outcome (ev : evaluator) (local : bool) (addr : N) (name : str) (args : list arg) : outcome :=
  match assemble_stmt ev local addr name args with
  | COk i _ => match enc i with EncOk hws => Emits i hws | EncUnrep => Rejects DEncode end
  | CDefer c _ => Defers c
  | CDiag d _ => Rejects d
  | CPanic => Panics
  end.

(* the statement emits exactly i, with the halfwords the ARMv6-M table lists for i *)
Definition emits_table (o : outcome) (i : instr) : Prop := exists hws, armv6m_enc i = Some hws /\ o = Emits i hws.

(* ---------------------------------------------------------------- the operand rules, for reading *)
Definition zin (v lo hi : Z) : bool := Z.leb lo v && Z.leb v hi.          (* lo <= v <= hi *)
Definition mult (v k : Z) : bool := Z.eqb (v mod k) 0.                     (* v is a multiple of k *)
Definition isSP (r : reg) : bool := same r SP.
Definition isPC (r : reg) : bool := same r PC.
Definition only (l allowed : N) : bool := N.eqb (N.lor l allowed) allowed. (* every register of the list l is in `allowed` *)
Definition nonempty (l : N) : bool := negb (N.eqb l 0).

Definition operand_rule (i : instr) : bool :=
  match i with
  (* data processing, two registers: both low *)
  | Adc d m | And d m | Bic d m | Cmn d m | Eor d m | Mul d m | Mvn d m | Orr d m | Rev d m | Rev16 d m | Revsh d m
  | Ror d m | Rsb d m | Sbc d m | Sxtb d m | Sxth d m | Tst d m | Uxtb d m | Uxth d m => low d && low m
  (* shifts: LSLS Rd, Rm, #1..31;  LSRS / ASRS Rd, Rm, #1..32;  by register: Rdn, Rdn, Rm;  low registers *)
  | Lsl d m (Imm v) => low d && low m && zin v 1 31
  | Lsr d m (Imm v) | Asr d m (Imm v) => low d && low m && zin v 1 32
  | Lsl d n (Reg m) | Lsr d n (Reg m) | Asr d n (Reg m) => same d n && low d && low m
  (* ADDS / SUBS: Rdn, Rdn, #0..255 | Rd, Rn, #0..7 | Rd, Rn, Rm;  low registers *)
  | Add true d n (Imm v) | Sub true d n (Imm v) => if same d n then low d && zin v 0 255 else low d && low n && zin v 0 7
  | Add true d n (Reg m) | Sub true d n (Reg m) => low d && low n && low m
  (* ADD: SP, SP, #0..508 step 4 | Rd, SP, #0..1020 step 4 (Rd low) | Rdn, Rdn, Rm (any registers, not PC, PC, PC) *)
  | Add false d n (Imm v) => isSP n && mult v 4 && (if isSP d then zin v 0 508 else low d && zin v 0 1020)
  | Add false d n (Reg m) => same d n && negb (isPC d && isPC m)
  (* SUB: SP, SP, #0..508 step 4 only *)
  | Sub false d n (Imm v) => isSP d && isSP n && mult v 4 && zin v 0 508
  | Sub false _ _ (Reg _) => false
  (* MOVS Rd, #0..255 | MOVS Rd, Rm (low) | MOV Rd, Rm (any);  CMP Rn, #0..255 | CMP Rn, Rm: both low, or neither is PC *)
  | Mov true d (Imm v) => low d && zin v 0 255
  | Mov false _ (Imm _) => false
  | Mov true d (Reg m) => low d && low m
  | Mov false _ (Reg _) => true
  | Cmp n (Imm v) => low n && zin v 0 255
  | Cmp n (Reg m) => (low n && low m) || (negb (isPC n) && negb (isPC m))
  (* loads / stores with immediate offset: word #0..124 step 4 (SP-, PC-relative: #0..1020 step 4), halfword #0..62 step 2,
     byte #0..31; with register offset: three low registers *)
  | Ldr t n (Imm v) => low t && mult v 4 && (if isPC n || isSP n then zin v 0 1020 else low n && zin v 0 124)
  | Str t n (Imm v) => low t && mult v 4 && (if isSP n then zin v 0 1020 else low n && zin v 0 124)
  | Ldrh t n (Imm v) | Strh t n (Imm v) => low t && low n && mult v 2 && zin v 0 62
  | Ldrb t n (Imm v) | Strb t n (Imm v) => low t && low n && zin v 0 31
  | Ldr t n (Reg m) | Ldrb t n (Reg m) | Ldrh t n (Reg m) | Str t n (Reg m) | Strb t n (Reg m) | Strh t n (Reg m)
  | Ldrsb t n m | Ldrsh t n m => low t && low n && low m
  (* register lists: LDM / STM Rn (low), {R0-R7} (the empty list is accepted: DESIGN.md section 4, pinned by an existing test);
     PUSH {R0-R7, LR}, POP {R0-R7, PC}: not empty *)
  | Ldm n l | Stm n l => low n && only l 0x00FF
  | Push l => nonempty l && only l 0x40FF
  | Pop l => nonempty l && only l 0x80FF
  (* BX / BLX Rm: not PC;  MRS Rd, spec / MSR spec, Rn: neither SP nor PC *)
  | Bx m | Blx m => negb (isPC m)
  | Mrs d _ => negb (isSP d) && negb (isPC d)
  | Msr _ n => negb (isSP n) && negb (isPC n)
  (* numbers: BKPT / SVC / UDF.N #0..255, UDF.W #0..65535 *)
  | Bkpt n | Svc n | Udf n => N.leb n 255
  | Udfw n => N.leb n 65535
  (* PC-relative (offset = target - PC value): ADR Rd (low), 0..1020 step 4; B -2048..2046, B<c> -256..254, BL -2^24..2^24-2, even *)
  | Adr d off => low d && N.leb off 1020 && N.eqb (off mod 4) 0
  | B Always off => zin off (-2048) 2046 && mult off 2
  | B _ off => zin off (-256) 254 && mult off 2
  | Bl off => zin off (-16777216) 16777214 && mult off 2
  | Cps _ | Dmb | Dsb | Isb | Nop | Sev | Wfe | Wfi | Yield => true
  end.

(* the operand values fit the Rust field types *)
Definition i32b (v : Z) : bool := Z.leb (-2147483648) v && Z.leb v 2147483647.
Definition immreg_fits (x : immreg) : bool := match x with Imm v => i32b v | Reg _ => true end.
Definition in_types (i : instr) : bool :=
  match i with
  | Add _ _ _ x | Sub _ _ _ x | Asr _ _ x | Lsl _ _ x | Lsr _ _ x | Cmp _ x | Mov _ _ x
  | Ldr _ _ x | Ldrb _ _ x | Ldrh _ _ x | Str _ _ x | Strb _ _ x | Strh _ _ x => immreg_fits x
  | Adr _ off => N.ltb off 65536
  | B _ off | Bl off => i32b off
  | Bkpt info | Svc info | Udf info => N.ltb info 256
  | Udfw info => N.ltb info 65536
  | Ldm _ rs | Stm _ rs | Pop rs | Push rs => N.ltb rs 65536
  | _ => true
  end.

(* statements whose operands are stored as written *)
Definition direct_forms (i : instr) (addr : N) : list (list opspec) :=
  match i with
  | Adr _ _ | B _ _ | Bl _ => []
  | Ldr d PC (Imm off) => [[PReg d; PMem PC (Imm off)]]
  | _ => [operands i addr]
  end.

(* ---------------------------------------------------------------- in_types = wf_instr *)
Lemma i32b_ok v : i32b v = true <-> i32_ok v.
Proof. unfold i32b, i32_ok. rewrite andb_true_iff, !Z.leb_le. tauto. Qed.

Lemma in_types_wf i : in_types i = true <-> wf_instr i.
Proof.
  destruct i; cbn [in_types wf_instr]; try tauto;
  try (match goal with x : immreg |- _ => destruct x; cbn [immreg_fits immreg_ok]; [apply i32b_ok | tauto] end);
  try apply i32b_ok; try apply N.ltb_lt.
Qed.

(* ---------------------------------------------------------------- conversion of directly stored operands *)
Inductive cres := ROk (i : instr) | RDiag (d : asm_diag) | ROther.
Definition cres_of (c : conv instr) : cres :=
  match c with COk i _ => ROk i | CDiag d _ => RDiag d | _ => ROther end.

Lemma i32_of_b v : i32_of v = if i32b v then Some v else None.
Proof. reflexivity. Qed.

Lemma regset_bits_lt items b : regset_bits items 0 = inl (Some b) -> N.ltb b 65536 = true.
Proof. intros H. apply N.ltb_lt. exact (regset_bits_bound items 0 b H eq_refl). Qed.

Lemma addr_off_fits a r x : addr_off a = inl (r, Some x) -> immreg_fits x = true.
Proof.
  intros H. destruct (addr_off_some _ _ _ H) as [x' [E W]]. inversion E; subst x'.
  destruct x; [apply i32b_ok; exact W | reflexivity].
Qed.

Ltac inv_forall2 := repeat match goal with
  | H : Forall2 _ (_ :: _) _ |- _ => inversion H; subst; clear H
  | H : Forall2 _ [] _ |- _ => inversion H; subst; clear H
  | H : In _ (_ :: _) |- _ => destruct H as [<-|H]
  | H : In _ [] |- _ => destruct H
  end.
Ltac ex_all := repeat match goal with
  | H : exists _, _ |- _ => destruct H
  | H : _ /\ _ |- _ => destruct H
  end; subst.
Ltac rw_all := repeat (cbn [bind nth_error a_args a_done fst snd Nat.leb Nat.ltb List.length cres_of] in *;
  match goal with H : ?l = _ |- context [?l] => rewrite H end).

(* arguments read as the operands of i: the conversion yields exactly i when every value fits its type, and the
   diagnostic DValueRange when one does not *)
Theorem reads_converts ev local i addr ops args :
  In ops (direct_forms i addr) -> Forall2 (reads ev) ops args ->
  cres_of (assemble_args ev local addr (kind_template i) (mkAst args 0)) = if in_types i then ROk i else RDiag DValueRange.
Proof.
  intros D R.
  destruct i;
  try (match type of D with In _ (direct_forms (Ldr _ ?a ?x) _) => destruct x as [v|o]; destruct a end);
  try (match goal with x : immreg |- _ => destruct x as [v|o] end); try (destruct flags);
  cbn [direct_forms operands kind_template] in *; inv_forall2; cbn [reads] in *; ex_all.
  all: cbn [assemble_args]; unfold rr, rri, r_addr, r_addr_reg, small_imm, arity; cbn [a_args List.length Nat.ltb Nat.leb bind].
  all: unfold c_register, c_sysreg, c_identifier, c_regset, c_immreg, c_immediate, c_offset, c_address, c_addr_offset, eval_at.
  all: rw_all; cbn [bind cres_of in_types immreg_fits].
  all: try reflexivity.
  all: try (rewrite i32_of_b; destruct (i32b _); reflexivity).
  all: try (match goal with H : addr_off _ = inl (_, Some (Imm _)) |- _ =>
              let F := fresh "F" in pose proof (addr_off_fits _ _ _ H) as F; cbn [immreg_fits] in F; rewrite F end; reflexivity).
  all: try (match goal with H : regset_bits _ _ = inl _ |- _ => rewrite (regset_bits_lt _ _ H) end; reflexivity).
  - (* Bkpt *)
    unfold u32_of. destruct (Z.leb_spec 0 (Z.of_N info)); [|lia]. destruct (Z.leb_spec (Z.of_N info) 4294967295); cbn [andb bind cres_of].
    + rewrite N2Z.id. destruct (N.leb_spec info 255); destruct (N.ltb_spec info 256); try lia; reflexivity.
    + destruct (N.ltb_spec info 256); [lia | reflexivity].
  - (* Svc *)
    rewrite i32_of_b. unfold i32b. destruct (Z.leb_spec (-2147483648) (Z.of_N info)); [|lia].
    destruct (Z.leb_spec (Z.of_N info) 2147483647); cbn [andb bind cres_of].
    + destruct (Z.leb_spec 0 (Z.of_N info)); [|lia]. destruct (Z.leb_spec (Z.of_N info) 255); destruct (N.ltb_spec info 256); try lia;
      cbn [andb cres_of]; rewrite ?N2Z.id; reflexivity.
    + destruct (N.ltb_spec info 256); [lia | reflexivity].
  - (* Udf *)
    rewrite i32_of_b. unfold i32b. destruct (Z.leb_spec (-2147483648) (Z.of_N info)); [|lia].
    destruct (Z.leb_spec (Z.of_N info) 2147483647); cbn [andb bind cres_of].
    + destruct (Z.leb_spec 0 (Z.of_N info)); [|lia]. destruct (Z.leb_spec (Z.of_N info) 255); destruct (N.ltb_spec info 256); try lia;
      cbn [andb cres_of]; rewrite ?N2Z.id; reflexivity.
    + destruct (N.ltb_spec info 256); [lia | reflexivity].
  - (* Udfw *)
    rewrite i32_of_b. unfold i32b. destruct (Z.leb_spec (-2147483648) (Z.of_N info)); [|lia].
    destruct (Z.leb_spec (Z.of_N info) 2147483647); cbn [andb bind cres_of].
    + destruct (Z.leb_spec 0 (Z.of_N info)); [|lia]. destruct (Z.leb_spec (Z.of_N info) 65535); destruct (N.ltb_spec info 65536); try lia;
      cbn [andb cres_of]; rewrite ?N2Z.id; reflexivity.
    + destruct (N.ltb_spec info 65536); [lia | reflexivity].
Qed.

(* ---------------------------------------------------------------- the rule is the encoder's acceptance *)
Definition enc_okb (i : instr) : bool := match enc i with EncOk _ => true | EncUnrep => false end.

Lemma ge8_low r : reg_ge8 r = negb (low r).
Proof. destruct r; reflexivity. Qed.
Lemma zland3 v : Z.land v 3 = (v mod 4)%Z.
Proof. change 3%Z with (Z.ones 2). now rewrite Z.land_ones by lia. Qed.
Lemma zland1 v : Z.land v 1 = (v mod 2)%Z.
Proof. change 1%Z with (Z.ones 1). now rewrite Z.land_ones by lia. Qed.
Lemma nland3 n : N.land n 3 = n mod 4.
Proof. change 3 with (N.ones 2). now rewrite N.land_ones. Qed.

Lemma sw_only_ff : allN (fun l => Bool.eqb (only l 0xFF) (N.leb l 255)) 16 = true.
Proof. vm_compute. reflexivity. Qed.
Lemma sw_push : allN (fun l => Bool.eqb (enc_okb (Push l)) (operand_rule (Push l))) 16 = true.
Proof. vm_compute. reflexivity. Qed.
Lemma sw_pop : allN (fun l => Bool.eqb (enc_okb (Pop l)) (operand_rule (Pop l))) 16 = true.
Proof. vm_compute. reflexivity. Qed.

Ltac zsplit :=
  repeat (match goal with
          | |- context [Z.ltb ?a ?b] => destruct (Z.ltb_spec a b)
          | |- context [Z.leb ?a ?b] => destruct (Z.leb_spec a b)
          | |- context [Z.eqb ?a ?b] => destruct (Z.eqb_spec a b)
          end; try (exfalso; lia)).
Ltac regs_all := repeat match goal with r : reg |- _ => destruct r end; reflexivity.
Ltac lows := unfold guard; rewrite ?ge8_low; repeat match goal with |- context [low ?r] => destruct (low r) end; reflexivity.

Lemma only_ff l : l < 65536 -> only l 0xFF = N.leb l 255.
Proof. intros H. apply eqb_prop. exact (allN_spec _ 16 sw_only_ff l H). Qed.

Ltac zsolve := unfold guard, zlt, zgt, zle, zge, znz, zin, mult; rewrite ?zland3, ?zland1; zsplit; regs_all.

Lemma rule_enc i : wf_instr i -> enc_okb i = operand_rule i.
Proof.
  intros W. destruct i; try (match goal with x : immreg |- _ => destruct x as [v|o] end); try destruct flags;
  cbn [operand_rule]; unfold enc_okb; cbn [enc]; unfold two_low, three_low.
  all: try (lows; fail).
  all: try (match goal with v : Z |- _ => zsolve end; fail).
  all: try (match goal with c : cond |- _ => destruct c end; zsolve; fail).
  all: cbn [wf_instr] in W.
  all: try (match goal with n : N |- _ => fail 1 | _ => regs_all end).
  - (* Adr *) unfold guard. rewrite nland3. destruct (N.ltb_spec 1020 off); destruct (N.leb_spec off 1020); try lia;
    destruct (N.eqb (off mod 4) 0); regs_all.
  - (* Bkpt *) unfold s1. symmetry. apply N.leb_le. lia.
  - (* Ldm *) rewrite (only_ff _ W). unfold guard. destruct (N.ltb_spec 255 registers); destruct (N.leb_spec registers 255); try lia; regs_all.
  - (* Pop *) change (enc_okb (Pop registers) = operand_rule (Pop registers)). apply eqb_prop. exact (allN_spec _ 16 sw_pop registers W).
  - (* Push *) change (enc_okb (Push registers) = operand_rule (Push registers)). apply eqb_prop. exact (allN_spec _ 16 sw_push registers W).
  - (* Stm *) rewrite (only_ff _ W). unfold guard. destruct (N.ltb_spec 255 registers); destruct (N.leb_spec registers 255); try lia; regs_all.
  - (* Svc *) unfold s1. symmetry. apply N.leb_le. lia.
  - (* Udf *) unfold s1. symmetry. apply N.leb_le. lia.
  - (* Udfw *) unfold d2. symmetry. apply N.leb_le. lia.
Qed.

(* whatever satisfies the rule fits the field types *)
Lemma only_lt l a : a < 65536 -> only l a = true -> l < 65536.
Proof.
  intros Ha H. unfold only in H. apply N.eqb_eq in H. destruct (N.lt_ge_cases l 65536) as [L|L]; [exact L|exfalso].
  assert (L0 : l <> 0) by lia. pose proof (N.bit_log2 l L0) as B.
  assert (K : 16 <= N.log2 l) by (change 16 with (N.log2 65536); now apply N.log2_le_mono).
  assert (A : N.testbit a (N.log2 l) = false).
  { destruct (N.eq_dec a 0) as [->|NZ]; [apply N.bits_0|]. apply N.bits_above_log2.
    assert (N.log2 a < 16) by (apply N.log2_lt_pow2; [lia | exact Ha]). lia. }
  rewrite <- H, N.lor_spec, B in A. discriminate.
Qed.

Lemma rule_in_types i : operand_rule i = true -> in_types i = true.
Proof.
  destruct i; try (match goal with x : immreg |- _ => destruct x as [v|o] end); try destruct flags;
  try (match goal with c : cond |- _ => destruct c end);
  cbn [operand_rule in_types immreg_fits]; try reflexivity; try discriminate; unfold zin, i32b, nonempty; intros H.
  all: repeat match type of H with context [if ?b then _ else _] => destruct b end.
  all: repeat match goal with H : _ && _ = true |- _ => apply andb_prop in H; destruct H end.
  all: repeat match goal with H : Z.leb _ _ = true |- _ => apply Z.leb_le in H | H : N.leb _ _ = true |- _ => apply N.leb_le in H end.
  all: try (apply andb_true_intro; split; apply Z.leb_le; lia).
  all: try (apply N.ltb_lt; lia).
  all: try (apply N.ltb_lt; eapply only_lt; [|eassumption]; reflexivity).
Qed.

(* ---------------------------------------------------------------- the master theorem *)
Theorem rule_decides ev local addr name i ops args :
  mnemonic_spelling i name -> In ops (direct_forms i addr) -> Forall2 (reads ev) ops args ->
  if operand_rule i then emits_table (stmt_outcome ev local addr name args) i
  else stmt_outcome ev local addr name args = Rejects (if in_types i then DEncode else DValueRange).
Proof.
  intros M D R. pose proof (reads_converts ev local i addr ops args D R) as C.
  unfold stmt_outcome, assemble_stmt. rewrite (template_spelling i name M).
  destruct (operand_rule i) eqn:Ru.
  - rewrite (rule_in_types i Ru) in C. pose proof (proj1 (in_types_wf i) (rule_in_types i Ru)) as W.
    destruct (assemble_args ev local addr (kind_template i) (mkAst args 0)); cbn [cres_of] in C; try discriminate C.
    injection C as ->. pose proof (rule_enc i W) as E. rewrite Ru in E. unfold enc_okb in E.
    pose proof (enc_is_table i W) as T. destruct (enc i) as [hws|]; [|discriminate E].
    exists hws. split; [|reflexivity]. destruct (armv6m_enc i); cbn [of_spec] in T; [now injection T as -> | discriminate T].
  - destruct (in_types i) eqn:It.
    + pose proof (proj1 (in_types_wf i) It) as W.
      destruct (assemble_args ev local addr (kind_template i) (mkAst args 0)); cbn [cres_of] in C; try discriminate C.
      injection C as ->. pose proof (rule_enc i W) as E. rewrite Ru in E. unfold enc_okb in E.
      destruct (enc i); [discriminate E | reflexivity].
    + destruct (assemble_args ev local addr (kind_template i) (mkAst args 0)); cbn [cres_of] in C; try discriminate C.
      now injection C as ->.
Qed.

(* the rule is the domain of the ARMv6-M table (for values within the field types) *)
Theorem rule_is_table i : wf_instr i -> (operand_rule i = true <-> armv6m_enc i <> None).
Proof.
  intros W. rewrite <- (rule_enc i W). unfold enc_okb. rewrite (enc_is_table i W).
  destruct (armv6m_enc i); cbn [of_spec]; split; intros H; try reflexivity; try discriminate; try congruence.
Qed.
