(* Kernel sweep: Ldm, all registers x all 2^16 values of the 16-bit operand. *)
From Coq Require Import ZArith NArith List Bool.
From Trion Require Import Base.Sweep Arm.Instr Arm.EncodeModel Arm.DecodeModel Arm.Armv6mSpec Arm.CodecCheck Arm.CodecSweepA.
Lemma sw_Ldm : R1 (fun a => allN (fun n => codec_ok (Ldm a n)) 16) = true.
Proof. vm_compute. reflexivity. Qed.
