(* Kernel sweeps: all 2^16 register lists / 16-bit payloads. *)
From Coq Require Import ZArith NArith List Bool.
From Trion Require Import Base.Sweep Arm.Instr Arm.EncodeModel Arm.DecodeModel Arm.Armv6mSpec Arm.CodecCheck Arm.CodecSweepA.
Lemma sw_pop_push_udfw : allN (fun n => codec_ok (Pop n) && codec_ok (Push n) && codec_ok (Udfw n)) 16 = true.
Proof. vm_compute. reflexivity. Qed.
