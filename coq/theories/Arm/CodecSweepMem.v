(* Kernel sweeps: load/store/shift/compare/move with an immediate, branches. Windows are supersets of
   the encodable intervals; outside them both encoder and table reject (CodecProofs, symbolic). *)
From Coq Require Import ZArith NArith List Bool.
From Trion Require Import Base.Sweep Arm.Instr Arm.EncodeModel Arm.DecodeModel Arm.Armv6mSpec Arm.CodecCheck Arm.CodecSweepA.
Import ListNotations.
Lemma sw_ldr_imm : R2 (fun a b => allZ (fun v => codec_ok (Ldr a b (Imm v))) (-1024) 1 11) = true.
Proof. vm_compute. reflexivity. Qed.
Lemma sw_str_imm : R2 (fun a b => allZ (fun v => codec_ok (Str a b (Imm v))) (-1024) 1 11) = true.
Proof. vm_compute. reflexivity. Qed.
Lemma sw_small_imm :
  R2 (fun a b => allZ (fun v => forallb (fun k : reg -> reg -> immreg -> instr => codec_ok (k a b (Imm v)))
     [Ldrb; Ldrh; Strb; Strh; Asr; Lsl; Lsr]) (-64) 1 7) = true.
Proof. vm_compute. reflexivity. Qed.
Lemma sw_cmp_mov_imm :
  R1 (fun a => allZ (fun v => codec_ok (Cmp a (Imm v)) && codec_ok (Mov true a (Imm v)) && codec_ok (Mov false a (Imm v))) (-256) 1 9) = true.
Proof. vm_compute. reflexivity. Qed.
Lemma sw_b : forallb (fun c => allZ (fun v => codec_ok (B c v)) (-4096) 1 13) all_conds = true.
Proof. vm_compute. reflexivity. Qed.
