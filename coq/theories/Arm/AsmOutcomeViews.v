(* C04: the outcome of an instruction statement depends on its arguments only through what the operand converters observe
   (AsmSpellSpec.view_syn for the converters that take the argument as written, view_ev for those that evaluate it first).
   - every converter of AsmStmtModel factors through the view of its argument;
   - outcome_same_operands: two argument lists that no converter of the template can tell apart (same_operands) have the
     same outcome -- Emits the same instruction and halfwords, Rejects with the same diagnostic, Defers on the same name;
   - outcome_same_operand: in particular lists that are pairwise indistinguishable for every converter. *)
From Coq Require Import ZArith NArith List Bool Ascii String Lia.
From Trion Require Import Text.Types Arm.Instr Arm.EncodeModel Arm.DisplayModel Arm.DisplayArgs Arm.AsmStmtModel Arm.AsmStmtProofs
  Arm.AsmOperands Arm.AsmRejects Arm.AsmSpelling Arm.AsmPostChecks Arm.AsmSpellSpec.
Import ListNotations.
Open Scope N_scope.

(* ---------------------------------------------------------------- results without the converter state *)
Inductive cv (A : Type) := RvOk (v : A) | RvDefer (c : str) | RvDiag (d : asm_diag) | RvPanic.
Arguments RvOk {A}. Arguments RvDefer {A}. Arguments RvDiag {A}. Arguments RvPanic {A}.

Definition cvw {A} (c : conv A) : cv A :=
  match c with COk v _ => RvOk v | CDefer c _ => RvDefer c | CDiag d _ => RvDiag d | CPanic => RvPanic end.

Definition out_of (c : cv instr) : outcome :=
  match c with
  | RvOk i => match enc i with EncOk hws => Emits i hws | EncUnrep => Rejects DEncode end
  | RvDefer c => Defers c
  | RvDiag d => Rejects d
  | RvPanic => Panics
  end.

Lemma stmt_outcome_cvw ev local addr name args :
  stmt_outcome ev local addr name args = out_of (cvw (assemble_stmt ev local addr name args)).
Proof. unfold stmt_outcome. destruct (assemble_stmt ev local addr name args); reflexivity. Qed.

(* a continuation whose result does not depend on the state it is handed *)
Lemma cvw_bind {A B} (c c' : conv A) (k : A -> ast -> conv B) :
  cvw c = cvw c' -> (forall v st st', cvw (k v st) = cvw (k v st')) -> cvw (bind c k) = cvw (bind c' k).
Proof.
  intros H K. destruct c, c'; cbn [cvw] in H; try discriminate H; cbn [bind cvw]; try (injection H as ->); try reflexivity.
  apply K.
Qed.

(* ---------------------------------------------------------------- the converters through the views *)
Definition reg_conv (v : syn_view) (st : ast) : conv reg :=
  match v with
  | SvIdent (Some r) _ _ _ => COk r st
  | SvIdent None _ _ _ => CDiag DNoSuchRegister st
  | _ => CDiag DArgType st
  end.
Definition sys_conv (v : syn_view) (st : ast) : conv sysreg :=
  match v with
  | SvIdent _ (Some r) _ _ => COk r st
  | SvIdent _ None _ _ => CDiag DNoSuchRegister st
  | _ => CDiag DArgType st
  end.
Definition set_conv (v : syn_view) (st : ast) : conv N :=
  match v with
  | SvSeq (inl (Some b)) => COk b st
  | SvSeq (inl None) => CPanic
  | SvSeq (inr d) => CDiag d st
  | _ => CDiag DArgType st
  end.
Definition flag_conv {A} (sy : bool) (v : syn_view) (yes no : conv A) (st : ast) : conv A :=
  match v with
  | SvIdent _ _ fi fsy => if (if sy then fsy else fi) then yes else no
  | _ => CDiag DArgType st
  end.

Lemma c_register_view pos st : c_register pos st =
  match nth_error (a_args st) pos with Some a => reg_conv (view_syn a) st | None => CPanic end.
Proof. unfold c_register. destruct (nth_error (a_args st) pos) as [a|]; [|reflexivity]. destruct a; reflexivity. Qed.

Lemma c_sysreg_view pos st : c_sysreg pos st =
  match nth_error (a_args st) pos with Some a => sys_conv (view_syn a) st | None => CPanic end.
Proof. unfold c_sysreg. destruct (nth_error (a_args st) pos) as [a|]; [|reflexivity]. destruct a; reflexivity. Qed.

Lemma c_regset_view pos st : c_regset pos st =
  match nth_error (a_args st) pos with Some a => set_conv (view_syn a) st | None => CPanic end.
Proof. unfold c_regset. destruct (nth_error (a_args st) pos) as [a|]; [|reflexivity]. destruct a; reflexivity. Qed.

Lemma c_identifier_i {A} pos st (yes no : ast -> conv A) :
  (do pm, st <- c_identifier pos st; if str_eq_ci pm "i" then yes st else no st) =
  match nth_error (a_args st) pos with Some a => flag_conv false (view_syn a) (yes st) (no st) st | None => CPanic end.
Proof. unfold c_identifier. destruct (nth_error (a_args st) pos) as [a|]; [|reflexivity]. destruct a; reflexivity. Qed.

Lemma c_identifier_sy {A} pos st (yes no : ast -> conv A) :
  (do pm, st <- c_identifier pos st; if str_eq_ci pm "SY" then yes st else no st) =
  match nth_error (a_args st) pos with Some a => flag_conv true (view_syn a) (yes st) (no st) st | None => CPanic end.
Proof. unfold c_identifier. destruct (nth_error (a_args st) pos) as [a|]; [|reflexivity]. destruct a; reflexivity. Qed.

(* the evaluating converters: status first, then the shape of the evaluated argument *)
Definition ev_conv {A} (local : bool) (v : ev_view) (shape : ev_view -> cv A) : cv A :=
  match v with
  | EvDefer c => RvDefer c
  | EvNoVar n => if local then RvDefer n else RvDiag DEval
  | EvErr => RvDiag DEval
  | _ => shape v
  end.

Definition imm_shape (v : ev_view) : cv Z :=
  match v with EvConst z => match i32_of z with Some x => RvOk x | None => RvDiag DValueRange end | _ => RvDiag DArgType end.
Definition off_shape (v : ev_view) : cv N :=
  match v with EvConst z => match u32_of z with Some x => RvOk x | None => RvDiag DValueRange end | _ => RvDiag DArgType end.
Definition immreg_shape (v : ev_view) : cv immreg :=
  match v with
  | EvConst z => match i32_of z with Some x => RvOk (Imm x) | None => RvDiag DValueRange end
  | EvIdent (Some r) => RvOk (Reg r)
  | EvIdent None => RvDiag DNoSuchRegister
  | _ => RvDiag DArgType
  end.
Definition addr_shape (v : ev_view) : cv (reg * option immreg) :=
  match v with EvAddr (inl x) => RvOk x | EvAddr (inr d) => RvDiag d | _ => RvDiag DArgType end.
Definition addr_off_shape (v : ev_view) : cv addr_offset :=
  match v with
  | EvConst z => match u32_of z with Some x => RvOk (AoOffset x) | None => RvDiag DValueRange end
  | EvAddr (inl (r, o)) => RvOk (AoAddress r o)
  | EvAddr (inr d) => RvDiag d
  | _ => RvDiag DArgType
  end.

Ltac ev_view_tac H L :=
  unfold eval_at, view_ev; rewrite H; rewrite (proj2 (Nat.leb_le _ _) L);
  let a' := fresh "a'" in let s := fresh "s" in
  match goal with |- context [?ev ?a] => destruct (ev a) as [a' s] end;
  destruct s; cbn [bind cvw ev_conv]; try (match goal with |- context [if ?l then _ else _] => destruct l end; reflexivity); try reflexivity;
  destruct a'; cbn [bind cvw ev_conv imm_shape off_shape immreg_shape addr_shape addr_off_shape]; try reflexivity;
  repeat match goal with |- context [match ?x with _ => _ end] => destruct x; cbn [bind cvw]; try reflexivity end.

Section EvalConverters.
Variable ev : evaluator.
Variable local : bool.

Lemma c_immediate_view pos st a : nth_error (a_args st) pos = Some a -> (a_done st <= pos)%nat ->
  cvw (c_immediate ev local pos st) = ev_conv local (view_ev ev a) imm_shape.
Proof. intros H L. unfold c_immediate. ev_view_tac H L. Qed.

Lemma c_offset_view pos st a : nth_error (a_args st) pos = Some a -> (a_done st <= pos)%nat ->
  cvw (c_offset ev local pos st) = ev_conv local (view_ev ev a) off_shape.
Proof. intros H L. unfold c_offset. ev_view_tac H L. Qed.

Lemma c_immreg_view pos st a : nth_error (a_args st) pos = Some a -> (a_done st <= pos)%nat ->
  cvw (c_immreg ev local pos st) = ev_conv local (view_ev ev a) immreg_shape.
Proof. intros H L. unfold c_immreg. ev_view_tac H L. Qed.

Lemma c_address_view pos st a : nth_error (a_args st) pos = Some a -> (a_done st <= pos)%nat ->
  cvw (c_address ev local pos st) = ev_conv local (view_ev ev a) addr_shape.
Proof. intros H L. unfold c_address. ev_view_tac H L. Qed.

Lemma c_addr_offset_view pos st a : nth_error (a_args st) pos = Some a -> (a_done st <= pos)%nat ->
  cvw (c_addr_offset ev local pos st) = ev_conv local (view_ev ev a) addr_off_shape.
Proof. intros H L. unfold c_addr_offset. ev_view_tac H L. Qed.
End EvalConverters.

(* ---------------------------------------------------------------- the offset checks do not look at the state *)
Lemma lit_offset_st addr tgt st st' : cvw (lit_offset addr tgt st) = cvw (lit_offset addr tgt st').
Proof. unfold lit_offset. cbv zeta. repeat match goal with |- context [if ?b then _ else _] => destruct b end; reflexivity. Qed.
Lemma branch_offset_st addr tgt lo hi st st' : cvw (branch_offset addr tgt lo hi st) = cvw (branch_offset addr tgt lo hi st').
Proof. unfold branch_offset. cbv zeta. repeat match goal with |- context [if ?b then _ else _] => destruct b end; reflexivity. Qed.

Ltac st_indep :=
  intros; cbv beta;
  repeat first
    [ reflexivity
    | apply cvw_bind; [first [apply lit_offset_st | apply branch_offset_st] | intros]
    | match goal with
      | |- context [if ?b then _ else _] => destruct b
      | |- context [match ?x with _ => _ end] => destruct x
      end ].

(* one converter on both sides *)
Ltac syn_step :=
  match goal with
  | |- context [c_register ?p (mkAst ?l 0)] => rewrite !c_register_view; cbn [a_args nth_error]
  | |- context [c_sysreg ?p (mkAst ?l 0)] => rewrite !c_sysreg_view; cbn [a_args nth_error]
  | |- context [c_regset ?p (mkAst ?l 0)] => rewrite !c_regset_view; cbn [a_args nth_error]
  end;
  match goal with
  | Hx : view_syn ?a = view_syn ?b |- context [view_syn ?b] =>
      rewrite <- Hx; destruct (view_syn a) as [[?|] [?|] ? ?|[[?|]|?]|]; cbn [reg_conv sys_conv set_conv bind cvw]; try reflexivity
  end.

Ltac ev_rw lem :=
  match goal with
  | |- cvw (?f ?ev ?local ?p (mkAst ?l 0)) = cvw (?f _ _ _ (mkAst ?l' 0)) =>
      rewrite (lem ev local p (mkAst l 0) _ eq_refl (Nat.le_0_l _)), (lem ev local p (mkAst l' 0) _ eq_refl (Nat.le_0_l _))
  end.

Ltac ev_step :=
  apply cvw_bind;
  [ first [ ev_rw c_immediate_view | ev_rw c_offset_view | ev_rw c_immreg_view | ev_rw c_address_view | ev_rw c_addr_offset_view ];
    match goal with Hx : view_ev _ ?a = view_ev _ ?b |- _ => rewrite Hx; reflexivity end
  | st_indep ].

Theorem args_same ev local addr t args args' : same_operands ev t args args' ->
  cvw (assemble_args ev local addr t (mkAst args 0)) = cvw (assemble_args ev local addr t (mkAst args' 0)).
Proof.
  intros [L H].
  destruct (Nat.lt_trichotomy (List.length args) (List.length (kinds t))) as [F|[F|F]].
  - rewrite (arity_few ev local addr t args F). rewrite L in F. rewrite (arity_few ev local addr t args' F). reflexivity.
  - destruct t; cbn [kinds List.length] in F, H;
    repeat (let a := fresh "a" in destruct args as [|a args]; cbn [List.length] in F; try discriminate F);
    repeat (let b := fresh "b" in destruct args' as [|b args']; cbn [List.length] in L; try discriminate L); clear F L.
    all: try (pose proof (H 0%nat _ _ _ eq_refl eq_refl eq_refl) as H0; cbn [same_at evaluated] in H0).
    all: try (pose proof (H 1%nat _ _ _ eq_refl eq_refl eq_refl) as H1; cbn [same_at evaluated] in H1).
    all: try (pose proof (H 2%nat _ _ _ eq_refl eq_refl eq_refl) as H2; cbn [same_at evaluated] in H2).
    all: clear H.
    all: cbn [assemble_args]; unfold rr, rri, r_addr, r_addr_reg, small_imm, arity; cbn [a_args List.length Nat.ltb Nat.leb bind].
    all: repeat syn_step.
    all: try (ev_step; fail).
    all: try reflexivity.
    all: match goal with
         | |- context [str_eq_ci _ "i"] =>
             rewrite !(c_identifier_i 0 _ (fun st => COk (Cps enable) st) (fun st => CDiag DValueRange st))
         | |- context [COk ?i _] =>
             rewrite !(c_identifier_sy 0 _ (fun st => COk i st) (fun st => CDiag DValueRange st))
         end; cbn [a_args nth_error]; rewrite <- H0; destruct (view_syn a) as [? ? [|] [|]| |]; reflexivity.
  - rewrite (arity_many ev local addr t args F). rewrite L in F. rewrite (arity_many ev local addr t args' F). reflexivity.
Qed.

(* ---------------------------------------------------------------- statement level *)
Theorem outcome_same_operands ev local addr name name' t args args' :
  template name = Some t -> template name' = Some t -> same_operands ev t args args' ->
  stmt_outcome ev local addr name args = stmt_outcome ev local addr name' args'.
Proof.
  intros T T' S. rewrite !stmt_outcome_cvw. unfold assemble_stmt. rewrite T, T'. f_equal. now apply args_same.
Qed.

Lemma Forall2_len {A B} (R : A -> B -> Prop) l l' : Forall2 R l l' -> List.length l = List.length l'.
Proof. induction 1; cbn [List.length]; congruence. Qed.

Lemma same_operand_operands ev t args args' : Forall2 (same_operand ev) args args' -> same_operands ev t args args'.
Proof.
  intros F. split; [exact (Forall2_len _ _ _ F)|]. intros p k a a' _. revert p. induction F as [|x y l l' Hxy F IH]; intros [|p]; cbn [nth_error]; try discriminate.
  - intros Ha Ha'. injection Ha as <-. injection Ha' as <-. destruct Hxy as [Hs He]. unfold same_at. destruct (evaluated k); assumption.
  - apply IH.
Qed.

(* arguments that are pairwise indistinguishable for every converter, under two names of the same mnemonic *)
Theorem outcome_same_operand ev local addr name name' args args' :
  template name = template name' -> Forall2 (same_operand ev) args args' ->
  stmt_outcome ev local addr name args = stmt_outcome ev local addr name' args'.
Proof.
  intros T F. destruct (template name') as [t|] eqn:T'.
  - exact (outcome_same_operands ev local addr name name' t args args' T T' (same_operand_operands ev t args args' F)).
  - unfold stmt_outcome. now rewrite (stmt_unknown_mnemonic ev local addr name args T), (stmt_unknown_mnemonic ev local addr name' args' T').
Qed.

Lemma same_operand_refl ev a : same_operand ev a a.
Proof. split; reflexivity. Qed.
Lemma same_operand_sym ev a b : same_operand ev a b -> same_operand ev b a.
Proof. intros [H1 H2]. split; now symmetry. Qed.
Lemma same_operand_trans ev a b c : same_operand ev a b -> same_operand ev b c -> same_operand ev a c.
Proof. intros [H1 H2] [H3 H4]. split; congruence. Qed.
