(* The parsed form of the text printed by DisplayModel.display: mnemonic and argument trees.
   (`-5` is the two tokens `-` `5`, i.e. Negate(Constant 5); `l_XXXXXXXX` is an identifier; `[a + b]` is
   Address(Add ..); `{R0, R1}` is a Sequence of identifiers.)  Used to state C19 at the level of parsed
   statements; the tie text -> tokens -> these trees is C09/C11's business and is checked on the real
   tokenizer/parser by the C19 correspondence stream. *)
From Coq Require Import ZArith NArith List Bool Ascii String.
From Trion Require Import Text.Types Arm.Instr Arm.DisplayModel.
Import ListNotations.
Open Scope N_scope.

Definition id_reg (r : reg) : arg := AIdent (reg_name r).
Definition num_arg (v : Z) : arg :=
  match v with
  | Zneg p => ANeg (AConst (Zpos p))
  | _ => AConst v
  end.
Definition immreg_arg (x : immreg) : arg := match x with Imm v => num_arg v | Reg r => id_reg r end.
Definition label_arg (target : N) : arg := AIdent (label target).
Definition regset_arg (bits : N) : arg :=
  ASeq (flat_map (fun r => if N.testbit bits (reg_num r) then [id_reg r] else []) all_regs).
Definition mem_arg (a : reg) (o : arg) : arg := AAddr (AAdd (id_reg a) o).

Definition mnemonic (i : instr) : list N :=
  match i with
  | Adc _ _ => $"ADCS" | Add f _ _ _ => $"ADD" ++ sfx f | Adr _ _ => $"ADR" | And _ _ => $"ANDS" | Asr _ _ _ => $"ASRS"
  | B c _ => $"B" ++ cond_suffix c | Bic _ _ => $"BICS" | Bkpt _ => $"BKPT" | Bl _ => $"BL" | Blx _ => $"BLX" | Bx _ => $"BX"
  | Cmn _ _ => $"CMN" | Cmp _ _ => $"CMP" | Cps e => if e then $"CPSIE" else $"CPSID" | Dmb => $"DMB" | Dsb => $"DSB"
  | Eor _ _ => $"EORS" | Isb => $"ISB" | Ldm _ _ => $"LDM" | Ldr _ _ _ => $"LDR" | Ldrb _ _ _ => $"LDRB" | Ldrh _ _ _ => $"LDRH"
  | Ldrsb _ _ _ => $"LDRSB" | Ldrsh _ _ _ => $"LDRSH" | Lsl _ _ _ => $"LSLS" | Lsr _ _ _ => $"LSRS" | Mov f _ _ => $"MOV" ++ sfx f
  | Mrs _ _ => $"MRS" | Msr _ _ => $"MSR" | Mul _ _ => $"MULS" | Mvn _ _ => $"MVNS" | Nop => $"NOP" | Orr _ _ => $"ORRS"
  | Pop _ => $"POP" | Push _ => $"PUSH" | Rev _ _ => $"REV" | Rev16 _ _ => $"REV16" | Revsh _ _ => $"REVSH" | Ror _ _ => $"RORS"
  | Rsb _ _ => $"RSBS" | Sbc _ _ => $"SBCS" | Sev => $"SEV" | Stm _ _ => $"STM" | Str _ _ _ => $"STR" | Strb _ _ _ => $"STRB"
  | Strh _ _ _ => $"STRH" | Sub f _ _ _ => $"SUB" ++ sfx f | Svc _ => $"SVC" | Sxtb _ _ => $"SXTB" | Sxth _ _ => $"SXTH"
  | Tst _ _ => $"TST" | Udf _ => $"UDF.N" | Udfw _ => $"UDF.W" | Uxtb _ _ => $"UXTB" | Uxth _ _ => $"UXTH"
  | Wfe => $"WFE" | Wfi => $"WFI" | Yield => $"YIELD"
  end.

Definition display_args (i : instr) (addr : N) : list arg :=
  match i with
  | Adc a b | And a b | Bic a b | Cmn a b | Eor a b | Mul a b | Mvn a b | Orr a b | Rev a b | Rev16 a b | Revsh a b
  | Ror a b | Sbc a b | Sxtb a b | Sxth a b | Tst a b | Uxtb a b | Uxth a b => [id_reg a; id_reg b]
  | Add _ d l x | Sub _ d l x | Asr d l x | Lsl d l x | Lsr d l x => [id_reg d; id_reg l; immreg_arg x]
  | Adr d off => [id_reg d; label_arg (wadd (align4_pc addr) (Z.of_N off))]
  | B _ off | Bl off => [label_arg (wadd (wadd addr 4) off)]
  | Bkpt n | Svc n | Udf n | Udfw n => [AConst (Z.of_N n)]
  | Blx m | Bx m => [id_reg m]
  | Cmp a x | Mov _ a x => [id_reg a; immreg_arg x]
  | Cps _ => [AIdent $"i"]
  | Dmb | Dsb | Isb => [AIdent $"SY"]
  | Ldm a l | Stm a l => [id_reg a; regset_arg l]
  | Ldr d PC (Imm off) => [id_reg d; label_arg (wadd (align4_pc addr) off)]
  | Ldr d a x | Ldrb d a x | Ldrh d a x | Str d a x | Strb d a x | Strh d a x => [id_reg d; mem_arg a (immreg_arg x)]
  | Ldrsb d a o | Ldrsh d a o => [id_reg d; mem_arg a (id_reg o)]
  | Mrs d s => [id_reg d; AIdent (sysreg_name s)]
  | Msr s r => [AIdent (sysreg_name s); id_reg r]
  | Nop | Sev | Wfe | Wfi | Yield => []
  | Pop l | Push l => [regset_arg l]
  | Rsb d l => [id_reg d; id_reg l; AConst 0]
  end.
