(* C04 at the level of SOURCE TEXT: characters -> tokenizer model -> parser model -> mnemonic table and operand converters
   (with the evaluator model) -> instruction.  Composition of C09's text theorems (Text/ShowProofs.v: any separators,
   comments, line breaks; free spelling of numbers) with AsmImmediates.written_assembles (any spelling of names, any
   constant expression). *)
From Coq Require Import ZArith NArith List Bool Ascii String.
From Trion Require Import Text.Types Text.ParseModel Text.Render Text.ParseProofs Text.Pipeline Text.ShowSpec Text.ShowProofs
  Expr.EvalModel Arm.Instr Arm.EncodeModel Arm.DisplayModel Arm.DisplayArgs Arm.AsmStmtModel Arm.AsmStmtProofs Arm.AsmEvalLink
  Arm.AsmOperands Arm.AsmSpelling Arm.AsmImmediates Arm.AsmRespell Bin.TextRoundtrip.
Import ListNotations.
Open Scope N_scope.

(* the text of one instruction statement, written as the tokens ws (any rendering of the statement: redundant parentheses,
   any spelling of each number) with the separators seps, is read back as that statement *)
Lemma stmt_of_text_spelled : forall name args ws seps,
  RendStmts [EInstruction name args] (map wtok_val ws) -> Forall wtok_ok ws -> wseps_ok ws seps ->
  stmt_of_text (showw ws seps) = Some (name, args).
Proof.
  intros name args ws seps R OK S. destruct (textw_roundtrip _ ws seps R OK S) as [els [P M]]. unfold stmt_of_text. rewrite P.
  destruct els as [|e [|e' els]]; cbn [map] in M; try discriminate M. injection M as M. cbn [map]. now rewrite M.
Qed.

Lemma stmt_of_text_canonical name args seps :
  writable_stmt (EInstruction name args) = true -> seps_ok (render_stmt (EInstruction name args)) seps ->
  stmt_of_text (show (render_stmt (EInstruction name args)) seps) = Some (name, args).
Proof.
  intros Wr S. destruct (text_roundtrip1 _ seps Wr S) as [line [col P]]. unfold stmt_of_text. rewrite P. reflexivity.
Qed.

(* C04 from the characters: ANY text of the statement (separators, comments, number spellings, parentheses) whose
   arguments are a documented way of writing the operands of the encodable instruction i assembles to exactly i *)
Theorem written_text_assembles lk local i addr hws name args ws seps :
  wf_instr i -> enc i = EncOk hws -> target_in_space i addr = true ->
  mnemonic_spelling i name -> written lk i addr args ->
  RendStmts [EInstruction name args] (map wtok_val ws) -> Forall wtok_ok ws -> wseps_ok ws seps ->
  asm_text lk local addr (showw ws seps) = Some i.
Proof.
  intros W E T M Wr R OK S. unfold asm_text. rewrite (stmt_of_text_spelled name args ws seps R OK S).
  exact (written_assembles lk local i addr hws name args W E T M Wr).
Qed.

Theorem written_text_assembles_canonical lk local i addr hws name args seps :
  wf_instr i -> enc i = EncOk hws -> target_in_space i addr = true ->
  mnemonic_spelling i name -> written lk i addr args ->
  writable_stmt (EInstruction name args) = true -> seps_ok (render_stmt (EInstruction name args)) seps ->
  asm_text lk local addr (show (render_stmt (EInstruction name args)) seps) = Some i.
Proof.
  intros W E T M Wr Wb S. unfold asm_text. rewrite (stmt_of_text_canonical name args seps Wb S).
  exact (written_assembles lk local i addr hws name args W E T M Wr).
Qed.

(* the printed statement with its names respelled, as text *)
Theorem respelled_text_assembles lk local i addr hws name args' ws seps :
  (forall t, t < 4294967296 -> lk (label t) = Found (Z.of_N t)) ->
  wf_instr i -> enc i = EncOk hws -> target_in_space i addr = true ->
  mnemonic_spelling i name -> Forall2 respelled (display_args i addr) args' ->
  RendStmts [EInstruction name args'] (map wtok_val ws) -> Forall wtok_ok ws -> wseps_ok ws seps ->
  asm_text lk local addr (showw ws seps) = Some i.
Proof.
  intros LB W E T M F. apply (written_text_assembles lk local i addr hws name args' ws seps W E T M).
  exact (display_respelled_written lk LB i addr hws args' W E T F).
Qed.
