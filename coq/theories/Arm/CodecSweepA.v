(* Kernel sweeps: codec_ok for every instruction whose operands are registers, conditions,
   special registers, flags or small payloads.  Each lemma enumerates the complete operand domain. *)
From Coq Require Import ZArith NArith List Bool.
From Trion Require Import Base.Sweep Arm.Instr Arm.EncodeModel Arm.DecodeModel Arm.Armv6mSpec Arm.CodecCheck.
Import ListNotations.

Definition R1 (f : reg -> bool) : bool := forallb f all_regs.
Definition R2 (f : reg -> reg -> bool) : bool := R1 (fun a => R1 (f a)).
Definition R3 (f : reg -> reg -> reg -> bool) : bool := R1 (fun a => R2 (f a)).
Definition Bo (f : bool -> bool) : bool := f true && f false.

Lemma in_all_regs r : In r all_regs.
Proof. destruct r; cbn; tauto. Qed.
Lemma in_all_conds c : In c all_conds.
Proof. destruct c; cbn; tauto. Qed.
Lemma in_all_sysregs s : In s all_sysregs.
Proof. destruct s; cbn; tauto. Qed.

Lemma R1_spec f : R1 f = true -> forall a, f a = true.
Proof. intros H a. exact (proj1 (forallb_forall f all_regs) H a (in_all_regs a)). Qed.
Lemma R2_spec f : R2 f = true -> forall a b, f a b = true.
Proof. intros H a b. exact (R1_spec _ (R1_spec _ H a) b). Qed.
Lemma R3_spec f : R3 f = true -> forall a b c, f a b c = true.
Proof. intros H a b c. exact (R2_spec _ (R1_spec _ H a) b c). Qed.
Lemma Bo_spec f : Bo f = true -> forall b, f b = true.
Proof. unfold Bo. intros H b. apply andb_prop in H. destruct b; tauto. Qed.
Lemma conds_spec f : forallb f all_conds = true -> forall c, f c = true.
Proof. intros H c. exact (proj1 (forallb_forall f all_conds) H c (in_all_conds c)). Qed.
Lemma sysregs_spec f : forallb f all_sysregs = true -> forall s, f s = true.
Proof. intros H s. exact (proj1 (forallb_forall f all_sysregs) H s (in_all_sysregs s)). Qed.

(* two-register data processing *)
Lemma sw_two :
  R2 (fun a b => forallb (fun k : reg -> reg -> instr => codec_ok (k a b))
     [Adc; And; Bic; Cmn; Eor; Mul; Mvn; Orr; Rev; Rev16; Revsh; Ror; Rsb; Sbc; Sxtb; Sxth; Tst; Uxtb; Uxth]) = true.
Proof. vm_compute. reflexivity. Qed.

Lemma sw_three : R3 (fun a b c => codec_ok (Ldrsb a b c) && codec_ok (Ldrsh a b c)) = true.
Proof. vm_compute. reflexivity. Qed.

Lemma sw_one : R1 (fun a => codec_ok (Blx a) && codec_ok (Bx a)) = true.
Proof. vm_compute. reflexivity. Qed.

Lemma sw_none : forallb codec_ok [Dmb; Dsb; Isb; Nop; Sev; Wfe; Wfi; Yield; Cps true; Cps false] = true.
Proof. vm_compute. reflexivity. Qed.

Lemma sw_sys : R1 (fun r => forallb (fun s => codec_ok (Mrs r s) && codec_ok (Msr s r)) all_sysregs) = true.
Proof. vm_compute. reflexivity. Qed.

(* register forms of the ImmReg-carrying instructions *)
Lemma sw_reg3 :
  R3 (fun a b c => forallb (fun k : reg -> reg -> immreg -> instr => codec_ok (k a b (Reg c)))
     [Asr; Lsl; Lsr; Ldr; Ldrb; Ldrh; Str; Strb; Strh]) = true.
Proof. vm_compute. reflexivity. Qed.

Lemma sw_reg3f :
  Bo (fun f => R3 (fun a b c => codec_ok (Add f a b (Reg c)) && codec_ok (Sub f a b (Reg c)))) = true.
Proof. vm_compute. reflexivity. Qed.

Lemma sw_reg2 : R2 (fun a b => codec_ok (Cmp a (Reg b)) && codec_ok (Mov true a (Reg b)) && codec_ok (Mov false a (Reg b))) = true.
Proof. vm_compute. reflexivity. Qed.

(* 8-bit payloads *)
Lemma sw_info8 : allN (fun n => codec_ok (Bkpt n) && codec_ok (Svc n) && codec_ok (Udf n)) 8 = true.
Proof. vm_compute. reflexivity. Qed.
