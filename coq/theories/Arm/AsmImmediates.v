(* C04: immediates as arbitrary constant expressions, memory operands in all documented forms, and the statement-level
   theorems for the evaluator model (ev_of lk = the model of asm::simplify::evaluate under the constant table lk).
   - writes_reads: every documented way of writing an operand (AsmOperands.writes) is read as that operand;
   - written_assembles: a statement written (any mnemonic spelling, any operand spelling, any constant expression in the
     immediate / target positions, [b + e] | [e + b] | [b]) for an encodable instruction i assembles to exactly i;
   - display_respelled_written / respelled_assembles: the printed statement with its names respelled;
   - wval_literal, wval_den64: the expressions that qualify (C07: literal trees whose ideal value is v; C08: the value is
     the checked 64-bit value of the expression under every assignment compatible with the table). *)
From Coq Require Import ZArith NArith List Bool Ascii String Lia.
From Trion Require Import Text.Types Expr.I64 Expr.SimplifyModel Expr.EvalModel Expr.Denote Expr.C07Proofs Expr.C08Sound
  Arm.Instr Arm.EncodeModel Arm.DisplayModel Arm.DisplayArgs Arm.AsmStmtModel Arm.AsmStmtProofs
  Arm.AsmEvalLink Arm.AsmOperands Arm.AsmRejects Arm.AsmSpelling.
Import ListNotations.

(* ---------------------------------------------------------------- the evaluator on the documented operand forms *)
Section Ev.
Variable lk : str -> lookup_res.

Lemma regl_is_register s r : regl s = Some r -> is_register s = true.
Proof.
  intros H. unfold is_register. rewrite H. unfold regl in H. destruct (Nat.leb_spec (List.length s) 4); [|discriminate].
  destruct (Nat.leb_spec (List.length s) 8); [reflexivity | lia].
Qed.

Lemma eval_reg s r : regl s = Some r -> evaluate lk is_register (AIdent s) = Ok (AIdent s, Complete false).
Proof. intros H. cbn [evaluate]. now rewrite (regl_is_register s r H). Qed.

Lemma eval_mem_rr p q rp rq : regl p = Some rp -> regl q = Some rq ->
  evaluate lk is_register (AAddr (AAdd (AIdent p) (AIdent q))) = Ok (AAddr (AAdd (AIdent p) (AIdent q)), Complete false).
Proof. intros Hp Hq. cbn [evaluate]. rewrite (regl_is_register _ _ Hp), (regl_is_register _ _ Hq). reflexivity. Qed.

Lemma eval_mem_r p rp : regl p = Some rp ->
  evaluate lk is_register (AAddr (AIdent p)) = Ok (AAddr (AIdent p), Complete false).
Proof. intros Hp. cbn [evaluate]. rewrite (regl_is_register _ _ Hp). reflexivity. Qed.

Lemma eval_mem_ri p rp e v c : regl p = Some rp -> evaluate lk is_register e = Ok (AConst v, Complete c) -> (0 <= v)%Z ->
  exists c', evaluate lk is_register (AAddr (AAdd (AIdent p) e)) =
    Ok (AAddr (if Z.eqb v 0 then AIdent p else AAdd (AIdent p) (AConst v)), Complete c').
Proof.
  intros Hp He Hv. cbn [evaluate]. rewrite (regl_is_register _ _ Hp), He. cbn [negb]. unfold eval_un, eval_bin. cbn [I64.bind].
  unfold eval_node. cbn. destruct (Z.ltb_spec v 0); [lia|]. cbn. unfold opt_is. cbn.
  destruct (Z.eqb_spec v 0); cbn; eexists; reflexivity.
Qed.

Lemma eval_mem_ir p rp e v c : regl p = Some rp -> evaluate lk is_register e = Ok (AConst v, Complete c) ->
  exists c', evaluate lk is_register (AAddr (AAdd e (AIdent p))) =
    Ok (AAddr (if Z.eqb v 0 then AIdent p else AAdd (AConst v) (AIdent p)), Complete c').
Proof.
  intros Hp He. cbn [evaluate]. rewrite (regl_is_register _ _ Hp), He. cbn [negb]. unfold eval_un, eval_bin. cbn [I64.bind].
  unfold eval_node. cbn. unfold opt_is. cbn.
  destruct (Z.eqb_spec v 0); cbn; eexists; reflexivity.
Qed.
End Ev.

(* ---------------------------------------------------------------- writes -> reads *)
Definition opspec_ok (p : opspec) : Prop :=
  match p with
  | PMem _ (Imm v) => (0 <= v)%Z /\ i32_ok v
  | PFlag lit => regl (upper_str (bytes_of_string lit)) = None
  | _ => True
  end.

Lemma ev_of_wval lk v e : wval lk v e -> ev_of lk e = (AConst v, SComplete).
Proof. intros [c H]. unfold ev_of. now rewrite H. Qed.

Lemma ev_of_wreg lk r a : wreg r a -> exists s, ev_of lk a = (AIdent s, SComplete) /\ regl s = Some r.
Proof. intros [s [-> H]]. exists s. split; [|exact H]. unfold ev_of. now rewrite (eval_reg lk s r H). Qed.

Lemma writes_reads lk p a : opspec_ok p -> writes lk p a -> reads (ev_of lk) p a.
Proof.
  destruct p as [r|r|lit|bits|v|x|b x]; cbn [writes reads opspec_ok]; intros OK W.
  - exact W.
  - exact W.
  - destruct W as [s [-> H]]. exists s. split; [reflexivity|]. now apply str_eq_ci_iff.
  - destruct W as [names [rs [-> [F ->]]]]. eexists. split; [reflexivity|]. rewrite (regset_bits_mask names rs 0%N F). reflexivity.
  - now apply ev_of_wval.
  - destruct x as [v|r]; [now apply ev_of_wval | now apply ev_of_wreg].
  - destruct x as [v|o].
    + destruct OK as [NN I32]. assert (IO : i32_of v = Some v) by now apply i32_of_ok'.
      destruct W as [[p [e [-> [[s [-> Hs]] [c He]]]]] | [[e [p [-> [[c He] [s [-> Hs]]]]]] | [-> [p [-> [s [-> Hs]]]]]]].
      * destruct (eval_mem_ri lk s b e v c Hs He NN) as [c' E]. unfold ev_of. rewrite E.
        eexists. split; [reflexivity|]. destruct (Z.eqb_spec v 0) as [->|NZ]; cbn [addr_off]; [now rewrite Hs | now rewrite IO, Hs].
      * destruct (eval_mem_ir lk s b e v c Hs He) as [c' E]. unfold ev_of. rewrite E.
        eexists. split; [reflexivity|]. destruct (Z.eqb_spec v 0) as [->|NZ]; cbn [addr_off]; [now rewrite Hs | now rewrite IO, Hs].
      * unfold ev_of. rewrite (eval_mem_r lk s b Hs). eexists. split; [reflexivity|]. cbn [addr_off]. now rewrite Hs.
    + destruct W as [p [q [-> [[s [-> Hs]] [s' [-> Hs']]]]]]. unfold ev_of. rewrite (eval_mem_rr lk s s' b o Hs Hs').
      eexists. split; [reflexivity|]. cbn [addr_off]. now rewrite Hs, Hs'.
Qed.

Lemma operands_ok i addr hws : wf_instr i -> enc i = EncOk hws -> Forall opspec_ok (operands i addr).
Proof.
  intros W E.
  assert (M : forall k d a v, In k [Ldr; Ldrb; Ldrh; Str; Strb; Strh] -> i = k d a (Imm v) -> opspec_ok (PMem a (Imm v))).
  { intros k d a v Hk ->. cbn [opspec_ok]. split; [exact (enc_mem_nonneg k d a v hws Hk E)|].
    cbn [In] in Hk. repeat (destruct Hk as [<-|Hk]; [exact W|]). contradiction. }
  destruct i; try (destruct addr0; destruct off as [v|o]); cbn [operands]; repeat constructor; try exact I; try reflexivity.
  all: eapply M; [|reflexivity]; cbn [In]; tauto.
Qed.

Lemma Forall2_impl_Forall {A B} (P : A -> Prop) (R R' : A -> B -> Prop) l l' :
  (forall x y, P x -> R x y -> R' x y) -> Forall P l -> Forall2 R l l' -> Forall2 R' l l'.
Proof.
  intros H F F2. induction F2 as [|x y l l' Hxy F2 IH]; [constructor|]. inversion F; subst.
  constructor; [now apply H | now apply IH].
Qed.

(* C04, completeness over argument trees: any documented spelling of the statement for an encodable instruction i *)
Theorem written_assembles lk local i addr hws name args :
  wf_instr i -> enc i = EncOk hws -> target_in_space i addr = true ->
  mnemonic_spelling i name -> written lk i addr args ->
  conv_val (assemble_stmt (ev_of lk) local addr name args) = Some i.
Proof.
  intros W E T M Wr. apply (stmt_reads_assembles (ev_of lk) local i addr hws name args W E T M).
  unfold stmt_reads, operand_forms. apply Exists_cons_hd.
  exact (Forall2_impl_Forall opspec_ok (writes lk) (reads (ev_of lk)) _ _ (writes_reads lk) (operands_ok i addr hws W E) Wr).
Qed.

(* ---------------------------------------------------------------- which expressions qualify *)
Lemma ev_or_complete a b c : ev_or a b = Complete c -> exists ca cb, a = Complete ca /\ b = Complete cb.
Proof. destruct a, b; cbn; try discriminate. eauto. Qed.

Lemma literal_complete lk ir t : literal_tree t = true -> forall a ev, evaluate lk ir t = Ok (a, ev) -> exists c, ev = Complete c.
Proof.
  assert (B : forall op rl rr a ev,
    (forall a ev, rl = Ok (a, ev) -> exists c, ev = Complete c) -> (forall a ev, rr = Ok (a, ev) -> exists c, ev = Complete c) ->
    eval_bin op rl rr = Ok (a, ev) -> exists c, ev = Complete c).
  { intros op rl rr a ev Hl Hr. unfold eval_bin, eval_node.
    destruct rl as [[l' el]|?|?]; cbn [I64.bind]; try discriminate. destruct rr as [[r' er]|?|?]; cbn [I64.bind]; try discriminate.
    destruct (simplify_raw (mk_bin op l' r')) as [[a' c]|?|?]; cbn [I64.bind]; try discriminate.
    intros H. inversion H; subst. destruct (Hl _ _ eq_refl) as [cl ->]. destruct (Hr _ _ eq_refl) as [cr ->]. cbn. eauto. }
  assert (U : forall mk rv a ev, (forall a ev, rv = Ok (a, ev) -> exists c, ev = Complete c) ->
    eval_un mk rv = Ok (a, ev) -> exists c, ev = Complete c).
  { intros mk rv a ev Hv. unfold eval_un, eval_node. destruct rv as [[v' e]|?|?]; cbn [I64.bind]; try discriminate.
    destruct (simplify_raw (mk v')) as [[a' c]|?|?]; cbn [I64.bind]; try discriminate.
    intros H. inversion H; subst. destruct (Hv _ _ eq_refl) as [cv ->]. cbn. eauto. }
  induction t; cbn [literal_tree]; intros L; try discriminate L;
  try (apply andb_prop in L; destruct L as [L1 L2]); intros a ev; cbn [evaluate];
  try (apply B; [apply IHt1; exact L1 | apply IHt2; exact L2]); try (apply U; apply IHt; exact L).
  intros H. inversion H. eauto.
Qed.

(* C07: a literal expression whose ideal value is v (every intermediate result fits) may stand for v *)
Theorem wval_literal lk t v : literal_tree t = true -> ideal t = Val v -> wval lk v t.
Proof.
  intros L I. destruct (lit_value lk is_register t v L I) as [ev H].
  destruct (literal_complete lk is_register t L _ _ H) as [c ->]. now exists c.
Qed.

(* C08: the value an expression stands for is its checked 64-bit value under every assignment compatible with the table *)
Theorem wval_den64 lk rho e v v' : wval lk v e -> compat rho lk is_register -> den64 rho e = Some v' -> v = v'.
Proof. intros [c H] C D. exact (direct_sound rho lk is_register e _ v v' C H D). Qed.

(* a symbol the table has a value for; a plain number *)
Lemma wval_const lk v : wval lk v (AConst v).
Proof. exists false. reflexivity. Qed.
Lemma wval_symbol lk s v : is_register s = false -> lk s = Found v -> wval lk v (AIdent s).
Proof. intros R F. exists true. cbn [evaluate]. now rewrite R, F. Qed.
