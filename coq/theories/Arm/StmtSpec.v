(* C04 oracle: what a statement written for instruction kind `i` with a PC-relative operand given as the
   absolute address `target` must assemble to at address `addr`: the ARMv6-M table's encoding of the
   instruction with the offset measured from the statement's own address plus 4 (word-aligned first for
   ADR and literal LDR), or nothing (a diagnostic) when that instruction has no encoding. *)
From Coq Require Import ZArith NArith List Bool.
From Trion Require Import Arm.Instr Arm.Armv6mSpec.
Import ListNotations.
Open Scope Z_scope.

Definition in_u32 (t : Z) : bool := Z.leb 0 t && Z.ltb t 4294967296.
Definition aligned_pc (addr : N) : Z := Z.of_N (N.land addr 0xFFFFFFFC) + 4.

Definition intended (i : instr) (addr : N) (target : option Z) : option instr :=
  match i, target with
  | B c _, Some t => if in_u32 t then Some (B c (t - (Z.of_N addr + 4))) else None
  | Bl _, Some t => if in_u32 t then Some (Bl (t - (Z.of_N addr + 4))) else None
  | Adr d _, Some t => let off := t - aligned_pc addr in
                       if in_u32 t && Z.leb 0 off then Some (Adr d (Z.to_N off)) else None
  | Ldr d PC (Imm _), Some t => let off := t - aligned_pc addr in
                                if in_u32 t && Z.leb 0 off then Some (Ldr d PC (Imm off)) else None
  | _, _ => Some i
  end.

Definition expected_bytes (i : instr) (addr : N) (target : option Z) : option (list N) :=
  match intended i addr target with
  | Some j => match armv6m_enc j with Some hws => Some (spec_bytes hws) | None => None end
  | None => None
  end.
