(* Boolean checkers relating encoder model, decoder model and the ARMv6-M table; used both by the
   kernel sweeps (CodecProofs) and by the extracted correspondence driver. *)
From Coq Require Import ZArith NArith List Bool.
From Trion Require Import Arm.Instr Arm.EncodeModel Arm.DecodeModel Arm.Armv6mSpec.
Import ListNotations.
Open Scope N_scope.

Fixpoint listN_eqb (a b : list N) : bool :=
  match a, b with
  | [], [] => true
  | x :: a', y :: b' => N.eqb x y && listN_eqb a' b'
  | _, _ => false
  end.

Definition of_spec (o : option (list N)) : enc_result :=
  match o with Some h => EncOk h | None => EncUnrep end.

Definition enc_result_eqb (a b : enc_result) : bool :=
  match a, b with
  | EncOk x, EncOk y => listN_eqb x y
  | EncUnrep, EncUnrep => true
  | _, _ => false
  end.

(* C01 for one instruction: the encoder's answer is the table's answer *)
Definition enc_is_spec (i : instr) : bool := enc_result_eqb (enc i) (of_spec (armv6m_enc i)).

(* C02 for one instruction: what the encoder emits decodes back to it, with the full length *)
Definition roundtrip_ok (i : instr) : bool :=
  match enc i with
  | EncUnrep => true
  | EncOk hws =>
      match dec (le_bytes hws) with
      | DecOk n j => N.eqb n (2 * N.of_nat (length hws)) && instr_eqb i j
      | _ => false
      end
  end.

Definition codec_ok (i : instr) : bool := enc_is_spec i && roundtrip_ok i.

(* C03 for one input: not a panic; on success the length law holds, the instruction re-encodes to
   exactly the input bytes or to the listed alias (ADDS/SUBS Rd,Rd,#imm3 in T1 form), and
   the re-encoding decodes to the same instruction *)
Definition alias_addsub_imm3 (h0 : N) : bool :=
  (* 0001 11 op imm3 Rn Rd with Rn = Rd *)
  N.eqb (N.shiftr h0 10) 7 && N.eqb (N.land (N.shiftr h0 3) 7) (N.land h0 7).

Definition expect_len (h0 : N) : N := if N.leb 29 (N.shiftr h0 11) then 4 else 2.

Definition firstn_N (n : N) (l : list N) : list N := firstn (N.to_nat n) l.

(* the verdict on one decoder result `r` for input `bs` whose first halfword is h0 *)
Definition canon_of (bs : list N) (h0 : N) (r : dec_result) : bool :=
  match r with
  | DecPanic => false
  | DecErr (Underflow need have) =>
      (* underflow only when a 4-byte instruction was cut short *)
      N.eqb (expect_len h0) 4 && N.eqb need 4 && N.eqb have (N.of_nat (length bs)) && N.ltb have 4
  | DecErr _ => true
  | DecOk n i =>
      N.eqb n (expect_len h0) && N.leb n (N.of_nat (length bs)) &&
      match enc i with
      | EncUnrep => false
      | EncOk hws =>
          N.eqb (2 * N.of_nat (length hws)) n &&
          (listN_eqb (le_bytes hws) (firstn_N n bs) || alias_addsub_imm3 h0) &&
          match dec (le_bytes hws) with DecOk n' j => N.eqb n' n && instr_eqb i j | _ => false end
      end
  end.

Definition dec_canonical (bs : list N) : bool :=
  match bs with
  | b0 :: b1 :: _ => canon_of bs (N.lor b0 (N.shiftl b1 8)) (dec bs)
  | _ => match dec bs with DecErr (Underflow 2 have) => N.eqb have (N.of_nat (length bs)) | _ => false end
  end.

(* underflow law for inputs that hold the first halfword only partially or the second one partially *)
Definition underflow_ok (bs : list N) : bool :=
  match bs, dec bs with
  | [], DecErr (Underflow 2 0) => true
  | [_], DecErr (Underflow 2 1) => true
  | [], _ | [_], _ => false
  | b0 :: b1 :: rest, r =>
      let h0 := N.lor b0 (N.shiftl b1 8) in
      match r with
      | DecErr (Underflow need have) =>
          N.eqb need 4 && N.eqb have (N.of_nat (length bs)) && N.ltb have 4 && N.eqb (expect_len h0) 4
      | _ => N.leb (expect_len h0) (N.of_nat (length bs))
      end
  end.

(* whole-halfword views used by the sweeps *)
Definition check16 (h0 : N) : bool := dec_canonical (le16 h0).
Definition check32 (h0 h1 : N) : bool := canon_of (le16 h0 ++ le16 h1) h0 (dec32 h0 h1).

(* the boolean tests of dec32, named *)
Definition top29 (h0 : N) : bool := N.leb 29 (N.shiftr h0 11).
Definition cA (h0 : N) : bool := N.eqb (fld h0 11 3) 2.
Definition cB (h1 : N) : bool := N.eqb (fld h1 15 1) 1.
Definition cC0 (h0 : N) : bool := N.eqb (fld h0 5 63) 28.
Definition cC1 (h1 : N) : bool := N.eqb (fld h1 12 5) 0.
Definition cD0 (h0 : N) : bool := N.eqb (fld h0 4 127) 59.
Definition cE0 (h0 : N) : bool := N.eqb (fld h0 5 63) 31.
Definition cF0 (h0 : N) : bool := N.eqb (fld h0 4 127) 127.
Definition cF1 (h1 : N) : bool := N.eqb (fld h1 12 7) 2.
Definition cG1 (h1 : N) : bool := N.eqb (fld h1 12 5) 5.

(* second halfwords of the BL space 11x1 xxxx xxxx xxxx, indexed by t < 2^13 *)
Definition bl_h1 (t : N) : N := N.lor 0xD000 (N.lor (N.shiftl (N.shiftr t 12) 13) (N.land t 0xFFF)).
Definition bl_t (h1 : N) : N := N.lor (N.shiftl (N.land (N.shiftr h1 13) 1) 12) (N.land h1 0xFFF).
