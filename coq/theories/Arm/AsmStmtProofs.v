(* C19 at the level of parsed statements, and C04 facts about the operand converters. *)
From Coq Require Import ZArith NArith List Bool Ascii String Lia.
From Trion Require Import Base.Sweep Text.Types Arm.Instr Arm.EncodeModel Arm.DisplayModel Arm.DisplayArgs Arm.AsmStmtModel.
Import ListNotations.
Open Scope N_scope.

(* ---------- names ---------- *)
Lemma regl_reg_name r : regl (reg_name r) = Some r.
Proof. destruct r; vm_compute; reflexivity. Qed.
Lemma sysl_sysreg_name s : sysl (sysreg_name s) = Some s.
Proof. destruct s; vm_compute; reflexivity. Qed.

(* the template of an instruction's own kind *)
Definition kind_template (i : instr) : instr :=
  match i with
  | Adc _ _ => Adc R0 R0 | Add f _ _ _ => if f then Add true R0 R0 (Imm 0) else Add false SP SP (Imm 0)
  | Adr _ _ => Adr R0 0 | And _ _ => And R0 R0 | Asr _ _ _ => Asr R0 R0 (Imm 1) | B c _ => B c 0%Z
  | Bic _ _ => Bic R0 R0 | Bkpt _ => Bkpt 0 | Bl _ => Bl 0%Z | Blx _ => Blx R0 | Bx _ => Bx R0 | Cmn _ _ => Cmn R0 R0
  | Cmp _ _ => Cmp R0 (Imm 0) | Cps e => Cps e | Dmb => Dmb | Dsb => Dsb | Eor _ _ => Eor R0 R0 | Isb => Isb
  | Ldm _ _ => Ldm R0 0 | Ldr _ _ _ => Ldr R0 R0 (Imm 0) | Ldrb _ _ _ => Ldrb R0 R0 (Imm 0) | Ldrh _ _ _ => Ldrh R0 R0 (Imm 0)
  | Ldrsb _ _ _ => Ldrsb R0 R0 R0 | Ldrsh _ _ _ => Ldrsh R0 R0 R0 | Lsl _ _ _ => Lsl R0 R0 (Imm 1) | Lsr _ _ _ => Lsr R0 R0 (Imm 1)
  | Mov f _ _ => Mov f R0 (Reg R0) | Mrs _ _ => Mrs R0 XPSR | Msr _ _ => Msr XPSR R0 | Mul _ _ => Mul R0 R0 | Mvn _ _ => Mvn R0 R0
  | Nop => Nop | Orr _ _ => Orr R0 R0 | Pop _ => Pop 1 | Push _ => Push 1 | Rev _ _ => Rev R0 R0 | Rev16 _ _ => Rev16 R0 R0
  | Revsh _ _ => Revsh R0 R0 | Ror _ _ => Ror R0 R0 | Rsb _ _ => Rsb R0 R0 | Sbc _ _ => Sbc R0 R0 | Sev => Sev | Stm _ _ => Stm R0 0
  | Str _ _ _ => Str R0 R0 (Imm 0) | Strb _ _ _ => Strb R0 R0 (Imm 0) | Strh _ _ _ => Strh R0 R0 (Imm 0)
  | Sub f _ _ _ => if f then Sub true R0 R0 (Imm 0) else Sub false SP SP (Imm 0)
  | Svc _ => Svc 0 | Sxtb _ _ => Sxtb R0 R0 | Sxth _ _ => Sxth R0 R0 | Tst _ _ => Tst R0 R0 | Udf _ => Udf 0 | Udfw _ => Udfw 0
  | Uxtb _ _ => Uxtb R0 R0 | Uxth _ _ => Uxth R0 R0 | Wfe => Wfe | Wfi => Wfi | Yield => Yield
  end.

(* every printed mnemonic is one the assembler's table knows, with the right kind *)
Lemma template_of_mnemonic i : template (mnemonic i) = Some (kind_template i).
Proof.
  destruct i; try (destruct flags); try (destruct c); try (destruct enable); vm_compute; reflexivity.
Qed.

(* ---------- what the evaluator does on printed operands (discharged against the expression model /
   validated by the C19 correspondence stream on the real evaluate) ---------- *)
Record ev_display (ev : evaluator) : Prop := {
  ev_const : forall v, ev (AConst v) = (AConst v, SComplete);
  ev_reg : forall r, ev (id_reg r) = (id_reg r, SComplete);
  ev_neg : forall p, (Zpos p <= 2147483648)%Z -> ev (ANeg (AConst (Zpos p))) = (AConst (Zneg p), SComplete);
  ev_label : forall t, t < 4294967296 -> ev (label_arg t) = (AConst (Z.of_N t), SComplete);
  (* `[a + 0]` may be simplified to `[a]` (the real evaluator drops the neutral element) *)
  ev_mem_imm : forall a v, (0 <= v)%Z ->
    ev (mem_arg a (AConst v)) = (mem_arg a (AConst v), SComplete) \/
    (v = 0%Z /\ ev (mem_arg a (AConst v)) = (AAddr (id_reg a), SComplete));
  ev_mem_reg : forall a o, ev (mem_arg a (id_reg o)) = (mem_arg a (id_reg o), SComplete) }.

Section Display.
Variable ev : evaluator.
Variable local : bool.
Hypothesis EV : ev_display ev.

Lemma ev_num v : i32_ok v -> ev (num_arg v) = (AConst v, SComplete).
Proof.
  intros W. destruct v as [|p|p]; cbn [num_arg]; try apply (ev_const ev EV).
  apply (ev_neg ev EV). unfold i32_ok in W. lia.
Qed.

Lemma i32_of_ok v : i32_ok v -> i32_of v = Some v.
Proof.
  unfold i32_ok, i32_of. intros [H1 H2].
  destruct (Z.leb_spec (-2147483648) v); [|lia]. destruct (Z.leb_spec v 2147483647); [|lia]. reflexivity.
Qed.

Lemma c_register_at pos args r : nth_error args pos = Some (id_reg r) ->
  c_register pos (mkAst args 0) = COk r (mkAst args 0).
Proof. intros H. unfold c_register. cbn [a_args]. rewrite H. unfold id_reg. now rewrite regl_reg_name. Qed.

Lemma c_sysreg_at pos args s : nth_error args pos = Some (AIdent (sysreg_name s)) ->
  c_sysreg pos (mkAst args 0) = COk s (mkAst args 0).
Proof. intros H. unfold c_sysreg. cbn [a_args]. rewrite H. now rewrite sysl_sysreg_name. Qed.

Lemma c_immreg_at pos args x : nth_error args pos = Some (immreg_arg x) -> immreg_ok x ->
  exists st', c_immreg ev local pos (mkAst args 0) = COk x st'.
Proof.
  intros H W. unfold c_immreg, eval_at. cbn [a_args a_done]. rewrite H. cbn [Nat.leb].
  destruct x as [v|r]; cbn [immreg_arg immreg_ok] in *.
  - rewrite (ev_num v W). cbn [bind]. rewrite (i32_of_ok v W). eexists. reflexivity.
  - rewrite (ev_reg ev EV r). cbn [bind]. unfold id_reg. rewrite regl_reg_name. eexists. reflexivity.
Qed.

Lemma c_immediate_at pos args v : nth_error args pos = Some (num_arg v) -> i32_ok v ->
  exists st', c_immediate ev local pos (mkAst args 0) = COk v st'.
Proof.
  intros H W. unfold c_immediate, eval_at. cbn [a_args a_done]. rewrite H. cbn [Nat.leb].
  rewrite (ev_num v W). cbn [bind]. rewrite (i32_of_ok v W). eexists. reflexivity.
Qed.

Lemma c_offset_label pos args t : nth_error args pos = Some (label_arg t) -> t < 4294967296 ->
  exists st', c_offset ev local pos (mkAst args 0) = COk t st'.
Proof.
  intros H W. unfold c_offset, eval_at. cbn [a_args a_done]. rewrite H. cbn [Nat.leb].
  rewrite (ev_label ev EV t W). cbn [bind]. unfold u32_of.
  destruct (Z.leb_spec 0 (Z.of_N t)); [|lia]. destruct (Z.leb_spec (Z.of_N t) 4294967295); [|lia].
  cbn [andb]. rewrite N2Z.id. eexists. reflexivity.
Qed.

End Display.

(* the printed register list parses back to the same set: all 2^16 sets *)
Lemma sw_regset : allN (fun bits => match regset_arg bits with
                                    | ASeq items => match regset_bits items 0 with inl (Some b) => N.eqb b bits | _ => false end
                                    | _ => false end) 16 = true.
Proof. vm_compute. reflexivity. Qed.

Lemma c_regset_at pos args bits : bits < 65536 -> nth_error args pos = Some (regset_arg bits) ->
  c_regset pos (mkAst args 0) = COk bits (mkAst args 0).
Proof.
  intros W H. unfold c_regset. cbn [a_args]. rewrite H.
  assert (A := allN_spec _ 16 sw_regset bits W). cbv beta in A. unfold regset_arg in *.
  destruct (regset_bits _ 0) as [[b|]|d]; try discriminate. apply N.eqb_eq in A. now subst.
Qed.

(* ---------- wrapping address arithmetic ---------- *)
Lemma of_N_land a b : Z.land (Z.of_N a) (Z.of_N b) = Z.of_N (N.land a b).
Proof. destruct a, b; reflexivity. Qed.

Lemma u32w_mod z : u32w z = Z.to_N (z mod 4294967296).
Proof. unfold u32w. change 0xFFFFFFFF%Z with (Z.ones 32). rewrite Z.land_ones by lia. reflexivity. Qed.

Lemma wadd_exact a b : (0 <= Z.of_N a + b < 4294967296)%Z -> wadd a b = Z.to_N (Z.of_N a + b).
Proof. intros H. unfold wadd. rewrite u32w_mod. now rewrite Z.mod_small. Qed.

Lemma wadd_wadd a x y : wadd (wadd a x) y = u32w (Z.of_N a + x + y).
Proof.
  unfold wadd. rewrite !u32w_mod. rewrite Z2N.id by (apply Z.mod_pos_bound; lia).
  now rewrite Zplus_mod_idemp_l.
Qed.


(* ---------- facts the encoder's acceptance gives about PC-relative operands ---------- *)
Lemma guard_ok b r hws : guard b r = EncOk hws -> b = false.
Proof. unfold guard. destruct b; [discriminate | reflexivity]. Qed.

Lemma enc_B_always off hws : enc (B Always off) = EncOk hws -> (-2048 <= off <= 2046)%Z /\ Z.land off 1 = 0%Z.
Proof.
  cbn [enc]. intros H. apply guard_ok in H. apply orb_false_elim in H. destruct H as [H H3].
  apply orb_false_elim in H. destruct H as [H1 H2].
  unfold zlt, zge, znz in *. apply Z.ltb_ge in H1. apply Z.leb_gt in H2.
  apply negb_false_iff in H3. apply Z.eqb_eq in H3. split; [|exact H3].
  split; [lia|]. assert (off <> 2047)%Z by (intros ->; discriminate). lia.
Qed.

Lemma enc_B_cond c off hws : c <> Always -> enc (B c off) = EncOk hws -> (-256 <= off <= 254)%Z /\ Z.land off 1 = 0%Z.
Proof.
  intros Hc H. assert (G : guard (cond_eqb c Always || zlt off (-256) || zge off 256 || znz (Z.land off 1))
                            (s1 (0xD000 |. shl (cond_num c) 8 |. shl (N.land (u16z (sar off 1)) 0xFF) 0)) = EncOk hws).
  { destruct c; try exact H. contradiction. }
  apply guard_ok in G. apply orb_false_elim in G. destruct G as [G G3].
  apply orb_false_elim in G. destruct G as [G G2]. apply orb_false_elim in G. destruct G as [_ G1].
  unfold zlt, zge, znz in *. apply Z.ltb_ge in G1. apply Z.leb_gt in G2.
  apply negb_false_iff in G3. apply Z.eqb_eq in G3. split; [|exact G3].
  split; [lia|]. assert (off <> 255)%Z by (intros ->; discriminate). lia.
Qed.

Lemma enc_Bl off hws : enc (Bl off) = EncOk hws -> (-16777216 <= off <= 16777214)%Z /\ Z.land off 1 = 0%Z.
Proof.
  cbn [enc]. intros H. apply guard_ok in H. apply orb_false_elim in H. destruct H as [H H3].
  apply orb_false_elim in H. destruct H as [H1 H2].
  unfold zlt, zge, znz in *. apply Z.ltb_ge in H1. apply Z.leb_gt in H2.
  apply negb_false_iff in H3. apply Z.eqb_eq in H3. split; [|exact H3].
  split; [lia|]. assert (off <> 16777215)%Z by (intros ->; discriminate). lia.
Qed.

Lemma enc_Adr d off hws : enc (Adr d off) = EncOk hws -> off <= 1020 /\ N.land off 3 = 0.
Proof.
  cbn [enc]. intros H. apply guard_ok in H. apply orb_false_elim in H. destruct H as [H H3].
  apply orb_false_elim in H. destruct H as [_ H2].
  apply N.ltb_ge in H2. apply negb_false_iff in H3. apply N.eqb_eq in H3. split; assumption.
Qed.

Lemma enc_Ldr_lit d off hws : enc (Ldr d PC (Imm off)) = EncOk hws -> (0 <= off <= 1020)%Z /\ Z.land off 3 = 0%Z.
Proof.
  cbn [enc]. change (reg_eqb PC PC) with true. cbv iota. intros H. apply guard_ok in H.
  apply orb_false_elim in H. destruct H as [H H3]. apply orb_false_elim in H. destruct H as [H H2].
  apply orb_false_elim in H. destruct H as [_ H1].
  unfold zlt, zgt, znz in *. apply Z.ltb_ge in H1. apply Z.ltb_ge in H2.
  apply negb_false_iff in H3. apply Z.eqb_eq in H3. split; [lia | exact H3].
Qed.

Ltac nonneg_from H v :=
  unfold guard in H; destruct (zlt v 0) eqn:Z0;
  [ repeat rewrite ?orb_true_r, ?orb_true_l in H; cbn [orb] in H;
    repeat match type of H with context [if ?b then _ else _] => destruct b end; discriminate
  | unfold zlt in Z0; apply Z.ltb_ge in Z0; exact Z0 ].

Lemma enc_mem_nonneg (k : reg -> reg -> immreg -> instr) d a v hws :
  In k [Ldr; Ldrb; Ldrh; Str; Strb; Strh] -> enc (k d a (Imm v)) = EncOk hws -> (0 <= v)%Z.
Proof.
  intros Hk H. cbn [In] in Hk.
  repeat (destruct Hk as [<-|Hk]; [cbn [enc] in H; nonneg_from H v|]). contradiction.
Qed.

(* ---------- C19 at the level of parsed statements ---------- *)
Section Roundtrip.
Variable ev : evaluator.
Variable local : bool.
Hypothesis EV : ev_display ev.

Lemma c_address_at pos args a x : nth_error args pos = Some (mem_arg a (immreg_arg x)) ->
  immreg_ok x -> (forall v, x = Imm v -> (0 <= v)%Z) ->
  exists st', c_address ev local pos (mkAst args 0) = COk (a, Some x) st'.
Proof.
  intros H W NN. unfold c_address, eval_at. cbn [a_args a_done]. rewrite H. cbn [Nat.leb].
  destruct x as [v|o]; cbn [immreg_arg immreg_ok] in *.
  - assert (Hv := NN v eq_refl). assert (E : num_arg v = AConst v) by (destruct v; try reflexivity; lia).
    rewrite E. destruct (ev_mem_imm ev EV a v Hv) as [Em|[V0 Em]]; rewrite Em; cbn [bind mem_arg addr_off id_reg].
    + rewrite (i32_of_ok v W), regl_reg_name. eexists. reflexivity.
    + subst v. rewrite regl_reg_name. eexists. reflexivity.
  - rewrite (ev_mem_reg ev EV a o). cbn [bind mem_arg addr_off id_reg]. rewrite !regl_reg_name. eexists. reflexivity.
Qed.

Lemma c_addr_offset_mem pos args a x : nth_error args pos = Some (mem_arg a (immreg_arg x)) ->
  immreg_ok x -> (forall v, x = Imm v -> (0 <= v)%Z) ->
  exists st', c_addr_offset ev local pos (mkAst args 0) = COk (AoAddress a (Some x)) st'.
Proof.
  intros H W NN. unfold c_addr_offset, eval_at. cbn [a_args a_done]. rewrite H. cbn [Nat.leb].
  destruct x as [v|o]; cbn [immreg_arg immreg_ok] in *.
  - assert (Hv := NN v eq_refl). assert (E : num_arg v = AConst v) by (destruct v; try reflexivity; lia).
    rewrite E. destruct (ev_mem_imm ev EV a v Hv) as [Em|[V0 Em]]; rewrite Em; cbn [bind mem_arg addr_off id_reg].
    + rewrite (i32_of_ok v W), regl_reg_name. eexists. reflexivity.
    + subst v. rewrite regl_reg_name. eexists. reflexivity.
  - rewrite (ev_mem_reg ev EV a o). cbn [bind mem_arg addr_off id_reg]. rewrite !regl_reg_name. eexists. reflexivity.
Qed.

Lemma c_addr_offset_label pos args t : nth_error args pos = Some (label_arg t) -> t < 4294967296 ->
  exists st', c_addr_offset ev local pos (mkAst args 0) = COk (AoOffset t) st'.
Proof.
  intros H W. unfold c_addr_offset, eval_at. cbn [a_args a_done]. rewrite H. cbn [Nat.leb].
  rewrite (ev_label ev EV t W). cbn [bind]. unfold u32_of.
  destruct (Z.leb_spec 0 (Z.of_N t)); [|lia]. destruct (Z.leb_spec (Z.of_N t) 4294967295); [|lia].
  cbn [andb]. rewrite N2Z.id. eexists. reflexivity.
Qed.

Lemma small_imm_at (mk : N -> instr) (bound : Z) n : (Z.of_N n <= bound)%Z -> (bound <= 65535)%Z ->
  exists st', small_imm ev local bound mk (mkAst [AConst (Z.of_N n)] 0) = COk (mk n) st'.
Proof.
  intros Hn Hb. unfold small_imm. cbn [arity a_args List.length Nat.ltb Nat.leb bind].
  assert (W : i32_ok (Z.of_N n)) by (unfold i32_ok; lia).
  destruct (c_immediate_at ev local EV 0 [AConst (Z.of_N n)] (Z.of_N n)) as [st' E];
    [destruct n; reflexivity | exact W |].
  rewrite E. cbn [bind]. destruct (Z.leb_spec 0 (Z.of_N n)); [|lia]. destruct (Z.leb_spec (Z.of_N n) bound); [|lia].
  cbn [andb]. rewrite N2Z.id. eexists. reflexivity.
Qed.
End Roundtrip.

Definition conv_val {A} (c : conv A) : option A := match c with COk v _ => Some v | _ => None end.

Section Main.
Variable ev : evaluator.
Variable local : bool.
Hypothesis EV : ev_display ev.

Ltac regs := repeat (erewrite c_register_at by reflexivity; cbn [bind]).
Ltac start := cbn [arity a_args List.length Nat.ltb Nat.leb bind].
Ltac done_ := reflexivity.
Ltac immreg_last pos W :=
  match goal with |- context [c_immreg ev local pos (mkAst ?args 0)] =>
    match type of W with immreg_ok ?x =>
      destruct (c_immreg_at ev local EV pos args x eq_refl W) as [st' E']; rewrite E'; cbn [bind]; done_ end end.
Ltac mem_last k W E :=
  let Hin := fresh "Hin" in assert (Hin : In k [Ldr; Ldrb; Ldrh; Str; Strb; Strh]) by (cbn; tauto);
  match goal with |- context [c_address ev local 1 (mkAst ?args 0)] =>
    match args with context [mem_arg ?a _] =>
    match type of W with immreg_ok ?x =>
      destruct (c_address_at ev local EV 1 args a x eq_refl W) as [st' E'];
      [ intros v ->; exact (enc_mem_nonneg k _ _ v _ Hin E) | rewrite E'; cbn [bind fst snd]; done_ ] end end end.

Theorem args_roundtrip i addr hws :
  wf_instr i -> enc i = EncOk hws -> addr < 4294967296 -> target_in_space i addr = true ->
  conv_val (assemble_args ev local addr (kind_template i) (mkAst (display_args i addr) 0)) = Some i.
Proof.
  destruct i; cbn [kind_template display_args wf_instr]; intros W E Ha T;
  try (cbn [assemble_args]; unfold rr; start; regs; done_).
  - (* Add *) destruct flags; cbn [assemble_args]; unfold rri; start; regs; immreg_last 2%nat W.
  - (* Adr *)
    cbn [assemble_args]; start; regs. destruct (enc_Adr _ _ _ E) as [Hr Hal].
    cbn [target_in_space] in T. apply Z.ltb_lt in T.
    assert (Lt : wadd (align4_pc addr) (Z.of_N off) = Z.to_N (Z.of_N (N.land addr 0xFFFFFFFC) + 4 + Z.of_N off)).
    { unfold align4_pc. rewrite wadd_wadd, u32w_mod, Z.mod_small by lia. reflexivity. }
    destruct (c_offset_label ev local EV 1 [id_reg dst; label_arg (wadd (align4_pc addr) (Z.of_N off))] _ eq_refl) as [st' E'].
    { rewrite Lt. lia. }
    rewrite E'. cbn [bind]. unfold lit_offset, al_pc. rewrite Lt, Z2N.id by lia.
    replace (Z.of_N (N.land addr 0xFFFFFFFC) + 4 + Z.of_N off - (Z.of_N (N.land addr 0xFFFFFFFC) + 4))%Z with (Z.of_N off) by lia.
    destruct (Z.ltb_spec (Z.of_N off) 0); [lia|]. destruct (Z.ltb_spec 1020 (Z.of_N off)); [lia|]. cbn [orb].
    assert (A3 : Z.land (Z.of_N off) 3 = 0%Z) by (change 3%Z with (Z.of_N 3); rewrite of_N_land, Hal; reflexivity).
    rewrite A3. cbn [Z.eqb negb bind].
    assert (A16 : Z.to_N (Z.land (Z.of_N off) 0xFFFF) = off).
    { change 0xFFFF%Z with (Z.ones 16). rewrite Z.land_ones by lia. rewrite Z.mod_small by lia. apply N2Z.id. }
    rewrite A16. done_.
  - (* Asr *) cbn [assemble_args]; unfold rri; start; regs; immreg_last 2%nat W.
  - (* B *)
    cbn [target_in_space] in T. apply andb_prop in T. destruct T as [T1 T2]. apply Z.leb_le in T1. apply Z.ltb_lt in T2.
    assert (Lt : wadd (wadd addr 4) off = Z.to_N (Z.of_N addr + 4 + off)) by (rewrite wadd_wadd, u32w_mod, Z.mod_small by lia; reflexivity).
    cbn [assemble_args]; start.
    destruct (c_offset_label ev local EV 0 [label_arg (wadd (wadd addr 4) off)] _ eq_refl) as [st' E']; [rewrite Lt; lia|].
    rewrite E'. cbn [bind]. unfold branch_offset. rewrite Lt, Z2N.id by lia.
    replace (Z.of_N addr + 4 + off - (Z.of_N addr + 4))%Z with off by lia.
    destruct (cond_eqb c Always) eqn:CA.
    + assert (c = Always) by (destruct c; try discriminate; reflexivity). subst c.
      destruct (enc_B_always off hws E) as [[R1 R2] R3].
      destruct (Z.ltb_spec off (-2048)); [lia|]. destruct (Z.ltb_spec 2046 off); [lia|].
      cbn [orb]. rewrite R3. cbn [Z.eqb negb bind]. done_.
    + assert (NA : c <> Always) by (intros ->; discriminate).
      destruct (enc_B_cond c off hws NA E) as [[R1 R2] R3].
      destruct (Z.ltb_spec off (-256)); [lia|]. destruct (Z.ltb_spec 254 off); [lia|].
      cbn [orb]. rewrite R3. cbn [Z.eqb negb bind]. done_.
  - (* Bkpt *)
    cbn [assemble_args]; start. unfold c_offset, eval_at. cbn [a_args a_done nth_error Nat.leb].
    rewrite (ev_const ev EV). cbn [bind]. unfold u32_of.
    destruct (Z.leb_spec 0 (Z.of_N info)); [|lia]. destruct (Z.leb_spec (Z.of_N info) 4294967295); [|lia].
    cbn [andb bind]. rewrite N2Z.id. destruct (N.leb_spec info 255); [|lia]. done_.
  - (* Bl *)
    cbn [target_in_space] in T. apply andb_prop in T. destruct T as [T1 T2]. apply Z.leb_le in T1. apply Z.ltb_lt in T2.
    assert (Lt : wadd (wadd addr 4) off = Z.to_N (Z.of_N addr + 4 + off)) by (rewrite wadd_wadd, u32w_mod, Z.mod_small by lia; reflexivity).
    cbn [assemble_args]; start.
    destruct (c_offset_label ev local EV 0 [label_arg (wadd (wadd addr 4) off)] _ eq_refl) as [st' E']; [rewrite Lt; lia|].
    rewrite E'. cbn [bind]. unfold branch_offset. rewrite Lt, Z2N.id by lia.
    replace (Z.of_N addr + 4 + off - (Z.of_N addr + 4))%Z with off by lia.
    destruct (enc_Bl off hws E) as [[R1 R2] R3].
    destruct (Z.ltb_spec off (-16777216)); [lia|]. destruct (Z.ltb_spec 16777215 off); [lia|].
    cbn [orb]. rewrite R3. cbn [Z.eqb negb bind]. done_.
  - (* Cmp *) cbn [assemble_args]; start; regs; immreg_last 1%nat W.
  - (* Ldm *) cbn [assemble_args]; start; regs. erewrite (c_regset_at _ _ registers W) by reflexivity. cbn [bind]. done_.
  - (* Ldr *)
    cbn [assemble_args]; start.
    assert (Hin : In Ldr [Ldr; Ldrb; Ldrh; Str; Strb; Strh]) by (cbn; tauto).
    destruct off as [v|o]; destruct addr0; cbn [display_args]; start; regs;
    try (match goal with |- context [c_addr_offset ev local 1 (mkAst ?args 0)] =>
           match args with context [mem_arg ?a _] =>
           match type of W with immreg_ok ?x =>
             destruct (c_addr_offset_mem ev local EV 1 args a x eq_refl W) as [st' E'];
             [ intros v' Hv'; inversion Hv'; subst; exact (enc_mem_nonneg Ldr _ _ _ _ Hin E) | rewrite E'; cbn [bind]; done_ ] end end end).
    (* literal form *)
    destruct (enc_Ldr_lit _ _ _ E) as [[R1 R2] R3].
    cbn [target_in_space] in T. apply andb_prop in T. destruct T as [T1 T2]. apply Z.leb_le in T1. apply Z.ltb_lt in T2.
    assert (Lt : wadd (align4_pc addr) v = Z.to_N (Z.of_N (N.land addr 0xFFFFFFFC) + 4 + v)).
    { unfold align4_pc. rewrite wadd_wadd, u32w_mod, Z.mod_small by lia. reflexivity. }
    destruct (c_addr_offset_label ev local EV 1 [id_reg dst; label_arg (wadd (align4_pc addr) v)] _ eq_refl) as [st' E']; [rewrite Lt; lia|].
    rewrite E'. cbn [bind]. unfold lit_offset, al_pc. rewrite Lt, Z2N.id by lia.
    replace (Z.of_N (N.land addr 0xFFFFFFFC) + 4 + v - (Z.of_N (N.land addr 0xFFFFFFFC) + 4))%Z with v by lia.
    destruct (Z.ltb_spec v 0); [lia|]. destruct (Z.ltb_spec 1020 v); [lia|]. cbn [orb]. rewrite R3. cbn [Z.eqb negb bind]. done_.
  - (* Ldrb *) cbn [assemble_args]; unfold r_addr; start; regs. mem_last Ldrb W E.
  - (* Ldrh *) cbn [assemble_args]; unfold r_addr; start; regs. mem_last Ldrh W E.
  - (* Ldrsb *)
    cbn [assemble_args]; unfold r_addr_reg; start; regs.
    destruct (c_address_at ev local EV 1 [id_reg dst; mem_arg addr0 (id_reg off)] addr0 (Reg off) eq_refl I) as [st' E']; [discriminate|].
    rewrite E'. cbn [bind fst snd]. done_.
  - (* Ldrsh *)
    cbn [assemble_args]; unfold r_addr_reg; start; regs.
    destruct (c_address_at ev local EV 1 [id_reg dst; mem_arg addr0 (id_reg off)] addr0 (Reg off) eq_refl I) as [st' E']; [discriminate|].
    rewrite E'. cbn [bind fst snd]. done_.
  - (* Lsl *) cbn [assemble_args]; unfold rri; start; regs; immreg_last 2%nat W.
  - (* Lsr *) cbn [assemble_args]; unfold rri; start; regs; immreg_last 2%nat W.
  - (* Mov *) cbn [assemble_args]; start; regs; immreg_last 1%nat W.
  - (* Mrs *) cbn [assemble_args]; start; regs. erewrite c_sysreg_at by reflexivity. cbn [bind]. done_.
  - (* Msr *) cbn [assemble_args]; start. erewrite c_sysreg_at by reflexivity. cbn [bind]. regs. done_.
  - (* Pop *) cbn [assemble_args]; start. erewrite (c_regset_at _ _ registers W) by reflexivity. cbn [bind]. done_.
  - (* Push *) cbn [assemble_args]; start. erewrite (c_regset_at _ _ registers W) by reflexivity. cbn [bind]. done_.
  - (* Rsb *)
    cbn [assemble_args]; start; regs.
    destruct (c_immediate_at ev local EV 2 [id_reg dst; id_reg lhs; AConst 0] 0%Z eq_refl) as [st' E']; [unfold i32_ok; lia|].
    rewrite E'. cbn [bind Z.eqb]. done_.
  - (* Stm *) cbn [assemble_args]; start; regs. erewrite (c_regset_at _ _ registers W) by reflexivity. cbn [bind]. done_.
  - (* Str *)
    cbn [assemble_args]; unfold r_addr; start; regs. mem_last Str W E.
  - (* Strb *) cbn [assemble_args]; unfold r_addr; start; regs. mem_last Strb W E.
  - (* Strh *) cbn [assemble_args]; unfold r_addr; start; regs. mem_last Strh W E.
  - (* Sub *) destruct flags; cbn [assemble_args]; unfold rri; start; regs; immreg_last 2%nat W.
  - (* Svc *) cbn [assemble_args]. destruct (small_imm_at ev local EV Svc 255 info) as [st' E']; [lia | lia |]. rewrite E'. done_.
  - (* Udf *) cbn [assemble_args]. destruct (small_imm_at ev local EV Udf 255 info) as [st' E']; [lia | lia |]. rewrite E'. done_.
  - (* Udfw *) cbn [assemble_args]. destruct (small_imm_at ev local EV Udfw 65535 info) as [st' E']; [lia | lia |]. rewrite E'. done_.
Qed.
End Main.

(* ---------- C19: statement level ---------- *)
Theorem stmt_roundtrip ev local i addr hws : ev_display ev ->
  wf_instr i -> enc i = EncOk hws -> addr < 4294967296 -> target_in_space i addr = true ->
  conv_val (assemble_stmt ev local addr (mnemonic i) (display_args i addr)) = Some i.
Proof.
  intros EV W E Ha T. unfold assemble_stmt. rewrite template_of_mnemonic.
  exact (args_roundtrip ev local EV i addr hws W E Ha T).
Qed.

(* the printed text is mnemonic, operands and the terminator; the label names the architectural target *)
Lemma display_label i addr t : pc_target i addr = Some t ->
  exists pre, display i addr = pre ++ label t ++ $";".
Proof.
  destruct i; cbn [pc_target]; try discriminate.
  - intros H. inversion H; subst. cbn [display]. exists ($"ADR " ++ reg_name dst ++ $", "). now rewrite <- !app_assoc.
  - intros H. inversion H; subst. cbn [display]. exists ($"B" ++ cond_suffix c ++ $" "). now rewrite <- !app_assoc.
  - intros H. inversion H; subst. cbn [display]. exists ($"BL "). reflexivity.
  - destruct addr0; try discriminate. destruct off; try discriminate.
    intros H. inversion H; subst. cbn [display]. exists ($"LDR " ++ reg_name dst ++ $", "). now rewrite <- !app_assoc.
Qed.

Lemma pc_target_arch i addr t : addr < 4294967296 -> target_in_space i addr = true -> pc_target i addr = Some t ->
  match i with
  | Adr _ off => Z.of_N t = (Z.of_N (N.land addr 0xFFFFFFFC) + 4 + Z.of_N off)%Z
  | B _ off | Bl off => Z.of_N t = (Z.of_N addr + 4 + off)%Z
  | Ldr _ PC (Imm off) => Z.of_N t = (Z.of_N (N.land addr 0xFFFFFFFC) + 4 + off)%Z
  | _ => True
  end.
Proof.
  intros Ha T H. destruct i; trivial; cbn [pc_target target_in_space] in *.
  - inversion H; subst. apply Z.ltb_lt in T. unfold align4_pc. rewrite wadd_wadd, u32w_mod, Z.mod_small, Z2N.id by lia. reflexivity.
  - inversion H; subst. apply andb_prop in T. destruct T as [T1 T2]. apply Z.leb_le in T1. apply Z.ltb_lt in T2.
    rewrite wadd_wadd, u32w_mod, Z.mod_small, Z2N.id by lia. reflexivity.
  - inversion H; subst. apply andb_prop in T. destruct T as [T1 T2]. apply Z.leb_le in T1. apply Z.ltb_lt in T2.
    rewrite wadd_wadd, u32w_mod, Z.mod_small, Z2N.id by lia. reflexivity.
  - destruct addr0; trivial. destruct off; trivial. inversion H; subst.
    apply andb_prop in T. destruct T as [T1 T2]. apply Z.leb_le in T1. apply Z.ltb_lt in T2.
    unfold align4_pc. rewrite wadd_wadd, u32w_mod, Z.mod_small, Z2N.id by lia. reflexivity.
Qed.

(* ---------- C04: PC-relative operands are exact, never wrapped ---------- *)
Lemma branch_offset_inv addr tgt lo hi st off st' : branch_offset addr tgt lo hi st = COk off st' ->
  off = (Z.of_N tgt - (Z.of_N addr + 4))%Z /\ (lo <= off <= hi)%Z /\ Z.land off 1 = 0%Z.
Proof.
  unfold branch_offset. destruct (Z.ltb_spec (Z.of_N tgt - (Z.of_N addr + 4)) lo); [discriminate|].
  destruct (Z.ltb_spec hi (Z.of_N tgt - (Z.of_N addr + 4))); [discriminate|]. cbn [orb].
  destruct (Z.eqb_spec (Z.land (Z.of_N tgt - (Z.of_N addr + 4)) 1) 0); [|discriminate]. cbn [negb].
  intros HH. inversion HH; subst. repeat split; try lia; try assumption.
Qed.

Lemma lit_offset_inv addr tgt st off st' : lit_offset addr tgt st = COk off st' ->
  off = (Z.of_N tgt - (Z.of_N (N.land addr 0xFFFFFFFC) + 4))%Z /\ (0 <= off <= 1020)%Z /\ Z.land off 3 = 0%Z.
Proof.
  unfold lit_offset, al_pc. destruct (Z.ltb_spec (Z.of_N tgt - (Z.of_N (N.land addr 0xFFFFFFFC) + 4)) 0); [discriminate|].
  destruct (Z.ltb_spec 1020 (Z.of_N tgt - (Z.of_N (N.land addr 0xFFFFFFFC) + 4))); [discriminate|]. cbn [orb].
  destruct (Z.eqb_spec (Z.land (Z.of_N tgt - (Z.of_N (N.land addr 0xFFFFFFFC) + 4)) 3) 0); [|discriminate]. cbn [negb].
  intros HH. inversion HH; subst. repeat split; try lia; try assumption.
Qed.

(* a branch statement that assembles names a target tgt (the value of its operand) with
   off = tgt - (addr + 4) inside the instruction's range and even *)
Theorem branch_stmt_exact ev local addr c a off st' :
  assemble_args ev local addr (B c 0%Z) (mkAst [a] 0) = COk (B c off) st' ->
  exists tgt, fst (ev a) = AConst (Z.of_N tgt) /\ tgt < 4294967296 /\
    off = (Z.of_N tgt - (Z.of_N addr + 4))%Z /\ Z.land off 1 = 0%Z /\
    (if cond_eqb c Always then (-2048 <= off <= 2046)%Z else (-256 <= off <= 254)%Z).
Proof.
  cbn [assemble_args]. cbn [arity a_args List.length Nat.ltb Nat.leb bind].
  unfold c_offset, eval_at. cbn [a_args a_done nth_error Nat.leb].
  destruct (ev a) as [a' status] eqn:Ea. destruct status; cbn [bind]; try (destruct local; discriminate); try discriminate.
  destruct a'; try discriminate. unfold u32_of.
  destruct (Z.leb_spec 0 v); [|discriminate]. destruct (Z.leb_spec v 4294967295); [|discriminate]. cbn [andb bind].
  destruct (cond_eqb c Always) eqn:CA; cbn [bind];
  match goal with |- context [branch_offset ?ad ?tg ?lo ?hi ?st] => destruct (branch_offset ad tg lo hi st) as [o s|? ?|? ?|] eqn:BO end;
  cbn [bind]; try discriminate; intros HH; inversion HH; subst;
  destruct (branch_offset_inv _ _ _ _ _ _ _ BO) as [B1 [B2 B3]];
  exists (Z.to_N v); rewrite Z2N.id by lia; (split; [reflexivity|]); (split; [lia|]); rewrite Z2N.id in B1 by lia; auto.
Qed.

(* register names are matched case-insensitively *)
Lemma upper_idem b : upper (upper b) = upper b.
Proof.
  unfold upper. destruct (N.leb_spec 97 b); cbn [andb]; [|destruct (N.leb_spec 97 b); [lia|reflexivity]].
  destruct (N.leb_spec b 122); cbn [andb].
  - destruct (N.leb_spec 97 (b - 32)); [lia|]. reflexivity.
  - destruct (N.leb_spec 97 b); [|lia]. destruct (N.leb_spec b 122); [lia|]. reflexivity.
Qed.
Lemma upper_str_idem s : upper_str (upper_str s) = upper_str s.
Proof. unfold upper_str. rewrite map_map. apply map_ext. exact upper_idem. Qed.
Lemma regl_case_insensitive s : regl (upper_str s) = regl s.
Proof. unfold regl. rewrite upper_str_idem. unfold upper_str at 1. now rewrite map_length. Qed.
