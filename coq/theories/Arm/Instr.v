(* Types of src/arm6m: Register, Condition, SystemReg, RegisterSet (as its u16 bits), ImmReg, Instruction.
   Field types: i32 -> Z, u8/u16 -> N (ranges stated by wf_instr). *)
From Coq Require Import ZArith NArith List Bool.
Import ListNotations.

Inductive reg := R0 | R1 | R2 | R3 | R4 | R5 | R6 | R7 | R8 | R9 | R10 | R11 | R12 | SP | LR | PC.
Inductive cond := Equal | NonEqual | CarrySet | CarryClear | Minus | Plus | Overflow | NoOverflow
                | Higher | LowerEqual | GreaterEqual | Less | Greater | LessEqual | Always.
Inductive sysreg := APSR | IAPSR | EAPSR | XPSR | IPSR | EPSR | IEPSR | MSP | PSP | PRIMASK | CONTROL.

Inductive immreg := Imm (v : Z) | Reg (r : reg).

Inductive instr :=
| Adc (dst rhs : reg)
| Add (flags : bool) (dst lhs : reg) (rhs : immreg)
| Adr (dst : reg) (off : N)
| And (dst rhs : reg)
| Asr (dst value : reg) (shift : immreg)
| B (c : cond) (off : Z)
| Bic (dst rhs : reg)
| Bkpt (info : N)
| Bl (off : Z)
| Blx (off : reg)
| Bx (off : reg)
| Cmn (lhs rhs : reg)
| Cmp (lhs : reg) (rhs : immreg)
| Cps (enable : bool)
| Dmb
| Dsb
| Eor (dst rhs : reg)
| Isb
| Ldm (addr : reg) (registers : N)
| Ldr (dst addr : reg) (off : immreg)
| Ldrb (dst addr : reg) (off : immreg)
| Ldrh (dst addr : reg) (off : immreg)
| Ldrsb (dst addr off : reg)
| Ldrsh (dst addr off : reg)
| Lsl (dst value : reg) (shift : immreg)
| Lsr (dst value : reg) (shift : immreg)
| Mov (flags : bool) (dst : reg) (src : immreg)
| Mrs (dst : reg) (src : sysreg)
| Msr (dst : sysreg) (src : reg)
| Mul (dst rhs : reg)
| Mvn (dst value : reg)
| Nop
| Orr (dst rhs : reg)
| Pop (registers : N)
| Push (registers : N)
| Rev (dst value : reg)
| Rev16 (dst value : reg)
| Revsh (dst value : reg)
| Ror (dst rhs : reg)
| Rsb (dst lhs : reg)
| Sbc (dst rhs : reg)
| Sev
| Stm (addr : reg) (registers : N)
| Str (src addr : reg) (off : immreg)
| Strb (src addr : reg) (off : immreg)
| Strh (src addr : reg) (off : immreg)
| Sub (flags : bool) (dst lhs : reg) (rhs : immreg)
| Svc (info : N)
| Sxtb (dst value : reg)
| Sxth (dst value : reg)
| Tst (lhs rhs : reg)
| Udf (info : N)
| Udfw (info : N)
| Uxtb (dst value : reg)
| Uxth (dst value : reg)
| Wfe
| Wfi
| Yield.

Open Scope N_scope.

Definition reg_num (r : reg) : N :=
  match r with R0 => 0 | R1 => 1 | R2 => 2 | R3 => 3 | R4 => 4 | R5 => 5 | R6 => 6 | R7 => 7
             | R8 => 8 | R9 => 9 | R10 => 10 | R11 => 11 | R12 => 12 | SP => 13 | LR => 14 | PC => 15 end.

Definition reg_of_num (n : N) : option reg :=
  match n with 0 => Some R0 | 1 => Some R1 | 2 => Some R2 | 3 => Some R3 | 4 => Some R4 | 5 => Some R5
             | 6 => Some R6 | 7 => Some R7 | 8 => Some R8 | 9 => Some R9 | 10 => Some R10 | 11 => Some R11
             | 12 => Some R12 | 13 => Some SP | 14 => Some LR | 15 => Some PC | _ => None end.

Definition cond_num (c : cond) : N :=
  match c with Equal => 0 | NonEqual => 1 | CarrySet => 2 | CarryClear => 3 | Minus => 4 | Plus => 5
             | Overflow => 6 | NoOverflow => 7 | Higher => 8 | LowerEqual => 9 | GreaterEqual => 10
             | Less => 11 | Greater => 12 | LessEqual => 13 | Always => 14 end.

Definition cond_of_num (n : N) : option cond :=
  match n with 0 => Some Equal | 1 => Some NonEqual | 2 => Some CarrySet | 3 => Some CarryClear
             | 4 => Some Minus | 5 => Some Plus | 6 => Some Overflow | 7 => Some NoOverflow
             | 8 => Some Higher | 9 => Some LowerEqual | 10 => Some GreaterEqual | 11 => Some Less
             | 12 => Some Greater | 13 => Some LessEqual | 14 => Some Always | _ => None end.

Definition sysreg_num (s : sysreg) : N :=
  match s with APSR => 0 | IAPSR => 1 | EAPSR => 2 | XPSR => 3 | IPSR => 5 | EPSR => 6 | IEPSR => 7
             | MSP => 8 | PSP => 9 | PRIMASK => 16 | CONTROL => 20 end.

Definition sysreg_of_num (n : N) : option sysreg :=
  match n with 0 => Some APSR | 1 => Some IAPSR | 2 => Some EAPSR | 3 => Some XPSR | 5 => Some IPSR
             | 6 => Some EPSR | 7 => Some IEPSR | 8 => Some MSP | 9 => Some PSP | 16 => Some PRIMASK
             | 20 => Some CONTROL | _ => None end.

Definition all_regs : list reg := [R0;R1;R2;R3;R4;R5;R6;R7;R8;R9;R10;R11;R12;SP;LR;PC].
Definition all_conds : list cond := [Equal;NonEqual;CarrySet;CarryClear;Minus;Plus;Overflow;NoOverflow;
                                     Higher;LowerEqual;GreaterEqual;Less;Greater;LessEqual;Always].
Definition all_sysregs : list sysreg := [APSR;IAPSR;EAPSR;XPSR;IPSR;EPSR;IEPSR;MSP;PSP;PRIMASK;CONTROL].

(* derived comparisons used by the Rust code: `>=`/`<` on the derived Ord = numeric order *)
Definition reg_eqb (a b : reg) : bool := N.eqb (reg_num a) (reg_num b).
Definition reg_ge8 (a : reg) : bool := N.leb 8 (reg_num a).
Definition cond_eqb (a b : cond) : bool := N.eqb (cond_num a) (cond_num b).

(* decidable equality (transparent, so it computes inside vm_compute) *)
Definition reg_eq_dec (a b : reg) : {a = b} + {a <> b}. Proof. decide equality. Defined.
Definition cond_eq_dec (a b : cond) : {a = b} + {a <> b}. Proof. decide equality. Defined.
Definition sysreg_eq_dec (a b : sysreg) : {a = b} + {a <> b}. Proof. decide equality. Defined.
Definition immreg_eq_dec (a b : immreg) : {a = b} + {a <> b}.
Proof. decide equality; [apply Z.eq_dec | apply reg_eq_dec]. Defined.
Definition instr_eq_dec (a b : instr) : {a = b} + {a <> b}.
Proof.
  decide equality; try apply reg_eq_dec; try apply immreg_eq_dec; try apply Bool.bool_dec;
  try apply N.eq_dec; try apply Z.eq_dec; try apply cond_eq_dec; try apply sysreg_eq_dec.
Defined.
Definition instr_eqb (a b : instr) : bool := if instr_eq_dec a b then true else false.

(* ranges of the Rust field types *)
Definition i32_ok (z : Z) : Prop := (-2147483648 <= z <= 2147483647)%Z.
Definition immreg_ok (x : immreg) : Prop := match x with Imm v => i32_ok v | Reg _ => True end.
Definition wf_instr (i : instr) : Prop :=
  match i with
  | Add _ _ _ x | Sub _ _ _ x | Asr _ _ x | Lsl _ _ x | Lsr _ _ x | Cmp _ x | Mov _ _ x
  | Ldr _ _ x | Ldrb _ _ x | Ldrh _ _ x | Str _ _ x | Strb _ _ x | Strh _ _ x => immreg_ok x
  | Adr _ off => off < 65536
  | B _ off | Bl off => i32_ok off
  | Bkpt info | Svc info | Udf info => info < 256
  | Udfw info => info < 65536
  | Ldm _ rs | Stm _ rs | Pop rs | Push rs => rs < 65536
  | _ => True
  end.
