(* Kernel sweep: Sub with an immediate, both flag settings x all register pairs x every immediate in [-1024, 1024). *)
From Coq Require Import ZArith NArith List Bool.
From Trion Require Import Base.Sweep Arm.Instr Arm.EncodeModel Arm.DecodeModel Arm.Armv6mSpec Arm.CodecCheck Arm.CodecSweepA.
Lemma sw_Sub_imm : Bo (fun f => R2 (fun a b => allZ (fun v => codec_ok (Sub f a b (Imm v))) (-1024) 1 11)) = true.
Proof. vm_compute. reflexivity. Qed.
