(* UTF-8 on byte lists, with the behaviour of Rust's core::str::from_utf8 (run_utf8_validation):
   well-formed sequences are exactly those of the Unicode standard, table 3-7 (no overlongs, no
   surrogates, nothing above U+10FFFF); `valid_up_to` is the length of the longest prefix made of
   whole well-formed sequences.  Executable definitions first, then the facts the tokenizer proofs use. *)
From Coq Require Import NArith List Lia Bool Arith.
From Trion Require Import Base.Sweep.
Import ListNotations.
Open Scope N_scope.

(* continuation byte 10xxxxxx.  For bytes (< 256) this is `(b & 0xC0) == 0x80`, and its negation is
   Rust's `(b as i8) >= -0x40` (u8::is_utf8_char_boundary). *)
Definition is_cont (b : N) : bool := (128 <=? b) && (b <? 192).

Definition in_range (lo hi b : N) : bool := (lo <=? b) && (b <=? hi).

(* second byte of a 3-byte sequence, depending on the lead (excludes overlongs E0 80..9F and surrogates ED A0..BF) *)
Definition second3_ok (b0 b1 : N) : bool :=
  if b0 =? 0xE0 then in_range 0xA0 0xBF b1
  else if b0 =? 0xED then in_range 0x80 0x9F b1
  else in_range 0x80 0xBF b1.

(* second byte of a 4-byte sequence (excludes overlongs F0 80..8F and values above U+10FFFF) *)
Definition second4_ok (b0 b1 : N) : bool :=
  if b0 =? 0xF0 then in_range 0x90 0xBF b1
  else if b0 =? 0xF4 then in_range 0x80 0x8F b1
  else in_range 0x80 0xBF b1.

(* length of the well-formed sequence at the head of bs; 0 if there is none (also for the empty list and for a truncated sequence) *)
Definition seq_len (bs : list N) : nat :=
  match bs with
  | [] => 0%nat
  | b0 :: r =>
    if b0 <? 0x80 then 1%nat
    else if in_range 0xC2 0xDF b0 then
      match r with b1 :: _ => if is_cont b1 then 2%nat else 0%nat | _ => 0%nat end
    else if in_range 0xE0 0xEF b0 then
      match r with b1 :: b2 :: _ => if second3_ok b0 b1 && is_cont b2 then 3%nat else 0%nat | _ => 0%nat end
    else if in_range 0xF0 0xF4 b0 then
      match r with b1 :: b2 :: b3 :: _ => if second4_ok b0 b1 && is_cont b2 && is_cont b3 then 4%nat else 0%nat | _ => 0%nat end
    else 0%nat
  end.

(* Utf8Error::valid_up_to of from_utf8 (= length bs when from_utf8 succeeds) *)
Fixpoint valid_up_to_fuel (fuel : nat) (bs : list N) : nat :=
  match fuel with
  | O => 0%nat
  | S f => match seq_len bs with
           | O => 0%nat
           | n => (n + valid_up_to_fuel f (skipn n bs))%nat
           end
  end.
Definition valid_up_to (bs : list N) : nat := valid_up_to_fuel (length bs) bs.
Definition utf8_valid (bs : list N) : bool := Nat.eqb (valid_up_to bs) (length bs).

(* first scalar value of a string that starts with a well-formed sequence, and the sequence's length
   (core::str::validations::next_code_point) *)
Definition decode_char (bs : list N) : option (N * nat) :=
  match seq_len bs, bs with
  | 1%nat, b0 :: _ => Some (b0, 1%nat)
  | 2%nat, b0 :: b1 :: _ => Some (N.lor (N.shiftl (N.land b0 0x1F) 6) (N.land b1 0x3F), 2%nat)
  | 3%nat, b0 :: b1 :: b2 :: _ =>
      Some (N.lor (N.shiftl (N.land b0 0x0F) 12) (N.lor (N.shiftl (N.land b1 0x3F) 6) (N.land b2 0x3F)), 3%nat)
  | 4%nat, b0 :: b1 :: b2 :: b3 :: _ =>
      Some (N.lor (N.shiftl (N.land b0 0x07) 18)
             (N.lor (N.shiftl (N.land b1 0x3F) 12) (N.lor (N.shiftl (N.land b2 0x3F) 6) (N.land b3 0x3F))), 4%nat)
  | _, _ => None
  end.

(* Unicode scalar value: what a Rust `char` can hold (char::from_u32 is Some) *)
Definition is_scalar (c : N) : bool := (c <? 0xD800) || ((0xE000 <=? c) && (c <=? 0x10FFFF)).

Definition len_utf8 (c : N) : nat :=
  if c <? 0x80 then 1%nat else if c <? 0x800 then 2%nat else if c <? 0x10000 then 3%nat else 4%nat.

(* char::encode_utf8 *)
Definition encode_char (c : N) : list N :=
  if c <? 0x80 then [c]
  else if c <? 0x800 then [N.lor 0xC0 (N.shiftr c 6); N.lor 0x80 (N.land c 0x3F)]
  else if c <? 0x10000 then
    [N.lor 0xE0 (N.shiftr c 12); N.lor 0x80 (N.land (N.shiftr c 6) 0x3F); N.lor 0x80 (N.land c 0x3F)]
  else
    [N.lor 0xF0 (N.shiftr c 18); N.lor 0x80 (N.land (N.shiftr c 12) 0x3F);
     N.lor 0x80 (N.land (N.shiftr c 6) 0x3F); N.lor 0x80 (N.land c 0x3F)].

(* str::is_char_boundary(index): 0, len, or an index whose byte is not a continuation byte *)
Definition is_char_boundary (d : list N) (n : nat) : bool :=
  match n with
  | O => true
  | _ => match skipn n d with
         | b :: _ => negb (is_cont b)
         | [] => Nat.eqb n (length d)
         end
  end.

(* ------------------------------------------------------------------------------------------ *)
(* Facts *)

Definition bytes (bs : list N) : Prop := Forall (fun b => b < 256) bs.

Lemma is_cont_land b : b < 256 -> is_cont b = (N.land b 192 =? 128).
Proof.
  intros H. revert b H.
  assert (A : forallb (fun b => Bool.eqb (is_cont b) (N.land b 192 =? 128)) (N_below 256) = true) by (vm_compute; reflexivity).
  intros b H. apply (forall_below _ 256 A) in H. now apply Bool.eqb_prop in H.
Qed.

Lemma skipn_skipn {A} (a b : nat) (l : list A) : skipn a (skipn b l) = skipn (a + b) l.
Proof.
  revert l. induction b as [|b IH]; intros l; [now rewrite Nat.add_0_r|].
  destruct l as [|x l]; [now rewrite !skipn_nil|]. rewrite Nat.add_succ_r. cbn [skipn]. apply IH.
Qed.

(* well-formedness as a predicate: a concatenation of well-formed sequences *)
Inductive Valid : list N -> Prop :=
| V_nil : Valid []
| V_seq bs : seq_len bs <> 0%nat -> Valid (skipn (seq_len bs) bs) -> Valid bs.

Lemma seq_len_le bs : (seq_len bs <= length bs)%nat.
Proof.
  destruct bs as [|b0 r]; cbn [seq_len]; [lia|].
  destruct (b0 <? 0x80); [cbn; lia|].
  destruct (in_range 0xC2 0xDF b0).
  { destruct r as [|b1 r]; [cbn; lia|]. destruct (is_cont b1); cbn; lia. }
  destruct (in_range 0xE0 0xEF b0).
  { destruct r as [|b1 [|b2 r]]; try (cbn; lia). destruct (second3_ok b0 b1 && is_cont b2); cbn; lia. }
  destruct (in_range 0xF0 0xF4 b0).
  { destruct r as [|b1 [|b2 [|b3 r]]]; try (cbn; lia). destruct (second4_ok b0 b1 && is_cont b2 && is_cont b3); cbn; lia. }
  cbn; lia.
Qed.

Lemma seq_len_le4 bs : (seq_len bs <= 4)%nat.
Proof.
  destruct bs as [|b0 r]; cbn [seq_len]; [lia|].
  repeat match goal with |- context [if ?c then _ else _] => destruct c end;
  repeat match goal with |- context [match ?l with [] => _ | _ :: _ => _ end] => destruct l end;
  repeat match goal with |- context [if ?c then _ else _] => destruct c end; lia.
Qed.

(* the head of a well-formed sequence is never a continuation byte *)
Lemma seq_len_head b r : seq_len (b :: r) <> 0%nat -> is_cont b = false.
Proof.
  cbn [seq_len]. unfold is_cont, in_range.
  destruct (b <? 0x80) eqn:E1; [intros _; apply N.ltb_lt in E1; apply andb_false_iff; left; apply N.leb_gt; lia|].
  destruct ((0xC2 <=? b) && (b <=? 0xDF)) eqn:E2.
  { intros _. apply andb_prop in E2. destruct E2 as [A B]. apply N.leb_le in A. apply andb_false_iff. right. apply N.ltb_ge. lia. }
  destruct ((0xE0 <=? b) && (b <=? 0xEF)) eqn:E3.
  { intros _. apply andb_prop in E3. destruct E3 as [A B]. apply N.leb_le in A. apply andb_false_iff. right. apply N.ltb_ge. lia. }
  destruct ((0xF0 <=? b) && (b <=? 0xF4)) eqn:E4.
  { intros _. apply andb_prop in E4. destruct E4 as [A B]. apply N.leb_le in A. apply andb_false_iff. right. apply N.ltb_ge. lia. }
  intros H; now contradiction H.
Qed.

(* every byte of a well-formed sequence after its head is a continuation byte *)
Lemma seq_len_tail bs k : (0 < k < seq_len bs)%nat -> exists b, nth_error bs k = Some b /\ is_cont b = true.
Proof.
  destruct bs as [|b0 r]; cbn [seq_len]; [lia|].
  destruct (b0 <? 0x80); [lia|].
  destruct (in_range 0xC2 0xDF b0).
  { destruct r as [|b1 r]; [lia|]. destruct (is_cont b1) eqn:C1; [|lia].
    intros H. assert (k = 1%nat) by lia. subst. exists b1. now split. }
  destruct (in_range 0xE0 0xEF b0).
  { destruct r as [|b1 [|b2 r]]; try lia. destruct (second3_ok b0 b1 && is_cont b2) eqn:C; [|lia].
    apply andb_prop in C. destruct C as [C1 C2]. intros H.
    assert (K : k = 1%nat \/ k = 2%nat) by lia. destruct K; subst.
    - exists b1. split; [reflexivity|]. unfold second3_ok, in_range in C1. unfold is_cont.
      destruct (b0 =? 0xE0); [|destruct (b0 =? 0xED)]; apply andb_prop in C1; destruct C1 as [A B];
      apply N.leb_le in A; apply N.leb_le in B; apply andb_true_iff; split; [apply N.leb_le|apply N.ltb_lt|apply N.leb_le|apply N.ltb_lt|apply N.leb_le|apply N.ltb_lt]; lia.
    - exists b2. now split. }
  destruct (in_range 0xF0 0xF4 b0).
  { destruct r as [|b1 [|b2 [|b3 r]]]; try lia. destruct (second4_ok b0 b1 && is_cont b2 && is_cont b3) eqn:C; [|lia].
    apply andb_prop in C. destruct C as [C C3]. apply andb_prop in C. destruct C as [C1 C2]. intros H.
    assert (K : k = 1%nat \/ k = 2%nat \/ k = 3%nat) by lia. destruct K as [K|[K|K]]; subst.
    - exists b1. split; [reflexivity|]. unfold second4_ok, in_range in C1. unfold is_cont.
      destruct (b0 =? 0xF0); [|destruct (b0 =? 0xF4)]; apply andb_prop in C1; destruct C1 as [A B];
      apply N.leb_le in A; apply N.leb_le in B; apply andb_true_iff; split; [apply N.leb_le|apply N.ltb_lt|apply N.leb_le|apply N.ltb_lt|apply N.leb_le|apply N.ltb_lt]; lia.
    - exists b2. now split.
    - exists b3. now split. }
  lia.
Qed.

(* seq_len looks at no more than the sequence itself *)
Lemma seq_len_app a b : seq_len a <> 0%nat -> seq_len (a ++ b) = seq_len a.
Proof.
  destruct a as [|b0 r]; cbn [seq_len app]; [intros H; now contradiction H|].
  destruct (b0 <? 0x80); [reflexivity|].
  destruct (in_range 0xC2 0xDF b0).
  { destruct r as [|b1 r]; [intros H; now contradiction H|]. reflexivity. }
  destruct (in_range 0xE0 0xEF b0).
  { destruct r as [|b1 [|b2 r]]; try (intros H; now contradiction H). reflexivity. }
  destruct (in_range 0xF0 0xF4 b0).
  { destruct r as [|b1 [|b2 [|b3 r]]]; try (intros H; now contradiction H). reflexivity. }
  intros H; now contradiction H.
Qed.

Lemma seq_len_firstn bs : seq_len (firstn (seq_len bs) bs) = seq_len bs.
Proof.
  destruct bs as [|b0 r]; [reflexivity|]. cbn [seq_len].
  destruct (b0 <? 0x80) eqn:E1; [cbn [firstn seq_len]; now rewrite E1|].
  destruct (in_range 0xC2 0xDF b0) eqn:E2.
  { destruct r as [|b1 r]; [reflexivity|]. destruct (is_cont b1) eqn:C; [|reflexivity].
    cbn [firstn seq_len]. now rewrite E1, E2, C. }
  destruct (in_range 0xE0 0xEF b0) eqn:E3.
  { destruct r as [|b1 [|b2 r]]; try reflexivity. destruct (second3_ok b0 b1 && is_cont b2) eqn:C; [|reflexivity].
    cbn [firstn seq_len]. now rewrite E1, E2, E3, C. }
  destruct (in_range 0xF0 0xF4 b0) eqn:E4.
  { destruct r as [|b1 [|b2 [|b3 r]]]; try reflexivity. destruct (second4_ok b0 b1 && is_cont b2 && is_cont b3) eqn:C; [|reflexivity].
    cbn [firstn seq_len]. now rewrite E1, E2, E3, E4, C. }
  reflexivity.
Qed.

Lemma Valid_app a b : Valid a -> Valid b -> Valid (a ++ b).
Proof.
  intros Ha Hb. induction Ha as [|bs Hn Hr IH]; [exact Hb|].
  apply V_seq; rewrite seq_len_app by exact Hn; [exact Hn|].
  rewrite skipn_app. pose proof (seq_len_le bs).
  replace (seq_len bs - length bs)%nat with 0%nat by lia. exact IH.
Qed.

(* Self-synchronisation: in a well-formed text every index whose byte is not a continuation byte (or the end)
   splits the text into two well-formed texts. *)
Lemma Valid_split d : Valid d -> forall n, is_char_boundary d n = true -> Valid (firstn n d) /\ Valid (skipn n d).
Proof.
  intros Hd. induction Hd as [|bs Hn Hr IH]; intros n Hb.
  { rewrite firstn_nil, skipn_nil. split; constructor. }
  destruct n as [|n']; [split; [constructor | now apply V_seq]|].
  set (n := S n') in *. set (k := seq_len bs) in *.
  destruct (Nat.lt_ge_cases n k) as [Hlt|Hge].
  - (* inside the first sequence: the byte at n is a continuation byte *)
    exfalso. destruct (seq_len_tail bs n) as [b [Hb1 Hb2]]; [subst n; fold k; lia|].
    unfold is_char_boundary in Hb. fold n in Hb. subst n.
    assert (E : exists t, skipn (S n') bs = b :: t).
    { clear -Hb1. revert Hb1. generalize (S n'). intros m. revert bs. induction m; intros [|x bs] H; cbn in *; try discriminate.
      - injection H as ->. now exists bs.
      - now apply IHm. }
    destruct E as [t Et]. rewrite Et in Hb. rewrite Hb2 in Hb. discriminate.
  - (* at or beyond the end of the first sequence *)
    assert (Hb' : is_char_boundary (skipn k bs) (n - k) = true).
    { unfold is_char_boundary in *. fold n in Hb. destruct (n - k)%nat eqn:Enk; [reflexivity|].
      rewrite <- Enk. rewrite skipn_skipn. replace (n - k + k)%nat with n by lia.
      assert (Hn0 : n <> 0%nat) by (subst n; discriminate).
      destruct n as [|nn]; [contradiction|].
      destruct (skipn (S nn) bs); [|exact Hb].
      rewrite skipn_length. apply Nat.eqb_eq in Hb. apply Nat.eqb_eq. pose proof (seq_len_le bs). fold k in H. lia. }
    destruct (IH _ Hb') as [I1 I2]. rewrite skipn_skipn in I2. replace (n - k + k)%nat with n in I2 by lia.
    split; [|exact I2].
    replace (firstn n bs) with (firstn k bs ++ firstn (n - k) (skipn k bs)).
    2:{ rewrite <- (firstn_skipn k bs) at 3. rewrite firstn_app. rewrite firstn_firstn.
        replace (Nat.min n k) with k by lia. rewrite firstn_length. pose proof (seq_len_le bs). fold k in H.
        replace (Nat.min k (length bs)) with k by lia. reflexivity. }
    apply Valid_app; [|exact I1].
    apply V_seq; unfold k; rewrite seq_len_firstn; [exact Hn|].
    rewrite skipn_firstn_comm. replace (seq_len bs - seq_len bs)%nat with 0%nat by lia. constructor.
Qed.

Lemma Valid_head b r : Valid (b :: r) -> is_cont b = false.
Proof. intros H. inversion H; subst. now apply seq_len_head in H0. Qed.

Lemma Valid_ascii_cons b r : b < 128 -> Valid (b :: r) -> Valid r.
Proof.
  intros Hb H. inversion H as [|bs Hn Hr]; subst. cbn [seq_len] in Hr.
  apply N.ltb_lt in Hb. change 0x80 with 128 in Hr. rewrite Hb in Hr. exact Hr.
Qed.

Lemma Valid_cons_ascii b r : b < 128 -> Valid r -> Valid (b :: r).
Proof.
  intros Hb H. apply V_seq; cbn [seq_len]; apply N.ltb_lt in Hb; change 0x80 with 128; rewrite Hb; [discriminate|exact H].
Qed.

(* splitting right after an ASCII byte *)
Lemma Valid_after_ascii a b r : b < 128 -> Valid (a ++ b :: r) -> Valid a /\ Valid r.
Proof.
  intros Hb H.
  assert (B : is_char_boundary (a ++ b :: r) (length a) = true).
  { unfold is_char_boundary. destruct (length a) eqn:E; [reflexivity|]. rewrite <- E.
    rewrite skipn_app, Nat.sub_diag, skipn_all. cbn. unfold is_cont.
    replace (b <? 192) with true by (symmetry; apply N.ltb_lt; lia).
    replace (128 <=? b) with false by (symmetry; apply N.leb_gt; lia). reflexivity. }
  destruct (Valid_split _ H _ B) as [V1 V2].
  rewrite firstn_app, Nat.sub_diag, firstn_all, app_nil_r in V1.
  rewrite skipn_app, Nat.sub_diag, skipn_all in V2. cbn in V2.
  split; [exact V1|]. now apply Valid_ascii_cons in V2.
Qed.

(* the prefix cut at valid_up_to is well formed *)
Lemma valid_up_to_fuel_le fuel : forall bs, (valid_up_to_fuel fuel bs <= length bs)%nat.
Proof.
  induction fuel as [|f IH]; intros bs; cbn [valid_up_to_fuel]; [lia|].
  destruct (seq_len bs) eqn:E; [lia|]. rewrite <- E.
  specialize (IH (skipn (seq_len bs) bs)). rewrite skipn_length in IH. pose proof (seq_len_le bs). lia.
Qed.

Lemma valid_up_to_le bs : (valid_up_to bs <= length bs)%nat.
Proof. apply valid_up_to_fuel_le. Qed.

Lemma valid_up_to_fuel_Valid fuel : forall bs, Valid (firstn (valid_up_to_fuel fuel bs) bs).
Proof.
  induction fuel as [|f IH]; intros bs; cbn [valid_up_to_fuel]; [constructor|].
  destruct (seq_len bs) eqn:E; [constructor|]. rewrite <- E.
  set (k := seq_len bs). set (m := valid_up_to_fuel f (skipn k bs)).
  replace (firstn (k + m) bs) with (firstn k bs ++ firstn m (skipn k bs)).
  2:{ rewrite <- (firstn_skipn k bs) at 3. rewrite firstn_app, firstn_firstn, firstn_length.
      pose proof (seq_len_le bs). fold k in H. replace (Nat.min (k + m) k) with k by lia.
      replace (Nat.min k (length bs)) with k by lia. replace (k + m - k)%nat with m by lia. reflexivity. }
  apply Valid_app; [|apply IH].
  apply V_seq; unfold k; rewrite seq_len_firstn; [rewrite E; discriminate|].
  rewrite skipn_firstn_comm, Nat.sub_diag. constructor.
Qed.

Lemma valid_up_to_Valid bs : Valid (firstn (valid_up_to bs) bs).
Proof. apply valid_up_to_fuel_Valid. Qed.

(* a well-formed text is accepted whole *)
Lemma Valid_valid_up_to_fuel bs : Valid bs -> forall fuel, (length bs <= fuel)%nat -> valid_up_to_fuel fuel bs = length bs.
Proof.
  induction 1 as [|bs Hn Hr IH]; intros fuel Hf.
  { destruct fuel; reflexivity. }
  destruct fuel as [|f].
  { destruct bs; [now contradiction Hn|cbn in Hf; lia]. }
  cbn [valid_up_to_fuel]. destruct (seq_len bs) eqn:E; [contradiction|]. rewrite <- E in *.
  pose proof (seq_len_le bs). rewrite IH; rewrite skipn_length; lia.
Qed.

Lemma Valid_utf8_valid bs : Valid bs -> utf8_valid bs = true.
Proof. intros H. unfold utf8_valid, valid_up_to. rewrite Valid_valid_up_to_fuel by (auto; lia). apply Nat.eqb_refl. Qed.

Lemma utf8_valid_Valid bs : utf8_valid bs = true -> Valid bs.
Proof.
  unfold utf8_valid. intros H. apply Nat.eqb_eq in H. pose proof (valid_up_to_Valid bs) as V.
  rewrite H, firstn_all in V. exact V.
Qed.

(* a non-empty well-formed text starts with a decodable character *)
Lemma decode_char_Valid bs : Valid bs -> bs <> [] -> exists c n, decode_char bs = Some (c, n) /\ n = seq_len bs /\ (0 < n)%nat.
Proof.
  intros H Hne. inversion H as [|bs' Hn Hr]; subst; [contradiction|].
  unfold decode_char. pose proof (seq_len_le4 bs) as L4. pose proof (seq_len_le bs) as Ll.
  destruct (seq_len bs) as [|[|[|[|[|k]]]]] eqn:E; try lia; try contradiction.
  - destruct bs as [|b0 r]; [contradiction|]. eexists _, _. split; [reflexivity|]. split; lia.
  - destruct bs as [|b0 [|b1 r]]; cbn in Ll; try lia. eexists _, _. split; [reflexivity|]. split; lia.
  - destruct bs as [|b0 [|b1 [|b2 r]]]; cbn in Ll; try lia. eexists _, _. split; [reflexivity|]. split; lia.
  - destruct bs as [|b0 [|b1 [|b2 [|b3 r]]]]; cbn in Ll; try lia. eexists _, _. split; [reflexivity|]. split; lia.
Qed.

(* ------------------------------------------------------------------------------------------ *)
(* decode / encode agree (kernel sweeps over every well-formed sequence and over every scalar value) *)
Fixpoint list_eqb (a b : list N) : bool :=
  match a, b with
  | [], [] => true
  | x :: a', y :: b' => (x =? y) && list_eqb a' b'
  | _, _ => false
  end.
Lemma list_eqb_eq a : forall b, list_eqb a b = true -> a = b.
Proof.
  induction a as [|x a IH]; intros [|y b] H; cbn in H; try discriminate; [reflexivity|].
  apply andb_prop in H. destruct H as [H1 H2]. apply N.eqb_eq in H1. subst. f_equal. now apply IH.
Qed.

(* what has to hold of a decoded sequence s with value c *)
Definition dec_ok (s : list N) (c : N) : bool :=
  Nat.eqb (len_utf8 c) (length s) && is_scalar c && list_eqb (encode_char c) s.

Definition dec2 (b0 b1 : N) : N := N.lor (N.shiftl (N.land b0 0x1F) 6) (N.land b1 0x3F).
Definition dec3 (b0 b1 b2 : N) : N :=
  N.lor (N.shiftl (N.land b0 0x0F) 12) (N.lor (N.shiftl (N.land b1 0x3F) 6) (N.land b2 0x3F)).
Definition dec4 (b0 b1 b2 b3 : N) : N :=
  N.lor (N.shiftl (N.land b0 0x07) 18)
    (N.lor (N.shiftl (N.land b1 0x3F) 12) (N.lor (N.shiftl (N.land b2 0x3F) 6) (N.land b3 0x3F))).

Lemma in_range_N_range lo hi b n : in_range lo hi b = true -> hi < lo + N.of_nat n -> In b (N_range lo n).
Proof. unfold in_range. intros H L. apply andb_prop in H. destruct H as [A B]. apply N.leb_le in A. apply N.leb_le in B. apply N_range_in; lia. Qed.
Lemma is_cont_N_range b : is_cont b = true -> In b (N_range 128 64).
Proof. unfold is_cont. intros H. apply andb_prop in H. destruct H as [A B]. apply N.leb_le in A. apply N.ltb_lt in B. apply N_range_in; lia. Qed.

Lemma sweep2 : forall b0 b1, in_range 0xC2 0xDF b0 = true -> is_cont b1 = true -> dec_ok [b0; b1] (dec2 b0 b1) = true.
Proof.
  assert (A : forallb (fun b0 => forallb (fun b1 => dec_ok [b0; b1] (dec2 b0 b1)) (N_range 128 64)) (N_range 0xC2 30) = true)
    by (vm_compute; reflexivity).
  intros b0 b1 H0 H1.
  apply (forall_list _ _ (forall_list _ _ A b0 (in_range_N_range _ _ _ 30 H0 ltac:(lia))) b1 (is_cont_N_range _ H1)).
Qed.

Lemma sweep3 : forall b0 b1 b2, in_range 0xE0 0xEF b0 = true -> second3_ok b0 b1 = true -> is_cont b1 = true -> is_cont b2 = true ->
  dec_ok [b0; b1; b2] (dec3 b0 b1 b2) = true.
Proof.
  assert (A : forallb (fun b0 => forallb (fun b1 => forallb (fun b2 =>
                implb (second3_ok b0 b1) (dec_ok [b0; b1; b2] (dec3 b0 b1 b2))) (N_range 128 64)) (N_range 128 64)) (N_range 0xE0 16) = true)
    by (vm_compute; reflexivity).
  intros b0 b1 b2 H0 H1 C1 C2.
  pose proof (forall_list _ _ (forall_list _ _ (forall_list _ _ A b0 (in_range_N_range _ _ _ 16 H0 ltac:(lia))) b1 (is_cont_N_range _ C1)) b2 (is_cont_N_range _ C2)) as R.
  cbv beta in R. now rewrite H1 in R.
Qed.

Lemma sweep4 : forall b0 b1 b2 b3, in_range 0xF0 0xF4 b0 = true -> second4_ok b0 b1 = true -> is_cont b1 = true -> is_cont b2 = true -> is_cont b3 = true ->
  dec_ok [b0; b1; b2; b3] (dec4 b0 b1 b2 b3) = true.
Proof.
  assert (A : forallb (fun b0 => forallb (fun b1 => forallb (fun b2 => forallb (fun b3 =>
                implb (second4_ok b0 b1) (dec_ok [b0; b1; b2; b3] (dec4 b0 b1 b2 b3))) (N_range 128 64)) (N_range 128 64)) (N_range 128 64)) (N_range 0xF0 5) = true)
    by (vm_compute; reflexivity).
  intros b0 b1 b2 b3 H0 H1 C1 C2 C3.
  pose proof (forall_list _ _ (forall_list _ _ (forall_list _ _ (forall_list _ _ A b0 (in_range_N_range _ _ _ 5 H0 ltac:(lia))) b1 (is_cont_N_range _ C1)) b2 (is_cont_N_range _ C2)) b3 (is_cont_N_range _ C3)) as R.
  cbv beta in R. now rewrite H1 in R.
Qed.

Lemma second3_cont b0 b1 : second3_ok b0 b1 = true -> is_cont b1 = true.
Proof.
  unfold second3_ok, in_range, is_cont. destruct (b0 =? 0xE0); [|destruct (b0 =? 0xED)]; intros H; apply andb_prop in H; destruct H as [A B];
  apply N.leb_le in A; apply N.leb_le in B; apply andb_true_iff; split; [apply N.leb_le|apply N.ltb_lt|apply N.leb_le|apply N.ltb_lt|apply N.leb_le|apply N.ltb_lt]; lia.
Qed.
Lemma second4_cont b0 b1 : second4_ok b0 b1 = true -> is_cont b1 = true.
Proof.
  unfold second4_ok, in_range, is_cont. destruct (b0 =? 0xF0); [|destruct (b0 =? 0xF4)]; intros H; apply andb_prop in H; destruct H as [A B];
  apply N.leb_le in A; apply N.leb_le in B; apply andb_true_iff; split; [apply N.leb_le|apply N.ltb_lt|apply N.leb_le|apply N.ltb_lt|apply N.leb_le|apply N.ltb_lt]; lia.
Qed.

(* a decoded character: its sequence is its encoding, it is a scalar value, and the length is len_utf8 *)
Lemma decode_char_spec bs c k : decode_char bs = Some (c, k) ->
  k = seq_len bs /\ len_utf8 c = k /\ is_scalar c = true /\ exists r, bs = encode_char c ++ r.
Proof.
  assert (D : forall s c, dec_ok s c = true -> len_utf8 c = length s /\ is_scalar c = true /\ encode_char c = s).
  { intros s c0 H. unfold dec_ok in H. apply andb_prop in H. destruct H as [H H3]. apply andb_prop in H. destruct H as [H1 H2].
    apply Nat.eqb_eq in H1. apply list_eqb_eq in H3. auto. }
  unfold decode_char. destruct bs as [|b0 r]; [discriminate|]. cbn [seq_len].
  destruct (b0 <? 0x80) eqn:E1.
  { intros H. injection H as <- <-. apply N.ltb_lt in E1. repeat split.
    - unfold len_utf8. now replace (b0 <? 0x80) with true by (symmetry; apply N.ltb_lt; exact E1).
    - unfold is_scalar. replace (b0 <? 0xD800) with true by (symmetry; apply N.ltb_lt; lia). reflexivity.
    - exists r. unfold encode_char. now replace (b0 <? 0x80) with true by (symmetry; apply N.ltb_lt; exact E1). }
  destruct (in_range 0xC2 0xDF b0) eqn:E2.
  { destruct r as [|b1 r]; [discriminate|]. destruct (is_cont b1) eqn:C1; [|discriminate].
    intros H. injection H as <- <-. destruct (D _ _ (sweep2 _ _ E2 C1)) as [A [B C]]. fold (dec2 b0 b1).
    repeat split; auto. exists r. now rewrite C. }
  destruct (in_range 0xE0 0xEF b0) eqn:E3.
  { destruct r as [|b1 [|b2 r]]; try discriminate. destruct (second3_ok b0 b1 && is_cont b2) eqn:C; [|discriminate].
    apply andb_prop in C. destruct C as [C1 C2].
    intros H. injection H as <- <-. destruct (D _ _ (sweep3 _ _ _ E3 C1 (second3_cont _ _ C1) C2)) as [A [B C]]. fold (dec3 b0 b1 b2).
    repeat split; auto. exists r. now rewrite C. }
  destruct (in_range 0xF0 0xF4 b0) eqn:E4.
  { destruct r as [|b1 [|b2 [|b3 r]]]; try discriminate. destruct (second4_ok b0 b1 && is_cont b2 && is_cont b3) eqn:C; [|discriminate].
    apply andb_prop in C. destruct C as [C C3]. apply andb_prop in C. destruct C as [C1 C2].
    intros H. injection H as <- <-. destruct (D _ _ (sweep4 _ _ _ _ E4 C1 (second4_cont _ _ C1) C2 C3)) as [A [B C]]. fold (dec4 b0 b1 b2 b3).
    repeat split; auto. exists r. now rewrite C. }
  discriminate.
Qed.

Lemma encode_char_len c : length (encode_char c) = len_utf8 c.
Proof. unfold encode_char, len_utf8. destruct (c <? 0x80); [reflexivity|]. destruct (c <? 0x800); [reflexivity|]. destruct (c <? 0x10000); reflexivity. Qed.

(* every scalar value: encode then decode is the identity (sweep over all c < 2^21) *)
Definition enc_dec_ok (c : N) : bool :=
  implb (is_scalar c)
    (match decode_char (encode_char c) with
     | Some (c', k) => (c' =? c) && Nat.eqb k (len_utf8 c) && Nat.eqb (seq_len (encode_char c)) (len_utf8 c)
     | None => false
     end).

Lemma enc_dec_sweep : allN enc_dec_ok 21 = true.
Proof. vm_compute. reflexivity. Qed.

Lemma decode_char_app a b : seq_len a <> 0%nat -> decode_char (a ++ b) = decode_char a.
Proof.
  intros H. unfold decode_char. rewrite (seq_len_app a b H).
  pose proof (seq_len_le a) as L.
  destruct (seq_len a) as [|[|[|[|[|k]]]]] eqn:E; try contradiction.
  - destruct a as [|b0 r]; cbn in L; [lia|reflexivity].
  - destruct a as [|b0 [|b1 r]]; cbn in L; try lia; reflexivity.
  - destruct a as [|b0 [|b1 [|b2 r]]]; cbn in L; try lia; reflexivity.
  - destruct a as [|b0 [|b1 [|b2 [|b3 r]]]]; cbn in L; try lia; reflexivity.
  - destruct (a ++ b) as [|x0 [|x1 [|x2 [|x3 ?]]]]; destruct a as [|y0 [|y1 [|y2 [|y3 ?]]]]; reflexivity.
Qed.

Lemma decode_encode c r : is_scalar c = true -> decode_char (encode_char c ++ r) = Some (c, len_utf8 c) /\ seq_len (encode_char c) = len_utf8 c.
Proof.
  intros S.
  assert (L : c < 2 ^ N.of_nat 21).
  { unfold is_scalar in S. apply orb_prop in S. destruct S as [S|S]; [apply N.ltb_lt in S|apply andb_prop in S; destruct S as [_ S]; apply N.leb_le in S];
    change (2 ^ N.of_nat 21) with 2097152; lia. }
  pose proof (allN_spec _ _ enc_dec_sweep c L) as R. unfold enc_dec_ok in R. rewrite S in R. cbn [implb] in R.
  destruct (decode_char (encode_char c)) as [[c' k]|] eqn:D; [|discriminate].
  apply andb_prop in R. destruct R as [R R3]. apply andb_prop in R. destruct R as [R1 R2].
  apply N.eqb_eq in R1. apply Nat.eqb_eq in R2. apply Nat.eqb_eq in R3. subst.
  split; [|exact R3]. rewrite decode_char_app; [exact D|]. rewrite R3. unfold len_utf8.
  destruct (c <? 0x80); [discriminate|]. destruct (c <? 0x800); [discriminate|]. destruct (c <? 0x10000); discriminate.
Qed.

Lemma encode_char_Valid c : is_scalar c = true -> Valid (encode_char c).
Proof.
  intros S. destruct (decode_encode c [] S) as [_ L]. apply V_seq; [rewrite L|rewrite L, <- encode_char_len, skipn_all; constructor].
  unfold len_utf8. destruct (c <? 0x80); [discriminate|]. destruct (c <? 0x800); [discriminate|]. destruct (c <? 0x10000); discriminate.
Qed.
