(* Lifting kernel-checked finite sweeps (forallb ... = true by vm_compute) to universally
   quantified statements.  The bound is always visible in the lifted statement. *)
From Coq Require Import NArith List Lia Bool.
Import ListNotations.
Open Scope N_scope.

Definition N_below (n : nat) : list N := map N.of_nat (seq 0 n).

Lemma N_below_in n h : h < N.of_nat n -> In h (N_below n).
Proof.
  intros H. unfold N_below. apply in_map_iff. exists (N.to_nat h).
  split; [apply N2Nat.id|]. apply in_seq. lia.
Qed.

Lemma forall_below (f : N -> bool) (n : nat) :
  forallb f (N_below n) = true -> forall h, h < N.of_nat n -> f h = true.
Proof. intros A h H. exact (proj1 (forallb_forall _ _) A h (N_below_in n h H)). Qed.

(* [lo, lo+n) *)
Definition N_range (lo : N) (n : nat) : list N := map (fun k => lo + N.of_nat k) (seq 0 n).

Lemma N_range_in lo n h : lo <= h -> h < lo + N.of_nat n -> In h (N_range lo n).
Proof.
  intros H1 H2. unfold N_range. apply in_map_iff. exists (N.to_nat (h - lo)).
  split; [lia|]. apply in_seq. lia.
Qed.

Lemma forall_range (f : N -> bool) lo (n : nat) :
  forallb f (N_range lo n) = true -> forall h, lo <= h -> h < lo + N.of_nat n -> f h = true.
Proof. intros A h H1 H2. exact (proj1 (forallb_forall _ _) A h (N_range_in lo n h H1 H2)). Qed.

Lemma forall_list {A} (f : A -> bool) (l : list A) :
  forallb f l = true -> forall x, In x l -> f x = true.
Proof. intros H x Hx. exact (proj1 (forallb_forall _ _) H x Hx). Qed.
