(* Lifting kernel-checked finite sweeps (forallb ... = true by vm_compute) to universally
   quantified statements.  The bound is always visible in the lifted statement. *)
From Coq Require Import ZArith NArith List Lia Bool.
Import ListNotations.
Open Scope N_scope.

Definition N_below (n : nat) : list N := map N.of_nat (seq 0 n).

Lemma N_below_in n h : h < N.of_nat n -> In h (N_below n).
Proof.
  intros H. unfold N_below. apply in_map_iff. exists (N.to_nat h).
  split; [apply N2Nat.id|]. apply in_seq. lia.
Qed.

Lemma forall_below (f : N -> bool) (n : nat) :
  forallb f (N_below n) = true -> forall h, h < N.of_nat n -> f h = true.
Proof. intros A h H. exact (proj1 (forallb_forall _ _) A h (N_below_in n h H)). Qed.

(* [lo, lo+n) *)
Definition N_range (lo : N) (n : nat) : list N := map (fun k => lo + N.of_nat k) (seq 0 n).

Lemma N_range_in lo n h : lo <= h -> h < lo + N.of_nat n -> In h (N_range lo n).
Proof.
  intros H1 H2. unfold N_range. apply in_map_iff. exists (N.to_nat (h - lo)).
  split; [lia|]. apply in_seq. lia.
Qed.

Lemma forall_range (f : N -> bool) lo (n : nat) :
  forallb f (N_range lo n) = true -> forall h, lo <= h -> h < lo + N.of_nat n -> f h = true.
Proof. intros A h H1 H2. exact (proj1 (forallb_forall _ _) A h (N_range_in lo n h H1 H2)). Qed.

Lemma forall_list {A} (f : A -> bool) (l : list A) :
  forallb f l = true -> forall x, In x l -> f x = true.
Proof. intros H x Hx. exact (proj1 (forallb_forall _ _) H x Hx). Qed.

(* ---- binary-splitting sweeps: no big lists, no big nat ---- *)
Open Scope Z_scope.

(* f at base, base+step, ..., base+(2^depth-1)*step *)
Fixpoint allZ (f : Z -> bool) (base step : Z) (depth : nat) : bool :=
  match depth with
  | O => f base
  | S d => allZ f base (2 * step) d && allZ f (base + step) (2 * step) d
  end.

Lemma allZ_spec f depth : forall base step, allZ f base step depth = true ->
  forall k, 0 <= k < 2 ^ Z.of_nat depth -> f (base + k * step) = true.
Proof.
  induction depth as [|d IH]; intros base step H k Hk.
  - cbn [allZ] in H. change (2 ^ Z.of_nat 0) with 1 in Hk.
    replace k with 0 by lia. now rewrite Z.mul_0_l, Z.add_0_r.
  - cbn [allZ] in H. apply andb_prop in H. destruct H as [H0 H1].
    rewrite Nat2Z.inj_succ, Z.pow_succ_r in Hk by lia.
    destruct (Z.even k) eqn:Ev.
    + apply Z.even_spec in Ev. destruct Ev as [q ->].
      replace (base + 2 * q * step) with (base + q * (2 * step)) by ring.
      apply IH; [exact H0 | lia].
    + assert (Od : Z.odd k = true) by (rewrite <- Z.negb_even, Ev; reflexivity).
      apply Z.odd_spec in Od. destruct Od as [q ->].
      replace (base + (2 * q + 1) * step) with (base + step + q * (2 * step)) by ring.
      apply IH; [exact H1 | lia].
Qed.

(* every v in [lo, lo + 2^depth) *)
Lemma allZ_window f lo depth : allZ f lo 1 depth = true ->
  forall v, lo <= v < lo + 2 ^ Z.of_nat depth -> f v = true.
Proof.
  intros H v Hv. replace v with (lo + (v - lo) * 1) by ring.
  apply (allZ_spec f depth lo 1 H). lia.
Qed.

(* every n < 2^depth, n : N *)
Definition allN (f : N -> bool) (depth : nat) : bool := allZ (fun z => f (Z.to_N z)) 0 1 depth.

Lemma allN_spec f depth : allN f depth = true -> forall n, (n < 2 ^ N.of_nat depth)%N -> f n = true.
Proof.
  intros H n Hn. unfold allN in H.
  assert (A := allZ_window _ 0 depth H (Z.of_N n)).
  cbv beta in A. rewrite N2Z.id in A. apply A.
  split; [apply N2Z.is_nonneg|].
  rewrite Z.add_0_l. apply N2Z.inj_lt in Hn. rewrite N2Z.inj_pow in Hn.
  rewrite nat_N_Z in Hn. exact Hn.
Qed.
