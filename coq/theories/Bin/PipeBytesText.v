(* C18 composition, part 3: a source text that is a byte string yields byte-string literals.
   Tokenizer (Text/TokenModel.v): every TString value is cut from the data, or is assembled from slices of the data,
   the escape bytes and the UTF-8 encoding of a scalar value (\u{..}).  Parser (Text/ParseModel.v): an AStr operand is
   a TString token.  Hence  bytes data -> src_ok data  (PipeBytes.v), and the hypothesis on the project reduces to
   "every file is a byte string". *)
From Coq Require Import ZArith NArith List Bool Lia ZifyBool ZifyNat ZifyN.
From Trion Require Import Base.Utf8 Text.Types Asm.CtxModel.
From Trion Require Text.TokenModel Text.ParseModel.
From Trion Require Import Bin.PipeBytesMap Bin.PipeBytes.
Import ListNotations.
Open Scope N_scope.

Definition val_ok (v : token_value) : Prop := match v with TString s => bytes s | _ => True end.
Definition tok_ok (t : token) : Prop := val_ok (t_val t).
Definition it_ok (it : token + token_error) : Prop := match it with inl t => tok_ok t | inr _ => True end.

(* ================================================================ tokenizer *)
Module Tk.
Import TokenModel.

Definition TP {A} (P : A -> Prop) (o : outcome A) : Prop := match o with Ok a => P a | _ => True end.
Lemma TP_bind {A B} (Q : A -> Prop) (P : B -> Prop) o f : TP Q o -> (forall a, Q a -> TP P (f a)) -> TP P (bind o f).
Proof. destruct o; cbn [bind TP]; auto. Qed.
Lemma TP_any {A B} (P : B -> Prop) (o : outcome A) f : (forall a, TP P (f a)) -> TP P (bind o f).
Proof. destruct o; cbn [bind TP]; auto. Qed.

Definition DOK (st : tstate) : Prop := bytes (ts_data st).
Definition R (r : item * tstate) : Prop := it_ok (fst r) /\ DOK (snd r).

Lemma slice_from_b s d n : bytes d -> TP bytes (slice_from s d n).
Proof. intros H. unfold slice_from. destruct (is_char_boundary d n); cbn [TP]; trivial. apply bytes_skipn. exact H. Qed.
Lemma slice_to_b s d n : bytes d -> TP bytes (slice_to s d n).
Proof. intros H. unfold slice_to. destruct (is_char_boundary d n); cbn [TP]; trivial. apply bytes_firstn. exact H. Qed.
Lemma slice_b s d a b : bytes d -> TP bytes (slice s d a b).
Proof.
  intros H. unfold slice. destruct (_ && _); cbn [TP]; trivial. apply bytes_firstn. apply bytes_skipn. exact H.
Qed.

Lemma update_pos_d st d : TP (fun st' => ts_data st' = ts_data st) (update_pos st d).
Proof.
  unfold update_pos. apply TP_any. intros tail. cbn [TP]. destruct (0 <? _); reflexivity.
Qed.
Lemma update_pos_ok st d : DOK st -> TP DOK (update_pos st d).
Proof.
  intros H. pose proof (update_pos_d st d) as K. destruct (update_pos st d); cbn [TP] in *; trivial. unfold DOK. rewrite K. exact H.
Qed.

Lemma fail_R st k : TP R (fail st k).
Proof. unfold fail. cbn [TP]. split; [exact I|constructor]. Qed.

Lemma finish_R st n a v : DOK st -> val_ok v -> TP R (finish st n a v).
Proof.
  intros HD HV. unfold finish.
  apply (TP_bind (fun st1 => True)); [destruct a; cbn [TP]; trivial; apply TP_any; intros; destruct (update_pos st a); exact I|].
  intros st1 _. apply (TP_bind bytes); [apply slice_from_b; exact HD|]. intros rest Hr. cbn [TP]. split; [exact HV|exact Hr].
Qed.

Lemma fail_utf_tail_R st : TP R (fail_utf_tail st).
Proof. apply fail_R. Qed.

Ltac rt :=
  repeat match goal with
  | |- TP R (fail _ _) => apply fail_R
  | |- TP R (fail_utf_tail _) => apply fail_utf_tail_R
  | |- TP R (finish _ _ _ _) => apply finish_R; [assumption|exact I]
  | |- TP R (bind _ _) => apply TP_any; intros
  | |- TP R (Panic _) => exact I
  | |- TP R OutOfFuel => exact I
  | |- TP R (match ?x with _ => _ end) => destruct x
  | |- TP R (if ?b then _ else _) => destruct b
  | |- TP R (let (_, _) := ?x in _) => destruct x
  end.

Lemma do_number_R st : DOK st -> TP R (do_number st).
Proof. intros HD. unfold do_number. rt. Qed.
Lemma do_char_R st : DOK st -> TP R (do_char st).
Proof. intros HD. unfold do_char. rt. Qed.
Lemma do_ident_R st : DOK st -> TP R (do_ident st).
Proof. intros HD. unfold do_ident. rt. Qed.
Lemma fail_str_end_R st : TP R (fail_str_end st).
Proof. unfold fail_str_end. rt. Qed.

Lemma shiftr_lt c k n : c < 2 ^ (k + n) -> N.shiftr c k < 2 ^ n.
Proof.
  intros H. rewrite N.shiftr_div_pow2. apply N.div_lt_upper_bound; [apply N.pow_nonzero; discriminate|].
  rewrite <- N.pow_add_r. exact H.
Qed.
Lemma cont_byte x : N.lor 0x80 (N.land x 0x3F) < 256.
Proof.
  apply lor_lt256; [reflexivity|]. change 0x3F with (N.ones 6). rewrite N.land_ones.
  pose proof (N.mod_lt x (2 ^ 6)). change (2 ^ 6) with 64 in *. lia.
Qed.
Lemma encode_char_bytes c : is_scalar c = true -> bytes (encode_char c).
Proof.
  intros HS. assert (HC : c < 2 ^ 21).
  { unfold is_scalar in HS. change (2 ^ 21) with 2097152. lia. }
  unfold encode_char. destruct (c <? 0x80) eqn:E1; [repeat constructor; lia|].
  destruct (c <? 0x800) eqn:E2.
  { repeat constructor; [|apply cont_byte]. apply lor_lt256; [reflexivity|].
    assert (N.shiftr c 6 < 2 ^ 5); [apply shiftr_lt; change (2 ^ (6 + 5)) with 2048; lia|]. change (2 ^ 5) with 32 in *. lia. }
  destruct (c <? 0x10000) eqn:E3.
  { repeat constructor; try apply cont_byte. apply lor_lt256; [reflexivity|].
    assert (N.shiftr c 12 < 2 ^ 4); [apply shiftr_lt; change (2 ^ (12 + 4)) with 65536; lia|]. change (2 ^ 4) with 16 in *. lia. }
  repeat constructor; try apply cont_byte. apply lor_lt256; [reflexivity|].
  assert (N.shiftr c 18 < 2 ^ 3); [apply shiftr_lt; exact HC|]. change (2 ^ 3) with 8 in *. lia.
Qed.

Lemma str_loop_R fuel : forall st pos escaped, DOK st -> bytes escaped -> TP R (str_loop fuel st pos escaped).
Proof.
  induction fuel as [|f IH]; intros st pos escaped HD HE; cbn [str_loop]; [exact I|].
  apply TP_any. intros tail. destruct (position str_special tail) as [off|]; [|apply fail_str_end_R].
  apply TP_any. intros c. destruct ((c <? 32) || (127 <=? c)); [apply fail_R|].
  destruct (c =? 92).
  - apply (TP_bind (fun p => bytes (fst p))).
    { destruct (0 <? off)%nat; cbn [TP]; [|exact HE]. apply (TP_bind bytes); [apply slice_b; exact HD|].
      intros s Hs. cbn [TP fst]. apply bytes_app; assumption. }
    intros [esc pos'] Hesc. cbn [fst] in Hesc. destruct (_ <? 3)%nat; [apply fail_R|].
    apply TP_any. intros e.
    assert (K : forall b, b < 256 -> bytes (esc ++ [b])) by (intros b Hb; apply bytes_app; [exact Hesc|repeat constructor; exact Hb]).
    destruct (e =? 48); [apply IH; [exact HD|apply K; reflexivity]|].
    destruct (e =? 116); [apply IH; [exact HD|apply K; reflexivity]|].
    destruct (e =? 110); [apply IH; [exact HD|apply K; reflexivity]|].
    destruct (e =? 114); [apply IH; [exact HD|apply K; reflexivity]|].
    destruct ((e =? 34) || (e =? 39) || (e =? 92)) eqn:Eq; [apply IH; [exact HD|apply K; lia]|].
    destruct (e =? 117); [|apply fail_R]. apply TP_any. intros b2. destruct (b2 =? 123); [|apply fail_R].
    apply TP_any. intros t3. destruct (position _ _) as [en|]; [|apply fail_str_end_R].
    apply TP_any. intros hex.
    destruct (u32_from_str_radix hex 16) as [v|]; [|apply fail_R].
    unfold char_from_u32. destruct (is_scalar (Z.to_N v)) eqn:ES; [|apply fail_R].
    apply IH; [exact HD|]. apply bytes_app; [exact Hesc|apply encode_char_bytes; exact ES].
  - destruct (c =? 34); [|exact I].
    apply (TP_bind bytes).
    { destruct (_ && _); cbn [TP]; [|exact HE]. apply (TP_bind bytes); [apply slice_b; exact HD|].
      intros s Hs. cbn [TP]. apply bytes_app; assumption. }
    intros esc Hesc. apply (TP_bind bytes).
    { destruct esc; [apply slice_b; exact HD|exact Hesc]. }
    intros val Hval. apply finish_R; [exact HD|exact Hval].
Qed.

Lemma do_string_R st : DOK st -> TP R (do_string st).
Proof. intros HD. unfold do_string. apply str_loop_R; [exact HD|constructor]. Qed.

Lemma do_next_R st : DOK st -> TP R (do_next st).
Proof.
  intros HD. unfold do_next. destruct (ts_data st) as [|b r] eqn:ED; [exact I|].
  repeat match goal with
  | |- TP R (if ?b then _ else _) => destruct b
  | |- TP R (finish _ _ _ _) => apply finish_R; [assumption|exact I]
  | |- TP R (do_number _) => apply do_number_R; assumption
  | |- TP R (do_char _) => apply do_char_R; assumption
  | |- TP R (do_ident _) => apply do_ident_R; assumption
  | |- TP R (do_string _) => apply do_string_R; assumption
  end.
  rt.
Qed.

Definition sk_ok (r : skip_res * tstate) : Prop :=
  match fst r with SkReturn (Some it) => it_ok it | _ => True end /\ DOK (snd r).

Lemma DOK_clear st : DOK (clear st). Proof. constructor. Qed.

Lemma skip_loop_ok fuel : forall st, DOK st -> TP sk_ok (skip_loop fuel st).
Proof.
  induction fuel as [|f IH]; intros st HD.
  - cbn [skip_loop]. destruct (ts_data st) eqn:E; cbn [TP]; trivial. split; [exact I|exact HD].
  - cbn [skip_loop]. destruct (ts_data st) as [|b0 r0] eqn:E; [split; [exact I|exact HD]|]. rewrite <- E.
    apply (TP_bind DOK).
    { destruct (0 <? _)%nat; cbn [TP]; [|exact HD]. apply TP_any. intros pre.
      apply (TP_bind DOK); [apply update_pos_ok; exact HD|]. intros st' Hst'.
      apply (TP_bind bytes); [apply slice_from_b; exact HD|]. intros rest Hr. exact Hr. }
    intros st1 H1. destruct (starts_with [47; 47] (ts_data st1)).
    { destruct (position is_lf (ts_data st1)) as [ll|].
      - apply (TP_bind bytes); [apply slice_from_b; exact H1|]. intros rest Hr. apply IH. exact Hr.
      - apply (TP_bind DOK); [apply update_pos_ok; exact H1|]. intros st2 H2.
        destruct (ts_utf_err st2); [split; [exact I|apply DOK_clear]|]. apply IH. apply DOK_clear. }
    destruct (starts_with [47; 42] (ts_data st1)); [|split; [exact I|exact H1]].
    destruct (ts_data st1) eqn:E1; [exact I|]. rewrite <- E1.
    destruct (block_scan (ts_data st1)) as [k|].
    + apply TP_any. intros pre. apply (TP_bind DOK); [apply update_pos_ok; exact H1|]. intros st2 H2.
      apply (TP_bind bytes); [apply slice_from_b; exact H1|]. intros rest Hr. apply IH. exact Hr.
    + apply (TP_bind DOK); [apply update_pos_ok; exact H1|]. intros st2 H2. split; [exact I|apply DOK_clear].
Qed.

Definition nt_ok (r : (option item * tstate) * nat) : Prop :=
  match fst (fst r) with Some it => it_ok it | None => True end /\ DOK (snd (fst r)).

Lemma next_token_rem_ok st : DOK st -> TP nt_ok (next_token_rem st).
Proof.
  intros HD. unfold next_token_rem. apply (TP_bind sk_ok); [apply skip_loop_ok; exact HD|].
  intros [sr st1] (H1 & H2). cbn [fst snd] in H1, H2. destruct sr as [r|].
  - cbn [TP]. split; [destruct r; exact H1|exact H2].
  - destruct (ts_data st1) eqn:E.
    + destruct (ts_utf_err st1); cbn [TP]; (split; [exact I|]); unfold DOK; cbn [fst snd ts_data]; rewrite ?E; constructor.
    + rewrite <- E. apply (TP_bind R); [apply do_next_R; exact H2|]. intros [it st2] (K1 & K2).
      destruct it; cbn [TP]; (split; [exact K1 || exact I|]); [exact K2|apply DOK_clear].
Qed.

Lemma unfold_rem_ok fuel : forall st, DOK st ->
  TP (fun r => Forall (fun x => it_ok (fst x)) (fst r)) (unfold_rem fuel st).
Proof.
  induction fuel as [|f IH]; intros st HD; cbn [unfold_rem]; [exact I|].
  apply (TP_bind nt_ok); [apply next_token_rem_ok; exact HD|]. intros [[o st'] rem] (H1 & H2). cbn [fst snd] in H1, H2.
  destruct o as [it|]; [|constructor].
  apply (TP_bind (fun r => Forall (fun x => it_ok (fst x)) (fst r))); [apply IH; exact H2|].
  intros [l st''] Hl. cbn [TP fst]. constructor; [exact H1|exact Hl].
Qed.

Lemma tok_new_ok bs : bytes bs -> DOK (tok_new bs).
Proof. intros H. unfold tok_new, DOK. cbn [ts_data]. apply bytes_firstn. exact H. Qed.

End Tk.

(* ================================================================ parser *)
Module Pr.
Import ParseModel.

Definition SK (s : src) : Prop := Forall tok_ok (queue s) /\ Forall it_ok (pending s).
Definition PP {A} (P : A -> Prop) (x : outcome A * src) : Prop :=
  SK (snd x) /\ match fst x with Ok a => P a | _ => True end.

Lemma PP_bind {A B} (Q : A -> Prop) (P : B -> Prop) x k :
  PP Q x -> (forall a s, Q a -> SK s -> PP P (k a s)) -> PP P (bind x k).
Proof.
  destruct x as [[a|e| |] s]; cbn [bind]; intros (H1 & H2) K; cbn [fst snd] in *; [apply K; assumption| | |]; split; trivial.
Qed.

Lemma src_peek_ok s : SK s -> SK (snd (src_peek s)) /\ match fst (src_peek s) with Some (inl t) => tok_ok t | _ => True end.
Proof.
  intros H. pose proof H as (H1 & H2). unfold src_peek. destruct (queue s) as [|t q] eqn:EQ.
  - destruct (err_slot s); cbn [fst snd]; [split; [exact H|exact I]|].
    destruct (pending s) as [|[t|e] p] eqn:EP; cbn [fst snd].
    + split; [exact H|exact I].
    + inversion H2; subst. split; [|assumption]. split; cbn [queue pending set_queue set_pending]; [|assumption].
      repeat constructor. assumption.
    + inversion H2; subst. split; [|exact I]. split; cbn [queue pending set_err set_pending]; [rewrite EQ; constructor|assumption].
  - cbn [fst snd]. inversion H1; subst. split; [exact H|assumption].
Qed.

Lemma src_next_ok s : SK s -> SK (snd (src_next s)) /\ match fst (src_next s) with Some it => it_ok it | None => True end.
Proof.
  intros H. pose proof H as (H1 & H2). unfold src_next. destruct (queue s) as [|t q] eqn:EQ.
  - destruct (err_slot s); cbn [fst snd]; [split; [split; [cbn [queue set_err]; rewrite EQ; constructor|exact H2]|exact I]|].
    destruct (pending s) as [|x p] eqn:EP; cbn [fst snd].
    + split; [exact H|exact I].
    + inversion H2; subst. split; [|assumption]. split; cbn [queue pending set_pending]; [rewrite EQ; constructor|assumption].
  - cbn [fst snd]. inversion H1; subst. split; [split; cbn [queue pending set_queue]; assumption|assumption].
Qed.

Lemma src_clear_ok s : SK s -> SK (src_clear s).
Proof. intros (H1 & H2). split; [exact H1|constructor]. Qed.

Lemma next_inner_ok s : SK s -> PP tok_ok (next_inner s).
Proof.
  intros H. unfold next_inner. destruct (src_next_ok s H) as (K1 & K2). destruct (src_next s) as [[[t|e]|] s']; cbn [fst snd] in *;
  split; trivial.
Qed.
Lemma next_unwrap_err_ok s : SK s -> PP (fun _ => True) (next_unwrap_err s).
Proof.
  intros H. unfold next_unwrap_err. destruct (src_next_ok s H) as (K1 & K2). destruct (src_next s) as [[[t|e]|] s']; cbn [fst snd] in *;
  split; cbn; trivial.
Qed.
Lemma expect_close_ok c s : SK s -> PP (fun _ => True) (expect_close c s).
Proof.
  intros H. unfold expect_close. apply (PP_bind tok_ok); [apply next_inner_ok; exact H|]. intros e s' _ Hs.
  destruct (c (t_val e)); split; cbn; trivial.
Qed.
Lemma expr_start_ok s : SK s -> SK (snd (expr_start s)).
Proof.
  intros H. unfold expr_start. destruct (src_peek_ok s H) as (K1 & _). destruct (src_peek s) as [[[t|e]|] s']; exact K1.
Qed.

Lemma mk_bin_ok op l r : arg_ok (mk_bin op l r). Proof. destruct op; exact I. Qed.

Lemma err_tail {A} (P : A -> Prop) s (f : token_error -> src -> outcome A * src) :
  SK s -> (forall e s2, SK s2 -> PP P (f e s2)) -> PP P (bind (next_unwrap_err s) f).
Proof. intros H K. apply (PP_bind (fun _ => True)); [apply next_unwrap_err_ok; exact H|]. intros; apply K; assumption. Qed.

Definition all_ok (fuel : nat) : Prop :=
  (forall s, SK s -> PP arg_ok (parse_unary fuel s)) /\
  (forall g es s, SK s -> PP arg_ok (parse_binary fuel g es s)) /\
  (forall g es lhs s, SK s -> arg_ok lhs -> PP arg_ok (binary_loop fuel g es lhs s)) /\
  (forall s, SK s -> PP (Forall arg_ok) (parse_args fuel s)) /\
  (forall args s, SK s -> Forall arg_ok args -> PP (Forall arg_ok) (args_loop fuel args s)).

Lemma parse_ok : forall fuel, all_ok fuel.
Proof.
  induction fuel as [|f (IU & IB & IL & IA & IG)].
  { unfold all_ok. split; [|split; [|split; [|split]]]; intros; (split; [assumption|exact I]). }
  assert (HH : forall g es s, SK s ->
            PP arg_ok (match group_higher g with None => parse_unary f s | Some part => parse_binary f part es s end)).
  { intros g es s H. destruct (group_higher g); [apply IB|apply IU]; exact H. }
  unfold all_ok. split; [|split; [|split; [|split]]].
  - (* parse_unary *)
    intros s H. cbn [parse_unary]. apply (PP_bind tok_ok); [apply next_inner_ok; exact H|]. intros tk s1 Ht H1.
    unfold tok_ok in Ht. destruct (t_val tk) eqn:ET; try (split; [exact H1|exact I]).
    + apply (PP_bind arg_ok); [apply IU; exact H1|]. intros a s2 _ H2. split; [exact H2|exact I].
    + apply (PP_bind arg_ok); [apply IU; exact H1|]. intros a s2 _ H2. split; [exact H2|exact I].
    + destruct (src_peek_ok s1 H1) as (K1 & K2). destruct (src_peek s1) as [[[t|e]|] s2]; cbn [fst snd] in *;
        try (split; [exact K1|exact I]).
      destruct (t_val t); try (split; [exact K1|exact I]).
      apply (PP_bind (Forall arg_ok)); [apply IA; apply (src_next_ok s2 K1)|]. intros args s4 _ H4.
      apply (PP_bind (fun _ => True)); [apply expect_close_ok; exact H4|]. intros _ s5 _ H5. split; [exact H5|exact I].
    + split; [exact H1|exact Ht].
    + pose proof (expr_start_ok s1 H1) as K. destruct (expr_start s1) as [es s2]. cbn [snd] in K.
      apply (PP_bind arg_ok); [apply IB; exact K|]. intros inner s3 Hi H3.
      apply (PP_bind (fun _ => True)); [apply expect_close_ok; exact H3|]. intros _ s4 _ H4. split; [exact H4|exact Hi].
    + pose proof (expr_start_ok s1 H1) as K. destruct (expr_start s1) as [es s2]. cbn [snd] in K.
      apply (PP_bind arg_ok); [apply IB; exact K|]. intros inner s3 Hi H3.
      apply (PP_bind (fun _ => True)); [apply expect_close_ok; exact H3|]. intros _ s4 _ H4. split; [exact H4|exact I].
    + apply (PP_bind (Forall arg_ok)); [apply IA; exact H1|]. intros args s2 _ H2.
      apply (PP_bind (fun _ => True)); [apply expect_close_ok; exact H2|]. intros _ s3 _ H3. split; [exact H3|exact I].
  - (* parse_binary *)
    intros g es s H. cbn [parse_binary]. apply (PP_bind arg_ok); [apply HH; exact H|]. intros lhs s1 Hl H1. apply IL; assumption.
  - (* binary_loop *)
    intros g es lhs s H Hl. cbn [binary_loop]. destruct (src_peek_ok s H) as (K1 & K2).
    destruct (src_peek s) as [[[t|e]|] s1]; cbn [fst snd] in *.
    + destruct (is_op_stop (t_val t)); [split; [exact K1|exact Hl]|].
      destruct (binop_decode (t_val t)) as [op|]; [|split; [exact K1|exact I]].
      destruct (group_cmp (group_of op) g); try (split; [exact K1|exact Hl || exact I]).
      apply (PP_bind arg_ok); [apply HH; apply (src_next_ok s1 K1)|]. intros rhs s3 _ H3. apply IL; [exact H3|apply mk_bin_ok].
    + apply err_tail; [exact K1|]. intros e0 s2 H2. split; [exact H2|exact I].
    + split; [exact K1|exact Hl].
  - (* parse_args *)
    intros s H. cbn [parse_args]. destruct (src_peek_ok s H) as (K1 & K2).
    destruct (src_peek s) as [[[t|e]|] s1]; cbn [fst snd] in *.
    + destruct (is_args_end (t_val t)); [split; [exact K1|constructor]|]. apply IG; [exact K1|constructor].
    + apply err_tail; [exact K1|]. intros e0 s2 H2. split; [exact H2|exact I].
    + split; [exact K1|constructor].
  - (* args_loop *)
    intros args s H Ha. cbn [args_loop]. pose proof (expr_start_ok s H) as K. destruct (expr_start s) as [es s1]. cbn [snd] in K.
    apply (PP_bind arg_ok); [apply IB; exact K|]. intros a s2 Hx H2.
    assert (Ha' : Forall arg_ok (args ++ [a])) by (apply Forall_app; split; [exact Ha|repeat constructor; exact Hx]).
    destruct (src_peek_ok s2 H2) as (K1 & K2). destruct (src_peek s2) as [[[t|e]|] s3]; cbn [fst snd] in *.
    + destruct (t_val t); try (split; [exact K1|exact I || exact Ha']). apply IG; [apply (src_next_ok s3 K1)|exact Ha'].
    + apply err_tail; [exact K1|]. intros e0 s4 H4. split; [exact H4|exact I].
    + split; [exact K1|exact I].
Qed.

Lemma finish_stmt_ok mk line col r : (forall args, Forall arg_ok args -> elem_ok (mkElement line col (mk args))) ->
  PP (Forall arg_ok) r -> PP elem_ok (finish_stmt mk line col r).
Proof.
  intros HM H. unfold finish_stmt. apply (PP_bind (Forall arg_ok)); [exact H|]. intros args s1 Ha H1.
  apply (PP_bind tok_ok); [apply next_inner_ok; exact H1|]. intros _ s2 _ H2. split; [exact H2|apply HM; exact Ha].
Qed.

Lemma do_next_ok fuel first s : SK s -> PP elem_ok (do_next fuel first s).
Proof.
  intros H. unfold do_next. destruct first as [tk|e]; [|split; [exact H|exact I]].
  destruct (t_val tk); try (split; [exact H|exact I]).
  - destruct (src_next_ok s H) as (K1 & K2). destruct (src_next s) as [[[t|e]|] s1]; cbn [fst snd] in *;
      try (split; [exact K1|exact I]).
    destruct (t_val t); try (split; [exact K1|exact I]).
    apply finish_stmt_ok; [intros args Ha; exact Ha|]. apply (parse_ok fuel). exact K1.
  - destruct (src_peek_ok s H) as (K1 & K2). destruct (src_peek s) as [[[t|e]|] s1]; cbn [fst snd] in *.
    + assert (KF : PP elem_ok (finish_stmt (EInstruction s0) (t_line tk) (t_col tk) (parse_args fuel s1))).
      { apply finish_stmt_ok; [intros; exact I|]. apply (parse_ok fuel). exact K1. }
      destruct (t_val t); try exact KF. split; [apply (src_next_ok s1 K1)|exact I].
    + apply err_tail; [exact K1|]. intros e0 s2 H2. split; [exact H2|exact I].
    + split; [exact K1|exact I].
Qed.

Lemma drain_ok fuel : forall s s', SK s -> drain fuel s = Some s' -> SK s'.
Proof.
  induction fuel as [|f IH]; intros s s' H; cbn [drain]; [discriminate|].
  destruct (src_next_ok s H) as (K1 & _). destruct (src_next s) as [[x|] s1]; cbn [snd] in K1.
  - apply IH. exact K1.
  - intros X; inversion X; subst. exact K1.
Qed.

Lemma parser_next_ok fuel s : SK s ->
  SK (snd (parser_next fuel s)) /\ match fst (parser_next fuel s) with PollItem i => item_ok i | _ => True end.
Proof.
  intros H. unfold parser_next. destruct (src_next_ok s H) as (K1 & K2). destruct (src_next s) as [[t|] s1]; cbn [fst snd] in *;
    [|split; [exact K1|exact I]].
  pose proof (do_next_ok fuel t s1 K1) as (D1 & D2). destruct (do_next fuel t s1) as [[e|e| |] s2]; cbn [fst snd] in *;
    try (split; [exact D1|exact D2 || exact I]).
  destruct (drain _ _) as [s3|] eqn:ED; cbn [fst snd]; [|split; [exact D1|exact I]].
  split; [|exact I]. eapply drain_ok; [|exact ED]. apply src_clear_ok. exact D1.
Qed.

Lemma iterate_ok n fuel : forall acc s, Forall item_ok acc -> SK s ->
  match iterate n fuel acc s with Done items _ | RPanic items => Forall item_ok items | ROutOfFuel => True end.
Proof.
  induction n as [|n IH]; intros acc s Ha H; cbn [iterate]; [exact I|].
  destruct (parser_next_ok fuel s H) as (K1 & K2). destruct (parser_next fuel s) as [[|i| |] s']; cbn [fst snd] in *; trivial.
  apply IH; [|exact K1]. apply Forall_app. split; [exact Ha|repeat constructor; exact K2].
Qed.

End Pr.

(* ================================================================ together *)
Theorem bytes_src_ok data : bytes data -> src_ok data.
Proof.
  intros HB. unfold src_ok, parse_source.
  pose proof (Tk.unfold_rem_ok (List.length data + 2) (TokenModel.tok_new data) (Tk.tok_new_ok data HB)) as K.
  destruct (TokenModel.unfold_rem (List.length data + 2) (TokenModel.tok_new data)) as [[toks tst]| |]; cbn [Tk.TP fst] in K;
    try constructor.
  set (s0 := ParseModel.src_of (map fst toks) (TokenModel.ts_line tst) (TokenModel.ts_col tst)).
  assert (HS : Pr.SK s0).
  { split; [constructor|]. unfold s0. cbn [ParseModel.pending ParseModel.src_of]. clear -K.
    induction K; cbn [map]; constructor; assumption. }
  unfold ParseModel.parse_all.
  pose proof (Pr.iterate_ok (List.length (ParseModel.stream s0) + 2) (ParseModel.default_fuel s0) [] s0 (Forall_nil _) HS) as P.
  destruct (ParseModel.iterate _ _ _ _); trivial.
Qed.

Definition fs_bytes (fs : str -> option (list N)) : Prop := forall p d, fs p = Some d -> bytes d.

Lemma fs_bytes_ok fs : fs_bytes fs -> fs_ok fs.
Proof. intros H p d E. split; [exact (H p d E)|apply bytes_src_ok; exact (H p d E)]. Qed.
