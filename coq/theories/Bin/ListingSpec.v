(* C20 oracle: which binaries the property speaks about (`wf_binary`), and what their listing must contain
   (`labels_spec`, `spec_lines`).  Written from the property text, independently of the traversal in
   disassembler.rs: a linear sweep from offset 0, the ARM notion of a direct branch target (address of the
   branch + 4 + offset), and a plain reachability closure.  Executable; no proofs here.

   Offsets are byte offsets into the file; the file is loaded at BASE = 0x20000000. *)
From Coq Require Import ZArith NArith List Bool.
From Trion Require Import Arm.Instr Arm.DecodeModel Arm.EncodeModel Bin.ListingTypes.
Import ListNotations.
Open Scope N_scope.

Definition base : N := 0x20000000.

(* (offset, instruction, length in bytes) *)
Definition item : Type := N * instr * N.
Definition item_off (e : item) : N := fst (fst e).

(* ---- "b decodes from offset 0 as a sequence of valid instructions covering every byte" ---- *)
Fixpoint sweep (fuel : nat) (off : N) (bs : list N) : option (list item) :=
  match fuel with
  | O => None
  | S f =>
      match bs with
      | [] => Some []
      | _ =>
          match dec bs with
          | DecOk n i =>
              if N.ltb 0 n && N.leb n (N.of_nat (length bs)) then
                match sweep f (off + n) (skipn (N.to_nat n) bs) with
                | Some l => Some ((off, i, n) :: l)
                | None => None
                end
              else None
          | _ => None
          end
      end
  end.
Definition instructions (b : list N) : option (list item) := sweep (S (length b)) 0 b.

(* ---- "without PC-relative data references": no ADR, no literal LDR ---- *)
Definition no_pc_data (i : instr) : bool :=
  match i with
  | Adr _ _ => false
  | Ldr _ PC _ => false
  | _ => true
  end.

(* ---- direct branches: B, B<cond>, BL; target offset = offset of the branch + 4 + its offset field ---- *)
Definition direct_target (off : N) (i : instr) : option Z :=
  match i with
  | B _ o | Bl o => Some (Z.of_N off + 4 + o)%Z
  | _ => None
  end.

(* ---- terminal instructions, as trion classifies them: execution does not continue behind them ---- *)
Definition terminal (i : instr) : bool :=
  match i with
  | B Always _ => true
  | Bx _ | Bkpt _ | Udf _ | Udfw _ => true
  | Pop rs => N.testbit rs 15                      (* POP {..., PC} *)
  | Mov _ PC _ | Add _ PC _ _ | Sub _ PC _ _ => true
  | _ => false
  end.

Definition is_boundary (l : list item) (t : Z) : bool :=
  existsb (fun e => Z.eqb (Z.of_N (item_off e)) t) l.

Definition item_at (l : list item) (off : N) : option item :=
  find (fun e => N.eqb (item_off e) off) l.

Definition memN (x : N) (s : list N) : bool := existsb (N.eqb x) s.

(* successors of the instruction at offset `off`: fall-through unless terminal, and the direct target *)
Definition succs (l : list item) (off : N) : list N :=
  match item_at l off with
  | None => []
  | Some (_, i, n) =>
      (if terminal i then [] else [off + n]) ++
      match direct_target off i with
      | Some t => if Z.leb 0 t then [Z.to_N t] else []
      | None => []
      end
  end.

(* work-list closure of {0} under succs *)
Fixpoint explore (fuel : nat) (l : list item) (todo seen : list N) : list N :=
  match fuel with
  | O => seen
  | S f =>
      match todo with
      | [] => seen
      | o :: rest => if memN o seen then explore f l rest seen
                     else explore f l (succs l o ++ rest) (o :: seen)
      end
  end.
Definition reachable (l : list item) : list N := explore (4 * length l + 4) l [0] [].

Definition targets_ok (l : list item) : bool :=
  forallb (fun e => match e with (off, i, _) =>
             match direct_target off i with None => true | Some t => is_boundary l t end end) l.

Definition wf_items (l : list item) : bool :=
  negb (match l with [] => true | _ => false end) &&
  forallb (fun e => match e with (_, i, _) => no_pc_data i end) l &&
  targets_ok l &&
  forallb (fun e => memN (item_off e) (reachable l)) l.

Definition wf_binary (b : list N) : bool :=
  match instructions b with
  | None => false
  | Some l => wf_items l
  end.

(* ---- what the listing must contain ---- *)
(* is the instruction at `off` the target of some direct branch of the file? *)
Definition is_target (l : list item) (off : N) : bool :=
  existsb (fun e => match e with (o, i, _) =>
             match direct_target o i with Some t => Z.eqb t (Z.of_N off) | None => false end end) l.

(* addresses that carry a label: every in-file direct branch target, ascending, each once *)
Definition labels_of_items (l : list item) : list N :=
  flat_map (fun e => if is_target l (item_off e) then [base + item_off e] else []) l.
Definition labels_spec (b : list N) : list N :=
  match instructions b with Some l => labels_of_items l | None => [] end.

(* the non-blank lines after the header: for each instruction in address order, its label definition (iff it
   is a branch target) immediately followed by its text line *)
Definition lines_of_items (l : list item) : list line :=
  flat_map (fun e => match e with (off, i, _) =>
              (if is_target l off then [LLabel (base + off)] else []) ++ [LInstr i (base + off)] end) l.
Definition spec_lines (b : list N) : list line :=
  match instructions b with Some l => LHeader :: lines_of_items l | None => [] end.

(* the instruction lines alone: every instruction of the file, in address order *)
Definition instr_lines_of_items (l : list item) : list line :=
  map (fun e => match e with (off, i, _) => LInstr i (base + off) end) l.

Definition nonblank (ls : list line) : list line :=
  filter (fun x => match x with LBlank => false | _ => true end) ls.
Definition only_instr (ls : list line) : list line :=
  filter (fun x => match x with LInstr _ _ => true | _ => false end) ls.

(* what assembling the listing's statements one after the other yields when each statement is assembled to the
   canonical encoding of its instruction (C19 + C01): the bytes to compare with the binary *)
Definition canonical_image (l : list item) : list N :=
  flat_map (fun e => match e with (_, i, _) => match enc i with EncOk hws => le_bytes hws | EncUnrep => [] end end) l.
