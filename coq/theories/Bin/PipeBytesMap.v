(* C18 composition, part 1: MemoryMap::put keeps "every stored value is a byte" (Bytes), by inspection of the model
   alone (no representation invariant needed: every data vector of the result is assembled with ++ / takeN / dropN
   from data vectors of the old map and the bytes put); the encoder emits bytes. *)
From Coq Require Import ZArith NArith List Bool Lia ZifyBool ZifyNat ZifyN.
From Trion Require Import Mem.MapModel Mem.MapProofs Arm.Instr Arm.EncodeModel.
From Trion Require Import Bin.TriasProofs.
Import ListNotations.
Open Scope N_scope.

Definition byte (b : N) : Prop := b < 256.
Definition bytes (l : list N) : Prop := Forall (fun b => b < 256) l.

Lemma bytes_nil : bytes []. Proof. constructor. Qed.
Lemma bytes_app a b : bytes a -> bytes b -> bytes (a ++ b).
Proof. intros H1 H2. apply Forall_app. split; assumption. Qed.
Lemma bytes_app_l a b : bytes (a ++ b) -> bytes a.
Proof. intros H. apply Forall_app in H. tauto. Qed.
Lemma bytes_app_r a b : bytes (a ++ b) -> bytes b.
Proof. intros H. apply Forall_app in H. tauto. Qed.
Lemma bytes_firstn n l : bytes l -> bytes (firstn n l).
Proof. intros H. rewrite <- (firstn_skipn n l) in H. exact (bytes_app_l _ _ H). Qed.
Lemma bytes_skipn n l : bytes l -> bytes (skipn n l).
Proof. intros H. rewrite <- (firstn_skipn n l) in H. exact (bytes_app_r _ _ H). Qed.
Lemma bytes_takeN k l : bytes l -> bytes (takeN k l).
Proof. intros H. rewrite takeN_firstn. apply bytes_firstn. exact H. Qed.
Lemma bytes_dropN k l : bytes l -> bytes (dropN k l).
Proof. intros H. rewrite dropN_skipn. apply bytes_skipn. exact H. Qed.

(* ---------------------------------------------------------------- lists of segments *)
Lemma Bytes_nil : Bytes []. Proof. intros s []. Qed.
Lemma Bytes_app a b : Bytes a -> Bytes b -> Bytes (a ++ b).
Proof. intros H1 H2 s Hs. apply in_app_or in Hs. destruct Hs; auto. Qed.
Lemma Bytes_cons s m : bytes (sdata s) -> Bytes m -> Bytes (s :: m).
Proof. intros H1 H2 x [<-|Hx]; auto. Qed.
Lemma Bytes_takeN k m : Bytes m -> Bytes (takeN k m).
Proof. intros H s Hs. apply H. rewrite takeN_firstn in Hs. rewrite <- (firstn_skipn (N.to_nat k) m). apply in_or_app. auto. Qed.
Lemma Bytes_dropN k m : Bytes m -> Bytes (dropN k m).
Proof. intros H s Hs. apply H. rewrite dropN_skipn in Hs. rewrite <- (firstn_skipn (N.to_nat k) m). apply in_or_app. auto. Qed.
Lemma Bytes_set_nth m i f l d : Bytes m -> bytes d -> Bytes (set_nth m i (f, l, d)).
Proof. intros H Hd. unfold set_nth. apply Bytes_app; [apply Bytes_takeN; exact H|]. apply Bytes_cons; [exact Hd|apply Bytes_dropN; exact H]. Qed.
Lemma vec_get_bytes m i s x : Bytes m -> vec_get m i s = Ok x -> bytes (sdata x).
Proof.
  intros H. unfold vec_get. destruct (i <? len m); [|discriminate].
  destruct (nth_error m (N.to_nat i)) eqn:E; [|discriminate]. intros X; inversion X; subst. apply H. eapply nth_error_In; eauto.
Qed.
Lemma vec_insert_bytes m i f l d s m' : Bytes m -> bytes d -> vec_insert m i (f, l, d) s = Ok m' -> Bytes m'.
Proof.
  intros H Hd. unfold vec_insert. destruct (i <=? len m); [|discriminate]. intros X; inversion X; subst.
  apply Bytes_app; [apply Bytes_takeN; exact H|]. apply Bytes_cons; [exact Hd|apply Bytes_dropN; exact H].
Qed.
Lemma vec_drain_bytes m a b s1 s2 m' : Bytes m -> vec_drain m a b s1 s2 = Ok m' -> Bytes m'.
Proof.
  intros H. unfold vec_drain. destruct (b <? a); [discriminate|]. destruct (len m <? b); [discriminate|].
  intros X; inversion X; subst. apply Bytes_app; [apply Bytes_takeN|apply Bytes_dropN]; exact H.
Qed.

(* ---------------------------------------------------------------- put *)
Ltac bsolve :=
  repeat match goal with
  | |- bytes (_ ++ _) => apply bytes_app
  | |- bytes (takeN _ _) => apply bytes_takeN
  | |- bytes (dropN _ _) => apply bytes_dropN
  | |- bytes [] => apply bytes_nil
  | |- bytes _ => assumption
  end.

Lemma map_put_bytes dbg m a data : Bytes m -> bytes data ->
  match map_put dbg m a data with MapModel.Ok (m', _) => Bytes m' | _ => True end.
Proof.
  intros HB HD. unfold map_put. destruct data as [|b0 d0]; [exact HB|].
  set (data := b0 :: d0) in *.
  destruct (U32MAX - a <? len data - 1); [exact HB|].
  destruct (u32_add dbg S_put_addr_last a ((len data - 1) mod U32)) as [al| |]; cbn [MapModel.bind]; trivial.
  destruct (locate dbg m (sat_sub1 a) Above) as [r1| |]; cbn [MapModel.bind]; trivial.
  set (i1 := match r1 with Some i => i | None => len m end).
  destruct (locate dbg m (sat_add1 al) Below) as [r2| |]; cbn [MapModel.bind]; trivial.
  match goal with |- context [MapModel.bind ?r _] => destruct r as [il| |]; cbn [MapModel.bind]; trivial end.
  destruct il as [il|].
  2: { destruct (vec_insert m i1 (a, al, data) S_put_insert) as [m'| |] eqn:E; cbn [MapModel.bind]; trivial.
       eapply vec_insert_bytes; eauto. }
  destruct (vec_get m i1 S_put_first_index) as [fs| |] eqn:G1; cbn [MapModel.bind]; trivial.
  pose proof (vec_get_bytes _ _ _ _ HB G1) as Hfd.
  match goal with |- context [MapModel.bind ?r _] =>
    assert (K : match r with MapModel.Ok (fd1, _) => bytes fd1 | _ => True end) end.
  { destruct (a <=? sfirst fs).
    - destruct (slast fs <=? al).
      + destruct (usz_sub dbg S_put_added_replace (len data) (len (sdata fs))); cbn [MapModel.bind]; trivial.
      + destruct (u32_sub dbg S_put_ff_sub (sfirst fs) a); cbn [MapModel.bind]; trivial.
        destruct (usz_sub dbg S_put_num_remove (len data) a0); cbn [MapModel.bind]; trivial.
        destruct (len (sdata fs) <? a1); trivial.
        destruct (usz_sub dbg S_put_added_prepend (len data) a1); cbn [MapModel.bind]; trivial. bsolve.
    - destruct (slast fs <? al).
      + destruct (usz_sub dbg S_put_num_overwrite (len (sdata fs)) (a - sfirst fs)); cbn [MapModel.bind]; trivial.
        destruct (usz_sub dbg S_put_added_append (len data) a0); cbn [MapModel.bind]; trivial. bsolve.
      + destruct (usz_add dbg S_put_off_add (a - sfirst fs) (len data)); cbn [MapModel.bind]; trivial.
        destruct (a0 <? a - sfirst fs); trivial. destruct (len (sdata fs) <? a0); trivial. bsolve. }
  match goal with |- context [MapModel.bind ?r _] => destruct r as [[fd1 added]| |]; cbn [MapModel.bind]; trivial end.
  destruct (i1 <? il).
  2: { apply Bytes_set_nth; assumption. }
  destruct (put_mid_loop dbg (length m) m (i1 + 1) il added) as [added'| |]; cbn [MapModel.bind]; trivial.
  destruct (len m <? il); trivial.
  destruct (vec_get m il S_put_split1_index) as [ls| |] eqn:G2; cbn [MapModel.bind]; trivial.
  pose proof (vec_get_bytes _ _ _ _ HB G2) as Hld.
  match goal with |- context [MapModel.bind ?r _] =>
    assert (K2 : match r with MapModel.Ok (fd2, _, _) => bytes fd2 | _ => True end) end.
  { destruct (al <? slast ls).
    - destruct (usz_sub dbg S_put_overwritten (len (sdata ls)) (slast ls - al)); cbn [MapModel.bind]; trivial.
      destruct (len (sdata ls) <? a0); trivial.
      destruct (usz_sub dbg S_put_added_tail added' a0); cbn [MapModel.bind]; trivial. bsolve.
    - destruct (usz_sub dbg S_put_added_last added' (len (sdata ls))); cbn [MapModel.bind]; trivial. }
  match goal with |- context [MapModel.bind ?r _] => destruct r as [[[fd2 nl] added2]| |]; cbn [MapModel.bind]; trivial end.
  destruct (il =? USZ - 1); trivial.
  match goal with |- context [MapModel.bind ?r _] => destruct r as [m2| |] eqn:E; cbn [MapModel.bind]; trivial end.
  eapply vec_drain_bytes; [|exact E]. apply Bytes_set_nth; assumption.
Qed.

Lemma map_put_bytes_eq dbg m a data m' r : Bytes m -> bytes data -> map_put dbg m a data = MapModel.Ok (m', r) -> Bytes m'.
Proof. intros HB HD E. pose proof (map_put_bytes dbg m a data HB HD) as H. rewrite E in H. exact H. Qed.

(* ---------------------------------------------------------------- the encoder emits halfwords, hence bytes *)
Definition b16 (x : N) : Prop := x < 65536.

Lemma b16_bits x : b16 x <-> (forall k, 16 <= k -> N.testbit x k = false).
Proof.
  unfold b16. change 65536 with (2 ^ 16). split.
  - intros H k Hk. destruct (N.eq_dec x 0) as [->|NZ]; [apply N.bits_0|].
    apply N.bits_above_log2. apply N.log2_lt_pow2 in H; lia.
  - intros H. destruct (N.eq_dec x 0) as [->|NZ]; [reflexivity|].
    apply N.log2_lt_pow2; [lia|]. destruct (N.lt_ge_cases (N.log2 x) 16) as [L|L]; [exact L|].
    pose proof (N.bit_log2 x NZ) as B. rewrite (H _ L) in B. discriminate.
Qed.
Lemma b16_lor a b : b16 a -> b16 b -> b16 (N.lor a b).
Proof. rewrite !b16_bits. intros H1 H2 k Hk. rewrite N.lor_spec, H1, H2 by exact Hk. reflexivity. Qed.
Lemma b16_land_r a c : b16 c -> b16 (N.land a c).
Proof. rewrite !b16_bits. intros H k Hk. rewrite N.land_spec, H by exact Hk. apply andb_false_r. Qed.
Lemma b16_shiftr a k : b16 a -> b16 (N.shiftr a k).
Proof. rewrite !b16_bits. intros H j Hj. rewrite N.shiftr_spec by lia. apply H. lia. Qed.
Lemma b16_shl a k : b16 (shl a k).
Proof. unfold shl. apply b16_land_r. reflexivity. Qed.
Lemma b16_u16z z : b16 (u16z z).
Proof.
  unfold u16z, b16. assert (0 <= Z.land z 65535 < 65536)%Z; [|lia].
  change 65535%Z with (Z.ones 16). rewrite Z.land_ones by lia. apply Z.mod_pos_bound. reflexivity.
Qed.

Ltac b16s :=
  repeat match goal with
  | |- Forall _ [] => constructor
  | |- Forall _ (_ :: _) => constructor
  | |- b16 (N.lor _ _) => apply b16_lor
  | |- b16 (shl _ _) => apply b16_shl
  | |- b16 (u16z _) => apply b16_u16z
  | |- b16 (N.shiftr _ _) => apply b16_shiftr
  | |- b16 (N.land _ _) => apply b16_land_r
  | |- b16 _ => reflexivity
  end.

Lemma enc_b16 i : match enc i with EncOk hws => Forall b16 hws | EncUnrep => True end.
Proof.
  destruct i; cbn [enc]; unfold two_low, three_low, guard, s1, d2;
  repeat match goal with
  | |- context [match ?x with Imm _ => _ | Reg _ => _ end] => destruct x
  | |- context [match ?x with Always => _ | _ => _ end] => destruct x
  end;
  repeat match goal with |- context [if ?b then _ else _] => destruct b end; trivial; b16s.
Qed.

Lemma le16_bytes h : b16 h -> bytes (le16 h).
Proof.
  intros H. unfold le16. constructor; [|constructor; [|constructor]].
  - change 255 with (N.ones 8). rewrite N.land_ones. apply N.mod_lt. discriminate.
  - rewrite N.shiftr_div_pow2. change (2 ^ 8) with 256. unfold b16 in H. apply N.div_lt_upper_bound; lia.
Qed.

Lemma enc_bytes_bytes i cap n bs : enc_bytes i cap = EbOk n bs -> bytes bs.
Proof.
  unfold enc_bytes. pose proof (enc_b16 i) as H. destruct (enc i) as [hws|]; [|discriminate].
  destruct (N.ltb cap _); [discriminate|]. intros X; inversion X; subst. clear X. unfold le_bytes.
  induction H as [|h t Hh Ht IH]; [constructor|]. cbn [flat_map]. apply bytes_app; [apply le16_bytes; exact Hh|exact IH].
Qed.
