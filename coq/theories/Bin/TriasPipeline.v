(* C18 end to end: source text -> UF2 file.
   TriasModel.v models `assemble` of src/bin/assembler.rs on an abstract pipeline result (PipeDiag | PipeOk m).  Here the
   result is the one the library model computes (Asm/CtxModel.pipeline_gen = Context::assemble, close_segment,
   finalize), exactly as the function does: pipeline first, then the post-processing on ctx.output().
   Model part (no proofs): run, trias_assemble, trias_main.  Then the composition theorems. *)
From Coq Require Import ZArith NArith List Bool Lia.
From Trion Require Import Text.Types Mem.MapModel Mem.DictSpec Mem.MapProofs Asm.CtxModel.
From Trion Require Text.ParseModel.
From Trion Require Import Asm.CtxInvTop Asm.CtxNoPanic Asm.CtxFuel2.
From Trion Require Import Asm.LayoutSpec Asm.LayoutWf Asm.LayoutProgFinal Asm.LayoutBytes Asm.LayoutFinal.
From Trion Require Import Bin.TriasModel Bin.ImageSpec Bin.TriasProofs Bin.TriasProofs5 Bin.TriasProofs6.
From Trion Require Import Bin.PipeBytesMap Bin.PipeBytes Bin.PipeBytesText.
Import ListNotations.
Open Scope N_scope.

(* ---------------------------------------------------------------- model *)
(* what ctx.assemble / close_segment / finalize hand to the rest of `assemble` *)
Definition pipe_of (s : status) (regions : list seg) : TriasModel.pipeline :=
  match s with Success => PipeOk regions | Failure | CloseError => PipeDiag end.

Inductive run (A : Type) :=
| LibPanic (p : site)        (* a panic inside the library pipeline: never (C06_never_panics) *)
| LibOutOfFuel               (* the include fuel of the model ran out (C06_no_out_of_fuel) *)
| Ran (a : A).
Arguments LibPanic {A} p. Arguments LibOutOfFuel {A}. Arguments Ran {A} a.

(* pub fn assemble(buff, path) -> bool, with buff = the outcome's file *)
Definition trias_assemble (dbg : bool) (fs : str -> option (list N)) (fuel : nat) (path : str) (text : list N)
  : run TriasModel.outcome :=
  match pipeline_gen dbg fs fuel path text with
  | CtxModel.PPanic p => LibPanic p
  | CtxModel.POutOfFuel => LibOutOfFuel
  | Done s _ regions => Ran (TriasModel.assemble dbg (pipe_of s regions))
  end.

(* main on a file system: argv[1] is read (None: it cannot be opened), assembled, and the effects are those of main_model *)
Definition trias_main (dbg : bool) (fs : str -> option (list N)) (fuel : nat) (argv : list (list N))
  : run (list effect * option msite) :=
  match argv with
  | _ :: fip :: _ =>
      match fs fip with
      | None => Ran (main_model dbg argv None)
      | Some text =>
          match pipeline_gen dbg fs fuel fip text with
          | CtxModel.PPanic p => LibPanic p
          | CtxModel.POutOfFuel => LibOutOfFuel
          | Done s _ regions => Ran (main_model dbg argv (Some (pipe_of s regions)))
          end
      end
  | _ => Ran (main_model dbg argv None)          (* the input is not consulted *)
  end.

(* ---------------------------------------------------------------- (a) the map handed over *)
Theorem pipeline_map dbg fs fuel path text s diags regions : fs_bytes fs -> bytes text ->
  pipeline_gen dbg fs fuel path text = Done s diags regions ->
  exists m, regions = map_iter m /\ Rep m /\ Bytes m.
Proof.
  intros HF HT E. destruct (pipeline_image_rep _ _ _ _ _ _ _ _ E) as (m & HR & ->).
  exists m. split; [reflexivity|]. split; [exact HR|].
  exact (pipeline_bytes dbg fs fuel path text s diags (map_iter m) (fs_bytes_ok fs HF) (bytes_src_ok text HT) E).
Qed.

(* ---------------------------------------------------------------- (b) end to end *)
Lemma assemble_success dbg fs fuel path text diags regions :
  pipeline_gen dbg fs fuel path text = Done Success diags regions ->
  trias_assemble dbg fs fuel path text = Ran (post dbg regions).
Proof. intros E. unfold trias_assemble. rewrite E. reflexivity. Qed.

Theorem end_to_end dbg fs fuel path text regions : fs_bytes fs -> bytes text ->
  pipeline_gen dbg fs fuel path text = Done Success [] regions -> page0_free (abs regions) ->
  (trias_assemble dbg fs fuel path text = Ran (Refused R_empty) /\ abs regions = [])
  \/ (trias_assemble dbg fs fuel path text = Ran (Refused R_checksum_overlap) /\ must_refuse (abs regions) = true)
  \/ (abs regions <> [] /\ must_refuse (abs regions) = false /\
      exists file, trias_assemble dbg fs fuel path text = Ran (POk file) /\ image_ok (abs regions) file = true).
Proof.
  intros HF HT E H0. destruct (pipeline_map _ _ _ _ _ _ _ _ HF HT E) as (m & Em & HR & HB).
  unfold map_iter in Em. subst m. rewrite (assemble_success _ _ _ _ _ _ _ E).
  destruct (post_total dbg regions HR HB (page0_small dbg regions HR HB H0)) as [(P & A)|[(P & A)|(A1 & A2 & _)]].
  - left. rewrite P. auto.
  - right. left. rewrite P. auto.
  - right. right. split; [exact A1|]. split; [exact A2|].
    destruct (post_image dbg regions HR HB H0 A1 A2) as (file & P & I). exists file. rewrite P. auto.
Qed.

Theorem end_to_end_image dbg fs fuel path text regions : fs_bytes fs -> bytes text ->
  pipeline_gen dbg fs fuel path text = Done Success [] regions -> page0_free (abs regions) ->
  abs regions <> [] -> must_refuse (abs regions) = false ->
  exists file, trias_assemble dbg fs fuel path text = Ran (POk file) /\ image_ok (abs regions) file = true.
Proof.
  intros HF HT E H0 A1 A2. destruct (end_to_end _ _ _ _ _ _ HF HT E H0) as [(_ & A)|[(_ & A)|(_ & _ & H)]]; [contradiction|congruence|exact H].
Qed.

(* a program that does not assemble: `assemble` returns false with the diagnostics, whatever the map holds *)
Theorem end_to_end_failure dbg fs fuel path text s diags regions :
  pipeline_gen dbg fs fuel path text = Done s diags regions -> s <> Success ->
  trias_assemble dbg fs fuel path text = Ran (Refused R_diagnostics).
Proof. intros E NS. unfold trias_assemble. rewrite E. destruct s; [contradiction| |]; reflexivity. Qed.

(* the library part never panics (C06_never_panics), in any project *)
Theorem trias_assemble_no_lib_panic dbg fs fuel path text p : trias_assemble dbg fs fuel path text <> LibPanic p.
Proof.
  unfold trias_assemble. pose proof (never_panics dbg fs fuel path text) as NP.
  destruct (pipeline_gen dbg fs fuel path text); try discriminate. intros X; inversion X; subst. exact (NP p eq_refl).
Qed.

(* ... and with C06_no_out_of_fuel: for a project with fewer files than the include fuel `assemble` always runs to its
   end, and (nothing in page 0) without a panic or a fuel outcome of the post-processing either *)
Theorem trias_assemble_total dbg fs fuel path text files : fs_bytes fs -> bytes text ->
  (forall p, fs p <> None -> In p files) -> (length files < fuel)%nat ->
  (forall diags regions, pipeline_gen dbg fs fuel path text = Done Success diags regions -> page0_free (abs regions)) ->
  exists o, trias_assemble dbg fs fuel path text = Ran o /\ (forall s, o <> TriasModel.PPanic s) /\ o <> TriasModel.POutOfFuel.
Proof.
  intros HF HT HC HL H0. unfold trias_assemble.
  pose proof (no_out_of_fuel dbg fs fuel path text files HC HL) as NF. pose proof (never_panics dbg fs fuel path text) as NP.
  destruct (pipeline_gen dbg fs fuel path text) as [p| |s diags regions] eqn:E; [exfalso; exact (NP p eq_refl)|contradiction|].
  eexists. split; [reflexivity|]. destruct s; cbn [pipe_of TriasModel.assemble]; try (split; [intros s|]; discriminate).
  destruct (pipeline_map _ _ _ _ _ _ _ _ HF HT E) as (m & Em & HR & HB). unfold map_iter in Em. subst m.
  exact (post_no_panic_page0 dbg regions HR HB (H0 diags regions eq_refl)).
Qed.

(* main: with an output argument the file written is that image; nothing else touches the output *)
Theorem main_end_to_end dbg fs fuel a0 fip fop rest text regions : fs_bytes fs ->
  fs fip = Some text -> pipeline_gen dbg fs fuel fip text = Done Success [] regions -> page0_free (abs regions) ->
  abs regions <> [] -> must_refuse (abs regions) = false ->
  exists file, trias_main dbg fs fuel (a0 :: fip :: fop :: rest) = Ran ([E_open_create fop; E_write_all file; E_set_len (len file)], None)
    /\ image_ok (abs regions) file = true.
Proof.
  intros HF Ef E H0 A1 A2. pose proof (HF _ _ Ef) as HT.
  destruct (end_to_end_image _ _ _ _ _ _ HF HT E H0 A1 A2) as (file & P & I). exists file. split; [|exact I].
  rewrite (assemble_success _ _ _ _ _ _ _ E) in P. inversion P as [P'].
  unfold trias_main. rewrite Ef, E. cbn [pipe_of main_model TriasModel.assemble]. rewrite P'. reflexivity.
Qed.

Theorem main_e2e_failure_writes_nothing dbg fs fuel argv effs pan :
  trias_main dbg fs fuel argv = Ran (effs, pan) ->
  (forall a0 fip rest text, argv = a0 :: fip :: rest -> fs fip = Some text ->
     forall diags regions, pipeline_gen dbg fs fuel fip text <> Done Success diags regions) ->
  existsb touches_output effs = false.
Proof.
  intros E NS. unfold trias_main in E. destruct argv as [|a0 [|fip rest]].
  - inversion E; subst. reflexivity.
  - inversion E; subst. reflexivity.
  - destruct (fs fip) as [text|] eqn:Ef.
    + specialize (NS a0 fip rest text eq_refl Ef).
      destruct (pipeline_gen dbg fs fuel fip text) as [p| |s diags regions]; try discriminate.
      inversion E as [E']. change effs with (fst (effs, pan)). rewrite <- E'.
      apply (TriasProofs.main_failure_writes_nothing dbg (a0 :: fip :: rest) (Some (pipe_of s regions))). right. eexists. split; [reflexivity|]. intros file.
      destruct s; [exfalso; exact (NS diags regions eq_refl)| |]; discriminate.
    + inversion E; subst. reflexivity.
Qed.

(* ---------------------------------------------------------------- (c) with the reference layout of C05 *)
Theorem reference_image fs path text els placed env : fs_bytes fs -> bytes text ->
  parse_source text = Parsed (map ParseModel.IOk els) None ->
  layout_spec fs (map e_val els) = Some (placed, env) ->
  C05_class fs env els ->
  no_collision fs (map e_val els) ->
  page0_free (image_dict placed) -> image_dict placed <> [] -> must_refuse (image_dict placed) = false ->
  exists file, trias_assemble false fs include_fuel path text = Ran (POk file) /\ image_ok (image_dict placed) file = true.
Proof.
  intros HF HT HP HL HC NC H0 A1 A2.
  pose proof (layout_accepts fs path text els placed env HP HL HC NC) as E. unfold CtxModel.pipeline in E.
  assert (EA : abs (image_of placed) = image_dict placed) by (rewrite image_of_dict; apply (proj1 (runs_spec _))).
  rewrite <- EA in *. exact (end_to_end_image false fs include_fuel path text (image_of placed) HF HT E H0 A1 A2).
Qed.
