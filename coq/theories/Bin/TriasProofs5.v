(* C18 proofs, part 5: from the padded map (part 4) and the items the emitted file stores (Bin/TriasEmit.v) to the
   clauses of the oracle ImageSpec: every byte of P+ present, zero padding, nothing outside touched pages, the
   checksum word; and `small` for the padded map from "the program places nothing in the first 256 addresses". *)
From Coq Require Import Arith NArith List Bool Lia ZifyBool ZifyNat ZifyN.
From Trion Require Import Uf2.WriteTypes Uf2.ReaderSpec Uf2.CrcSpec Uf2.CrcProofs.
From Trion Require Uf2.WriteProofs Mem.MapOccupied Mem.MapLemmas.
From Trion Require Import Mem.MapModel Mem.DictSpec Mem.MapProofs Mem.MapProofs2.
From Trion Require Import Bin.TriasModel Bin.ImageSpec Bin.TriasProofs Bin.TriasProofs2 Bin.TriasProofs3 Bin.TriasProofs4.
From Trion Require Import Bin.TriasEmit.
Import ListNotations.
Open Scope N_scope.

(* ---------------- the items of a segment are the cells of its padded data ---------------- *)
Definition tag (c : N * N) : item := (fst c, snd c, false).

Lemma zip_from_cells : forall l a, zip_from a false l = map tag (cells a l).
Proof. induction l as [|b l IH]; intros a; [reflexivity|]. cbn [zip_from cells map]. now rewrite IH. Qed.

Definition pad_n (s : seg) : N := pad_to 256 (len (sdata s)) - len (sdata s).
Definition pad_cells (s : seg) : dict := cells (sfirst s) (sdata s ++ zeros (pad_n s)).
Definition Dp (m : mmap) : dict := flat_map pad_cells m.

Lemma items_Dp m : flat_map seg_items m = map tag (Dp m).
Proof.
  induction m as [|s r IH]; [reflexivity|]. unfold Dp in *. cbn [flat_map]. rewrite map_app, IH. f_equal.
  unfold seg_items, pad_cells, pad_n, zeros. apply zip_from_cells.
Qed.

(* ---------------- ascending dictionaries: membership is lookup; the image of tagged cells is the lookup ---------- *)
Lemma asc_in_get D : forall lo hi x b, asc lo hi D -> In (x, b) D -> d_get D x = Some b.
Proof.
  induction D as [|(k, v) r IH]; intros lo hi x b A H; [destruct H|].
  cbn [asc fst] in A. destruct A as (A1 & A2 & A3). cbn [d_get]. destruct H as [E|H].
  - inversion E; subst. now rewrite N.eqb_refl.
  - pose proof (asc_in _ _ _ _ A3 H) as B. cbn [fst] in B. destruct (N.eqb_spec k x); [lia|]. eapply IH; eauto.
Qed.

Lemma image_tag D : forall lo hi a, asc lo hi D -> image (map tag D) a = d_get D a.
Proof.
  induction D as [|(k, v) r IH]; intros lo hi a A; [reflexivity|].
  cbn [asc fst] in A. destruct A as (A1 & A2 & A3). cbn [map tag image d_get fst snd]. rewrite (IH _ _ a A3).
  destruct (N.eqb_spec k a) as [->|Ne].
  - rewrite (d_get_low r a (a + 1) hi A3) by lia. reflexivity.
  - destruct (d_get r a); reflexivity.
Qed.

(* ---------------- the end of a padded segment ---------------- *)
Lemma pad_end s : seg_ok s -> sfirst s mod 256 = 0 ->
  slast s + 1 <= sfirst s + pad_to 256 (len (sdata s)) /\ sfirst s + pad_to 256 (len (sdata s)) < slast s + 257
  /\ (sfirst s + pad_to 256 (len (sdata s))) mod 256 = 0 /\ sfirst s + pad_to 256 (len (sdata s)) <= U32
  /\ len (sdata s) <= pad_to 256 (len (sdata s)).
Proof.
  intros (S1 & S2 & S3) Al.
  destruct (WriteProofs.pad_to_facts 256 (len (sdata s)) ltac:(lia)) as (F1 & F2 & F3).
  set (A := pad_to 256 (len (sdata s))) in *.
  assert (M : (sfirst s + A) mod 256 = 0).
  { rewrite N.add_mod by lia. rewrite Al, F3. reflexivity. }
  split; [lia|]. split; [lia|]. split; [exact M|]. split; [|exact F1].
  pose proof (N.div_mod' (sfirst s + A) 256) as E. rewrite M in E. unfold U32 in *.
  assert ((sfirst s + A) / 256 <= 16777216) by lia. lia.
Qed.

Lemma mult_step a b : a mod 256 = 0 -> b mod 256 = 0 -> a < b -> a + 256 <= b.
Proof.
  intros Ha Hb L. pose proof (N.div_mod' a 256) as Ea. pose proof (N.div_mod' b 256) as Eb. rewrite Ha in Ea. rewrite Hb in Eb.
  assert (a / 256 < b / 256) by lia. lia.
Qed.

Definition aligned (m : mmap) : Prop := forall s, In s m -> sfirst s mod 256 = 0.

Lemma len_pad_data s : seg_ok s -> sfirst s mod 256 = 0 -> len (sdata s ++ zeros (pad_n s)) = pad_to 256 (len (sdata s)).
Proof. intros So Al. destruct (pad_end s So Al) as (_ & _ & _ & _ & F). rewrite len_app, len_zeros. unfold pad_n. lia. Qed.

Lemma asc_Dp : forall m lo, Rep m -> aligned m -> (forall s, In s m -> lo <= sfirst s) -> asc lo U32 (Dp m).
Proof.
  induction m as [|s r IH]; intros lo HR Al B; [exact I|].
  pose proof (Rep_head _ _ HR) as So. pose proof (Al s (or_introl eq_refl)) as As.
  destruct (pad_end s So As) as (E1 & E2 & E3 & E4 & E5).
  unfold Dp. cbn [flat_map]. fold (Dp r).
  apply asc_app with (k := sfirst s + pad_to 256 (len (sdata s))).
  - pose proof (B s (or_introl eq_refl)). lia.
  - exact E4.
  - apply asc_cells; [apply B; now left|]. rewrite (len_pad_data s So As). lia.
  - apply IH; [exact (Rep_tail _ _ HR)|intros t Ht; apply Al; now right|].
    intros t Ht. destruct (In_geti _ _ Ht) as (j & Gj). pose proof (Rep_head_lt s r HR _ _ Gj) as G.
    pose proof (Al t (or_intror Ht)) as At.
    destruct (N.le_gt_cases (sfirst s + pad_to 256 (len (sdata s))) (sfirst t)) as [|Gt]; [assumption|exfalso].
    pose proof (mult_step _ _ At E3 Gt). lia.
Qed.

Lemma in_zeros b n : In b (zeros n) -> b = 0.
Proof. unfold zeros. intros H. now apply repeat_spec in H. Qed.

Lemma abs_sub_Dp m c : In c (abs m) -> In c (Dp m).
Proof.
  unfold abs, Dp. rewrite !in_flat_map. intros (s & Hs & Hc). exists s. split; [exact Hs|].
  unfold pad_cells. rewrite MapLemmas.cells_app. apply in_or_app. now left.
Qed.

Lemma in_Dp m x b : Rep m -> aligned m -> In (x, b) (Dp m) ->
  In (x, b) (abs m) \/ (b = 0 /\ exists s, In s m /\ slast s < x /\ x < sfirst s + pad_to 256 (len (sdata s))).
Proof.
  intros HR Al. unfold Dp, abs. rewrite !in_flat_map. intros (s & Hs & Hc).
  unfold pad_cells in Hc. rewrite MapLemmas.cells_app in Hc. apply in_app_or in Hc. destruct Hc as [Hc|Hc].
  - left. exists s. split; assumption.
  - right. pose proof (MapLemmas.Rep_In_ok m s HR Hs) as So. pose proof So as (S1 & S2 & S3).
    destruct (pad_end s So (Al s Hs)) as (E1 & E2 & E3 & E4 & E5).
    split; [eapply in_zeros, cells_in_val; exact Hc|]. exists s. split; [exact Hs|].
    apply cells_in in Hc. rewrite len_zeros in Hc. unfold pad_n in Hc. lia.
Qed.

(* ---------------- CRC values are 32-bit ---------------- *)
Lemma shift1_lt s : shift1 s < 2 ^ 32.
Proof.
  unfold shift1. assert (L : (2 * s) mod 2 ^ 32 < 2 ^ 32) by (apply N.mod_lt; discriminate).
  destruct (N.testbit s 31); [|exact L]. apply lxor_lt_32; [exact L|reflexivity].
Qed.
Lemma spec_crc_from_lt bs : forall s, s < 2 ^ 32 -> spec_crc_from s bs < 2 ^ 32.
Proof.
  unfold spec_crc_from. induction bs as [|b bs IH]; intros s Hs; [exact Hs|]. cbn [fold_left]. apply IH.
  unfold spec_byte, shift8. apply shift1_lt.
Qed.
Lemma crc_word_lt P : crc_word P < 2 ^ 32.
Proof. unfold crc_word, spec_crc. apply spec_crc_from_lt. reflexivity. Qed.

(* ---------------- the four image clauses ---------------- *)
Section Clauses.
  Variables (P : dict) (m1 m2 : mmap).
  Hypothesis (R1 : Rep m1) (A1 : abs m1 = P_plus P) (R2 : Rep m2) (F2 : PFin (P_plus P) (abs m2)).
  Let X := P_plus P.
  Let its := flat_map seg_items m2.

  Let Al : aligned m2 := pfin_aligned X m2 R2 F2.
  Let AscX : asc 0 U32 X.
  Proof. subst X. rewrite <- A1. apply (asc_abs m1 0 R1). intros; lia. Qed.
  Let AscD : asc 0 U32 (abs m2).
  Proof. apply (asc_abs m2 0 R2). intros; lia. Qed.
  Let AscP : asc 0 U32 (Dp m2).
  Proof. apply (asc_Dp m2 0 R2 Al). intros; lia. Qed.

  Lemma image_its a : image its a = d_get (Dp m2) a.
  Proof. unfold its. rewrite items_Dp. apply (image_tag _ 0 U32 a AscP). Qed.

  (* a byte of X is stored at its address *)
  Lemma image_keep x v : d_get X x = Some v -> image its x = Some v.
  Proof.
    intros H. rewrite image_its. apply (asc_in_get _ 0 U32 x v AscP). apply abs_sub_Dp. apply d_get_in.
    rewrite (pf_keep _ _ F2 x) by (fold X; congruence). exact H.
  Qed.

  Lemma has_all_ok : has_all_bytes X its = true.
  Proof.
    unfold has_all_bytes. apply forallb_forall. intros (x, v) Hc. cbn [fst snd].
    rewrite (image_keep x v (asc_in_get _ 0 U32 x v AscX Hc)). apply N.eqb_refl.
  Qed.

  (* an occupied address of the padded map: a byte of X, or a zero on a page X touches *)
  Lemma cell_m2 x b : In (x, b) (abs m2) -> (occupied X x = true \/ b = 0) /\ page_touched X x = true.
  Proof.
    intros H. pose proof (asc_in_get _ 0 U32 x b AscD H) as G. unfold occupied.
    destruct (d_get X x) as [v|] eqn:E.
    - split; [now left|]. apply (page_touched_at X x v x E eq_refl).
    - destruct (pf_new _ _ F2 x E ltac:(congruence)) as (Z & T). split; [right; congruence|exact T].
  Qed.

  Lemma padding_ok : padding_zero X its = true.
  Proof.
    unfold padding_zero. apply forallb_forall. intros ((a, b), f) Hi. unfold its in Hi. rewrite items_Dp in Hi.
    apply in_map_iff in Hi. destruct Hi as ((x, y) & E & Hc). unfold tag in E. cbn [fst snd] in E. inversion E; subst x y f.
    destruct (in_Dp m2 a b R2 Al Hc) as [H|(Z & _)].
    - destruct (cell_m2 a b H) as ([O|Z] & _); [rewrite O; reflexivity|subst b; apply orb_true_r].
    - subst b. apply orb_true_r.
  Qed.

  Lemma inside_ok : inside_pages X its = true.
  Proof.
    unfold inside_pages. apply forallb_forall. intros ((a, b), f) Hi. unfold its in Hi. rewrite items_Dp in Hi.
    apply in_map_iff in Hi. destruct Hi as ((x, y) & E & Hc). unfold tag in E. cbn [fst snd] in E. inversion E; subst x y f.
    destruct (in_Dp m2 a b R2 Al Hc) as [H|(Z & s & Hs & L1 & L2)].
    - exact (proj2 (cell_m2 a b H)).
    - pose proof (MapLemmas.Rep_In_ok m2 s R2 Hs) as So. pose proof So as (S1 & S2 & S3).
      destruct (pad_end s So (Al s Hs)) as (E1 & E2 & E3 & E4 & E5).
      destruct (abs_mem m2 s (slast s) R2 Hs S1 ltac:(lia)) as (v & Hv).
      pose proof (proj2 (cell_m2 _ _ Hv)) as T. unfold page_touched in T |- *.
      apply existsb_exists in T. destruct T as (c & Hc' & Sp). apply existsb_exists. exists c. split; [exact Hc'|].
      unfold same_page in *. rewrite N.eqb_eq in Sp. rewrite Sp. apply N.eqb_eq.
      rewrite !N.shiftr_div_pow2. change (2 ^ 8) with 256.
      set (k := sfirst s + pad_to 256 (len (sdata s))) in *.
      pose proof (N.div_mod' k 256) as Ek. rewrite E3 in Ek.
      assert (Q : 1 <= k / 256) by lia.
      transitivity (k / 256 - 1).
      + symmetry. apply (N.div_unique (slast s) 256 (k / 256 - 1) (slast s - 256 * (k / 256 - 1))); lia.
      + apply (N.div_unique a 256 (k / 256 - 1) (a - 256 * (k / 256 - 1))); lia.
  Qed.

  Lemma checksum_clause : ImageSpec.checksum_ok P its = true.
  Proof.
    unfold ImageSpec.checksum_ok. destruct (boot_occupied P) eqn:B; [|reflexivity].
    assert (XE : X = d_write P CRC_AT (word_bytes (crc_word P))) by (unfold X, P_plus; now rewrite B).
    assert (G : forall i, i < 4 -> image its (CRC_AT + i) = Some (nth (N.to_nat i) (word_bytes (crc_word P)) 0)).
    { intros i Hi. apply image_keep. rewrite XE. rewrite d_get_d_write_in by (change (len (word_bytes (crc_word P))) with 4; lia).
      do 2 f_equal. lia. }
    unfold image_word. replace CRC_AT with (CRC_AT + 0) at 1 by lia.
    rewrite (G 0), (G 1), (G 2), (G 3) by lia. change (N.to_nat 0) with 0%nat. change (N.to_nat 1) with 1%nat. change (N.to_nat 2) with 2%nat.
    change (N.to_nat 3) with 3%nat. cbn [nth word_bytes].
    apply N.eqb_eq. pose proof (crc_word_lt P) as L. set (w := crc_word P) in *. clearbody w.
    change (2 ^ 32) with 4294967296 in L.
    pose proof (N.div_mod' w 256) as D0. pose proof (N.div_mod' (w / 256) 256) as D1.
    pose proof (N.div_mod' (w / 65536) 256) as D2.
    assert (Q1 : w / 65536 = w / 256 / 256) by (rewrite N.div_div by lia; reflexivity).
    assert (Q2 : w / 16777216 = w / 65536 / 256) by (rewrite N.div_div by lia; reflexivity).
    assert (Q3 : w / 16777216 < 256) by (apply N.div_lt_upper_bound; lia).
    rewrite (N.mod_small (w / 16777216) 256 Q3). rewrite Q2 in *. rewrite Q1 in *. lia.
  Qed.
End Clauses.

(* ---------------- `small` for the padded map ---------------- *)
(* the program places nothing in the first 256 addresses (page 0; on the RP2040 this is boot ROM) *)
Definition page0_free (P : dict) : Prop := forall a, a < 256 -> d_get P a = None.

Lemma P_plus_low P : page0_free P -> forall c, In c (P_plus P) -> 256 <= fst c.
Proof.
  intros H (x, v) Hc. cbn [fst]. unfold P_plus in Hc. destruct (boot_occupied P).
  - assert (K : MapOccupied.has_key (d_write P CRC_AT (word_bytes (crc_word P))) x) by (exists v; exact Hc).
    apply MapOccupied.d_write_keys in K. destruct K as [(y & Hy)|K]; [|unfold CRC_AT in K; lia].
    destruct (N.lt_ge_cases x 256) as [L|]; [|assumption]. apply in_d_get in Hy. now rewrite (H x L) in Hy.
  - destruct (N.lt_ge_cases x 256) as [L|]; [|assumption]. apply in_d_get in Hc. now rewrite (H x L) in Hc.
Qed.

Lemma pfin_small X m2 : Rep m2 -> PFin X (abs m2) -> (forall c, In c X -> 256 <= fst c) -> small m2.
Proof.
  intros HR F Low. unfold small. destruct m2 as [|s r]; [vm_compute; discriminate|].
  pose proof (abs_bound r s HR) as B. pose proof (Rep_head _ _ HR) as (S1 & S2 & S3).
  assert (O : d_get (abs (s :: r)) (sfirst s) <> None) by (apply (seg_occ (s :: r) s); [exact HR|now left|lia|exact S1]).
  assert (T : page_touched X (sfirst s) = true).
  { destruct (d_get X (sfirst s)) as [v|] eqn:E; [apply (page_touched_at X _ v _ E eq_refl)|].
    exact (proj2 (pf_new _ _ F _ E O)). }
  unfold page_touched in T. apply existsb_exists in T. destruct T as (c & Hc & Sp). pose proof (Low c Hc) as Lc.
  unfold same_page in Sp. rewrite N.eqb_eq, !N.shiftr_div_pow2 in Sp. change (2 ^ 8) with 256 in Sp.
  assert (1 <= fst c / 256) by (apply N.div_le_lower_bound; lia).
  assert (256 <= sfirst s).
  { pose proof (N.div_mod' (sfirst s) 256). lia. }
  unfold WriteModel.u32_max, U32 in *. lia.
Qed.
