(* Model of src/bin/disassembler.rs (`tridas`), `main` after the input file has been read into `buff`,
   together with Instruction::get_branch / get_returns (src/arm6m/asm.rs).  No proofs here.

   Representation.  BTreeSet<u32> = strictly ascending list of N; BTreeMap<u32,(Instruction,u32)> = list of
   (key, (instr, after)) strictly ascending in the key.  Only what the program observes is modelled:
   `iter().next()` (smallest element), insert, remove, contains_key / contains, in-order iteration.

   Machine integers.  u32 operations are written with their wrap: `u32 x` is `x mod 2^32`.  tridas is built
   with the release profile (no overflow checks), so `BASE + pos as u32`, `addr + result.0 as u32` wrap and
   `buff.len() as u32` truncates; none of them can happen for a file shorter than 0xE0000000 bytes
   (TridasProofs.fits).  `start - BASE` is guarded by `start >= BASE` in the source.
   Panics.  The only reachable panic after the file is read is `Instruction::decode(..).unwrap()` (decode
   returned Err, or decode itself panicked); `&buff[pos..]` is in range because `pos < buff.len()`.
   Loops.  The outer `while let` takes explicit fuel (`OutOfFuel`); the drivers use `fuel_for buff` =
   2*len+2.  Argument for sufficiency: a query is inserted only when its source address is decoded for the
   first time (`!instrs.contains_key(&addr)`), the source addresses are even offsets below len, so at most
   len/2+1 queries (with the initial one) are ever inserted, each outer iteration removes one, plus the last
   iteration that sees the empty set: len/2+3 <= 2*len+2 for len >= 1, and 2 iterations for len = 0.
   (Proved for well-formed binaries as part of C20_total.)  The inner `while pos < buff.len()` advances `pos`
   by the decoded length (2 or 4); its fuel is len+1 and is only exhausted if a decoded length were 0. *)
From Coq Require Import ZArith NArith List Bool.
From Coq Require String.
Import String.StringSyntax.
From Trion Require Import Arm.Instr Arm.DecodeModel Arm.DisplayModel Bin.ListingTypes.
Import ListNotations.
Open Scope N_scope.

Definition BASE : N := 0x20000000.
Definition u32 (x : N) : N := N.land x 0xFFFFFFFF.

(* ---------- Instruction::get_branch / get_returns ---------- *)
Definition get_branch (i : instr) (addr : N) : option N :=
  if N.eqb (N.land addr 1) 0 then
    match i with
    | B _ off => if Z.eqb (Z.land off 1) 0 then Some (wadd (wadd addr 4) off) else None
    | Bl off => if Z.eqb (Z.land off 1) 0 then Some (wadd (wadd addr 4) off) else None
    | _ => None
    end
  else None.

Definition get_returns (i : instr) : bool :=
  match i with
  | Add _ PC _ _ => false
  | B c _ => negb (cond_eqb c Always)
  | Bx _ => false
  | Bkpt _ => false
  | Mov _ PC _ => false
  | Pop rs => negb (N.testbit rs 15)
  | Sub _ PC _ _ => false
  | Udf _ => false
  | Udfw _ => false
  | _ => true
  end.

(* ---------- BTreeSet<u32> ---------- *)
Fixpoint set_insert (x : N) (s : list N) : list N :=
  match s with
  | [] => [x]
  | y :: t => if N.ltb x y then x :: s else if N.eqb x y then s else y :: set_insert x t
  end.
Fixpoint set_remove (x : N) (s : list N) : list N :=
  match s with
  | [] => []
  | y :: t => if N.eqb x y then t else if N.ltb x y then s else y :: set_remove x t
  end.
Fixpoint set_mem (x : N) (s : list N) : bool :=
  match s with
  | [] => false
  | y :: t => N.eqb x y || set_mem x t
  end.

(* ---------- BTreeMap<u32, (Instruction, u32)> ---------- *)
Definition entry : Type := N * (instr * N).
Fixpoint map_insert (k : N) (v : instr * N) (m : list entry) : list entry :=
  match m with
  | [] => [(k, v)]
  | (k', v') :: t => if N.ltb k k' then (k, v) :: m else if N.eqb k k' then (k, v) :: t else (k', v') :: map_insert k v t
  end.
Fixpoint map_mem (k : N) (m : list entry) : bool :=
  match m with
  | [] => false
  | (k', _) :: t => N.eqb k k' || map_mem k t
  end.

Record state := mkState { queries : list N; instrs : list entry; branches : list N }.

Inductive inner_result := IOk (st : state) | IPanic | IOutOfFuel.

(* one pass of `while pos < buff.len() { ... }` *)
Fixpoint inner (fuel : nat) (buff : list N) (pos : N) (st : state) : inner_result :=
  match fuel with
  | O => IOutOfFuel
  | S f =>
      if N.ltb pos (N.of_nat (length buff)) then
        match dec (skipn (N.to_nat pos) buff) with            (* Instruction::decode(&buff[pos..]).unwrap() *)
        | DecOk n i =>
            let addr := u32 (BASE + u32 pos) in                (* BASE + pos as u32 *)
            let q1 := set_remove addr (queries st) in
            let '(q2, br2) :=
              match get_branch i addr with
              | Some dst =>
                  ((if negb (N.eqb dst addr) && negb (map_mem addr (instrs st)) then set_insert dst q1 else q1),
                   set_insert dst (branches st))
              | None => (q1, branches st)
              end in
            let last := negb (get_returns i) in
            let st' := mkState q2 (map_insert addr (i, u32 (addr + u32 n)) (instrs st)) br2 in
            if last then IOk st' else inner f buff (pos + n) st'
        | _ => IPanic
        end
      else IOk st
  end.

Inductive outer_result := ODone (st : state) | OPanic | OOutOfFuel.

(* `while let Some(&start) = queries.iter().next() { ... }` *)
Fixpoint outer (fuel : nat) (buff : list N) (st : state) : outer_result :=
  match fuel with
  | O => OOutOfFuel
  | S f =>
      match queries st with
      | [] => ODone st
      | start :: _ =>
          let st1 := mkState (set_remove start (queries st)) (instrs st) (branches st) in
          let len32 := u32 (N.of_nat (length buff)) in         (* buff.len() as u32 *)
          if N.leb BASE start && N.ltb (start - BASE) len32 then
            match inner (S (length buff)) buff (start - BASE) st1 with
            | IOk st2 => outer f buff st2
            | IPanic => OPanic
            | IOutOfFuel => OOutOfFuel
            end
          else outer f buff st1
      end
  end.

Definition init_state : state := mkState [BASE] [] [].
Definition fuel_for (buff : list N) : nat := 2 * length buff + 2.
Definition traverse (buff : list N) : outer_result := outer (fuel_for buff) buff init_state.

(* ---------- the listing ---------- *)
(* the `for (addr, (instr, after)) in instrs` loop; `space`, `last` are its two mutable variables *)
Fixpoint print_loop (m : list entry) (br : list N) (space : bool) (last : N) : list line :=
  match m with
  | [] => []
  | (addr, (i, after)) :: t =>
      let l1 := if negb (N.eqb addr last) then [LBlank] else [] in
      let space1 := if negb (N.eqb addr last) then false else space in
      let l2 := if set_mem addr br then (if space1 then [LBlank] else []) ++ [LLabel addr] else [] in
      l1 ++ l2 ++ [LInstr i addr] ++ print_loop t br (negb (get_returns i)) after
  end.

Definition listing_lines (st : state) : list line :=
  LHeader :: print_loop (instrs st) (branches st) false BASE.

(* each println! *)
Definition render_line (l : line) : list N :=
  match l with
  | LHeader => $".addr 0x" ++ hex8 BASE ++ $";" ++ [10]
  | LBlank => [10]
  | LLabel a => $"l_" ++ hex8 a ++ $":" ++ [10]
  | LInstr i a => [9] ++ display i a ++ [10]
  end.
Definition render (ls : list line) : list N := flat_map render_line ls.

Inductive outcome := Listing (stdout : list N) | Panic | OutOfFuel.

Definition tridas_lines (buff : list N) : option (list line) :=
  match traverse buff with ODone st => Some (listing_lines st) | _ => None end.

Definition tridas (buff : list N) : outcome :=
  match traverse buff with
  | ODone st => Listing (render (listing_lines st))
  | OPanic => Panic
  | OOutOfFuel => OutOfFuel
  end.
