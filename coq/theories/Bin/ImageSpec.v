(* C18 oracle: what the file written by `trias` must be, for a program image P.
   Independent of the models of assembler.rs / the memory map / the UF2 writer / the CRC table: it uses
     Mem/DictSpec.v   the program image as an address -> byte dictionary (ascending association list),
     Uf2/ReaderSpec.v the independent UF2 reader (blocks, fields, items = what a loader stores),
     Uf2/CrcSpec.v    CRC-32/MPEG-2 as the bit-serial register.
   No proofs here; everything is executable.

   P   = the bytes the program places (the output regions of the assembly pipeline).
   P+  = P, plus the four bytes of the checksum word at 0x100000FC when 0x10000000 is in dom P.
   A program must be refused when 0x10000000 is in dom P and P has a byte in 0x100000FC..0x100000FF
   (the checksum would overwrite program data).  [Reading of the property text: the refusal belongs to
   the "when the program occupies 0x10000000" clause; without a byte at 0x10000000 no checksum is
   inserted and bytes at 0x100000FC.. are ordinary data.]
   An empty P is not "a program that assembles to an image": no file is to be written. *)
From Coq Require Import NArith List Bool.
From Trion Require Import Mem.DictSpec Uf2.ReaderSpec Uf2.CrcSpec.
Import ListNotations.
Open Scope N_scope.

Definition BOOT : N := 0x10000000.
Definition CRC_AT : N := 0x100000FC.
Definition FAMILY : N := 0xE48BFF56.
Definition PAGE : N := 256.

Definition occupied (P : dict) (a : N) : bool := match d_get P a with Some _ => true | None => false end.

(* ---- checksum ---- *)
Definition boot_occupied (P : dict) : bool := occupied P BOOT.
(* P[0x10000000 .. +252), absent bytes read as zero *)
Definition boot_bytes (P : dict) : list N :=
  map (fun i => match d_get P (BOOT + N.of_nat i) with Some b => b | None => 0 end) (seq 0 252).
Definition crc_word (P : dict) : N := spec_crc (boot_bytes P).
Definition crc_conflict (P : dict) : bool :=
  occupied P CRC_AT || occupied P (CRC_AT + 1) || occupied P (CRC_AT + 2) || occupied P (CRC_AT + 3).
Definition must_refuse (P : dict) : bool := boot_occupied P && crc_conflict P.

(* the four bytes of a 32-bit word, least significant first *)
Definition word_bytes (x : N) : list N := [x mod 256; (x / 256) mod 256; (x / 65536) mod 256; (x / 16777216) mod 256].

Definition P_plus (P : dict) : dict :=
  if boot_occupied P then d_write P CRC_AT (word_bytes (crc_word P)) else P.

(* ---- the file, as the independent reader sees it ---- *)
(* what a loader stores, in file order (ReaderSpec.block_items), and the image it ends up with (ReaderSpec.image) *)
Definition file_items (rs : list rblock) : list item := flat_map block_items rs.

(* a / 256 = b / 256 *)
Definition same_page (a b : N) : bool := N.shiftr a 8 =? N.shiftr b 8.
Definition page_touched (X : dict) (a : N) : bool := existsb (fun c => same_page (fst c) a) X.

(* every byte of P+ is in the image at its address *)
Definition has_all_bytes (X : dict) (its : list item) : bool :=
  forallb (fun c => match image its (fst c) with Some v => v =? snd c | None => false end) X.
(* every byte the file stores outside dom P+ is zero *)
Definition padding_zero (X : dict) (its : list item) : bool :=
  forallb (fun it => let '(a, b, _) := it in occupied X a || (b =? 0)) its.
(* the file stores nothing outside the 256-byte pages P+ touches *)
Definition inside_pages (X : dict) (its : list item) : bool :=
  forallb (fun it => let '(a, _, _) := it in page_touched X a) its.

(* every block: payload 256 at a 256-aligned address inside the 32-bit address space,
   family-id flag set, RP2040 family id, main-flash (flag bit 0 clear), no other flag *)
Definition block_shape (r : rblock) : bool :=
  (rb_psize r =? 256) && (rb_target r mod 256 =? 0) && (rb_target r + 256 <=? SPACE)
  && N.testbit (rb_flags r) 13 && (rb_info r =? FAMILY) && (N.land (rb_flags r) 0xFFFFDFFF =? 0).
Definition blocks_shaped (rs : list rblock) : bool := forallb block_shape rs.

(* numbering 0 .. n-1, total n *)
Definition numbered (rs : list rblock) : bool :=
  all_from 0 (fun k r => (rb_no r =? k) && (rb_total r =? N.of_nat (length rs))) rs.

(* no two blocks on the same page *)
Fixpoint pages_distinct (rs : list rblock) : bool :=
  match rs with
  | [] => true
  | r :: t => negb (existsb (fun r' => same_page (rb_target r) (rb_target r')) t) && pages_distinct t
  end.

(* the word at 0x100000FC, read little-endian from the image, is the CRC of the 252 bytes before it *)
Definition image_word (its : list item) (a : N) : option N :=
  match image its a, image its (a + 1), image its (a + 2), image its (a + 3) with
  | Some b0, Some b1, Some b2, Some b3 => Some (b0 + 256 * b1 + 65536 * b2 + 16777216 * b3)
  | _, _, _, _ => None
  end.
Definition checksum_ok (P : dict) (its : list item) : bool :=
  if boot_occupied P then
    match image_word its CRC_AT with Some w => w =? crc_word P | None => false end
  else true.

(* ---- the property for a program that assembles to the non-empty image P and must not be refused ---- *)
Definition image_ok (P : dict) (file : list N) : bool :=
  match read_uf2 file with
  | None => false
  | Some rs =>
    let its := file_items rs in
    let X := P_plus P in
    blocks_shaped rs && numbered rs && pages_distinct rs && checksum_ok P its
    && has_all_bytes X its && padding_zero X its && inside_pages X its
  end.

(* which clause fails first (for the report); None = image_ok *)
Inductive clause := Cl_block_malformed | Cl_numbering | Cl_page_emitted_twice | Cl_checksum_wrong
                  | Cl_image_missing_byte | Cl_padding_not_zero | Cl_outside_touched_pages.
Definition first_failure (P : dict) (file : list N) : option clause :=
  match read_uf2 file with
  | None => Some Cl_block_malformed
  | Some rs =>
    let its := file_items rs in
    let X := P_plus P in
    if negb (blocks_shaped rs) then Some Cl_block_malformed
    else if negb (numbered rs) then Some Cl_numbering
    else if negb (pages_distinct rs) then Some Cl_page_emitted_twice
    else if negb (checksum_ok P its) then Some Cl_checksum_wrong
    else if negb (has_all_bytes X its) then Some Cl_image_missing_byte
    else if negb (padding_zero X its) then Some Cl_padding_not_zero
    else if negb (inside_pages X its) then Some Cl_outside_touched_pages
    else None
  end.

(* ---- what must happen to the output file ---- *)
(* a file is to be written exactly when the program assembled, its image is non-empty, and it need not be refused *)
Definition file_expected (assembled : bool) (P : dict) : bool :=
  assembled && negb (match P with [] => true | _ => false end) && negb (must_refuse P).
