(* C18 proofs, part 1: the decision of `main`, and the boot-sector checksum step.
   Facts about the memory map enter parts 1-3 as the two named hypotheses Put_spec and IterRange_spec (the statements
   C15_put and C15_iter_range, verbatim); Bin/TriasProofs4.v discharges both from the C15 proofs. *)
From Coq Require Import Arith NArith List Bool Lia ZifyBool ZifyNat ZifyN.
From Trion Require Import Mem.MapModel Mem.DictSpec Mem.MapProofs Mem.MapProofs2.
From Trion Require Import Uf2.CrcModel Uf2.CrcSpec Uf2.CrcProofs.
From Trion Require Import Bin.TriasModel Bin.ImageSpec.
Import ListNotations.
Open Scope N_scope.

(* ---------------- hypotheses about MapModel (discharged in TriasProofs4.v: put_spec_holds, iter_range_spec_holds) ---------------- *)
Definition Put_spec (dbg : bool) : Prop := forall m a data, Rep m -> a < U32 -> a + len data <= SPACE ->
  exists m' n, map_put dbg m a data = Ok (m', Some n) /\ Rep m' /\ d_put (abs m) a data = (abs m', Some n).
Definition IterRange_spec (dbg : bool) : Prop := forall m f l, Rep m -> f <= l ->
  map_iter_range dbg m f l = Ok (d_iter_range (abs m) f l).

(* every stored value is a byte (the map holds u8) *)
Definition Bytes (m : mmap) : Prop := forall s, In s m -> Forall (fun b => b < 256) (sdata s).

(* ---------------- main: the output file is touched only after a successful assemble ---------------- *)
Lemma main_touches_only_on_success dbg argv input effs pan :
  main_model dbg argv input = (effs, pan) -> existsb touches_output effs = true ->
  exists a0 fip fop rest p file,
    argv = a0 :: fip :: fop :: rest /\ input = Some p /\ assemble dbg p = POk file /\ pan = None /\
    effs = [E_open_create fop; E_write_all file; E_set_len (len file)].
Proof.
  unfold main_model. intros H T.
  destruct argv as [|a0 [|fip rest]]; [inversion H; subst; discriminate| inversion H; subst; discriminate|].
  destruct input as [p|]; [|inversion H; subst; discriminate].
  destruct (assemble dbg p) as [file|r|s|] eqn:A; try (inversion H; subst; discriminate).
  destruct rest as [|fop rest']; [inversion H; subst; discriminate|].
  inversion H; subst. exists a0, fip, fop, rest', p, file. repeat split; try reflexivity; assumption.
Qed.

Lemma main_failure_writes_nothing dbg argv input :
  (input = None \/ exists p, input = Some p /\ forall file, assemble dbg p <> POk file) ->
  existsb touches_output (fst (main_model dbg argv input)) = false.
Proof.
  intros H. destruct (existsb touches_output (fst (main_model dbg argv input))) eqn:E; [|reflexivity].
  destruct (main_model dbg argv input) as [effs pan] eqn:M. cbn [fst] in E.
  destruct (main_touches_only_on_success _ _ _ _ _ M E) as (a0 & fip & fop & rest & p & file & _ & I & A & _).
  destruct H as [H|(p' & H & N)]; [congruence|]. rewrite H in I. inversion I; subst. now destruct (N file).
Qed.

Lemma main_no_output_arg dbg a0 fip input :
  existsb touches_output (fst (main_model dbg [a0; fip] input)) = false.
Proof.
  unfold main_model. destruct input as [p|]; [|reflexivity]. destruct (assemble dbg p); reflexivity.
Qed.

(* ---------------- list toolkit ---------------- *)
Lemma len_takeN' {A} k (l : list A) : k <= len l -> len (takeN k l) = k.
Proof. intros H. rewrite takeN_firstn. unfold len in *. rewrite firstn_length. lia. Qed.
Lemma len_dropN' {A} k (l : list A) : len (dropN k l) = len l - k.
Proof. rewrite dropN_skipn. unfold len. rewrite skipn_length. lia. Qed.
Lemma takeN_app_exact {A} (l1 l2 : list A) k : k = len l1 -> takeN k (l1 ++ l2) = l1.
Proof.
  intros ->. rewrite takeN_firstn. unfold len. rewrite Nat2N.id.
  rewrite firstn_app, Nat.sub_diag, firstn_all. cbn [firstn]. apply app_nil_r.
Qed.
Lemma dropN_app_exact {A} (l1 l2 : list A) k : k = len l1 -> dropN k (l1 ++ l2) = l2.
Proof.
  intros ->. rewrite dropN_skipn. unfold len. rewrite Nat2N.id.
  rewrite skipn_app, Nat.sub_diag, skipn_all. reflexivity.
Qed.
Lemma len_repeat {A} (x : A) n : len (repeat x n) = N.of_nat n.
Proof. unfold len. now rewrite repeat_length. Qed.
Lemma len_zeros n : len (zeros n) = n.
Proof. unfold zeros. rewrite len_repeat. lia. Qed.
Lemma zeros_add a b : zeros (a + b) = zeros a ++ zeros b.
Proof. unfold zeros. rewrite N2Nat.inj_add. apply repeat_app. Qed.

(* ---------------- dictionaries: ascending keys, lookup ---------------- *)
Fixpoint asc (lo hi : N) (d : dict) : Prop :=
  match d with [] => True | c :: r => lo <= fst c /\ fst c < hi /\ asc (fst c + 1) hi r end.

Lemma asc_weaken d : forall lo lo' hi hi', lo' <= lo -> hi <= hi' -> asc lo hi d -> asc lo' hi' d.
Proof.
  induction d as [|c r IH]; intros lo lo' hi hi' H1 H2 H; [exact I|].
  cbn [asc] in *. destruct H as (A & B & C). repeat split; try lia. eapply IH; [| |exact C]; lia.
Qed.
Lemma asc_in d : forall lo hi c, asc lo hi d -> In c d -> lo <= fst c /\ fst c < hi.
Proof.
  induction d as [|c0 r IH]; intros lo hi c A H; [destruct H|].
  cbn [asc] in A. destruct A as (A & B & C). destruct H as [<-|H]; [lia|].
  pose proof (IH _ _ _ C H). lia.
Qed.
Lemma asc_cells d : forall lo hi a, lo <= a -> a + len d <= hi -> asc lo hi (cells a d).
Proof.
  induction d as [|b d IH]; intros lo hi a H1 H2; [exact I|].
  cbn [cells asc fst]. rewrite len_cons in H2. repeat split; try lia. apply IH; lia.
Qed.
Lemma asc_app d1 : forall lo k hi d2, lo <= k -> k <= hi -> asc lo k d1 -> asc k hi d2 -> asc lo hi (d1 ++ d2).
Proof.
  induction d1 as [|c r IH]; intros lo k hi d2 H1 H2 A1 A2.
  - cbn [app]. eapply asc_weaken; [| |exact A2]; lia.
  - cbn [app asc] in *. destruct A1 as (A & B & C). repeat split; try lia. eapply IH; [| |exact C|exact A2]; lia.
Qed.
Lemma asc_abs m : forall lo, Rep m -> (forall s, In s m -> lo <= sfirst s) -> asc lo U32 (abs m).
Proof.
  induction m as [|s r IH]; intros lo H B; [exact I|].
  rewrite abs_cons. destruct (Rep_head _ _ H) as (S1 & S2 & S3).
  apply asc_app with (k := slast s + 1).
  - pose proof (B s (or_introl eq_refl)). lia.
  - lia.
  - apply asc_cells; [apply B; now left|lia].
  - eapply asc_weaken with (lo := slast s + 2) (hi := U32); [lia|lia|].
    apply IH; [exact (Rep_tail _ _ H)|]. intros t Ht. destruct (In_geti _ _ Ht) as (j & Gj).
    pose proof (Rep_head_lt s r H _ _ Gj). lia.
Qed.
Lemma asc_filter (p : N * N -> bool) d : forall lo hi, asc lo hi d -> asc lo hi (filter p d).
Proof.
  induction d as [|c r IH]; intros lo hi A; [exact I|].
  cbn [asc] in A. destruct A as (A & B & C). cbn [filter]. destruct (p c).
  - cbn [asc]. repeat split; try assumption. apply IH; assumption.
  - eapply asc_weaken; [| |apply IH; exact C]; lia.
Qed.
Lemma asc_bounds d : forall lo hi lo' hi', asc lo hi d -> (forall c, In c d -> lo' <= fst c /\ fst c < hi') -> asc lo' hi' d.
Proof.
  induction d as [|c r IH]; intros lo hi lo' hi' A B; [exact I|].
  cbn [asc] in *. destruct A as (A1 & A2 & A3). pose proof (B c (or_introl eq_refl)). repeat split; try lia.
  apply (IH _ _ _ _ A3). intros c' Hc'. pose proof (asc_in _ _ _ _ A3 Hc'). pose proof (B c' (or_intror Hc')). lia.
Qed.

Lemma d_get_in d x y : d_get d x = Some y -> In (x, y) d.
Proof.
  induction d as [|(a, b) r IH]; [discriminate|]. cbn [d_get]. destruct (N.eqb_spec a x).
  - intros E. inversion E; subst. now left.
  - intros E. right. now apply IH.
Qed.
Lemma in_d_get d x y : In (x, y) d -> d_get d x <> None.
Proof.
  induction d as [|(a, b) r IH]; [intros []|]. cbn [d_get]. intros [E|H].
  - inversion E; subst. rewrite N.eqb_refl. discriminate.
  - destruct (a =? x); [discriminate|now apply IH].
Qed.
Lemma d_get_low d x : forall lo hi, asc lo hi d -> x < lo -> d_get d x = None.
Proof.
  intros lo hi A L. destruct (d_get d x) eqn:E; [|reflexivity].
  apply d_get_in in E. pose proof (asc_in _ _ _ _ A E). cbn [fst] in *. lia.
Qed.
Lemma d_get_app_l d1 d2 x : d_get d1 x = None -> d_get (d1 ++ d2) x = d_get d2 x.
Proof.
  induction d1 as [|(a, b) r IH]; [reflexivity|]. cbn [d_get app]. destruct (a =? x); [discriminate|exact IH].
Qed.
Lemma d_get_cells_out a data x : x < a \/ a + len data <= x -> d_get (cells a data) x = None.
Proof.
  intros H. destruct (d_get (cells a data) x) eqn:E; [|reflexivity].
  apply d_get_in, cells_in in E. lia.
Qed.
Lemma d_get_filter (p : N * N -> bool) (q : N -> bool) d x :
  (forall c, p c = q (fst c)) -> q x = true -> d_get (filter p d) x = d_get d x.
Proof.
  intros Hp Hq. induction d as [|(a, b) r IH]; [reflexivity|]. cbn [filter d_get].
  destruct (N.eqb_spec a x) as [->|Ne].
  - rewrite (Hp (x, b)). cbn [fst]. rewrite Hq. cbn [d_get]. now rewrite N.eqb_refl.
  - destruct (p (a, b)); [cbn [d_get]; destruct (N.eqb_spec a x); [congruence|exact IH]|exact IH].
Qed.

(* ---------------- runs: grouping loses nothing ---------------- *)
Definition run_ok (r : seg) : Prop := sdata r <> [] /\ slast r + 1 = sfirst r + len (sdata r).

Lemma runs_spec d : abs (runs d) = d /\ Forall run_ok (runs d).
Proof.
  induction d as [|(a, b) r (IH1 & IH2)]; [split; [reflexivity|constructor]|].
  cbn [runs]. destruct (runs r) as [|((f, l), bs) rs] eqn:E.
  - rewrite <- IH1. split; [reflexivity|]. constructor; [|constructor].
    split; [discriminate|]. cbn. lia.
  - destruct (N.eqb_spec f (a + 1)) as [->|Ne].
    + split.
      * rewrite <- IH1. rewrite !abs_cons. reflexivity.
      * inversion IH2 as [|? ? (K1 & K2) K3]; subst. constructor; [|assumption].
        split; [discriminate|]. unfold slast, sfirst, sdata in *. cbn [fst snd] in *. rewrite len_cons. lia.
    + split.
      * rewrite <- IH1. rewrite (abs_cons (a, a, [b])). reflexivity.
      * constructor; [|assumption]. split; [discriminate|]. cbn. lia.
Qed.

(* ---------------- the values of a dictionary over an address interval, gaps as zero ---------------- *)
Definition val (d : dict) (x : N) : N := match d_get d x with Some b => b | None => 0 end.
Fixpoint vals (d : dict) (a : N) (n : nat) : list N :=
  match n with O => [] | S n' => val d a :: vals d (a + 1) n' end.

Lemma vals_length d : forall n a, length (vals d a n) = n.
Proof. induction n; intros a; cbn [vals length]; [reflexivity|now rewrite IHn]. Qed.
Lemma vals_app d : forall n1 n2 a, vals d a (n1 + n2) = vals d a n1 ++ vals d (a + N.of_nat n1) n2.
Proof.
  induction n1 as [|n1 IH]; intros n2 a.
  - cbn [vals app Nat.add]. f_equal. lia.
  - cbn [vals app Nat.add]. f_equal. rewrite IH. f_equal. f_equal. lia.
Qed.
Lemma vals_ext d d' : forall n a, (forall x, a <= x -> x < a + N.of_nat n -> d_get d x = d_get d' x) -> vals d a n = vals d' a n.
Proof.
  induction n as [|n IH]; intros a H; [reflexivity|]. cbn [vals]. f_equal.
  - unfold val. rewrite H by lia. reflexivity.
  - apply IH. intros x H1 H2. apply H; lia.
Qed.
Lemma vals_none d : forall n a, (forall x, a <= x -> x < a + N.of_nat n -> d_get d x = None) -> vals d a n = repeat 0 n.
Proof.
  induction n as [|n IH]; intros a H; [reflexivity|]. cbn [vals repeat]. f_equal.
  - unfold val. rewrite H by lia. reflexivity.
  - apply IH. intros x H1 H2. apply H; lia.
Qed.
Lemma vals_cells data : forall a rest, vals (cells a data ++ rest) a (length data) = data.
Proof.
  induction data as [|b data IH]; intros a rest; [reflexivity|].
  cbn [cells app length vals]. f_equal.
  - unfold val. cbn [d_get]. now rewrite N.eqb_refl.
  - transitivity (vals (cells (a + 1) data ++ rest) (a + 1) (length data)); [|apply IH].
    apply vals_ext. intros x H1 H2. cbn [d_get].
    destruct (N.eqb_spec a x); [lia|reflexivity].
Qed.
Lemma boot_bytes_vals P : boot_bytes P = vals P BOOT 252.
Proof.
  unfold boot_bytes.
  assert (G : forall n k, map (fun i => match d_get P (BOOT + N.of_nat i) with Some b => b | None => 0 end) (seq k n)
                        = vals P (BOOT + N.of_nat k) n).
  { induction n as [|n IH]; intros k; [reflexivity|]. cbn [seq map vals]. f_equal. rewrite IH. f_equal. lia. }
  rewrite G. f_equal.
Qed.

(* ---------------- the checksum loop ---------------- *)
Lemma asc_cells_app_inv data : forall f lo hi rest, data <> [] -> asc lo hi (cells f data ++ rest) ->
  lo <= f /\ f + len data <= hi /\ asc (f + len data) hi rest.
Proof.
  induction data as [|b data IH]; intros f lo hi rest Hne A; [congruence|].
  destruct data as [|b' data].
  - cbn [cells app asc fst] in A. destruct A as (A1 & A2 & A3). rewrite len_cons, len_nil. repeat split; try lia.
    replace (f + (0 + 1)) with (f + 1) by lia. exact A3.
  - cbn [cells app] in A. cbn [asc fst] in A. destruct A as (A1 & A2 & A3).
    destruct (IH (f + 1) (f + 1) hi rest ltac:(discriminate) A3) as (K1 & K2 & K3).
    rewrite (len_cons b). repeat split; try lia.
    replace (f + (len (b' :: data) + 1)) with (f + 1 + len (b' :: data)) by lia. exact K3.
Qed.

Lemma psub_ok dbg s a b : b <= a -> psub dbg s a b = Go (a - b).
Proof. intros H. unfold psub. destruct (b <=? a) eqn:E; [reflexivity|lia]. Qed.
Lemma padd_ok dbg s a b : a + b < U32 -> padd dbg s a b = Go (a + b).
Proof. intros H. unfold padd. destruct (a + b <? U32) eqn:E; [reflexivity|lia]. Qed.

Lemma len_N_length {A} (l : list A) : N.to_nat (len l) = length l.
Proof. unfold len. lia. Qed.

Lemma ck_loop_go dbg : forall rs pre k,
  len pre = k -> k <= 252 ->
  asc (FLASH_BASE + k) (FLASH_BASE + 252) (abs rs) -> Forall run_ok rs ->
  ck_loop dbg rs (pre ++ zeros (252 - k)) = Go (pre ++ vals (abs rs) (FLASH_BASE + k) (N.to_nat (252 - k))).
Proof.
  induction rs as [|s r IH]; intros pre k Hk Hle A RO.
  - cbn [ck_loop abs flat_map]. f_equal. f_equal. rewrite vals_none; [reflexivity|]. reflexivity.
  - inversion RO as [|? ? (Hne & Hl) RO']; subst.
    rewrite abs_cons in A |- *.
    destruct (asc_cells_app_inv _ _ _ _ _ Hne A) as (B1 & B2 & B3).
    destruct s as ((f, l), data). unfold sfirst, slast, sdata in *. cbn [fst snd] in *.
    cbn [ck_loop]. unfold sfirst, slast, sdata. cbn [fst snd].
    assert (FC : FLASH_CRC = FLASH_BASE + 252) by reflexivity.
    assert (Ld : 1 <= len data) by (destruct data; [congruence|rewrite len_cons; lia]).
    destruct (FLASH_CRC <=? l) eqn:E1; [lia|].
    rewrite psub_ok by lia. cbn [pbind]. rewrite psub_ok by lia. cbn [pbind].
    assert (LT : len (pre ++ zeros (252 - len pre)) = 252) by (rewrite len_app, len_zeros; lia).
    rewrite LT.
    destruct ((l - FLASH_BASE + 1 <? f - FLASH_BASE) || (252 <? l - FLASH_BASE + 1)) eqn:E2; [lia|].
    destruct (negb (len data =? l - FLASH_BASE + 1 - (f - FLASH_BASE))) eqn:E3; [lia|].
    set (first := f - FLASH_BASE) in *. set (k := len pre) in *.
    (* the new temp *)
    assert (T1 : takeN first (pre ++ zeros (252 - k)) = pre ++ zeros (first - k)).
    { replace (252 - k) with ((first - k) + (252 - first)) by lia. rewrite zeros_add, app_assoc.
      apply takeN_app_exact. rewrite len_app, len_zeros. lia. }
    assert (T2 : dropN (l - FLASH_BASE + 1) (pre ++ zeros (252 - k)) = zeros (252 - (l - FLASH_BASE + 1))).
    { replace (252 - k) with ((l - FLASH_BASE + 1 - k) + (252 - (l - FLASH_BASE + 1))) by lia. rewrite zeros_add, app_assoc.
      apply dropN_app_exact. rewrite len_app, len_zeros. lia. }
    rewrite T1, T2.
    set (pre' := pre ++ zeros (first - k) ++ data).
    assert (Lp : len pre' = l - FLASH_BASE + 1).
    { unfold pre'. rewrite !len_app, len_zeros. lia. }
    replace ((pre ++ zeros (first - k)) ++ data ++ zeros (252 - (l - FLASH_BASE + 1)))
      with (pre' ++ zeros (252 - (l - FLASH_BASE + 1))) by (unfold pre'; now rewrite <- !app_assoc).
    rewrite (IH pre' (l - FLASH_BASE + 1) Lp ltac:(lia)); [| |exact RO'].
    2:{ replace (FLASH_BASE + (l - FLASH_BASE + 1)) with (f + len data) by lia. exact B3. }
    f_equal. unfold pre'. rewrite <- !app_assoc. f_equal.
    (* split the interval [k, 252) at first and at last + 1 *)
    replace (N.to_nat (252 - k)) with (N.to_nat (first - k) + (length data + N.to_nat (252 - (l - FLASH_BASE + 1))))%nat
      by (rewrite <- (len_N_length data); lia).
    rewrite vals_app, vals_app.
    f_equal; [|f_equal].
    + rewrite vals_none; [reflexivity|]. intros x X1 X2.
      rewrite d_get_app_l by (apply d_get_cells_out; lia).
      apply (d_get_low _ _ _ _ B3). lia.
    + replace (FLASH_BASE + k + N.of_nat (N.to_nat (first - k))) with f by lia. symmetry. apply vals_cells.
    + replace (FLASH_BASE + k + N.of_nat (N.to_nat (first - k)) + N.of_nat (length data)) with (FLASH_BASE + (l - FLASH_BASE + 1))
        by (rewrite <- (len_N_length data); lia).
      symmetry. apply vals_ext. intros x X1 X2. apply d_get_app_l. apply d_get_cells_out. lia.
Qed.

(* one iteration on a run that ends below the checksum word: no panic, the run's bytes are spliced in *)
Lemma ck_step dbg f l data r pre k :
  len pre = k -> FLASH_BASE + k <= f -> l + 1 = f + len data -> 1 <= len data -> l < FLASH_BASE + 252 ->
  ck_loop dbg ((f, l, data) :: r) (pre ++ zeros (252 - k))
  = ck_loop dbg r ((pre ++ zeros (f - FLASH_BASE - k) ++ data) ++ zeros (252 - (l - FLASH_BASE + 1))).
Proof.
  intros Hk B1 Hl Ld Hlt. subst k.
  cbn [ck_loop]. unfold sfirst, slast, sdata. cbn [fst snd].
  assert (FC : FLASH_CRC = FLASH_BASE + 252) by reflexivity.
  destruct (FLASH_CRC <=? l) eqn:E1; [lia|].
  rewrite psub_ok by lia. cbn [pbind]. rewrite psub_ok by lia. cbn [pbind].
  assert (LT : len (pre ++ zeros (252 - len pre)) = 252) by (rewrite len_app, len_zeros; lia).
  rewrite LT.
  destruct ((l - FLASH_BASE + 1 <? f - FLASH_BASE) || (252 <? l - FLASH_BASE + 1)) eqn:E2; [lia|].
  destruct (negb (len data =? l - FLASH_BASE + 1 - (f - FLASH_BASE))) eqn:E3; [lia|].
  set (first := f - FLASH_BASE) in *. set (k := len pre) in *.
  assert (T1 : takeN first (pre ++ zeros (252 - k)) = pre ++ zeros (first - k)).
  { replace (252 - k) with ((first - k) + (252 - first)) by lia. rewrite zeros_add, app_assoc.
    apply takeN_app_exact. rewrite len_app, len_zeros. lia. }
  assert (T2 : dropN (l - FLASH_BASE + 1) (pre ++ zeros (252 - k)) = zeros (252 - (l - FLASH_BASE + 1))).
  { replace (252 - k) with ((l - FLASH_BASE + 1 - k) + (252 - (l - FLASH_BASE + 1))) by lia. rewrite zeros_add, app_assoc.
    apply dropN_app_exact. rewrite len_app, len_zeros. lia. }
  rewrite T1, T2. f_equal. now rewrite <- !app_assoc.
Qed.

Lemma cells_in_val a d x y : In (x, y) (cells a d) -> In y d.
Proof.
  revert a. induction d as [|b d IH]; intros a H; [destruct H|].
  cbn [cells] in H. destruct H as [E|H]; [inversion E; now left|right; eapply IH; eauto].
Qed.

Lemma ck_loop_refuse dbg : forall rs pre k,
  len pre = k -> k <= 252 ->
  asc (FLASH_BASE + k) (FLASH_BASE + 256) (abs rs) -> Forall run_ok rs ->
  (exists c, In c (abs rs) /\ FLASH_CRC <= fst c) ->
  ck_loop dbg rs (pre ++ zeros (252 - k)) = RStop R_checksum_overlap.
Proof.
  induction rs as [|s r IH]; intros pre k Hk Hle A RO (c & Hc & Cc); [destruct Hc|].
  inversion RO as [|? ? (Hne & Hl) RO']; subst.
  rewrite abs_cons in A, Hc.
  destruct (asc_cells_app_inv _ _ _ _ _ Hne A) as (B1 & B2 & B3).
  destruct s as ((f, l), data). unfold sfirst, slast, sdata in *. cbn [fst snd] in *.
  assert (Ld : 1 <= len data) by (destruct data; [congruence|rewrite len_cons; lia]).
  assert (FC : FLASH_CRC = FLASH_BASE + 252) by reflexivity.
  destruct (N.le_gt_cases FLASH_CRC l) as [Hge|Hlt].
  - cbn [ck_loop]. unfold slast. cbn [fst snd]. destruct (FLASH_CRC <=? l) eqn:E; [reflexivity|lia].
  - etransitivity; [apply (ck_step dbg f l data r pre (len pre)); lia|].
    set (pre' := pre ++ zeros (f - FLASH_BASE - len pre) ++ data).
    assert (Lp : len pre' = l - FLASH_BASE + 1) by (unfold pre'; rewrite !len_app, len_zeros; lia).
    apply (IH pre' (l - FLASH_BASE + 1) Lp ltac:(lia)); [|exact RO'|].
    + replace (FLASH_BASE + (l - FLASH_BASE + 1)) with (f + len data) by lia. exact B3.
    + exists c. split; [|exact Cc]. apply in_app_or in Hc. destruct Hc as [Hc|Hc]; [|exact Hc].
      destruct c as (x, y). apply cells_in in Hc. cbn [fst] in Cc. lia.
Qed.

(* ---------------- find(FLASH_BASE, Exact) ---------------- *)
Lemma cells_mem d : forall a x, a <= x -> x < a + len d -> exists y, In (x, y) (cells a d).
Proof.
  induction d as [|b d IH]; intros a x H1 H2; [rewrite len_nil in H2; lia|].
  cbn [cells]. destruct (N.eq_dec a x) as [->|Ne]; [exists b; now left|].
  rewrite len_cons in H2. destruct (IH (a + 1) x ltac:(lia) ltac:(lia)) as (y & Hy). exists y. now right.
Qed.
Lemma abs_mem m s x : Rep m -> In s m -> sfirst s <= x -> x <= slast s -> exists y, In (x, y) (abs m).
Proof.
  intros HR Hs H1 H2. destruct (In_geti _ _ Hs) as (j & Gj). destruct (Rep_seg_ok m HR _ _ Gj) as (S1 & S2 & S3).
  destruct (cells_mem (sdata s) (sfirst s) x H1 ltac:(lia)) as (y & Hy). exists y.
  unfold abs. apply in_flat_map. exists s. split; assumption.
Qed.

Lemma find_exact_some dbg m a : Rep m -> d_get (abs m) a <> None -> exists r, map_find dbg m a Exact = Ok (Some r).
Proof.
  intros HR Hocc. destruct (locate_ok dbg m a Exact HR) as (r & L & Post). unfold map_find. rewrite L. cbn [bind].
  destruct r as [i|].
  - destruct Post as (x & Gx & _). rewrite (vec_get_ok _ _ _ _ Gx). cbn [bind]. eauto.
  - exfalso. destruct (d_get (abs m) a) as [y|] eqn:E; [|congruence]. apply d_get_in in E.
    destruct (abs_in m HR _ _ E) as (s & Hs & S1 & S2). destruct (In_geti _ _ Hs) as (j & Gj).
    cbn in Post. destruct (Post j s Gj); lia.
Qed.
Lemma find_exact_none dbg m a : Rep m -> d_get (abs m) a = None -> map_find dbg m a Exact = Ok None.
Proof.
  intros HR Hfree. destruct (locate_ok dbg m a Exact HR) as (r & L & Post). unfold map_find. rewrite L. cbn [bind].
  destruct r as [i|]; [|reflexivity]. exfalso. destruct Post as (x & Gx & X1 & X2).
  destruct (abs_mem m x a HR (geti_In _ _ _ Gx) X1 X2) as (y & Hy). now apply in_d_get in Hy.
Qed.

(* ---------------- the 252 checksummed bytes ---------------- *)
Lemma restrict_asc m : Rep m -> asc FLASH_BASE (FLASH_BASE + 256) (d_restrict (abs m) FLASH_BASE (FLASH_BASE + 0xFF)).
Proof.
  intros HR. unfold d_restrict.
  eapply asc_bounds; [apply asc_filter, (asc_abs m 0 HR); intros; lia|].
  intros c Hc. apply filter_In in Hc. destruct Hc as (_ & Hc). unfold in_range in Hc. lia.
Qed.

Lemma restrict_get D x : FLASH_BASE <= x -> x <= FLASH_BASE + 0xFF ->
  d_get (d_restrict D FLASH_BASE (FLASH_BASE + 0xFF)) x = d_get D x.
Proof.
  intros H1 H2. unfold d_restrict.
  apply (d_get_filter _ (fun k => in_range FLASH_BASE (FLASH_BASE + 0xFF) k)); [reflexivity|].
  unfold in_range. lia.
Qed.

Definition no_conflict (D : dict) : Prop := forall a, FLASH_CRC <= a -> a <= FLASH_CRC + 3 -> d_get D a = None.

Lemma ck_temp_go dbg m : Rep m -> IterRange_spec dbg -> no_conflict (abs m) ->
  ck_temp dbg m = Go (boot_bytes (abs m)).
Proof.
  intros HR HI NC. unfold ck_temp.
  change (range_new FLASH_BASE (FLASH_BASE + 0xFF)) with (@Ok (N * N) (FLASH_BASE, FLASH_BASE + 0xFF)). cbn [pbind fst snd].
  rewrite (HI m FLASH_BASE (FLASH_BASE + 0xFF) HR) by (unfold FLASH_BASE; lia). cbn [of_map pbind].
  unfold d_iter_range. set (d := d_restrict (abs m) FLASH_BASE (FLASH_BASE + 0xFF)).
  destruct (runs_spec d) as (R1 & R2).
  assert (A : asc (FLASH_BASE + 0) (FLASH_BASE + 252) (abs (runs d))).
  { rewrite R1. eapply asc_bounds; [apply (restrict_asc m HR)|]. intros c Hc.
    pose proof (asc_in _ _ _ _ (restrict_asc m HR) Hc) as (C1 & C2). split; [lia|].
    destruct (N.lt_ge_cases (fst c) (FLASH_BASE + 252)) as [|Hge]; [assumption|exfalso].
    unfold d, d_restrict in Hc. apply filter_In in Hc. destruct Hc as (Hc & _). destruct c as (x, y).
    apply in_d_get in Hc. apply Hc. apply NC; cbn [fst] in *; unfold FLASH_CRC, FLASH_BASE in *; lia. }
  pose proof (ck_loop_go dbg (runs d) [] 0 eq_refl ltac:(lia) A R2) as G.
  cbn [app] in G. change (zeros 0xFC) with (zeros (252 - 0)). rewrite G. f_equal.
  rewrite R1, boot_bytes_vals. change (N.to_nat (252 - 0)) with 252%nat. change BOOT with FLASH_BASE.
  replace (FLASH_BASE + 0) with FLASH_BASE by lia.
  apply vals_ext. intros x X1 X2. apply restrict_get; unfold FLASH_BASE in *; lia.
Qed.

Lemma ck_temp_refuse dbg m : Rep m -> IterRange_spec dbg ->
  (exists a, FLASH_CRC <= a /\ a <= FLASH_CRC + 3 /\ d_get (abs m) a <> None) ->
  ck_temp dbg m = RStop R_checksum_overlap.
Proof.
  intros HR HI (a & A1 & A2 & A3). unfold ck_temp.
  change (range_new FLASH_BASE (FLASH_BASE + 0xFF)) with (@Ok (N * N) (FLASH_BASE, FLASH_BASE + 0xFF)). cbn [pbind fst snd].
  rewrite (HI m FLASH_BASE (FLASH_BASE + 0xFF) HR) by (unfold FLASH_BASE; lia). cbn [of_map pbind].
  unfold d_iter_range. set (d := d_restrict (abs m) FLASH_BASE (FLASH_BASE + 0xFF)).
  destruct (runs_spec d) as (R1 & R2).
  change (zeros 0xFC) with ([] ++ zeros (252 - 0)).
  apply (ck_loop_refuse dbg (runs d) [] 0 eq_refl ltac:(lia)); [|exact R2|].
  - rewrite R1. replace (FLASH_BASE + 0) with FLASH_BASE by lia. apply (restrict_asc m HR).
  - rewrite R1. destruct (d_get d a) as [y|] eqn:E.
    + exists (a, y). split; [now apply d_get_in|exact A1].
    + exfalso. unfold d in E. rewrite restrict_get in E by (unfold FLASH_CRC, FLASH_BASE in *; lia). congruence.
Qed.

(* ---------------- the checksum step ---------------- *)
Lemma le32_word_bytes x : TriasModel.le32 x = word_bytes x.
Proof.
  unfold TriasModel.le32, word_bytes. change 255 with (N.ones 8). rewrite !N.land_ones, !N.shiftr_div_pow2.
  reflexivity.
Qed.

Lemma bytes_abs m : Bytes m -> forall x y, In (x, y) (abs m) -> y < 256.
Proof.
  intros HB x y H. unfold abs in H. apply in_flat_map in H. destruct H as (s & Hs & Hc).
  apply cells_in_val in Hc. pose proof (HB s Hs) as F. rewrite Forall_forall in F. now apply F.
Qed.
Lemma vals_bytes D : (forall x y, In (x, y) D -> y < 256) -> forall n a, Forall (fun b => b < 256) (vals D a n).
Proof.
  intros H. induction n as [|n IH]; intros a; [constructor|]. cbn [vals]. constructor; [|apply IH].
  unfold val. destruct (d_get D a) as [y|] eqn:E; [|lia]. apply d_get_in in E. eapply H; eauto.
Qed.

Lemma d_put_write D a data D' n : a + len data <= SPACE -> d_put D a data = (D', Some n) -> D' = d_write D a data.
Proof.
  unfold d_put. fold (len data). intros H. destruct (SPACE <? a + len data) eqn:E; [lia|]. intros X. now inversion X.
Qed.

Lemma boot_occupied_iff D : boot_occupied D = true <-> d_get D FLASH_BASE <> None.
Proof.
  unfold boot_occupied, occupied. change BOOT with FLASH_BASE. destruct (d_get D FLASH_BASE); split; congruence.
Qed.

Lemma crc_slice_spec temp : Forall (fun b => b < 256) temp -> crc_update_slice crc_new temp = spec_crc temp.
Proof. exact (crc_is_bitserial temp). Qed.

Lemma checksum_ok dbg m : Rep m -> Bytes m -> IterRange_spec dbg -> Put_spec dbg ->
  d_get (abs m) FLASH_BASE <> None -> no_conflict (abs m) ->
  exists m', checksum_step dbg m = Go m' /\ Rep m' /\
             abs m' = d_write (abs m) FLASH_CRC (TriasModel.le32 (spec_crc (boot_bytes (abs m)))) /\
             abs m' = P_plus (abs m).
Proof.
  intros HR HB HI HP Hocc NC. unfold checksum_step.
  destruct (find_exact_some dbg m FLASH_BASE HR Hocc) as (r & F). rewrite F. cbn [of_map pbind].
  rewrite (ck_temp_go dbg m HR HI NC). cbn [pbind].
  remember (boot_bytes (abs m)) as temp eqn:Et.
  assert (LT : length temp = 252%nat) by (subst temp; rewrite boot_bytes_vals; apply vals_length).
  assert (FB : Forall (fun b => b < 256) temp) by (subst temp; rewrite boot_bytes_vals; apply vals_bytes, (bytes_abs m HB)).
  assert (TK : takeN 0xFC temp = temp).
  { unfold takeN. destruct (len temp <=? 0xFC) eqn:E; [reflexivity|]. unfold len in E. rewrite LT in E. discriminate. }
  rewrite TK. rewrite (crc_slice_spec temp FB).
  set (w := TriasModel.le32 (spec_crc temp)).
  assert (Lw : len w = 4) by reflexivity.
  destruct (HP m FLASH_CRC w HR) as (m' & n & Pm & Rm & Dm); [reflexivity|rewrite Lw; unfold FLASH_CRC, SPACE; lia|].
  rewrite Pm. cbn [of_map pbind]. exists m'. split; [reflexivity|]. split; [exact Rm|].
  symmetry in Dm. assert (W : abs m' = d_write (abs m) FLASH_CRC w).
  { apply (d_put_write (abs m) FLASH_CRC w (abs m') n); [rewrite Lw; unfold FLASH_CRC, SPACE; lia|now symmetry]. }
  split; [exact W|]. rewrite W. unfold P_plus. rewrite (proj2 (boot_occupied_iff (abs m)) Hocc).
  unfold w, crc_word. rewrite <- Et. rewrite le32_word_bytes. reflexivity.
Qed.

Lemma checksum_conflict dbg m : Rep m -> IterRange_spec dbg ->
  d_get (abs m) FLASH_BASE <> None ->
  (exists a, FLASH_CRC <= a /\ a <= FLASH_CRC + 3 /\ d_get (abs m) a <> None) ->
  checksum_step dbg m = RStop R_checksum_overlap.
Proof.
  intros HR HI Hocc HC. unfold checksum_step.
  destruct (find_exact_some dbg m FLASH_BASE HR Hocc) as (r & F). rewrite F. cbn [of_map pbind].
  rewrite (ck_temp_refuse dbg m HR HI HC). reflexivity.
Qed.

Lemma checksum_absent dbg m : Rep m -> d_get (abs m) FLASH_BASE = None ->
  checksum_step dbg m = Go m /\ P_plus (abs m) = abs m.
Proof.
  intros HR Hfree. unfold checksum_step. rewrite (find_exact_none dbg m FLASH_BASE HR Hfree). split; [reflexivity|].
  unfold P_plus, boot_occupied, occupied. change BOOT with FLASH_BASE. now rewrite Hfree.
Qed.

(* conflict is decidable: the three cases are exhaustive *)
Lemma conflict_dec D : no_conflict D \/ exists a, FLASH_CRC <= a /\ a <= FLASH_CRC + 3 /\ d_get D a <> None.
Proof.
  destruct (d_get D FLASH_CRC) eqn:E0; [right; exists FLASH_CRC; repeat split; [lia|lia|congruence]|].
  destruct (d_get D (FLASH_CRC + 1)) eqn:E1; [right; exists (FLASH_CRC + 1); repeat split; [lia|lia|congruence]|].
  destruct (d_get D (FLASH_CRC + 2)) eqn:E2; [right; exists (FLASH_CRC + 2); repeat split; [lia|lia|congruence]|].
  destruct (d_get D (FLASH_CRC + 3)) eqn:E3; [right; exists (FLASH_CRC + 3); repeat split; [lia|lia|congruence]|].
  left. intros a A1 A2.
  assert (a = FLASH_CRC \/ a = FLASH_CRC + 1 \/ a = FLASH_CRC + 2 \/ a = FLASH_CRC + 3) as [->|[->|[->| ->]]] by lia; assumption.
Qed.

(* the spec's refusal condition, in the terms used above *)
Lemma must_refuse_iff D : must_refuse D = true <->
  d_get D FLASH_BASE <> None /\ exists a, FLASH_CRC <= a /\ a <= FLASH_CRC + 3 /\ d_get D a <> None.
Proof.
  unfold must_refuse, crc_conflict. rewrite andb_true_iff, boot_occupied_iff. change CRC_AT with FLASH_CRC.
  split; intros (H1 & H2); (split; [exact H1|]).
  - unfold occupied in H2. rewrite !orb_true_iff in H2.
    destruct H2 as [[[H|H]|H]|H];
      [exists FLASH_CRC|exists (FLASH_CRC + 1)|exists (FLASH_CRC + 2)|exists (FLASH_CRC + 3)];
      (repeat split; [lia|lia|]); intros E; rewrite E in H; discriminate.
  - destruct H2 as (a & A1 & A2 & A3). unfold occupied. rewrite !orb_true_iff.
    assert (a = FLASH_CRC \/ a = FLASH_CRC + 1 \/ a = FLASH_CRC + 2 \/ a = FLASH_CRC + 3) as [->|[->|[->| ->]]] by lia;
      [left; left; left|left; left; right|left; right|right];
      (match goal with |- match ?g with _ => _ end = true => destruct g; [reflexivity|congruence] end).
Qed.

(* the step never panics: one of Go / Refused *)
Lemma checksum_step_total dbg m : Rep m -> Bytes m -> IterRange_spec dbg -> Put_spec dbg ->
  (exists m', checksum_step dbg m = Go m' /\ Rep m' /\ abs m' = P_plus (abs m) /\ must_refuse (abs m) = false)
  \/ (checksum_step dbg m = RStop R_checksum_overlap /\ must_refuse (abs m) = true).
Proof.
  intros HR HB HI HP.
  destruct (d_get (abs m) FLASH_BASE) eqn:Hocc.
  - assert (Hocc' : d_get (abs m) FLASH_BASE <> None) by congruence.
    destruct (conflict_dec (abs m)) as [NC|HC].
    + left. destruct (checksum_ok dbg m HR HB HI HP Hocc' NC) as (m' & G & R' & _ & A'). exists m'. repeat split; try assumption.
      destruct (must_refuse (abs m)) eqn:E; [|reflexivity]. apply must_refuse_iff in E. destruct E as (_ & a & A1 & A2 & A3).
      now rewrite (NC a A1 A2) in A3.
    + right. split; [apply checksum_conflict; assumption|]. apply must_refuse_iff. split; assumption.
  - left. destruct (checksum_absent dbg m HR Hocc) as (G & E). exists m. repeat split; try assumption; [now symmetry|].
    destruct (must_refuse (abs m)) eqn:E'; [|reflexivity]. apply must_refuse_iff in E'. destruct E' as (X & _). congruence.
Qed.

Lemma rep_nonempty m : abs m <> [] -> 0 < map_len m.
Proof. destruct m; [intros H; now destruct H|intros _; unfold map_len; rewrite len_cons; lia]. Qed.

Lemma post_refused dbg m : Rep m -> IterRange_spec dbg -> must_refuse (abs m) = true ->
  post dbg m = Refused R_checksum_overlap.
Proof.
  intros HR HI HM. apply must_refuse_iff in HM. destruct HM as (Hocc & HC).
  unfold post, padded.
  assert (NE : abs m <> []) by (intros E; rewrite E in Hocc; now apply Hocc).
  pose proof (rep_nonempty m NE) as L. destruct (0 <? map_len m) eqn:E; [|lia].
  rewrite (checksum_conflict dbg m HR HI Hocc HC). reflexivity.
Qed.
