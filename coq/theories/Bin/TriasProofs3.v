(* C18 proofs, part 3: the page padding loop - the three assert_eq!(put(..), Ok(n)) hold, no arithmetic wraps,
   the slice &BLANK_PAGE[..n] is in range; under Put_spec (discharged in TriasProofs4.v, which also proves fuel
   sufficiency and the loop's effect on the dictionary). *)
From Coq Require Import Arith NArith List Bool Lia ZifyBool ZifyNat ZifyN.
From Trion Require Import Mem.MapModel Mem.DictSpec Mem.MapProofs Mem.MapProofs2.
From Trion Require Import Bin.TriasModel Bin.TriasProofs.
Import ListNotations.
Open Scope N_scope.

(* ---------------- dictionary lookups after a write ---------------- *)
Lemma d_get_d_set D a b x : d_get (d_set D a b) x = if a =? x then Some b else d_get D x.
Proof.
  induction D as [|(k, v) r IH]; cbn [d_set d_get]; [reflexivity|].
  destruct (a <? k) eqn:E1; [reflexivity|]. destruct (N.eqb_spec a k) as [->|Ne].
  - cbn [d_get]. destruct (k =? x); reflexivity.
  - cbn [d_get]. rewrite IH. destruct (N.eqb_spec k x) as [->|]; [|reflexivity].
    destruct (N.eqb_spec a x); [congruence|reflexivity].
Qed.
Lemma d_get_d_write_out data : forall D a x, x < a \/ a + len data <= x -> d_get (d_write D a data) x = d_get D x.
Proof.
  induction data as [|b data IH]; intros D a x H; [reflexivity|]. cbn [d_write]. rewrite len_cons in H.
  rewrite IH by lia. rewrite d_get_d_set. destruct (N.eqb_spec a x); [lia|reflexivity].
Qed.
Lemma d_get_d_write_some data : forall D a x, d_get D x <> None -> d_get (d_write D a data) x <> None.
Proof.
  induction data as [|b data IH]; intros D a x H; [exact H|]. cbn [d_write]. apply IH. rewrite d_get_d_set.
  destruct (a =? x); [discriminate|exact H].
Qed.

(* ---------------- `prev` is the last address of a segment ---------------- *)
Definition ends_at (m : mmap) (p : N) : Prop := exists s, In s m /\ slast s = p.

Lemma ends_at_dict m p : Rep m -> (ends_at m p <-> d_get (abs m) p <> None /\ d_get (abs m) (p + 1) = None).
Proof.
  intros HR. split.
  - intros (s & Hs & <-). destruct (In_geti _ _ Hs) as (j & Gj). destruct (Rep_seg_ok m HR _ _ Gj) as (S1 & S2 & S3). split.
    + destruct (abs_mem m s (slast s) HR Hs S1 ltac:(lia)) as (y & Hy). now apply in_d_get in Hy.
    + destruct (d_get (abs m) (slast s + 1)) as [y|] eqn:E; [exfalso|reflexivity]. apply d_get_in in E.
      destruct (abs_in m HR _ _ E) as (s' & Hs' & T1 & T2). destruct (In_geti _ _ Hs') as (j' & Gj').
      destruct (N.lt_trichotomy j j') as [L|[->|L]].
      * pose proof (Rep_sorted m HR _ _ _ _ L Gj Gj'). lia.
      * rewrite Gj in Gj'. inversion Gj'; subst. lia.
      * pose proof (Rep_sorted m HR _ _ _ _ L Gj' Gj). lia.
  - intros (H1 & H2). destruct (d_get (abs m) p) as [y|] eqn:E; [|congruence]. apply d_get_in in E.
    destruct (abs_in m HR _ _ E) as (s & Hs & T1 & T2). exists s. split; [exact Hs|].
    destruct (N.eq_dec (slast s) p) as [|Ne]; [assumption|exfalso].
    destruct (abs_mem m s (p + 1) HR Hs ltac:(lia) ltac:(lia)) as (y' & Hy'). apply in_d_get in Hy'. congruence.
Qed.

(* ---------------- find(a, Above) ---------------- *)
Lemma find_above_spec dbg m a : Rep m -> exists r, map_find dbg m a Above = Ok r /\
  match r with
  | Some (rf, rl) => exists i x, geti m i = Some x /\ sfirst x = rf /\ slast x = rl /\ a <= rl /\
                                 (forall j y, j < i -> geti m j = Some y -> slast y < a)
  | None => forall j y, geti m j = Some y -> slast y < a
  end.
Proof.
  intros HR. destruct (locate_ok dbg m a Above HR) as (r & L & Post). unfold map_find. rewrite L. cbn [bind].
  destruct r as [i|].
  - destruct Post as (x & Gx & X1 & X2). rewrite (vec_get_ok _ _ _ _ Gx). cbn [bind].
    eexists. split; [reflexivity|]. exists i, x. repeat split; assumption.
  - eexists. split; [reflexivity|]. exact Post.
Qed.

(* ---------------- one padding put: the asserted count is the count put reports ---------------- *)
Lemma put_blank_free dbg m a' n site i x lo : Put_spec dbg -> Rep m -> geti m i = Some x ->
  (forall j y, j < i -> geti m j = Some y -> slast y < lo) -> lo <= a' -> a' + n <= sfirst x -> n <= 256 ->
  exists m', put_blank dbg m a' n site = Go m' /\ Rep m' /\ abs m' = d_write (abs m) a' (zeros n).
Proof.
  intros HP HR Gx Before L1 L2 L3. unfold put_blank, blank, PAGE_SIZE.
  destruct (256 <? n) eqn:E; [lia|]. cbn [pbind].
  destruct (Rep_seg_ok m HR _ _ Gx) as (S1 & S2 & S3).
  destruct (HP m a' (zeros n) HR) as (m' & k & Pm & Rm & Dm); [lia|rewrite len_zeros; unfold SPACE, U32 in *; lia|].
  rewrite Pm. cbn [of_map pbind].
  unfold d_put in Dm. fold (len (zeros n)) in Dm. rewrite len_zeros in Dm.
  destruct (SPACE <? a' + n) eqn:E2; [unfold SPACE, U32 in *; lia|]. inversion Dm as [[D1 D2]].
  assert (F : d_fresh (abs m) a' (zeros n) = n).
  { rewrite d_fresh_all; [apply len_zeros|]. intros (cx, cy) Hc. cbn [fst]. rewrite len_zeros.
    destruct (abs_in m HR _ _ Hc) as (s & Hs & T1 & T2). destruct (In_geti _ _ Hs) as (j & Gj).
    destruct (N.lt_ge_cases j i) as [Lt|Ge].
    - left. pose proof (Before j s Lt Gj). lia.
    - right. pose proof (Rep_mono m HR i j x s Ge Gx Gj). lia. }
  rewrite F, N.eqb_refl. exists m'. repeat split; [exact Rm|now symmetry].
Qed.

(* the segment found by find(prev + 1, Above) starts at least two addresses after prev *)
Lemma next_after (dbg : bool) m prev i x : Rep m -> ends_at m prev -> geti m i = Some x -> prev + 1 <= slast x ->
  prev + 1 < sfirst x.
Proof.
  intros HR (s & Hs & E) Gx L. destruct (In_geti _ _ Hs) as (j & Gj).
  destruct (Rep_seg_ok m HR _ _ Gj) as (S1 & S2 & S3).
  destruct (N.lt_trichotomy j i) as [Lt|[->|Lt]].
  - pose proof (Rep_sorted m HR _ _ _ _ Lt Gj Gx). lia.
  - rewrite Gj in Gx. inversion Gx; subst. lia.
  - pose proof (Rep_sorted m HR _ _ _ _ Lt Gx Gj). lia.
Qed.

(* after a padding put that ends at or before the start of segment x, x's last address still ends a segment *)
Lemma ends_after_put m m' a' n x : Rep m -> Rep m' -> In x m -> abs m' = d_write (abs m) a' (zeros n) ->
  a' + n <= sfirst x -> ends_at m' (slast x).
Proof.
  intros HR HR' Hx HA L. apply (ends_at_dict m' (slast x) HR').
  destruct (proj1 (ends_at_dict m (slast x) HR) (ex_intro _ x (conj Hx eq_refl))) as (E1 & E2).
  destruct (In_geti _ _ Hx) as (j & Gj). destruct (Rep_seg_ok m HR _ _ Gj) as (S1 & S2 & S3).
  rewrite HA. split.
  - now apply d_get_d_write_some.
  - rewrite d_get_d_write_out by (rewrite len_zeros; lia). exact E2.
Qed.

Lemma mod_page_lt a : a mod PAGE_SIZE < 256.
Proof. unfold PAGE_SIZE. apply N.mod_lt. discriminate. Qed.
Lemma mod_page_le a : a mod PAGE_SIZE <= a.
Proof. unfold PAGE_SIZE. apply N.mod_le. discriminate. Qed.

Lemma pad_loop_safe dbg : Put_spec dbg -> forall fuel m prev, Rep m -> ends_at m prev ->
  pad_loop dbg fuel m prev = FStop \/ exists m', pad_loop dbg fuel m prev = Go m' /\ Rep m'.
Proof.
  intros HP. induction fuel as [|fuel IH]; intros m prev HR HE; [now left|].
  cbn [pad_loop]. destruct (prev <? U32MAX) eqn:EP; [|right; eauto].
  assert (PL : prev + 1 < U32) by (unfold U32MAX, U32 in *; lia).
  rewrite padd_ok by exact PL. cbn [pbind].
  destruct (find_above_spec dbg m (prev + 1) HR) as (r & F & Spec). rewrite F. cbn [of_map pbind].
  destruct r as [(rf, rl)|]; [|right; eauto].
  destruct Spec as (i & x & Gx & <- & <- & L & Before).
  pose proof (next_after dbg m prev i x HR HE Gx L) as NA.
  destruct (Rep_seg_ok m HR _ _ Gx) as (S1 & S2 & S3).
  pose proof (geti_In _ _ _ Gx) as Hx.
  pose proof (mod_page_lt (sfirst x)) as M1. pose proof (mod_page_le (sfirst x)) as M2.
  set (off := sfirst x mod PAGE_SIZE) in *.
  destruct (0 <? off) eqn:E0.
  - rewrite psub_ok by exact M2. cbn [pbind].
    destruct (sfirst x - off <=? prev) eqn:EB.
    + rewrite psub_ok by lia. cbn [pbind]. rewrite psub_ok by lia. cbn [pbind].
      destruct (put_blank_free dbg m (prev + 1) (sfirst x - prev - 1) P_assert_join i x (prev + 1) HP HR Gx Before
                  ltac:(lia) ltac:(lia) ltac:(lia)) as (m' & G & R' & A').
      rewrite G. cbn [pbind]. apply IH; [exact R'|].
      apply (ends_after_put m m' (prev + 1) (sfirst x - prev - 1) x HR R' Hx A'). lia.
    + destruct (put_blank_free dbg m (sfirst x - off) off P_assert_base i x (prev + 1) HP HR Gx Before
                  ltac:(lia) ltac:(lia) ltac:(lia)) as (m' & G & R' & A').
      rewrite G. cbn [pbind]. apply IH; [exact R'|].
      apply (ends_after_put m m' (sfirst x - off) off x HR R' Hx A'). lia.
  - cbn [pbind]. apply IH; [exact HR|]. exists x. split; [exact Hx|reflexivity].
Qed.

Lemma pad_step_safe dbg m : Put_spec dbg -> Rep m ->
  pad_step dbg m = FStop \/ exists m', pad_step dbg m = Go m' /\ Rep m'.
Proof.
  intros HP HR. unfold pad_step.
  destruct (find_above_spec dbg m 0 HR) as (r & F & Spec). rewrite F. cbn [of_map pbind].
  destruct r as [(ff, fl)|]; [|right; eauto].
  destruct Spec as (i & x & Gx & <- & <- & L & Before).
  destruct (Rep_seg_ok m HR _ _ Gx) as (S1 & S2 & S3).
  pose proof (geti_In _ _ _ Gx) as Hx.
  pose proof (mod_page_lt (sfirst x)) as M1. pose proof (mod_page_le (sfirst x)) as M2.
  set (off := sfirst x mod PAGE_SIZE) in *.
  destruct (0 <? off) eqn:E0.
  - rewrite psub_ok by exact M2. cbn [pbind].
    destruct (put_blank_free dbg m (sfirst x - off) off P_assert_prepad i x 0 HP HR Gx Before
                ltac:(lia) ltac:(lia) ltac:(lia)) as (m' & G & R' & A').
    rewrite G. cbn [pbind]. apply (pad_loop_safe dbg HP); [exact R'|].
    apply (ends_after_put m m' (sfirst x - off) off x HR R' Hx A'). lia.
  - cbn [pbind]. apply (pad_loop_safe dbg HP); [exact HR|]. exists x. split; [exact Hx|reflexivity].
Qed.

(* checksum + padding: refused, out of fuel, or a well-formed map for the writer - never a panic *)
Lemma padded_safe dbg m : Rep m -> Bytes m -> IterRange_spec dbg -> Put_spec dbg ->
  (exists r, padded dbg m = RStop r) \/ padded dbg m = FStop \/ exists m2, padded dbg m = Go m2 /\ Rep m2.
Proof.
  intros HR HB HI HP. unfold padded. destruct (0 <? map_len m); [|left; exists R_empty; reflexivity].
  destruct (checksum_step_total dbg m HR HB HI HP) as [(m1 & G & R1 & _)|(G & _)].
  - rewrite G. cbn [pbind]. destruct (pad_step_safe dbg m1 HP R1) as [F|(m2 & G2 & R2)].
    + right. left. exact F.
    + right. right. exists m2. split; assumption.
  - rewrite G. left. exists R_checksum_overlap. reflexivity.
Qed.

Lemma padded_no_panic dbg m : Rep m -> Bytes m -> IterRange_spec dbg -> Put_spec dbg -> forall s, padded dbg m <> PStop s.
Proof.
  intros HR HB HI HP s. destruct (padded_safe dbg m HR HB HI HP) as [(r & E)|[E|(m2 & E & _)]]; rewrite E; discriminate.
Qed.

(* ---------------- the whole post-processing never panics ---------------- *)
From Trion Require Import Bin.TriasProofs2.

Lemma post_no_panic dbg m : Rep m -> Bytes m -> IterRange_spec dbg -> Put_spec dbg ->
  (forall m2, padded dbg m = Go m2 -> small m2) ->
  forall s, post dbg m <> PPanic s.
Proof.
  intros HR HB HI HP HS s. unfold post.
  destruct (padded_safe dbg m HR HB HI HP) as [(r & E)|[E|(m2 & E & R2)]]; rewrite E; cbn [pbind outcome_of]; try discriminate.
  pose proof (emit_no_panic_small dbg m2 R2 (HS m2 E)) as NP.
  destruct (emit_step dbg m2) as [f|r|p|]; cbn [outcome_of]; try discriminate. now destruct (NP p).
Qed.
