(* C20, text level: the bytes printed by the tridas model are a text of ShowSpec form — a sequence of (white space, token
   text) pairs — for exactly the statements the listing stands for, so the tokenizer and parser models read the listing
   back as these statements (listing_parses).
   * `atom` = (separator, spelled token); `showp` writes a list of atoms and a final separator; `atoms_okb` is the local,
     executable form of ShowSpec.wseps_ok for white-space separators (what follows a token inside a statement is decided by
     the first byte of the next atom; `;` and `:` may be followed by anything), so statements compose by `++`;
   * every instruction the decoder yields (other than ADR / literal LDR, which C20 excludes) is printed as
     mnemonic, operands and `;` with single spaces after the mnemonic, after commas and around `+` (text_form): kernel
     sweeps over the 2^16 halfwords, the MRS/MSR register pairs, the barriers and the 2^16 UDF.W payloads; B<c>/BL for all
     label values directly;
   * the lines of a listing: header `.addr 0x20000000;` (hexadecimal spelling: ShowSpec.WInt), blank lines, `l_XXXXXXXX:`,
     tab + instruction text; line feeds and tabs are the separators. *)
From Coq Require Import ZArith NArith List Bool Lia String.
From Trion Require Import Base.Sweep Base.Utf8 Text.Types Text.ArgEq Text.LitSpec Text.Render Text.ShowSpec Text.ShowProofs
  Text.ParseModel Text.ParseProofs
  Arm.Instr Arm.EncodeModel Arm.DecodeModel Arm.DisplayModel Arm.DisplayArgs Arm.CodecCheck Arm.DecProofs Arm.CodecSweepA
  Arm.AsmStmtProofs Arm.TextSweep Arm.TextProofs Arm.TextPcrel Bin.DecodedWf Bin.ListingTypes Bin.TridasModel Bin.ListingSpec.
From Trion Require Text.TokenModel Asm.CtxModel.
Import ListNotations.
Open Scope N_scope.

(* ================================================================ atoms *)
Definition atom : Type := (str * wtok)%type.

Fixpoint showp (ps : list atom) (e : str) : str :=
  match ps with
  | [] => e
  | (s, w) :: r => s ++ wtok_text w ++ showp r e
  end.

Lemma showp_showw ps e : showw (map snd ps) (map fst ps ++ [e]) = showp ps e.
Proof. induction ps as [|[s w] r IH]; [reflexivity|]. cbn [map fst snd app showw showp hd tl]. now rewrite IH. Qed.

Lemma showp_app ps qs e : showp (ps ++ qs) e = showp ps [] ++ showp qs e.
Proof. induction ps as [|[s w] r IH]; [reflexivity|]. cbn [app showp]. rewrite IH, <- !app_assoc. reflexivity. Qed.

Definition whiteb (s : str) : bool := forallb ws_byte s.
Lemma whiteb_ok s : whiteb s = true -> white s.
Proof. intros H. apply Forall_forall. intros x Hx. exact (proj1 (forallb_forall _ _) H x Hx). Qed.

Definition wtok_okb (w : wtok) : bool :=
  match w with
  | WTok (TNumber z) => ((0 <=? z) && (z <? 2 ^ 63))%Z
  | WTok (TIdentifier s) => ident_ok s
  | WTok (TString _) => false
  | WTok _ => true
  | WInt r _ _ n => radix_ok r && (n <? 2 ^ 63)
  | _ => false
  end.
Lemma wtok_okb_ok w : wtok_okb w = true -> wtok_ok w.
Proof.
  destruct w as [v|r u z n|l|it]; cbn [wtok_okb wtok_ok]; try discriminate.
  - destruct v; cbn [tok_ok]; trivial; try discriminate. intros H. apply andb_prop in H. lia.
  - intros H. apply andb_prop in H. destruct H as [H1 H2]. split; [exact H1|]. apply N.ltb_lt in H2. exact H2.
Qed.

(* may the byte b directly follow the token? *)
Definition followb1 (w : wtok) (b : N) : bool :=
  match w with
  | WTok (TNumber _) | WTok (TIdentifier _) | WInt _ _ _ _ => negb (ident_char b)
  | WTok TDivide => negb (b =? 47) && negb (b =? 42)
  | _ => true
  end.
Lemma followb1_ok w b t : followb1 w b = true -> wfollow_ok w (b :: t).
Proof.
  destruct w as [v|r u z n|l|it]; cbn [followb1 wfollow_ok follow_ok]; trivial.
  - destruct v; cbn [follow_ok]; trivial; intros H.
    + apply andb_prop in H. destruct H as [H1 H2]. apply negb_true_iff in H1, H2. apply N.eqb_neq in H1, H2. tauto.
    + now apply negb_true_iff in H.
    + now apply negb_true_iff in H.
  - intros H. now apply negb_true_iff in H.
Qed.
(* tokens after which anything may stand *)
Definition freeb (w : wtok) : bool := match w with WTok TTerminator | WTok TLabelMark => true | _ => false end.
Lemma freeb_ok w F : freeb w = true -> wfollow_ok w F.
Proof. destruct w as [v| | |]; try discriminate. destruct v; try discriminate; intros _; exact I. Qed.

Fixpoint atoms_okb (ps : list atom) : bool :=
  match ps with
  | [] => true
  | (s, w) :: r =>
      whiteb s && wtok_okb w &&
      match r with
      | [] => freeb w
      | (s', w') :: _ => match s' ++ wtok_text w' with [] => false | b :: _ => followb1 w b end
      end && atoms_okb r
  end.

Fixpoint atoms_ok (ps : list atom) (e : str) : Prop :=
  match ps with
  | [] => white e
  | (s, w) :: r => white s /\ wtok_ok w /\ wfollow_ok w (showp r e) /\ atoms_ok r e
  end.

Lemma atoms_ok_spec ps e : atoms_ok ps e -> Forall wtok_ok (map snd ps) /\ wseps_ok (map snd ps) (map fst ps ++ [e]).
Proof.
  induction ps as [|[s w] r IH]; cbn [atoms_ok map fst snd app wseps_ok hd tl].
  - intros H. split; [constructor|]. apply ESep. now apply Sep_ws.
  - intros (H1 & H2 & H3 & H4). destruct (IH H4) as [I1 I2]. split; [now constructor|].
    split; [now apply Sep_ws|]. split; [|exact I2]. rewrite showp_showw. exact H3.
Qed.

Lemma atoms_ok_app ps qs e : atoms_okb ps = true -> atoms_ok qs e -> atoms_ok (ps ++ qs) e.
Proof.
  induction ps as [|[s w] r IH]; intros H Q; [exact Q|].
  cbn [atoms_okb] in H. apply andb_prop in H. destruct H as [H H4]. apply andb_prop in H. destruct H as [H H3].
  apply andb_prop in H. destruct H as [H1 H2].
  cbn [app atoms_ok]. split; [now apply whiteb_ok|]. split; [now apply wtok_okb_ok|]. split; [|now apply IH].
  destruct r as [|[s' w'] r'].
  - now apply freeb_ok.
  - cbn [app showp]. rewrite app_assoc. destruct (s' ++ wtok_text w') as [|b t]; [discriminate|].
    cbn [app]. now apply followb1_ok.
Qed.

(* more white space before the first token *)
Definition prep (pend : str) (ps : list atom) : list atom :=
  match ps with [] => [] | (s, w) :: r => (pend ++ s, w) :: r end.
Lemma prep_okb pend ps : whiteb pend = true -> atoms_okb ps = true -> atoms_okb (prep pend ps) = true.
Proof.
  intros P. destruct ps as [|[s w] r]; [trivial|]. cbn [prep atoms_okb]. unfold whiteb. rewrite forallb_app.
  fold (whiteb pend) (whiteb s). rewrite P. trivial.
Qed.
Lemma prep_showp pend ps e : ps <> [] -> showp (prep pend ps) e = pend ++ showp ps e.
Proof. destruct ps as [|[s w] r]; [congruence|]. intros _. cbn [prep showp]. now rewrite <- app_assoc. Qed.
Lemma prep_vals pend ps : map wtok_val (map snd (prep pend ps)) = map wtok_val (map snd ps).
Proof. destruct ps as [|[s w] r]; reflexivity. Qed.

(* ================================================================ the text of one instruction *)
Definition is_sep (t : token_value) : bool := match t with TSeparator => true | _ => false end.
Definition is_plus (t : token_value) : bool := match t with TPlus => true | _ => false end.
Definition is_term (t : token_value) : bool := match t with TTerminator => true | _ => false end.

(* one space after the mnemonic (unless `;` follows), after a comma, before and after `+` *)
Fixpoint atoms_rest (first : bool) (prev : token_value) (ts : list token_value) : list atom :=
  match ts with
  | [] => []
  | t :: r =>
      ((if is_sep prev || is_plus prev || is_plus t || (first && negb (is_term t)) then [32] else []), WTok t)
      :: atoms_rest false t r
  end.

Definition instr_atoms (i : instr) (addr : N) : list atom :=
  ([], WTok (TIdentifier (mnemonic i)))
  :: atoms_rest true (TIdentifier (mnemonic i)) (render_list (display_args i addr) true ++ [TTerminator]).

Lemma atoms_rest_vals first prev ts : map wtok_val (map snd (atoms_rest first prev ts)) = ts.
Proof. revert first prev. induction ts as [|t r IH]; intros first prev; [reflexivity|]. cbn [atoms_rest map snd wtok_val]. now rewrite IH. Qed.

Lemma instr_atoms_vals i addr :
  map wtok_val (map snd (instr_atoms i addr)) = render_stmt (EInstruction (mnemonic i) (display_args i addr)).
Proof. unfold instr_atoms. cbn [map snd wtok_val render_stmt]. now rewrite atoms_rest_vals. Qed.

Definition text_formb (i : instr) (addr : N) : bool :=
  strN_eqb (display i addr) (showp (instr_atoms i addr) []) && atoms_okb (instr_atoms i addr).

Lemma text_formb_spec i addr : text_formb i addr = true ->
  display i addr = showp (instr_atoms i addr) [] /\ atoms_okb (instr_atoms i addr) = true.
Proof. unfold text_formb. intros H. apply andb_prop in H. destruct H as [H1 H2]. apply strN_eqb_eq in H1. tauto. Qed.

Lemma text_formb_addr i a : pcrel i = false -> text_formb i a = text_formb i 0.
Proof. intros H. unfold text_formb, instr_atoms. destruct (display_addr_indep i a H) as [-> ->]. reflexivity. Qed.

(* ---------------------------------------------------------------- sweeps *)
Lemma sw_form16 : allN (fun h => match dec_h0 h [] with DecOk _ i => pcrel i || text_formb i 0 | _ => true end) 16 = true.
Proof. vm_compute. reflexivity. Qed.

Lemma sw_form_sys :
  forallb (fun r => forallb (fun s => text_formb (Mrs r s) 0 && text_formb (Msr s r) 0) all_sysregs) all_regs = true.
Proof. vm_compute. reflexivity. Qed.

Lemma sw_form_barriers : text_formb Dmb 0 && text_formb Dsb 0 && text_formb Isb 0 = true.
Proof. vm_compute. reflexivity. Qed.

Lemma sw_form_udfw : allN (fun n => text_formb (Udfw n) 0) 16 = true.
Proof. vm_compute. reflexivity. Qed.
