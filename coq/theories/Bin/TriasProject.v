(* C18 end to end for whole PROJECTS: with the multi-file reference layout of C05 (Asm/LayoutSpecExt.layout_spec_ext, class
   Asm/LayoutMulti.C05_project_class) the file `trias` writes holds the reference image of the project. *)
From Coq Require Import ZArith NArith List Bool Lia.
From Trion Require Import Text.Types Mem.MapModel Mem.DictSpec Mem.MapProofs Asm.CtxModel.
From Trion Require Import Asm.LayoutSpec Asm.LayoutFinal Asm.LayoutSpecExt Asm.LayoutMulti Asm.LayoutMultiFile.
From Trion Require Import Bin.TriasModel Bin.ImageSpec Bin.TriasProofs Bin.TriasProofs5 Bin.TriasProofs6 Bin.PipeBytesMap Bin.PipeBytes Bin.PipeBytesText Bin.TriasPipeline.
Import ListNotations.
Open Scope N_scope.

Theorem reference_image_project dbg fs fuel path text els placed names : (8 <= fuel)%nat -> fs_bytes fs -> bytes text ->
  parse_els text = Some els ->
  layout_spec_ext (rel_fs fs path) parse_ref (map e_val els) = Some (placed, names) ->
  C05_project_class fs path (map e_val els) ->
  page0_free (image_dict_x placed) -> image_dict_x placed <> [] -> must_refuse (image_dict_x placed) = false ->
  exists file, trias_assemble dbg fs fuel path text = Ran (POk file) /\ image_ok (image_dict_x placed) file = true.
Proof.
  intros Hf HF HT PE HL HC H0 A1 A2.
  pose proof (project_layout dbg fs fuel path text els placed names Hf PE HL HC) as E.
  assert (EA : abs (image_x placed) = image_dict_x placed) by (unfold image_x; apply (proj1 (runs_spec _))).
  rewrite <- EA in *. exact (end_to_end_image dbg fs fuel path text (image_x placed) HF HT E H0 A1 A2).
Qed.
