(* C20: the tridas model on well-formed binaries (ListingSpec.wf_binary): it terminates without panic within the
   driver's fuel, visits every instruction exactly once, and prints exactly the labels the oracle asks for. *)
From Coq Require Import ZArith NArith List Bool Lia ZifyBool ZifyNat ZifyN Sorted.
From Trion Require Import Arm.Instr Arm.DecodeModel Arm.EncodeModel Arm.CodecCheck Arm.DecProofs Arm.DisplayModel
  Arm.DisplayArgs Arm.AsmStmtModel Arm.AsmStmtProofs Bin.DecodedWf Bin.ListingTypes Bin.TridasModel Bin.ListingSpec.
Import ListNotations.
Open Scope N_scope.

(* ---------- sorted-list sets and maps ---------- *)
Lemma set_insert_in x y s : In x (set_insert y s) <-> x = y \/ In x s.
Proof.
  induction s as [|z t IH]; cbn [set_insert In]; [intuition|].
  destruct (N.ltb y z); [cbn [In]; intuition|].
  destruct (N.eqb y z) eqn:E; [apply N.eqb_eq in E; subst; cbn [In]; intuition|].
  cbn [In]. rewrite IH. intuition.
Qed.
Lemma set_remove_in x y s : In x (set_remove y s) -> In x s.
Proof.
  induction s as [|z t IH]; cbn [set_remove In]; [intuition|].
  destruct (N.eqb y z); [intuition|]. destruct (N.ltb y z); [cbn [In]; intuition|]. cbn [In]. intuition.
Qed.
Lemma set_remove_keep x y s : In x s -> x <> y -> In x (set_remove y s).
Proof.
  induction s as [|z t IH]; cbn [set_remove In]; [intuition|]. intros H Hn.
  destruct (N.eqb y z) eqn:E; [apply N.eqb_eq in E; subst; destruct H; [congruence|assumption]|].
  destruct (N.ltb y z); [cbn [In]; assumption|]. cbn [In]. destruct H; [left; assumption | right; apply IH; assumption].
Qed.
Lemma set_insert_len y s : (length (set_insert y s) <= S (length s))%nat.
Proof.
  induction s as [|z t IH]; cbn [set_insert length]; [lia|].
  destruct (N.ltb y z); [cbn [length]; lia|]. destruct (N.eqb y z); cbn [length]; lia.
Qed.
Lemma set_remove_len y s : (length (set_remove y s) <= length s)%nat.
Proof.
  induction s as [|z t IH]; cbn [set_remove length]; [lia|].
  destruct (N.eqb y z); [lia|]. destruct (N.ltb y z); cbn [length]; lia.
Qed.
Lemma set_mem_in x s : set_mem x s = true <-> In x s.
Proof.
  induction s as [|z t IH]; cbn [set_mem In]; [intuition discriminate|].
  rewrite orb_true_iff, IH, N.eqb_eq. intuition.
Qed.

Lemma map_mem_insert k k' v m : map_mem k (map_insert k' v m) = N.eqb k k' || map_mem k m.
Proof.
  induction m as [|[k0 v0] t IH]; cbn [map_insert map_mem]; [reflexivity|].
  destruct (N.ltb k' k0) eqn:L; [reflexivity|].
  destruct (N.eqb k' k0) eqn:E.
  - apply N.eqb_eq in E. subst. cbn [map_mem]. destruct (N.eqb k k0); reflexivity.
  - cbn [map_mem]. rewrite IH. destruct (N.eqb k k'), (N.eqb k k0); reflexivity.
Qed.
Lemma map_insert_in e k v m : In e (map_insert k v m) -> e = (k, v) \/ In e m.
Proof.
  induction m as [|[k0 v0] t IH]; cbn [map_insert In]; [intuition|].
  destruct (N.ltb k k0); [cbn [In]; intuition|].
  destruct (N.eqb k k0); cbn [In]; intuition.
Qed.
Lemma map_mem_in k m : map_mem k m = true <-> exists v, In (k, v) m.
Proof.
  induction m as [|[k0 v0] t IH]; cbn [map_mem In].
  - split; [discriminate | intros [v []]].
  - rewrite orb_true_iff, IH, N.eqb_eq. split.
    + intros [->|[v H]]; [exists v0; left; reflexivity | exists v; right; exact H].
    + intros [v [H|H]]; [inversion H; left; reflexivity | right; exists v; exact H].
Qed.
Lemma map_insert_keys (P : N -> Prop) k v m : P k -> Forall P (map fst m) -> Forall P (map fst (map_insert k v m)).
Proof.
  intros Pk. induction m as [|[k0 v0] t IH]; cbn [map_insert map fst]; intros F.
  - constructor; [exact Pk | constructor].
  - inversion F as [|? ? P0 Ft]; subst. destruct (N.ltb k k0).
    + constructor; [exact Pk|]. cbn [map fst]. constructor; assumption.
    + destruct (N.eqb k k0); cbn [map fst]; constructor; auto.
Qed.
Lemma map_insert_sorted k v m : StronglySorted N.lt (map fst m) -> StronglySorted N.lt (map fst (map_insert k v m)).
Proof.
  induction m as [|[k0 v0] t IH]; cbn [map_insert map fst]; intros S.
  - constructor; constructor.
  - inversion S as [|? ? St Ft]; subst. destruct (N.ltb k k0) eqn:L.
    + apply N.ltb_lt in L. constructor; [exact S|]. cbn [map fst]. constructor; [exact L|].
      eapply Forall_impl; [|exact Ft]. cbn. intros; lia.
    + destruct (N.eqb k k0) eqn:E.
      * apply N.eqb_eq in E. subst. cbn [map fst]. constructor; assumption.
      * apply N.eqb_neq in E. apply N.ltb_ge in L. cbn [map fst]. constructor; [apply IH; exact St|].
        apply map_insert_keys; [lia | exact Ft].
Qed.

(* two strictly sorted maps with the same entries are the same list *)
Lemma sorted_ext (m1 m2 : list entry) :
  StronglySorted N.lt (map fst m1) -> StronglySorted N.lt (map fst m2) ->
  (forall e, In e m1 <-> In e m2) -> m1 = m2.
Proof.
  revert m2. induction m1 as [|e1 t1 IH]; intros m2 S1 S2 H.
  - destruct m2 as [|e2 t2]; [reflexivity|]. exfalso. apply (H e2). left; reflexivity.
  - destruct m2 as [|e2 t2]; [exfalso; apply (H e1); left; reflexivity|].
    cbn [map] in S1, S2. inversion S1 as [|? ? S1t F1]; subst. inversion S2 as [|? ? S2t F2]; subst.
    rewrite Forall_forall in F1, F2.
    assert (He : e1 = e2).
    { destruct (proj1 (H e1) (or_introl eq_refl)) as [A|A]; [symmetry; exact A|].
      destruct (proj2 (H e2) (or_introl eq_refl)) as [B|B]; [exact B|].
      assert (X := F2 (fst e1) (in_map fst _ _ A)). assert (Y := F1 (fst e2) (in_map fst _ _ B)). lia. }
    subst e2. f_equal. apply IH; [exact S1t | exact S2t |].
    intros e. split; intros I.
    + destruct (proj1 (H e) (or_intror I)) as [A|A]; [|exact A].
      subst e. assert (X := F1 (fst e1) (in_map fst _ _ I)). lia.
    + destruct (proj2 (H e) (or_intror I)) as [A|A]; [|exact A].
      subst e. assert (X := F2 (fst e1) (in_map fst _ _ I)). lia.
Qed.

Lemma filter_len_le {T} (p q : T -> bool) (l : list T) :
  (forall x, In x l -> q x = true -> p x = true) -> (length (filter q l) <= length (filter p l))%nat.
Proof.
  induction l as [|a t IH]; intros H; cbn [filter length]; [lia|].
  assert (IH' := IH (fun x I => H x (or_intror I))).
  destruct (q a) eqn:Q; [rewrite (H a (or_introl eq_refl) Q); cbn [length]; lia|].
  destruct (p a); cbn [length]; lia.
Qed.
Lemma filter_len_lt {T} (p q : T -> bool) (l : list T) a :
  (forall x, In x l -> q x = true -> p x = true) -> In a l -> p a = true -> q a = false ->
  (length (filter q l) < length (filter p l))%nat.
Proof.
  induction l as [|b t IH]; intros H I Pa Qa; [destruct I|]. cbn [filter length].
  assert (Ht := fun x I => H x (or_intror I)).
  destruct I as [->|I].
  - rewrite Pa, Qa. cbn [length]. assert (X := filter_len_le p q t Ht). lia.
  - assert (IH' := IH Ht I Pa Qa).
    destruct (q b) eqn:Q; [rewrite (H b (or_introl eq_refl) Q); cbn [length]; lia|].
    destruct (p b); cbn [length]; lia.
Qed.

(* ---------- the instruction list of a binary ---------- *)
Inductive chain : N -> list item -> N -> Prop :=
| ch_nil o : chain o [] o
| ch_cons o i n l e : n = 2 \/ n = 4 -> chain (o + n) l e -> chain o ((o, i, n) :: l) e.

Lemma chain_le s l e : chain s l e -> s + 2 * N.of_nat (length l) <= e.
Proof. induction 1; cbn [length]; lia. Qed.

Lemma chain_in s l e : chain s l e -> forall o i n, In (o, i, n) l ->
  s <= o /\ (n = 2 \/ n = 4) /\ o + n <= e /\ (o + n = e \/ exists i' n', In (o + n, i', n') l) /\
  ((exists k, s = 2 * k) -> exists k, o = 2 * k).
Proof.
  induction 1 as [o1|o0 i0 n0 l e Hn C IH]; intros o i n I; [destruct I|].
  assert (Le := chain_le _ _ _ C).
  destruct I as [I|I].
  - inversion I; subst. repeat split; try lia; [|intros X; exact X].
    inversion C; subst; [left; reflexivity | right; eexists; eexists; right; left; reflexivity].
  - destruct (IH o i n I) as [A [B [C1 [D E]]]]. repeat split; try lia.
    + destruct D as [D|[i' [n' D]]]; [left; exact D | right; exists i', n'; right; exact D].
    + intros [k Hk]. apply E. destruct Hn as [->| ->]; [exists (k + 1) | exists (k + 2)]; lia.
Qed.

Lemma chain_unique s l e : chain s l e -> forall o i n i' n', In (o, i, n) l -> In (o, i', n') l -> i = i' /\ n = n'.
Proof.
  induction 1 as [o1|o0 i0 n0 l e Hn C IH]; intros o i n i' n' I1 I2; [destruct I1|].
  destruct I1 as [I1|I1], I2 as [I2|I2].
  - inversion I1; inversion I2; subst. split; reflexivity.
  - inversion I1; subst. destruct (chain_in _ _ _ C _ _ _ I2) as [A _]. lia.
  - inversion I2; subst. destruct (chain_in _ _ _ C _ _ _ I1) as [A _]. lia.
  - exact (IH _ _ _ _ _ I1 I2).
Qed.

Lemma chain_head s l e : chain s l e -> l <> [] -> exists i n, In (s, i, n) l.
Proof. intros C N0. inversion C; subst; [congruence|]. eexists; eexists; left; reflexivity. Qed.

Lemma bytes_ok_skipn k bs : bytes_ok bs -> bytes_ok (skipn k bs).
Proof.
  unfold bytes_ok. revert bs. induction k as [|k IH]; intros bs H; [exact H|].
  destruct bs as [|x t]; [exact H|]. cbn [skipn]. apply IH. inversion H; assumption.
Qed.

Lemma skipn_add {T} a c (l : list T) : skipn a (skipn c l) = skipn (a + c) l.
Proof.
  revert l. induction c as [|c IH]; intros l; [rewrite Nat.add_0_r; reflexivity|].
  rewrite Nat.add_succ_r. destruct l as [|x t]; [cbn [skipn]; destruct a; reflexivity|]. cbn [skipn]. apply IH.
Qed.

Lemma dec_len_24 bs n i : bytes_ok bs -> dec bs = DecOk n i -> n = 2 \/ n = 4.
Proof.
  intros Hb E. destruct (dec_ok_facts bs n i Hb E) as [H _]. rewrite H. unfold expect_len.
  destruct (N.leb 29 _); [right | left]; reflexivity.
Qed.

Lemma sweep_chain f : forall off bs l, bytes_ok bs -> sweep f off bs = Some l ->
  chain off l (off + N.of_nat (length bs)) /\
  Forall (fun e => match e with (o, i, n) => off <= o /\ dec (skipn (N.to_nat (o - off)) bs) = DecOk n i end) l.
Proof.
  induction f as [|f IH]; intros off bs l Hb E; [discriminate|]. cbn [sweep] in E.
  destruct bs as [|b0 t] eqn:Ebs.
  - inversion E; subst. cbn [length]. replace (off + N.of_nat 0) with off by lia. split; constructor.
  - rewrite <- Ebs in *. destruct (dec bs) as [n i| |] eqn:D; try discriminate.
    destruct (N.ltb 0 n && N.leb n (N.of_nat (length bs))) eqn:G; [|discriminate].
    apply andb_prop in G. destruct G as [G1 G2]. apply N.ltb_lt in G1. apply N.leb_le in G2.
    destruct (sweep f (off + n) (skipn (N.to_nat n) bs)) as [l'|] eqn:S; [|discriminate].
    inversion E; subst l. clear E.
    destruct (IH _ _ _ (bytes_ok_skipn _ _ Hb) S) as [C F].
    assert (L : length (skipn (N.to_nat n) bs) = (length bs - N.to_nat n)%nat) by apply skipn_length.
    split.
    + constructor; [exact (dec_len_24 _ _ _ Hb D)|].
      replace (off + N.of_nat (length bs)) with (off + n + N.of_nat (length (skipn (N.to_nat n) bs))) by lia. exact C.
    + constructor.
      * split; [lia|]. replace (N.to_nat (off - off)) with 0%nat by lia. exact D.
      * eapply Forall_impl; [|exact F]. intros [[o i'] n']. intros [A B]. split; [lia|].
        rewrite skipn_add in B. replace (N.to_nat (o - off)) with (N.to_nat (o - (off + n)) + N.to_nat n)%nat by lia. exact B.
Qed.

Ltac Zify.zify_post_hook ::= Z.div_mod_to_equations.

Lemma u32_small x : x < 4294967296 -> u32 x = x.
Proof.
  intros H. unfold u32. change 4294967295 with (N.ones 32). rewrite N.land_ones. apply N.mod_small. exact H.
Qed.

Lemma get_returns_terminal i : get_returns i = negb (terminal i).
Proof.
  destruct i; try reflexivity; try (destruct dst; reflexivity); try (destruct c; reflexivity).
Qed.

Definition A (o : N) : N := BASE + o.
Definition entry_of (e : item) : entry := match e with (o, i, n) => (A o, (i, A (o + n))) end.

(* the loop body of the inner loop as a state transformer *)
Definition step (st : state) (addr : N) (i : instr) (n : N) : state :=
  let q1 := set_remove addr (queries st) in
  mkState (match get_branch i addr with
           | Some dst => if negb (N.eqb dst addr) && negb (map_mem addr (instrs st)) then set_insert dst q1 else q1
           | None => q1
           end)
          (map_insert addr (i, u32 (addr + u32 n)) (instrs st))
          (match get_branch i addr with Some dst => set_insert dst (branches st) | None => branches st end).

Section WF.
Variable b : list N.
Variable l : list item.
Hypothesis Hb : bytes_ok b.
Hypothesis Hl : instructions b = Some l.
Hypothesis Hwf : wf_items l = true.
Hypothesis Hfit : N.of_nat (length b) < 0xE0000000.      (* BASE + len < 2^32: no u32 wrap *)
Local Notation len := (N.of_nat (length b)).

Lemma Hsweep : chain 0 l len /\ forall o i n, In (o, i, n) l -> dec (skipn (N.to_nat o) b) = DecOk n i.
Proof.
  destruct (sweep_chain _ _ _ _ Hb Hl) as [C F]. split; [exact C|].
  intros o i n I. rewrite Forall_forall in F. destruct (F _ I) as [_ D].
  replace (N.to_nat o) with (N.to_nat (o - 0)) by lia. exact D.
Qed.
Definition Hchain := proj1 Hsweep.
Definition Hdec := proj2 Hsweep.

Lemma wf_parts : l <> [] /\ targets_ok l = true /\ (forall e, In e l -> memN (item_off e) (reachable l) = true).
Proof.
  unfold wf_items in Hwf. apply andb_prop in Hwf. destruct Hwf as [H H4]. apply andb_prop in H. destruct H as [H H3].
  apply andb_prop in H. destruct H as [H1 _]. split; [|split].
  - intros ->. discriminate.
  - exact H3.
  - rewrite forallb_forall in H4. exact H4.
Qed.

Lemma item_facts o i n : In (o, i, n) l ->
  o < len /\ o + n <= len /\ (n = 2 \/ n = 4) /\ (exists k, o = 2 * k) /\ (o + n = len \/ exists i' n', In (o + n, i', n') l).
Proof.
  intros I. destruct (chain_in _ _ _ Hchain _ _ _ I) as [_ [H2 [H3 [H4 H5]]]].
  repeat split; try lia; [|exact H4]. apply H5. exists 0. reflexivity.
Qed.

Lemma target_item o i n t : In (o, i, n) l -> direct_target o i = Some t ->
  (0 <= t)%Z /\ exists i' n', In (Z.to_N t, i', n') l.
Proof.
  intros I D. destruct wf_parts as [_ [T _]]. unfold targets_ok in T. rewrite forallb_forall in T.
  assert (X := T _ I). cbn beta iota in X. rewrite D in X. unfold is_boundary in X. apply existsb_exists in X.
  destruct X as [[[o' i'] n'] [I' E]]. apply Z.eqb_eq in E. cbn [item_off fst] in E. subst t.
  split; [lia|]. exists i', n'. rewrite N2Z.id. exact I'.
Qed.

Lemma off_even_B o n c off : In (o, B c off, n) l -> Z.land off 1 = 0%Z.
Proof.
  intros I. assert (D := Hdec _ _ _ I).
  destruct (dec_ok_facts _ _ _ (bytes_ok_skipn _ _ Hb) D) as [_ [_ [hws [E _]]]].
  destruct (cond_eq_dec c Always) as [->|Hc].
  - exact (proj2 (enc_B_always _ _ E)).
  - exact (proj2 (enc_B_cond _ _ _ Hc E)).
Qed.
Lemma off_even_Bl o n off : In (o, Bl off, n) l -> Z.land off 1 = 0%Z.
Proof.
  intros I. assert (D := Hdec _ _ _ I).
  destruct (dec_ok_facts _ _ _ (bytes_ok_skipn _ _ Hb) D) as [_ [_ [hws [E _]]]].
  exact (proj2 (enc_Bl _ _ E)).
Qed.

Lemma A_even o : (exists k, o = 2 * k) -> N.land (A o) 1 = 0.
Proof.
  intros [k ->]. change 1 with (N.ones 1). rewrite N.land_ones. unfold A, BASE. change (2 ^ 1) with 2. lia.
Qed.

Lemma branch_target o t : o < len -> (0 <= t)%Z -> Z.to_N t < len -> forall off, t = (Z.of_N o + 4 + off)%Z ->
  wadd (wadd (A o) 4) off = A (Z.to_N t).
Proof.
  intros Lo T0 Tl off ->. rewrite wadd_wadd, u32w_mod. unfold A, BASE in *.
  rewrite Z.mod_small by lia. lia.
Qed.

Lemma get_branch_item o i n : In (o, i, n) l ->
  get_branch i (A o) = match direct_target o i with Some t => Some (A (Z.to_N t)) | None => None end.
Proof.
  intros I. destruct (item_facts _ _ _ I) as [Lo [_ [_ [Ev _]]]].
  unfold get_branch. rewrite (A_even _ Ev). cbn [N.eqb].
  destruct i; try reflexivity.
  - rewrite (off_even_B _ _ _ _ I). cbn [Z.eqb direct_target].
    destruct (target_item _ _ _ _ I eq_refl) as [T0 [i' [n' I']]].
    destruct (item_facts _ _ _ I') as [Lt _]. f_equal. apply branch_target; try assumption. reflexivity.
  - rewrite (off_even_Bl _ _ _ I). cbn [Z.eqb direct_target].
    destruct (target_item _ _ _ _ I eq_refl) as [T0 [i' [n' I']]].
    destruct (item_facts _ _ _ I') as [Lt _]. f_equal. apply branch_target; try assumption. reflexivity.
Qed.

Lemma A_inj x y : A x = A y -> x = y.
Proof. unfold A. lia. Qed.
Lemma A_eqb x y : N.eqb (A x) (A y) = N.eqb x y.
Proof. unfold A. destruct (N.eqb x y) eqn:E; [apply N.eqb_eq in E; subst; apply N.eqb_refl|]. apply N.eqb_neq in E. apply N.eqb_neq. lia. Qed.

Lemma addr_of_pos o : o < len -> u32 (BASE + u32 o) = A o.
Proof. intros L. unfold A, BASE in *. rewrite (u32_small o) by lia. apply u32_small. lia. Qed.
Lemma after_of o n : o + n <= len -> u32 (A o + u32 n) = A (o + n).
Proof. intros L. unfold A, BASE in *. rewrite (u32_small n) by lia. rewrite u32_small by lia. lia. Qed.

Lemma inner_unfold f pos st n i : pos < len -> dec (skipn (N.to_nat pos) b) = DecOk n i ->
  inner (S f) b pos st =
    if negb (get_returns i) then IOk (step st (u32 (BASE + u32 pos)) i n)
    else inner f b (pos + n) (step st (u32 (BASE + u32 pos)) i n).
Proof.
  intros L D. cbn [inner]. rewrite (proj2 (N.ltb_lt _ _) L), D. unfold step.
  destruct (get_branch i (u32 (BASE + u32 pos))); reflexivity.
Qed.

(* ---------- the traversal invariant ---------- *)
Definition keyin (o : N) (st : state) : Prop := map_mem (A o) (instrs st) = true.

Record InvI (st : state) (pend : N) : Prop := {
  iQ : forall q, In q (queries st) -> exists o i n, In (o, i, n) l /\ q = A o;
  iS : StronglySorted N.lt (map fst (instrs st));
  iE : forall x, In x (instrs st) -> exists o i n, In (o, i, n) l /\ x = entry_of (o, i, n);
  iF : forall o i n, In (o, i, n) l -> keyin o st -> terminal i = false ->
         o + n = len \/ o + n = pend \/ keyin (o + n) st;
  iT : forall o i n t, In (o, i, n) l -> keyin o st -> direct_target o i = Some t ->
         Z.to_N t = pend \/ keyin (Z.to_N t) st \/ In (A (Z.to_N t)) (queries st);
  iB1 : forall x, In x (branches st) -> exists o i n t, In (o, i, n) l /\ direct_target o i = Some t /\ x = A (Z.to_N t);
  iB2 : forall o i n t, In (o, i, n) l -> keyin o st -> direct_target o i = Some t -> In (A (Z.to_N t)) (branches st);
  iZ : In (A 0) (queries st) \/ keyin 0 st \/ pend = 0
}.

Lemma keyin_step st o i n x : keyin x (step st (A o) i n) <-> x = o \/ keyin x st.
Proof.
  unfold keyin, step. cbn [instrs]. rewrite map_mem_insert, A_eqb, orb_true_iff, N.eqb_eq. reflexivity.
Qed.

Lemma step_inv st o i n p' : InvI st o -> In (o, i, n) l -> (terminal i = false -> p' = o + n) ->
  InvI (step st (A o) i n) p'.
Proof.
  intros V I Hp. destruct (item_facts _ _ _ I) as [Lo [Le _]].
  assert (GB := get_branch_item _ _ _ I).
  assert (Q' : forall q, In q (queries (step st (A o) i n)) ->
               In q (queries st) \/ exists t, direct_target o i = Some t /\ q = A (Z.to_N t)).
  { intros q. unfold step. cbn [queries]. rewrite GB. destruct (direct_target o i) as [t|].
    - destruct (negb _ && negb _).
      + rewrite set_insert_in. intros [->|H]; [right; exists t; split; reflexivity | left; exact (set_remove_in _ _ _ H)].
      + intros H. left. exact (set_remove_in _ _ _ H).
    - intros H. left. exact (set_remove_in _ _ _ H). }
  assert (Qk : forall q, In q (queries st) -> q <> A o -> In q (queries (step st (A o) i n))).
  { intros q H Hn. unfold step. cbn [queries]. assert (X := set_remove_keep _ _ _ H Hn).
    destruct (get_branch i (A o)); [|exact X]. destruct (negb _ && negb _); [apply set_insert_in; right; exact X | exact X]. }
  assert (Bk : forall x, In x (branches st) -> In x (branches (step st (A o) i n))).
  { intros x H. unfold step. cbn [branches]. destruct (get_branch i (A o)); [apply set_insert_in; right; exact H | exact H]. }
  constructor.
  - (* iQ *) intros q H. destruct (Q' q H) as [H1|[t [D ->]]]; [exact (iQ _ _ V q H1)|].
    destruct (target_item _ _ _ _ I D) as [_ [i' [n' I']]]. exists (Z.to_N t), i', n'. split; [exact I' | reflexivity].
  - (* iS *) unfold step. cbn [instrs]. apply map_insert_sorted. exact (iS _ _ V).
  - (* iE *) intros x H. unfold step in H. cbn [instrs] in H. apply map_insert_in in H. destruct H as [->|H]; [|exact (iE _ _ V x H)].
    exists o, i, n. split; [exact I|]. cbn [entry_of]. rewrite (after_of _ _ Le). reflexivity.
  - (* iF *) intros o1 i1 n1 I1 K1 T1. apply keyin_step in K1. destruct K1 as [->|K1].
    + destruct (chain_unique _ _ _ Hchain _ _ _ _ _ I I1) as [<- <-]. right; left. symmetry. exact (Hp T1).
    + destruct (iF _ _ V _ _ _ I1 K1 T1) as [H|[H|H]]; [left; exact H | right; right; apply keyin_step; left; exact H
        | right; right; apply keyin_step; right; exact H].
  - (* iT *) intros o1 i1 n1 t1 I1 K1 D1. apply keyin_step in K1.
    assert (Old : keyin o1 st -> Z.to_N t1 = p' \/ keyin (Z.to_N t1) (step st (A o) i n) \/ In (A (Z.to_N t1)) (queries (step st (A o) i n))).
    { intros K. destruct (iT _ _ V _ _ _ _ I1 K D1) as [H|[H|H]].
      - right; left. apply keyin_step. left; exact H.
      - right; left. apply keyin_step. right; exact H.
      - destruct (N.eq_dec (Z.to_N t1) o) as [E|E]; [right; left; apply keyin_step; left; exact E|].
        right; right. apply Qk; [exact H|]. intros X. apply A_inj in X. contradiction. }
    destruct K1 as [->|K1]; [|exact (Old K1)].
    destruct (chain_unique _ _ _ Hchain _ _ _ _ _ I I1) as [<- <-].
    destruct (map_mem (A o) (instrs st)) eqn:M; [exact (Old M)|].
    destruct (N.eq_dec (Z.to_N t1) o) as [E|E]; [right; left; apply keyin_step; left; exact E|].
    right; right. unfold step. cbn [queries]. rewrite GB, D1, M, A_eqb, (proj2 (N.eqb_neq _ _) E). cbn [negb andb].
    apply set_insert_in. left; reflexivity.
  - (* iB1 *) intros x H. unfold step in H. cbn [branches] in H. rewrite GB in H.
    destruct (direct_target o i) as [t|] eqn:D; [|exact (iB1 _ _ V x H)].
    apply set_insert_in in H. destruct H as [->|H]; [|exact (iB1 _ _ V x H)].
    exists o, i, n, t. repeat split; assumption.
  - (* iB2 *) intros o1 i1 n1 t1 I1 K1 D1. apply keyin_step in K1. destruct K1 as [->|K1]; [|exact (Bk _ (iB2 _ _ V _ _ _ _ I1 K1 D1))].
    destruct (chain_unique _ _ _ Hchain _ _ _ _ _ I I1) as [<- <-].
    unfold step. cbn [branches]. rewrite GB, D1. apply set_insert_in. left; reflexivity.
  - (* iZ *) destruct (N.eq_dec o 0) as [E|E]; [right; left; apply keyin_step; left; symmetry; exact E|].
    destruct (iZ _ _ V) as [H|[H|H]]; [| right; left; apply keyin_step; right; exact H | contradiction].
    left. apply Qk; [exact H|]. intros X. apply A_inj in X. congruence.
Qed.

(* ---------- the measure that bounds the outer loop ---------- *)
Definition cnt (m : list entry) : nat := length (filter (fun e => negb (map_mem (A (item_off e)) m)) l).
Definition mu (st : state) : nat := (2 * cnt (instrs st) + length (queries st))%nat.

Lemma step_mu st o i n : In (o, i, n) l -> (mu (step st (A o) i n) <= mu st)%nat.
Proof.
  intros I. unfold mu, step. cbn [instrs queries].
  set (m' := map_insert (A o) (i, u32 (A o + u32 n)) (instrs st)).
  assert (Mono : forall x, In x l -> negb (map_mem (A (item_off x)) m') = true -> negb (map_mem (A (item_off x)) (instrs st)) = true).
  { intros x _. unfold m'. rewrite map_mem_insert. destruct (map_mem (A (item_off x)) (instrs st)); [rewrite orb_true_r; trivial | trivial]. }
  assert (R := set_remove_len (A o) (queries st)).
  destruct (map_mem (A o) (instrs st)) eqn:M.
  - assert (C := filter_len_le _ _ l Mono). fold (cnt m') in C. fold (cnt (instrs st)) in C.
    destruct (get_branch i (A o)); [rewrite andb_false_r|]; lia.
  - assert (C : (cnt m' < cnt (instrs st))%nat).
    { unfold cnt. apply (filter_len_lt _ _ l (o, i, n) Mono I); cbn [item_off fst].
      - rewrite M. reflexivity.
      - unfold m'. rewrite map_mem_insert, N.eqb_refl. reflexivity. }
    destruct (get_branch i (A o)) as [dst|]; [|lia].
    destruct (negb (N.eqb dst (A o)) && negb false); [|lia].
    assert (X := set_insert_len dst (set_remove (A o) (queries st))). lia.
Qed.

Lemma inner_inv : forall f pos st, InvI st pos -> (pos = len \/ exists i n, In (pos, i, n) l) ->
  (N.to_nat (len - pos) < f)%nat ->
  exists st', inner f b pos st = IOk st' /\ InvI st' len /\ (mu st' <= mu st)%nat.
Proof.
  induction f as [|f IH]; intros pos st V P F; [lia|].
  destruct P as [->|[i [n I]]].
  - exists st. cbn [inner]. rewrite N.ltb_irrefl. split; [reflexivity|]. split; [exact V | lia].
  - destruct (item_facts _ _ _ I) as [Lo [Le [N24 [_ Nx]]]].
    rewrite (inner_unfold f pos st n i Lo (Hdec _ _ _ I)), (addr_of_pos _ Lo), get_returns_terminal, negb_involutive.
    assert (M := step_mu st _ _ _ I).
    destruct (terminal i) eqn:T.
    + exists (step st (A pos) i n). split; [reflexivity|]. split; [|exact M].
      apply step_inv; [exact V | exact I | intros X; rewrite T in X; discriminate].
    + assert (V' : InvI (step st (A pos) i n) (pos + n)) by (apply step_inv; [exact V | exact I | reflexivity]).
      destruct (IH (pos + n) _ V') as [st' [E [V'' M']]].
      * destruct Nx as [Nx|Nx]; [left; exact Nx | right; exact Nx].
      * lia.
      * exists st'. split; [exact E|]. split; [exact V'' | lia].
Qed.

Lemma target_lt o i n t : In (o, i, n) l -> direct_target o i = Some t -> Z.to_N t < len.
Proof.
  intros I D. destruct (target_item _ _ _ _ I D) as [_ [i' [n' I']]]. exact (proj1 (item_facts _ _ _ I')).
Qed.

Lemma outer_inv : forall f st, InvI st len -> (mu st < f)%nat ->
  exists st', outer f b st = ODone st' /\ InvI st' len /\ queries st' = [].
Proof.
  induction f as [|f IH]; intros st V F; [lia|]. cbn [outer].
  destruct (queries st) as [|start qs] eqn:Q; [exists st; split; [reflexivity|]; split; assumption|].
  destruct (iQ _ _ V start) as [o [i [n [I ->]]]]; [rewrite Q; left; reflexivity|].
  destruct (item_facts _ _ _ I) as [Lo _].
  cbn [set_remove]. rewrite N.eqb_refl.
  rewrite (u32_small len) by lia.
  replace (N.leb BASE (A o)) with true by (symmetry; apply N.leb_le; unfold A; lia).
  replace (A o - BASE) with o by (unfold A; lia).
  rewrite (proj2 (N.ltb_lt _ _) Lo). cbn [andb].
  set (st1 := mkState qs (instrs st) (branches st)).
  assert (V1 : InvI st1 o).
  { constructor; unfold st1; cbn [queries instrs branches].
    - intros q H. apply (iQ _ _ V). rewrite Q. right; exact H.
    - exact (iS _ _ V).
    - exact (iE _ _ V).
    - intros o1 i1 n1 I1 K1 T1. destruct (iF _ _ V _ _ _ I1 K1 T1) as [H|[H|H]]; [left; exact H | left; exact H | right; right; exact H].
    - intros o1 i1 n1 t1 I1 K1 D1. destruct (iT _ _ V _ _ _ _ I1 K1 D1) as [H|[H|H]].
      + assert (X := target_lt _ _ _ _ I1 D1). lia.
      + right; left; exact H.
      + rewrite Q in H. destruct H as [H|H]; [left; symmetry; exact (A_inj _ _ H) | right; right; exact H].
    - exact (iB1 _ _ V).
    - exact (iB2 _ _ V).
    - destruct (iZ _ _ V) as [H|[H|H]]; [| right; left; exact H | destruct (item_facts _ _ _ I); lia].
      rewrite Q in H. destruct H as [H|H]; [right; right; exact (A_inj _ _ H) | left; exact H]. }
  destruct (inner_inv (S (length b)) o st1 V1) as [st2 [E [V2 M2]]]; [right; exists i, n; exact I | lia |].
  rewrite E. apply IH; [exact V2|].
  assert (X : mu st = S (mu st1)). { unfold mu, st1. cbn [queries instrs]. rewrite Q. cbn [length]. lia. }
  lia.
Qed.

Lemma filter_len {T} (p : T -> bool) (x : list T) : (length (filter p x) <= length x)%nat.
Proof. induction x as [|a t IH]; cbn [filter length]; [lia|]. destruct (p a); cbn [length]; lia. Qed.

Lemma traverse_ok : exists st, traverse b = ODone st /\ InvI st len /\ queries st = [].
Proof.
  unfold traverse. apply outer_inv.
  - destruct wf_parts as [N0 _]. destruct (chain_head _ _ _ Hchain N0) as [i [n I]].
    constructor; unfold init_state, keyin; cbn [queries instrs branches map_mem In]; try (intros; discriminate); try (intros; contradiction).
    + intros q [<-|[]]. exists 0, i, n. split; [exact I|]. unfold A. rewrite N.add_0_r. reflexivity.
    + constructor.
    + left. left. unfold A. rewrite N.add_0_r. reflexivity.
  - unfold mu, init_state, fuel_for. cbn [queries instrs length]. assert (X := filter_len (fun e => negb (map_mem (A (item_off e)) [])) l).
    fold (cnt []) in X. assert (Y := chain_le _ _ _ Hchain). lia.
Qed.

(* ---------- every instruction is visited ---------- *)
Lemma explore_P (P : N -> Prop) : (forall o, P o -> Forall P (succs l o)) ->
  forall f todo seen, Forall P todo -> Forall P seen -> Forall P (explore f l todo seen).
Proof.
  intros Hs. induction f as [|f IH]; intros todo seen Ht Hse; [exact Hse|]. cbn [explore].
  destruct todo as [|o rest]; [exact Hse|]. inversion Ht as [|? ? Po Pr]; subst.
  destruct (memN o seen); [apply IH; assumption|].
  apply IH; [apply Forall_app; split; [apply Hs; exact Po | exact Pr] | constructor; assumption].
Qed.

Lemma all_visited st : InvI st len -> queries st = [] -> forall o i n, In (o, i, n) l -> keyin o st.
Proof.
  intros V Q.
  set (P := fun x => x = len \/ keyin x st).
  assert (Hs : forall o, P o -> Forall P (succs l o)).
  { intros o Po. unfold succs, item_at. destruct (find _ l) as [[[o' i] n]|] eqn:Fd; [|constructor].
    apply find_some in Fd. destruct Fd as [I E]. cbn [item_off fst] in E. apply N.eqb_eq in E. subst o'.
    destruct (item_facts _ _ _ I) as [Lo _].
    assert (K : keyin o st) by (destruct Po as [Po|Po]; [lia | exact Po]).
    apply Forall_app. split.
    - destruct (terminal i) eqn:T; [constructor|]. constructor; [|constructor].
      destruct (iF _ _ V _ _ _ I K T) as [H|[H|H]]; [left; exact H | left; exact H | right; exact H].
    - destruct (direct_target o i) as [t|] eqn:D; [|constructor]. destruct (Z.leb 0 t); [|constructor].
      constructor; [|constructor]. destruct (iT _ _ V _ _ _ _ I K D) as [H|[H|H]]; [left; exact H | right; exact H|].
      rewrite Q in H. destruct H. }
  assert (R : Forall P (reachable l)).
  { unfold reachable. apply explore_P; [exact Hs | | constructor]. constructor; [|constructor].
    destruct (iZ _ _ V) as [H|[H|H]]; [rewrite Q in H; destruct H | right; exact H | left; symmetry; exact H]. }
  intros o i n I. destruct wf_parts as [_ [_ W]]. assert (X := W _ I). cbn [item_off fst] in X.
  unfold memN in X. apply existsb_exists in X. destruct X as [x [Ix Ex]]. apply N.eqb_eq in Ex. subst x.
  rewrite Forall_forall in R. destruct (R _ Ix) as [H|H]; [|exact H].
  destruct (item_facts _ _ _ I). lia.
Qed.

Lemma chain_sorted s x e : chain s x e -> StronglySorted N.lt (map fst (map entry_of x)).
Proof.
  induction 1 as [o|o i n x e Hn C IH]; cbn [map entry_of fst]; constructor; [exact IH|].
  rewrite Forall_forall. intros k Hk. apply in_map_iff in Hk. destruct Hk as [y [<- Hy]].
  apply in_map_iff in Hy. destruct Hy as [[[o' i'] n'] [<- I']]. cbn [entry_of fst].
  destruct (chain_in _ _ _ C _ _ _ I') as [Ge _]. unfold A. lia.
Qed.

Lemma final_instrs st : InvI st len -> queries st = [] -> instrs st = map entry_of l.
Proof.
  intros V Q. apply sorted_ext; [exact (iS _ _ V) | exact (chain_sorted _ _ _ Hchain) |].
  intros x. split; intros H.
  - destruct (iE _ _ V x H) as [o [i [n [I ->]]]]. apply in_map. exact I.
  - apply in_map_iff in H. destruct H as [[[o i] n] [<- I]].
    assert (K := all_visited st V Q _ _ _ I). unfold keyin in K. apply map_mem_in in K. destruct K as [v Hv].
    destruct (iE _ _ V _ Hv) as [o' [i' [n' [I' E]]]]. cbn [entry_of] in E. inversion E as [[E1 E2]]. apply A_inj in E1. subst o'.
    destruct (chain_unique _ _ _ Hchain _ _ _ _ _ I I') as [<- <-]. cbn [entry_of]. rewrite <- E2. exact Hv.
Qed.

Lemma final_branches st : InvI st len -> queries st = [] ->
  forall o i n, In (o, i, n) l -> set_mem (A o) (branches st) = is_target l o.
Proof.
  intros V Q o i n I. destruct (is_target l o) eqn:T.
  - apply set_mem_in. unfold is_target in T. apply existsb_exists in T. destruct T as [[[o1 i1] n1] [I1 E]].
    destruct (direct_target o1 i1) as [t|] eqn:D; [|discriminate]. apply Z.eqb_eq in E. subst t.
    assert (X := iB2 _ _ V _ _ _ _ I1 (all_visited st V Q _ _ _ I1) D). rewrite N2Z.id in X. exact X.
  - destruct (set_mem (A o) (branches st)) eqn:M; [|reflexivity]. apply set_mem_in in M.
    destruct (iB1 _ _ V _ M) as [o1 [i1 [n1 [t [I1 [D E]]]]]]. apply A_inj in E.
    destruct (target_item _ _ _ _ I1 D) as [T0 _].
    assert (X : is_target l o = true).
    { unfold is_target. apply existsb_exists. exists (o1, i1, n1). split; [exact I1|]. rewrite D. apply Z.eqb_eq. lia. }
    congruence.
Qed.

(* ---------- the printed lines ---------- *)
Lemma print_chain br : forall s x e sp, chain s x e ->
  nonblank (print_loop (map entry_of x) br sp (A s)) =
    flat_map (fun it => match it with (o, i, _) => (if set_mem (A o) br then [LLabel (A o)] else []) ++ [LInstr i (A o)] end) x /\
  only_instr (print_loop (map entry_of x) br sp (A s)) = map (fun it => match it with (o, i, _) => LInstr i (A o) end) x.
Proof.
  intros s x e sp C. revert sp. induction C as [o|o i n x e Hn C IH]; intros sp; [split; reflexivity|].
  cbn [map entry_of print_loop flat_map]. rewrite N.eqb_refl. cbn [negb app].
  destruct (IH (negb (get_returns i))) as [IH1 IH2].
  unfold nonblank, only_instr in *. split.
  - destruct (set_mem (A o) br); [destruct sp|]; cbn [app filter]; rewrite IH1; reflexivity.
  - destruct (set_mem (A o) br); [destruct sp|]; cbn [app filter]; rewrite IH2; reflexivity.
Qed.

Lemma flat_map_ext_in {T U} (f g : T -> list U) x : (forall a, In a x -> f a = g a) -> flat_map f x = flat_map g x.
Proof.
  induction x as [|a t IH]; intros H; [reflexivity|]. cbn [flat_map]. rewrite (H a (or_introl eq_refl)), IH; [reflexivity|].
  intros; apply H; right; assumption.
Qed.

Theorem tridas_wf :
  exists ls, tridas_lines b = Some ls /\ tridas b = Listing (render ls) /\
             nonblank ls = LHeader :: lines_of_items l /\ only_instr ls = instr_lines_of_items l.
Proof.
  destruct traverse_ok as [st [E [V Q]]].
  exists (listing_lines st). unfold tridas_lines, tridas. rewrite E. split; [reflexivity|]. split; [reflexivity|].
  unfold listing_lines. rewrite (final_instrs st V Q).
  destruct (print_chain (branches st) 0 l len false Hchain) as [P1 P2].
  replace (A 0) with BASE in P1, P2 by (unfold A; rewrite N.add_0_r; reflexivity).
  split.
  - cbn [nonblank filter]. fold (nonblank (print_loop (map entry_of l) (branches st) false BASE)). rewrite P1. f_equal.
    unfold lines_of_items. apply flat_map_ext_in. intros [[o i] n] I. rewrite (final_branches st V Q _ _ _ I). reflexivity.
  - cbn [only_instr filter]. fold (only_instr (print_loop (map entry_of l) (branches st) false BASE)). rewrite P2. reflexivity.
Qed.

(* ---------- each line's statement re-assembles (C19) to the decoded instruction, whose canonical encoding (C03)
   is the original bytes unless the original halfword is the T1 ADDS/SUBS Rd,Rd,#imm3 alias ---------- *)
Lemma item_in_space o i n : In (o, i, n) l -> target_in_space i (A o) = true.
Proof.
  intros I.
  assert (NP : no_pc_data i = true).
  { unfold wf_items in Hwf. apply andb_prop in Hwf. destruct Hwf as [H _]. apply andb_prop in H. destruct H as [H _].
    apply andb_prop in H. destruct H as [_ H2]. rewrite forallb_forall in H2. exact (H2 _ I). }
  assert (BR : forall off, direct_target o i = Some (Z.of_N o + 4 + off)%Z ->
               (Z.leb 0 (Z.of_N (A o) + 4 + off) && Z.ltb (Z.of_N (A o) + 4 + off) 4294967296) = true).
  { intros off D. destruct (target_item _ _ _ _ I D) as [T0 _]. assert (Tl := target_lt _ _ _ _ I D).
    unfold A, BASE in *. lia. }
  destruct i; try reflexivity; cbn [no_pc_data] in NP; try discriminate.
  - apply BR. reflexivity.
  - apply BR. reflexivity.
  - destruct addr; try reflexivity. discriminate.
Qed.

Theorem stmt_of_item o i n : In (o, i, n) l ->
  exists hws, enc i = EncOk hws /\ 2 * N.of_nat (length hws) = n /\
    (forall ev local, ev_display ev ->
       conv_val (assemble_stmt ev local (A o) (mnemonic i) (display_args i (A o))) = Some i) /\
    (le_bytes hws = firstn_N n (skipn (N.to_nat o) b) \/
     alias_addsub_imm3 (first_halfword (skipn (N.to_nat o) b)) = true).
Proof.
  intros I. assert (D := Hdec _ _ _ I). assert (Hs := bytes_ok_skipn (N.to_nat o) b Hb).
  destruct (dec_ok_facts _ _ _ Hs D) as [_ [_ [hws [E [L [_ C]]]]]].
  exists hws. split; [exact E|]. split; [exact L|]. split; [|exact C].
  intros ev local EV. apply (stmt_roundtrip ev local i (A o) hws EV (dec_wf _ _ _ Hs D) E).
  - destruct (item_facts _ _ _ I) as [Lo _]. unfold A, BASE in *. lia.
  - exact (item_in_space _ _ _ I).
Qed.

End WF.

(* ---------- closed forms ---------- *)
Definition fits (b : list N) : Prop := N.of_nat (length b) < 0xE0000000.   (* the file ends below 2^32 when loaded at BASE *)

Lemma wf_binary_items b : wf_binary b = true -> exists l, instructions b = Some l /\ wf_items l = true.
Proof. unfold wf_binary. destruct (instructions b) as [l|]; [|discriminate]. intros H. exists l. split; [reflexivity | exact H]. Qed.

Definition only_label (ls : list line) : list line :=
  filter (fun x => match x with LLabel _ => true | _ => false end) ls.

Lemma only_label_nonblank ls : only_label (nonblank ls) = only_label ls.
Proof.
  induction ls as [|x t IH]; [reflexivity|]. unfold only_label, nonblank in *. cbn [filter].
  destruct x; cbn [filter]; rewrite IH; reflexivity.
Qed.

Lemma only_label_items (g : N -> bool) x :
  only_label (flat_map (fun e => match e with (off, i, _) => (if g off then [LLabel (base + off)] else []) ++ [LInstr i (base + off)] end) x)
  = map LLabel (flat_map (fun e => if g (item_off e) then [base + item_off e] else []) x).
Proof.
  induction x as [|[[o i] n] t IH]; [reflexivity|]. cbn [flat_map item_off fst]. unfold only_label in *.
  rewrite filter_app, IH, map_app. destruct (g o); reflexivity.
Qed.

Theorem tridas_total b : bytes_ok b -> fits b -> wf_binary b = true -> exists text, tridas b = Listing text.
Proof.
  intros Hb Hf W. destruct (wf_binary_items b W) as [l [Hl Hw]].
  destruct (tridas_wf b l Hb Hl Hw Hf) as [ls [_ [E _]]]. exists (render ls). exact E.
Qed.

Theorem tridas_shape b : bytes_ok b -> fits b -> wf_binary b = true ->
  exists ls, tridas_lines b = Some ls /\ tridas b = Listing (render ls) /\ nonblank ls = spec_lines b.
Proof.
  intros Hb Hf W. destruct (wf_binary_items b W) as [l [Hl Hw]].
  destruct (tridas_wf b l Hb Hl Hw Hf) as [ls [E1 [E2 [E3 _]]]]. exists ls. split; [exact E1|]. split; [exact E2|].
  unfold spec_lines. rewrite Hl. exact E3.
Qed.

Theorem tridas_labels b : bytes_ok b -> fits b -> wf_binary b = true ->
  exists ls, tridas_lines b = Some ls /\ only_label ls = map LLabel (labels_spec b).
Proof.
  intros Hb Hf W. destruct (wf_binary_items b W) as [l [Hl Hw]].
  destruct (tridas_wf b l Hb Hl Hw Hf) as [ls [E1 [_ [E3 _]]]]. exists ls. split; [exact E1|].
  rewrite <- only_label_nonblank, E3. unfold labels_spec. rewrite Hl. unfold lines_of_items, labels_of_items.
  change (only_label (LHeader :: ?x)) with (only_label x). apply (only_label_items (is_target l)).
Qed.

Theorem tridas_instr_lines b l : bytes_ok b -> fits b -> instructions b = Some l -> wf_items l = true ->
  exists ls, tridas_lines b = Some ls /\ only_instr ls = instr_lines_of_items l.
Proof.
  intros Hb Hf Hl Hw. destruct (tridas_wf b l Hb Hl Hw Hf) as [ls [E1 [_ [_ E4]]]]. exists ls. split; assumption.
Qed.

Theorem tridas_stmt_roundtrip b l : bytes_ok b -> fits b -> instructions b = Some l -> wf_items l = true ->
  forall o i n, In (o, i, n) l ->
  exists hws, enc i = EncOk hws /\ 2 * N.of_nat (length hws) = n /\
    (forall ev local, ev_display ev ->
       conv_val (assemble_stmt ev local (base + o) (mnemonic i) (display_args i (base + o))) = Some i) /\
    (le_bytes hws = firstn_N n (skipn (N.to_nat o) b) \/
     alias_addsub_imm3 (first_halfword (skipn (N.to_nat o) b)) = true).
Proof. intros Hb Hf Hl Hw o i n I. exact (stmt_of_item b l Hb Hl Hw Hf o i n I). Qed.
