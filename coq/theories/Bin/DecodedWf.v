(* Every decoded instruction has its fields inside the Rust field types (wf_instr): a 2^16 sweep for the 16-bit
   decoder, inversion of the five 32-bit leaves. Used by C20 to apply C19 (stmt_roundtrip) to decoded instructions. *)
From Coq Require Import ZArith NArith List Bool Lia ZifyBool ZifyNat ZifyN.
From Trion Require Import Base.Sweep Arm.Instr Arm.DecodeModel Arm.EncodeModel Arm.CodecCheck Arm.DecProofs Arm.AsmStmtProofs.
Import ListNotations.
Open Scope N_scope.

Definition i32_okb (z : Z) : bool := Z.leb (-2147483648) z && Z.leb z 2147483647.
Definition immreg_okb (x : immreg) : bool := match x with Imm v => i32_okb v | Reg _ => true end.
Definition wf_b (i : instr) : bool :=
  match i with
  | Add _ _ _ x | Sub _ _ _ x | Asr _ _ x | Lsl _ _ x | Lsr _ _ x | Cmp _ x | Mov _ _ x
  | Ldr _ _ x | Ldrb _ _ x | Ldrh _ _ x | Str _ _ x | Strb _ _ x | Strh _ _ x => immreg_okb x
  | Adr _ off => N.ltb off 65536
  | B _ off | Bl off => i32_okb off
  | Bkpt info | Svc info | Udf info => N.ltb info 256
  | Udfw info => N.ltb info 65536
  | Ldm _ rs | Stm _ rs | Pop rs | Push rs => N.ltb rs 65536
  | _ => true
  end.

Lemma i32_okb_ok z : i32_okb z = true -> i32_ok z.
Proof. unfold i32_okb, i32_ok. lia. Qed.
Lemma immreg_okb_ok x : immreg_okb x = true -> immreg_ok x.
Proof. destruct x; cbn; [apply i32_okb_ok | trivial]. Qed.
Lemma wf_b_ok i : wf_b i = true -> wf_instr i.
Proof.
  destruct i; cbn [wf_b wf_instr]; trivial; try apply immreg_okb_ok; try apply i32_okb_ok; intros H; apply N.ltb_lt in H; exact H.
Qed.

Lemma sw_wf16 : allN (fun h => match dec_h0 h [] with DecOk _ i => wf_b i | _ => true end) 16 = true.
Proof. vm_compute. reflexivity. Qed.

Lemma udfw_bound x y : N.lor (N.land x 0xF000) (N.land y 0xFFF) < 65536.
Proof.
  destruct (N.eq_dec (N.lor (N.land x 0xF000) (N.land y 0xFFF)) 0) as [E|E]; [rewrite E; reflexivity|].
  change 65536 with (2 ^ 16). apply N.log2_lt_pow2; [lia|]. rewrite N.log2_lor.
  assert (A := N.log2_land x 0xF000). assert (B := N.log2_land y 0xFFF).
  change (N.log2 0xF000) with 15 in A. change (N.log2 0xFFF) with 11 in B. lia.
Qed.

Ltac crush H :=
  repeat match type of H with
  | context [if ?c then _ else _] => destruct c
  | context [match reg_of_num ?x with _ => _ end] => destruct (reg_of_num x)
  | context [match sysreg_of_num ?x with _ => _ end] => destruct (sysreg_of_num x)
  end; try discriminate H; try (inversion H; subst; exact I).

Lemma dec32_wf h0 h1 n i hws : dec32 h0 h1 = DecOk n i -> enc i = EncOk hws -> wf_instr i.
Proof.
  intros H E. unfold dec32 in H.
  destruct (N.eqb (fld h0 11 3) 2 && N.eqb (fld h1 15 1) 1); [|discriminate].
  destruct (N.eqb (fld h0 5 63) 28 && N.eqb (fld h1 12 5) 0).
  { unfold dec32_msr, with_reg, ok4 in H. crush H. }
  destruct (N.eqb (fld h0 4 127) 59 && N.eqb (fld h1 12 5) 0).
  { unfold dec32_barrier, ok4 in H. cbv zeta in H. destruct (fld h1 4 15) as [|p]; [discriminate|].
    do 4 (try (destruct p as [p|p|]; try discriminate H)); crush H. }
  destruct (N.eqb (fld h0 5 63) 31 && N.eqb (fld h1 12 5) 0).
  { unfold dec32_mrs, with_reg, ok4 in H. crush H. }
  destruct (N.eqb (fld h0 4 127) 127 && N.eqb (fld h1 12 7) 2).
  { unfold dec32_udfw, ok4 in H. inversion H; subst. cbn [wf_instr]. unfold fld. rewrite N.shiftr_0_r. apply udfw_bound. }
  destruct (N.eqb (fld h1 12 5) 5); [|discriminate].
  unfold dec32_bl, ok4 in H. inversion H; subst. cbn [wf_instr].
  destruct (enc_Bl _ _ E) as [R _]. unfold i32_ok. lia.
Qed.

Theorem dec_wf bs n i : bytes_ok bs -> dec bs = DecOk n i -> wf_instr i.
Proof.
  intros Hb D. destruct (dec_ok_facts bs n i Hb D) as [_ [_ [hws [E _]]]].
  destruct bs as [|b0 [|b1 rest]]; try discriminate.
  inversion Hb as [|? ? B0 Hb1]; subst. inversion Hb1 as [|? ? B1 Hr]; subst.
  destruct (halfword_of_bytes b0 b1 B0 B1) as [Hh _]. cbv zeta in Hh.
  cbn [dec] in D. set (h0 := N.lor b0 (N.shiftl b1 8)) in *.
  destruct (top29 h0) eqn:T.
  - rewrite (dec_h0_long h0 rest Hh T) in D. destruct rest as [|b2 [|b3 r]]; try discriminate.
    exact (dec32_wf _ _ _ _ _ D E).
  - rewrite (dec_h0_short h0 rest T) in D.
    assert (S := allN_spec _ 16 sw_wf16 h0 Hh). cbv beta in S. rewrite D in S. exact (wf_b_ok _ S).
Qed.
