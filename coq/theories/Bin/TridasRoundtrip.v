(* C20, end to end: the bytes printed by the tridas model for a well-formed binary, given to the assembler pipeline model
   (Asm/CtxModel.pipeline: tokenizer, parser, Context, end-of-file tasks, close, finalize), are assembled WITHOUT any
   diagnostic to exactly one region at 0x20000000 holding the canonical encoding of every instruction of the binary - the
   binary itself when no instruction starts with a T1 ADDS/SUBS Rd,Rd,#imm3 alias halfword (known finding F24).
   Composition of: Bin/TridasProofs.tridas_wf (the lines of the listing), Bin/TridasText.listing_parses (characters ->
   statements), Bin/TridasLayout (reference layout of the statements, class, no collision) and the C05 acceptance theorem
   Asm/LayoutProgFinal.layout_accepts (= C05_layout_wf_partial). *)
From Coq Require Import ZArith NArith List Bool Lia ZifyBool ZifyNat ZifyN.
From Trion Require Import Text.Types Arm.Instr Arm.EncodeModel Arm.DecodeModel Arm.CodecCheck Arm.DecProofs
  Mem.MapModel Asm.CtxModel Asm.LayoutSpec Asm.LayoutFinal Asm.LayoutProgFinal
  Bin.ListingTypes Bin.TridasModel Bin.ListingSpec Bin.TridasProofs Bin.TridasAtoms Bin.TridasText Bin.TridasLayout.
From Trion Require Text.ParseModel.
Import ListNotations.
Open Scope N_scope.

Section WF.
Variable b : list N.
Variable l : list item.
Hypothesis Hb : bytes_ok b.
Hypothesis Hl : instructions b = Some l.
Hypothesis Hwf : wf_items l = true.
Hypothesis Hfit : N.of_nat (List.length b) < 0xE0000000.
Local Notation blen := (N.of_nat (List.length b)).

(* every instruction line of the listing is printed in the atom form *)
Lemma lines_ok ls : nonblank ls = LHeader :: lines_of_items l -> Forall line_ok ls.
Proof.
  intros NB. apply Forall_forall. intros x Hx. destruct x as [| |a|i a]; try exact I. cbn [line_ok].
  assert (Hin : In (LInstr i a) (nonblank ls)) by (unfold nonblank; apply filter_In; split; [exact Hx|reflexivity]).
  rewrite NB in Hin. destruct Hin as [Hin|Hin]; [discriminate Hin|].
  unfold lines_of_items in Hin. apply in_flat_map in Hin. destruct Hin as ([[o i'] n] & It & Hin).
  apply in_app_or in Hin. destruct Hin as [Hin|[Hin|[]]]; [destruct (is_target l o); [destruct Hin as [Hin|[]]; discriminate Hin|destruct Hin]|].
  inversion Hin; subst i' a. assert (IE : no_pc_data i = true /\ dec (skipn (N.to_nat o) b) = DecOk n i).
  { destruct (item_enc b l) with (o := o) (i := i) (n := n) as (_ & _ & _ & _ & _ & NP & D); try eassumption. split; assumption. }
  destruct IE as (NP & D).
  exact (dec_text_form _ _ _ _ (bytes_ok_skipn _ _ Hb) D NP).
Qed.

Theorem roundtrip_items fs path :
  exists ls, tridas b = Listing (render ls) /\
    CtxModel.pipeline fs path (render ls) = Done Success [] [(base, base + blen - 1, canonical_image l)] /\
    N.of_nat (List.length (canonical_image l)) = blen.
Proof.
  destruct (tridas_wf b l Hb Hl Hwf Hfit) as (ls & _ & E2 & E3 & _). exists ls. split; [exact E2|].
  destruct (listing_parses ls (lines_ok ls E3)) as (els & P & M). rewrite (listing_stmts_spec ls l E3) in M.
  assert (IL : image_of (placed_of l) = [(base, base + blen - 1, canonical_image l)] /\ MapModel.len (canonical_image l) = blen)
    by (eapply (image_listing fs); eassumption).
  destruct IL as (Im & Ln). split; [|exact Ln].
  rewrite <- Im. apply (layout_accepts fs path (render ls) els (placed_of l) (final_env l)).
  - exact P.
  - rewrite M. eapply layout_spec_listing; eassumption.
  - eapply class_listing; eassumption.
  - rewrite M. eapply (proj2 (pass1_spec_stmts fs b l _ _ _ _)).
    Unshelve. all: assumption.
Qed.

(* without an alias halfword the canonical image is the binary *)
Definition no_alias : Prop :=
  forall o i n, In (o, i, n) l -> alias_addsub_imm3 (first_halfword (skipn (N.to_nat o) b)) = false.

Lemma firstn_add {T} n m (x : list T) : firstn (n + m) x = firstn n x ++ firstn m (skipn n x).
Proof. revert x. induction n as [|n IH]; intros x; [reflexivity|]. destruct x as [|a x]; [now rewrite !firstn_nil|]. cbn. now rewrite IH. Qed.

Lemma canonical_chain : no_alias -> forall x o e_, chain o x e_ -> (forall it, In it x -> In it l) -> e_ <= blen ->
  canonical_image x = firstn (N.to_nat (e_ - o)) (skipn (N.to_nat o) b).
Proof.
  intros NA. induction 1 as [o|o i n x e_ Hn C IH]; intros Sub Le.
  - rewrite N.sub_diag. reflexivity.
  - assert (I : In (o, i, n) l) by (apply Sub; now left).
    assert (D : dec (skipn (N.to_nat o) b) = DecOk n i) by (eapply L_dec; eassumption). assert (Hs := bytes_ok_skipn (N.to_nat o) b Hb).
    destruct (dec_ok_facts _ _ _ Hs D) as [_ [_ [hws [E [L [_ Cn]]]]]].
    destruct Cn as [Cn|Cn]; [|rewrite (NA _ _ _ I) in Cn; discriminate].
    assert (Le' := chain_le _ _ _ C).
    rewrite canonical_image_bytes. cbn [flat_map item_bytes]. rewrite E, Cn, <- canonical_image_bytes.
    rewrite (IH (fun it H => Sub it (or_intror H)) Le). unfold firstn_N.
    replace (N.to_nat (e_ - o)) with (N.to_nat n + N.to_nat (e_ - (o + n)))%nat by lia.
    rewrite firstn_add. f_equal. f_equal. rewrite skipn_add. f_equal. lia.
Qed.

Theorem canonical_is_binary : no_alias -> canonical_image l = b.
Proof.
  intros NA. rewrite (canonical_chain NA l 0 blen ltac:(eapply L_chain; eassumption) (fun it H => H) (N.le_refl _)).
  rewrite N.sub_0_r, Nnat.Nat2N.id. cbn [N.to_nat skipn]. apply firstn_all.
Qed.
End WF.

(* ---------------------------------------------------------------- closed forms *)
Theorem tridas_roundtrip b fs path : bytes_ok b -> fits b -> wf_binary b = true ->
  exists text l, tridas b = Listing text /\ instructions b = Some l /\
    CtxModel.pipeline fs path text = Done Success [] [(base, base + N.of_nat (List.length b) - 1, canonical_image l)] /\
    N.of_nat (List.length (canonical_image l)) = N.of_nat (List.length b) /\
    ((forall o i n, In (o, i, n) l -> alias_addsub_imm3 (first_halfword (skipn (N.to_nat o) b)) = false) -> canonical_image l = b).
Proof.
  intros Hb Hf W. destruct (wf_binary_items b W) as (l & Hl & Hw).
  destruct (roundtrip_items b l Hb Hl Hw Hf fs path) as (ls & E & P & Ln).
  exists (render ls), l. split; [exact E|]. split; [exact Hl|]. split; [exact P|]. split; [exact Ln|].
  exact (canonical_is_binary b l Hb Hl Hf).
Qed.

(* the listing, as characters, is read by the tokenizer and parser models as exactly the statements it stands for:
   `.addr 0x20000000;`, then per instruction in address order `l_T:` (iff it is a branch target) and the instruction statement *)
Theorem tridas_listing_parses b : bytes_ok b -> fits b -> wf_binary b = true ->
  exists text l els, tridas b = Listing text /\ instructions b = Some l /\
    CtxModel.parse_source text = Parsed (map Text.ParseModel.IOk els) None /\ map e_val els = spec_stmts l.
Proof.
  intros Hb Hf W. destruct (wf_binary_items b W) as (l & Hl & Hw).
  destruct (tridas_wf b l Hb Hl Hw Hf) as (ls & _ & E2 & E3 & _).
  destruct (listing_parses ls (lines_ok b l Hb Hl Hw Hf ls E3)) as (els & P & M). rewrite (listing_stmts_spec ls l E3) in M.
  exists (render ls), l, els. auto.
Qed.

(* the reference layout (C05 oracle) of these statements: defined, instruction k placed at the address it came from with its
   canonical bytes, every label bound to the address it names, one region; the statement list is in the class of C05 and
   collision free *)
Theorem tridas_listing_layout b l fs : bytes_ok b -> fits b -> instructions b = Some l -> wf_items l = true ->
  layout_spec fs (spec_stmts l) = Some (placed_of l, final_env l) /\
  map (fun p => (fst (fst p), snd (fst p))) (placed_of l) = map (fun e => (base + item_off e, item_bytes e)) l /\
  image_of (placed_of l) = [(base, base + N.of_nat (List.length b) - 1, canonical_image l)] /\
  (forall o i n t, In (o, i, n) l -> direct_target o i = Some t ->
     env_get (final_env l) (Arm.DisplayModel.label (base + Z.to_N t)) = Some (Z.of_N (base + Z.to_N t))) /\
  (forall els, map e_val els = spec_stmts l -> C05_class fs (final_env l) els) /\
  Asm.LayoutWf.no_collision fs (spec_stmts l).
Proof.
  intros Hb Hf Hl Hw. split; [eapply layout_spec_listing; eassumption|]. split.
  { unfold placed_of. rewrite map_map. reflexivity. }
  split; [eapply (image_listing fs); eassumption|]. split.
  { intros o i n t I D.
    assert (FT : base + Z.to_N t < 4294967296 /\ In (Arm.DisplayModel.label (base + Z.to_N t), Z.of_N (base + Z.to_N t)) (final_env l))
      by (eapply (final_env_target fs); eassumption).
    destruct FT as (Tl & Hin).
    apply env_get_label; [eapply (final_env_label_env fs); eassumption|exact Tl|exact Hin]. }
  split; [intros els M; eapply class_listing; eassumption|].
  eapply (proj2 (pass1_spec_stmts fs b l _ _ _ _)).
  Unshelve. all: assumption.
Qed.

Theorem tridas_roundtrip_identity b fs path l : bytes_ok b -> fits b -> wf_binary b = true -> instructions b = Some l ->
  (forall o i n, In (o, i, n) l -> alias_addsub_imm3 (first_halfword (skipn (N.to_nat o) b)) = false) ->
  exists text, tridas b = Listing text /\
    CtxModel.pipeline fs path text = Done Success [] [(0x20000000, 0x20000000 + N.of_nat (List.length b) - 1, b)].
Proof.
  intros Hb Hf W Hl NA. destruct (tridas_roundtrip b fs path Hb Hf W) as (text & l' & E & Hl' & P & _ & C).
  rewrite Hl in Hl'. inversion Hl'; subst l'. exists text. split; [exact E|]. rewrite (C NA) in P. exact P.
Qed.
