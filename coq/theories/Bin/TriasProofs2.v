(* C18 proofs, part 2: the UF2 emission of `post` never panics (from C16's session_no_panic). *)
From Coq Require Import Arith NArith List Bool Lia ZifyBool ZifyNat ZifyN.
From Trion Require Import Mem.MapModel Mem.DictSpec Mem.MapProofs Mem.MapProofs2 Bin.TriasModel.
From Trion Require Uf2.WriteTypes Uf2.WriteModel Uf2.WriteProofs.
Import ListNotations.
Open Scope N_scope.

(* the calls `post` makes on the writer: one write_all per segment, main flash *)
Definition call_of (s : seg) : WriteTypes.wcall :=
  {| WriteTypes.w_all := true; WriteTypes.w_addr := sfirst s; WriteTypes.w_nf := false; WriteTypes.w_data := sdata s |}.
Definition ops_of (segs : list seg) : list WriteTypes.wcall := map call_of segs.

(* emit_loop is WriteModel.run on these calls, except that it stops at the first refused call *)
Lemma emit_loop_run dbg : forall segs st,
  match emit_loop dbg segs st with
  | Go st' => exists rs, WriteModel.run dbg st (ops_of segs) = (rs, Some st')
  | PStop p => exists s rs, p = P_uf2 s /\ WriteModel.run dbg st (ops_of segs) = (rs ++ [WriteModel.RPanic s], None)
  | RStop _ => True
  | FStop => False
  end.
Proof.
  induction segs as [|sg rest IH]; intros st.
  - cbn [emit_loop ops_of map WriteModel.run]. eauto.
  - cbn [emit_loop ops_of map WriteModel.run]. unfold WriteModel.step. cbn [call_of WriteTypes.w_all WriteTypes.w_addr WriteTypes.w_data WriteTypes.w_nf].
    destruct (WriteModel.write_all dbg st (sfirst sg) (sdata sg) false) as [(st', n)|e|s].
    + specialize (IH st'). fold (ops_of rest). destruct (emit_loop dbg rest st') as [st''|r|p|].
      * destruct IH as (rs & E). rewrite E. eauto.
      * exact I.
      * destruct IH as (s & rs & -> & E). rewrite E. exists s, (WriteModel.ROk n :: rs). split; reflexivity.
      * exact IH.
    + exact I.
    + exists s, []. split; reflexivity.
Qed.

Lemma cost_ops m : WriteProofs.cost (ops_of m) = len (abs m) + len m.
Proof.
  induction m as [|s r IH]; [reflexivity|].
  cbn [ops_of map WriteProofs.cost fold_right]. fold (ops_of r). fold (WriteProofs.cost (ops_of r)). rewrite IH.
  rewrite abs_cons, len_app, len_cells, len_cons. cbn [call_of WriteTypes.w_data]. unfold WriteTypes.len, len. lia.
Qed.

(* fewer than 2^32 bytes + regions: the sufficient condition under which C16 proves the block counter cannot overflow *)
Definition small (m : mmap) : Prop := len (abs m) + len m <= WriteModel.u32_max.

Lemma emit_no_panic_small dbg m : Rep m -> small m -> forall p, emit_step dbg m <> PStop p.
Proof.
  intros HR HS p.
  assert (CO : Forall WriteProofs.call_ok (ops_of m)).
  { unfold ops_of. rewrite Forall_map. rewrite Forall_forall. intros s Hs. unfold WriteProofs.call_ok, call_of. cbn [WriteTypes.w_addr].
    destruct (In_geti _ _ Hs) as (j & Gj). destruct (Rep_seg_ok m HR _ _ Gj) as (S1 & S2 & _).
    unfold U32, WriteModel.u32_max in *. lia. }
  pose proof (WriteProofs.session_no_panic dbg uf2_config (WriteModel.DVector 0) (ops_of m)
                ltac:(unfold WriteProofs.dest_ok, WriteModel.isize_max; lia) CO ltac:(rewrite cost_ops; exact HS)) as SN.
  unfold emit_step. unfold WriteModel.session in SN.
  change (WriteModel.new uf2_config (WriteModel.DVector 0)) with
    (@inr WriteModel.nerr WriteModel.state
       {| WriteModel.s_cfg := uf2_config; WriteModel.s_kind := WriteModel.KVector; WriteModel.d_len := 0; WriteModel.d_pos := 0;
          WriteModel.s_count := 0; WriteModel.s_blocks := []; WriteModel.s_bg := 0 |}) in *.
  cbv iota in SN |- *. unfold map_iter.
  set (st0 := {| WriteModel.s_cfg := uf2_config; WriteModel.s_kind := WriteModel.KVector; WriteModel.d_len := 0; WriteModel.d_pos := 0;
                 WriteModel.s_count := 0; WriteModel.s_blocks := []; WriteModel.s_bg := 0 |}) in *.
  pose proof (emit_loop_run dbg m st0) as ER.
  destruct (emit_loop dbg m st0) as [st|r|q|]; cbn [pbind].
  - destruct ER as (rs & E). rewrite E in SN.
    destruct (WriteModel.finish dbg st) as [st'|e|s]; [discriminate| |];
      destruct SN as (_ & _ & _ & (x & X)); discriminate.
  - discriminate.
  - destruct ER as (s & rs & -> & E). rewrite E in SN. destruct SN as (_ & _ & _ & (x & X)). discriminate.
  - destruct ER.
Qed.
