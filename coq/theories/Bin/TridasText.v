(* C20, text level, part 2 (part 1: Bin/TridasAtoms.v): every instruction of a well-formed binary is printed in the atom
   form (dec_text_form); the bytes printed by the tridas model are a ShowSpec text for exactly the statements the listing
   stands for, so the tokenizer and parser models read the listing back as these statements (listing_parses). *)
From Coq Require Import ZArith NArith List Bool Lia String.
From Trion Require Import Base.Sweep Base.Utf8 Text.Types Text.ArgEq Text.LitSpec Text.Render Text.ShowSpec Text.ShowProofs
  Text.ParseModel Text.ParseProofs
  Arm.Instr Arm.EncodeModel Arm.DecodeModel Arm.DisplayModel Arm.DisplayArgs Arm.CodecCheck Arm.DecProofs Arm.CodecSweepA
  Arm.AsmStmtProofs Arm.TextSweep Arm.TextProofs Arm.TextPcrel Bin.DecodedWf Bin.ListingTypes Bin.TridasModel Bin.ListingSpec
  Bin.TridasAtoms.
From Trion Require Text.TokenModel Asm.CtxModel.
Import ListNotations.
Open Scope N_scope.


(* ---------------------------------------------------------------- B<c> / BL: every label value *)
Lemma label_head t : exists r, label t = 108 :: r.
Proof. unfold label. eexists. reflexivity. Qed.

Lemma branch_form m t (args := [label_arg t]) : ident_ok m = true ->
  let ps := ([], WTok (TIdentifier m)) :: atoms_rest true (TIdentifier m) (render_list args true ++ [TTerminator]) in
  m ++ $" " ++ label t ++ $";" = showp ps [] /\ atoms_okb ps = true.
Proof.
  intros Hm. cbn zeta. subst args.
  cbn [render_list Render.render label_arg prec Nat.ltb Nat.leb app atoms_rest is_sep is_plus is_term orb andb negb showp wtok_text show_tok].
  split; [reflexivity|].
  cbn [atoms_okb whiteb forallb wtok_okb freeb andb app wtok_text show_tok ws_byte N.eqb orb].
  rewrite Hm, label_ident. destruct (label_head t) as [r ->]. reflexivity.
Qed.

Lemma text_form_branch i addr : (match i with B _ _ | Bl _ => True | _ => False end) -> text_formb i addr = true.
Proof.
  destruct i; intros H; try destruct H; unfold text_formb, instr_atoms; cbn [display mnemonic display_args].
  - assert (Hm : ident_ok ($"B" ++ cond_suffix c) = true) by (destruct c; reflexivity).
    destruct (branch_form _ (wadd (wadd addr 4) off) Hm) as [E O]. cbn zeta in E, O.
    rewrite <- app_assoc in E. rewrite <- E, O. rewrite andb_true_r. clear. induction (_ ++ _) as [|x s IH]; [reflexivity|]. cbn. now rewrite N.eqb_refl, IH.
  - destruct (branch_form $"BL" (wadd (wadd addr 4) off) eq_refl) as [E O]. cbn zeta in E, O.
    change ($"BL " ++ ?x) with ($"BL" ++ $" " ++ x). rewrite <- E, O. rewrite andb_true_r. clear. induction (_ ++ _) as [|x s IH]; [reflexivity|]. cbn. now rewrite N.eqb_refl, IH.
Qed.

(* ---------------------------------------------------------------- every decoded instruction without a PC-relative data reference *)
Lemma dec32_form h0 h1 n i hws a : dec32 h0 h1 = DecOk n i -> enc i = EncOk hws -> text_formb i a = true.
Proof.
  intros H E. unfold dec32 in H.
  destruct (N.eqb (fld h0 11 3) 2 && N.eqb (fld h1 15 1) 1); [|discriminate].
  assert (SYS : forall r s, text_formb (Mrs r s) a = true /\ text_formb (Msr s r) a = true).
  { intros r s. rewrite !text_formb_addr by reflexivity.
    assert (A := sysregs_spec _ (R1_spec _ sw_form_sys r) s). cbv beta in A. apply andb_prop in A. exact A. }
  assert (BAR : text_formb Dmb a = true /\ text_formb Dsb a = true /\ text_formb Isb a = true).
  { rewrite !text_formb_addr by reflexivity. assert (A := sw_form_barriers). apply andb_prop in A. destruct A as [A A3]. apply andb_prop in A. tauto. }
  destruct (N.eqb (fld h0 5 63) 28 && N.eqb (fld h1 12 5) 0).
  { unfold dec32_msr, with_reg, ok4 in H.
    repeat match type of H with
    | context [if ?c then _ else _] => destruct c
    | context [match reg_of_num ?x with _ => _ end] => destruct (reg_of_num x)
    | context [match sysreg_of_num ?x with _ => _ end] => destruct (sysreg_of_num x)
    end; try discriminate H. inversion H; subst. apply SYS. }
  destruct (N.eqb (fld h0 4 127) 59 && N.eqb (fld h1 12 5) 0).
  { unfold dec32_barrier, ok4 in H. cbv zeta in H. destruct (fld h1 4 15) as [|p]; [discriminate|].
    do 4 (try (destruct p as [p|p|]; try discriminate H));
    repeat match type of H with context [if ?c then _ else _] => destruct c end; try discriminate H; inversion H; subst; tauto. }
  destruct (N.eqb (fld h0 5 63) 31 && N.eqb (fld h1 12 5) 0).
  { unfold dec32_mrs, with_reg, ok4 in H.
    repeat match type of H with
    | context [if ?c then _ else _] => destruct c
    | context [match reg_of_num ?x with _ => _ end] => destruct (reg_of_num x)
    | context [match sysreg_of_num ?x with _ => _ end] => destruct (sysreg_of_num x)
    end; try discriminate H. inversion H; subst. apply SYS. }
  destruct (N.eqb (fld h0 4 127) 127 && N.eqb (fld h1 12 7) 2).
  { unfold dec32_udfw, ok4 in H. inversion H; subst. rewrite text_formb_addr by reflexivity.
    apply (allN_spec _ 16 sw_form_udfw). unfold fld. rewrite N.shiftr_0_r. apply udfw_bound. }
  destruct (N.eqb (fld h1 12 5) 5); [|discriminate].
  unfold dec32_bl, ok4 in H. inversion H; subst. apply text_form_branch. exact I.
Qed.

Theorem dec_text_form bs n i a : bytes_ok bs -> dec bs = DecOk n i -> no_pc_data i = true -> text_formb i a = true.
Proof.
  intros Hb D NP. destruct (dec_ok_facts bs n i Hb D) as [_ [_ [hws [E _]]]].
  destruct bs as [|b0 [|b1 rest]]; try discriminate.
  inversion Hb as [|? ? B0 Hb1]; subst. inversion Hb1 as [|? ? B1 Hr]; subst.
  destruct (halfword_of_bytes b0 b1 B0 B1) as [Hh _]. cbv zeta in Hh.
  cbn [dec] in D. set (h0 := N.lor b0 (N.shiftl b1 8)) in *.
  destruct (top29 h0) eqn:T.
  - rewrite (dec_h0_long h0 rest Hh T) in D. destruct rest as [|b2 [|b3 r]]; try discriminate.
    exact (dec32_form _ _ _ _ _ a D E).
  - rewrite (dec_h0_short h0 rest T) in D.
    assert (S := allN_spec _ 16 sw_form16 h0 Hh). cbv beta in S. rewrite D in S.
    destruct (pcrel i) eqn:P.
    + unfold pcrel in P. destruct i; cbn [pc_target] in P; try discriminate P; cbn [no_pc_data] in NP; try discriminate NP.
      * apply text_form_branch. exact I.
      * apply text_form_branch. exact I.
      * destruct addr; try discriminate P; discriminate NP.
    + cbn [orb] in S. rewrite text_formb_addr by exact P. exact S.
Qed.

(* ================================================================ the lines of a listing *)
Definition header_atoms : list atom :=
  [([], WTok TDirectiveMark); ([], WTok (TIdentifier $"addr")); ([32], WInt 16 true 0 0x20000000); ([], WTok TTerminator)].

Definition line_atoms (l : line) : list atom :=
  match l with
  | LHeader => header_atoms
  | LBlank => []
  | LLabel a => [([], WTok (TIdentifier (label a))); ([], WTok TLabelMark)]
  | LInstr i a => prep [9] (instr_atoms i a)
  end.

(* the statement a line stands for *)
Definition line_stmt (l : line) : list element_value :=
  match l with
  | LHeader => [EDirective $"addr" [AConst 0x20000000]]
  | LBlank => []
  | LLabel a => [ELabel (label a)]
  | LInstr i a => [EInstruction (mnemonic i) (display_args i a)]
  end.
Definition listing_stmts (ls : list line) : list element_value := flat_map line_stmt ls.

Definition line_ok (l : line) : Prop := match l with LInstr i a => text_formb i a = true | _ => True end.

Lemma line_text l : line_ok l -> render_line l = showp (line_atoms l) [] ++ [10].
Proof.
  destruct l; cbn [line_ok render_line line_atoms]; intros H; try reflexivity.
  destruct (text_formb_spec _ _ H) as [E _]. rewrite prep_showp by discriminate. rewrite E, <- app_assoc. reflexivity.
Qed.

Lemma line_atoms_okb l : line_ok l -> atoms_okb (line_atoms l) = true.
Proof.
  destruct l; cbn [line_ok line_atoms]; intros H; try reflexivity.
  - cbn [atoms_okb whiteb forallb wtok_okb freeb andb app wtok_text show_tok followb1]. rewrite label_ident. reflexivity.
  - apply prep_okb; [reflexivity|]. exact (proj2 (text_formb_spec _ _ H)).
Qed.

Lemma render_stmts_app a b : render_stmts (a ++ b) = render_stmts a ++ render_stmts b.
Proof. unfold render_stmts. now rewrite map_app, concat_app. Qed.

Lemma line_vals l : map wtok_val (map snd (line_atoms l)) = render_stmts (line_stmt l).
Proof.
  destruct l; cbn [line_atoms line_stmt]; try reflexivity.
  rewrite prep_vals, instr_atoms_vals. unfold render_stmts. cbn [map concat]. symmetry. apply app_nil_r.
Qed.

(* the atoms of a whole listing; `pend` = the white space already written since the last token *)
Fixpoint listing_atoms (pend : str) (ls : list line) : list atom * str :=
  match ls with
  | [] => ([], pend)
  | l :: r =>
      match l with
      | LBlank => listing_atoms (pend ++ [10]) r
      | _ => let '(qs, e) := listing_atoms [10] r in (prep pend (line_atoms l) ++ qs, e)
      end
  end.

Lemma listing_atoms_spec : forall ls pend, whiteb pend = true -> Forall line_ok ls ->
  pend ++ render ls = showp (fst (listing_atoms pend ls)) (snd (listing_atoms pend ls)) /\
  atoms_ok (fst (listing_atoms pend ls)) (snd (listing_atoms pend ls)) /\
  map wtok_val (map snd (fst (listing_atoms pend ls))) = render_stmts (listing_stmts ls).
Proof.
  induction ls as [|l r IH]; intros pend P F.
  - cbn [listing_atoms fst snd render flat_map showp atoms_ok map listing_stmts]. rewrite app_nil_r.
    split; [reflexivity|]. split; [now apply whiteb_ok|reflexivity].
  - inversion F as [|? ? Fl Fr]; subst.
    assert (NB : l <> LBlank -> line_atoms l <> []) by (destruct l; cbn [line_atoms instr_atoms prep header_atoms]; intros; try discriminate; congruence).
    assert (G : l <> LBlank ->
      pend ++ render (l :: r) = showp (prep pend (line_atoms l) ++ fst (listing_atoms [10] r)) (snd (listing_atoms [10] r)) /\
      atoms_ok (prep pend (line_atoms l) ++ fst (listing_atoms [10] r)) (snd (listing_atoms [10] r)) /\
      map wtok_val (map snd (prep pend (line_atoms l) ++ fst (listing_atoms [10] r))) = render_stmts (listing_stmts (l :: r))).
    { intros Hl. destruct (IH [10] eq_refl Fr) as (I1 & I2 & I3). split; [|split].
      - rewrite showp_app, prep_showp by (apply NB; exact Hl). rewrite <- I1.
        unfold render. cbn [flat_map]. rewrite (line_text l Fl), <- !app_assoc. reflexivity.
      - apply atoms_ok_app; [|exact I2]. apply prep_okb; [exact P|]. now apply line_atoms_okb.
      - rewrite !map_app, prep_vals, line_vals. unfold listing_stmts. cbn [flat_map]. rewrite render_stmts_app. f_equal. exact I3. }
    destruct l; cbn [listing_atoms];
      try (destruct (listing_atoms [10] r) as [qs e] eqn:EQ; cbn [fst snd] in *; apply G; discriminate).
    assert (P' : whiteb (pend ++ [10]) = true) by (unfold whiteb; rewrite forallb_app; fold (whiteb pend); rewrite P; reflexivity).
    destruct (IH (pend ++ [10]) P' Fr) as (I1 & I2 & I3). split; [|split]; [|exact I2|exact I3].
    rewrite <- I1, <- app_assoc. reflexivity.
Qed.

(* ================================================================ the listing is read back as its statements *)
Lemma tokens_all_unfold bs toks ps : TokenModel.tokens_all bs = TokenModel.Ok (map inl toks, ps) ->
  exists items st, TokenModel.unfold_rem (List.length bs + 2) (TokenModel.tok_new bs) = TokenModel.Ok (items, st) /\
                   map fst items = map inl toks.
Proof.
  unfold TokenModel.tokens_all, TokenModel.tokens_rem, TokenModel.bind.
  destruct (TokenModel.unfold_rem (List.length bs + 2) (TokenModel.tok_new bs)) as [[items st]| |]; try discriminate.
  destruct (TokenModel.polls 3 st) as [p| |]; try discriminate. intros H. inversion H; subst. eauto.
Qed.

Theorem listing_parses ls : Forall line_ok ls ->
  exists els, CtxModel.parse_source (render ls) = CtxModel.Parsed (map ParseModel.IOk els) None /\ map e_val els = listing_stmts ls.
Proof.
  intros F. destruct (listing_atoms_spec ls [] eq_refl F) as (E & A & V). cbn [app] in E.
  set (ps := fst (listing_atoms [] ls)) in *. set (e := snd (listing_atoms [] ls)) in *.
  destruct (atoms_ok_spec ps e A) as [Ok So].
  destruct (showw_tokens _ _ Ok So) as [toks [T M]]. rewrite showp_showw, <- E in T.
  destruct (tokens_all_unfold _ _ _ T) as (items & st & U & Mi).
  rewrite V in M.
  destruct (statements_roundtrip (listing_stmts ls) _ toks (TokenModel.ts_line st) (TokenModel.ts_col st)
              (render_stmts_rend _) M) as (els & Pa & Ev).
  exists els. split; [|exact Ev]. unfold CtxModel.parse_source. rewrite U, Mi, Pa. reflexivity.
Qed.
