(* The label names tridas prints are injective: `l_XXXXXXXX` (8 upper-case hexadecimal digits) determines its address.
   `unlabel` reads a label name back. *)
From Coq Require Import ZArith NArith List Bool Lia ZifyBool ZifyN.
From Trion Require Import Text.Types Arm.DisplayModel.
Import ListNotations.
Open Scope N_scope.
Ltac Zify.zify_post_hook ::= Z.div_mod_to_equations.

Definition unhex (c : N) : option N :=
  if (48 <=? c) && (c <=? 57) then Some (c - 48) else if (65 <=? c) && (c <=? 70) then Some (c - 55) else None.

Definition unlabel (s : str) : option N :=
  match s with
  | [108; 95; c7; c6; c5; c4; c3; c2; c1; c0] =>
      match unhex c7, unhex c6, unhex c5, unhex c4, unhex c3, unhex c2, unhex c1, unhex c0 with
      | Some d7, Some d6, Some d5, Some d4, Some d3, Some d2, Some d1, Some d0 =>
          Some (((((((d7 * 16 + d6) * 16 + d5) * 16 + d4) * 16 + d3) * 16 + d2) * 16 + d1) * 16 + d0)
      | _, _, _, _, _, _, _, _ => None
      end
  | _ => None
  end.

Lemma unhex_digit d : d < 16 -> unhex (hex_digit d) = Some d.
Proof.
  intros H. unfold unhex, hex_digit. destruct (N.ltb_spec d 10).
  - replace ((48 <=? 48 + d) && (48 + d <=? 57)) with true by lia. f_equal. lia.
  - replace ((48 <=? 55 + d) && (55 + d <=? 57)) with false by lia.
    replace ((65 <=? 55 + d) && (55 + d <=? 70)) with true by lia. f_equal. lia.
Qed.

Lemma nib t k : N.land (N.shiftr t (4 * k)) 15 = (t / 2 ^ (4 * k)) mod 16.
Proof. rewrite N.shiftr_div_pow2. change 15 with (N.ones 4). now rewrite N.land_ones. Qed.

Theorem unlabel_label t : t < 4294967296 -> unlabel (label t) = Some t.
Proof.
  intros H. change (label t) with (108 :: 95 :: hex8 t). unfold hex8. cbn [map unlabel].
  rewrite !unhex_digit by (rewrite nib; apply N.mod_lt; discriminate). rewrite !nib. f_equal.
  change (2 ^ (4 * 7)) with 268435456. change (2 ^ (4 * 6)) with 16777216. change (2 ^ (4 * 5)) with 1048576.
  change (2 ^ (4 * 4)) with 65536. change (2 ^ (4 * 3)) with 4096. change (2 ^ (4 * 2)) with 256.
  change (2 ^ (4 * 1)) with 16. change (2 ^ (4 * 0)) with 1. lia.
Qed.

Corollary label_inj t u : t < 4294967296 -> u < 4294967296 -> label t = label u -> t = u.
Proof. intros Ht Hu E. apply unlabel_label in Ht, Hu. rewrite E in Ht. congruence. Qed.
