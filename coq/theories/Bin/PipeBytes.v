(* C18 composition, part 2: every state the Context model reaches holds bytes only.
   BI st : every value stored in the output map and in the buffer of the active segment is < 256.
   The inputs are byte strings: `src_ok data` says that the string literals among the operands of the parsed
   directives are byte strings (Bin/PipeBytesText.v derives it from `bytes data` through tokenizer and parser);
   `fs_ok fs` says the same of every file of the project.
   Every write path of the model is covered: encoder output (enc_bytes), .du8/.du16/.du32 (le_n), .dstr (the literal),
   .dhex (hex_decode), .dfile (the file), the 0xBE padding of .align and of deferred statements, MemoryMap::put. *)
From Coq Require Import ZArith NArith List Bool Lia ZifyBool ZifyNat ZifyN.
From Trion Require Import Text.Types Mem.MapModel Mem.MapProofs Asm.CtxModel.
From Trion Require Arm.AsmStmtModel Arm.EncodeModel Text.ParseModel Expr.EvalModel.
From Trion Require Import Bin.TriasProofs Bin.PipeBytesMap.
Import ListNotations.
Open Scope N_scope.

Definition BI (st : state) : Prop :=
  Bytes (output st) /\ match active st with Active s => bytes (s_buf s) | Inactive => True end.

Definition BP {A} (r : res A) : Prop := match r with Ret _ st' => BI st' | _ => True end.

Lemma BP_bind {A B} (r : res A) (k : A -> state -> res B) :
  BP r -> (forall a st1, BI st1 -> BP (k a st1)) -> BP (CtxModel.bind r k).
Proof. destruct r; cbn [CtxModel.bind BP]; auto. Qed.

Lemma BI_oa st st' : output st' = output st -> active st' = active st -> BI st -> BI st'.
Proof. unfold BI. intros -> ->. auto. Qed.

(* ---------------------------------------------------------------- inputs *)
Definition arg_ok (a : arg) : Prop := match a with AStr v => bytes v | _ => True end.
Definition elem_ok (e : element) : Prop :=
  match e_val e with EDirective _ args => Forall arg_ok args | _ => True end.
Definition item_ok (it : ParseModel.item) : Prop :=
  match it with ParseModel.IOk el => elem_ok el | ParseModel.IErr _ => True end.
Definition src_ok (data : list N) : Prop :=
  match parse_source data with Parsed items _ => Forall item_ok items end.
Definition fs_ok (fs : str -> option (list N)) : Prop := forall p d, fs p = Some d -> bytes d /\ src_ok d.
Definition inc_bp (inc : state -> list N -> str -> res result) : Prop :=
  forall st data path, BI st -> src_ok data -> BP (inc st data path).

(* ---------------------------------------------------------------- segments *)
Lemma close_segment_bp dbg st : BI st -> BP (close_segment dbg st).
Proof.
  intros (H1 & H2). unfold close_segment. destruct (active st) as [|s] eqn:EA; cbn [BP].
  - split; [exact H1|rewrite EA; exact I].
  - destruct (map_put dbg (output st) (s_base s) (s_buf s)) as [[m' [n|]]| |] eqn:E; cbn [BP]; trivial.
    + destruct (n =? blen s); cbn [BP]; trivial. split; [|exact I]. cbn [output set_active set_output].
      eapply map_put_bytes_eq; eauto.
    + split; [exact H1|rewrite EA; exact H2].
Qed.

Lemma make_active_buf dbg addr next s : make_active dbg addr next = SOk s -> s_buf s = [].
Proof.
  unfold make_active. destruct next as [n|].
  - destruct (addr <=? n); [intros X; inversion X; reflexivity|]. destruct dbg; intros X; inversion X; reflexivity.
  - intros X; inversion X; reflexivity.
Qed.

Lemma select_segment_bp dbg st addr : BI st -> BP (select_segment dbg st addr).
Proof.
  intros HB. unfold select_segment. destruct (map_find dbg (output st) addr Above) as [r| |]; cbn [BP]; trivial.
  match goal with |- context [if ?b then _ else _] => destruct b end; cbn [BP]; [exact HB|].
  destruct (active st); cbn [BP]; trivial.
  destruct (make_active dbg addr (option_map fst r)) as [s| |] eqn:E; cbn [BP]; trivial.
  split; [exact (proj1 HB)|]. cbn [active set_active]. rewrite (make_active_buf _ _ _ _ E). constructor.
Qed.

Lemma change_segment_bp dbg st addr : BI st -> BP (change_segment dbg st addr).
Proof.
  intros HB. unfold change_segment. destruct (active st) as [|s] eqn:EA.
  - apply select_segment_bp; exact HB.
  - match goal with |- context [if ?b then _ else _] => destruct b end; [exact HB|].
    apply BP_bind; [apply close_segment_bp; exact HB|]. intros [b|e] st1 H1; [apply select_segment_bp|]; exact H1.
Qed.

Lemma seg_write_bytes dbg s data s' : seg_write dbg s data = SOk s' -> bytes (s_buf s) -> bytes data -> bytes (s_buf s').
Proof.
  unfold seg_write. destruct (remaining dbg s); cbn [sbind]; try discriminate.
  destruct (_ <=? _); [|discriminate]. intros X; inversion X; subst. intros. cbn [s_buf set_buf]. apply bytes_app; assumption.
Qed.

Lemma seg_write_at_bytes dbg s addr data s' : seg_write_at dbg s addr data = SOk s' -> bytes (s_buf s) -> bytes data ->
  bytes (s_buf s').
Proof.
  unfold seg_write_at, CtxSeg.takeN, CtxSeg.dropN. destruct (negb _); [discriminate|].
  match goal with |- sbind ?r _ = _ -> _ => destruct r end; cbn [sbind]; try discriminate.
  destruct (_ <? _).
  - destruct (remaining dbg s); cbn [sbind]; try discriminate. destruct (_ <=? _); [|discriminate].
    intros E H1 H2. inversion E; subst. cbn [s_buf set_buf]. apply bytes_app; [apply bytes_takeN|]; assumption.
  - destruct (_ <? _); intros E H1 H2; inversion E; subst; cbn [s_buf set_buf].
    + apply bytes_app; [apply bytes_takeN; assumption|]. apply bytes_app; [assumption|apply bytes_dropN; assumption].
    + apply bytes_app; assumption.
Qed.

Lemma put_stmt_bp dbg st f l c a data k p : BI st -> bytes data -> BP (put_stmt dbg st f l c a data k p).
Proof.
  intros HB HD. unfold put_stmt. destruct (map_put dbg (output st) a data) as [[m' [n|]]| |] eqn:E; cbn [BP]; trivial.
  - destruct (n =? 0); cbn [BP]; trivial. split; [|exact (proj2 HB)]. cbn [output set_output].
    eapply map_put_bytes_eq; [exact (proj1 HB)|exact HD|exact E].
Qed.

Lemma write_stmt_bp dbg st f l c a data k1 k2 p : BI st -> bytes data -> BP (write_stmt dbg st f l c a data k1 k2 p).
Proof.
  intros HB HD. unfold write_stmt. destruct (active st) as [|s] eqn:EA; [apply put_stmt_bp; assumption|].
  destruct (covers dbg s a) as [[|]| |]; cbn [BP]; trivial; [|apply put_stmt_bp; assumption].
  destruct (seg_write_at dbg s a data) as [s'| |] eqn:E; cbn [BP]; trivial.
  split; [exact (proj1 HB)|]. cbn [active set_active]. eapply seg_write_at_bytes; eauto.
  destruct HB as (_ & H2). rewrite EA in H2. exact H2.
Qed.

Lemma seg_update_bp st line col r : BI st ->
  (forall s', r = SOk s' -> bytes (s_buf s')) -> BP (seg_update st line col r).
Proof.
  intros HB H. unfold seg_update. destruct r as [s'| |]; cbn [BP]; trivial.
  split; [exact (proj1 HB)|]. cbn [active set_active]. apply H. reflexivity.
Qed.

Lemma repeatN_bytes b n : b < 256 -> bytes (repeatN b n).
Proof. intros H. induction n; cbn [repeatN]; constructor; assumption. Qed.
Lemma padding_bytes n : bytes (padding n).
Proof. apply repeatN_bytes. reflexivity. Qed.

Lemma land_ff x : N.land x 255 < 256.
Proof. change 255 with (N.ones 8). rewrite N.land_ones. apply N.mod_lt. discriminate. Qed.
Lemma le_n_bytes size v : bytes (le_n size v).
Proof.
  unfold le_n. destruct size as [|[[?|?|]|[?|?|]|]]; repeat constructor; apply land_ff.
Qed.

(* ---------------------------------------------------------------- statements that write *)
Lemma instr_assemble_bp st ai local : BI st -> BP (instr_assemble st ai local).
Proof.
  intros HB. unfold instr_assemble. destruct (first_panic st _); cbn [BP]; trivial.
  destruct (AsmStmtModel.assemble_args _ _ _ _ _); cbn [BP]; trivial; exact HB.
Qed.

Lemma write_instr_bp dbg st ai d : BI st -> BP (write_instr dbg st ai d).
Proof.
  intros HB. unfold write_instr. destruct (EncodeModel.enc_bytes (ai_instr ai) 4) as [n bs| |] eqn:E; cbn [BP]; try exact HB.
  apply write_stmt_bp; [exact HB|]. destruct d; [apply padding_bytes|]. eapply enc_bytes_bytes; eauto.
Qed.

Lemma add_task_bp st t r : BI st -> BP (add_task st t r).
Proof.
  intros HB. unfold add_task. destruct r; cbn [BP]; [exact HB|]. destruct (local_tasks st); cbn [BP]; trivial.
Qed.

Lemma insert_constant_bp st name v r : BI st -> BP (insert_constant st name v r).
Proof.
  intros HB. unfold insert_constant. destruct (is_register name); cbn [BP]; [exact HB|].
  destruct (realm_table st r); cbn [BP]; trivial. destruct (tbl_get t name) as [[z|]|]; cbn [BP]; try exact HB;
  destruct r; exact HB.
Qed.
Lemma defer_constant_bp st name r : BI st -> BP (defer_constant st name r).
Proof.
  intros HB. unfold defer_constant. destruct (is_register name); cbn [BP]; [exact HB|].
  destruct (realm_table st r); cbn [BP]; trivial. destruct (tbl_get t name); cbn [BP]; try exact HB; destruct r; exact HB.
Qed.

Ltac bp :=
  repeat match goal with
  | |- BP (CtxModel.bind _ _) => apply BP_bind; [|intros]
  | |- BP (Ret _ _) => cbn [BP]
  | |- BP (Panic _) => exact I
  | |- BP OutOfFuel => exact I
  | H : BI ?st |- BI _ => exact H
  | |- BP (instr_assemble _ _ _) => apply instr_assemble_bp
  | |- BP (write_instr _ _ _ _) => apply write_instr_bp
  | |- BP (add_task _ _ _) => apply add_task_bp
  | |- BP (insert_constant _ _ _ _) => apply insert_constant_bp
  | |- BP (defer_constant _ _ _) => apply defer_constant_bp
  | |- BP (change_segment _ _ _) => apply change_segment_bp
  | |- BP (close_segment _ _) => apply close_segment_bp
  | |- BP (match ?x with _ => _ end) => destruct x
  | |- BP (if ?b then _ else _) => destruct b
  | |- BP (let (_, _) := ?x in _) => destruct x
  end.

Lemma assemble_instr_bp dbg st line col name args : BI st -> BP (assemble_instr dbg st line col name args).
Proof. intros HB. unfold assemble_instr. bp. Qed.

Lemma write_data_bp dbg st d data : BI st -> bytes data -> BP (write_data dbg st d data).
Proof. intros. apply write_stmt_bp; assumption. Qed.

Lemma data_apply_bp dbg st d local : BI st -> BP (data_apply dbg st d local).
Proof.
  intros HB. unfold data_apply. destruct (ctx_eval st (de_arg d)) as [a' [c|c cause]|a' e|p]; cbn [BP]; trivial.
  - destruct a'; cbn [BP]; try exact HB. destruct (_ && _); cbn [BP]; [|exact HB].
    apply BP_bind; [apply write_data_bp; [exact HB|apply le_n_bytes]|]. intros. exact H.
  - destruct e, local; exact HB.
Qed.

Lemma run_task_bp dbg st t : BI st -> BP (run_task dbg st t).
Proof.
  intros HB. destruct t as [ai g|d g|name line col|name line col]; cbn [run_task].
  - bp.
  - apply BP_bind; [apply data_apply_bp; exact HB|]. intros. bp.
  - destruct (get_constant st name RLocal) as [[v| |]|]; bp.
  - destruct (get_constant st name RLocal) as [[v| |]|]; bp.
Qed.

Lemma local_round_bp dbg tasks : forall st r, BI st -> BP (local_round dbg tasks st r).
Proof.
  induction tasks as [|t rest IH]; intros st r HB; cbn [local_round]; [exact HB|].
  apply BP_bind; [apply run_task_bp; exact HB|]. intros x st1 H1. destruct x as [lvl|]; [|apply IH; exact H1].
  destruct (is_fatal lvl); [exact H1|apply IH; exact H1].
Qed.

Lemma local_loop_bp dbg rounds : forall tasks st r, BI st -> BP (local_loop dbg rounds tasks st r).
Proof.
  induction rounds as [|k IH]; intros tasks st r HB; cbn [local_loop]; destruct tasks as [|t0 tl]; try exact HB; try exact I.
  apply BP_bind; [apply local_round_bp; exact HB|]. intros r' st1 H1.
  destruct (local_tasks st1); cbn [BP]; trivial. destruct (res_is_fatal r'); [exact H1|]. apply IH. exact H1.
Qed.

Lemma final_round_bp dbg tasks : forall st, BI st -> BP (final_round dbg tasks st).
Proof.
  induction tasks as [|t rest IH]; intros st HB; cbn [final_round]; [exact HB|].
  apply BP_bind; [apply run_task_bp; exact HB|]. intros x st1 H1. destruct (res_is_fatal x); [exact H1|apply IH; exact H1].
Qed.

Lemma final_loop_bp dbg rounds : forall tasks st, BI st -> BP (final_loop dbg rounds tasks st).
Proof.
  induction rounds as [|k IH]; intros tasks st HB; cbn [final_loop]; destruct tasks as [|t0 tl]; try exact HB; try exact I.
  apply BP_bind; [apply final_round_bp; exact HB|]. intros ab st1 H1. destruct ab; [exact H1|]. apply IH. exact H1.
Qed.

Lemma finalize_bp dbg st : BI st -> BP (finalize dbg st).
Proof.
  intros HB. unfold finalize. apply BP_bind; [apply final_loop_bp; exact HB|]. intros. exact H.
Qed.

(* ---------------------------------------------------------------- directives *)
Lemma eval_now_bp st line col a : BI st -> BP (eval_now st line col a).
Proof. intros HB. unfold eval_now. destruct (ctx_eval st a) as [a' [c|c cause]|a' e|p]; cbn [BP]; trivial; exact HB. Qed.

Lemma arity_check_bi st line col args n st' : arity_check st line col args n = Some st' -> BI st -> BI st'.
Proof.
  unfold arity_check. destruct (Nat.eqb _ _); [discriminate|]. destruct (Nat.ltb _ _); intros X; inversion X; subst; auto.
Qed.

Lemma dir_addr_bp dbg st line col args : BI st -> BP (dir_addr dbg st line col args).
Proof.
  intros HB. unfold dir_addr. destruct (arity_check st line col args 1) eqn:E; [exact (arity_check_bi _ _ _ _ _ _ E HB)|].
  destruct args as [|a r]; [exact I|]. apply BP_bind; [apply eval_now_bp; exact HB|]. intros. bp.
Qed.

Lemma dir_align_bp dbg st line col args : BI st -> BP (dir_align dbg st line col args).
Proof.
  intros HB. unfold dir_align. destruct (active st) as [|s] eqn:EA; [exact HB|].
  destruct (arity_check st line col args 1) eqn:E; [exact (arity_check_bi _ _ _ _ _ _ E HB)|].
  destruct args as [|a r]; [exact I|]. apply BP_bind; [apply eval_now_bp; exact HB|]. intros x st1 H1.
  destruct x as [a'|l]; [|exact H1]. destruct a'; try exact H1. destruct (u32_of v) as [[|p]|]; try exact H1.
  destruct (_ =? 0); [exact H1|]. destruct (has_remaining dbg s _) as [[|]| |]; cbn [BP]; trivial.
  apply seg_update_bp; [exact H1|]. intros s' Es. eapply seg_write_bytes; [exact Es| |apply padding_bytes].
  destruct HB as (_ & H2). rewrite EA in H2. exact H2.
Qed.

Lemma dir_const_bp st line col args : BI st -> BP (dir_const st line col args).
Proof.
  intros HB. unfold dir_const. destruct (arity_check st line col args 2) eqn:E; [exact (arity_check_bi _ _ _ _ _ _ E HB)|].
  destruct args as [|a0 [|a1 r]]; try exact I. destruct a0; try exact HB.
  apply BP_bind; [apply eval_now_bp; exact HB|]. intros. bp.
Qed.

Lemma dir_data_bp dbg st line col k args : BI st -> BP (dir_data dbg st line col k args).
Proof.
  intros HB. unfold dir_data. destruct (active st) as [|s]; [exact HB|].
  destruct (has_remaining dbg s (dk_size k)) as [[|]| |]; cbn [BP]; trivial.
  destruct (arity_check st line col args 1) eqn:E; [exact (arity_check_bi _ _ _ _ _ _ E HB)|].
  destruct args as [|a r]; [exact I|]. apply BP_bind; [apply data_apply_bp; exact HB|]. intros [op d'] st1 H1.
  assert (K : BP (CtxModel.bind (write_data dbg st1 d' (padding (dk_size k)))
                 (fun w st2 => match w with
                               | Some l => Ret (Some l) st2
                               | None => CtxModel.bind (add_task st2 (DataTask d' false) RLocal) (fun _ st3 => Ret None st3)
                               end))).
  { apply BP_bind; [apply write_data_bp; [exact H1|apply padding_bytes]|]. intros. bp. }
  destruct op; [exact H1|exact K|exact K].
Qed.

Lemma hex_digit_lt c v : hex_digit c = Some v -> v < 16.
Proof.
  unfold hex_digit. destruct ((48 <=? c) && (c <=? 57)) eqn:E1; [intros X; inversion X; lia|].
  destruct ((97 <=? c) && (c <=? 102)) eqn:E2; [intros X; inversion X; lia|].
  destruct ((65 <=? c) && (c <=? 70)) eqn:E3; [intros X; inversion X; lia|discriminate].
Qed.

Lemma ltpow_bits n x : x < 2 ^ n <-> (forall k, n <= k -> N.testbit x k = false).
Proof.
  split.
  - intros H k Hk. destruct (N.eq_dec x 0) as [->|NZ]; [apply N.bits_0|].
    apply N.bits_above_log2. apply N.log2_lt_pow2 in H; lia.
  - intros H. destruct (N.eq_dec x 0) as [->|NZ]; [apply N.neq_0_lt_0; apply N.pow_nonzero; discriminate|].
    apply N.log2_lt_pow2; [lia|]. destruct (N.lt_ge_cases (N.log2 x) n) as [L|L]; [exact L|].
    pose proof (N.bit_log2 x NZ) as B. rewrite (H _ L) in B. discriminate.
Qed.
Lemma lor_lt256 a b : a < 256 -> b < 256 -> N.lor a b < 256.
Proof.
  change 256 with (2 ^ 8). rewrite !ltpow_bits. intros Ha Hb k Hk. rewrite N.lor_spec, Ha, Hb by exact Hk. reflexivity.
Qed.

Lemma hex_decode_bytes s : forall carry acc bs, hex_decode s carry acc = HexOk bs ->
  match carry with Some h => h < 256 | None => True end -> bytes acc -> bytes bs.
Proof.
  induction s as [|c r IH]; intros carry acc bs; cbn [hex_decode].
  - destruct carry; [discriminate|]. intros X _ HA; inversion X; subst. unfold bytes. apply Forall_rev. exact HA.
  - destruct (is_ascii_ws c); [apply IH|]. destruct (hex_digit c) as [v|] eqn:Ev; [|discriminate].
    pose proof (hex_digit_lt _ _ Ev) as Hv. destruct carry as [h|]; intros E HC HA.
    + eapply IH; [exact E|exact I|]. constructor; [|exact HA]. apply lor_lt256; [lia|exact HC].
    + eapply IH; [exact E| |exact HA]. cbn beta. apply land_ff.
Qed.

Lemma chunks_bytes n : forall fuel l, bytes l -> Forall bytes (chunks n fuel l).
Proof.
  induction fuel as [|f IH]; intros l H; cbn [chunks]; [constructor; [exact H|constructor]|].
  destruct l as [|x l']; [constructor|]. constructor; [apply bytes_firstn; exact H|]. apply IH. apply bytes_skipn. exact H.
Qed.

Lemma write_chunks_bytes dbg cs : forall s s', write_chunks dbg s cs = SOk s' -> bytes (s_buf s) -> Forall bytes cs ->
  bytes (s_buf s').
Proof.
  induction cs as [|c r IH]; intros s s'; cbn [write_chunks]; [intros X; inversion X; subst; auto|].
  destruct (seg_write dbg s c) as [s1| |] eqn:E; cbn [sbind]; try discriminate. intros W H1 H2. inversion H2; subst.
  eapply IH; [exact W| |assumption]. eapply seg_write_bytes; eauto.
Qed.

Lemma dir_bytes_bp dbg fs st line col d args : fs_ok fs -> Forall arg_ok args -> BI st -> BP (dir_bytes dbg fs st line col d args).
Proof.
  intros HF HA HB. unfold dir_bytes. destruct (active st) as [|s] eqn:EA; [exact HB|].
  assert (Hs : bytes (s_buf s)). { destruct HB as (_ & H2). rewrite EA in H2. exact H2. }
  destruct (arity_check st line col args 1) eqn:E; [exact (arity_check_bi _ _ _ _ _ _ E HB)|].
  destruct args as [|a r]; [exact I|]. inversion HA as [|? ? Ha _]; subst.
  destruct a; try exact HB. cbn [arg_ok] in Ha.
  assert (KS : BP (seg_update st line col (seg_write dbg s s0))).
  { apply seg_update_bp; [exact HB|]. intros s' Es. eapply seg_write_bytes; eauto. }
  destruct d; try exact KS.
  - destruct (hex_decode s0 None []) as [bs| |] eqn:EH; try exact HB.
    apply seg_update_bp; [exact HB|]. intros s' Es. eapply seg_write_bytes; [exact Es|exact Hs|].
    eapply hex_decode_bytes; [exact EH|exact I|constructor].
  - destruct (path_stack st) as [|curr ps]; [exact I|].
    destruct (fs (resolve_path curr s0)) as [bs|] eqn:EF; [|exact HB].
    destruct (HF _ _ EF) as (Hbs & _).
    destruct (has_remaining dbg s (len bs)) as [[|]| |]; cbn [BP]; trivial.
    apply seg_update_bp; [exact HB|]. intros s' Es. eapply write_chunks_bytes; [exact Es|exact Hs|]. apply chunks_bytes. exact Hbs.
Qed.

Lemma dir_global_bp st line col d args : BI st -> BP (dir_global st line col d args).
Proof.
  intros HB. unfold dir_global. destruct (arity_check st line col args 1) eqn:E; [exact (arity_check_bi _ _ _ _ _ _ E HB)|].
  destruct args as [|a r]; [exact I|]. destruct a; try exact HB.
  destruct d; bp.
Qed.

Lemma dir_include_bp fs inc st line col args : fs_ok fs -> inc_bp inc -> BI st -> BP (dir_include fs inc st line col args).
Proof.
  intros HF HI HB. unfold dir_include. destruct (arity_check st line col args 1) eqn:E; [exact (arity_check_bi _ _ _ _ _ _ E HB)|].
  destruct args as [|a r]; [exact I|]. destruct a; try exact HB.
  destruct (existsb _ _); [exact HB|].
  match goal with |- context [fs ?p] => destruct (fs p) as [data|] eqn:EF end; [|exact HB].
  destruct (HF _ _ EF) as (_ & Hsrc). apply BP_bind; [apply HI; assumption|]. intros x st1 H1. destruct x; exact H1.
Qed.

Lemma process_directive_bp dbg fs inc st line col name args : fs_ok fs -> inc_bp inc -> Forall arg_ok args -> BI st ->
  BP (process_directive dbg fs inc st line col name args).
Proof.
  intros HF HI HA HB. unfold process_directive. destruct (dir_of name) as [[]|]; try exact HB.
  - apply dir_addr_bp; exact HB.
  - apply dir_align_bp; exact HB.
  - apply dir_const_bp; exact HB.
  - apply dir_data_bp; exact HB.
  - apply dir_bytes_bp; assumption.
  - apply dir_bytes_bp; assumption.
  - apply dir_bytes_bp; assumption.
  - apply dir_global_bp; exact HB.
  - apply dir_global_bp; exact HB.
  - apply dir_global_bp; exact HB.
  - apply dir_include_bp; assumption.
Qed.

Lemma step_bp dbg fs inc st e : fs_ok fs -> inc_bp inc -> elem_ok e -> BI st -> BP (step dbg fs inc st e).
Proof.
  intros HF HI HE HB. unfold step. unfold elem_ok in HE. destruct (e_val e) as [name|name args|name args].
  - destruct (active st); [exact HB|]. bp.
  - apply process_directive_bp; assumption.
  - destruct (active st); [exact HB|]. apply assemble_instr_bp. exact HB.
Qed.

Lemma run_items_bp dbg fs inc items : fs_ok fs -> inc_bp inc -> Forall item_ok items ->
  forall st, BI st -> BP (run_items dbg fs inc items st).
Proof.
  intros HF HI. induction 1 as [|it rest Hit Hrest IH]; intros st HB; cbn [run_items]; [exact HB|].
  destruct it as [el|e]; [|exact HB]. apply BP_bind; [apply step_bp; assumption|]. intros r st1 H1.
  destruct r; [exact H1|apply IH; exact H1].
Qed.

Lemma do_assemble_bp dbg fs inc st data : fs_ok fs -> inc_bp inc -> src_ok data -> BI st -> BP (do_assemble dbg fs inc st data).
Proof.
  intros HF HI HS HB. unfold do_assemble. unfold src_ok in HS. destruct (parse_source data) as [items tail].
  apply BP_bind; [apply run_items_bp; assumption|]. intros r st1 H1. destruct r; [exact H1|].
  destruct tail as [[p|]|]; cbn [BP]; trivial.
Qed.

Lemma assemble_body_bp dbg fs inc st data path : fs_ok fs -> inc_bp inc -> src_ok data -> BI st ->
  BP (assemble_body dbg fs inc st data path).
Proof.
  intros HF HI HS HB. unfold assemble_body, enter_file.
  apply BP_bind; [apply do_assemble_bp; try assumption; exact HB|]. intros r st1 H1.
  apply BP_bind.
  - destruct (res_is_fatal r); [exact H1|]. destruct (local_tasks st1); [|exact I]. apply local_loop_bp. exact H1.
  - intros r' st2 H2. apply BP_bind; [|intros; assumption].
    unfold leave_file. destruct (negb _); [exact I|]. destruct (path_stack st2); [exact I|]. exact H2.
Qed.

Lemma assemble_bp dbg fs : fs_ok fs -> forall fuel, inc_bp (assemble dbg fs fuel).
Proof.
  intros HF. induction fuel as [|f IH]; intros st data path HB HS; cbn [assemble]; [exact I|].
  apply assemble_body_bp; assumption.
Qed.

Lemma BI_init : BI init_state.
Proof. split; [intros s []|exact I]. Qed.

Lemma pipeline_state_bp dbg fs fuel path text : fs_ok fs -> src_ok text -> BP (pipeline_state dbg fs fuel path text).
Proof.
  intros HF HS. unfold pipeline_state. apply BP_bind; [apply assemble_bp; [exact HF|exact BI_init|exact HS]|].
  intros r st1 H1. apply BP_bind; [apply close_segment_bp; exact H1|]. intros c st2 H2. destruct c; [|exact H2].
  apply BP_bind; [apply finalize_bp; exact H2|]. intros. assumption.
Qed.

Theorem pipeline_bytes dbg fs fuel path text s diags regions : fs_ok fs -> src_ok text ->
  pipeline_gen dbg fs fuel path text = Done s diags regions -> Bytes regions.
Proof.
  intros HF HS. unfold pipeline_gen. pose proof (pipeline_state_bp dbg fs fuel path text HF HS) as P.
  destruct (pipeline_state dbg fs fuel path text) as [s0 st| |]; try discriminate.
  intros X; inversion X; subst. exact (proj1 P).
Qed.
