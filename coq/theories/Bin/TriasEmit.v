(* C18 proofs: the UF2 emission of `post` on a page-aligned map.  The file `emit_step` produces is read back by the
   independent reader (Uf2/ReaderSpec.v) as blocks of the shape Bin/ImageSpec.v asks for, numbered, one per page,
   and a loader stores exactly each segment's bytes followed by zeros up to the end of its last page. *)
From Coq Require Import Arith NArith List Bool Lia ZifyBool ZifyNat ZifyN.
From Trion Require Import Mem.MapModel Mem.MapProofs Mem.MapProofs2.
From Trion Require Mem.DictSpec.
From Trion Require Import Bin.TriasModel Bin.ImageSpec Bin.TriasProofs2.
From Trion Require Import Uf2.WriteTypes Uf2.ReaderSpec.
From Trion Require Import Uf2.WriteModel Uf2.WriteProofs Uf2.WriteRunProofs.
Import ListNotations.
Open Scope N_scope.

Arguments N.add : simpl never. Arguments N.mul : simpl never. Arguments N.sub : simpl never.
Arguments N.div : simpl never. Arguments N.modulo : simpl never. Arguments N.leb : simpl never.
Arguments N.ltb : simpl never. Arguments N.eqb : simpl never. Arguments N.of_nat : simpl never.
Arguments N.to_nat : simpl never. Arguments N.land : simpl never. Arguments N.shiftr : simpl never.
Arguments N.lor : simpl never. Arguments N.testbit : simpl never.

(* what a loader stores for one segment: its bytes at its addresses, then zeros up to the next multiple of 256 *)
Definition seg_items (s : seg) : list item :=
  zip_from (sfirst s) false
    (sdata s ++ repeat 0 (N.to_nat (pad_to 256 (WriteTypes.len (sdata s)) - WriteTypes.len (sdata s)))).

(* ---------- the configuration ---------- *)
Lemma cfgv : cfg_valid uf2_config.
Proof.
  unfold cfg_valid. change (c_bs uf2_config) with 256. change (c_align uf2_config) with 256.
  repeat split; try lia.
Qed.

Lemma flags_uf2 : flags_of uf2_config false = 8192.
Proof. reflexivity. Qed.
Lemma info_uf2 : info_of uf2_config = FAMILY.
Proof. reflexivity. Qed.

(* ---------- arithmetic of one segment ---------- *)
Lemma seg_arith s : seg_ok s -> sfirst s mod 256 = 0 ->
  sdata s <> [] /\ 1 <= WriteTypes.len (sdata s)
  /\ WriteTypes.len (sdata s) <= pad_to 256 (WriteTypes.len (sdata s))
  /\ pad_to 256 (WriteTypes.len (sdata s)) mod 256 = 0
  /\ sfirst s + pad_to 256 (WriteTypes.len (sdata s)) <= 4294967296
  /\ 1 <= ceil_div (pad_to 256 (WriteTypes.len (sdata s))) 256
  /\ ceil_div (pad_to 256 (WriteTypes.len (sdata s))) 256 * 256 = pad_to 256 (WriteTypes.len (sdata s))
  /\ ceil_div (pad_to 256 (WriteTypes.len (sdata s))) 256 <= WriteTypes.len (sdata s)
  /\ sfirst s + WriteTypes.len (sdata s) = slast s + 1
  /\ pad_to 256 (WriteTypes.len (sdata s)) < WriteTypes.len (sdata s) + 256.
Proof.
  intros (S1 & S2 & S3) Hal.
  change (MapModel.len (sdata s)) with (WriteTypes.len (sdata s)) in S3.
  assert (NE : sdata s <> []).
  { intros E. rewrite E in S3. unfold WriteTypes.len in S3. cbn [length] in S3. lia. }
  set (L := WriteTypes.len (sdata s)) in *.
  destruct (pad_to_facts 256 L ltac:(lia)) as (F1 & F2 & F3).
  set (A := pad_to 256 L) in *. clearbody A.
  unfold ceil_div. rewrite F3. change (0 <? 0) with false.
  pose proof (N.div_mod' A 256) as EA. rewrite F3 in EA.
  pose proof (N.div_mod' (sfirst s) 256) as Ea. rewrite Hal in Ea.
  set (q := A / 256) in *. set (q1 := sfirst s / 256) in *. clearbody q q1.
  unfold U32 in S2.
  repeat split; try assumption; try lia.
Qed.

(* ---------- block descriptors: one per page, ascending ---------- *)
Fixpoint inc_from (lo : N) (ds : list bdesc) : Prop :=
  match ds with
  | [] => True
  | d :: t => lo <= bd_a d /\ bd_a d mod 256 = 0 /\ bd_bl d = 256 /\ bd_nf d = false
              /\ bd_a d + 256 <= 4294967296 /\ inc_from (bd_a d + 256) t
  end.

Lemma inc_from_weaken ds lo lo' : lo' <= lo -> inc_from lo ds -> inc_from lo' ds.
Proof.
  destruct ds as [|d t]; [auto|]. cbn [inc_from]. intros H (H1 & H2). split; [lia | exact H2].
Qed.

Lemma inc_from_app : forall d1 lo mid d2,
  inc_from lo d1 -> Forall (fun d => bd_a d + 256 <= mid) d1 -> lo <= mid -> inc_from mid d2 -> inc_from lo (d1 ++ d2).
Proof.
  induction d1 as [|d d1 IH]; intros lo mid d2 H1 F L H2; cbn [app].
  - apply (inc_from_weaken _ mid); assumption.
  - cbn [inc_from] in *. destruct H1 as (A1 & A2 & A3 & A4 & A5 & A6).
    pose proof (Forall_inv F) as Fd. cbn beta in Fd.
    repeat split; try assumption.
    apply (IH _ mid); try assumption. exact (Forall_inv_tail F).
Qed.

Lemma wa_descs_inc addr A cnt : addr mod 256 = 0 -> cnt * 256 = A -> addr + A <= 4294967296 ->
  forall cs i, i + N.of_nat (length cs) = cnt ->
  inc_from (addr + i * 256) (wa_descs uf2_config addr A cnt false i cs)
  /\ Forall (fun d => bd_a d + 256 <= addr + A) (wa_descs uf2_config addr A cnt false i cs).
Proof.
  intros Hal HA HB. induction cs as [|ch cs IH]; intros i Hi; cbn [wa_descs inc_from].
  - split; [exact I | constructor].
  - cbn [length] in Hi. change (c_bs uf2_config) with 256. cbn [bd_a bd_bl bd_nf].
    destruct (IH (i + 1) ltac:(lia)) as [I1 I2].
    replace (addr + (i + 1) * 256) with (addr + i * 256 + 256) in I1 by lia.
    split.
    + split; [lia|]. split.
      { rewrite N.mod_add by lia. exact Hal. }
      split.
      { destruct (N.ltb_spec i (cnt - 1)); lia. }
      split; [reflexivity|]. split; [lia | exact I1].
    + constructor; [cbn [bd_a]; lia | exact I2].
Qed.

Definition seg_descs (s : seg) : list bdesc :=
  wa_descs uf2_config (sfirst s) (pad_to 256 (WriteTypes.len (sdata s)))
    (ceil_div (pad_to 256 (WriteTypes.len (sdata s))) 256) false 0 (chunks 256 (sdata s)).

Lemma seg_descs_facts s : seg_ok s -> sfirst s mod 256 = 0 ->
  Forall (desc_ok uf2_config) (seg_descs s)
  /\ flat_map desc_items (seg_descs s) = seg_items s
  /\ inc_from (sfirst s) (seg_descs s)
  /\ Forall (fun d => bd_a d + 256 <= sfirst s + pad_to 256 (WriteTypes.len (sdata s))) (seg_descs s).
Proof.
  intros Sok Hal.
  destruct (seg_arith s Sok Hal) as (NE & L1 & F1 & F3 & AB & G1 & G2 & G3 & SL & F2).
  destruct (chunks_count uf2_config (sdata s) cfgv NE) as (K1 & K2 & K3).
  change (c_bs uf2_config) with 256 in K1, K2, K3. change (c_align uf2_config) with 256 in K1.
  unfold seg_descs, seg_items.
  set (L := WriteTypes.len (sdata s)) in *. set (A := pad_to 256 L) in *. set (cnt := ceil_div A 256) in *.
  assert (NEc : chunks 256 (sdata s) <> []).
  { intros Z. rewrite Z in K3. cbn [concat] in K3. apply NE. symmetry. exact K3. }
  pose proof (wa_descs_ok uf2_config (sfirst s) A cnt false cfgv) as W.
  change (c_bs uf2_config) with 256 in W. change (c_align uf2_config) with 256 in W.
  destruct (W ltac:(lia) ltac:(lia) F3 ltac:(unfold u32_max; lia) (chunks 256 (sdata s)) 0 K2 ltac:(lia) NEc) as [O1 O2].
  { rewrite K3. fold L. lia. }
  destruct (wa_descs_inc (sfirst s) A cnt Hal G2 AB (chunks 256 (sdata s)) 0 ltac:(lia)) as [I1 I2].
  rewrite N.mul_0_l, N.add_0_r in I1.
  split; [exact O1|]. split; [|split; [exact I1 | exact I2]].
  rewrite O2, K3, N.mul_0_l, N.add_0_r, N.sub_0_r. reflexivity.
Qed.

Lemma seg_descs_nb s : seg_ok s -> sfirst s mod 256 = 0 ->
  nb (seg_descs s) = ceil_div (pad_to 256 (WriteTypes.len (sdata s))) 256.
Proof.
  intros Sok Hal.
  destruct (seg_arith s Sok Hal) as (NE & _).
  destruct (chunks_count uf2_config (sdata s) cfgv NE) as (K1 & _).
  change (c_bs uf2_config) with 256 in K1. change (c_align uf2_config) with 256 in K1.
  unfold nb, seg_descs. rewrite wa_descs_length. exact K1.
Qed.

Lemma next_page a A L b : a mod 256 = 0 -> A mod 256 = 0 -> b mod 256 = 0 -> A < L + 256 -> a + L <= b -> a + A <= b.
Proof.
  intros Ha HA Hb H1 H2.
  pose proof (N.div_mod' a 256) as Ea. rewrite Ha in Ea.
  pose proof (N.div_mod' A 256) as EA. rewrite HA in EA.
  pose proof (N.div_mod' b 256) as Eb. rewrite Hb in Eb.
  set (qa := a / 256) in *. set (qA := A / 256) in *. set (qb := b / 256) in *. clearbody qa qA qb.
  lia.
Qed.

Lemma segs_inc : forall m lo, Rep m -> (forall s, In s m -> sfirst s mod 256 = 0) ->
  (forall s, In s m -> lo <= sfirst s) -> inc_from lo (flat_map seg_descs m).
Proof.
  induction m as [|s r IH]; intros lo HR HA HL; cbn [flat_map]; [exact I|].
  apply Rep_cons_iff in HR. destruct HR as (Sok & G & Rr).
  assert (Hal : sfirst s mod 256 = 0) by (apply HA; left; reflexivity).
  destruct (seg_descs_facts s Sok Hal) as (_ & _ & I1 & I2).
  destruct (seg_arith s Sok Hal) as (NE & L1 & F1 & F3 & AB & G1 & G2 & G3 & SL & F2).
  apply (inc_from_app _ lo (sfirst s + pad_to 256 (WriteTypes.len (sdata s)))).
  - apply (inc_from_weaken _ (sfirst s)); [apply HL; left; reflexivity | exact I1].
  - exact I2.
  - pose proof (HL s ltac:(left; reflexivity)). lia.
  - apply IH; [exact Rr | intros y Hy; apply HA; right; exact Hy |].
    intros y Hy. rewrite Forall_forall in G. pose proof (G y Hy) as Gy. unfold gap in Gy.
    apply (next_page _ _ (WriteTypes.len (sdata s))); try assumption; [apply HA; right; exact Hy | lia].
Qed.

(* ---------- one write_all call on a vector writer whose buffer is exactly its blocks ---------- *)
Definition vst (st : state) : Prop :=
  inv st /\ s_cfg st = uf2_config /\ s_kind st = KVector /\ d_len st = d_pos st /\ d_pos st = 512 * s_count st.

Lemma wa_pure_pos c addr A cnt nf : forall cs i st,
  d_pos (wa_pure c addr A cnt nf i cs st) = d_pos st + 512 * N.of_nat (length cs)
  /\ d_len (wa_pure c addr A cnt nf i cs st) = d_len st
  /\ s_kind (wa_pure c addr A cnt nf i cs st) = s_kind st.
Proof.
  induction cs as [|ch cs IH]; intros i st; cbn [wa_pure length].
  - repeat split; lia.
  - match goal with |- context [wa_pure _ _ _ _ _ _ cs ?s] => destruct (IH (i + 1) s) as (E1 & E2 & E3) end.
    rewrite E1, E2, E3. cbn [push d_pos d_len s_kind]. repeat split; lia.
Qed.

Lemma wa_step st s : vst st -> seg_ok s -> sfirst s mod 256 = 0 ->
  s_count st + WriteTypes.len (sdata s) + 1 <= u32_max ->
  exists st' n, write_all_pure st (sfirst s) (sdata s) false = Ok (st', n)
    /\ vst st' /\ s_count st' = s_count st + nb (seg_descs s)
    /\ nb (seg_descs s) <= WriteTypes.len (sdata s)
    /\ s_bg st' = s_bg st
    /\ s_blocks st' = s_blocks st ++ enc_from uf2_config (s_bg st) (s_count st) (seg_descs s).
Proof.
  intros (I & C & K & DL & DP) Sok Hal B.
  rewrite (seg_descs_nb s Sok Hal).
  destruct (seg_arith s Sok Hal) as (NE & L1 & F1 & F3 & AB & G1 & G2 & G3 & SL & F2).
  destruct (chunks_count uf2_config (sdata s) cfgv NE) as (K1 & K2 & K3).
  change (c_bs uf2_config) with 256 in K1, K2, K3. change (c_align uf2_config) with 256 in K1.
  unfold write_all_pure, seg_descs. rewrite C.
  change (c_bs uf2_config) with 256. change (c_align uf2_config) with 256.
  set (L := WriteTypes.len (sdata s)) in *. set (A := pad_to 256 L) in *. set (cnt := ceil_div A 256) in *.
  destruct (N.eqb_spec L 0); [lia|].
  destruct (N.ltb_spec (u32_max - sfirst s) (A - 1)); [unfold u32_max in *; lia|].
  destruct (N.ltb_spec u32_max cnt); [lia|].
  destruct (N.ltb_spec (u32_max - s_count st) cnt); [lia|].
  assert (R : reserve st (cnt * 512) = Some (set_dlen st (d_pos st + cnt * 512))).
  { unfold reserve. rewrite K.
    destruct (N.ltb_spec (d_len st - d_pos st) (cnt * 512)); [|lia].
    destruct (N.ltb_spec (isize_max - d_pos st) (cnt * 512)); [unfold isize_max, u32_max in *; lia | reflexivity]. }
  rewrite R.
  destruct (reserve_inv _ _ _ I R) as [I1 R1].
  set (st1 := set_dlen st (d_pos st + cnt * 512)) in *.
  assert (FC : Forall (fun ch => WriteTypes.len ch <= 476) (chunks 256 (sdata s))).
  { apply chunked_le in K2. eapply Forall_impl; [|exact K2]. intros ch Hch. cbn beta in Hch.
    unfold WriteTypes.len. lia. }
  destruct (wa_pure_inv uf2_config (sfirst s) A cnt false (chunks 256 (sdata s)) 0 st1 I1 FC) as (J1 & J2 & J3).
  { rewrite K1. lia. }
  destruct (wa_pure_pos uf2_config (sfirst s) A cnt false (chunks 256 (sdata s)) 0 st1) as (P1 & P2 & P3).
  destruct (wa_pure_blocks uf2_config (sfirst s) A cnt false (chunks 256 (sdata s)) 0 st1) as (B1 & B2).
  rewrite K1 in J2, P1.
  subst st1. cbn [set_dlen d_pos d_len s_kind s_count s_blocks s_bg s_cfg] in J2, J3, P1, P2, P3, B1, B2.
  eexists _, _. split; [reflexivity|].
  split.
  { split; [exact J1|]. split; [rewrite J3; exact C|]. split; [rewrite P3; exact K|].
    split; [rewrite P1, P2; lia | rewrite P1, J2; lia]. }
  split; [exact J2|]. split; [exact G3|]. split; [exact B2 | exact B1].
Qed.

(* ---------- the loop over the segments ---------- *)
Lemma emit_loop_ok dbg : forall segs st,
  Rep segs -> (forall s, In s segs -> sfirst s mod 256 = 0) -> vst st ->
  s_count st + cost (ops_of segs) <= u32_max ->
  exists st', emit_loop dbg segs st = Go st' /\ vst st' /\ s_count st' <= u32_max /\ s_bg st' = s_bg st
    /\ s_blocks st' = s_blocks st ++ enc_from uf2_config (s_bg st) (s_count st) (flat_map seg_descs segs).
Proof.
  induction segs as [|s r IH]; intros st HR HA V B.
  - exists st. cbn [emit_loop flat_map enc_from ops_of map cost fold_right] in *. rewrite app_nil_r.
    split; [reflexivity|]. split; [exact V|]. split; [lia|]. split; reflexivity.
  - cbn [ops_of map cost fold_right] in B. fold (ops_of r) in B. fold (cost (ops_of r)) in B.
    cbn [call_of w_data] in B.
    pose proof (Rep_head _ _ HR) as Sok. pose proof (Rep_tail _ _ HR) as Rr.
    assert (Hal : sfirst s mod 256 = 0) by (apply HA; left; reflexivity).
    destruct (seg_arith s Sok Hal) as (NE & L1 & F1 & F3 & AB & G1 & G2 & G3 & SL & F2).
    pose proof Sok as (S1 & S2 & S3). unfold U32 in S2.
    cbn [emit_loop].
    rewrite write_all_spec;
      [| apply V | unfold u32_max; lia | unfold isize_max; lia].
    destruct (wa_step st s V Sok Hal ltac:(lia)) as (st1 & n & W & V1 & C1 & Nle & Bg & Bl).
    rewrite W.
    destruct (IH st1 Rr ltac:(intros y Hy; apply HA; right; exact Hy) V1 ltac:(lia))
      as (st' & E & V' & U & Bg' & Bl').
    exists st'. split; [exact E|]. split; [exact V'|]. split; [exact U|]. split; [congruence|].
    rewrite Bl', Bl, Bg, C1. cbn [flat_map]. rewrite enc_from_app, app_assoc. reflexivity.
Qed.

(* ---------- what the reader's blocks look like ---------- *)
Lemma shaped_rb T : forall ds k lo, inc_from lo ds -> blocks_shaped (rb_from uf2_config T k ds) = true.
Proof.
  induction ds as [|d ds IH]; intros k lo H; [reflexivity|].
  cbn [inc_from] in H. destruct H as (A1 & A2 & A3 & A4 & A5 & A6).
  unfold blocks_shaped in *. cbn [rb_from forallb]. rewrite (IH (k + 1) _ A6), andb_true_r.
  unfold block_shape, rb_of. cbn [rb_psize rb_target rb_flags rb_info].
  rewrite A4, flags_uf2, info_uf2, A3, A2, !N.eqb_refl.
  unfold DictSpec.SPACE.
  destruct (N.leb_spec (bd_a d + 256) 4294967296); [reflexivity | lia].
Qed.

Lemma numbered_rb c T : forall ds k,
  all_from k (fun k r => (rb_no r =? k) && (rb_total r =? T)) (rb_from c T k ds) = true.
Proof.
  induction ds as [|d ds IH]; intros k; [reflexivity|].
  cbn [rb_from all_from]. rewrite IH. unfold rb_of. cbn [rb_no rb_total]. rewrite !N.eqb_refl. reflexivity.
Qed.

Lemma same_page_false a b : a mod 256 = 0 -> b mod 256 = 0 -> a + 256 <= b -> same_page a b = false.
Proof.
  intros Ha Hb H. unfold same_page. rewrite !N.shiftr_div_pow2. change (2 ^ 8) with 256.
  apply N.eqb_neq.
  pose proof (N.div_mod' a 256) as Ea. rewrite Ha in Ea.
  pose proof (N.div_mod' b 256) as Eb. rewrite Hb in Eb.
  set (qa := a / 256) in *. set (qb := b / 256) in *. clearbody qa qb. lia.
Qed.

Lemma no_same_page c T a : a mod 256 = 0 -> forall ds k lo, inc_from lo ds -> a + 256 <= lo ->
  existsb (fun r' => same_page a (rb_target r')) (rb_from c T k ds) = false.
Proof.
  intros Ha. induction ds as [|d ds IH]; intros k lo H L; [reflexivity|].
  cbn [inc_from] in H. destruct H as (A1 & A2 & A3 & A4 & A5 & A6).
  cbn [rb_from existsb]. unfold rb_of at 1. cbn [rb_target].
  rewrite same_page_false by (try assumption; lia). cbn [orb].
  apply (IH _ (bd_a d + 256)); [exact A6 | lia].
Qed.

Lemma distinct_rb c T : forall ds k lo, inc_from lo ds -> pages_distinct (rb_from c T k ds) = true.
Proof.
  induction ds as [|d ds IH]; intros k lo H; [reflexivity|].
  cbn [inc_from] in H. destruct H as (A1 & A2 & A3 & A4 & A5 & A6).
  cbn [rb_from pages_distinct]. unfold rb_of at 1. cbn [rb_target].
  rewrite (no_same_page c T (bd_a d) A2 ds (k + 1) _ A6) by lia.
  rewrite (IH (k + 1) _ A6). reflexivity.
Qed.

Lemma items_segs : forall m, Rep m -> (forall s, In s m -> sfirst s mod 256 = 0) ->
  Forall (desc_ok uf2_config) (flat_map seg_descs m)
  /\ flat_map desc_items (flat_map seg_descs m) = flat_map seg_items m.
Proof.
  induction m as [|s r IH]; intros HR HA; cbn [flat_map].
  - split; [constructor | reflexivity].
  - destruct (IH (Rep_tail _ _ HR) ltac:(intros y Hy; apply HA; right; exact Hy)) as [I1 I2].
    destruct (seg_descs_facts s (Rep_head _ _ HR) ltac:(apply HA; left; reflexivity)) as (O1 & O2 & _).
    split; [apply Forall_app; split; assumption|].
    rewrite flat_map_app, O2, I2. reflexivity.
Qed.

(* ---------- the emission ---------- *)
Lemma emit_ok dbg m : Rep m -> small m -> (forall s, In s m -> sfirst s mod 256 = 0) ->
  exists file rs, emit_step dbg m = Go file /\ read_uf2 file = Some rs
    /\ blocks_shaped rs = true /\ numbered rs = true /\ pages_distinct rs = true
    /\ file_items rs = flat_map seg_items m.
Proof.
  intros HR HS HA.
  destruct (new_accepts uf2_config (DVector 0) cfgv ltac:(unfold dest_ok, isize_max; lia))
    as (st0 & N0 & I0 & Z0 & C0 & B0).
  change (new uf2_config (DVector 0)) with
    (@inr nerr state {| s_cfg := uf2_config; s_kind := KVector; d_len := 0; d_pos := 0;
                        s_count := 0; s_blocks := []; s_bg := 0 |}) in N0.
  injection N0 as E0. subst st0.
  unfold emit_step.
  change (new uf2_config (DVector 0)) with
    (@inr nerr state {| s_cfg := uf2_config; s_kind := KVector; d_len := 0; d_pos := 0;
                        s_count := 0; s_blocks := []; s_bg := 0 |}).
  cbv iota. unfold map_iter.
  set (st0 := {| s_cfg := uf2_config; s_kind := KVector; d_len := 0; d_pos := 0;
                 s_count := 0; s_blocks := []; s_bg := 0 |}) in *.
  assert (V0 : vst st0).
  { split; [exact I0|]. repeat split. }
  destruct (emit_loop_ok dbg m st0 HR HA V0) as (st & E & V & U & Bg & Bl).
  { rewrite cost_ops. unfold small in HS. change (s_count st0) with 0. lia. }
  rewrite E. cbn [pbind].
  destruct V as (I & C & K & DL & DP).
  rewrite (finish_spec dbg st I U).
  change (s_blocks st0) with (@nil (list N)) in Bl. change (s_bg st0) with 0 in Bl.
  change (s_count st0) with 0 in Bl. cbn [app] in Bl.
  destruct (items_segs m HR HA) as [DO DI].
  pose proof (segs_inc m 0 HR HA ltac:(intros; lia)) as INC.
  set (ds := flat_map seg_descs m) in *.
  assert (T : s_count st = nb ds).
  { rewrite (i_cnt _ I). unfold len_blocks. rewrite Bl, enc_from_length. reflexivity. }
  exists (dest_bytes 0 (with_blocks st (map (patch_total (s_count st)) (s_blocks st)))),
         (rb_from uf2_config (nb ds) 0 ds).
  split; [reflexivity|].
  assert (DB : dest_bytes 0 (with_blocks st (map (patch_total (s_count st)) (s_blocks st)))
               = concat (map (patch_total (s_count st)) (s_blocks st))).
  { unfold dest_bytes, len_blocks, BLOCK_LEN. cbn [with_blocks d_pos d_len s_blocks s_bg]. rewrite map_length.
    pose proof (i_cnt _ I) as Cn. unfold len_blocks in Cn.
    replace (d_pos st - 512 * N.of_nat (length (s_blocks st))) with 0 by lia.
    replace (d_len st - d_pos st) with 0 by lia.
    change (N.to_nat 0) with 0%nat. cbn [repeat app]. apply app_nil_r. }
  rewrite DB.
  split.
  { unfold read_uf2. rewrite split_blocks_concat.
    - rewrite Bl, T. apply parse_enc_from; try assumption.
      + exact cfgv.
      + rewrite <- T. exact U.
      + vm_compute. discriminate.
      + rewrite <- T. lia.
    - apply Forall_map. eapply Forall_impl; [|exact (i_sz _ I)]. intros b Hb. apply patch_total_length. exact Hb.
    - apply le_n. }
  split; [exact (shaped_rb _ ds 0 0 INC)|].
  split.
  { unfold numbered. rewrite rb_from_length. apply numbered_rb. }
  split; [exact (distinct_rb _ _ ds 0 0 INC)|].
  unfold file_items. rewrite flat_items_rb by exact DO. exact DI.
Qed.
