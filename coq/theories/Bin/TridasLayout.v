(* C20, layout level: the statements of the listing of a well-formed binary, given to the reference layout of C05
   (Asm/LayoutSpec.v), place instruction k at the address it came from and produce the canonical encoding of every
   instruction: layout_spec is defined, its image is the single region (0x20000000, canonical_image), and the statement
   list is in the class of C05_layout_partial.
   Labels: `l_T:` is defined exactly at T (label names are injective: Bin/LabelInv.v); an instruction mentions a label
   only if it is a B<cond>/BL, whose target is a branch target of the file and therefore defined in the final table. *)
From Coq Require Import ZArith NArith List Bool Lia ZifyBool ZifyNat ZifyN String.
From Trion Require Import Text.Types Expr.I64 Expr.EvalModel Expr.Denote
  Arm.Instr Arm.EncodeModel Arm.DecodeModel Arm.DisplayModel Arm.DisplayArgs Arm.CodecCheck Arm.DecProofs
  Arm.AsmStmtModel Arm.AsmStmtProofs Arm.AsmEvalLink
  Mem.MapModel Mem.DictSpec Mem.MapProofs
  Asm.LayoutSpec Asm.LayoutEval Asm.LayoutInstr Asm.LayoutInstrC Asm.LayoutSim Asm.LayoutStep Asm.LayoutFinal
  Bin.DecodedWf Bin.ListingTypes Bin.TridasModel Bin.ListingSpec Bin.TridasProofs Bin.LabelInv Bin.TridasAtoms Bin.TridasText.
From Trion Require Asm.CtxModel Asm.ScopeProofs Asm.LayoutWf.
Import ListNotations.
Open Scope N_scope.

(* ================================================================ the statements of a listing *)
Definition header_stmt : element_value := EDirective $"addr" [AConst 0x20000000].
Definition instr_stmt (i : instr) (addr : N) : element_value := EInstruction (mnemonic i) (display_args i addr).
Definition item_stmts (l : list item) (e : item) : list element_value :=
  match e with (o, i, _) => (if is_target l o then [ELabel (label (base + o))] else []) ++ [instr_stmt i (base + o)] end.
Definition spec_stmts (l : list item) : list element_value := header_stmt :: flat_map (item_stmts l) l.

Lemma listing_stmts_nonblank ls : listing_stmts (nonblank ls) = listing_stmts ls.
Proof.
  unfold listing_stmts, nonblank. induction ls as [|x r IH]; [reflexivity|].
  destruct x; cbn [filter flat_map line_stmt app]; rewrite IH; reflexivity.
Qed.

Lemma listing_stmts_items l x : listing_stmts (flat_map (fun e => match e with (off, i, _) =>
    (if is_target l off then [LLabel (base + off)] else []) ++ [LInstr i (base + off)] end) x) = flat_map (item_stmts l) x.
Proof.
  unfold listing_stmts. induction x as [|[[o i] n] r IH]; [reflexivity|]. cbn [flat_map item_stmts].
  rewrite flat_map_app, IH. destruct (is_target l o); reflexivity.
Qed.

Lemma listing_stmts_spec ls l : nonblank ls = LHeader :: lines_of_items l -> listing_stmts ls = spec_stmts l.
Proof.
  intros H. rewrite <- listing_stmts_nonblank, H. unfold spec_stmts, lines_of_items.
  change (listing_stmts (LHeader :: ?x)) with (header_stmt :: listing_stmts x). now rewrite listing_stmts_items.
Qed.

(* ================================================================ evaluation in a table of labels *)
(* every entry binds a printed label to the address it names *)
Definition label_env (E : env) : Prop :=
  forall k v, In (k, v) E -> exists t, t < 4294967296 /\ k = label t /\ v = Z.of_N t.

Lemma env_get_label E t : label_env E -> t < 4294967296 -> In (label t, Z.of_N t) E -> env_get E (label t) = Some (Z.of_N t).
Proof.
  intros LE Ht. induction E as [|[k v] r IH]; intros Hin; [destruct Hin|]. cbn [env_get].
  destruct (str_eqb k (label t)) eqn:Q.
  - apply ScopeProofs.str_eqb_eq in Q. destruct (LE k v (or_introl eq_refl)) as (u & Hu & Ek & Ev).
    rewrite Ek in Q. apply (label_inj _ _ Hu Ht) in Q. subst. reflexivity.
  - apply IH; [intros k' v' H'; apply (LE k' v'); now right|].
    destruct Hin as [Hin|Hin]; [|exact Hin]. inversion Hin; subst. rewrite ScopeProofs.str_eqb_refl in Q. discriminate.
Qed.

Lemma env_get_fresh E t : label_env E -> t < 4294967296 -> (forall v, ~ In (label t, v) E) -> env_get E (label t) = None.
Proof.
  intros LE Ht. induction E as [|[k v] r IH]; intros Hn; [reflexivity|]. cbn [env_get].
  destruct (str_eqb k (label t)) eqn:Q.
  - apply ScopeProofs.str_eqb_eq in Q. subst k. exfalso. apply (Hn v). now left.
  - apply IH; [intros k' v' H'; apply (LE k' v'); now right|]. intros v' H'. apply (Hn v'). now right.
Qed.

Lemma final_ev_is_ev_of E : final_ev E = ev_of (lkE E).
Proof. reflexivity. Qed.

Lemma final_ev_label E t : label_env E -> t < 4294967296 -> In (label t, Z.of_N t) E ->
  final_ev E (label_arg t) = (AConst (Z.of_N t), SComplete).
Proof.
  intros LE Ht Hin. rewrite final_ev_is_ev_of. unfold ev_of, label_arg. cbn [evaluate]. rewrite is_register_label.
  unfold lkE. rewrite (env_get_label E t LE Ht Hin). reflexivity.
Qed.

(* the evaluator that additionally binds EVERY label name: it satisfies ev_display, and it agrees with final_ev E on the
   operands of an instruction whose target label is bound in E *)
Definition ev_all (E : env) : evaluator := fun a =>
  match a with
  | AIdent s => match unlabel s with Some t => (AConst (Z.of_N t), SComplete) | None => final_ev E a end
  | _ => final_ev E a
  end.

Lemma unlabel_reg r : unlabel (reg_name r) = None. Proof. destruct r; reflexivity. Qed.
Lemma unlabel_sysreg s : unlabel (sysreg_name s) = None. Proof. destruct s; reflexivity. Qed.

Lemma ev_all_display E : ev_display (ev_all E).
Proof.
  constructor.
  - intros v. apply (ev_of_const (lkE E)).
  - intros r. unfold ev_all, id_reg. rewrite unlabel_reg. apply (ev_of_reg (lkE E)).
  - intros p H. apply (ev_of_neg (lkE E)). exact H.
  - intros t H. unfold ev_all, label_arg. now rewrite (unlabel_label t H).
  - intros a v Hv. unfold ev_all, mem_arg. rewrite final_ev_is_ev_of.
    destruct v as [|p|p]; [right; split; [reflexivity | apply ev_of_mem_zero] | left; apply ev_of_mem_pos | lia].
  - intros a o. apply (ev_of_mem_reg (lkE E)).
Qed.

(* the identifiers that stand as whole operands: register names, `i`, `SY`, or the label of the PC-relative target *)
Definition top_ident_ok (i : instr) (addr : N) (a : arg) : Prop :=
  match a with
  | AIdent s => unlabel s = None \/ exists T, pc_target i addr = Some T /\ s = label T
  | _ => True
  end.

Lemma immreg_top i addr x : top_ident_ok i addr (immreg_arg x).
Proof. destruct x as [v|r]; [destruct v; exact I|]. left. apply unlabel_reg. Qed.

Lemma display_top_idents i addr : Forall (top_ident_ok i addr) (display_args i addr).
Proof.
  assert (R : forall r, top_ident_ok i addr (id_reg r)) by (intros r; left; apply unlabel_reg).
  assert (X : forall x, top_ident_ok i addr (immreg_arg x)) by apply immreg_top.
  assert (S : forall s, top_ident_ok i addr (AIdent (sysreg_name s))) by (intros s; left; apply unlabel_sysreg).
  destruct i; cbn [display_args pc_target] in *;
    try (destruct addr0; try destruct off);
    repeat (apply Forall_cons; [first [apply R | apply X | apply S | exact I | left; reflexivity | right; eexists; split; reflexivity]|]);
    apply Forall_nil.
Qed.

Lemma ev_all_le E i addr :
  (forall T, pc_target i addr = Some T -> T < 4294967296 /\ final_ev E (label_arg T) = (AConst (Z.of_N T), SComplete)) ->
  forall ev2, (forall a, In a (display_args i addr) -> forall x, final_ev E a = (x, SComplete) -> ev2 a = (x, SComplete)) ->
  ev_le_on (display_args i addr) (ev_all E) ev2.
Proof.
  intros HT ev2 H2 a a' Ha H. apply (H2 a Ha).
  destruct a as [v|s|s|x y|x|x y|x y|x y|x y|x|x y|x y|x y|x y|x y|x|x|x y]; try exact H.
  cbn [ev_all] in H. destruct (unlabel s) as [t|] eqn:U; [|exact H].
  pose proof (proj1 (Forall_forall _ _) (display_top_idents i addr) _ Ha) as [N0|(T & PT & ->)]; [congruence|].
  destruct (HT T PT) as [Tl FT]. rewrite (unlabel_label T Tl) in U. inversion U; subst t.
  inversion H; subst a'. exact FT.
Qed.

(* ================================================================ which identifiers an instruction's operands mention *)
Definition all_regs_arg (a : arg) : Prop := forall n, In n (LayoutEval.idents a) -> CtxModel.is_register n = true.

Lemma regs_id r : all_regs_arg (id_reg r).
Proof. intros n [<-|[]]. apply is_register_reg. Qed.
Lemma regs_immreg x : all_regs_arg (immreg_arg x).
Proof. destruct x as [v|r]; [destruct v; intros n []|apply regs_id]. Qed.
Lemma regs_sys s : all_regs_arg (AIdent (sysreg_name s)).
Proof. intros n [<-|[]]. destruct s; reflexivity. Qed.
Lemma regs_set bits : all_regs_arg (regset_arg bits).
Proof.
  intros n Hn. unfold regset_arg in Hn. cbn [LayoutEval.idents] in Hn. apply in_flat_map in Hn. destruct Hn as (a & Ha & Hn).
  apply in_flat_map in Ha. destruct Ha as (r & _ & Ha). destruct (N.testbit bits (reg_num r)); [|destruct Ha].
  destruct Ha as [<-|[]]. exact (regs_id r n Hn).
Qed.
Lemma regs_mem a o : all_regs_arg o -> all_regs_arg (mem_arg a o).
Proof. intros H n Hn. unfold mem_arg in Hn. cbn [LayoutEval.idents id_reg] in Hn. destruct Hn as [<-|Hn]; [apply is_register_reg|exact (H n Hn)]. Qed.
Lemma regs_const v : all_regs_arg (AConst v).
Proof. intros n []. Qed.

(* operands of registers and numbers only / a B<cond> or BL with its label / an operand that is never evaluated *)
Lemma instr_shape i addr : no_pc_data i = true ->
  Forall all_regs_arg (display_args i addr) \/
  (exists T, pc_target i addr = Some T /\ is_branch (kind_template i) = true /\ display_args i addr = [label_arg T]) \/
  no_eval (kind_template i) = true.
Proof.
  intros NP.
  destruct i; cbn [no_pc_data] in NP; try discriminate NP;
    try (right; left; eexists; split; [reflexivity|split; reflexivity]);
    try (right; right; reflexivity);
    left; cbn [display_args]; try (destruct addr0; try discriminate NP);
    repeat (apply Forall_cons; [first [apply regs_id | apply regs_immreg | apply regs_sys | apply regs_set | apply regs_const
                                      | apply regs_mem; first [apply regs_id | apply regs_immreg] ]|]); apply Forall_nil.
Qed.

(* ================================================================ sizes *)
Lemma isz_kind_template i : isz (kind_template i) = isz i.
Proof. destruct i; try reflexivity; destruct flags; reflexivity. Qed.

Lemma instr_size_mnemonic i : instr_size (mnemonic i) = Some (isz i).
Proof.
  unfold instr_size. rewrite template_of_mnemonic, <- isz_kind_template.
  destruct (kind_template i); reflexivity.
Qed.

(* ================================================================ pass 1 / pass 2 on the listing of a well-formed binary *)
Definition item_bytes (e : item) : list N :=
  match e with (_, i, _) => match enc i with EncOk hws => le_bytes hws | EncUnrep => [] end end.
Lemma canonical_image_bytes l : canonical_image l = flat_map item_bytes l.
Proof. reflexivity. Qed.

Definition item_label (l : list item) (e : item) : env :=
  if is_target l (item_off e) then [(label (base + item_off e), Z.of_N (base + item_off e))] else [].
Definition item_placed (e : item) : N * LayoutSpec.item :=
  match e with (o, i, _) => (base + o, IInstr (mnemonic i) (display_args i (base + o))) end.

Lemma rev_item_label l e : rev (item_label l e) = item_label l e.
Proof. unfold item_label. destruct (is_target l (item_off e)); reflexivity. Qed.

(* all steps of pass 1 over a statement list, from state s *)
Definition AllSteps (fs : str -> option (list N)) (Q : p1 -> element_value -> p1 -> Prop) (s : p1) (prog : list element_value) : Prop :=
  forall pre e post s0 s1, prog = pre ++ e :: post -> pass1 fs s pre = Some s0 -> pass1_step fs s0 e = Some s1 -> Q s0 e s1.

Lemma allsteps_nil fs (Q : p1 -> element_value -> p1 -> Prop) s : AllSteps fs Q s [].
Proof. intros pre e post s0 s1 H. destruct pre; discriminate H. Qed.

Lemma allsteps_cons fs (Q : p1 -> element_value -> p1 -> Prop) s e r s' : pass1_step fs s e = Some s' -> Q s e s' -> AllSteps fs Q s' r -> AllSteps fs Q s (e :: r).
Proof.
  intros St Qe Hr pre e0 post s0 s1 H P1 P2. destruct pre as [|p pre].
  - cbn [app] in H. inversion H; subst. cbn [pass1] in P1. inversion P1; subst. rewrite St in P2. inversion P2; subst. exact Qe.
  - cbn [app] in H. inversion H; subst. cbn [pass1] in P1. rewrite St in P1. exact (Hr pre e0 post s0 s1 eq_refl P1 P2).
Qed.

Lemma allsteps_app fs (Q : p1 -> element_value -> p1 -> Prop) s x y s' : AllSteps fs Q s x -> pass1 fs s x = Some s' -> AllSteps fs Q s' y -> AllSteps fs Q s (x ++ y).
Proof.
  revert s. induction x as [|e r IH]; intros s Hx P Hy.
  - cbn [pass1] in P. inversion P; subst. exact Hy.
  - cbn [pass1] in P. destruct (pass1_step fs s e) as [s1|] eqn:St; [|discriminate]. cbn [app].
    apply (allsteps_cons fs Q s e (r ++ y) s1 St).
    + exact (Hx [] e r s s1 eq_refl eq_refl St).
    + apply IH; [|exact P|exact Hy]. intros pre e0 post s0 s2 H P1 P2.
      apply (Hx (e :: pre) e0 post s0 s2); [cbn [app]; now rewrite H|cbn [pass1]; now rewrite St|exact P2].
Qed.

Lemma pass1_app fs s x y s' : pass1 fs s x = Some s' -> pass1 fs s (x ++ y) = pass1 fs s' y.
Proof.
  revert s. induction x as [|e r IH]; intros s P; cbn [pass1 app] in *; [now inversion P|].
  destruct (pass1_step fs s e); [now apply IH|discriminate].
Qed.

(* what no_collision asks of one step *)
Definition NoColl (s0 : p1) (e : element_value) (s1 : p1) : Prop :=
  (forall x, LayoutWf.is_addr e = true -> p_cur s1 = Some x -> ~ LayoutWf.covered (p_items s0) x) /\
  (forall a it x, p_items s1 = (a, it) :: p_items s0 -> a <= x -> x < a + LayoutWf.item_size it -> ~ LayoutWf.covered (p_items s0) x).

Lemma cons_neq_self {T} (x : T) l : l <> x :: l.
Proof. intros H. apply (f_equal (@List.length T)) in H. cbn in H. lia. Qed.

Section WF.
Variable fs : str -> option (list N).
Variable b : list N.
Variable l : list item.
Hypothesis Hb : bytes_ok b.
Hypothesis Hl : instructions b = Some l.
Hypothesis Hwf : wf_items l = true.
Hypothesis Hfit : N.of_nat (List.length b) < 0xE0000000.
Local Notation blen := (N.of_nat (List.length b)).

Lemma L_dec o i n : In (o, i, n) l -> dec (skipn (N.to_nat o) b) = DecOk n i.
Proof. eapply Hdec; eassumption. Qed.
Lemma L_facts o i n : In (o, i, n) l ->
  o < blen /\ o + n <= blen /\ (n = 2 \/ n = 4) /\ (exists k, o = 2 * k) /\ (o + n = blen \/ exists i' n', In (o + n, i', n') l).
Proof. eapply item_facts; eassumption. Qed.
Lemma L_chain : chain 0 l blen.
Proof. eapply Hchain; eassumption. Qed.
Lemma L_target o i n t : In (o, i, n) l -> direct_target o i = Some t -> (0 <= t)%Z /\ exists i' n', In (Z.to_N t, i', n') l.
Proof. eapply target_item; eassumption. Qed.
Lemma L_in_space o i n : In (o, i, n) l -> target_in_space i (base + o) = true.
Proof. eapply item_in_space; eassumption. Qed.

Lemma item_enc o i n : In (o, i, n) l -> exists hws, enc i = EncOk hws /\ 2 * N.of_nat (List.length hws) = n /\ isz i = n /\
  wf_instr i /\ no_pc_data i = true /\ dec (skipn (N.to_nat o) b) = DecOk n i.
Proof.
  intros I. assert (D := L_dec _ _ _ I). assert (Hs := bytes_ok_skipn (N.to_nat o) b Hb).
  destruct (dec_ok_facts _ _ _ Hs D) as [_ [_ [hws [E [L _]]]]]. exists hws. split; [exact E|]. split; [exact L|].
  split; [rewrite <- (enc_size i hws E); exact L|]. split; [exact (dec_wf _ _ _ Hs D)|]. split; [|exact D].
  unfold wf_items in Hwf. apply andb_prop in Hwf. destruct Hwf as [H _]. apply andb_prop in H. destruct H as [H _].
  apply andb_prop in H. destruct H as [_ H2]. rewrite forallb_forall in H2. exact (H2 _ I).
Qed.

(* the state pass 1 is in when it reaches the instruction at offset o *)
Record Inv (s : p1) (o : N) : Prop := {
  inv_cur : p_cur s = Some (base + o);
  inv_items : forall a it, In (a, it) (p_items s) -> a + LayoutWf.item_size it <= base + o;
  inv_env : forall k v, In (k, v) (p_env s) -> exists o', o' < o /\ k = label (base + o') /\ v = Z.of_N (base + o') }.

Lemma walk : forall x o e_, chain o x e_ -> (forall it, In it x -> In it l) -> forall s, Inv s o ->
  let s' := mkP1 (Some (base + e_)) (rev (flat_map (item_label l) x) ++ p_env s) (rev (map item_placed x) ++ p_items s) in
  pass1 fs s (flat_map (item_stmts l) x) = Some s' /\ Inv s' e_ /\ AllSteps fs NoColl s (flat_map (item_stmts l) x).
Proof.
  induction 1 as [o|o i n x e_ Hn C IH]; intros Sub s V; cbn zeta.
  - cbn [flat_map map rev app pass1].
    assert (Es : mkP1 (Some (base + o)) (p_env s) (p_items s) = s) by (destruct V as [V1 _ _]; destruct s; cbn in *; now rewrite V1).
    rewrite Es. split; [reflexivity|]. split; [exact V|apply allsteps_nil].
  - assert (I : In (o, i, n) l) by (apply Sub; now left).
    destruct (L_facts _ _ _ I) as (Lo & Le & _ & _ & _).
    destruct (item_enc _ _ _ I) as (hws & E & L & Z & _).
    destruct V as [V1 V2 V3].
    (* the label line *)
    set (s1 := if is_target l o then mkP1 (Some (base + o)) ((label (base + o), Z.of_N (base + o)) :: p_env s) (p_items s) else s).
    assert (P1 : pass1 fs s (if is_target l o then [ELabel (label (base + o))] else []) = Some s1 /\
                 AllSteps fs NoColl s (if is_target l o then [ELabel (label (base + o))] else [])).
    { subst s1. destruct (is_target l o); [|split; [reflexivity|apply allsteps_nil]].
      assert (St : pass1_step fs s (ELabel (label (base + o))) = Some (mkP1 (Some (base + o)) ((label (base + o), Z.of_N (base + o)) :: p_env s) (p_items s))).
      { cbn [pass1_step]. rewrite V1. replace (base + o <? 4294967296) with true by (unfold base in *; lia).
        unfold define. rewrite is_register_label.
        rewrite env_get_fresh; [rewrite V1; reflexivity| |unfold base in *; lia|].
        - intros k v Hkv. destruct (V3 k v Hkv) as (o' & Ho' & -> & ->). exists (base + o'). unfold base in *. repeat split; lia.
        - intros v Hv. destruct (V3 _ _ Hv) as (o' & Ho' & Ek & _). apply label_inj in Ek; unfold base in *; lia. }
      split; [cbn [pass1]; now rewrite St|].
      eapply allsteps_cons; [exact St| |apply allsteps_nil]. split.
      - intros x0 Hx. discriminate Hx.
      - cbn [p_items]. intros a it x0 Hx. exfalso. exact (cons_neq_self _ _ Hx). }
    destruct P1 as [P1 A1].
    assert (C1 : p_cur s1 = Some (base + o)) by (subst s1; destruct (is_target l o); [reflexivity|exact V1]).
    assert (I1 : p_items s1 = p_items s) by (subst s1; destruct (is_target l o); reflexivity).
    assert (E1 : p_env s1 = item_label l (o, i, n) ++ p_env s) by (subst s1; unfold item_label; cbn [item_off fst]; destruct (is_target l o); reflexivity).
    (* the instruction line *)
    set (s2 := mkP1 (Some (base + (o + n))) (p_env s1) ((base + o, IInstr (mnemonic i) (display_args i (base + o))) :: p_items s1)).
    assert (St2 : pass1_step fs s1 (instr_stmt i (base + o)) = Some s2).
    { unfold instr_stmt. cbn [pass1_step]. rewrite instr_size_mnemonic, Z. unfold place. rewrite C1.
      replace (base + o + n <=? 4294967296) with true by (unfold base in *; lia). subst s2. now rewrite N.add_assoc. }
    assert (V' : Inv s2 (o + n)).
    { subst s2. constructor; cbn [p_cur p_env p_items].
      - reflexivity.
      - intros a it [Hin|Hin].
        + inversion Hin; subst. cbn [LayoutWf.item_size]. rewrite instr_size_mnemonic, Z. lia.
        + rewrite I1 in Hin. specialize (V2 _ _ Hin). lia.
      - intros k v Hkv. rewrite E1 in Hkv. apply in_app_or in Hkv. destruct Hkv as [Hkv|Hkv].
        + unfold item_label in Hkv. cbn [item_off fst] in Hkv. destruct (is_target l o); [|destruct Hkv].
          destruct Hkv as [Hkv|[]]. inversion Hkv; subst. exists o. destruct Hn; repeat split; lia.
        + destruct (V3 _ _ Hkv) as (o' & Ho' & Ek & Ev). exists o'. repeat split; try assumption. lia. }
    destruct (IH (fun it Hit => Sub it (or_intror Hit)) s2 V') as (P3 & V3' & A3). cbn zeta in P3, V3'.
    assert (N2 : NoColl s1 (instr_stmt i (base + o)) s2).
    { split; [intros x0 Hx; discriminate Hx|]. subst s2. cbn [p_items]. intros a it x0 Hx Ha Hx0. inversion Hx; subst a it.
      intros (a' & it' & Hin & H1 & H2). rewrite I1 in Hin. specialize (V2 _ _ Hin). lia. }
    cbn [flat_map item_stmts]. rewrite <- app_assoc. split; [|split].
    + rewrite (pass1_app _ _ _ _ _ P1). cbn [app pass1]. rewrite St2, P3. f_equal.
      subst s2. cbn [p_env p_items map rev flat_map]. rewrite E1, I1, rev_app_distr, rev_item_label, <- !app_assoc. reflexivity.
    + match goal with |- Inv ?S _ =>
        replace S with (mkP1 (Some (base + e_)) (rev (flat_map (item_label l) x) ++ p_env s2) (rev (map item_placed x) ++ p_items s2)); [exact V3'|] end.
      subst s2. cbn [p_env p_items map rev flat_map]. rewrite E1, I1, rev_app_distr, rev_item_label, <- !app_assoc. reflexivity.
    + eapply allsteps_app; [exact A1|exact P1|]. cbn [app]. eapply allsteps_cons; [exact St2|exact N2|exact A3].
Qed.

(* ---------------------------------------------------------------- the whole program: pass 1 *)
Definition final_env : env := rev (flat_map (item_label l) l).
Definition final_p1 : p1 := mkP1 (Some (base + blen)) final_env (rev (map item_placed l)).

Lemma pass1_spec_stmts : pass1 fs (mkP1 None [] []) (spec_stmts l) = Some final_p1 /\ LayoutWf.no_collision fs (spec_stmts l).
Proof.
  set (s0 := mkP1 (Some base) [] []).
  assert (St : pass1_step fs (mkP1 None [] []) header_stmt = Some s0) by reflexivity.
  assert (V : Inv s0 0).
  { constructor; cbn [s0 p_cur p_env p_items]; [now rewrite N.add_0_r|intros a it []|intros k v []]. }
  destruct (walk l 0 blen L_chain (fun it H => H) s0 V) as (P & _ & A). cbn zeta in P.
  split.
  - unfold spec_stmts. cbn [pass1]. rewrite St, P. unfold final_p1, final_env. cbn [s0 p_env p_items]. now rewrite !app_nil_r.
  - intros pre e post s1 s2 H P1 P2. fold (NoColl s1 e s2).
    refine (allsteps_cons fs NoColl (mkP1 None [] []) header_stmt _ s0 St _ A pre e post s1 s2 H P1 P2).
    split; [|intros a it x Hx; exfalso; cbn [s0 p_items] in Hx; discriminate Hx].
    intros x _ _ (a & it & [] & _).
Qed.

Lemma final_env_label_env : label_env final_env.
Proof.
  intros k v Hkv. unfold final_env in Hkv. apply in_rev, in_flat_map in Hkv. destruct Hkv as ([[o i] n] & I & Hkv).
  unfold item_label in Hkv. cbn [item_off fst] in Hkv. destruct (is_target l o); [|destruct Hkv]. destruct Hkv as [Hkv|[]].
  inversion Hkv; subst. destruct (L_facts _ _ _ I) as (Lo & _). exists (base + o). unfold base in *. repeat split; lia.
Qed.

Lemma final_env_target o i n t : In (o, i, n) l -> direct_target o i = Some t ->
  base + Z.to_N t < 4294967296 /\ In (label (base + Z.to_N t), Z.of_N (base + Z.to_N t)) final_env.
Proof.
  intros I D. destruct (L_target _ _ _ _ I D) as (T0 & i' & n' & I'). destruct (L_facts _ _ _ I') as (Lt & _).
  split; [unfold base in *; lia|]. unfold final_env. apply -> in_rev. apply in_flat_map. exists (Z.to_N t, i', n'). split; [exact I'|].
  unfold item_label. cbn [item_off fst].
  replace (is_target l (Z.to_N t)) with true; [now left|]. symmetry. unfold is_target. apply existsb_exists.
  exists (o, i, n). split; [exact I|]. rewrite D. apply Z.eqb_eq. lia.
Qed.

(* the label an instruction mentions is bound, in the final table, to the address it names *)
Lemma item_target_bound o i n T : In (o, i, n) l -> pc_target i (base + o) = Some T ->
  T < 4294967296 /\ final_ev final_env (label_arg T) = (AConst (Z.of_N T), SComplete) /\ env_get final_env (label T) = Some (Z.of_N T).
Proof.
  intros I PT. destruct (item_enc _ _ _ I) as (_ & _ & _ & _ & _ & NP & _).
  destruct (L_facts _ _ _ I) as (Lo & _).
  assert (BR : forall off, direct_target o i = Some (Z.of_N o + 4 + off)%Z -> T = wadd (wadd (base + o) 4) off ->
          T < 4294967296 /\ final_ev final_env (label_arg T) = (AConst (Z.of_N T), SComplete) /\ env_get final_env (label T) = Some (Z.of_N T)).
  { intros off D ->. destruct (final_env_target _ _ _ _ I D) as (Tl & Hin).
    destruct (L_target _ _ _ _ I D) as (T0 & i' & n' & I'). destruct (L_facts _ _ _ I') as (Lt & _).
    assert (Ew : wadd (wadd (base + o) 4) off = base + Z.to_N (Z.of_N o + 4 + off)).
    { eapply (branch_target b l); try eassumption. reflexivity. }
    rewrite Ew. split; [exact Tl|]. split; [apply final_ev_label; [apply final_env_label_env|exact Tl|exact Hin]|].
    apply env_get_label; [apply final_env_label_env|exact Tl|exact Hin]. }
  destruct i; cbn [pc_target no_pc_data] in *; try discriminate.
  - inversion PT; subst T. eapply BR; reflexivity.
  - inversion PT; subst T. eapply BR; reflexivity.
  - destruct addr; discriminate.
Qed.

(* ---------------------------------------------------------------- pass 2: every statement assembles to its instruction *)
Lemma item_assembles o i n : In (o, i, n) l ->
  exists st', assemble_stmt (final_ev final_env) false (base + o) (mnemonic i) (display_args i (base + o)) = COk i st'.
Proof.
  intros I. destruct (item_enc _ _ _ I) as (hws & E & L & Z & W & NP & D). destruct (L_facts _ _ _ I) as (Lo & _).
  assert (Ha : base + o < 4294967296) by (unfold base in *; lia).
  pose proof (stmt_roundtrip (ev_all final_env) false i (base + o) hws (ev_all_display _) W E Ha (L_in_space _ _ _ I)) as R.
  unfold assemble_stmt in *. rewrite template_of_mnemonic in *.
  destruct (assemble_args (ev_all final_env) false (base + o) (kind_template i) (mkAst (display_args i (base + o)) 0))
    as [i0 st0| | |] eqn:A; cbn [conv_val] in R; try discriminate R. inversion R; subst i0.
  exists st0. eapply assemble_args_mono_on; [|exact A]. apply ev_all_le.
  - intros T PT. destruct (item_target_bound _ _ _ _ I PT) as (Tl & F & _). auto.
  - intros a _ x H. exact H.
Qed.

Lemma item_pass2 o i n : In (o, i, n) l ->
  pass2_item final_env (base + o) (IInstr (mnemonic i) (display_args i (base + o))) = Some (item_bytes (o, i, n)) /\
  mlen (item_bytes (o, i, n)) = n.
Proof.
  intros I. destruct (item_assembles _ _ _ I) as (st' & A). destruct (item_enc _ _ _ I) as (hws & E & L & _).
  destruct (L_facts _ _ _ I) as (_ & _ & Hn & _).
  cbn [pass2_item item_bytes]. rewrite A. unfold enc_bytes. rewrite E.
  replace (4 <? 2 * N.of_nat (List.length hws)) with false by (destruct Hn; lia). split; [reflexivity|].
  unfold mlen. rewrite len_le_bytes. exact L.
Qed.

Definition item_out (e : item) : N * list N := (base + item_off e, item_bytes e).

Lemma pass2_items x : (forall it, In it x -> In it l) -> pass2 final_env (map item_placed x) = Some (map item_out x).
Proof.
  induction x as [|[[o i] n] r IH]; intros Sub; [reflexivity|]. cbn [map item_placed pass2].
  rewrite (proj1 (item_pass2 _ _ _ (Sub _ (or_introl eq_refl)))), IH by (intros it H; apply Sub; now right). reflexivity.
Qed.

Definition placed_of (x : list item) : list (N * list N * list str) :=
  map (fun e => (base + item_off e, item_bytes e, item_idents (snd (item_placed e)))) x.

Theorem layout_spec_listing : layout_spec fs (spec_stmts l) = Some (placed_of l, final_env).
Proof.
  unfold layout_spec. rewrite (proj1 pass1_spec_stmts). cbn [final_p1 p_items p_env]. rewrite rev_involutive.
  rewrite (pass2_items l (fun it H => H)). f_equal. f_equal. unfold placed_of. clear.
  induction l as [|[[o i] n] r IH]; [reflexivity|]. cbn [map combine item_out item_placed fst snd item_off]. now rewrite IH.
Qed.

(* ---------------------------------------------------------------- the image: one region *)
Lemma fold_placed : forall x o e_, chain o x e_ -> (forall it, In it x -> In it l) -> forall X, mlen X = o ->
  fold_left (fun d p => d_write d (fst (fst p)) (snd (fst p))) (placed_of x) (cells base X) = cells base (X ++ flat_map item_bytes x) /\
  mlen (X ++ flat_map item_bytes x) = e_.
Proof.
  induction 1 as [o|o i n x e_ Hn C IH]; intros Sub X HX.
  - cbn [placed_of map fold_left flat_map]. now rewrite app_nil_r.
  - assert (I : In (o, i, n) l) by (apply Sub; now left). destruct (item_pass2 _ _ _ I) as (_ & Lb).
    cbn [placed_of map fold_left flat_map fst snd item_off]. fold (placed_of x).
    assert (W : d_write (cells base X) (base + o) (item_bytes (o, i, n)) = cells base (X ++ item_bytes (o, i, n))).
    { rewrite <- (app_nil_r (cells base X)). rewrite d_write_mid.
      - rewrite !app_nil_r, MapLemmas.cells_app. unfold mlen in HX. unfold MapModel.len. now rewrite HX.
      - intros c Hc. destruct c as [a v]. apply cells_in in Hc. cbn [fst]. unfold mlen, MapModel.len in *. lia.
      - intros c []. }
    rewrite W. destruct (IH (fun it H => Sub it (or_intror H)) (X ++ item_bytes (o, i, n))) as (F & Lf).
    + unfold mlen in *. rewrite app_length. lia.
    + rewrite <- app_assoc in F, Lf. split; assumption.
Qed.

Theorem image_listing : image_of (placed_of l) = [(base, base + blen - 1, canonical_image l)] /\ mlen (canonical_image l) = blen.
Proof.
  destruct (fold_placed l 0 blen L_chain (fun it H => H) [] eq_refl) as (F & Lf). cbn [app cells] in F, Lf.
  rewrite canonical_image_bytes. split; [|exact Lf]. unfold image_of. rewrite F.
  assert (NE : flat_map item_bytes l <> []).
  { intros Z0. rewrite Z0 in Lf. cbn in Lf. destruct (wf_parts b l) as (Nl & _); try eassumption.
    destruct (chain_head _ _ _ L_chain Nl) as (i & n & I). destruct (L_facts _ _ _ I) as (? & ? & [?|?] & _); lia. }
  rewrite <- (app_nil_r (cells base _)). rewrite runs_cells_app; [|exact NE|exact I|intros x y r H; discriminate H].
  cbn [runs]. unfold mlen in Lf. unfold MapModel.len. now rewrite Lf.
Qed.

(* ---------------------------------------------------------------- the class of C05_layout_partial *)
Lemma item_stmt_ok ek o i n : In (o, i, n) l -> stmt_ok final_env ek (instr_stmt i (base + o)).
Proof.
  intros I. destruct (item_enc _ _ _ I) as (_ & _ & _ & _ & _ & NP & _). unfold instr_stmt. cbn [stmt_ok].
  assert (BR : forall T, pc_target i (base + o) = Some T -> is_branch (kind_template i) = true ->
            display_args i (base + o) = [label_arg T] ->
            exists t, template (mnemonic i) = Some t /\ is_branch t = true /\ forall a, In a (display_args i (base + o)) -> den64 (rho final_env) a <> None).
  { intros T PT HB DA. exists (kind_template i). split; [apply template_of_mnemonic|]. split; [exact HB|].
    rewrite DA. intros a [<-|[]]. destruct (item_target_bound _ _ _ _ I PT) as (Tl & _ & G).
    unfold label_arg. cbn [den64]. unfold rho. rewrite is_register_label, G.
    assert (Ck : chk (Z.of_N T) = Some (Z.of_N T)).
    { unfold chk, in_i64. destruct ((i64_min <=? Z.of_N T)%Z && (Z.of_N T <=? i64_max)%Z) eqn:Q; [reflexivity|].
      exfalso. unfold i64_min, i64_max in Q. lia. }
    rewrite Ck. discriminate. }
  assert (RG : forall a, all_regs_arg a -> known_in ek a) by (intros a H m Hm; left; exact (H m Hm)).
  destruct (instr_shape i (base + o) NP) as [K|[K|K]].
  - left. intros a Ha. apply RG. exact (proj1 (Forall_forall _ _) K a Ha).
  - right. left. destruct K as (T & PT & HB & DA). exact (BR T PT HB DA).
  - right. right. exists (kind_template i). split; [apply template_of_mnemonic|exact K].
Qed.

Theorem class_listing els : map e_val els = spec_stmts l -> C05_class fs final_env els.
Proof.
  intros M pre e post s0 H _. assert (Hin : In (e_val e) (spec_stmts l)).
  { rewrite <- M, H, map_app. apply in_or_app. right. now left. }
  destruct Hin as [<-|Hin]; [cbn [stmt_ok header_stmt]; intros Q; vm_compute in Q; discriminate Q|].
  apply in_flat_map in Hin. destruct Hin as ([[o i] n] & I & Hin). unfold item_stmts in Hin. apply in_app_or in Hin.
  destruct Hin as [Hin|[<-|[]]]; [destruct (is_target l o); [destruct Hin as [<-|[]]; exact Logic.I|destruct Hin]|].
  eapply item_stmt_ok; exact I.
Qed.
End WF.
