(* C18 proofs, part 4: the two facts about the memory map that parts 1-3 carry as hypotheses are theorems of C15;
   the padding loop's effect on the dictionary; fuel sufficiency of the padding loop. *)
From Coq Require Import Arith NArith List Bool Lia ZifyBool ZifyNat ZifyN.
From Trion Require Import Mem.MapModel Mem.DictSpec Mem.MapProofs Mem.MapProofs2 Mem.MapPutProofs Mem.MapRangeProofs.
From Trion Require Import Bin.TriasModel Bin.ImageSpec Bin.TriasProofs Bin.TriasProofs2 Bin.TriasProofs3.
Import ListNotations.
Open Scope N_scope.

(* ---------------- Put_spec and IterRange_spec hold (C15_put, C15_iter_range) ---------------- *)
Lemma put_spec_holds dbg : Put_spec dbg.
Proof. intros m a data. apply put_ok. Qed.
Lemma iter_range_spec_holds dbg : IterRange_spec dbg.
Proof. intros m f l. apply iter_range_ok. Qed.

(* ---------------- dictionary lookups after a write of zeros ---------------- *)
Lemma d_get_d_write_in data : forall D a x, a <= x -> x < a + len data ->
  d_get (d_write D a data) x = Some (nth (N.to_nat (x - a)) data 0).
Proof.
  induction data as [|b data IH]; intros D a x H1 H2; [rewrite len_nil in H2; lia|].
  rewrite len_cons in H2. cbn [d_write]. destruct (N.eq_dec x a) as [->|Ne].
  - rewrite d_get_d_write_out by lia. rewrite d_get_d_set, N.eqb_refl. replace (a - a) with 0 by lia. reflexivity.
  - rewrite IH by lia. replace (N.to_nat (x - a)) with (S (N.to_nat (x - (a + 1)))) by lia. reflexivity.
Qed.

Lemma nth_repeat0 : forall n k, nth k (repeat 0 n) 0 = 0.
Proof. induction n as [|n IH]; intros [|k]; cbn [repeat nth]; auto. Qed.

Lemma d_get_pad D a n x :
  d_get (d_write D a (zeros n)) x = if (a <=? x) && (x <? a + n) then Some 0 else d_get D x.
Proof.
  destruct ((a <=? x) && (x <? a + n)) eqn:E.
  - rewrite d_get_d_write_in by (rewrite ?len_zeros; lia). unfold zeros. now rewrite nth_repeat0.
  - apply d_get_d_write_out. rewrite len_zeros. lia.
Qed.

(* ---------------- the invariant of the padding loop, on dictionaries ----------------
   X = the dictionary handed to the padding code (P+), D = the current dictionary, q = prev + 1 (0 before the first
   segment): from q on nothing has changed; every byte of X is still there; every new cell is a zero on a page X
   touches; below q every occupied address that is not a multiple of 256 has an occupied predecessor (so every
   maximal run below q starts on a page boundary). *)
Record PInv (X D : dict) (q : N) : Prop := {
  pi_above : forall y, q <= y -> d_get D y = d_get X y;
  pi_keep  : forall y, d_get X y <> None -> d_get D y = d_get X y;
  pi_new   : forall y, d_get X y = None -> d_get D y <> None -> d_get D y = Some 0 /\ page_touched X y = true;
  pi_left  : forall y, y < q -> d_get D y <> None -> y mod 256 <> 0 -> d_get D (y - 1) <> None }.

(* the result: the same with no frontier *)
Record PFin (X D : dict) : Prop := {
  pf_keep : forall y, d_get X y <> None -> d_get D y = d_get X y;
  pf_new  : forall y, d_get X y = None -> d_get D y <> None -> d_get D y = Some 0 /\ page_touched X y = true;
  pf_left : forall y, d_get D y <> None -> y mod 256 <> 0 -> d_get D (y - 1) <> None }.

Lemma PInv_init X : PInv X X 0.
Proof. split; intros; try reflexivity; try congruence; lia. Qed.

Lemma PInv_fin X D q : PInv X D q -> (forall y, d_get D y <> None -> y < q) -> PFin X D.
Proof. intros [A K Nw L] H. split; [exact K|exact Nw|]. intros y Hy Hm. apply L; [now apply H|exact Hy|exact Hm]. Qed.

Lemma same_page_div a b : a / 256 = b / 256 -> same_page a b = true.
Proof. intros H. unfold same_page. rewrite !N.shiftr_div_pow2. change (2 ^ 8) with 256. rewrite H. apply N.eqb_refl. Qed.

Lemma page_touched_at X f v y : d_get X f = Some v -> f / 256 = y / 256 -> page_touched X y = true.
Proof.
  intros H E. unfold page_touched. apply existsb_exists. exists (f, v). split; [now apply d_get_in|]. cbn [fst].
  now apply same_page_div.
Qed.

(* one iteration: zeros are written to [a, f) (n = f - a may be 0), the next segment occupies [f, l], the addresses
   between the frontier and f were free, a is a page boundary or follows an occupied address, [a, f) lies on f's page *)
Lemma PInv_pad X D q a n f l :
  PInv X D q -> q <= a -> a + n = f -> f <= l ->
  (forall y, q <= y -> y < f -> d_get D y = None) ->
  (forall y, f <= y -> y <= l -> d_get D y <> None) ->
  (a mod 256 = 0 \/ (1 <= a /\ d_get D (a - 1) <> None)) ->
  (forall y, a <= y -> y < f -> f / 256 = y / 256) ->
  PInv X (d_write D a (zeros n)) (l + 1).
Proof.
  intros [A K Nw L] Hq Hn Hfl Free Occ Ha Pg. split.
  - intros y Hy. rewrite d_get_pad. destruct ((a <=? y) && (y <? a + n)) eqn:E; [lia|]. apply A. lia.
  - intros y Hy. rewrite d_get_pad. destruct ((a <=? y) && (y <? a + n)) eqn:E; [|now apply K].
    exfalso. rewrite <- (A y) in Hy by lia. apply Hy. apply Free; lia.
  - intros y Hx Hy. rewrite d_get_pad in Hy |- *. destruct ((a <=? y) && (y <? a + n)) eqn:E; [|now apply Nw].
    split; [reflexivity|].
    destruct (d_get X f) as [v|] eqn:Ef.
    + apply (page_touched_at X f v y Ef). apply Pg; lia.
    + exfalso. apply (Occ f); [lia|lia|]. rewrite A by lia. exact Ef.
  - intros y Hyl Hy Hm. rewrite d_get_pad in Hy |- *.
    destruct (N.lt_ge_cases y a) as [Lt|Ge].
    + (* below the write: as before *)
      destruct ((a <=? y) && (y <? a + n)) eqn:E; [lia|].
      destruct ((a <=? y - 1) && (y - 1 <? a + n)) eqn:E'; [discriminate|].
      destruct (N.lt_ge_cases y q) as [Ltq|Geq]; [now apply L|].
      exfalso. apply Hy. apply Free; lia.
    + destruct (N.eq_dec y a) as [->|Ne].
      * destruct Ha as [Ha|(Ha1 & Ha2)]; [congruence|].
        destruct ((a <=? a - 1) && (a - 1 <? a + n)) eqn:E'; [lia|exact Ha2].
      * destruct ((a <=? y - 1) && (y - 1 <? a + n)) eqn:E'; [discriminate|].
        apply Occ; lia.
Qed.

(* ---------------- fuel: the segments of the map handed to the loop that end after `prev` ---------------- *)
Definition later (m1 : mmap) (p : N) : nat := length (filter (fun s => p <? slast s) m1).

Lemma filter_length_lt {A} (f g : A -> bool) (l : list A) y :
  (forall x, f x = true -> g x = true) -> In y l -> g y = true -> f y = false ->
  (length (filter f l) < length (filter g l))%nat.
Proof.
  intros FG. assert (LE : forall l', (length (filter f l') <= length (filter g l'))%nat).
  { induction l' as [|x l' IH]; [constructor|]. cbn [filter]. destruct (f x) eqn:Ef.
    - rewrite (FG x Ef). cbn [length]. lia.
    - destruct (g x); cbn [length]; lia. }
  induction l as [|x l IH]; intros Hy Gy Fy; [destruct Hy|].
  cbn [filter]. destruct Hy as [->|Hy].
  - rewrite Fy, Gy. cbn [length]. specialize (LE l). lia.
  - specialize (IH Hy Gy Fy). destruct (f x) eqn:Ef.
    + rewrite (FG x Ef). cbn [length]. lia.
    + destruct (g x); cbn [length]; lia.
Qed.

Lemma later_le m1 p : (later m1 p <= length m1)%nat.
Proof.
  unfold later. induction m1 as [|x l IH]; [constructor|]. cbn [filter]. destruct (p <? slast x); cbn [length]; lia.
Qed.

Lemma later_lt m1 p p' : p < p' -> ends_at m1 p' -> (later m1 p' < later m1 p)%nat.
Proof.
  intros Lt (s & Hs & E). unfold later. apply (filter_length_lt _ _ m1 s); [intros x Hx; lia|exact Hs|lia|lia].
Qed.

(* ---------------- occupied addresses and segments ---------------- *)
Lemma occ_seg m y : Rep m -> d_get (abs m) y <> None -> exists j s, geti m j = Some s /\ sfirst s <= y /\ y <= slast s.
Proof.
  intros HR H. destruct (d_get (abs m) y) as [v|] eqn:E; [|congruence]. apply d_get_in in E.
  destruct (abs_in m HR _ _ E) as (s & Hs & S1 & S2). destruct (In_geti _ _ Hs) as (j & Gj). eauto.
Qed.
Lemma seg_occ m s y : Rep m -> In s m -> sfirst s <= y -> y <= slast s -> d_get (abs m) y <> None.
Proof. intros HR Hs H1 H2. destruct (abs_mem m s y HR Hs H1 H2) as (v & Hv). now apply in_d_get in Hv. Qed.

(* what find(a, Above) = x at index i says about the dictionary *)
Lemma above_free m a i x : Rep m -> geti m i = Some x -> (forall j y, j < i -> geti m j = Some y -> slast y < a) ->
  forall y, a <= y -> y < sfirst x -> d_get (abs m) y = None.
Proof.
  intros HR Gx Before y H1 H2. destruct (d_get (abs m) y) as [v|] eqn:E; [exfalso|reflexivity].
  destruct (occ_seg m y HR ltac:(congruence)) as (j & s & Gj & S1 & S2).
  destruct (N.lt_ge_cases j i) as [Lt|Ge].
  - pose proof (Before j s Lt Gj). lia.
  - pose proof (Rep_mono m HR i j x s Ge Gx Gj). lia.
Qed.

(* ---------------- the loop ---------------- *)
Lemma div_page f off y : off = f mod PAGE_SIZE -> f - off <= y -> y < f -> f / 256 = y / 256.
Proof.
  unfold PAGE_SIZE. intros -> H1 H2. pose proof (N.div_mod' f 256) as E. pose proof (N.mod_lt f 256 ltac:(lia)) as R.
  apply (N.div_unique y 256 (f / 256) (y - 256 * (f / 256))); lia.
Qed.
Lemma sub_mod_page f : (f - f mod PAGE_SIZE) mod 256 = 0.
Proof.
  unfold PAGE_SIZE. pose proof (N.div_mod' f 256) as E. replace (f - f mod 256) with (f / 256 * 256) by lia.
  apply N.mod_mul. lia.
Qed.

Lemma pad_loop_ok dbg m1 : Rep m1 -> forall fuel m prev,
  Rep m -> ends_at m prev -> PInv (abs m1) (abs m) (prev + 1) -> (later m1 prev < fuel)%nat ->
  exists m', pad_loop dbg fuel m prev = Go m' /\ Rep m' /\ PFin (abs m1) (abs m').
Proof.
  intros HR1. pose proof (put_spec_holds dbg) as HP.
  induction fuel as [|fuel IH]; intros m prev HR HE HI HF; [lia|].
  cbn [pad_loop]. destruct (prev <? U32MAX) eqn:EP.
  2:{ exists m. split; [reflexivity|]. split; [exact HR|]. apply (PInv_fin _ _ _ HI). intros y Hy.
      destruct (occ_seg m y HR Hy) as (j & s & Gj & S1 & S2). destruct (Rep_seg_ok m HR _ _ Gj) as (T1 & T2 & T3).
      unfold U32MAX, U32 in *. lia. }
  assert (PL : prev + 1 < U32) by (unfold U32MAX, U32 in *; lia).
  rewrite padd_ok by exact PL. cbn [pbind].
  destruct (find_above_spec dbg m (prev + 1) HR) as (r & F & Spec). rewrite F. cbn [of_map pbind].
  destruct r as [(rf, rl)|].
  2:{ exists m. split; [reflexivity|]. split; [exact HR|]. apply (PInv_fin _ _ _ HI). intros y Hy.
      destruct (occ_seg m y HR Hy) as (j & s & Gj & S1 & S2). pose proof (Spec j s Gj). lia. }
  destruct Spec as (i & x & Gx & <- & <- & L & Before).
  pose proof (next_after dbg m prev i x HR HE Gx L) as NA.
  destruct (Rep_seg_ok m HR _ _ Gx) as (S1 & S2 & S3).
  pose proof (geti_In _ _ _ Gx) as Hx.
  pose proof (mod_page_lt (sfirst x)) as M1. pose proof (mod_page_le (sfirst x)) as M2.
  pose proof (above_free m (prev + 1) i x HR Gx Before) as Free.
  assert (Occ : forall y, sfirst x <= y -> y <= slast x -> d_get (abs m) y <> None)
    by (intros y Y1 Y2; apply (seg_occ m x y HR Hx Y1 Y2)).
  (* fuel: slast x ends a segment of m1 *)
  assert (E1 : ends_at m1 (slast x)).
  { apply (ends_at_dict m1 (slast x) HR1).
    destruct (proj1 (ends_at_dict m (slast x) HR) (ex_intro _ x (conj Hx eq_refl))) as (D1 & D2).
    rewrite <- !(pi_above _ _ _ HI) by lia. split; assumption. }
  assert (HF' : (later m1 (slast x) < fuel)%nat) by (pose proof (later_lt m1 prev (slast x) ltac:(lia) E1); lia).
  assert (HPrev : d_get (abs m) prev <> None)
    by (apply (ends_at_dict m prev HR) in HE; tauto).
  remember (sfirst x mod PAGE_SIZE) as off eqn:Eoff.
  destruct (0 <? off) eqn:E0.
  - rewrite psub_ok by exact M2. cbn [pbind].
    destruct (sfirst x - off <=? prev) eqn:EB.
    + rewrite psub_ok by lia. cbn [pbind]. rewrite psub_ok by lia. cbn [pbind].
      destruct (put_blank_free dbg m (prev + 1) (sfirst x - prev - 1) P_assert_join i x (prev + 1) HP HR Gx Before
                  ltac:(lia) ltac:(lia) ltac:(lia)) as (m' & G & R' & A').
      rewrite G. cbn [pbind]. apply IH; [exact R'| |rewrite A'|exact HF'].
      * apply (ends_after_put m m' (prev + 1) (sfirst x - prev - 1) x HR R' Hx A'). lia.
      * apply (PInv_pad _ _ (prev + 1) (prev + 1) (sfirst x - prev - 1) (sfirst x) (slast x) HI); try lia; try assumption.
        -- right. split; [lia|]. replace (prev + 1 - 1) with prev by lia. exact HPrev.
        -- intros y Y1 Y2. apply (div_page (sfirst x) off y Eoff); lia.
    + destruct (put_blank_free dbg m (sfirst x - off) off P_assert_base i x (prev + 1) HP HR Gx Before
                  ltac:(lia) ltac:(lia) ltac:(lia)) as (m' & G & R' & A').
      rewrite G. cbn [pbind]. apply IH; [exact R'| |rewrite A'|exact HF'].
      * apply (ends_after_put m m' (sfirst x - off) off x HR R' Hx A'). lia.
      * apply (PInv_pad _ _ (prev + 1) (sfirst x - off) off (sfirst x) (slast x) HI); try lia; try assumption.
        -- left. subst off. apply sub_mod_page.
        -- intros y Y1 Y2. apply (div_page (sfirst x) off y Eoff); lia.
  - cbn [pbind]. apply IH; [exact HR|exists x; split; [exact Hx|reflexivity]| |exact HF'].
    change (abs m) with (d_write (abs m) (sfirst x) (zeros 0)).
    apply (PInv_pad _ _ (prev + 1) (sfirst x) 0 (sfirst x) (slast x) HI); try lia; try assumption.
    left. unfold PAGE_SIZE in *. lia.
Qed.

Lemma pad_step_ok dbg m1 : Rep m1 -> exists m', pad_step dbg m1 = Go m' /\ Rep m' /\ PFin (abs m1) (abs m').
Proof.
  intros HR. pose proof (put_spec_holds dbg) as HP. unfold pad_step.
  destruct (find_above_spec dbg m1 0 HR) as (r & F & Spec). rewrite F. cbn [of_map pbind].
  destruct r as [(ff, fl)|].
  2:{ exists m1. split; [reflexivity|]. split; [exact HR|]. apply (PInv_fin _ _ 0 (PInv_init _)). intros y Hy.
      destruct (occ_seg m1 y HR Hy) as (j & s & Gj & S1 & S2). pose proof (Spec j s Gj). lia. }
  destruct Spec as (i & x & Gx & <- & <- & L & Before).
  destruct (Rep_seg_ok m1 HR _ _ Gx) as (S1 & S2 & S3).
  pose proof (geti_In _ _ _ Gx) as Hx.
  pose proof (mod_page_lt (sfirst x)) as M1. pose proof (mod_page_le (sfirst x)) as M2.
  pose proof (above_free m1 0 i x HR Gx Before) as Free.
  assert (Occ : forall y, sfirst x <= y -> y <= slast x -> d_get (abs m1) y <> None)
    by (intros y Y1 Y2; apply (seg_occ m1 x y HR Hx Y1 Y2)).
  assert (HF : (later m1 (slast x) < S (length m1))%nat) by (pose proof (later_le m1 (slast x)); lia).
  remember (sfirst x mod PAGE_SIZE) as off eqn:Eoff.
  destruct (0 <? off) eqn:E0.
  - rewrite psub_ok by exact M2. cbn [pbind].
    destruct (put_blank_free dbg m1 (sfirst x - off) off P_assert_prepad i x 0 HP HR Gx Before
                ltac:(lia) ltac:(lia) ltac:(lia)) as (m' & G & R' & A').
    rewrite G. cbn [pbind]. apply (pad_loop_ok dbg m1 HR); [exact R'| |rewrite A'|exact HF].
    + apply (ends_after_put m1 m' (sfirst x - off) off x HR R' Hx A'). lia.
    + apply (PInv_pad _ _ 0 (sfirst x - off) off (sfirst x) (slast x) (PInv_init _)); try lia; try assumption.
      * left. subst off. apply sub_mod_page.
      * intros y Y1 Y2. apply (div_page (sfirst x) off y Eoff); lia.
  - cbn [pbind]. apply (pad_loop_ok dbg m1 HR); [exact HR|exists x; split; [exact Hx|reflexivity]| |exact HF].
    change (abs m1) with (d_write (abs m1) (sfirst x) (zeros 0)) at 2.
    apply (PInv_pad _ _ 0 (sfirst x) 0 (sfirst x) (slast x) (PInv_init _)); try lia; try assumption.
    left. unfold PAGE_SIZE in *. lia.
Qed.

(* ---------------- checksum + padding: total, no fuel exhaustion, and what the padded map is ---------------- *)
Lemma padded_total dbg m : Rep m -> Bytes m ->
  (padded dbg m = RStop R_empty /\ abs m = [])
  \/ (padded dbg m = RStop R_checksum_overlap /\ must_refuse (abs m) = true)
  \/ (exists m1 m2, checksum_step dbg m = Go m1 /\ Rep m1 /\ abs m1 = P_plus (abs m)
                    /\ padded dbg m = Go m2 /\ Rep m2 /\ PFin (P_plus (abs m)) (abs m2)
                    /\ abs m <> [] /\ must_refuse (abs m) = false).
Proof.
  intros HR HB. unfold padded. destruct (0 <? map_len m) eqn:E0.
  2:{ left. split; [reflexivity|]. destruct m; [reflexivity|]. unfold map_len in E0. rewrite len_cons in E0. lia. }
  assert (NE : abs m <> []).
  { destruct m as [|s r]; [discriminate|]. destruct (Rep_head _ _ HR) as (S1 & S2 & S3).
    rewrite abs_cons. destruct (sdata s); [rewrite len_nil in S3; lia|discriminate]. }
  right.
  destruct (checksum_step_total dbg m HR HB (iter_range_spec_holds dbg) (put_spec_holds dbg))
    as [(m1 & G & R1 & A1 & MR)|(G & MR)].
  - right. rewrite G. cbn [pbind]. destruct (pad_step_ok dbg m1 R1) as (m2 & G2 & R2 & F2).
    exists m1, m2. split; [reflexivity|]. split; [exact R1|]. split; [exact A1|]. rewrite <- A1.
    split; [exact G2|]. split; [exact R2|]. split; [exact F2|]. split; assumption.
  - left. rewrite G. split; [reflexivity|exact MR].
Qed.

(* ---------------- consequences of PFin for the segments ---------------- *)
Lemma pfin_aligned X m2 : Rep m2 -> PFin X (abs m2) -> forall s, In s m2 -> sfirst s mod 256 = 0.
Proof.
  intros HR [_ _ L] s Hs. destruct (N.eq_dec (sfirst s mod 256) 0) as [|Ne]; [assumption|exfalso].
  destruct (In_geti _ _ Hs) as (i & Gi). destruct (Rep_seg_ok m2 HR _ _ Gi) as (S1 & S2 & S3).
  assert (P1 : 1 <= sfirst s) by (destruct (N.eq_dec (sfirst s) 0) as [Z|]; [rewrite Z in Ne; exfalso; now apply Ne|lia]).
  pose proof (L (sfirst s) (seg_occ m2 s (sfirst s) HR Hs ltac:(lia) S1) Ne) as O.
  destruct (occ_seg m2 _ HR O) as (j & t & Gj & T1 & T2).
  destruct (N.lt_trichotomy j i) as [Lt|[->|Lt]].
  - pose proof (Rep_sorted m2 HR _ _ _ _ Lt Gj Gi). lia.
  - rewrite Gi in Gj. inversion Gj; subst. lia.
  - pose proof (Rep_sorted m2 HR _ _ _ _ Lt Gi Gj). lia.
Qed.
