(* C18 proofs, part 6: the whole post-processing - checksum, padding (part 4), emission (Bin/TriasEmit.v, on top of the
   C16 run lemmas), oracle clauses (part 5) - put together. *)
From Coq Require Import Arith NArith List Bool Lia ZifyBool ZifyNat ZifyN.
From Trion Require Import Uf2.ReaderSpec.
From Trion Require Import Mem.MapModel Mem.DictSpec Mem.MapProofs Mem.MapProofs2.
From Trion Require Import Bin.TriasModel Bin.ImageSpec Bin.TriasProofs Bin.TriasProofs2 Bin.TriasProofs3 Bin.TriasProofs4.
From Trion Require Import Bin.TriasEmit Bin.TriasProofs5.
Import ListNotations.
Open Scope N_scope.

(* the padded map is within C16's sufficient condition for the block counter *)
Definition padded_small (dbg : bool) (m : mmap) : Prop := forall m2, padded dbg m = Go m2 -> small m2.

Lemma page0_small dbg m : Rep m -> Bytes m -> page0_free (abs m) -> padded_small dbg m.
Proof.
  intros HR HB H0 m2 G.
  destruct (padded_total dbg m HR HB) as [(E & _)|[(E & _)|(m1 & m2' & _ & R1 & A1 & G2 & R2 & F2 & _)]];
    try (rewrite E in G; discriminate).
  rewrite G2 in G. inversion G; subst m2'. apply (pfin_small (P_plus (abs m)) m2 R2 F2). now apply P_plus_low.
Qed.

(* every outcome of `post`, and what the file is *)
Lemma post_total dbg m : Rep m -> Bytes m -> padded_small dbg m ->
  (post dbg m = Refused R_empty /\ abs m = [])
  \/ (post dbg m = Refused R_checksum_overlap /\ must_refuse (abs m) = true)
  \/ (abs m <> [] /\ must_refuse (abs m) = false /\
      exists file rs, post dbg m = POk file /\ read_uf2 file = Some rs
        /\ blocks_shaped rs = true /\ numbered rs = true /\ pages_distinct rs = true
        /\ ImageSpec.checksum_ok (abs m) (file_items rs) = true
        /\ has_all_bytes (P_plus (abs m)) (file_items rs) = true
        /\ padding_zero (P_plus (abs m)) (file_items rs) = true
        /\ inside_pages (P_plus (abs m)) (file_items rs) = true).
Proof.
  intros HR HB HS. unfold post.
  destruct (padded_total dbg m HR HB) as [(E & Z)|[(E & MR)|(m1 & m2 & _ & R1 & A1 & G2 & R2 & F2 & NE & MR)]].
  - left. rewrite E. split; [reflexivity|exact Z].
  - right. left. rewrite E. split; [reflexivity|exact MR].
  - right. right. split; [exact NE|]. split; [exact MR|]. rewrite G2. cbn [pbind].
    destruct (emit_ok dbg m2 R2 (HS m2 G2) (pfin_aligned _ m2 R2 F2)) as (file & rs & G & Rd & B1 & B2 & B3 & It).
    exists file, rs. rewrite G. cbn [outcome_of]. rewrite It.
    split; [reflexivity|]. split; [exact Rd|]. split; [exact B1|]. split; [exact B2|]. split; [exact B3|].
    split; [exact (checksum_clause (abs m) m2 R2 F2)|].
    split; [exact (has_all_ok (abs m) m1 m2 R1 A1 R2 F2)|].
    split; [exact (padding_ok (abs m) m2 R2 F2)|exact (inside_ok (abs m) m2 R2 F2)].
Qed.

Lemma post_image_small dbg m : Rep m -> Bytes m -> padded_small dbg m -> abs m <> [] -> must_refuse (abs m) = false ->
  exists file, post dbg m = POk file /\ image_ok (abs m) file = true.
Proof.
  intros HR HB HS NE MR.
  destruct (post_total dbg m HR HB HS) as [(_ & Z)|[(_ & M)|(_ & _ & file & rs & G & Rd & B1 & B2 & B3 & C1 & C2 & C3 & C4)]];
    [contradiction|congruence|].
  exists file. split; [exact G|]. unfold image_ok. rewrite Rd. cbv zeta. now rewrite B1, B2, B3, C1, C2, C3, C4.
Qed.

Lemma post_image dbg m : Rep m -> Bytes m -> page0_free (abs m) -> abs m <> [] -> must_refuse (abs m) = false ->
  exists file, post dbg m = POk file /\ image_ok (abs m) file = true.
Proof. intros HR HB H0. apply (post_image_small dbg m HR HB (page0_small dbg m HR HB H0)). Qed.

Lemma post_blocks dbg m : Rep m -> Bytes m -> page0_free (abs m) -> abs m <> [] -> must_refuse (abs m) = false ->
  exists file rs, post dbg m = POk file /\ read_uf2 file = Some rs
    /\ blocks_shaped rs = true /\ numbered rs = true /\ pages_distinct rs = true.
Proof.
  intros HR HB H0 NE MR.
  destruct (post_total dbg m HR HB (page0_small dbg m HR HB H0))
    as [(_ & Z)|[(_ & M)|(_ & _ & file & rs & G & Rd & B1 & B2 & B3 & _)]]; [contradiction|congruence|].
  exists file, rs. repeat split; assumption.
Qed.

Lemma post_no_panic_small dbg m : Rep m -> Bytes m -> padded_small dbg m ->
  (forall s, post dbg m <> PPanic s) /\ post dbg m <> POutOfFuel.
Proof.
  intros HR HB HS.
  destruct (post_total dbg m HR HB HS) as [(E & _)|[(E & _)|(_ & _ & file & rs & E & _)]]; rewrite E; split; intros; discriminate.
Qed.

Lemma post_no_panic_page0 dbg m : Rep m -> Bytes m -> page0_free (abs m) ->
  (forall s, post dbg m <> PPanic s) /\ post dbg m <> POutOfFuel.
Proof. intros HR HB H0. apply (post_no_panic_small dbg m HR HB (page0_small dbg m HR HB H0)). Qed.

(* the first two stages alone need no size condition *)
Lemma padded_aligned dbg m m2 : Rep m -> Bytes m -> padded dbg m = Go m2 ->
  Rep m2 /\ PFin (P_plus (abs m)) (abs m2) /\ (forall s, In s m2 -> sfirst s mod 256 = 0).
Proof.
  intros HR HB G.
  destruct (padded_total dbg m HR HB) as [(E & _)|[(E & _)|(m1 & m2' & _ & R1 & A1 & G2 & R2 & F2 & _)]];
    try (rewrite E in G; discriminate).
  rewrite G2 in G. inversion G; subst m2'. split; [exact R2|]. split; [exact F2|]. exact (pfin_aligned _ m2 R2 F2).
Qed.

(* ---------------- parts 1-3 without the hypotheses Put_spec / IterRange_spec ---------------- *)
Lemma checksum_ok' dbg m : Rep m -> Bytes m -> d_get (abs m) FLASH_BASE <> None -> no_conflict (abs m) ->
  exists m', checksum_step dbg m = Go m' /\ Rep m' /\
             abs m' = d_write (abs m) FLASH_CRC (TriasModel.le32 (CrcSpec.spec_crc (boot_bytes (abs m)))) /\
             abs m' = P_plus (abs m).
Proof. intros HR HB. exact (TriasProofs.checksum_ok dbg m HR HB (iter_range_spec_holds dbg) (put_spec_holds dbg)). Qed.

Lemma post_refused' dbg m : Rep m -> must_refuse (abs m) = true -> post dbg m = Refused R_checksum_overlap.
Proof. intros HR. exact (post_refused dbg m HR (iter_range_spec_holds dbg)). Qed.

Lemma checksum_step_total' dbg m : Rep m -> Bytes m ->
  (exists m', checksum_step dbg m = Go m' /\ Rep m' /\ abs m' = P_plus (abs m) /\ must_refuse (abs m) = false)
  \/ (checksum_step dbg m = RStop R_checksum_overlap /\ must_refuse (abs m) = true).
Proof. intros HR HB. exact (checksum_step_total dbg m HR HB (iter_range_spec_holds dbg) (put_spec_holds dbg)). Qed.

(* checksum + padding: total (no panic, no fuel exhaustion) *)
Lemma padded_total' dbg m : Rep m -> Bytes m ->
  (padded dbg m = RStop R_empty /\ abs m = [])
  \/ (padded dbg m = RStop R_checksum_overlap /\ must_refuse (abs m) = true)
  \/ (abs m <> [] /\ must_refuse (abs m) = false /\
      exists m2, padded dbg m = Go m2 /\ Rep m2 /\ PFin (P_plus (abs m)) (abs m2)
                 /\ (forall s, In s m2 -> sfirst s mod 256 = 0)).
Proof.
  intros HR HB.
  destruct (padded_total dbg m HR HB) as [H|[H|(m1 & m2 & _ & R1 & A1 & G2 & R2 & F2 & NE & MR)]]; [now left|right; now left|].
  right. right. split; [exact NE|]. split; [exact MR|]. exists m2. split; [exact G2|]. split; [exact R2|]. split; [exact F2|].
  exact (pfin_aligned _ m2 R2 F2).
Qed.
