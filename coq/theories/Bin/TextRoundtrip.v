(* C19 from the printed characters to the instruction, for every decodable 16-bit non-PC-relative pattern
   (and MSR/MRS/barriers/UDF.W): text -> tokens -> statement -> operand converters -> instruction. *)
From Coq Require Import ZArith NArith List Bool.
From Trion Require Import Text.Types Text.Pipeline Expr.EvalModel
  Arm.Instr Arm.EncodeModel Arm.DecodeModel Arm.DisplayModel Arm.DisplayArgs Arm.AsmStmtModel Arm.AsmStmtProofs Arm.AsmEvalLink
  Arm.CodecCheck Arm.DecProofs Arm.TextSweep Arm.TextProofs Bin.DecodedWf.
Import ListNotations.
Open Scope N_scope.

(* assembling a text: tokenize, parse to one instruction statement, look the mnemonic up, convert the operands *)
Definition asm_text (lk : str -> lookup_res) (local : bool) (addr : N) (text : str) : option instr :=
  match stmt_of_text text with
  | Some (name, args) => conv_val (assemble_stmt (ev_of lk) local addr name args)
  | None => None
  end.

Theorem text_to_instr16 lk local bs i addr :
  (forall t, t < 4294967296 -> lk (label t) = Found (Z.of_N t)) ->
  bytes_ok bs -> dec bs = DecOk 2 i -> pcrel i = false -> addr < 4294967296 ->
  asm_text lk local addr (display i addr) = Some i.
Proof.
  intros LB Hb D P Ha. unfold asm_text.
  rewrite (text_ok_spec i addr (text_roundtrip16 bs i addr Hb D P)).
  destruct (dec_ok_facts bs 2 i Hb D) as [_ [_ [hws [E _]]]].
  apply (stmt_roundtrip_eval lk local i addr hws); [exact LB | exact (dec_wf bs 2 i Hb D) | exact E | exact Ha |].
  unfold pcrel in P. destruct i; try reflexivity; cbn [pc_target] in P; try discriminate.
  destruct addr0; try reflexivity. destruct off; try reflexivity. discriminate.
Qed.
