(* Model of the post-processing in src/bin/assembler.rs (`assemble` after `ctx.finalize()`, and `main`),
   statement by statement.  No proofs here.

   Built from the models of the three library parts the code calls:
     Mem/MapModel.v   (MemoryMap: find / iter_range / put / iter / len),
     Uf2/CrcModel.v   (Crc::new / update_slice / get_value),
     Uf2/WriteModel.v (Uf2Write::new_vec / write_all / Drop).

   Conventions
   * `dbg` = overflow checks + debug assertions (the flag MapModel and WriteModel already carry); the
     `trias` binary of the correspondence is the release build (dbg = false);
   * every plain `+` / `-` of assembler.rs goes through u32_add / u32_sub with its own site, although each
     of them is guarded on a well-formed map; `as usize` of a u32 is exact on the 64-bit target;
   * `unwrap`, the three `assert_eq!`s, the slice `temp[first..=last]`, `copy_from_slice` (length
     mismatch) and `&BLANK_PAGE[..n]` are Panic outcomes; a panic inside a library call is wrapped
     (P_map / P_uf2);
   * `return false` is `Refused reason`; the text printed to stderr is not modelled, only which of the
     `return false` statements was taken;
   * the `for` over `iter_range` is lazy in Rust; here the range is computed first.  The two differ only
     when the iterator itself panics after an earlier item already caused `return false`; MapModel's
     iter_range cannot panic on a well-formed map (checked on every run by the C15 stream);
   * the padding `while` loop runs on explicit fuel (number of segments + 1) and yields OutOfFuel. *)
From Coq Require Import NArith List Bool.
From Trion Require Import Mem.MapModel.
From Trion Require Uf2.WriteTypes Uf2.WriteModel Uf2.CrcModel.
Import ListNotations.
Open Scope N_scope.

Definition FLASH_BASE : N := 0x10000000.
Definition FLASH_CRC : N := 0x100000FC.          (* FLASH_BASE + 0xFC *)
Definition PAGE_SIZE : N := 256.
Definition RP2040_FAMILY : N := 0xE48BFF56.

Inductive psite :=
  | P_map (s : MapModel.site)          (* panic inside a MemoryMap call *)
  | P_map_fuel                         (* MapModel's binary search ran out of its own fuel *)
  | P_uf2 (s : WriteModel.site)        (* panic inside Uf2Write::write_all / drop *)
  | P_range_new                        (* MemoryRange::new(FLASH_BASE, FLASH_BASE + 0xFF) *)
  | P_ck_first_sub | P_ck_last_sub     (* range.get_first() - FLASH_BASE ; range.get_last() - FLASH_BASE *)
  | P_temp_slice                       (* temp[first..=last] : start > end or end > 0xFC *)
  | P_temp_copy_len                    (* copy_from_slice: lengths differ *)
  | P_pre_sub                          (* first.get_first() - off *)
  | P_blank_slice                      (* &BLANK_PAGE[..n] with n > 256 *)
  | P_assert_prepad                    (* assert_eq!(put(first - off, ..), Ok(off)) *)
  | P_prev_add                         (* prev + 1 *)
  | P_base_sub                         (* range.get_first() - off *)
  | P_cnt_sub                          (* range.get_first() - prev - 1 *)
  | P_assert_join                      (* assert_eq!(put(prev + 1, ..), Ok(cnt)) *)
  | P_assert_base                      (* assert_eq!(put(base, ..), Ok(off)) *)
  | P_new_vec_unwrap.                  (* Uf2Write::new_vec(..).unwrap() *)

Inductive reason :=
  | R_empty                            (* ctx.output().len() == 0 : `else {false}` *)
  | R_checksum_overlap                 (* "Checksum would overwrite existing data" *)
  | R_checksum_put                     (* "Checksum write failed" *)
  | R_uf2 (e : WriteModel.werr)        (* "UF2 write failed" *)
  | R_diagnostics.                     (* close_segment / finalize failed (outside `post`, used by `assemble`) *)

Inductive outcome :=
  | POk (file : list N)                (* `true`; buff = file *)
  | Refused (r : reason)               (* `false` *)
  | PPanic (s : psite)
  | POutOfFuel.

(* intermediate results *)
Inductive pres (A : Type) : Type :=
  | Go (a : A) | RStop (r : reason) | PStop (s : psite) | FStop.
Arguments Go {A} a. Arguments RStop {A} r. Arguments PStop {A} s. Arguments FStop {A}.

Definition pbind {A B} (x : pres A) (k : A -> pres B) : pres B :=
  match x with Go a => k a | RStop r => RStop r | PStop s => PStop s | FStop => FStop end.
Notation "'let*' x := r 'in' k" := (pbind r (fun x => k)) (at level 200, x name, r at level 100, k at level 200).
Notation "'let*' ' p := r 'in' k" := (pbind r (fun x => let 'p := x in k))
  (at level 200, p pattern, r at level 100, k at level 200).

(* a MemoryMap call *)
Definition of_map {A} (r : MapModel.res A) : pres A :=
  match r with MapModel.Ok a => Go a | MapModel.Panic s => PStop (P_map s) | MapModel.OutOfFuel => PStop P_map_fuel end.
(* plain u32 arithmetic of assembler.rs *)
Definition psub (dbg : bool) (s : psite) (a b : N) : pres N :=
  if b <=? a then Go (a - b) else if dbg then PStop s else Go (a + U32 - b).
Definition padd (dbg : bool) (s : psite) (a b : N) : pres N :=
  if a + b <? U32 then Go (a + b) else if dbg then PStop s else Go (a + b - U32).

Definition zeros (n : N) : list N := repeat 0 (N.to_nat n).
(* &BLANK_PAGE[..n] *)
Definition blank (n : N) : pres (list N) := if PAGE_SIZE <? n then PStop P_blank_slice else Go (zeros n).

Definition le32 (x : N) : list N :=
  [N.land x 255; N.land (N.shiftr x 8) 255; N.land (N.shiftr x 16) 255; N.land (N.shiftr x 24) 255].   (* u32::to_le_bytes *)

(* ---------------- boot sector checksum (assembler.rs:57-86) ---------------- *)

(* for (range, data) in iter_range(..) { if last >= FLASH_CRC {return false}; temp[first..=last].copy_from_slice(data) } *)
Fixpoint ck_loop (dbg : bool) (rs : list seg) (temp : list N) : pres (list N) :=
  match rs with
  | [] => Go temp
  | sg :: rest =>
    if FLASH_CRC <=? slast sg then RStop R_checksum_overlap else
    let* first := psub dbg P_ck_first_sub (sfirst sg) FLASH_BASE in
    let* last := psub dbg P_ck_last_sub (slast sg) FLASH_BASE in
    (* temp[first..=last] = temp[first..last+1] (last < 2^32, no usize overflow) *)
    if (last + 1 <? first) || (len temp <? last + 1) then PStop P_temp_slice else
    if negb (len (sdata sg) =? last + 1 - first) then PStop P_temp_copy_len else
    ck_loop dbg rest (takeN first temp ++ sdata sg ++ dropN (last + 1) temp)
  end.

(* the 252 bytes the checksum is taken over *)
Definition ck_temp (dbg : bool) (m : mmap) : pres (list N) :=
  let* rg := (match range_new FLASH_BASE (FLASH_BASE + 0xFF) with
              | MapModel.Ok r => Go r | _ => PStop P_range_new end) in
  let* rs := of_map (map_iter_range dbg m (fst rg) (snd rg)) in
  ck_loop dbg rs (zeros 0xFC).

Definition checksum_step (dbg : bool) (m : mmap) : pres mmap :=
  let* hit := of_map (map_find dbg m FLASH_BASE Exact) in
  match hit with
  | None => Go m
  | Some _ =>
    let* temp := ck_temp dbg m in
    let crc := CrcModel.crc_update_slice CrcModel.crc_new (takeN 0xFC temp) in   (* &temp[..0xFC], temp is 0xFC long *)
    let* '(m', r) := of_map (map_put dbg m FLASH_CRC (le32 crc)) in
    match r with
    | None => RStop R_checksum_put          (* Err(e): "Checksum write failed" *)
    | Some _ => Go m'
    end
  end.

(* ---------------- page padding (assembler.rs:88-121) ---------------- *)

(* assert_eq!(put(addr, &BLANK_PAGE[..n]), Ok(n)) *)
Definition put_blank (dbg : bool) (m : mmap) (addr n : N) (s : psite) : pres mmap :=
  let* z := blank n in
  let* '(m', r) := of_map (map_put dbg m addr z) in
  match r with
  | Some k => if k =? n then Go m' else PStop s
  | None => PStop s
  end.

Fixpoint pad_loop (dbg : bool) (fuel : nat) (m : mmap) (prev : N) : pres mmap :=
  match fuel with
  | O => FStop
  | S fuel' =>
    if prev <? U32MAX then
      let* p1 := padd dbg P_prev_add prev 1 in
      let* r := of_map (map_find dbg m p1 Above) in
      match r with
      | Some (rf, rl) =>
        let off := rf mod PAGE_SIZE in
        let* m' :=
          (if 0 <? off then
             let* base := psub dbg P_base_sub rf off in
             if base <=? prev then
               let* t := psub dbg P_cnt_sub rf prev in
               let* cnt := psub dbg P_cnt_sub t 1 in
               let* p1' := padd dbg P_prev_add prev 1 in
               put_blank dbg m p1' cnt P_assert_join
             else put_blank dbg m base off P_assert_base
           else Go m) in
        pad_loop dbg fuel' m' rl
      | None => Go m                         (* else {break;} *)
      end
    else Go m
  end.

Definition pad_step (dbg : bool) (m : mmap) : pres mmap :=
  let* r := of_map (map_find dbg m 0 Above) in
  match r with
  | None => Go m
  | Some (ff, fl) =>
    let off := ff mod PAGE_SIZE in
    let* m1 := (if 0 <? off then
                  let* a := psub dbg P_pre_sub ff off in
                  put_blank dbg m a off P_assert_prepad
                else Go m) in
    pad_loop dbg (S (length m)) m1 fl
  end.

(* ---------------- UF2 emission (assembler.rs:123-140) ---------------- *)

Definition uf2_config : WriteTypes.config :=
  {| WriteTypes.c_fam := Some RP2040_FAMILY; WriteTypes.c_bs := PAGE_SIZE; WriteTypes.c_align := PAGE_SIZE |}.

Fixpoint emit_loop (dbg : bool) (segs : list seg) (st : WriteModel.state) : pres WriteModel.state :=
  match segs with
  | [] => Go st
  | sg :: rest =>
    match WriteModel.write_all dbg st (sfirst sg) (sdata sg) false with
    | WriteModel.Ok (st', _) => emit_loop dbg rest st'
    | WriteModel.Err e => RStop (R_uf2 e)
    | WriteModel.Panic s => PStop (P_uf2 s)
    end
  end.

(* buff.clear(); new_vec(..).unwrap(); for .. write_all ..; drop(dst) *)
Definition emit_step (dbg : bool) (m : mmap) : pres (list N) :=
  match WriteModel.new uf2_config (WriteModel.DVector 0) with
  | inl _ => PStop P_new_vec_unwrap
  | inr st0 =>
    let* st := emit_loop dbg (map_iter m) st0 in
    match WriteModel.finish dbg st with
    | WriteModel.Ok st' => Go (WriteModel.dest_bytes 0 st')
    | WriteModel.Err _ => PStop (P_uf2 WriteModel.SOutside)     (* drop has no error return: never produced *)
    | WriteModel.Panic s => PStop (P_uf2 s)
    end
  end.

(* ---------------- the whole post-processing ---------------- *)

(* the memory map after checksum insertion and padding: what is handed to the UF2 writer *)
Definition padded (dbg : bool) (m : mmap) : pres mmap :=
  if 0 <? map_len m then
    let* m1 := checksum_step dbg m in
    pad_step dbg m1
  else RStop R_empty.

Definition outcome_of (r : pres (list N)) : outcome :=
  match r with Go f => POk f | RStop r => Refused r | PStop s => PPanic s | FStop => POutOfFuel end.

Definition post (dbg : bool) (m : mmap) : outcome :=
  outcome_of (let* m2 := padded dbg m in emit_step dbg m2).

(* ---------------- assemble and main (assembler.rs:34-56, 143-170) ---------------- *)

(* what the library pipeline (assemble, close_segment, finalize: C05/C06) hands over *)
Inductive pipeline :=
  | PipeDiag                       (* close_segment failed or finalize() = false: diagnostics printed, `return false` *)
  | PipeOk (m : mmap).             (* ctx.output() *)

Definition assemble (dbg : bool) (p : pipeline) : outcome :=
  match p with PipeDiag => Refused R_diagnostics | PipeOk m => post dbg m end.

(* file-system and console effects of main, in program order *)
Inductive effect :=
  | E_open_create (path : list N)      (* OpenOptions::new().write(true).create(true).open(fop) *)
  | E_write_all (bytes : list N)       (* fo.write_all(&buff) *)
  | E_set_len (n : N)                  (* fo.set_len(buff.len()) *)
  | E_stdout_success                   (* println!("Assembled successfully") *)
  | E_stderr_missing_arg.              (* eprintln!("Missing assembly file argument") *)

Inductive msite := M_no_argv0 | M_input_open | M_assemble (s : psite) | M_assemble_fuel.

(* result: the effects performed (besides reading the input and the diagnostics of assemble), and whether main panicked.
   argv      : the process arguments, argv[0] included;
   input     : None = the input file cannot be opened/read (`unwrap` panics), Some p = what the pipeline makes of it.
   Failure of one of the three output-file operations (each is `.unwrap()`ed) is an operating-system event that is not
   modelled: the effects listed are attempted in this order. *)
Definition main_model (dbg : bool) (argv : list (list N)) (input : option pipeline) : list effect * option msite :=
  match argv with
  | [] => ([], Some M_no_argv0)                                (* assert!(args.next().is_some()) *)
  | _ :: [] => ([E_stderr_missing_arg], None)
  | _ :: _fip :: rest =>
    let out_arg := match rest with [] => None | fop :: _ => Some fop end in
    match input with
    | None => ([], Some M_input_open)
    | Some p =>
      match assemble dbg p with
      | POk file =>
        match out_arg with
        | Some fop => ([E_open_create fop; E_write_all file; E_set_len (len file)], None)
        | None => ([E_stdout_success], None)
        end
      | Refused _ => ([], None)
      | PPanic s => ([], Some (M_assemble s))
      | POutOfFuel => ([], Some M_assemble_fuel)
      end
    end
  end.

Definition touches_output (e : effect) : bool :=
  match e with E_open_create _ | E_write_all _ | E_set_len _ => true | _ => false end.
