(* Vocabulary shared by the tridas model (what it prints) and the listing oracle (what must be printed):
   the kinds of lines of a listing.  Types only. *)
From Coq Require Import NArith.
From Trion Require Import Arm.Instr.

Inductive line :=
| LHeader                          (* .addr 0x20000000; *)
| LBlank                           (* empty line *)
| LLabel (addr : N)                (* l_XXXXXXXX: *)
| LInstr (i : instr) (addr : N).   (* <tab><instruction text> *)
