(* C08, first half: simplify / neutralize / evaluate never reach an unreachable!(), assert! or unwrap.
   The asserts in `search` hold because every tree `search` looks at has been simplified bottom-up: it satisfies
   [inv] (no binary node with two constant children, no negated constant). *)
From Coq Require Import ZArith Lia Bool List.
From Trion Require Import Text.Types Expr.I64 Expr.SimplifyModel Expr.EvalModel Expr.ArgLemmas.
Import ListNotations.
Open Scope Z_scope.

Fixpoint inv (a : arg) : bool :=
  match a with
  | AAdd l r | ASub l r | AMul l r | ADiv l r | AMod l r | AAnd l r | AOr l r | AXor l r | AShl l r | AShr l r =>
      negb (is_const l && is_const r) && inv l && inv r
  | ANeg v => negb (is_const v) && inv v
  | ANot v | AAddr v => inv v
  | _ => true
  end.

Lemma inv_mk op l r : inv (mk_bin op l r) = negb (is_const l && is_const r) && inv l && inv r.
Proof. destruct op; reflexivity. Qed.

Lemma inv_mk_iff op l r : inv (mk_bin op l r) = true <-> (is_const l && is_const r = false) /\ inv l = true /\ inv r = true.
Proof. rewrite inv_mk, !andb_true_iff, negb_true_iff. tauto. Qed.

(* result is fine: no panic, the tree satisfies inv, and a non-constant did not become a constant *)
Definition goodc (a : arg) (o : outcome (arg * bool)) : Prop :=
  match o with
  | Ok (a', _) => inv a' = true /\ (is_const a' = true -> is_const a = true)
  | Err _ => True
  | Panic _ => False
  end.

Definition good {B} (o : outcome (arg * B)) : Prop :=
  match o with Ok (a', _) => inv a' = true | Err _ => True | Panic _ => False end.

Lemma goodc_good a o : goodc a o -> good o.
Proof. destruct o as [[a' c]| |]; cbn; tauto. Qed.

(* ------------------------------------------------------------------ neutralize_raw *)
Lemma strip_inv r : forall f, inv r = true -> is_const r = false ->
  inv (snd (strip_negs f r)) = true /\ is_const (snd (strip_negs f r)) = false.
Proof.
  induction r; intros f I C; cbn [strip_negs snd]; auto.
  cbn [inv] in I. apply andb_true_iff in I. destruct I as [I1 I2]. apply negb_true_iff in I1. apply IHr; assumption.
Qed.

Lemma step1_good a : inv a = true ->
  inv (fst (neut_step1 a)) = true /\ (is_const (fst (neut_step1 a)) = true -> is_const a = true).
Proof.
  intros I. unfold neut_step1. destruct (bin_view a) as [[[op l] r]|] eqn:V; [|cbn; auto].
  apply bin_view_some in V. subst a. destruct (is_addsub op); [|cbn; auto].
  destruct r; cbn [fst]; auto.
  apply inv_mk_iff in I. destruct I as [_ [Il Ir]].
  destruct (strip_negs false (ANeg r)) as [f r'] eqn:S. cbn [fst].
  pose proof (strip_inv (ANeg r) false Ir eq_refl) as [S1 S2]. rewrite S in S1, S2. cbn [snd] in S1, S2.
  split; [|rewrite is_const_mk; discriminate].
  apply inv_mk_iff. rewrite S2, andb_false_r. auto.
Qed.

Lemma step2_good a : inv a = true -> goodc a (neut_step2 a).
Proof.
  intros I. unfold neut_step2. destruct (bin_view a) as [[[op l] r]|] eqn:V; [|cbn; auto].
  apply bin_view_some in V. subst a.
  destruct (const_val r) as [v|] eqn:C; [|cbn; auto].
  destruct (is_addsub op && (v <? 0)); [|cbn; auto].
  destruct (checked_neg v); cbn; [|exact Logic.I].
  split; [|rewrite is_const_mk; discriminate].
  apply const_val_some in C. subst r.
  apply inv_mk_iff in I. destruct I as [N [Il _]]. apply inv_mk_iff. cbn in *. auto.
Qed.

Lemma main_good a : inv a = true ->
  match neut_main a with
  | Ok a' => inv a' = true /\ (is_const a' = true -> is_const a = true)
  | Err _ => True | Panic _ => False end.
Proof.
  intros I. unfold neut_main. destruct (bin_view a) as [[[op l] r]|] eqn:V; [|cbn; auto].
  apply bin_view_some in V. subst a.
  destruct (bad_operand l); [exact Logic.I|]. destruct (bad_operand r); [exact Logic.I|].
  pose proof I as I0. apply inv_mk_iff in I. destruct I as [N [Il Ir]].
  destruct (const_val l) as [v|] eqn:Cl.
  - apply const_val_some in Cl. subst l. cbn [is_const andb] in N.
    destruct (opt_is v (fst (neutral_table op))).
    + split; [exact Ir | intros E; congruence].
    + destruct (is_sub op && (v =? 0)); [|auto].
      split; [cbn [inv]; rewrite N, Ir; reflexivity | discriminate].
  - destruct (const_val r) as [v|] eqn:Cr; [|auto].
    destruct (opt_is v (snd (neutral_table op))); [|auto].
    split; [exact Il|]. intros E. rewrite const_val_is, Cl in E. discriminate.
Qed.

Lemma neutralize_raw_good a : inv a = true -> goodc a (neutralize_raw a).
Proof.
  intros I. unfold neutralize_raw.
  pose proof (step1_good a I) as [I1 C1]. destruct (neut_step1 a) as [a1 c1]. cbn [fst] in *.
  pose proof (step2_good a1 I1) as G2. destruct (neut_step2 a1) as [[a2 c2]|e|s]; cbn [bind]; [|exact Logic.I|exact G2].
  cbn in G2. destruct G2 as [I2 C2].
  pose proof (main_good a2 I2) as G3. destruct (neut_main a2) as [a3|e|s]; cbn [bind goodc]; [|exact Logic.I|exact G3].
  destruct G3 as [I3 C3]. auto.
Qed.

(* ------------------------------------------------------------------ neutralize *)
Lemma deep_bin_good raw op l r rl rr :
  (forall a, inv a = true -> goodc a (raw a)) ->
  is_const l && is_const r = false -> goodc l rl -> goodc r rr -> goodc (mk_bin op l r) (deep_bin raw op rl rr).
Proof.
  intros Hraw N Gl Gr. unfold deep_bin.
  destruct rl as [[l' cl]|e|s]; cbn [bind]; [|exact Logic.I|exact Gl].
  destruct rr as [[r' cr]|e|s]; cbn [bind]; [|exact Logic.I|exact Gr].
  cbn in Gl, Gr. destruct Gl as [Il Cl], Gr as [Ir Cr].
  assert (I : inv (mk_bin op l' r') = true).
  { apply inv_mk_iff. split; [|auto].
    destruct (is_const l') eqn:A, (is_const r') eqn:B; try reflexivity.
    rewrite Cl, Cr in N by reflexivity. discriminate. }
  pose proof (Hraw _ I) as G. destruct (raw (mk_bin op l' r')) as [[a' c]|e|s]; cbn [bind]; [|exact Logic.I|exact G].
  cbn in G |- *. destruct G as [G1 G2]. split; [exact G1|]. intros E. apply G2 in E. rewrite is_const_mk in E. discriminate.
Qed.

Lemma deep_list_np f l : Forall (fun a => forall s, f a <> Panic s) l -> forall s, deep_list f l <> Panic s.
Proof.
  induction 1 as [|x xs Hx _ IH]; intros s; cbn [deep_list]; [discriminate|].
  unfold deep_cons. destruct (f x) as [[x' c]|e|s'] eqn:E; cbn [bind]; [|discriminate|exfalso; exact (Hx s' eq_refl)].
  destruct (deep_list f xs) as [[xs' cs]|e|s'] eqn:E2; cbn [bind]; [discriminate|discriminate|exfalso; exact (IH s' eq_refl)].
Qed.

Lemma goodc_np a o : goodc a o -> forall s, o <> Panic s.
Proof. intros G s E. subst o. exact G. Qed.
Lemma good_np {B} (o : outcome (arg * B)) : good o -> forall s, o <> Panic s.
Proof. intros G s E. subst o. exact G. Qed.

(* neutralize on any tree: no panic (no hypothesis needed) *)
Lemma neut_main_np a : forall s, neut_main a <> Panic s.
Proof.
  intros s. unfold neut_main. destruct (bin_view a) as [[[op l] r]|]; [|discriminate].
  destruct (bad_operand l); [discriminate|]. destruct (bad_operand r); [discriminate|].
  destruct (const_val l); [destruct (opt_is _ _); [discriminate|destruct (_ && _); discriminate]|].
  destruct (const_val r); [destruct (opt_is _ _); discriminate|discriminate].
Qed.

Lemma neut_step2_np a : forall s, neut_step2 a <> Panic s.
Proof.
  intros s. unfold neut_step2. destruct (bin_view a) as [[[op l] r]|]; [|discriminate].
  destruct (const_val r); [|discriminate]. destruct (_ && _); [|discriminate]. destruct (checked_neg z); discriminate.
Qed.

Lemma neutralize_raw_np a : forall s, neutralize_raw a <> Panic s.
Proof.
  intros s. unfold neutralize_raw. destruct (neut_step1 a) as [a1 c1].
  destruct (neut_step2 a1) as [[a2 c2]|e|s'] eqn:E2; cbn [bind]; [|discriminate|exfalso; exact (neut_step2_np _ _ E2)].
  destruct (neut_main a2) as [a3|e|s'] eqn:E3; cbn [bind]; [discriminate|discriminate|exfalso; exact (neut_main_np _ _ E3)].
Qed.

Lemma deep_bin_np raw op rl rr s :
  (forall a s, raw a <> Panic s) -> (forall s, rl <> Panic s) -> (forall s, rr <> Panic s) -> deep_bin raw op rl rr <> Panic s.
Proof.
  intros Hraw Hl Hr. unfold deep_bin.
  destruct rl as [[l' cl]|e|s']; cbn [bind]; [|discriminate|exfalso; exact (Hl s' eq_refl)].
  destruct rr as [[r' cr]|e|s']; cbn [bind]; [|discriminate|exfalso; exact (Hr s' eq_refl)].
  destruct (raw (mk_bin op l' r')) as [[a' c]|e|s'] eqn:E; cbn [bind]; [discriminate|discriminate|exfalso; exact (Hraw _ s' E)].
Qed.

Lemma deep_un_np raw mk rv s :
  (forall a s, raw a <> Panic s) -> (forall s, rv <> Panic s) -> deep_un raw mk rv <> Panic s.
Proof.
  intros Hraw Hv. unfold deep_un.
  destruct rv as [[v' cv]|e|s']; cbn [bind]; [|discriminate|exfalso; exact (Hv s' eq_refl)].
  destruct (raw (mk v')) as [[a' c]|e|s'] eqn:E; cbn [bind]; [discriminate|discriminate|exfalso; exact (Hraw _ s' E)].
Qed.

Lemma neutralize_np a : forall s, neutralize a <> Panic s.
Proof.
  induction a using arg_ind'; intros sp.
  - cbn. discriminate.
  - cbn. discriminate.
  - cbn. discriminate.
  - rewrite neutralize_mk. apply deep_bin_np; auto using neutralize_raw_np.
  - cbn [neutralize]. apply deep_un_np; auto using neutralize_raw_np.
  - cbn [neutralize]. apply deep_un_np; auto using neutralize_raw_np.
  - cbn [neutralize]. apply deep_un_np; auto using neutralize_raw_np.
  - rewrite neutralize_seq. destruct (deep_list neutralize l) as [[l' c]|e|s'] eqn:E; cbn [bind]; try discriminate.
    exfalso. exact (deep_list_np neutralize l H s' E).
  - rewrite neutralize_fun. destruct (deep_list neutralize l) as [[l' c]|e|s'] eqn:E; cbn [bind]; try discriminate.
    exfalso. exact (deep_list_np neutralize l H s' E).
Qed.

(* neutralize on a simplified tree keeps it simplified *)
Lemma neutralize_good a : inv a = true -> goodc a (neutralize a).
Proof.
  induction a using arg_ind'; intros I.
  - cbn. auto.
  - cbn. auto.
  - cbn. auto.
  - rewrite neutralize_mk. apply inv_mk_iff in I. destruct I as [N [Il Ir]].
    apply deep_bin_good; auto using neutralize_raw_good.
  - cbn [neutralize inv] in *. apply andb_true_iff in I. destruct I as [N Iv]. apply negb_true_iff in N.
    specialize (IHa Iv). unfold deep_un. destruct (neutralize a) as [[v' cv]|e|s]; cbn [bind]; [|exact Logic.I|exact IHa].
    cbn in IHa. destruct IHa as [I' C']. cbn.
    split; [|discriminate]. rewrite I', andb_true_r. apply negb_true_iff.
    destruct (is_const v') eqn:E; [|reflexivity]. rewrite C' in N by reflexivity. discriminate.
  - cbn [neutralize inv] in *. specialize (IHa I). unfold deep_un.
    destruct (neutralize a) as [[v' cv]|e|s]; cbn [bind]; [|exact Logic.I|exact IHa].
    cbn in IHa |- *. destruct IHa as [I' _]. split; [exact I'|discriminate].
  - cbn [neutralize inv] in *. specialize (IHa I). unfold deep_un.
    destruct (neutralize a) as [[v' cv]|e|s]; cbn [bind]; [|exact Logic.I|exact IHa].
    cbn in IHa |- *. destruct IHa as [I' _]. split; [exact I'|discriminate].
  - pose proof (neutralize_np (ASeq l)) as NP. destruct (neutralize (ASeq l)) as [[a' c]|e|s] eqn:E; [|exact Logic.I|exact (NP s eq_refl)].
    rewrite neutralize_seq in E. destruct (deep_list neutralize l) as [[l' c']|e|s]; cbn [bind] in E; try discriminate.
    injection E as <- <-. cbn. auto.
  - pose proof (neutralize_np (AFun n l)) as NP. destruct (neutralize (AFun n l)) as [[a' c]|e|s] eqn:E; [|exact Logic.I|exact (NP s eq_refl)].
    rewrite neutralize_fun in E. destruct (deep_list neutralize l) as [[l' c']|e|s]; cbn [bind] in E; try discriminate.
    injection E as <- <-. cbn. auto.
Qed.

(* ------------------------------------------------------------------ search *)
(* the node search returns: a chain node (or a Divide node when merging a division) with exactly one constant child *)
Definition found_node (ty : binop) (n : arg) : Prop :=
  exists op l r, n = mk_bin op l r /\ xorb (is_const l) (is_const r) = true
                 /\ (if is_div ty then op = OpDivide else chain_op op = true).

Lemma chain_ok_div cty : chain_op cty = true -> chain_ok OpDivide cty = false.
Proof. destruct cty; cbn; congruence. Qed.

Lemma search_found ty t : forall i p j, search ty t i = Ok (Some (p, j)) -> exists n, get p t = Some n /\ found_node ty n.
Proof.
  induction t using arg_ind'; intros i p j S; try (cbn in S; discriminate).
  - rewrite search_mk in S. destruct (chain_op op) eqn:CO.
    + unfold search_chain in S. destruct (chain_ok ty op) eqn:CK; [|discriminate].
      destruct (is_const t1) eqn:C1, (is_const t2) eqn:C2; cbn [andb orb] in S; try discriminate.
      * injection S as <- <-. exists (mk_bin op t1 t2). split; [reflexivity|].
        exists op, t1, t2. rewrite C1, C2. repeat split.
        destruct (is_div ty) eqn:D; [|exact CO]. destruct ty; try discriminate. rewrite chain_ok_div in CK by exact CO. discriminate.
      * injection S as <- <-. exists (mk_bin op t1 t2). split; [reflexivity|].
        exists op, t1, t2. rewrite C1, C2. repeat split.
        destruct (is_div ty) eqn:D; [|exact CO]. destruct ty; try discriminate. rewrite chain_ok_div in CK by exact CO. discriminate.
      * destruct (search ty t1 i) as [[[p1 j1]|]|e|s] eqn:S1; cbn [under] in S; try discriminate.
        -- injection S as <- <-. destruct (IHt1 _ _ _ S1) as [n [G F]]. exists n. rewrite get_DL_mk. auto.
        -- destruct (search ty t2 (xorb i (is_sub op))) as [[[p2 j2]|]|e|s] eqn:S2; cbn [under] in S; try discriminate.
           injection S as <- <-. destruct (IHt2 _ _ _ S2) as [n [G F]]. exists n. rewrite get_DR_mk. auto.
    + destruct (is_div op) eqn:DO; [|discriminate]. unfold search_div in S.
      destruct (is_div ty) eqn:DT; [|discriminate].
      destruct (is_const t1) eqn:C1, (is_const t2) eqn:C2; cbn [andb orb] in S; try discriminate.
      * injection S as <- <-. exists (mk_bin op t1 t2). split; [reflexivity|].
        exists op, t1, t2. rewrite C1, C2, DT. repeat split. destruct op; try discriminate; reflexivity.
      * injection S as <- <-. exists (mk_bin op t1 t2). split; [reflexivity|].
        exists op, t1, t2. rewrite C1, C2, DT. repeat split. destruct op; try discriminate; reflexivity.
      * destruct (search ty t1 i) as [[[p1 j1]|]|e|s] eqn:S1; cbn [under] in S; try discriminate.
        injection S as <- <-. destruct (IHt1 _ _ _ S1) as [n [G F]]. exists n. rewrite get_DL_mk. auto.
  - cbn [search] in S. destruct (is_addsub ty); [|discriminate].
    destruct (search ty t (negb i)) as [[[p1 j1]|]|e|s] eqn:S1; cbn [under] in S; try discriminate.
    injection S as <- <-. destruct (IHt _ _ _ S1) as [n [G F]]. exists n. rewrite get_DL_neg. auto.
Qed.

Lemma search_np ty t : inv t = true -> forall i s, search ty t i <> Panic s.
Proof.
  induction t using arg_ind'; intros I i sp; try (cbn; discriminate).
  - rewrite search_mk. apply inv_mk_iff in I. destruct I as [N [I1 I2]].
    destruct (chain_op op).
    + unfold search_chain. destruct (chain_ok ty op); [|discriminate]. rewrite N.
      destruct (is_const t1 || is_const t2); [discriminate|].
      destruct (search ty t1 i) as [[[p1 j1]|]|e|s'] eqn:S1; cbn [under]; try discriminate.
      * destruct (search ty t2 (xorb i (is_sub op))) as [[[p2 j2]|]|e|s'] eqn:S2; cbn [under]; try discriminate.
        exfalso. exact (IHt2 I2 _ _ S2).
      * exfalso. exact (IHt1 I1 _ _ S1).
    + destruct (is_div op); [|discriminate]. unfold search_div. destruct (is_div ty); [|discriminate]. rewrite N.
      destruct (is_const t1 || is_const t2); [discriminate|].
      destruct (search ty t1 i) as [[[p1 j1]|]|e|s'] eqn:S1; cbn [under]; try discriminate.
      exfalso. exact (IHt1 I1 _ _ S1).
  - cbn [search]. cbn [inv] in I. apply andb_true_iff in I. destruct I as [_ I].
    destruct (is_addsub ty); [|discriminate].
    destruct (search ty t (negb i)) as [[[p1 j1]|]|e|s'] eqn:S1; cbn [under]; try discriminate.
    exfalso. exact (IHt I _ _ S1).
Qed.

(* ------------------------------------------------------------------ replacing along a path *)
(* replacing a constant by a constant *)
Lemma set_const_inv p : forall t c c' t', get p t = Some (AConst c) -> set p (AConst c') t = Some t' ->
  inv t = true -> inv t' = true /\ is_const t' = is_const t.
Proof.
  induction p as [|d p IH]; intros t c c' t' G S I.
  - cbn in G, S. injection G as ->. injection S as <-. auto.
  - cbn [get set] in G, S. unfold child in G, S. unfold with_child in S.
    destruct (bin_view t) as [[[op l] r]|] eqn:V.
    + apply bin_view_some in V. subst t. apply inv_mk_iff in I. destruct I as [N [Il Ir]].
      destruct d.
      * destruct (set p (AConst c') l) as [l'|] eqn:S'; [|discriminate]. injection S as <-.
        destruct (IH _ _ _ _ G S' Il) as [I' C']. rewrite !is_const_mk. split; [|reflexivity].
        apply inv_mk_iff. rewrite C'. auto.
      * destruct (set p (AConst c') r) as [r'|] eqn:S'; [|discriminate]. injection S as <-.
        destruct (IH _ _ _ _ G S' Ir) as [I' C']. rewrite !is_const_mk. split; [|reflexivity].
        apply inv_mk_iff. rewrite C'. auto.
    + destruct t; try discriminate. destruct d; try discriminate.
      destruct (set p (AConst c') t) as [v'|] eqn:S'; [|discriminate]. injection S as <-.
      cbn [inv] in I. apply andb_true_iff in I. destruct I as [N Iv].
      destruct (IH _ _ _ _ G S' Iv) as [I' C']. cbn [inv is_const]. rewrite C', N, I'. auto.
Qed.

(* replacing a non-constant node by a non-constant tree *)
Lemma set_nonconst_inv p : forall t n n' t', get p t = Some n -> is_const n = false -> is_const n' = false ->
  inv n' = true -> set p n' t = Some t' -> inv t = true -> inv t' = true /\ is_const t' = false.
Proof.
  induction p as [|d p IH]; intros t n n' t' G Cn Cn' In' S I.
  - cbn in S. injection S as <-. auto.
  - cbn [get set] in G, S. unfold child in G, S. unfold with_child in S.
    destruct (bin_view t) as [[[op l] r]|] eqn:V.
    + apply bin_view_some in V. subst t. apply inv_mk_iff in I. destruct I as [N [Il Ir]].
      destruct d.
      * destruct (set p n' l) as [l'|] eqn:S'; [|discriminate]. injection S as <-.
        destruct (IH _ _ _ _ G Cn Cn' In' S' Il) as [I' C']. rewrite is_const_mk. split; [|reflexivity].
        apply inv_mk_iff. rewrite C'. auto.
      * destruct (set p n' r) as [r'|] eqn:S'; [|discriminate]. injection S as <-.
        destruct (IH _ _ _ _ G Cn Cn' In' S' Ir) as [I' C']. rewrite is_const_mk. split; [|reflexivity].
        apply inv_mk_iff. rewrite C', andb_false_r. auto.
    + destruct t; try discriminate. destruct d; try discriminate.
      destruct (set p n' t) as [v'|] eqn:S'; [|discriminate]. injection S as <-.
      cbn [inv] in I. apply andb_true_iff in I. destruct I as [N Iv].
      destruct (IH _ _ _ _ G Cn Cn' In' S' Iv) as [I' C']. cbn [inv is_const]. rewrite C', I'. auto.
Qed.

Lemma get_inv p : forall t n, get p t = Some n -> inv t = true -> inv n = true.
Proof.
  induction p as [|d p IH]; intros t n G I; cbn [get] in G; [congruence|].
  unfold child in G. destruct (bin_view t) as [[[op l] r]|] eqn:V.
  - apply bin_view_some in V. subst t. apply inv_mk_iff in I. destruct I as [_ [Il Ir]]. destruct d; eauto.
  - destruct t; try discriminate. destruct d; try discriminate. cbn [inv] in I. apply andb_true_iff in I. destruct I. eauto.
Qed.

(* ------------------------------------------------------------------ simplify_raw *)
(* children simplified *)
Definition cinv (a : arg) : bool :=
  match bin_view a with
  | Some (_, l, r) => inv l && inv r
  | None => match a with ANeg v | ANot v | AAddr v => inv v | _ => true end
  end.

Lemma const_child_path_mk op l r :
  const_child_path (mk_bin op l r) = if selectable op then Ok (if is_const l then [DL] else [DR]) else Panic 3.
Proof. destruct op; reflexivity. Qed.

Lemma locate_found ty side s : inv side = true ->
  (forall p j, s = Some (p, j) -> (p = [] /\ is_const side = true) \/ exists n, get p side = Some n /\ found_node ty n) ->
  match locate side s with
  | Ok None => s = None
  | Ok (Some (pa, pc, j)) => s = Some (pa, j) /\ exists n c, get pa side = Some n /\ get pc side = Some (AConst c) /\
        ((pa = [] /\ pc = [] /\ n = AConst c) \/ (found_node ty n /\ exists d, pc = pa ++ [d]))
  | Err _ => False
  | Panic _ => False
  end.
Proof.
  intros I H. unfold locate. destruct s as [[p j]|]; [|reflexivity].
  destruct (H p j eq_refl) as [[-> C]|[n [G F]]].
  - cbn [get]. apply is_const_true in C. destruct C as [c ->]. cbn. split; [reflexivity|]. exists (AConst c), c. split; [reflexivity|split; [reflexivity|left; auto]].
  - rewrite G. destruct F as [op [l [r [-> [X Sel]]]]].
    assert (SelT : selectable op = true) by (destruct (is_div ty); [subst op; reflexivity | destruct op; try discriminate; reflexivity]).
    rewrite const_child_path_mk, SelT. cbn [bind]. split; [reflexivity|].
    destruct (is_const l) eqn:Cl.
    + apply is_const_true in Cl. destruct Cl as [c ->]. exists (mk_bin op (AConst c) r), c.
      split; [exact G|]. split; [rewrite get_app, G; cbn [get]; rewrite child_mk; reflexivity|].
      right. split; [exists op, (AConst c), r; auto | exists DL; reflexivity].
    + assert (X' : is_const r = true) by (destruct (is_const r); [reflexivity|discriminate X]). clear X. rename X' into X. apply is_const_true in X. destruct X as [c ->]. exists (mk_bin op l (AConst c)), c.
      split; [exact G|]. split; [rewrite get_app, G; cbn [get]; rewrite child_mk; reflexivity|].
      right. split; [exists op, l, (AConst c); rewrite Cl; auto | exists DR; reflexivity].
Qed.

Lemma splice_good ty n : ty <> OpDivide -> found_node ty n -> inv n = true ->
  exists n', splice_node n = Ok n' /\ inv n' = true /\ is_const n' = false.
Proof.
  intros Hty [op [l [r [-> [X Sel]]]]] I.
  assert (D : is_div ty = false) by (destruct ty; try reflexivity; congruence). rewrite D in Sel.
  apply inv_mk_iff in I. destruct I as [N [Il Ir]].
  destruct (is_const l) eqn:Cl, (is_const r) eqn:Cr; try discriminate.
  - destruct op; try discriminate; cbn [mk_bin splice_node]; rewrite Cl; eexists; (split; [reflexivity|]); auto.
    cbn [inv is_const]. rewrite Cr, Ir. auto.
  - destruct op; try discriminate; cbn [mk_bin splice_node]; rewrite Cl; eexists; (split; [reflexivity|]); auto.
Qed.

Lemma merge_val_np op li ri a b : chain_op op = true \/ op = OpDivide -> forall s, merge_val op li ri a b <> Panic s.
Proof.
  intros [H| ->] s; [destruct op; try discriminate H|]; cbn [merge_val];
  repeat match goal with |- context [if ?c then _ else _] => destruct c end;
  match goal with |- context [of_opt _ ?o] => destruct o | _ => idtac end; cbn; discriminate.
Qed.

Lemma simplify_merge_good op l r :
  chain_op op = true \/ op = OpDivide ->
  inv l = true -> inv r = true -> is_const l && is_const r = false -> good (simplify_merge op l r).
Proof.
  intros Hop Il Ir N. unfold simplify_merge.
  (* lhs *)
  set (ls := if is_const l then Ok (Some ([], false)) else search op l false).
  assert (Hls : match ls with Ok s => forall p j, s = Some (p, j) ->
                   (p = [] /\ is_const l = true) \/ exists n, get p l = Some n /\ found_node op n
                 | Err _ => True | Panic _ => False end).
  { subst ls. destruct (is_const l) eqn:Cl.
    - intros p j E. injection E as <- <-. auto.
    - destruct (search op l false) as [s|e|s] eqn:S; [|exact Logic.I|exact (search_np op l Il _ _ S)].
      intros p j ->. right. exact (search_found _ _ _ _ _ S). }
  destruct ls as [lsv|e|s]; cbn [bind]; [|exact Logic.I|exact Hls].
  pose proof (locate_found op l lsv Il Hls) as Ll.
  destruct (locate l lsv) as [lhs_c|e|s]; cbn [bind]; [|contradiction|contradiction].
  (* rhs *)
  set (rs := if is_const r then Ok (Some ([], is_sub op || is_div op))
             else if is_div op then Ok None else search op r (is_sub op || is_div op)).
  assert (Hrs : match rs with Ok s => forall p j, s = Some (p, j) ->
                   (p = [] /\ is_const r = true) \/ (is_div op = false /\ exists n, get p r = Some n /\ found_node op n)
                 | Err _ => True | Panic _ => False end).
  { subst rs. destruct (is_const r) eqn:Cr.
    - intros p j E. injection E as <- <-. auto.
    - destruct (is_div op) eqn:D; [intros p j E; discriminate|].
      destruct (search op r (is_sub op || false)) as [s|e|s] eqn:S; [|exact Logic.I|exact (search_np op r Ir _ _ S)].
      intros p j ->. right. split; [reflexivity|]. exact (search_found _ _ _ _ _ S). }
  destruct rs as [rsv|e|s]; cbn [bind]; [|exact Logic.I|exact Hrs].
  assert (Hrs' : forall p j, rsv = Some (p, j) -> (p = [] /\ is_const r = true) \/ exists n, get p r = Some n /\ found_node op n).
  { intros p j E. destruct (Hrs p j E) as [H|[_ H]]; auto. }
  pose proof (locate_found op r rsv Ir Hrs') as Lr.
  destruct (locate r rsv) as [rhs_c|e|s]; cbn [bind]; [|contradiction|contradiction].
  assert (NR : good (neutralize_raw (mk_bin op l r))).
  { apply (goodc_good (mk_bin op l r)). apply neutralize_raw_good. apply inv_mk_iff. auto. }
  destruct lhs_c as [[[pla pl] lhs_inv]|]; [|exact NR].
  destruct rhs_c as [[[pra prc] rhs_inv]|]; [|exact NR].
  destruct Ll as [_ [nl [cl [Gla [Glc Kl]]]]]. destruct Lr as [Es [nr [cr [Gra [Grc Kr]]]]].
  rewrite Glc, Grc.
  pose proof (merge_val_np op lhs_inv rhs_inv cl cr Hop) as MV.
  destruct (merge_val op lhs_inv rhs_inv cl cr) as [nv|e|s]; cbn [bind]; [|exact Logic.I|exact (MV s eq_refl)].
  destruct (set_defined pl (AConst nv) l _ Glc) as [l' Sl]. rewrite Sl, Gra.
  destruct (set_const_inv pl l cl nv l' Glc Sl Il) as [Il' Cl'].
  assert (FIN : forall a', inv a' = true -> good (bind (neutralize a') (fun '(a'', _) => Ok (a'', true)))).
  { intros a' Ia'. pose proof (neutralize_good a' Ia') as G.
    destruct (neutralize a') as [[a'' c]|e|s]; cbn [bind good]; [|exact Logic.I|exact G]. exact (proj1 G). }
  destruct Kr as [[-> [-> ->]]|[Fr [d ->]]].
  - cbn [bind]. apply FIN. exact Il'.
  - assert (Hdiv : is_div op = false).
    { destruct (Hrs _ _ Es) as [[-> Cr]|[D _]]; [|exact D]. cbn in Gra. injection Gra as <-.
      destruct Fr as [op' [l0 [r0 [-> _]]]]. rewrite is_const_mk in Cr. discriminate. }
    assert (Hne : op <> OpDivide) by (intros ->; discriminate Hdiv).
    assert (Cnr : is_const nr = false) by (destruct Fr as [? [? [? [-> _]]]]; apply is_const_mk).
    destruct (splice_good op nr Hne Fr (get_inv _ _ _ Gra Ir)) as [n' [Sp [In' Cn']]].
    destruct (set_defined pra n' r _ Gra) as [r' Sr].
    destruct (set_nonconst_inv pra r _ n' r' Gra Cnr Cn' In' Sr Ir) as [Ir' Cr'].
    assert (Ia : inv (mk_bin op l' r') = true) by (apply inv_mk_iff; rewrite Cr', andb_false_r; auto).
    destruct nr; try discriminate Cnr; rewrite Sp; cbn [bind]; rewrite Sr; apply FIN; exact Ia.
Qed.

Lemma of_opt_np k o s : of_opt k o <> Panic s.
Proof. destruct o; discriminate. Qed.

Lemma fold_const_np op a b s : fold_const op a b <> Panic s.
Proof.
  destruct op; cbn [fold_const]; try apply of_opt_np; try discriminate.
  - destruct (b =? 0); [discriminate | apply of_opt_np].
  - destruct (b =? 0); [discriminate | apply of_opt_np].
  - destruct (u32_try_from b); [apply of_opt_np | discriminate].
  - destruct (u32_try_from b); [apply of_opt_np | discriminate].
Qed.

Lemma sr_neg v : inv v = true -> good (simplify_raw (ANeg v)).
Proof.
  intros I. destruct v; cbn [simplify_raw bin_view good]; try exact Logic.I;
  try (cbn [inv is_const negb andb]; exact I).
  - match goal with |- context [?c =? i64_min] => destruct (c =? i64_min) end; reflexivity.
  - cbn [inv] in I |- *. rewrite !andb_true_iff in *. rewrite andb_comm. tauto.
Qed.

Lemma sr_not v : inv v = true -> good (simplify_raw (ANot v)).
Proof.
  intros I. destruct v; cbn [simplify_raw bin_view good]; try exact Logic.I; try (cbn [inv]; exact I).
Qed.

Lemma simplify_raw_good a : cinv a = true -> good (simplify_raw a).
Proof.
  intros CI. unfold simplify_raw. unfold cinv in CI.
  destruct (bin_view a) as [[[op l] r]|] eqn:V.
  - apply bin_view_some in V. subst a. apply andb_true_iff in CI. destruct CI as [Il Ir].
    destruct (bad_operand l); [exact Logic.I|]. destruct (bad_operand r); [exact Logic.I|].
    assert (NR : is_const l && is_const r = false -> good (neutralize_raw (mk_bin op l r))).
    { intros N. apply (goodc_good (mk_bin op l r)). apply neutralize_raw_good. apply inv_mk_iff. auto. }
    assert (REST : is_const l && is_const r = false ->
       good (match op with
             | OpModulo => if mod_collapse l r then Ok (l, true) else neutralize_raw (mk_bin op l r)
             | OpLeftShift | OpRightShift => neutralize_raw (mk_bin op l r)
             | _ => simplify_merge op l r end)).
    { intros N. destruct op; try (apply simplify_merge_good; auto; fail); try (apply NR; exact N).
      destruct (mod_collapse l r); [exact Il | apply NR; exact N]. }
    destruct (const_val l) as [lv|] eqn:Cl, (const_val r) as [rv|] eqn:Cr.
    + destruct (fold_const op lv rv) as [v|e|s] eqn:F; cbn [bind good]; auto. exact (fold_const_np _ _ _ _ F).
    + apply REST. rewrite (const_val_is r), Cr. apply andb_false_r.
    + apply REST. rewrite (const_val_is l), Cl. reflexivity.
    + apply REST. rewrite (const_val_is l), Cl. reflexivity.
  - destruct a; try reflexivity; try (cbn in V; discriminate V).
    + apply sr_neg. exact CI.
    + apply sr_not. exact CI.
    + destruct (bad_operand a); [exact Logic.I | exact CI].
Qed.

(* ------------------------------------------------------------------ simplify, evaluate *)
Lemma deep_bin_good' raw op rl rr :
  (forall a, cinv a = true -> good (raw a)) -> good rl -> good rr -> good (deep_bin raw op rl rr).
Proof.
  intros Hraw Gl Gr. unfold deep_bin.
  destruct rl as [[l' cl]|e|s]; cbn [bind]; [|exact Logic.I|exact Gl].
  destruct rr as [[r' cr]|e|s]; cbn [bind]; [|exact Logic.I|exact Gr].
  cbn in Gl, Gr.
  assert (CI : cinv (mk_bin op l' r') = true) by (unfold cinv; rewrite bin_view_mk, Gl, Gr; reflexivity).
  pose proof (Hraw _ CI) as G. destruct (raw (mk_bin op l' r')) as [[a' c]|e|s]; cbn [bind]; auto.
Qed.

Lemma simplify_good a : good (simplify a).
Proof.
  induction a using arg_ind'.
  - cbn. reflexivity.
  - cbn. reflexivity.
  - cbn. reflexivity.
  - rewrite simplify_mk. apply deep_bin_good'; auto using simplify_raw_good.
  - cbn [simplify]. unfold deep_un. destruct (simplify a) as [[v' cv]|e|s]; cbn [bind]; [|exact Logic.I|exact IHa].
    pose proof (simplify_raw_good (ANeg v') IHa) as G. destruct (simplify_raw (ANeg v')) as [[a' c]|e|s]; cbn [bind]; auto.
  - cbn [simplify]. unfold deep_un. destruct (simplify a) as [[v' cv]|e|s]; cbn [bind]; [|exact Logic.I|exact IHa].
    pose proof (simplify_raw_good (ANot v') IHa) as G. destruct (simplify_raw (ANot v')) as [[a' c]|e|s]; cbn [bind]; auto.
  - cbn [simplify]. unfold deep_un. destruct (simplify a) as [[v' cv]|e|s]; cbn [bind]; [|exact Logic.I|exact IHa].
    pose proof (simplify_raw_good (AAddr v') IHa) as G. destruct (simplify_raw (AAddr v')) as [[a' c]|e|s]; cbn [bind]; auto.
  - rewrite simplify_seq.
    assert (NP : forall s, deep_list simplify l <> Panic s).
    { apply deep_list_np. eapply Forall_impl; [|exact H]. intros a G. apply good_np. exact G. }
    destruct (deep_list simplify l) as [[l' c]|e|s]; cbn [bind good]; auto. exact (NP s eq_refl).
  - rewrite simplify_fun.
    assert (NP : forall s, deep_list simplify l <> Panic s).
    { apply deep_list_np. eapply Forall_impl; [|exact H]. intros a G. apply good_np. exact G. }
    destruct (deep_list simplify l) as [[l' c]|e|s]; cbn [bind good]; auto. exact (NP s eq_refl).
Qed.

Lemma evaluate_mk lk ir op l r :
  evaluate lk ir (mk_bin op l r) = eval_bin op (evaluate lk ir l) (evaluate lk ir r).
Proof. destruct op; reflexivity. Qed.

Fixpoint eval_list (f : arg -> outcome (arg * evaluation)) (l : list arg) (acc : evaluation) : outcome (list arg * evaluation) :=
  match l with [] => Ok ([], acc) | x :: xs => eval_cons (f x) (eval_list f xs) acc end.

Lemma evaluate_seq lk ir l :
  evaluate lk ir (ASeq l) = bind (eval_list (evaluate lk ir) l (Complete false)) (fun '(l', e) => Ok (ASeq l', e)).
Proof.
  cbn [evaluate]. f_equal. generalize (Complete false).
  induction l as [|x xs IH]; intros acc; cbn [eval_list]; [reflexivity|]. unfold eval_cons.
  destruct (evaluate lk ir x) as [[x' e]|e|s]; cbn [bind]; [rewrite IH|..]; reflexivity.
Qed.
Lemma evaluate_fun lk ir n l :
  evaluate lk ir (AFun n l) = bind (eval_list (evaluate lk ir) l (Complete false)) (fun '(l', e) => Ok (AFun n l', e)).
Proof.
  cbn [evaluate]. f_equal. generalize (Complete false).
  induction l as [|x xs IH]; intros acc; cbn [eval_list]; [reflexivity|]. unfold eval_cons.
  destruct (evaluate lk ir x) as [[x' e]|e|s]; cbn [bind]; [rewrite IH|..]; reflexivity.
Qed.

Lemma eval_list_np f l : Forall (fun a => forall s, f a <> Panic s) l -> forall acc s, eval_list f l acc <> Panic s.
Proof.
  induction 1 as [|x xs Hx _ IH]; intros acc s; cbn [eval_list]; [discriminate|].
  unfold eval_cons. destruct (f x) as [[x' c]|e|s'] eqn:E; cbn [bind]; [|discriminate|exfalso; exact (Hx s' eq_refl)].
  destruct (eval_list f xs (ev_or acc c)) as [[xs' cs]|e|s'] eqn:E2; cbn [bind]; [discriminate|discriminate|exfalso; exact (IH _ s' E2)].
Qed.

Lemma eval_node_good a ev : cinv a = true -> good (eval_node a ev).
Proof.
  intros CI. unfold eval_node. pose proof (simplify_raw_good a CI) as G.
  destruct (simplify_raw a) as [[a' c]|e|s]; cbn [bind]; auto.
Qed.

Lemma evaluate_good lk ir a : good (evaluate lk ir a).
Proof.
  induction a using arg_ind'.
  - cbn. reflexivity.
  - cbn [evaluate]. destruct (negb (ir s)); [|reflexivity]. destruct (lk s); cbn; auto.
  - cbn. reflexivity.
  - rewrite evaluate_mk. unfold eval_bin.
    destruct (evaluate lk ir a1) as [[l' el]|e|s]; cbn [bind]; [|exact Logic.I|exact IHa1].
    destruct (evaluate lk ir a2) as [[r' er]|e|s]; cbn [bind]; [|exact Logic.I|exact IHa2].
    apply eval_node_good. unfold cinv. rewrite bin_view_mk. cbn in IHa1, IHa2. rewrite IHa1, IHa2. reflexivity.
  - cbn [evaluate]. unfold eval_un. destruct (evaluate lk ir a) as [[v' e']|e|s]; cbn [bind]; [|exact Logic.I|exact IHa].
    apply eval_node_good. exact IHa.
  - cbn [evaluate]. unfold eval_un. destruct (evaluate lk ir a) as [[v' e']|e|s]; cbn [bind]; [|exact Logic.I|exact IHa].
    apply eval_node_good. exact IHa.
  - cbn [evaluate]. unfold eval_un. destruct (evaluate lk ir a) as [[v' e']|e|s]; cbn [bind]; [|exact Logic.I|exact IHa].
    apply eval_node_good. exact IHa.
  - rewrite evaluate_seq.
    assert (NP : forall acc s, eval_list (evaluate lk ir) l acc <> Panic s).
    { apply eval_list_np. eapply Forall_impl; [|exact H]. intros a G. apply good_np. exact G. }
    destruct (eval_list (evaluate lk ir) l (Complete false)) as [[l' c]|e|s] eqn:E; cbn [bind good]; auto. exact (NP _ s E).
  - rewrite evaluate_fun.
    assert (NP : forall acc s, eval_list (evaluate lk ir) l acc <> Panic s).
    { apply eval_list_np. eapply Forall_impl; [|exact H]. intros a G. apply good_np. exact G. }
    destruct (eval_list (evaluate lk ir) l (Complete false)) as [[l' c]|e|s] eqn:E; cbn [bind good]; auto. exact (NP _ s E).
Qed.

(* ------------------------------------------------------------------ the statement *)
Theorem no_panic : forall e,
  (forall s, simplify e <> Panic s) /\ (forall s, neutralize e <> Panic s) /\
  (forall lookup is_register s, evaluate lookup is_register e <> Panic s).
Proof.
  intros e. split; [|split].
  - apply good_np. apply simplify_good.
  - apply neutralize_np.
  - intros lk ir. apply good_np. apply evaluate_good.
Qed.
