(* Model of src/asm/simplify/eval.rs: evaluate.  The constant table (Context::get_constant in the realm chosen by
   has_curr_file) and InstructionSet::is_register are plain function arguments.  Model file: no proofs. *)
From Coq Require Import ZArith List Bool.
From Trion Require Import Text.Types Expr.I64 Expr.SimplifyModel.
Import ListNotations.
Open Scope Z_scope.

(* asm/constant.rs: Lookup *)
Inductive lookup_res := Found (v : Z) | LDeferred | NotFound.

(* eval.rs: Evaluation *)
Inductive evaluation := Complete (changed : bool) | Deferred (changed : bool) (cause : str).

(* impl BitOr for Evaluation: the first deferral cause wins *)
Definition ev_or (a b : evaluation) : evaluation :=
  match a, b with
  | Complete ca, Complete cb => Complete (ca || cb)
  | Deferred ca cause, Complete cb => Deferred (ca || cb) cause
  | Complete ca, Deferred cb cause => Deferred (ca || cb) cause
  | Deferred ca cause, Deferred cb _ => Deferred (ca || cb) cause
  end.

Definition eval_node (mk_node : arg) (ev : evaluation) : outcome (arg * evaluation) :=
  bind (simplify_raw mk_node) (fun '(a', c) => Ok (a', ev_or ev (Complete c))).

Definition eval_bin (op : binop) (rl rr : outcome (arg * evaluation)) : outcome (arg * evaluation) :=
  bind rl (fun '(l', el) => bind rr (fun '(r', er) => eval_node (mk_bin op l' r') (ev_or el er))).

Definition eval_un (mk : arg -> arg) (rv : outcome (arg * evaluation)) : outcome (arg * evaluation) :=
  bind rv (fun '(v', e) => eval_node (mk v') e).

(* try_fold(Complete{false}, |c, a| c | evaluate(a)) *)
Definition eval_cons (rx : outcome (arg * evaluation)) (rxs : evaluation -> outcome (list arg * evaluation))
    (acc : evaluation) : outcome (list arg * evaluation) :=
  bind rx (fun '(x', e) => bind (rxs (ev_or acc e)) (fun '(xs', e') => Ok (x' :: xs', e'))).

Fixpoint evaluate (lookup : str -> lookup_res) (is_register : str -> bool) (a : arg) : outcome (arg * evaluation) :=
  match a with
  | AConst _ => Ok (a, Complete false)
  | AIdent name =>
      if negb (is_register name) then
        match lookup name with
        | NotFound => Err ENoSuchVariable
        | LDeferred => Ok (a, Deferred false name)
        | Found v => Ok (AConst v, Complete true)
        end
      else Ok (a, Complete false)
  | AStr _ => Ok (a, Complete false)
  | ASeq items =>
      bind ((fix go (l : list arg) (acc : evaluation) : outcome (list arg * evaluation) :=
               match l with [] => Ok ([], acc)
               | x :: xs => eval_cons (evaluate lookup is_register x) (go xs) acc end) items (Complete false))
           (fun '(items', e) => Ok (ASeq items', e))
  | AFun name args =>
      bind ((fix go (l : list arg) (acc : evaluation) : outcome (list arg * evaluation) :=
               match l with [] => Ok ([], acc)
               | x :: xs => eval_cons (evaluate lookup is_register x) (go xs) acc end) args (Complete false))
           (fun '(args', e) => Ok (AFun name args', e))
  | AAdd l r => eval_bin OpAdd (evaluate lookup is_register l) (evaluate lookup is_register r)
  | ASub l r => eval_bin OpSubtract (evaluate lookup is_register l) (evaluate lookup is_register r)
  | AMul l r => eval_bin OpMultiply (evaluate lookup is_register l) (evaluate lookup is_register r)
  | ADiv l r => eval_bin OpDivide (evaluate lookup is_register l) (evaluate lookup is_register r)
  | AMod l r => eval_bin OpModulo (evaluate lookup is_register l) (evaluate lookup is_register r)
  | AAnd l r => eval_bin OpBitAnd (evaluate lookup is_register l) (evaluate lookup is_register r)
  | AOr l r => eval_bin OpBitOr (evaluate lookup is_register l) (evaluate lookup is_register r)
  | AXor l r => eval_bin OpBitXor (evaluate lookup is_register l) (evaluate lookup is_register r)
  | AShl l r => eval_bin OpLeftShift (evaluate lookup is_register l) (evaluate lookup is_register r)
  | AShr l r => eval_bin OpRightShift (evaluate lookup is_register l) (evaluate lookup is_register r)
  | ANeg v => eval_un ANeg (evaluate lookup is_register v)
  | ANot v => eval_un ANot (evaluate lookup is_register v)
  | AAddr v => eval_un AAddr (evaluate lookup is_register v)
  end.
