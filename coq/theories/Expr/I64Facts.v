(* Integer facts behind C07/C08: ranges of the checked operations, bitwise operations on the signed range. *)
From Coq Require Import ZArith Lia Bool.
From Trion Require Import Text.Types Expr.I64.
Open Scope Z_scope.

Lemma in_i64_iff z : in_i64 z = true <-> -9223372036854775808 <= z <= 9223372036854775807.
Proof. unfold in_i64, i64_min, i64_max. rewrite andb_true_iff, !Z.leb_le. reflexivity. Qed.

Lemma in_i64_false z : in_i64 z = false <-> ~ (-9223372036854775808 <= z <= 9223372036854775807).
Proof. rewrite <- in_i64_iff. destruct (in_i64 z); split; intros; congruence. Qed.

Lemma pow63 : 2 ^ 63 = 9223372036854775808. Proof. reflexivity. Qed.

(* ---- bits of numbers in a signed range ---- *)
Lemma small_bits n x : 0 <= n -> 0 <= x -> (x < 2^n <-> forall k, n <= k -> Z.testbit x k = false).
Proof.
  intros Hn Hx. split.
  - intros Hlt k Hk. destruct (Z.eq_dec x 0) as [->|Hne]; [apply Z.bits_0|].
    apply Z.bits_above_log2; [lia|]. assert (Z.log2 x < n) by (apply Z.log2_lt_pow2; lia). lia.
  - intros Hb. assert (E : x = x mod 2^n).
    { apply Z.bits_inj'. intros m Hm. rewrite Z.testbit_mod_pow2 by lia.
      destruct (m <? n) eqn:C; cbn [andb]; [reflexivity|]. apply Hb. lia. }
    rewrite E. apply Z.mod_pos_bound. lia.
Qed.

(* x in [-2^n, 2^n) iff all bits from n upward equal the sign *)
Lemma range_bits n x : 0 <= n -> (- 2^n <= x < 2^n <-> forall k, n <= k -> Z.testbit x k = (x <? 0)).
Proof.
  intros Hn. destruct (x <? 0) eqn:S.
  - apply Z.ltb_lt in S. assert (Hy : 0 <= Z.lnot x) by (unfold Z.lnot; lia).
    pose proof (small_bits n (Z.lnot x) Hn Hy) as P.
    split.
    + intros R k Hk. assert (L : Z.lnot x < 2^n) by (unfold Z.lnot; lia).
      pose proof (proj1 P L k Hk) as B. rewrite Z.lnot_spec in B by lia. now apply negb_false_iff in B.
    + intros B. assert (L : Z.lnot x < 2^n).
      { apply P. intros k Hk. rewrite Z.lnot_spec by lia. rewrite B by lia. reflexivity. }
      unfold Z.lnot in L. lia.
  - apply Z.ltb_ge in S. pose proof (small_bits n x Hn S) as P. split.
    + intros R. apply P. lia.
    + intros B. assert (x < 2^n) by (apply P; exact B). lia.
Qed.

Lemma land_sign x y : (Z.land x y <? 0) = (x <? 0) && (y <? 0).
Proof.
  pose proof (Z.land_neg x y). destruct (Z.land x y <? 0) eqn:A, (x <? 0) eqn:B, (y <? 0) eqn:C; try reflexivity;
  rewrite ?Z.ltb_lt, ?Z.ltb_ge in *; lia.
Qed.
Lemma lor_sign x y : (Z.lor x y <? 0) = (x <? 0) || (y <? 0).
Proof.
  pose proof (Z.lor_neg x y). destruct (Z.lor x y <? 0) eqn:A, (x <? 0) eqn:B, (y <? 0) eqn:C; try reflexivity;
  rewrite ?Z.ltb_lt, ?Z.ltb_ge in *; lia.
Qed.
Lemma lxor_sign x y : (Z.lxor x y <? 0) = xorb (x <? 0) (y <? 0).
Proof.
  pose proof (Z.lxor_nonneg x y). destruct (Z.lxor x y <? 0) eqn:A, (x <? 0) eqn:B, (y <? 0) eqn:C; try reflexivity;
  rewrite ?Z.ltb_lt, ?Z.ltb_ge in *; lia.
Qed.

Lemma land_range n x y : 0 <= n -> - 2^n <= x < 2^n -> - 2^n <= y < 2^n -> - 2^n <= Z.land x y < 2^n.
Proof.
  intros Hn Hx Hy. apply (range_bits n _ Hn). intros k Hk.
  rewrite Z.land_spec, land_sign, (proj1 (range_bits n x Hn) Hx k Hk), (proj1 (range_bits n y Hn) Hy k Hk). reflexivity.
Qed.
Lemma lor_range n x y : 0 <= n -> - 2^n <= x < 2^n -> - 2^n <= y < 2^n -> - 2^n <= Z.lor x y < 2^n.
Proof.
  intros Hn Hx Hy. apply (range_bits n _ Hn). intros k Hk.
  rewrite Z.lor_spec, lor_sign, (proj1 (range_bits n x Hn) Hx k Hk), (proj1 (range_bits n y Hn) Hy k Hk). reflexivity.
Qed.
Lemma lxor_range n x y : 0 <= n -> - 2^n <= x < 2^n -> - 2^n <= y < 2^n -> - 2^n <= Z.lxor x y < 2^n.
Proof.
  intros Hn Hx Hy. apply (range_bits n _ Hn). intros k Hk.
  rewrite Z.lxor_spec, lxor_sign, (proj1 (range_bits n x Hn) Hx k Hk), (proj1 (range_bits n y Hn) Hy k Hk). reflexivity.
Qed.

Lemma in_i64_pow z : in_i64 z = true <-> - 2^63 <= z < 2^63.
Proof. rewrite in_i64_iff, pow63. lia. Qed.

Lemma land_i64 x y : in_i64 x = true -> in_i64 y = true -> in_i64 (Z.land x y) = true.
Proof. rewrite !in_i64_pow. apply land_range. lia. Qed.
Lemma lor_i64 x y : in_i64 x = true -> in_i64 y = true -> in_i64 (Z.lor x y) = true.
Proof. rewrite !in_i64_pow. apply lor_range. lia. Qed.
Lemma lxor_i64 x y : in_i64 x = true -> in_i64 y = true -> in_i64 (Z.lxor x y) = true.
Proof. rewrite !in_i64_pow. apply lxor_range. lia. Qed.
Lemma lnot_i64 x : in_i64 x = true -> in_i64 (Z.lnot x) = true.
Proof. rewrite !in_i64_iff. unfold Z.lnot. lia. Qed.

(* ---- quotient / remainder / shifts stay in range ---- *)
Lemma quot_i64 a b : in_i64 a = true -> b <> 0 -> ~ (a = i64_min /\ b = -1) -> in_i64 (Z.quot a b) = true.
Proof.
  rewrite !in_i64_iff. unfold i64_min. intros Ha Hb Hn.
  assert (A : Z.abs (Z.quot a b) <= Z.abs a).
  { rewrite <- Z.quot_abs by lia. destruct (Z.eq_dec (Z.abs b) 1) as [E|E].
    - rewrite E, Z.quot_1_r. lia.
    - destruct (Z.eq_dec a 0) as [->|]; [cbn; lia|]. apply Z.lt_le_incl, Z.quot_lt; lia. }
  destruct (Z.eq_dec a (-9223372036854775808)) as [E|E]; [|lia].
  subst a. assert (b <> -1) by lia.
  destruct (Z.eq_dec b 1) as [->|]; [rewrite Z.quot_1_r; lia|].
  assert (Z.abs (Z.quot (-9223372036854775808) b) < Z.abs (-9223372036854775808)).
  { rewrite <- Z.quot_abs by lia. apply Z.quot_lt; lia. }
  lia.
Qed.

Lemma rem_i64 a b : in_i64 b = true -> b <> 0 -> in_i64 (Z.rem a b) = true.
Proof. rewrite !in_i64_iff. intros Hb Hz. pose proof (Z.rem_bound_abs a b Hz). lia. Qed.

Lemma wrap64_i64 z : in_i64 (wrap64 z) = true.
Proof.
  rewrite in_i64_iff. unfold wrap64.
  pose proof (Z.mod_pos_bound (z + 9223372036854775808) 18446744073709551616 eq_refl). lia.
Qed.

Lemma wrap64_id z : in_i64 z = true -> wrap64 z = z.
Proof. rewrite in_i64_iff. intros H. unfold wrap64. rewrite Z.mod_small by lia. lia. Qed.

Lemma shiftr_i64 a s : in_i64 a = true -> 0 <= s -> in_i64 (Z.shiftr a s) = true.
Proof.
  rewrite !in_i64_iff. intros Ha Hs. rewrite Z.shiftr_div_pow2 by lia.
  assert (P : 0 < 2 ^ s) by (apply Z.pow_pos_nonneg; lia). split.
  - apply Z.div_le_lower_bound; [exact P|]. nia.
  - apply Z.div_le_upper_bound; [exact P|]. nia.
Qed.
