(* Model of src/asm/simplify/mod.rs (after the fix: commits for F9, F10, F11): neutralize_raw, neutralize,
   simplify_raw (with the nested search, the constant merge and the splice), simplify.
   `&mut Argument` becomes a returned tree; the `&mut` that `search` returns becomes a path.
   Model file: no proofs.

   Panic sites:  1 = assert!(!lhs_const || !rhs_const) in search, chain arm (mod.rs:280)
                 2 = the same assert in the Divide arm (mod.rs:317)
                 3 = `_ => unreachable!()` selecting the constant child of the found node (mod.rs:346, :365)
                 4 = `let Argument::Constant(..) = .. else {unreachable!()}` (mod.rs:373-374)
                 5 = `_ => unreachable!()` of the merge operator table (mod.rs:405)
                 6 = `_ => unreachable!()` of the splice (mod.rs:419, :441)
                 7 = a path that does not exist in the tree (cannot happen in Rust: the `&mut` is the node) *)
From Coq Require Import ZArith List Bool.
From Trion Require Import Text.Types Expr.I64.
Import ListNotations.
Open Scope Z_scope.

(* ------------------------------------------------------------------ neutralize_raw (mod.rs:50-154) *)

(* the `while` loop: Add{l, Negate n} -> Subtract{l, n} -> (n = Negate m) Add{l, m} ... ; returns (parity, innermost) *)
Fixpoint strip_negs (flip : bool) (r : arg) : bool * arg :=
  match r with ANeg n => strip_negs (negb flip) n | _ => (flip, r) end.

Definition flip_addsub (op : binop) : binop :=
  match op with OpAdd => OpSubtract | OpSubtract => OpAdd | o => o end.

Definition neut_step1 (a : arg) : arg * bool :=
  match bin_view a with
  | Some (op, l, r) =>
      if is_addsub op then
        match r with
        | ANeg _ => let '(f, r') := strip_negs false r in (mk_bin (if f then flip_addsub op else op) l r', true)
        | _ => (a, false)
        end
      else (a, false)
  | None => (a, false)
  end.

(* "final pass which normalizes addition or subtraction of a negative constant" *)
Definition neut_step2 (a : arg) : outcome (arg * bool) :=
  match bin_view a with
  | Some (op, l, r) =>
      match const_val r with
      | Some v =>
          if is_addsub op && (v <? 0) then
            match checked_neg v with
            | None => Err (EOverflow OvNegate)
            | Some nv => Ok (mk_bin (flip_addsub op) l (AConst nv), true)
            end
          else Ok (a, false)
      | None => Ok (a, false)
      end
  | None => Ok (a, false)
  end.

(* (neutral, neut_rhs); Modulo has no neutral element any more (fix F10: x % 1 is 0, not x) *)
Definition neutral_table (op : binop) : option Z * option Z :=
  match op with
  | OpAdd => (Some 0, Some 0)
  | OpSubtract => (None, Some 0)
  | OpMultiply => (Some 1, Some 1)
  | OpDivide => (None, Some 1)
  | OpModulo => (None, None)
  | OpBitAnd => (Some (-1), Some (-1))
  | OpBitOr => (Some 0, Some 0)
  | OpBitXor => (Some 0, Some 0)
  | OpLeftShift | OpRightShift => (None, Some 0)
  end.

Definition opt_is (v : Z) (o : option Z) : bool := match o with Some n => v =? n | None => false end.

(* "main neutralization operation" *)
Definition neut_main (a : arg) : outcome arg :=
  match bin_view a with
  | Some (op, l, r) =>
      if bad_operand l then Err EBadType
      else if bad_operand r then Err EBadType
      else
        match const_val l with
        | Some v =>
            if opt_is v (fst (neutral_table op)) then Ok r
            else if is_sub op && (v =? 0) then Ok (ANeg r)
            else Ok a
        | None =>
            match const_val r with
            | Some v => if opt_is v (snd (neutral_table op)) then Ok l else Ok a
            | None => Ok a
            end
        end
  | None => Ok a
  end.

(* the returned flag only reflects the first two passes, as in the code *)
Definition neutralize_raw (a : arg) : outcome (arg * bool) :=
  let '(a1, c1) := neut_step1 a in
  bind (neut_step2 a1) (fun '(a2, c2) =>
  bind (neut_main a2) (fun a3 => Ok (a3, c1 || c2))).

(* ------------------------------------------------------------------ neutralize (mod.rs:156-171) *)

(* children first (lhs, then rhs; the first error wins), then the node itself *)
Definition deep_bin (raw : arg -> outcome (arg * bool)) (op : binop) (rl rr : outcome (arg * bool)) : outcome (arg * bool) :=
  bind rl (fun '(l', cl) => bind rr (fun '(r', cr) =>
  bind (raw (mk_bin op l' r')) (fun '(a', c) => Ok (a', cl || cr || c)))).

Definition deep_un (raw : arg -> outcome (arg * bool)) (mk : arg -> arg) (rv : outcome (arg * bool)) : outcome (arg * bool) :=
  bind rv (fun '(v', cv) => bind (raw (mk v')) (fun '(a', c) => Ok (a', cv || c))).

(* try_fold over a Vec: first error wins; `return` skips the raw step *)
Definition deep_cons (rx : outcome (arg * bool)) (rxs : outcome (list arg * bool)) : outcome (list arg * bool) :=
  bind rx (fun '(x', c) => bind rxs (fun '(xs', cs) => Ok (x' :: xs', c || cs))).

Fixpoint neutralize (a : arg) : outcome (arg * bool) :=
  match a with
  | AAdd l r => deep_bin neutralize_raw OpAdd (neutralize l) (neutralize r)
  | ASub l r => deep_bin neutralize_raw OpSubtract (neutralize l) (neutralize r)
  | AMul l r => deep_bin neutralize_raw OpMultiply (neutralize l) (neutralize r)
  | ADiv l r => deep_bin neutralize_raw OpDivide (neutralize l) (neutralize r)
  | AMod l r => deep_bin neutralize_raw OpModulo (neutralize l) (neutralize r)
  | AAnd l r => deep_bin neutralize_raw OpBitAnd (neutralize l) (neutralize r)
  | AOr l r => deep_bin neutralize_raw OpBitOr (neutralize l) (neutralize r)
  | AXor l r => deep_bin neutralize_raw OpBitXor (neutralize l) (neutralize r)
  | AShl l r => deep_bin neutralize_raw OpLeftShift (neutralize l) (neutralize r)
  | AShr l r => deep_bin neutralize_raw OpRightShift (neutralize l) (neutralize r)
  | ANeg v => deep_un neutralize_raw ANeg (neutralize v)
  | ANot v => deep_un neutralize_raw ANot (neutralize v)
  | AAddr v => deep_un neutralize_raw AAddr (neutralize v)
  | ASeq items =>
      bind ((fix go (l : list arg) : outcome (list arg * bool) :=
               match l with [] => Ok ([], false) | x :: xs => deep_cons (neutralize x) (go xs) end) items)
           (fun '(items', c) => Ok (ASeq items', c))
  | AFun name args =>
      bind ((fix go (l : list arg) : outcome (list arg * bool) :=
               match l with [] => Ok ([], false) | x :: xs => deep_cons (neutralize x) (go xs) end) args)
           (fun '(args', c) => Ok (AFun name args', c))
  | _ => bind (neutralize_raw a) (fun '(a', c) => Ok (a', false || c))
  end.

(* ------------------------------------------------------------------ paths (the `&mut` returned by search) *)

Inductive dir := DL | DR.

Definition child (d : dir) (a : arg) : option arg :=
  match bin_view a with
  | Some (_, l, r) => Some (match d with DL => l | DR => r end)
  | None => match a, d with ANeg x, DL => Some x | _, _ => None end
  end.

Definition with_child (d : dir) (c : arg) (a : arg) : arg :=
  match bin_view a with
  | Some (op, l, r) => match d with DL => mk_bin op c r | DR => mk_bin op l c end
  | None => match a with ANeg _ => ANeg c | _ => a end
  end.

Fixpoint get (p : list dir) (a : arg) : option arg :=
  match p with
  | [] => Some a
  | d :: p' => match child d a with Some c => get p' c | None => None end
  end.

Fixpoint set (p : list dir) (v : arg) (a : arg) : option arg :=
  match p with
  | [] => Some v
  | d :: p' =>
      match child d a with
      | Some c => match set p' v c with Some c' => Some (with_child d c' a) | None => None end
      | None => None
      end
  end.

(* ------------------------------------------------------------------ search (mod.rs:265-332) *)

Definition found := option (list dir * bool).

Definition chain_ok (ty cty : binop) : bool := binop_eqb ty cty || (is_addsub ty && is_addsub cty).

Definition under (d : dir) (o : outcome found) : outcome found :=
  match o with Ok (Some (p, i)) => Ok (Some (d :: p, i)) | o' => o' end.

(* one visit of an Add/Subtract/Multiply/BitAnd/BitOr/BitXor node; sl = the recursive call on lhs,
   sr = the continued loop on rhs with the updated inversion *)
Definition search_chain (ty cty : binop) (l r : arg) (invert : bool)
    (sl : unit -> outcome found) (sr : bool -> outcome found) : outcome found :=
  if chain_ok ty cty then
    let lc := is_const l in
    let rc := is_const r in
    if lc && rc then Panic 1
    else if lc || rc then Ok (Some ([], xorb invert (is_sub cty && rc)))
    else
      match sl tt with
      | Ok None => under DR (sr (xorb invert (is_sub cty)))
      | o => under DL o
      end
  else Ok None.

Definition search_div (ty : binop) (l r : arg) (invert : bool) (sl : unit -> outcome found) : outcome found :=
  if is_div ty then
    let lc := is_const l in
    let rc := is_const r in
    if lc && rc then Panic 2
    else if lc || rc then Ok (Some ([], xorb invert rc))
    else under DL (sl tt)
  else Ok None.

Fixpoint search (ty : binop) (curr : arg) (invert : bool) {struct curr} : outcome found :=
  match curr with
  | AAdd l r => search_chain ty OpAdd l r invert (fun _ => search ty l invert) (fun i => search ty r i)
  | ASub l r => search_chain ty OpSubtract l r invert (fun _ => search ty l invert) (fun i => search ty r i)
  | AMul l r => search_chain ty OpMultiply l r invert (fun _ => search ty l invert) (fun i => search ty r i)
  | AAnd l r => search_chain ty OpBitAnd l r invert (fun _ => search ty l invert) (fun i => search ty r i)
  | AOr l r => search_chain ty OpBitOr l r invert (fun _ => search ty l invert) (fun i => search ty r i)
  | AXor l r => search_chain ty OpBitXor l r invert (fun _ => search ty l invert) (fun i => search ty r i)
  | ANeg v => if is_addsub ty then under DL (search ty v (negb invert)) else Ok None
  | ADiv l r => search_div ty l r invert (fun _ => search ty l invert)
  | _ => Ok None
  end.

(* ------------------------------------------------------------------ simplify_raw (mod.rs:173-503) *)

(* node kinds the selection of the constant child accepts (mod.rs:341, :360) *)
Definition selectable (op : binop) : bool :=
  match op with OpAdd | OpSubtract | OpMultiply | OpDivide | OpBitAnd | OpBitOr | OpBitXor => true | _ => false end.

(* path, relative to the found node, of its constant child *)
Definition const_child_path (n : arg) : outcome (list dir) :=
  match n with
  | AConst _ => Ok []
  | _ =>
      match bin_view n with
      | Some (op, l, _) => if selectable op then Ok (if is_const l then [DL] else [DR]) else Panic 3
      | None => Panic 3
      end
  end.

(* "apply the rhs value to lhs' operation"; the three bitwise arms are the fix for F9 *)
Definition merge_val (op : binop) (lhs_inv rhs_inv : bool) (lv rv : Z) : outcome Z :=
  match op with
  | OpAdd | OpSubtract =>
      if xorb lhs_inv rhs_inv then of_opt OvSubtract (checked_sub lv rv) else of_opt OvAdd (checked_add lv rv)
  | OpMultiply => of_opt OvMultiply (checked_mul lv rv)
  | OpDivide => if lhs_inv then of_opt OvMultiply (checked_mul lv rv) else of_opt OvDivide (checked_div lv rv)
  | OpBitAnd => Ok (Z.land lv rv)
  | OpBitOr => Ok (Z.lor lv rv)
  | OpBitXor => Ok (Z.lxor lv rv)
  | _ => Panic 5
  end.

(* "splice out the rhs constant argument": what the found node is replaced by *)
Definition splice_node (n : arg) : outcome arg :=
  match n with
  | AAdd l r | AMul l r | AAnd l r | AOr l r | AXor l r => Ok (if is_const l then r else l)
  | ASub l r => if is_const l then Ok (ANeg r) else Ok l
  | _ => Panic 6
  end.

(* locate the mergeable constant of one side: Some (path of the node, path of the constant, inversion) *)
Definition locate (side : arg) (s : found) : outcome (option (list dir * list dir * bool)) :=
  match s with
  | None => Ok None
  | Some (p, inv) =>
      match get p side with
      | None => Panic 7
      | Some n => bind (const_child_path n) (fun d => Ok (Some (p, p ++ d, inv)))
      end
  end.

Definition simplify_merge (op : binop) (l r : arg) : outcome (arg * bool) :=
  let a := mk_bin op l r in
  bind (if is_const l then Ok (Some ([], false)) else search op l false) (fun ls =>
  bind (locate l ls) (fun lhs_c =>
  let rhs_pre_inv := is_sub op || is_div op in
  bind (if is_const r then Ok (Some ([], rhs_pre_inv)) else if is_div op then Ok None else search op r rhs_pre_inv) (fun rs =>
  bind (locate r rs) (fun rhs_c =>
  match lhs_c, rhs_c with
  | Some (_, pl, lhs_inv), Some (pra, prc, rhs_inv) =>
      match get pl l, get prc r with
      | Some (AConst lv), Some (AConst rv) =>
          bind (merge_val op lhs_inv rhs_inv lv rv) (fun nv =>
          match set pl (AConst nv) l, get pra r with
          | Some l', Some ra =>
              bind (match ra with
                    | AConst _ => Ok l'                       (* rhs itself is the constant: arg := lhs *)
                    | _ => bind (splice_node ra) (fun n' =>
                           match set pra n' r with Some r' => Ok (mk_bin op l' r') | None => Panic 7 end)
                    end) (fun a' =>
              (* "deep neutralization because we've changed lhs and rhs" *)
              bind (neutralize a') (fun '(a'', _) => Ok (a'', true)))
          | _, _ => Panic 7
          end)
      | _, _ => Panic 4
      end
  | _, _ => neutralize_raw a
  end)))).

(* nested modulo: (x % y) % z -> x % y; sound only for 0 < y <= z (fix F11) *)
Definition mod_collapse (l r : arg) : bool :=
  match const_val r with
  | Some divisor =>
      match l with
      | AMod _ lrhs => match const_val lrhs with Some inner => (0 <? inner) && (inner <=? divisor) | None => false end
      | _ => false
      end
  | None => false
  end.

Definition simplify_raw (a : arg) : outcome (arg * bool) :=
  match bin_view a with
  | Some (op, l, r) =>
      if bad_operand l then Err EBadType
      else if bad_operand r then Err EBadType
      else
        match const_val l, const_val r with
        | Some lv, Some rv => bind (fold_const op lv rv) (fun v => Ok (AConst v, true))
        | _, _ =>
            match op with
            | OpModulo => if mod_collapse l r then Ok (l, true) else neutralize_raw a
            | OpLeftShift | OpRightShift => neutralize_raw a
            | _ => simplify_merge op l r
            end
        end
  | None =>
      match a with
      | ANeg v =>
          match v with
          | ASub l r => Ok (ASub r l, true)
          | AConst c => if c =? i64_min then Err (EOverflow OvNegate) else Ok (AConst (- c), true)
          | AStr _ | AAddr _ | ASeq _ => Err EBadType
          | _ => Ok (a, false)
          end
      | ANot v =>
          match v with
          | AConst c => Ok (AConst (Z.lnot c), true)
          | AStr _ | AAddr _ | ASeq _ => Err EBadType
          | _ => Ok (a, false)
          end
      | AAddr v => if bad_operand v then Err EBadType else Ok (a, false)
      | _ => Ok (a, false)
      end
  end.

(* ------------------------------------------------------------------ simplify (mod.rs:505-520) *)

Fixpoint simplify (a : arg) : outcome (arg * bool) :=
  match a with
  | AAdd l r => deep_bin simplify_raw OpAdd (simplify l) (simplify r)
  | ASub l r => deep_bin simplify_raw OpSubtract (simplify l) (simplify r)
  | AMul l r => deep_bin simplify_raw OpMultiply (simplify l) (simplify r)
  | ADiv l r => deep_bin simplify_raw OpDivide (simplify l) (simplify r)
  | AMod l r => deep_bin simplify_raw OpModulo (simplify l) (simplify r)
  | AAnd l r => deep_bin simplify_raw OpBitAnd (simplify l) (simplify r)
  | AOr l r => deep_bin simplify_raw OpBitOr (simplify l) (simplify r)
  | AXor l r => deep_bin simplify_raw OpBitXor (simplify l) (simplify r)
  | AShl l r => deep_bin simplify_raw OpLeftShift (simplify l) (simplify r)
  | AShr l r => deep_bin simplify_raw OpRightShift (simplify l) (simplify r)
  | ANeg v => deep_un simplify_raw ANeg (simplify v)
  | ANot v => deep_un simplify_raw ANot (simplify v)
  | AAddr v => deep_un simplify_raw AAddr (simplify v)
  | ASeq items =>
      bind ((fix go (l : list arg) : outcome (list arg * bool) :=
               match l with [] => Ok ([], false) | x :: xs => deep_cons (simplify x) (go xs) end) items)
           (fun '(items', c) => Ok (ASeq items', c))
  | AFun name args =>
      bind ((fix go (l : list arg) : outcome (list arg * bool) :=
               match l with [] => Ok ([], false) | x :: xs => deep_cons (simplify x) (go xs) end) args)
           (fun '(args', c) => Ok (AFun name args', c))
  | _ => bind (simplify_raw a) (fun '(a', c) => Ok (a', false || c))
  end.
