(* The oracles of C07 and C08.  Spec file: executable, no proofs.
   (a) ideal : what the property text of C07 says about a literal expression, over unbounded Z.
   (b) den64 : the compositional checked 64-bit value of an expression under an assignment of identifiers. *)
From Coq Require Import ZArith List Bool.
From Trion Require Import Text.Types Expr.I64.
Import ListNotations.
Open Scope Z_scope.

(* ------------------------------------------------------------------ (a) ideal *)

Inductive ideal_result := Val (z : Z) | Error | Open.

(* "whenever every intermediate result fits a signed 64-bit integer" / "leaves that range ... reports an error" *)
Definition arith (z : Z) : ideal_result :=
  if (-(2^63) <=? z) && (z <? 2^63) then Val z else Error.

(* Open (no claim) is absorbing; otherwise an error in either operand is an error *)
Definition ideal2 (f : Z -> Z -> ideal_result) (a b : ideal_result) : ideal_result :=
  match a, b with
  | Open, _ | _, Open => Open
  | Error, _ | _, Error => Error
  | Val x, Val y => f x y
  end.

Definition ideal1 (f : Z -> ideal_result) (a : ideal_result) : ideal_result :=
  match a with Open => Open | Error => Error | Val x => f x end.

Definition ideal_div (x y : Z) : ideal_result := if y =? 0 then Error else arith (Z.quot x y).
(* the remainder of the minimum value by -1 is left open *)
Definition ideal_rem (x y : Z) : ideal_result :=
  if y =? 0 then Error else if (x =? -(2^63)) && (y =? -1) then Open else Val (Z.rem x y).
(* shifts of a non-negative value by 0-63 scale by a power of two; negative operand / result reaching bit 63: open *)
Definition ideal_shl (x s : Z) : ideal_result :=
  if (s <? 0) || (64 <=? s) then Error
  else if (0 <=? x) && (x * 2 ^ s <? 2^63) then Val (x * 2 ^ s) else Open.
Definition ideal_shr (x s : Z) : ideal_result :=
  if (s <? 0) || (64 <=? s) then Error
  else if 0 <=? x then Val (x / 2 ^ s) else Open.

Fixpoint ideal (a : arg) : ideal_result :=
  match a with
  | AConst v => Val v
  | AAdd l r => ideal2 (fun x y => arith (x + y)) (ideal l) (ideal r)
  | ASub l r => ideal2 (fun x y => arith (x - y)) (ideal l) (ideal r)
  | AMul l r => ideal2 (fun x y => arith (x * y)) (ideal l) (ideal r)
  | ADiv l r => ideal2 ideal_div (ideal l) (ideal r)
  | AMod l r => ideal2 ideal_rem (ideal l) (ideal r)
  | AAnd l r => ideal2 (fun x y => Val (Z.land x y)) (ideal l) (ideal r)
  | AOr l r => ideal2 (fun x y => Val (Z.lor x y)) (ideal l) (ideal r)
  | AXor l r => ideal2 (fun x y => Val (Z.lxor x y)) (ideal l) (ideal r)
  | AShl l r => ideal2 ideal_shl (ideal l) (ideal r)
  | AShr l r => ideal2 ideal_shr (ideal l) (ideal r)
  | ANeg v => ideal1 (fun x => arith (- x)) (ideal v)
  | ANot v => ideal1 (fun x => Val (Z.lnot x)) (ideal v)
  | _ => Open       (* not a literal expression: C07 says nothing *)
  end.

(* the trees C07 quantifies over: i64 literals under the twelve operators *)
Fixpoint literal_tree (a : arg) : bool :=
  match a with
  | AConst v => in_i64 v
  | AAdd l r | ASub l r | AMul l r | ADiv l r | AMod l r | AAnd l r | AOr l r | AXor l r | AShl l r | AShr l r =>
      literal_tree l && literal_tree r
  | ANeg v | ANot v => literal_tree v
  | _ => false
  end.

(* ------------------------------------------------------------------ (b) den64 *)

Definition opt_of {A} (o : outcome A) : option A := match o with Ok a => Some a | _ => None end.

(* value of `l op r` in checked i64 arithmetic (I64.fold_const is the operator table of Rust's checked ops) *)
Definition op64 (op : binop) (x y : Z) : option Z := opt_of (fold_const op x y).

Definition opt2 (f : Z -> Z -> option Z) (a b : option Z) : option Z :=
  match a, b with Some x, Some y => f x y | _, _ => None end.

(* rho: the value of an identifier, None for registers, unassigned names.
   Only i64 values are values: a constant or an assignment outside the i64 range denotes nothing. *)
Fixpoint den64 (rho : str -> option Z) (a : arg) : option Z :=
  match a with
  | AConst v => chk v
  | AIdent s => match rho s with Some v => chk v | None => None end
  | AAdd l r => opt2 (op64 OpAdd) (den64 rho l) (den64 rho r)
  | ASub l r => opt2 (op64 OpSubtract) (den64 rho l) (den64 rho r)
  | AMul l r => opt2 (op64 OpMultiply) (den64 rho l) (den64 rho r)
  | ADiv l r => opt2 (op64 OpDivide) (den64 rho l) (den64 rho r)
  | AMod l r => opt2 (op64 OpModulo) (den64 rho l) (den64 rho r)
  | AAnd l r => opt2 (op64 OpBitAnd) (den64 rho l) (den64 rho r)
  | AOr l r => opt2 (op64 OpBitOr) (den64 rho l) (den64 rho r)
  | AXor l r => opt2 (op64 OpBitXor) (den64 rho l) (den64 rho r)
  | AShl l r => opt2 (op64 OpLeftShift) (den64 rho l) (den64 rho r)
  | AShr l r => opt2 (op64 OpRightShift) (den64 rho l) (den64 rho r)
  | ANeg v => match den64 rho v with Some x => checked_neg x | None => None end
  | ANot v => match den64 rho v with Some x => Some (Z.lnot x) | None => None end
  | AStr _ | AAddr _ | ASeq _ | AFun _ _ => None      (* strings, addresses, sequences, calls have no integer value *)
  end.
