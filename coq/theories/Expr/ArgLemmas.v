(* Structural lemmas shared by the C08 proofs: induction over arg (with the nested lists), views, paths. *)
From Coq Require Import ZArith Lia Bool List.
From Trion Require Import Text.Types Expr.I64 Expr.SimplifyModel.
Import ListNotations.
Open Scope Z_scope.

Section ArgInd.
  Variable P : arg -> Prop.
  Hypothesis HC : forall v, P (AConst v).
  Hypothesis HI : forall s, P (AIdent s).
  Hypothesis HS : forall s, P (AStr s).
  Hypothesis HB : forall op l r, P l -> P r -> P (mk_bin op l r).
  Hypothesis HNeg : forall v, P v -> P (ANeg v).
  Hypothesis HNot : forall v, P v -> P (ANot v).
  Hypothesis HAddr : forall v, P v -> P (AAddr v).
  Hypothesis HSeq : forall l, Forall P l -> P (ASeq l).
  Hypothesis HFun : forall n l, Forall P l -> P (AFun n l).

  Fixpoint arg_ind' (a : arg) : P a :=
    match a with
    | AConst v => HC v
    | AIdent s => HI s
    | AStr s => HS s
    | AAdd l r => HB OpAdd l r (arg_ind' l) (arg_ind' r)
    | ANeg v => HNeg v (arg_ind' v)
    | ASub l r => HB OpSubtract l r (arg_ind' l) (arg_ind' r)
    | AMul l r => HB OpMultiply l r (arg_ind' l) (arg_ind' r)
    | ADiv l r => HB OpDivide l r (arg_ind' l) (arg_ind' r)
    | AMod l r => HB OpModulo l r (arg_ind' l) (arg_ind' r)
    | ANot v => HNot v (arg_ind' v)
    | AAnd l r => HB OpBitAnd l r (arg_ind' l) (arg_ind' r)
    | AOr l r => HB OpBitOr l r (arg_ind' l) (arg_ind' r)
    | AXor l r => HB OpBitXor l r (arg_ind' l) (arg_ind' r)
    | AShl l r => HB OpLeftShift l r (arg_ind' l) (arg_ind' r)
    | AShr l r => HB OpRightShift l r (arg_ind' l) (arg_ind' r)
    | AAddr v => HAddr v (arg_ind' v)
    | ASeq l => HSeq l ((fix go (l : list arg) : Forall P l :=
                          match l with [] => Forall_nil P | x :: xs => Forall_cons x (arg_ind' x) (go xs) end) l)
    | AFun n l => HFun n l ((fix go (l : list arg) : Forall P l :=
                          match l with [] => Forall_nil P | x :: xs => Forall_cons x (arg_ind' x) (go xs) end) l)
    end.
End ArgInd.

(* ---- views ---- *)
Lemma bin_view_mk op l r : bin_view (mk_bin op l r) = Some (op, l, r).
Proof. destruct op; reflexivity. Qed.

Lemma bin_view_some a op l r : bin_view a = Some (op, l, r) -> a = mk_bin op l r.
Proof. destruct a; cbn; intros H; inversion H; reflexivity. Qed.

Lemma is_const_mk op l r : is_const (mk_bin op l r) = false.
Proof. destruct op; reflexivity. Qed.

Lemma const_val_mk op l r : const_val (mk_bin op l r) = None.
Proof. destruct op; reflexivity. Qed.

Lemma bad_operand_mk op l r : bad_operand (mk_bin op l r) = false.
Proof. destruct op; reflexivity. Qed.

Lemma const_val_is a : is_const a = match const_val a with Some _ => true | None => false end.
Proof. destruct a; reflexivity. Qed.

Lemma const_val_some a v : const_val a = Some v -> a = AConst v.
Proof. destruct a; cbn; intros H; inversion H; reflexivity. Qed.

Lemma is_const_true a : is_const a = true -> exists v, a = AConst v.
Proof. destruct a; cbn; intros H; try discriminate. eauto. Qed.

Lemma mk_bin_inj op l r op' l' r' : mk_bin op l r = mk_bin op' l' r' -> op = op' /\ l = l' /\ r = r'.
Proof.
  intros H. assert (E : bin_view (mk_bin op l r) = bin_view (mk_bin op' l' r')) by (rewrite H; reflexivity).
  rewrite !bin_view_mk in E. inversion E. auto.
Qed.

(* ---- paths ---- *)
Lemma child_mk d op l r : child d (mk_bin op l r) = Some (match d with DL => l | DR => r end).
Proof. unfold child. rewrite bin_view_mk. reflexivity. Qed.

Lemma with_child_mk d c op l r :
  with_child d c (mk_bin op l r) = match d with DL => mk_bin op c r | DR => mk_bin op l c end.
Proof. unfold with_child. rewrite bin_view_mk. reflexivity. Qed.

Lemma get_app p q t : get (p ++ q) t = match get p t with Some n => get q n | None => None end.
Proof.
  revert t. induction p as [|d p IH]; intros t; cbn [app get]; [reflexivity|].
  destruct (child d t); [apply IH | reflexivity].
Qed.

Lemma get_DL_mk p op l r : get (DL :: p) (mk_bin op l r) = get p l.
Proof. cbn [get]. rewrite child_mk. reflexivity. Qed.
Lemma get_DR_mk p op l r : get (DR :: p) (mk_bin op l r) = get p r.
Proof. cbn [get]. rewrite child_mk. reflexivity. Qed.
Lemma get_DL_neg p v : get (DL :: p) (ANeg v) = get p v.
Proof. reflexivity. Qed.

Lemma set_DL_mk p x op l r :
  set (DL :: p) x (mk_bin op l r) = match set p x l with Some l' => Some (mk_bin op l' r) | None => None end.
Proof. cbn [set]. rewrite child_mk. destruct (set p x l); [rewrite with_child_mk|]; reflexivity. Qed.
Lemma set_DR_mk p x op l r :
  set (DR :: p) x (mk_bin op l r) = match set p x r with Some r' => Some (mk_bin op l r') | None => None end.
Proof. cbn [set]. rewrite child_mk. destruct (set p x r); [rewrite with_child_mk|]; reflexivity. Qed.
Lemma set_DL_neg p x v :
  set (DL :: p) x (ANeg v) = match set p x v with Some v' => Some (ANeg v') | None => None end.
Proof. reflexivity. Qed.

Lemma set_defined p x t n : get p t = Some n -> exists t', set p x t = Some t'.
Proof.
  revert t. induction p as [|d p IH]; intros t G; cbn [get set] in *; [eauto|].
  destruct (child d t) as [c|]; [|discriminate]. destruct (IH c G) as [c' ->]. eauto.
Qed.

(* ---- unfolding the recursive functions at a generic binary node ---- *)
Definition chain_op (op : binop) : bool :=
  match op with OpAdd | OpSubtract | OpMultiply | OpBitAnd | OpBitOr | OpBitXor => true | _ => false end.

Lemma search_mk ty op l r i :
  search ty (mk_bin op l r) i =
    if chain_op op then search_chain ty op l r i (fun _ => search ty l i) (fun i' => search ty r i')
    else if is_div op then search_div ty l r i (fun _ => search ty l i)
    else Ok None.
Proof. destruct op; reflexivity. Qed.

Lemma neutralize_mk op l r :
  neutralize (mk_bin op l r) = deep_bin neutralize_raw op (neutralize l) (neutralize r).
Proof. destruct op; reflexivity. Qed.

Lemma simplify_mk op l r :
  simplify (mk_bin op l r) = deep_bin simplify_raw op (simplify l) (simplify r).
Proof. destruct op; reflexivity. Qed.

(* the list loops *)
Fixpoint deep_list (f : arg -> outcome (arg * bool)) (l : list arg) : outcome (list arg * bool) :=
  match l with [] => Ok ([], false) | x :: xs => deep_cons (f x) (deep_list f xs) end.

Lemma neutralize_seq l : neutralize (ASeq l) = bind (deep_list neutralize l) (fun '(l', c) => Ok (ASeq l', c)).
Proof. cbn [neutralize]. f_equal. induction l as [|x xs IH]; cbn [deep_list]; [reflexivity|]. rewrite IH. reflexivity. Qed.
Lemma neutralize_fun n l : neutralize (AFun n l) = bind (deep_list neutralize l) (fun '(l', c) => Ok (AFun n l', c)).
Proof. cbn [neutralize]. f_equal. induction l as [|x xs IH]; cbn [deep_list]; [reflexivity|]. rewrite IH. reflexivity. Qed.
Lemma simplify_seq l : simplify (ASeq l) = bind (deep_list simplify l) (fun '(l', c) => Ok (ASeq l', c)).
Proof. cbn [simplify]. f_equal. induction l as [|x xs IH]; cbn [deep_list]; [reflexivity|]. rewrite IH. reflexivity. Qed.
Lemma simplify_fun n l : simplify (AFun n l) = bind (deep_list simplify l) (fun '(l', c) => Ok (AFun n l', c)).
Proof. cbn [simplify]. f_equal. induction l as [|x xs IH]; cbn [deep_list]; [reflexivity|]. rewrite IH. reflexivity. Qed.
