(* C08, second half: every rewrite of neutralize / simplify / evaluate preserves the value.
   "Agree whenever both sides have a 64-bit value" is not transitive along a chain of rewrites, so the argument goes
   through denZ: exact integer arithmetic for + - * / % neg and the bitwise operators (no overflow), the 64-bit
   functions for shifts.  (A) den64 e = Some v -> denZ e = Some v.  (B) every rewrite step src ~> tgt is forward exact:
   denZ src = Some v -> denZ tgt = Some v. *)
From Coq Require Import ZArith Lia Bool List.
From Trion Require Import Text.Types Expr.I64 Expr.I64Facts Expr.SimplifyModel Expr.EvalModel Expr.Denote Expr.ArgLemmas.
Import ListNotations.
Open Scope Z_scope.

(* ------------------------------------------------------------------ denZ *)
Definition opZ (op : binop) (x y : Z) : option Z :=
  match op with
  | OpAdd => Some (x + y)
  | OpSubtract => Some (x - y)
  | OpMultiply => Some (x * y)
  | OpDivide => if y =? 0 then None else Some (Z.quot x y)
  | OpModulo => if y =? 0 then None else Some (Z.rem x y)
  | OpBitAnd => Some (Z.land x y)
  | OpBitOr => Some (Z.lor x y)
  | OpBitXor => Some (Z.lxor x y)
  | OpLeftShift | OpRightShift => if in_i64 x then op64 op x y else None
  end.

Fixpoint denZ (rho : str -> option Z) (a : arg) : option Z :=
  match a with
  | AConst v => Some v
  | AIdent s => rho s
  | AAdd l r => opt2 (opZ OpAdd) (denZ rho l) (denZ rho r)
  | ASub l r => opt2 (opZ OpSubtract) (denZ rho l) (denZ rho r)
  | AMul l r => opt2 (opZ OpMultiply) (denZ rho l) (denZ rho r)
  | ADiv l r => opt2 (opZ OpDivide) (denZ rho l) (denZ rho r)
  | AMod l r => opt2 (opZ OpModulo) (denZ rho l) (denZ rho r)
  | AAnd l r => opt2 (opZ OpBitAnd) (denZ rho l) (denZ rho r)
  | AOr l r => opt2 (opZ OpBitOr) (denZ rho l) (denZ rho r)
  | AXor l r => opt2 (opZ OpBitXor) (denZ rho l) (denZ rho r)
  | AShl l r => opt2 (opZ OpLeftShift) (denZ rho l) (denZ rho r)
  | AShr l r => opt2 (opZ OpRightShift) (denZ rho l) (denZ rho r)
  | ANeg v => match denZ rho v with Some x => Some (- x) | None => None end
  | ANot v => match denZ rho v with Some x => Some (Z.lnot x) | None => None end
  | AStr _ | AAddr _ | ASeq _ | AFun _ _ => None
  end.

Lemma denZ_mk rho op l r : denZ rho (mk_bin op l r) = opt2 (opZ op) (denZ rho l) (denZ rho r).
Proof. destruct op; reflexivity. Qed.

Lemma den64_mk rho op l r : den64 rho (mk_bin op l r) = opt2 (op64 op) (den64 rho l) (den64 rho r).
Proof. destruct op; reflexivity. Qed.

Lemma denZ_mk_inv rho op l r v : denZ rho (mk_bin op l r) = Some v ->
  exists x y, denZ rho l = Some x /\ denZ rho r = Some y /\ opZ op x y = Some v.
Proof.
  rewrite denZ_mk. destruct (denZ rho l) as [x|], (denZ rho r) as [y|]; cbn [opt2]; try discriminate. eauto.
Qed.

Lemma chk_some z v : chk z = Some v -> v = z /\ in_i64 z = true.
Proof. unfold chk. destruct (in_i64 z) eqn:E; intros H; inversion H; auto. Qed.

(* ---- (A) a 64-bit value is the exact value, and it is in range ---- *)
Lemma op64_sound op x y v : in_i64 x = true -> in_i64 y = true -> op64 op x y = Some v ->
  opZ op x y = Some v /\ in_i64 v = true.
Proof.
  intros Ix Iy. unfold op64. destruct op; cbn [fold_const opZ].
  - unfold checked_add. destruct (chk (x + y)) eqn:C; cbn; intros H; inversion H; subst. apply chk_some in C. destruct C as [-> C]. auto.
  - unfold checked_sub. destruct (chk (x - y)) eqn:C; cbn; intros H; inversion H; subst. apply chk_some in C. destruct C as [-> C]. auto.
  - unfold checked_mul. destruct (chk (x * y)) eqn:C; cbn; intros H; inversion H; subst. apply chk_some in C. destruct C as [-> C]. auto.
  - destruct (y =? 0) eqn:Z0; [cbn; discriminate|]. unfold checked_div. rewrite Z0.
    destruct ((x =? i64_min) && (y =? -1)) eqn:C; cbn; intros H; inversion H; subst. split; [reflexivity|].
    apply quot_i64; [assumption|apply Z.eqb_neq; assumption|]. intros [-> ->]. cbn in C. discriminate.
  - destruct (y =? 0) eqn:Z0; [cbn; discriminate|]. unfold checked_rem. rewrite Z0.
    destruct ((x =? i64_min) && (y =? -1)) eqn:C; cbn; intros H; inversion H; subst. split; [reflexivity|].
    apply rem_i64; [assumption|apply Z.eqb_neq; assumption].
  - cbn. intros H; inversion H; subst. split; [reflexivity|apply land_i64; assumption].
  - cbn. intros H; inversion H; subst. split; [reflexivity|apply lor_i64; assumption].
  - cbn. intros H; inversion H; subst. split; [reflexivity|apply lxor_i64; assumption].
  - rewrite Ix. unfold op64. cbn [fold_const]. intros H. split; [exact H|].
    destruct (u32_try_from y) as [s|]; [|cbn in H; discriminate]. unfold checked_shl in H.
    destruct (s <? 64); cbn in H; inversion H. apply wrap64_i64.
  - rewrite Ix. unfold op64. cbn [fold_const]. intros H. split; [exact H|].
    destruct (u32_try_from y) as [s|] eqn:U; [|cbn in H; discriminate]. unfold checked_shr in H.
    destruct (s <? 64); cbn in H; inversion H. apply shiftr_i64; [assumption|].
    unfold u32_try_from in U. destruct ((0 <=? y) && (y <=? 4294967295)) eqn:B; inversion U; subst.
    apply andb_true_iff in B. destruct B as [B _]. apply Z.leb_le in B. exact B.
Qed.

Lemma den64_denZ rho e : forall v, den64 rho e = Some v -> denZ rho e = Some v /\ in_i64 v = true.
Proof.
  induction e using arg_ind'; intros w Hd; try (cbn in Hd; discriminate).
  - cbn in Hd. apply chk_some in Hd. destruct Hd as [-> Hd]. cbn. auto.
  - cbn in Hd |- *. destruct (rho s) as [x|]; [|discriminate]. apply chk_some in Hd. destruct Hd as [-> Hd]. auto.
  - rewrite den64_mk in Hd. rewrite denZ_mk.
    destruct (den64 rho e1) as [x|]; [|discriminate]. destruct (den64 rho e2) as [y|]; [|destruct x; discriminate].
    destruct (IHe1 _ eq_refl) as [-> Ix]. destruct (IHe2 _ eq_refl) as [-> Iy]. cbn [opt2] in *.
    apply op64_sound; assumption.
  - cbn [den64 denZ] in *. destruct (den64 rho e) as [x|]; [|discriminate]. destruct (IHe _ eq_refl) as [-> Ix].
    unfold checked_neg in Hd. destruct (x =? i64_min) eqn:M; inversion Hd; subst. split; [reflexivity|].
    apply Z.eqb_neq in M. unfold i64_min in M. apply in_i64_iff in Ix. apply in_i64_iff. lia.
  - cbn [den64 denZ] in *. destruct (den64 rho e) as [x|]; [|discriminate]. destruct (IHe _ eq_refl) as [-> Ix].
    inversion Hd; subst. split; [reflexivity|apply lnot_i64; assumption].
Qed.

(* ---- (B) forward exactness ---- *)
Definition fwd (rho : str -> option Z) (a a' : arg) : Prop := forall v, denZ rho a = Some v -> denZ rho a' = Some v.

Lemma fwd_refl rho a : fwd rho a a.
Proof. intros v H. exact H. Qed.

Lemma fwd_trans rho a b c : fwd rho a b -> fwd rho b c -> fwd rho a c.
Proof. intros H1 H2 v H. auto. Qed.

Lemma fwd_mk rho op l l' r r' : fwd rho l l' -> fwd rho r r' -> fwd rho (mk_bin op l r) (mk_bin op l' r').
Proof.
  intros Hl Hr v H. apply denZ_mk_inv in H. destruct H as [x [y [Hx [Hy Ho]]]].
  rewrite denZ_mk, (Hl _ Hx), (Hr _ Hy). exact Ho.
Qed.

Lemma fwd_neg rho v v' : fwd rho v v' -> fwd rho (ANeg v) (ANeg v').
Proof. intros Hv w H. cbn [denZ] in *. destruct (denZ rho v) as [x|] eqn:D; [|discriminate]. rewrite (Hv _ D). exact H. Qed.
Lemma fwd_not rho v v' : fwd rho v v' -> fwd rho (ANot v) (ANot v').
Proof. intros Hv w H. cbn [denZ] in *. destruct (denZ rho v) as [x|] eqn:D; [|discriminate]. rewrite (Hv _ D). exact H. Qed.
Lemma fwd_none rho a a' : denZ rho a = None -> fwd rho a a'.
Proof. intros N v H. congruence. Qed.

(* ------------------------------------------------------------------ neutralize_raw *)
Lemma strip_den rho r : forall f y, denZ rho r = Some y ->
  exists y', denZ rho (snd (strip_negs f r)) = Some y' /\ y = if xorb f (fst (strip_negs f r)) then - y' else y'.
Proof.
  induction r; intros f y H; cbn [strip_negs fst snd]; try (exists y; rewrite xorb_nilpotent; auto; fail).
  cbn [denZ] in H. destruct (denZ rho r) as [x|] eqn:D; [|discriminate]. inversion H; subst.
  destruct (IHr (negb f) x eq_refl) as [y' [D' E]]. exists y'. split; [exact D'|].
  destruct f, (fst (strip_negs _ r)); cbn in *; lia.
Qed.

Lemma step1_fwd rho a : fwd rho a (fst (neut_step1 a)).
Proof.
  unfold neut_step1. destruct (bin_view a) as [[[op l] r]|] eqn:V; [|apply fwd_refl].
  apply bin_view_some in V. subst a. destruct (is_addsub op) eqn:AS; [|apply fwd_refl].
  destruct r; try apply fwd_refl.
  destruct (strip_negs false (ANeg r)) as [f r'] eqn:S. cbn [fst].
  intros v H. apply denZ_mk_inv in H. destruct H as [x [y [Hx [Hy Ho]]]].
  destruct (strip_den rho (ANeg r) false y Hy) as [y' [D' E]]. rewrite S in D', E. cbn [fst snd xorb] in D', E.
  rewrite denZ_mk, Hx, D'. cbn [opt2]. destruct f; subst y; destruct op; try discriminate; cbn in *; inversion Ho; f_equal; lia.
Qed.

Lemma step2_fwd rho a a' c : neut_step2 a = Ok (a', c) -> fwd rho a a'.
Proof.
  unfold neut_step2. destruct (bin_view a) as [[[op l] r]|] eqn:V; [|intros H; inversion H; apply fwd_refl].
  apply bin_view_some in V. subst a.
  destruct (const_val r) as [v|] eqn:C; [|intros H; inversion H; apply fwd_refl].
  apply const_val_some in C. subst r.
  destruct (is_addsub op && (v <? 0)) eqn:B; [|intros H; inversion H; apply fwd_refl].
  unfold checked_neg. destruct (v =? i64_min); [discriminate|]. intros H; inversion H; subst.
  apply andb_true_iff in B. destruct B as [AS _].
  intros w D. apply denZ_mk_inv in D. destruct D as [x [y [Hx [Hy Ho]]]]. cbn in Hy. inversion Hy; subst.
  rewrite denZ_mk, Hx. cbn. destruct op; try discriminate; cbn in *; inversion Ho; f_equal; lia.
Qed.

Lemma opt_is_true v o : opt_is v o = true -> o = Some v.
Proof. destruct o; cbn; [intros H; apply Z.eqb_eq in H; subst; reflexivity | discriminate]. Qed.

Lemma main_fwd rho a a' : neut_main a = Ok a' -> fwd rho a a'.
Proof.
  unfold neut_main. destruct (bin_view a) as [[[op l] r]|] eqn:V; [|intros H; inversion H; apply fwd_refl].
  apply bin_view_some in V. subst a.
  destruct (bad_operand l); [discriminate|]. destruct (bad_operand r); [discriminate|].
  destruct (const_val l) as [v|] eqn:Cl.
  - apply const_val_some in Cl. subst l. destruct (opt_is v (fst (neutral_table op))) eqn:N.
    + intros H; inversion H; subst. apply opt_is_true in N.
      intros w D. apply denZ_mk_inv in D. destruct D as [x [y [Hx [Hy Ho]]]]. cbn in Hx. inversion Hx; subst. rewrite Hy.
      destruct op; cbn in N; inversion N; subst; cbn [opZ] in Ho; inversion Ho; f_equal;
      try lia; try (symmetry; apply Z.land_m1_l); try (symmetry; apply Z.lor_0_l); try (symmetry; apply Z.lxor_0_l); try (destruct y; reflexivity).
    + destruct (is_sub op && (v =? 0)) eqn:S; intros H; inversion H; subst; [|apply fwd_refl].
      apply andb_true_iff in S. destruct S as [S Z0]. apply Z.eqb_eq in Z0. subst v.
      intros w D. apply denZ_mk_inv in D. destruct D as [x [y [Hx [Hy Ho]]]]. cbn in Hx. inversion Hx; subst.
      cbn [denZ]. rewrite Hy. destruct op; try discriminate. cbn in Ho. inversion Ho. reflexivity.
  - destruct (const_val r) as [v|] eqn:Cr; [|intros H; inversion H; apply fwd_refl].
    apply const_val_some in Cr. subst r. destruct (opt_is v (snd (neutral_table op))) eqn:N; intros H; inversion H; subst; [|apply fwd_refl].
    apply opt_is_true in N.
    intros w D. apply denZ_mk_inv in D. destruct D as [x [y [Hx [Hy Ho]]]]. cbn in Hy. inversion Hy; subst. rewrite Hx.
    destruct op; cbn in N; inversion N; subst; cbn [opZ] in Ho.
    + inversion Ho; f_equal; lia.
    + inversion Ho; f_equal; lia.
    + inversion Ho; f_equal; lia.
    + cbn in Ho. inversion Ho. f_equal. symmetry. apply Z.quot_1_r.
    + inversion Ho. f_equal. symmetry. apply Z.land_m1_r.
    + inversion Ho. f_equal. symmetry. apply Z.lor_0_r.
    + inversion Ho. f_equal. symmetry. apply Z.lxor_0_r.
    + destruct (in_i64 x) eqn:I; [|discriminate]. unfold op64 in Ho. cbn [fold_const] in Ho.
      change (u32_try_from 0) with (Some 0) in Ho. unfold checked_shl in Ho. change (0 <? 64) with true in Ho.
      rewrite Z.shiftl_0_r in Ho. cbn [of_opt opt_of] in Ho. inversion Ho. f_equal. symmetry. apply wrap64_id. exact I.
    + destruct (in_i64 x) eqn:I; [|discriminate]. unfold op64 in Ho. cbn [fold_const] in Ho.
      change (u32_try_from 0) with (Some 0) in Ho. unfold checked_shr in Ho. change (0 <? 64) with true in Ho.
      rewrite Z.shiftr_0_r in Ho. cbn [of_opt opt_of] in Ho. inversion Ho. reflexivity.
Qed.

Lemma neutralize_raw_fwd rho a a' c : neutralize_raw a = Ok (a', c) -> fwd rho a a'.
Proof.
  unfold neutralize_raw. pose proof (step1_fwd rho a) as F1. destruct (neut_step1 a) as [a1 c1]. cbn [fst] in F1.
  destruct (neut_step2 a1) as [[a2 c2]|e|s] eqn:E2; cbn [bind]; try discriminate.
  destruct (neut_main a2) as [a3|e|s] eqn:E3; cbn [bind]; try discriminate.
  intros H; inversion H; subst. eapply fwd_trans; [exact F1|]. eapply fwd_trans; [eapply step2_fwd; exact E2|].
  eapply main_fwd; exact E3.
Qed.

(* ------------------------------------------------------------------ the deep traversals *)
Lemma deep_bin_fwd rho raw op l r rl rr a' c :
  (forall a a' c, raw a = Ok (a', c) -> fwd rho a a') ->
  (forall l' cl, rl = Ok (l', cl) -> fwd rho l l') -> (forall r' cr, rr = Ok (r', cr) -> fwd rho r r') ->
  deep_bin raw op rl rr = Ok (a', c) -> fwd rho (mk_bin op l r) a'.
Proof.
  intros Hraw Hl Hr. unfold deep_bin.
  destruct rl as [[l' cl]|e|s]; cbn [bind]; try discriminate.
  destruct rr as [[r' cr]|e|s]; cbn [bind]; try discriminate.
  destruct (raw (mk_bin op l' r')) as [[a'' c'']|e|s] eqn:E; cbn [bind]; try discriminate.
  intros H; inversion H; subst. eapply fwd_trans; [apply fwd_mk; eauto|]. eapply Hraw; exact E.
Qed.

Lemma deep_list_some f l l' c : deep_list f l = Ok (l', c) -> True.
Proof. auto. Qed.

Lemma neutralize_fwd rho a : forall a' c, neutralize a = Ok (a', c) -> fwd rho a a'.
Proof.
  induction a using arg_ind'; intros a' c Hn.
  - cbn in Hn. inversion Hn. apply fwd_refl.
  - cbn in Hn. inversion Hn. apply fwd_refl.
  - cbn in Hn. inversion Hn. apply fwd_refl.
  - rewrite neutralize_mk in Hn. eapply deep_bin_fwd; [apply neutralize_raw_fwd| | |exact Hn]; eauto.
  - cbn [neutralize] in Hn. unfold deep_un in Hn. destruct (neutralize a) as [[v' cv]|e|s]; cbn [bind] in Hn; try discriminate.
    destruct (neutralize_raw (ANeg v')) as [[a'' c'']|e|s] eqn:E; cbn [bind] in Hn; try discriminate. inversion Hn; subst.
    eapply fwd_trans; [apply fwd_neg; eauto|]. eapply neutralize_raw_fwd; exact E.
  - cbn [neutralize] in Hn. unfold deep_un in Hn. destruct (neutralize a) as [[v' cv]|e|s]; cbn [bind] in Hn; try discriminate.
    destruct (neutralize_raw (ANot v')) as [[a'' c'']|e|s] eqn:E; cbn [bind] in Hn; try discriminate. inversion Hn; subst.
    eapply fwd_trans; [apply fwd_not; eauto|]. eapply neutralize_raw_fwd; exact E.
  - apply fwd_none. reflexivity.
  - apply fwd_none. reflexivity.
  - apply fwd_none. reflexivity.
Qed.

(* ------------------------------------------------------------------ the merge: structure *)
Lemma merge_structure op l r a'' c : simplify_merge op l r = Ok (a'', c) ->
  neutralize_raw (mk_bin op l r) = Ok (a'', c) \/
  exists ls rs pla pl lhs_inv pra prc rhs_inv cl cr nv l' ra a' c0,
     (if is_const l then Ok (Some ([], false)) else search op l false) = Ok ls /\
     locate l ls = Ok (Some (pla, pl, lhs_inv)) /\
     (if is_const r then Ok (Some ([], is_sub op || is_div op))
      else if is_div op then Ok None else search op r (is_sub op || is_div op)) = Ok rs /\
     locate r rs = Ok (Some (pra, prc, rhs_inv)) /\
     get pl l = Some (AConst cl) /\ get prc r = Some (AConst cr) /\ merge_val op lhs_inv rhs_inv cl cr = Ok nv /\
     set pl (AConst nv) l = Some l' /\ get pra r = Some ra /\
     (match ra with
      | AConst _ => Ok l'
      | _ => bind (splice_node ra) (fun n' => match set pra n' r with Some r' => Ok (mk_bin op l' r') | None => Panic 7 end)
      end) = Ok a' /\
     neutralize a' = Ok (a'', c0).
Proof.
  unfold simplify_merge.
  destruct (if is_const l then Ok (Some ([], false)) else search op l false) as [ls|e|s] eqn:Els; cbn [bind]; try discriminate.
  destruct (locate l ls) as [lhs_c|e|s] eqn:Ell; cbn [bind]; try discriminate.
  destruct (if is_const r then Ok (Some ([], is_sub op || is_div op))
            else if is_div op then Ok None else search op r (is_sub op || is_div op)) as [rs|e|s] eqn:Ers; cbn [bind]; try discriminate.
  destruct (locate r rs) as [rhs_c|e|s] eqn:Elr; cbn [bind]; try discriminate.
  destruct lhs_c as [[[pla pl] lhs_inv]|]; [|auto].
  destruct rhs_c as [[[pra prc] rhs_inv]|]; [|auto].
  destruct (get pl l) as [gl|] eqn:Gl; [|discriminate].
  destruct gl; try discriminate.
  destruct (get prc r) as [gr|] eqn:Gr; [|discriminate].
  destruct gr; try discriminate.
  destruct (merge_val op lhs_inv rhs_inv v v0) as [nv|e|s] eqn:Em; cbn [bind]; try discriminate.
  destruct (set pl (AConst nv) l) as [l'|] eqn:Sl; [|discriminate].
  destruct (get pra r) as [ra|] eqn:Gra; [|discriminate].
  match goal with |- bind ?X _ = _ -> _ => destruct X as [a'|e|s] eqn:Ea end; cbn [bind]; try discriminate.
  destruct (neutralize a') as [[a3 c0]|e|s] eqn:En; cbn [bind]; try discriminate.
  intros H. inversion H; subst. right.
  exists ls, rs, pla, pl, lhs_inv, pra, prc, rhs_inv, v, v0, nv, l', ra, a', c0. repeat split; auto.
Qed.

Lemma locate_some side p j pa pc j' n dd :
  locate side (Some (p, j)) = Ok (Some (pa, pc, j')) -> get p side = Some n -> const_child_path n = Ok dd ->
  pa = p /\ pc = p ++ dd /\ j' = j.
Proof. unfold locate. intros H G C. rewrite G, C in H. cbn in H. inversion H. auto. Qed.

Lemma locate_none side pa pc j' : locate side None = Ok (Some (pa, pc, j')) -> False.
Proof. cbn. discriminate. Qed.

Definition sg (b : bool) : Z := if b then -1 else 1.

(* the structural part every located node shares *)
Definition node_at (t : arg) (p : list dir) (n : arg) (d : dir) (c : Z) : Prop :=
  get p t = Some n /\ is_const n = false /\ const_child_path n = Ok [d] /\ get (p ++ [d]) t = Some (AConst c).

Lemma node_at_left t p n d c op r : node_at t p n d c -> node_at (mk_bin op t r) (DL :: p) n d c.
Proof. intros [G [C [P G']]]. unfold node_at. cbn [app]. rewrite !get_DL_mk. auto. Qed.
Lemma node_at_right t p n d c op l : node_at t p n d c -> node_at (mk_bin op l t) (DR :: p) n d c.
Proof. intros [G [C [P G']]]. unfold node_at. cbn [app]. rewrite !get_DR_mk. auto. Qed.
Lemma node_at_neg t p n d c : node_at t p n d c -> node_at (ANeg t) (DL :: p) n d c.
Proof. intros [G [C [P G']]]. unfold node_at. cbn [app]. rewrite !get_DL_neg. auto. Qed.

Lemma node_here_l op c r : selectable op = true -> node_at (mk_bin op (AConst c) r) [] (mk_bin op (AConst c) r) DL c.
Proof.
  intros S. unfold node_at. cbn [app get]. rewrite child_mk, is_const_mk.
  repeat split. unfold const_child_path.
  destruct op; try discriminate S; reflexivity.
Qed.
Lemma node_here_r op l c : selectable op = true -> is_const l = false -> node_at (mk_bin op l (AConst c)) [] (mk_bin op l (AConst c)) DR c.
Proof.
  intros S Cl. unfold node_at. cbn [app get]. rewrite child_mk, is_const_mk.
  repeat split. unfold const_child_path.
  destruct op; try discriminate S; cbn [mk_bin bin_view selectable]; rewrite Cl; reflexivity.
Qed.

(* ------------------------------------------------------------------ the merge: + and - chains *)
Ltac fin Ho := unfold sg; cbn [opZ negb xorb is_sub] in *; inversion Ho; f_equal; lia.

Definition AddLoc rho (t : arg) (p : list dir) (s : bool) : Prop :=
  exists n d c, node_at t p n d c /\
    forall v, denZ rho t = Some v ->
      (forall c', exists t', set (p ++ [d]) (AConst c') t = Some t' /\ denZ rho t' = Some (v + sg s * (c' - c))) /\
      (exists n' t', splice_node n = Ok n' /\ set p n' t = Some t' /\ denZ rho t' = Some (v - sg s * c)).

Lemma addsub_selectable op : is_addsub op = true -> selectable op = true.
Proof. destruct op; cbn; congruence. Qed.

Lemma AddLoc_here_l rho op c r : is_addsub op = true -> AddLoc rho (mk_bin op (AConst c) r) [] false.
Proof.
  intros AS. exists (mk_bin op (AConst c) r), DL, c. split; [apply node_here_l, addsub_selectable, AS|].
  intros v D. apply denZ_mk_inv in D. destruct D as [x [y [Hx [Hy Ho]]]]. cbn in Hx. inversion Hx; subst x.
  split.
  - intros c'. cbn [app]. rewrite set_DL_mk. cbn [set]. eexists; split; [reflexivity|].
    rewrite denZ_mk. cbn [denZ]. rewrite Hy. cbn [opt2]. destruct op; try discriminate AS; fin Ho.
  - destruct op; try discriminate AS; cbn [mk_bin splice_node is_const set]; eexists; eexists; (split; [reflexivity|]); (split; [reflexivity|]).
    + rewrite Hy. fin Ho.
    + cbn [denZ]. rewrite Hy. fin Ho.
Qed.

Lemma AddLoc_here_r rho op l c : is_addsub op = true -> is_const l = false -> AddLoc rho (mk_bin op l (AConst c)) [] (is_sub op).
Proof.
  intros AS Cl. exists (mk_bin op l (AConst c)), DR, c. split; [apply node_here_r; [apply addsub_selectable, AS|exact Cl]|].
  intros v D. apply denZ_mk_inv in D. destruct D as [x [y [Hx [Hy Ho]]]]. cbn in Hy. inversion Hy; subst y.
  split.
  - intros c'. cbn [app]. rewrite set_DR_mk. cbn [set]. eexists; split; [reflexivity|].
    rewrite denZ_mk. cbn [denZ]. rewrite Hx. cbn [opt2]. destruct op; try discriminate AS; fin Ho.
  - destruct op; try discriminate AS; cbn [mk_bin splice_node set]; rewrite Cl; eexists; eexists; (split; [reflexivity|]); (split; [reflexivity|]);
    rewrite Hx; fin Ho.
Qed.

Lemma AddLoc_left rho op l r p s : is_addsub op = true -> AddLoc rho l p s -> AddLoc rho (mk_bin op l r) (DL :: p) s.
Proof.
  intros AS [n [d [c [N H]]]]. exists n, d, c. split; [apply node_at_left, N|].
  intros v D. apply denZ_mk_inv in D. destruct D as [x [y [Hx [Hy Ho]]]]. destruct (H x Hx) as [H1 H2]. split.
  - intros c'. destruct (H1 c') as [t' [S' D']]. cbn [app]. rewrite set_DL_mk, S'. eexists; split; [reflexivity|].
    rewrite denZ_mk, D', Hy. cbn [opt2]. destruct op; try discriminate AS; fin Ho.
  - destruct H2 as [n' [t' [Sp [S' D']]]]. exists n'. rewrite set_DL_mk, S'. eexists; split; [exact Sp|split; [reflexivity|]].
    rewrite denZ_mk, D', Hy. cbn [opt2]. destruct op; try discriminate AS; fin Ho.
Qed.

Lemma AddLoc_right rho op l r p s : is_addsub op = true -> AddLoc rho r p s -> AddLoc rho (mk_bin op l r) (DR :: p) (xorb s (is_sub op)).
Proof.
  intros AS [n [d [c [N H]]]]. exists n, d, c. split; [apply node_at_right, N|].
  intros v D. apply denZ_mk_inv in D. destruct D as [x [y [Hx [Hy Ho]]]]. destruct (H y Hy) as [H1 H2]. split.
  - intros c'. destruct (H1 c') as [t' [S' D']]. cbn [app]. rewrite set_DR_mk, S'. eexists; split; [reflexivity|].
    rewrite denZ_mk, D', Hx. cbn [opt2]. destruct op; try discriminate AS; destruct s; fin Ho.
  - destruct H2 as [n' [t' [Sp [S' D']]]]. exists n'. rewrite set_DR_mk, S'. eexists; split; [exact Sp|split; [reflexivity|]].
    rewrite denZ_mk, D', Hx. cbn [opt2]. destruct op; try discriminate AS; destruct s; fin Ho.
Qed.

Lemma AddLoc_neg rho t p s : AddLoc rho t p s -> AddLoc rho (ANeg t) (DL :: p) (negb s).
Proof.
  intros [n [d [c [N H]]]]. exists n, d, c. split; [apply node_at_neg, N|].
  intros v D. cbn [denZ] in D. destruct (denZ rho t) as [x|] eqn:Hx; [|discriminate]. inversion D; subst v.
  destruct (H x eq_refl) as [H1 H2]. split.
  - intros c'. destruct (H1 c') as [t' [S' D']]. cbn [app]. rewrite set_DL_neg, S'. eexists; split; [reflexivity|].
    cbn [denZ]. rewrite D'. destruct s; unfold sg; cbn [negb]; f_equal; lia.
  - destruct H2 as [n' [t' [Sp [S' D']]]]. exists n'. rewrite set_DL_neg, S'. eexists; split; [exact Sp|split; [reflexivity|]].
    cbn [denZ]. rewrite D'. destruct s; unfold sg; cbn [negb]; f_equal; lia.
Qed.

Lemma chain_ok_addsub ty op : is_addsub ty = true -> chain_ok ty op = true -> is_addsub op = true.
Proof. destruct ty, op; cbn; congruence. Qed.

Lemma search_add rho ty t : is_addsub ty = true -> forall i p j, search ty t i = Ok (Some (p, j)) -> AddLoc rho t p (xorb i j).
Proof.
  intros AT. induction t using arg_ind'; intros i p j S; try (cbn in S; discriminate).
  - rewrite search_mk in S. destruct (chain_op op) eqn:CO.
    + unfold search_chain in S. destruct (chain_ok ty op) eqn:CK; [|discriminate].
      pose proof (chain_ok_addsub _ _ AT CK) as AS.
      destruct (is_const t1) eqn:C1, (is_const t2) eqn:C2; cbn [andb orb] in S; try discriminate.
      * injection S as <- <-. apply is_const_true in C1. destruct C1 as [c ->].
        replace (xorb i (xorb i (is_sub op && false))) with false by (destruct i, (is_sub op); reflexivity).
        apply AddLoc_here_l. exact AS.
      * injection S as <- <-. apply is_const_true in C2. destruct C2 as [c ->].
        replace (xorb i (xorb i (is_sub op && true))) with (is_sub op) by (destruct i, (is_sub op); reflexivity).
        apply AddLoc_here_r; assumption.
      * destruct (search ty t1 i) as [[[p1 j1]|]|e|s] eqn:S1; cbn [under] in S; try discriminate.
        -- injection S as <- <-. apply AddLoc_left; [exact AS|]. eapply IHt1. exact S1.
        -- destruct (search ty t2 (xorb i (is_sub op))) as [[[p2 j2]|]|e|s] eqn:S2; cbn [under] in S; try discriminate.
           injection S as <- <-. pose proof (AddLoc_right rho op t1 t2 _ _ AS (IHt2 _ _ _ S2)) as R.
           replace (xorb (xorb (xorb i (is_sub op)) j2) (is_sub op)) with (xorb i j2) in R by (destruct i, j2, (is_sub op); reflexivity).
           exact R.
    + destruct (is_div op) eqn:DO; [|discriminate]. unfold search_div in S. destruct ty; discriminate.
  - cbn [search] in S. rewrite AT in S.
    destruct (search ty t (negb i)) as [[[p1 j1]|]|e|s] eqn:S1; cbn [under] in S; try discriminate.
    injection S as <- <-. pose proof (AddLoc_neg rho t _ _ (IHt _ _ _ S1)) as R.
    replace (negb (xorb (negb i) j1)) with (xorb i j1) in R by (destruct i, j1; reflexivity). exact R.
Qed.

(* ------------------------------------------------------------------ the merge: * & | ^ chains *)
Record monoid_op (op : binop) (f : Z -> Z -> Z) : Prop := {
  mo_opZ : forall x y, opZ op x y = Some (f x y);
  mo_comm : forall x y, f x y = f y x;
  mo_assoc : forall x y z, f x (f y z) = f (f x y) z;
  mo_sel : selectable op = true;
  mo_notas : is_addsub op = false;
  mo_notdiv : is_div op = false;
  mo_splice : forall l r, splice_node (mk_bin op l r) = Ok (if is_const l then r else l);
  mo_merge : forall li ri a b nv, merge_val op li ri a b = Ok nv -> nv = f a b
}.

Lemma chk_ok k z nv : of_opt k (chk z) = Ok nv -> nv = z.
Proof. unfold chk. destruct (in_i64 z); cbn; intros H; inversion H; reflexivity. Qed.

Lemma mon_mul : monoid_op OpMultiply Z.mul.
Proof.
  constructor; try reflexivity; intros.
  - apply Z.mul_comm.
  - apply Z.mul_assoc.
  - cbn in H. apply chk_ok in H. exact H.
Qed.
Lemma mon_and : monoid_op OpBitAnd Z.land.
Proof.
  constructor; try reflexivity; intros.
  - apply Z.land_comm.
  - apply Z.land_assoc.
  - cbn in H. inversion H. reflexivity.
Qed.
Lemma mon_or : monoid_op OpBitOr Z.lor.
Proof.
  constructor; try reflexivity; intros.
  - apply Z.lor_comm.
  - apply Z.lor_assoc.
  - cbn in H. inversion H. reflexivity.
Qed.
Lemma mon_xor : monoid_op OpBitXor Z.lxor.
Proof.
  constructor; try reflexivity; intros.
  - apply Z.lxor_comm.
  - symmetry. apply Z.lxor_assoc.
  - cbn in H. inversion H. reflexivity.
Qed.

Definition MonLoc rho (f : Z -> Z -> Z) (t : arg) (p : list dir) : Prop :=
  exists n d c, node_at t p n d c /\
    forall v, denZ rho t = Some v -> exists R, v = f R c /\
      (forall c', exists t', set (p ++ [d]) (AConst c') t = Some t' /\ denZ rho t' = Some (f R c')) /\
      (exists n' t', splice_node n = Ok n' /\ set p n' t = Some t' /\ denZ rho t' = Some R).

Section Mon.
  Variable rho : str -> option Z.
  Variable op : binop.
  Variable f : Z -> Z -> Z.
  Hypothesis M : monoid_op op f.

  Lemma MonLoc_here_l c r : MonLoc rho f (mk_bin op (AConst c) r) [].
  Proof.
    exists (mk_bin op (AConst c) r), DL, c. split; [apply node_here_l, (mo_sel _ _ M)|].
    intros v D. apply denZ_mk_inv in D. destruct D as [x [y [Hx [Hy Ho]]]]. cbn in Hx. inversion Hx; subst x.
    rewrite (mo_opZ _ _ M) in Ho. inversion Ho; subst v. exists y. split; [apply (mo_comm _ _ M)|]. split.
    - intros c'. cbn [app]. rewrite set_DL_mk. cbn [set]. eexists; split; [reflexivity|].
      rewrite denZ_mk. cbn [denZ]. rewrite Hy. cbn [opt2]. rewrite (mo_opZ _ _ M). f_equal. apply (mo_comm _ _ M).
    - rewrite (mo_splice _ _ M). cbn [is_const set]. eexists; eexists; split; [reflexivity|split; [reflexivity|exact Hy]].
  Qed.

  Lemma MonLoc_here_r l c : is_const l = false -> MonLoc rho f (mk_bin op l (AConst c)) [].
  Proof.
    intros Cl. exists (mk_bin op l (AConst c)), DR, c. split; [apply node_here_r; [apply (mo_sel _ _ M)|exact Cl]|].
    intros v D. apply denZ_mk_inv in D. destruct D as [x [y [Hx [Hy Ho]]]]. cbn in Hy. inversion Hy; subst y.
    rewrite (mo_opZ _ _ M) in Ho. inversion Ho; subst v. exists x. split; [reflexivity|]. split.
    - intros c'. cbn [app]. rewrite set_DR_mk. cbn [set]. eexists; split; [reflexivity|].
      rewrite denZ_mk. cbn [denZ]. rewrite Hx. cbn [opt2]. rewrite (mo_opZ _ _ M). reflexivity.
    - rewrite (mo_splice _ _ M), Cl. cbn [set]. eexists; eexists; split; [reflexivity|split; [reflexivity|exact Hx]].
  Qed.

  Lemma MonLoc_left l r p : MonLoc rho f l p -> MonLoc rho f (mk_bin op l r) (DL :: p).
  Proof.
    intros [n [d [c [N H]]]]. exists n, d, c. split; [apply node_at_left, N|].
    intros v D. apply denZ_mk_inv in D. destruct D as [x [y [Hx [Hy Ho]]]]. destruct (H x Hx) as [R [E [H1 H2]]].
    rewrite (mo_opZ _ _ M) in Ho. inversion Ho; subst v. exists (f R y). split.
    { subst x. rewrite <- !(mo_assoc _ _ M). f_equal. apply (mo_comm _ _ M). }
    split.
    - intros c'. destruct (H1 c') as [t' [S' D']]. cbn [app]. rewrite set_DL_mk, S'. eexists; split; [reflexivity|].
      rewrite denZ_mk, D', Hy. cbn [opt2]. rewrite (mo_opZ _ _ M). f_equal.
      rewrite <- !(mo_assoc _ _ M). f_equal. apply (mo_comm _ _ M).
    - destruct H2 as [n' [t' [Sp [S' D']]]]. exists n'. rewrite set_DL_mk, S'. eexists; split; [exact Sp|split; [reflexivity|]].
      rewrite denZ_mk, D', Hy. cbn [opt2]. apply (mo_opZ _ _ M).
  Qed.

  Lemma MonLoc_right l r p : MonLoc rho f r p -> MonLoc rho f (mk_bin op l r) (DR :: p).
  Proof.
    intros [n [d [c [N H]]]]. exists n, d, c. split; [apply node_at_right, N|].
    intros v D. apply denZ_mk_inv in D. destruct D as [x [y [Hx [Hy Ho]]]]. destruct (H y Hy) as [R [E [H1 H2]]].
    rewrite (mo_opZ _ _ M) in Ho. inversion Ho; subst v. exists (f x R). split.
    { subst y. apply (mo_assoc _ _ M). }
    split.
    - intros c'. destruct (H1 c') as [t' [S' D']]. cbn [app]. rewrite set_DR_mk, S'. eexists; split; [reflexivity|].
      rewrite denZ_mk, D', Hx. cbn [opt2]. rewrite (mo_opZ _ _ M). f_equal. apply (mo_assoc _ _ M).
    - destruct H2 as [n' [t' [Sp [S' D']]]]. exists n'. rewrite set_DR_mk, S'. eexists; split; [exact Sp|split; [reflexivity|]].
      rewrite denZ_mk, D', Hx. cbn [opt2]. apply (mo_opZ _ _ M).
  Qed.

  Lemma chain_ok_mon cty : chain_ok op cty = true -> cty = op.
  Proof.
    unfold chain_ok. rewrite (mo_notas _ _ M). cbn [andb]. rewrite orb_false_r.
    destruct op, cty; cbn; congruence.
  Qed.

  Lemma search_mon t : forall i p j, search op t i = Ok (Some (p, j)) -> MonLoc rho f t p.
  Proof.
    induction t using arg_ind'; intros i p j S; try (cbn in S; discriminate).
    - rewrite search_mk in S. destruct (chain_op op0) eqn:CO.
      + unfold search_chain in S. destruct (chain_ok op op0) eqn:CK; [|discriminate].
        apply chain_ok_mon in CK. subst op0.
        destruct (is_const t1) eqn:C1, (is_const t2) eqn:C2; cbn [andb orb] in S; try discriminate.
        * injection S as <- <-. apply is_const_true in C1. destruct C1 as [c ->]. apply MonLoc_here_l.
        * injection S as <- <-. apply is_const_true in C2. destruct C2 as [c ->]. apply MonLoc_here_r. exact C1.
        * destruct (search op t1 i) as [[[p1 j1]|]|e|s] eqn:S1; cbn [under] in S; try discriminate.
          -- injection S as <- <-. apply MonLoc_left. eapply IHt1. exact S1.
          -- destruct (search op t2 (xorb i (is_sub op))) as [[[p2 j2]|]|e|s] eqn:S2; cbn [under] in S; try discriminate.
             injection S as <- <-. apply MonLoc_right. eapply IHt2. exact S2.
      + destruct (is_div op0) eqn:DO; [|discriminate]. unfold search_div in S. rewrite (mo_notdiv _ _ M) in S. discriminate.
    - cbn [search] in S. rewrite (mo_notas _ _ M) in S. discriminate.
  Qed.
End Mon.

(* ------------------------------------------------------------------ the merge: / chains *)
Definition DivLoc rho (t : arg) (p : list dir) (b : bool) : Prop :=
  exists n d c, node_at t p n d c /\
    forall v k, denZ rho t = Some v -> k <> 0 ->
      exists t', set (p ++ [d]) (AConst (if b then c * k else Z.quot c k)) t = Some t' /\ denZ rho t' = Some (Z.quot v k).

Lemma quot_swap c y k : y <> 0 -> k <> 0 -> Z.quot (Z.quot c k) y = Z.quot (Z.quot c y) k.
Proof. intros Hy Hk. rewrite !Z.quot_quot by assumption. f_equal. apply Z.mul_comm. Qed.

Lemma opZ_div_inv x y v : opZ OpDivide x y = Some v -> y <> 0 /\ v = Z.quot x y.
Proof. cbn. destruct (y =? 0) eqn:E; [discriminate|]. apply Z.eqb_neq in E. intros H; inversion H; auto. Qed.

Lemma opZ_div x y : y <> 0 -> opZ OpDivide x y = Some (Z.quot x y).
Proof. intros H. cbn. apply Z.eqb_neq in H. rewrite H. reflexivity. Qed.

Lemma search_divloc rho t : forall i p j, search OpDivide t i = Ok (Some (p, j)) -> DivLoc rho t p (xorb i j).
Proof.
  induction t using arg_ind'; intros i p j S; try (cbn in S; discriminate).
  rewrite search_mk in S. destruct (chain_op op) eqn:CO.
  - unfold search_chain in S. replace (chain_ok OpDivide op) with false in S by (destruct op; try discriminate CO; reflexivity). discriminate.
  - destruct (is_div op) eqn:DO; [|discriminate]. assert (op = OpDivide) by (destruct op; try discriminate; reflexivity). subst op.
    unfold search_div in S. cbn [is_div] in S.
    destruct (is_const t1) eqn:C1, (is_const t2) eqn:C2; cbn [andb orb] in S; try discriminate.
    + injection S as <- <-. apply is_const_true in C1. destruct C1 as [c ->].
      replace (xorb i (xorb i false)) with false by (destruct i; reflexivity).
      exists (ADiv (AConst c) t2), DL, c. split; [exact (node_here_l OpDivide c t2 eq_refl)|].
      intros v k D Hk. apply (denZ_mk_inv rho OpDivide) in D. destruct D as [x [y [Hx [Hy Ho]]]]. cbn in Hx. inversion Hx; subst x.
      apply opZ_div_inv in Ho. destruct Ho as [Hy0 ->].
      cbn [app]. rewrite (set_DL_mk [] _ OpDivide). cbn [set]. eexists; split; [reflexivity|].
      rewrite (denZ_mk rho OpDivide). cbn [denZ]. rewrite Hy. cbn [opt2]. rewrite opZ_div by exact Hy0. f_equal. apply quot_swap; assumption.
    + injection S as <- <-. apply is_const_true in C2. destruct C2 as [c ->].
      replace (xorb i (xorb i true)) with true by (destruct i; reflexivity).
      exists (ADiv t1 (AConst c)), DR, c. split; [exact (node_here_r OpDivide t1 c eq_refl C1)|].
      intros v k D Hk. apply (denZ_mk_inv rho OpDivide) in D. destruct D as [x [y [Hx [Hy Ho]]]]. cbn in Hy. inversion Hy; subst y.
      apply opZ_div_inv in Ho. destruct Ho as [Hc0 ->].
      cbn [app]. rewrite (set_DR_mk [] _ OpDivide). cbn [set]. eexists; split; [reflexivity|].
      rewrite (denZ_mk rho OpDivide). cbn [denZ]. rewrite Hx. cbn [opt2]. rewrite opZ_div by lia. f_equal.
      symmetry. apply Z.quot_quot; assumption.
    + destruct (search OpDivide t1 i) as [[[p1 j1]|]|e|s] eqn:S1; cbn [under] in S; try discriminate.
      injection S as <- <-. destruct (IHt1 _ _ _ S1) as [n [d [c [N H]]]].
      exists n, d, c. split; [exact (node_at_left _ _ _ _ _ OpDivide t2 N)|].
      intros v k D Hk. apply (denZ_mk_inv rho OpDivide) in D. destruct D as [x [y [Hx [Hy Ho]]]].
      apply opZ_div_inv in Ho. destruct Ho as [Hy0 ->].
      destruct (H x k Hx Hk) as [t' [S' D']]. cbn [app]. rewrite (set_DL_mk _ _ OpDivide), S'. eexists; split; [reflexivity|].
      rewrite (denZ_mk rho OpDivide), D', Hy. cbn [opt2]. rewrite opZ_div by exact Hy0. f_equal. apply quot_swap; assumption.
Qed.

(* ------------------------------------------------------------------ the merge: putting the two sides together *)
Lemma nonconst_match {A} (ra : arg) (X Y : A) : is_const ra = false ->
  (match ra with AConst _ => X | _ => Y end) = Y.
Proof. destruct ra; intros H; try reflexivity. discriminate H. Qed.

Lemma set_fun p x t a b : set p x t = Some a -> set p x t = Some b -> a = b.
Proof. congruence. Qed.

Lemma merge_add_fwd rho op l r a'' c :
  is_addsub op = true -> simplify_merge op l r = Ok (a'', c) -> fwd rho (mk_bin op l r) a''.
Proof.
  intros AS H.
  destruct (merge_structure _ _ _ _ _ H) as [N | (ls & rs & pla & pl & li & pra & prc & ri & cl & cr & nv & l' & ra & a' & c0 &
     Els & Ell & Ers & Elr & Gl & Gr & Em & Sl & Gra & Ea & En)].
  - eapply neutralize_raw_fwd; exact N.
  - eapply fwd_trans; [|eapply neutralize_fwd; exact En].
    assert (ND : is_div op = false) by (destruct op; try discriminate AS; reflexivity).
    rewrite ND, orb_false_r in Ers.
    assert (L : forall vl, denZ rho l = Some vl -> denZ rho l' = Some (vl + sg li * (nv - cl))).
    { destruct (is_const l) eqn:Cl.
      - apply is_const_true in Cl. destruct Cl as [c1 ->]. inversion Els; subst ls. cbn in Ell. inversion Ell; subst.
        cbn in Gl, Sl. inversion Gl; subst. inversion Sl; subst.
        intros vl D. cbn [denZ] in D |- *. inversion D; subst. f_equal. unfold sg. lia.
      - destruct ls as [[p j]|]; [|exfalso; eapply locate_none; exact Ell].
        destruct (search_add rho op l AS _ _ _ Els) as [n [d [c1 [[G1 [C1 [P1 G1']]] Hs]]]].
        destruct (locate_some _ _ _ _ _ _ _ _ Ell G1 P1) as [-> [-> ->]]. rewrite G1' in Gl. inversion Gl; subst c1.
        intros vl D. destruct (Hs vl D) as [H1 _]. destruct (H1 nv) as [t' [S' D']].
        rewrite (set_fun _ _ _ _ _ Sl S'). rewrite xorb_false_l in D'. exact D'. }
    intros v D. apply denZ_mk_inv in D. destruct D as [x [y [Hx [Hy Ho]]]].
    specialize (L x Hx).
    destruct (is_const r) eqn:Cr.
    + apply is_const_true in Cr. destruct Cr as [c2 ->]. inversion Ers; subst rs. cbn in Elr. inversion Elr; subst pra prc ri.
      cbn in Gr, Gra. inversion Gr; subst c2. inversion Gra; subst ra. inversion Ea; subst a'.
      cbn in Hy. inversion Hy; subst y. rewrite L. f_equal.
      unfold merge_val, checked_add, checked_sub in Em.
      destruct op; try discriminate AS; destruct li; cbn [xorb is_sub] in Em; apply chk_ok in Em; subst nv;
      unfold sg; cbn [opZ] in Ho; inversion Ho; lia.
    + destruct rs as [[p j]|]; [|exfalso; eapply locate_none; exact Elr].
      destruct (search_add rho op r AS _ _ _ Ers) as [n [d [c1 [[G1 [C1 [P1 G1']]] Hs]]]].
      destruct (locate_some _ _ _ _ _ _ _ _ Elr G1 P1) as [-> [-> ->]]. rewrite G1' in Gr. inversion Gr; subst c1.
      rewrite G1 in Gra. inversion Gra; subst ra.
      rewrite (nonconst_match _ _ _ C1) in Ea.
      destruct (Hs y Hy) as [_ [n' [t' [Sp [S' D']]]]]. rewrite Sp in Ea. cbn [bind] in Ea. rewrite S' in Ea. inversion Ea; subst a'.
      rewrite denZ_mk, L, D'. cbn [opt2].
      unfold merge_val, checked_add, checked_sub in Em.
      destruct op; try discriminate AS; destruct li, j; cbn [xorb is_sub] in *; apply chk_ok in Em; subst nv;
      unfold sg; cbn [opZ] in *; inversion Ho; f_equal; lia.
Qed.

Lemma merge_mon_fwd rho op f l r a'' c :
  monoid_op op f -> simplify_merge op l r = Ok (a'', c) -> fwd rho (mk_bin op l r) a''.
Proof.
  intros M H.
  destruct (merge_structure _ _ _ _ _ H) as [N | (ls & rs & pla & pl & li & pra & prc & ri & cl & cr & nv & l' & ra & a' & c0 &
     Els & Ell & Ers & Elr & Gl & Gr & Em & Sl & Gra & Ea & En)].
  - eapply neutralize_raw_fwd; exact N.
  - eapply fwd_trans; [|eapply neutralize_fwd; exact En].
    rewrite (mo_notdiv _ _ M), orb_false_r in Ers.
    apply (mo_merge _ _ M) in Em. subst nv.
    assert (A1 : forall R a b, f (f R a) b = f R (f a b)) by (intros; symmetry; apply (mo_assoc _ _ M)).
    assert (A2 : forall a b R, f (f a b) R = f a (f R b)).
    { intros. rewrite (mo_comm _ _ M R b). symmetry. apply (mo_assoc _ _ M). }
    assert (L : forall vl, denZ rho l = Some vl ->
              (exists R, vl = f R cl /\ denZ rho l' = Some (f R (f cl cr))) \/ (vl = cl /\ denZ rho l' = Some (f cl cr))).
    { destruct (is_const l) eqn:Cl.
      - apply is_const_true in Cl. destruct Cl as [c1 ->]. inversion Els; subst ls. cbn in Ell. inversion Ell; subst.
        cbn in Gl, Sl. inversion Gl; subst. inversion Sl; subst.
        intros vl D. cbn in D. inversion D; subst. right. auto.
      - destruct ls as [[p j]|]; [|exfalso; eapply locate_none; exact Ell].
        destruct (search_mon rho op f M l _ _ _ Els) as [n [d [c1 [[G1 [C1 [P1 G1']]] Hs]]]].
        destruct (locate_some _ _ _ _ _ _ _ _ Ell G1 P1) as [-> [-> ->]]. rewrite G1' in Gl. inversion Gl; subst c1.
        intros vl D. destruct (Hs vl D) as [R [E [H1 _]]]. destruct (H1 (f cl cr)) as [t' [S' D']].
        rewrite (set_fun _ _ _ _ _ Sl S'). left. exists R. auto. }
    intros v D. apply denZ_mk_inv in D. destruct D as [x [y [Hx [Hy Ho]]]].
    rewrite (mo_opZ _ _ M) in Ho. inversion Ho; subst v.
    specialize (L x Hx).
    destruct (is_const r) eqn:Cr.
    + apply is_const_true in Cr. destruct Cr as [c2 ->]. inversion Ers; subst rs. cbn in Elr. inversion Elr; subst pra prc ri.
      cbn in Gr, Gra. inversion Gr; subst c2. inversion Gra; subst ra. inversion Ea; subst a'.
      cbn in Hy. inversion Hy; subst y.
      destruct L as [[R [-> ->]] | [-> ->]]; f_equal. symmetry. apply A1.
    + destruct rs as [[p j]|]; [|exfalso; eapply locate_none; exact Elr].
      destruct (search_mon rho op f M r _ _ _ Ers) as [n [d [c1 [[G1 [C1 [P1 G1']]] Hs]]]].
      destruct (locate_some _ _ _ _ _ _ _ _ Elr G1 P1) as [-> [-> ->]]. rewrite G1' in Gr. inversion Gr; subst c1.
      rewrite G1 in Gra. inversion Gra; subst ra.
      rewrite (nonconst_match _ _ _ C1) in Ea.
      destruct (Hs y Hy) as [R' [E' [_ [n' [t' [Sp [S' D']]]]]]]. rewrite Sp in Ea. cbn [bind] in Ea. rewrite S' in Ea. inversion Ea; subst a'.
      rewrite denZ_mk, D'. subst y.
      destruct L as [[R [-> ->]] | [-> ->]]; cbn [opt2]; rewrite (mo_opZ _ _ M); f_equal.
      * rewrite A1, A2, <- A1. reflexivity.
      * apply A2.
Qed.

Lemma checked_div_ok a b nv : of_opt OvDivide (checked_div a b) = Ok nv -> b <> 0 /\ nv = Z.quot a b.
Proof.
  unfold checked_div. destruct (b =? 0) eqn:E; [cbn; discriminate|]. apply Z.eqb_neq in E.
  destruct ((a =? i64_min) && (b =? -1)); cbn; intros H; inversion H. auto.
Qed.

Lemma merge_div_fwd rho l r a'' c :
  simplify_merge OpDivide l r = Ok (a'', c) -> fwd rho (ADiv l r) a''.
Proof.
  intros H.
  destruct (merge_structure _ _ _ _ _ H) as [N | (ls & rs & pla & pl & li & pra & prc & ri & cl & cr & nv & l' & ra & a' & c0 &
     Els & Ell & Ers & Elr & Gl & Gr & Em & Sl & Gra & Ea & En)].
  - eapply (neutralize_raw_fwd rho (ADiv l r)); exact N.
  - eapply fwd_trans; [|eapply neutralize_fwd; exact En].
    cbn [is_div is_sub orb] in Ers.
    destruct (is_const r) eqn:Cr; [|inversion Ers; subst rs; exfalso; eapply locate_none; exact Elr].
    apply is_const_true in Cr. destruct Cr as [c2 ->]. inversion Ers; subst rs. cbn in Elr. inversion Elr; subst pra prc ri.
    cbn in Gr, Gra. inversion Gr; subst c2. inversion Gra; subst ra. inversion Ea; subst a'.
    intros v D. apply (denZ_mk_inv rho OpDivide) in D. destruct D as [x [y [Hx [Hy Ho]]]].
    cbn in Hy. inversion Hy; subst y. apply opZ_div_inv in Ho. destruct Ho as [Hk ->].
    destruct (is_const l) eqn:Cl.
    + apply is_const_true in Cl. destruct Cl as [c1 ->]. inversion Els; subst ls. cbn in Ell. inversion Ell; subst.
      cbn in Gl, Sl. inversion Gl; subst. inversion Sl; subst. cbn in Hx. inversion Hx; subst.
      cbn [merge_val] in Em. apply checked_div_ok in Em. destruct Em as [_ ->]. reflexivity.
    + destruct ls as [[p j]|]; [|exfalso; eapply locate_none; exact Ell].
      destruct (search_divloc rho l _ _ _ Els) as [n [d [c1 [[G1 [C1 [P1 G1']]] Hs]]]].
      destruct (locate_some _ _ _ _ _ _ _ _ Ell G1 P1) as [-> [-> ->]]. rewrite G1' in Gl. inversion Gl; subst c1.
      destruct (Hs x cr Hx Hk) as [t' [S' D']]. rewrite xorb_false_l in S'.
      assert (NV : nv = if j then cl * cr else Z.quot cl cr).
      { cbn [merge_val] in Em. destruct j; [unfold checked_mul in Em; apply chk_ok in Em; exact Em | apply checked_div_ok in Em; tauto]. }
      rewrite <- NV in S'. rewrite (set_fun _ _ _ _ _ Sl S'). exact D'.
Qed.

(* ------------------------------------------------------------------ simplify_raw *)
Lemma fold_opZ op a b v : fold_const op a b = Ok v -> forall w, opZ op a b = Some w -> w = v.
Proof.
  intros F w O. destruct op; cbn [fold_const opZ] in *;
  try (unfold checked_add, checked_sub, checked_mul in F; apply chk_ok in F; inversion O; congruence);
  try (inversion F; inversion O; congruence).
  - destruct (b =? 0); [discriminate|]. apply checked_div_ok in F. inversion O. destruct F. congruence.
  - destruct (b =? 0); [discriminate|]. unfold checked_rem in F.
    destruct (b =? 0); [cbn in F; discriminate|]. destruct ((a =? i64_min) && (b =? -1)); cbn in F; inversion F. inversion O. congruence.
  - destruct (in_i64 a); [|discriminate]. unfold op64 in O. cbn [fold_const] in O. rewrite F in O. cbn in O. inversion O. reflexivity.
  - destruct (in_i64 a); [|discriminate]. unfold op64 in O. cbn [fold_const] in O. rewrite F in O. cbn in O. inversion O. reflexivity.
Qed.

Lemma mod_collapse_fwd rho l r : mod_collapse l r = true -> fwd rho (AMod l r) l.
Proof.
  unfold mod_collapse. destruct (const_val r) as [dv|] eqn:Cr; [|discriminate]. apply const_val_some in Cr. subst r.
  destruct l; try discriminate. destruct (const_val l2) as [inner|] eqn:Ci; [|discriminate]. apply const_val_some in Ci. subst l2.
  intros B. apply andb_true_iff in B. destruct B as [B1 B2]. apply Z.ltb_lt in B1. apply Z.leb_le in B2.
  intros v D. cbn [denZ] in D |- *. destruct (denZ rho l1) as [x|]; [|discriminate]. cbn [opt2 opZ] in *.
  assert (E1 : (inner =? 0) = false) by (apply Z.eqb_neq; lia).
  assert (E2 : (dv =? 0) = false) by (apply Z.eqb_neq; lia).
  rewrite E1 in *. cbn [opt2 opZ] in D. rewrite E2 in D.
  inversion D. f_equal. symmetry. apply Z.rem_small_iff; [lia|].
  pose proof (Z.rem_bound_abs x inner ltac:(lia)). lia.
Qed.

Lemma simplify_raw_fwd rho a a' c : simplify_raw a = Ok (a', c) -> fwd rho a a'.
Proof.
  unfold simplify_raw. destruct (bin_view a) as [[[op l] r]|] eqn:V.
  - apply bin_view_some in V. subst a.
    destruct (bad_operand l); [discriminate|]. destruct (bad_operand r); [discriminate|].
    assert (REST : match op with
             | OpModulo => if mod_collapse l r then Ok (l, true) else neutralize_raw (mk_bin op l r)
             | OpLeftShift | OpRightShift => neutralize_raw (mk_bin op l r)
             | _ => simplify_merge op l r end = Ok (a', c) -> fwd rho (mk_bin op l r) a').
    { destruct op; intros H.
      - eapply merge_add_fwd; [reflexivity|exact H].
      - eapply merge_add_fwd; [reflexivity|exact H].
      - eapply merge_mon_fwd; [exact mon_mul|exact H].
      - eapply merge_div_fwd; exact H.
      - destruct (mod_collapse l r) eqn:MC; [inversion H; subst; apply mod_collapse_fwd; exact MC | eapply neutralize_raw_fwd; exact H].
      - eapply merge_mon_fwd; [exact mon_and|exact H].
      - eapply merge_mon_fwd; [exact mon_or|exact H].
      - eapply merge_mon_fwd; [exact mon_xor|exact H].
      - eapply neutralize_raw_fwd; exact H.
      - eapply neutralize_raw_fwd; exact H. }
    destruct (const_val l) as [lv|] eqn:Cl; [|exact REST].
    destruct (const_val r) as [rv|] eqn:Cr; [|exact REST].
    apply const_val_some in Cl, Cr. subst l r.
    destruct (fold_const op lv rv) as [v|e|s] eqn:F; cbn [bind]; try discriminate.
    intros H; inversion H; subst. intros w D. rewrite denZ_mk in D. cbn [denZ opt2] in D.
    cbn [denZ]. f_equal. symmetry. eapply fold_opZ; eassumption.
  - destruct a; try (intros H; inversion H; apply fwd_refl); try (cbn in V; discriminate V).
    + (* neg *) destruct a; try (intros H; inversion H; apply fwd_refl); try discriminate.
      * destruct (v =? i64_min); [discriminate|]. intros H; inversion H; subst. intros w D. cbn in D |- *. exact D.
      * intros H; inversion H; subst. intros w D. cbn [denZ] in D |- *.
        destruct (denZ rho a1) as [x|], (denZ rho a2) as [y|]; cbn [opt2 opZ] in *; try discriminate.
        inversion D. f_equal. lia.
    + (* not *) destruct a; try (intros H; inversion H; apply fwd_refl); try discriminate.
      intros H; inversion H; subst. intros w D. cbn in D |- *. exact D.
    + destruct (bad_operand a); [discriminate|]. intros H; inversion H; apply fwd_refl.
Qed.

(* ------------------------------------------------------------------ simplify, evaluate *)
Lemma simplify_fwd rho a : forall a' c, simplify a = Ok (a', c) -> fwd rho a a'.
Proof.
  induction a using arg_ind'; intros a' c Hs.
  - cbn in Hs. inversion Hs. apply fwd_refl.
  - cbn in Hs. inversion Hs. apply fwd_refl.
  - cbn in Hs. inversion Hs. apply fwd_refl.
  - rewrite simplify_mk in Hs. eapply deep_bin_fwd; [apply simplify_raw_fwd| | |exact Hs]; eauto.
  - cbn [simplify] in Hs. unfold deep_un in Hs. destruct (simplify a) as [[v' cv]|e|s]; cbn [bind] in Hs; try discriminate.
    destruct (simplify_raw (ANeg v')) as [[a'' c'']|e|s] eqn:E; cbn [bind] in Hs; try discriminate. inversion Hs; subst.
    eapply fwd_trans; [apply fwd_neg; eauto|]. eapply simplify_raw_fwd; exact E.
  - cbn [simplify] in Hs. unfold deep_un in Hs. destruct (simplify a) as [[v' cv]|e|s]; cbn [bind] in Hs; try discriminate.
    destruct (simplify_raw (ANot v')) as [[a'' c'']|e|s] eqn:E; cbn [bind] in Hs; try discriminate. inversion Hs; subst.
    eapply fwd_trans; [apply fwd_not; eauto|]. eapply simplify_raw_fwd; exact E.
  - apply fwd_none. reflexivity.
  - apply fwd_none. reflexivity.
  - apply fwd_none. reflexivity.
Qed.

(* rho gives every name the table has a value for (and that is not a register) that value *)
Definition compat (rho : str -> option Z) (lookup : str -> lookup_res) (is_register : str -> bool) : Prop :=
  forall s v, is_register s = false -> lookup s = Found v -> rho s = Some v.

Lemma evaluate_mk' lk ir op l r :
  evaluate lk ir (mk_bin op l r) = eval_bin op (evaluate lk ir l) (evaluate lk ir r).
Proof. destruct op; reflexivity. Qed.

Lemma evaluate_fwd rho lk ir a : compat rho lk ir -> forall a' ev, evaluate lk ir a = Ok (a', ev) -> fwd rho a a'.
Proof.
  intros CP. induction a using arg_ind'; intros a' ev He.
  - cbn in He. inversion He. apply fwd_refl.
  - cbn [evaluate] in He. destruct (ir s) eqn:R; cbn [negb] in He; [inversion He; apply fwd_refl|].
    destruct (lk s) as [v| |] eqn:L; inversion He; subst; try apply fwd_refl.
    intros w D. cbn in D |- *. rewrite (CP s v R L) in D. exact D.
  - cbn in He. inversion He. apply fwd_refl.
  - rewrite evaluate_mk' in He. unfold eval_bin in He.
    destruct (evaluate lk ir a1) as [[l' el]|e|s]; cbn [bind] in He; try discriminate.
    destruct (evaluate lk ir a2) as [[r' er]|e|s]; cbn [bind] in He; try discriminate.
    unfold eval_node in He. destruct (simplify_raw (mk_bin op l' r')) as [[a'' c'']|e|s] eqn:E; cbn [bind] in He; try discriminate.
    inversion He; subst. eapply fwd_trans; [apply fwd_mk; eauto|]. eapply simplify_raw_fwd; exact E.
  - cbn [evaluate] in He. unfold eval_un, eval_node in He.
    destruct (evaluate lk ir a) as [[v' e']|e|s]; cbn [bind] in He; try discriminate.
    destruct (simplify_raw (ANeg v')) as [[a'' c'']|e|s] eqn:E; cbn [bind] in He; try discriminate. inversion He; subst.
    eapply fwd_trans; [apply fwd_neg; eauto|]. eapply simplify_raw_fwd; exact E.
  - cbn [evaluate] in He. unfold eval_un, eval_node in He.
    destruct (evaluate lk ir a) as [[v' e']|e|s]; cbn [bind] in He; try discriminate.
    destruct (simplify_raw (ANot v')) as [[a'' c'']|e|s] eqn:E; cbn [bind] in He; try discriminate. inversion He; subst.
    eapply fwd_trans; [apply fwd_not; eauto|]. eapply simplify_raw_fwd; exact E.
  - apply fwd_none. reflexivity.
  - apply fwd_none. reflexivity.
  - apply fwd_none. reflexivity.
Qed.

(* ------------------------------------------------------------------ the statements *)
Theorem simplify_sound rho e e' c v1 v2 :
  simplify e = Ok (e', c) -> den64 rho e' = Some v1 -> den64 rho e = Some v2 -> v1 = v2.
Proof.
  intros S D1 D2. apply den64_denZ in D1, D2. destruct D1 as [D1 _], D2 as [D2 _].
  pose proof (simplify_fwd rho e _ _ S _ D2) as F. congruence.
Qed.

Theorem neutralize_sound rho e e' c v1 v2 :
  neutralize e = Ok (e', c) -> den64 rho e' = Some v1 -> den64 rho e = Some v2 -> v1 = v2.
Proof.
  intros S D1 D2. apply den64_denZ in D1, D2. destruct D1 as [D1 _], D2 as [D2 _].
  pose proof (neutralize_fwd rho e _ _ S _ D2) as F. congruence.
Qed.

Theorem evaluate_sound rho lk ir e e1 ev v1 v2 : compat rho lk ir ->
  evaluate lk ir e = Ok (e1, ev) -> den64 rho e1 = Some v1 -> den64 rho e = Some v2 -> v1 = v2.
Proof.
  intros CP S D1 D2. apply den64_denZ in D1, D2. destruct D1 as [D1 _], D2 as [D2 _].
  pose proof (evaluate_fwd rho lk ir e CP _ _ S _ D2) as F. congruence.
Qed.

(* staged evaluation: first table lk1 (some names still deferred), then lk2 (they are defined) *)
Theorem staged_sound rho lk1 lk2 ir e e1 ev1 ev2 v1 v2 : compat rho lk1 ir -> compat rho lk2 ir ->
  evaluate lk1 ir e = Ok (e1, ev1) -> evaluate lk2 ir e1 = Ok (AConst v1, ev2) -> den64 rho e = Some v2 -> v1 = v2.
Proof.
  intros C1 C2 S1 S2 D. apply den64_denZ in D. destruct D as [D _].
  pose proof (evaluate_fwd rho lk1 ir e C1 _ _ S1 _ D) as F1.
  pose proof (evaluate_fwd rho lk2 ir e1 C2 _ _ S2 _ F1) as F2. cbn in F2. congruence.
Qed.

Theorem direct_sound rho lk ir e ev v1 v2 : compat rho lk ir ->
  evaluate lk ir e = Ok (AConst v1, ev) -> den64 rho e = Some v2 -> v1 = v2.
Proof.
  intros C S D. apply den64_denZ in D. destruct D as [D _].
  pose proof (evaluate_fwd rho lk ir e C _ _ S _ D) as F. cbn in F. congruence.
Qed.
