(* Outcomes and Rust's i64 checked arithmetic, as used by src/asm/simplify.  Model file: no proofs. *)
From Coq Require Import ZArith List Bool.
From Trion Require Import Text.Types.
Import ListNotations.
Open Scope Z_scope.

(* OverflowError's variants; LeftShift and RightShift are one class (the code reports LeftShift for both). *)
Inductive ovf_kind := OvAdd | OvNegate | OvSubtract | OvMultiply | OvDivideByZero | OvDivide
                    | OvModuloByZero | OvModulo | OvShift.

(* SimplifyError / EvalError, reduced to their class *)
Inductive err := EBadType | EOverflow (k : ovf_kind) | ENoSuchVariable.

(* Panic n: the n-th unreachable!() / assert! / unwrap site (numbered in SimplifyModel.v) *)
Inductive outcome (A : Type) := Ok (a : A) | Err (e : err) | Panic (site : N).
Arguments Ok {A} a.
Arguments Err {A} e.
Arguments Panic {A} site.

Definition bind {A B} (o : outcome A) (f : A -> outcome B) : outcome B :=
  match o with Ok a => f a | Err e => Err e | Panic s => Panic s end.

Definition of_opt (k : ovf_kind) (o : option Z) : outcome Z :=
  match o with Some v => Ok v | None => Err (EOverflow k) end.

Definition i64_min : Z := -9223372036854775808.
Definition i64_max : Z := 9223372036854775807.
Definition in_i64 (z : Z) : bool := (i64_min <=? z) && (z <=? i64_max).
Definition chk (z : Z) : option Z := if in_i64 z then Some z else None.

Definition checked_add (a b : Z) : option Z := chk (a + b).
Definition checked_sub (a b : Z) : option Z := chk (a - b).
Definition checked_mul (a b : Z) : option Z := chk (a * b).
(* i64::checked_neg: None iff self == MIN *)
Definition checked_neg (a : Z) : option Z := if a =? i64_min then None else Some (- a).
(* i64::checked_div / checked_rem: None iff rhs == 0 || (self == MIN && rhs == -1); truncation toward zero *)
Definition checked_div (a b : Z) : option Z :=
  if b =? 0 then None else if (a =? i64_min) && (b =? -1) then None else Some (Z.quot a b).
Definition checked_rem (a b : Z) : option Z :=
  if b =? 0 then None else if (a =? i64_min) && (b =? -1) then None else Some (Z.rem a b).

(* two's-complement wrap of an unbounded integer into i64 *)
Definition wrap64 (z : Z) : Z := (z + 9223372036854775808) mod 18446744073709551616 - 9223372036854775808.

(* u32::try_from(i64).ok() *)
Definition u32_try_from (z : Z) : option Z := if (0 <=? z) && (z <=? 4294967295) then Some z else None.
(* i64::checked_shl(u32) / checked_shr(u32): None iff amount >= 64; otherwise wrapping shl / arithmetic shr *)
Definition checked_shl (a s : Z) : option Z := if s <? 64 then Some (wrap64 (Z.shiftl a s)) else None.
Definition checked_shr (a s : Z) : option Z := if s <? 64 then Some (Z.shiftr a s) else None.

(* ---- generic view of the ten binary node kinds ---- *)
Definition mk_bin (op : binop) (l r : arg) : arg :=
  match op with
  | OpAdd => AAdd l r | OpSubtract => ASub l r | OpMultiply => AMul l r | OpDivide => ADiv l r | OpModulo => AMod l r
  | OpBitAnd => AAnd l r | OpBitOr => AOr l r | OpBitXor => AXor l r | OpLeftShift => AShl l r | OpRightShift => AShr l r
  end.

Definition bin_view (a : arg) : option (binop * arg * arg) :=
  match a with
  | AAdd l r => Some (OpAdd, l, r) | ASub l r => Some (OpSubtract, l, r) | AMul l r => Some (OpMultiply, l, r)
  | ADiv l r => Some (OpDivide, l, r) | AMod l r => Some (OpModulo, l, r) | AAnd l r => Some (OpBitAnd, l, r)
  | AOr l r => Some (OpBitOr, l, r) | AXor l r => Some (OpBitXor, l, r) | AShl l r => Some (OpLeftShift, l, r)
  | AShr l r => Some (OpRightShift, l, r)
  | _ => None
  end.

Definition const_val (a : arg) : option Z := match a with AConst v => Some v | _ => None end.
Definition is_const (a : arg) : bool := match a with AConst _ => true | _ => false end.
(* matches!(x, Argument::String(..) | Argument::Address(..) | Argument::Sequence(..)) *)
Definition bad_operand (a : arg) : bool := match a with AStr _ | AAddr _ | ASeq _ => true | _ => false end.

Definition is_add (op : binop) : bool := match op with OpAdd => true | _ => false end.
Definition is_sub (op : binop) : bool := match op with OpSubtract => true | _ => false end.
Definition is_div (op : binop) : bool := match op with OpDivide => true | _ => false end.
Definition is_addsub (op : binop) : bool := match op with OpAdd | OpSubtract => true | _ => false end.
Definition binop_eqb (a b : binop) : bool :=
  match a, b with
  | OpAdd, OpAdd | OpSubtract, OpSubtract | OpMultiply, OpMultiply | OpDivide, OpDivide | OpModulo, OpModulo
  | OpBitAnd, OpBitAnd | OpBitOr, OpBitOr | OpBitXor, OpBitXor | OpLeftShift, OpLeftShift | OpRightShift, OpRightShift => true
  | _, _ => false
  end.

(* the two-constant branch of simplify_raw (mod.rs:191-233); also the operator semantics of den64 *)
Definition fold_const (op : binop) (lv rv : Z) : outcome Z :=
  match op with
  | OpAdd => of_opt OvAdd (checked_add lv rv)
  | OpSubtract => of_opt OvSubtract (checked_sub lv rv)
  | OpMultiply => of_opt OvMultiply (checked_mul lv rv)
  | OpDivide => if rv =? 0 then Err (EOverflow OvDivideByZero) else of_opt OvDivide (checked_div lv rv)
  | OpModulo => if rv =? 0 then Err (EOverflow OvModuloByZero) else of_opt OvModulo (checked_rem lv rv)
  | OpBitAnd => Ok (Z.land lv rv)
  | OpBitOr => Ok (Z.lor lv rv)
  | OpBitXor => Ok (Z.lxor lv rv)
  | OpLeftShift => match u32_try_from rv with None => Err (EOverflow OvShift) | Some s => of_opt OvShift (checked_shl lv s) end
  | OpRightShift => match u32_try_from rv with None => Err (EOverflow OvShift) | Some s => of_opt OvShift (checked_shr lv s) end
  end.
