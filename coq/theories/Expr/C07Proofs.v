(* C07: on literal trees the evaluator computes exactly what Denote.ideal prescribes. *)
From Coq Require Import ZArith Lia Bool List.
From Trion Require Import Text.Types Expr.I64 Expr.I64Facts Expr.SimplifyModel Expr.EvalModel Expr.Denote.
Import ListNotations.
Open Scope Z_scope.

Lemma bin_view_mk op l r : bin_view (mk_bin op l r) = Some (op, l, r).
Proof. destruct op; reflexivity. Qed.

Lemma arith_spec z : arith z = if in_i64 z then Val z else Error.
Proof.
  unfold arith. rewrite pow63.
  destruct (in_i64 z) eqn:E; [apply in_i64_iff in E | apply in_i64_false in E];
  destruct (Z.leb_spec (- (9223372036854775808)) z), (Z.ltb_spec z 9223372036854775808); cbn [andb];
  try reflexivity; exfalso; lia.
Qed.

(* the operator table of Denote.ideal *)
Definition ideal_op (op : binop) : Z -> Z -> ideal_result :=
  match op with
  | OpAdd => fun x y => arith (x + y) | OpSubtract => fun x y => arith (x - y) | OpMultiply => fun x y => arith (x * y)
  | OpDivide => ideal_div | OpModulo => ideal_rem
  | OpBitAnd => fun x y => Val (Z.land x y) | OpBitOr => fun x y => Val (Z.lor x y) | OpBitXor => fun x y => Val (Z.lxor x y)
  | OpLeftShift => ideal_shl | OpRightShift => ideal_shr
  end.

Lemma ideal_mk op l r : ideal (mk_bin op l r) = ideal2 (ideal_op op) (ideal l) (ideal r).
Proof. destruct op; reflexivity. Qed.

(* what the implementation may answer when the oracle says [i]: a claim only when [i] is not Open *)
Definition agrees (o : outcome Z) (i : ideal_result) : Prop :=
  match o with
  | Ok v => in_i64 v = true /\ (i = Val v \/ i = Open)
  | Err _ => i = Error \/ i = Open
  | Panic _ => False
  end.

Lemma chk_agrees k z : agrees (of_opt k (chk z)) (arith z).
Proof. rewrite arith_spec. unfold chk. destruct (in_i64 z) eqn:E; cbn; auto. Qed.

(* one integer fact per operator *)
Lemma fold_agrees op a b : in_i64 a = true -> in_i64 b = true -> agrees (fold_const op a b) (ideal_op op a b).
Proof.
  intros Ha Hb. destruct op; cbn [fold_const ideal_op].
  - apply chk_agrees.
  - apply chk_agrees.
  - apply chk_agrees.
  - (* / *) unfold ideal_div. destruct (b =? 0) eqn:Z0; [cbn; auto|]. apply Z.eqb_neq in Z0.
    unfold checked_div. rewrite (proj2 (Z.eqb_neq b 0) Z0).
    destruct ((a =? i64_min) && (b =? -1)) eqn:C.
    + apply andb_true_iff in C. destruct C as [C1 C2]. apply Z.eqb_eq in C1, C2. subst. cbn. auto.
    + assert (N : ~ (a = i64_min /\ b = -1)).
      { intros [-> ->]. cbn in C. discriminate. }
      pose proof (quot_i64 a b Ha Z0 N) as Q. cbn. rewrite arith_spec, Q. auto.
  - (* % *) unfold ideal_rem. destruct (b =? 0) eqn:Z0; [cbn; auto|]. apply Z.eqb_neq in Z0.
    unfold checked_rem. rewrite (proj2 (Z.eqb_neq b 0) Z0).
    change (- 2 ^ 63) with i64_min.
    destruct ((a =? i64_min) && (b =? -1)) eqn:C; [cbn; auto|].
    cbn [of_opt agrees]. split; [apply rem_i64; assumption | auto].
  - cbn. split; [apply land_i64; assumption | auto].
  - cbn. split; [apply lor_i64; assumption | auto].
  - cbn. split; [apply lxor_i64; assumption | auto].
  - (* << *) unfold ideal_shl, u32_try_from.
    destruct (b <? 0) eqn:N.
    { apply Z.ltb_lt in N. replace (0 <=? b) with false by (symmetry; apply Z.leb_gt; lia). cbn. auto. }
    apply Z.ltb_ge in N. replace (0 <=? b) with true by (symmetry; apply Z.leb_le; lia). cbn [orb andb].
    destruct (64 <=? b) eqn:G.
    { apply Z.leb_le in G. destruct (b <=? 4294967295); cbn; [|auto].
      unfold checked_shl. replace (b <? 64) with false by (symmetry; apply Z.ltb_ge; lia). cbn. auto. }
    apply Z.leb_gt in G. replace (b <=? 4294967295) with true by (symmetry; apply Z.leb_le; lia).
    unfold checked_shl. replace (b <? 64) with true by (symmetry; apply Z.ltb_lt; lia). cbn [of_opt agrees].
    split; [apply wrap64_i64|]. rewrite Z.shiftl_mul_pow2 by lia.
    destruct ((0 <=? a) && (a * 2 ^ b <? 2 ^ 63)) eqn:C; [|auto]. left. f_equal. symmetry. apply wrap64_id.
    apply andb_true_iff in C. destruct C as [C1 C2]. apply Z.leb_le in C1. apply Z.ltb_lt in C2. rewrite pow63 in C2.
    apply in_i64_iff. assert (0 < 2 ^ b) by (apply Z.pow_pos_nonneg; lia). nia.
  - (* >> *) unfold ideal_shr, u32_try_from.
    destruct (b <? 0) eqn:N.
    { apply Z.ltb_lt in N. replace (0 <=? b) with false by (symmetry; apply Z.leb_gt; lia). cbn. auto. }
    apply Z.ltb_ge in N. replace (0 <=? b) with true by (symmetry; apply Z.leb_le; lia). cbn [orb andb].
    destruct (64 <=? b) eqn:G.
    { apply Z.leb_le in G. destruct (b <=? 4294967295); cbn; [|auto].
      unfold checked_shr. replace (b <? 64) with false by (symmetry; apply Z.ltb_ge; lia). cbn. auto. }
    apply Z.leb_gt in G. replace (b <=? 4294967295) with true by (symmetry; apply Z.leb_le; lia).
    unfold checked_shr. replace (b <? 64) with true by (symmetry; apply Z.ltb_lt; lia). cbn [of_opt agrees].
    split; [apply shiftr_i64; [assumption|lia]|]. rewrite Z.shiftr_div_pow2 by lia.
    destruct (0 <=? a); auto.
Qed.

(* the same judgement for whole evaluation results *)
Definition eagrees (o : outcome (arg * evaluation)) (i : ideal_result) : Prop :=
  match o with
  | Ok (AConst v, _) => in_i64 v = true /\ (i = Val v \/ i = Open)
  | Ok _ => False
  | Err _ => i = Error \/ i = Open
  | Panic _ => False
  end.

Lemma simplify_raw_consts op a b :
  simplify_raw (mk_bin op (AConst a) (AConst b)) = bind (fold_const op a b) (fun v => Ok (AConst v, true)).
Proof. unfold simplify_raw. rewrite bin_view_mk. reflexivity. Qed.

Lemma eval_bin_agrees op rl rr il ir :
  eagrees rl il -> eagrees rr ir -> eagrees (eval_bin op rl rr) (ideal2 (ideal_op op) il ir).
Proof.
  intros Hl Hr. unfold eval_bin.
  destruct rl as [[tl el]|e|s]; cbn [bind]; [|cbn in *|contradiction].
  2:{ destruct Hl as [-> | ->]; cbn; [destruct ir|]; auto. }
  destruct tl; try contradiction. cbn in Hl. destruct Hl as [Ia Hl].
  destruct rr as [[tr er]|e|s]; cbn [bind]; [|cbn in *|contradiction].
  2:{ destruct Hr as [-> | ->]; destruct Hl as [-> | ->]; cbn; auto. }
  destruct tr; try contradiction. cbn in Hr. destruct Hr as [Ib Hr].
  unfold eval_node. rewrite simplify_raw_consts.
  pose proof (fold_agrees op v v0 Ia Ib) as F.
  destruct Hl as [-> | ->]; [|destruct (fold_const op v v0); cbn in *; tauto].
  destruct Hr as [-> | ->]; [|destruct (fold_const op v v0); cbn in *; tauto].
  cbn [ideal2]. destruct (fold_const op v v0); cbn in *; tauto.
Qed.

Lemma evaluate_mk lk ir op l r :
  evaluate lk ir (mk_bin op l r) = eval_bin op (evaluate lk ir l) (evaluate lk ir r).
Proof. destruct op; reflexivity. Qed.

Lemma lit_mk op l r : literal_tree (mk_bin op l r) = literal_tree l && literal_tree r.
Proof. destruct op; reflexivity. Qed.

Lemma lit_agrees lk ir t : literal_tree t = true -> eagrees (evaluate lk ir t) (ideal t).
Proof.
  induction t; intros L; try discriminate L.
  - cbn in *. auto.
  - change (AAdd t1 t2) with (mk_bin OpAdd t1 t2) in *. rewrite lit_mk in L. apply andb_true_iff in L. destruct L.
    rewrite evaluate_mk, ideal_mk. apply eval_bin_agrees; auto.
  - (* neg *) cbn [literal_tree] in L. specialize (IHt L). cbn [evaluate ideal]. unfold eval_un.
    destruct (evaluate lk ir t) as [[tv ev]|e|s]; cbn [bind]; [|cbn in *|contradiction].
    2:{ destruct IHt as [-> | ->]; cbn; auto. }
    destruct tv; try contradiction. cbn in IHt. destruct IHt as [Iv Hv].
    unfold eval_node. cbn [simplify_raw bin_view].
    destruct (v =? i64_min) eqn:M; cbn.
    + apply Z.eqb_eq in M. subst v. destruct Hv as [-> | ->]; cbn; auto.
    + apply Z.eqb_neq in M. unfold i64_min in M. apply in_i64_iff in Iv.
      assert (I' : in_i64 (- v) = true) by (apply in_i64_iff; lia).
      split; [exact I'|]. destruct Hv as [-> | ->]; cbn; auto. rewrite arith_spec, I'. auto.
  - change (ASub t1 t2) with (mk_bin OpSubtract t1 t2) in *. rewrite lit_mk in L. apply andb_true_iff in L. destruct L.
    rewrite evaluate_mk, ideal_mk. apply eval_bin_agrees; auto.
  - change (AMul t1 t2) with (mk_bin OpMultiply t1 t2) in *. rewrite lit_mk in L. apply andb_true_iff in L. destruct L.
    rewrite evaluate_mk, ideal_mk. apply eval_bin_agrees; auto.
  - change (ADiv t1 t2) with (mk_bin OpDivide t1 t2) in *. rewrite lit_mk in L. apply andb_true_iff in L. destruct L.
    rewrite evaluate_mk, ideal_mk. apply eval_bin_agrees; auto.
  - change (AMod t1 t2) with (mk_bin OpModulo t1 t2) in *. rewrite lit_mk in L. apply andb_true_iff in L. destruct L.
    rewrite evaluate_mk, ideal_mk. apply eval_bin_agrees; auto.
  - (* not *) cbn [literal_tree] in L. specialize (IHt L). cbn [evaluate ideal]. unfold eval_un.
    destruct (evaluate lk ir t) as [[tv ev]|e|s]; cbn [bind]; [|cbn in *|contradiction].
    2:{ destruct IHt as [-> | ->]; cbn; auto. }
    destruct tv; try contradiction. cbn in IHt. destruct IHt as [Iv Hv].
    unfold eval_node. cbn [simplify_raw bin_view bind]. cbn.
    split; [apply lnot_i64; exact Iv|]. destruct Hv as [-> | ->]; cbn; auto.
  - change (AAnd t1 t2) with (mk_bin OpBitAnd t1 t2) in *. rewrite lit_mk in L. apply andb_true_iff in L. destruct L.
    rewrite evaluate_mk, ideal_mk. apply eval_bin_agrees; auto.
  - change (AOr t1 t2) with (mk_bin OpBitOr t1 t2) in *. rewrite lit_mk in L. apply andb_true_iff in L. destruct L.
    rewrite evaluate_mk, ideal_mk. apply eval_bin_agrees; auto.
  - change (AXor t1 t2) with (mk_bin OpBitXor t1 t2) in *. rewrite lit_mk in L. apply andb_true_iff in L. destruct L.
    rewrite evaluate_mk, ideal_mk. apply eval_bin_agrees; auto.
  - change (AShl t1 t2) with (mk_bin OpLeftShift t1 t2) in *. rewrite lit_mk in L. apply andb_true_iff in L. destruct L.
    rewrite evaluate_mk, ideal_mk. apply eval_bin_agrees; auto.
  - change (AShr t1 t2) with (mk_bin OpRightShift t1 t2) in *. rewrite lit_mk in L. apply andb_true_iff in L. destruct L.
    rewrite evaluate_mk, ideal_mk. apply eval_bin_agrees; auto.
Qed.

(* ---- the three statements of C07 ---- *)
Lemma lit_value lk ir t v :
  literal_tree t = true -> ideal t = Val v -> exists ev, evaluate lk ir t = Ok (AConst v, ev).
Proof.
  intros L I. pose proof (lit_agrees lk ir t L) as A. rewrite I in A.
  destruct (evaluate lk ir t) as [[tv ev]|e|s]; cbn in A; try contradiction.
  - destruct tv; try contradiction. destruct A as [_ [A|A]]; [|discriminate]. injection A as ->. eauto.
  - destruct A; discriminate.
Qed.

Lemma lit_error lk ir t :
  literal_tree t = true -> ideal t = Error -> exists e, evaluate lk ir t = Err e.
Proof.
  intros L I. pose proof (lit_agrees lk ir t L) as A. rewrite I in A.
  destruct (evaluate lk ir t) as [[tv ev]|e|s]; cbn in A; try contradiction.
  - destruct tv; try contradiction. destruct A as [_ [A|A]]; discriminate.
  - eauto.
Qed.

Lemma lit_no_panic lk ir t : literal_tree t = true -> forall s, evaluate lk ir t <> Panic s.
Proof.
  intros L s E. pose proof (lit_agrees lk ir t L) as A. rewrite E in A. exact A.
Qed.

(* a literal tree evaluates to a constant in range or to an error, nothing else *)
Lemma lit_total lk ir t : literal_tree t = true ->
  (exists v ev, evaluate lk ir t = Ok (AConst v, ev) /\ in_i64 v = true) \/ (exists e, evaluate lk ir t = Err e).
Proof.
  intros L. pose proof (lit_agrees lk ir t L) as A.
  destruct (evaluate lk ir t) as [[tv ev]|e|s]; cbn in A; try contradiction.
  - destruct tv; try contradiction. left. exists v, ev. tauto.
  - right. eauto.
Qed.

(* ---- the evaluator on a literal tree is the compositional checked semantics den64 (used by C08) ---- *)
Definition dagrees (o : outcome (arg * evaluation)) (d : option Z) : Prop :=
  match o with
  | Ok (AConst v, _) => d = Some v
  | Ok _ => False
  | Err _ => d = None
  | Panic _ => False
  end.

Lemma den64_mk' rho op l r : den64 rho (mk_bin op l r) = opt2 (op64 op) (den64 rho l) (den64 rho r).
Proof. destruct op; reflexivity. Qed.

Lemma of_opt_np' k o s : of_opt k o <> Panic s.
Proof. destruct o; discriminate. Qed.

Lemma fold_np op a b s : fold_const op a b <> Panic s.
Proof.
  destruct op; cbn [fold_const]; try apply of_opt_np'; try discriminate.
  - destruct (b =? 0); [discriminate | apply of_opt_np'].
  - destruct (b =? 0); [discriminate | apply of_opt_np'].
  - destruct (u32_try_from b); [apply of_opt_np' | discriminate].
  - destruct (u32_try_from b); [apply of_opt_np' | discriminate].
Qed.

Lemma eval_bin_dagrees op rl rr dl dr :
  dagrees rl dl -> dagrees rr dr -> dagrees (eval_bin op rl rr) (opt2 (op64 op) dl dr).
Proof.
  intros Hl Hr. unfold eval_bin.
  destruct rl as [[tl el]|e|s]; cbn [bind]; [|cbn in *; subst; reflexivity|contradiction].
  destruct tl; try contradiction. cbn in Hl. subst dl.
  destruct rr as [[tr er]|e|s]; cbn [bind]; [|cbn in *; subst; reflexivity|contradiction].
  destruct tr; try contradiction. cbn in Hr. subst dr.
  unfold eval_node. rewrite simplify_raw_consts. cbn [opt2]. unfold op64.
  destruct (fold_const op v v0) as [w|e|s] eqn:F; cbn; auto. exact (fold_np _ _ _ _ F).
Qed.

Lemma lit_dagrees lk ir rho t : literal_tree t = true -> dagrees (evaluate lk ir t) (den64 rho t).
Proof.
  induction t; intros L; try discriminate L.
  - cbn in *. unfold chk. rewrite L. reflexivity.
  - change (AAdd t1 t2) with (mk_bin OpAdd t1 t2) in *. rewrite lit_mk in L. apply andb_true_iff in L. destruct L.
    rewrite evaluate_mk, den64_mk'. apply eval_bin_dagrees; auto.
  - (* neg *) cbn [literal_tree] in L. specialize (IHt L). cbn [evaluate den64]. unfold eval_un.
    destruct (evaluate lk ir t) as [[tv ev]|e|s]; cbn [bind]; [|cbn in *; rewrite IHt; reflexivity|contradiction].
    destruct tv; try contradiction. cbn in IHt. rewrite IHt.
    unfold eval_node. cbn [simplify_raw bin_view]. unfold checked_neg.
    destruct (v =? i64_min); cbn; reflexivity.
  - change (ASub t1 t2) with (mk_bin OpSubtract t1 t2) in *. rewrite lit_mk in L. apply andb_true_iff in L. destruct L.
    rewrite evaluate_mk, den64_mk'. apply eval_bin_dagrees; auto.
  - change (AMul t1 t2) with (mk_bin OpMultiply t1 t2) in *. rewrite lit_mk in L. apply andb_true_iff in L. destruct L.
    rewrite evaluate_mk, den64_mk'. apply eval_bin_dagrees; auto.
  - change (ADiv t1 t2) with (mk_bin OpDivide t1 t2) in *. rewrite lit_mk in L. apply andb_true_iff in L. destruct L.
    rewrite evaluate_mk, den64_mk'. apply eval_bin_dagrees; auto.
  - change (AMod t1 t2) with (mk_bin OpModulo t1 t2) in *. rewrite lit_mk in L. apply andb_true_iff in L. destruct L.
    rewrite evaluate_mk, den64_mk'. apply eval_bin_dagrees; auto.
  - (* not *) cbn [literal_tree] in L. specialize (IHt L). cbn [evaluate den64]. unfold eval_un.
    destruct (evaluate lk ir t) as [[tv ev]|e|s]; cbn [bind]; [|cbn in *; rewrite IHt; reflexivity|contradiction].
    destruct tv; try contradiction. cbn in IHt. rewrite IHt. cbn. reflexivity.
  - change (AAnd t1 t2) with (mk_bin OpBitAnd t1 t2) in *. rewrite lit_mk in L. apply andb_true_iff in L. destruct L.
    rewrite evaluate_mk, den64_mk'. apply eval_bin_dagrees; auto.
  - change (AOr t1 t2) with (mk_bin OpBitOr t1 t2) in *. rewrite lit_mk in L. apply andb_true_iff in L. destruct L.
    rewrite evaluate_mk, den64_mk'. apply eval_bin_dagrees; auto.
  - change (AXor t1 t2) with (mk_bin OpBitXor t1 t2) in *. rewrite lit_mk in L. apply andb_true_iff in L. destruct L.
    rewrite evaluate_mk, den64_mk'. apply eval_bin_dagrees; auto.
  - change (AShl t1 t2) with (mk_bin OpLeftShift t1 t2) in *. rewrite lit_mk in L. apply andb_true_iff in L. destruct L.
    rewrite evaluate_mk, den64_mk'. apply eval_bin_dagrees; auto.
  - change (AShr t1 t2) with (mk_bin OpRightShift t1 t2) in *. rewrite lit_mk in L. apply andb_true_iff in L. destruct L.
    rewrite evaluate_mk, den64_mk'. apply eval_bin_dagrees; auto.
Qed.

Lemma lit_refines_den64 lk ir rho t v : literal_tree t = true ->
  ((exists ev, evaluate lk ir t = Ok (AConst v, ev)) <-> den64 rho t = Some v).
Proof.
  intros L. pose proof (lit_dagrees lk ir rho t L) as A. split.
  - intros [ev E]. rewrite E in A. exact A.
  - intros D. rewrite D in A. destruct (evaluate lk ir t) as [[tv ev]|e|s]; cbn in A; try contradiction; try discriminate.
    destruct tv; try contradiction. inversion A; subst. eauto.
Qed.
